package c08

import (
	"bytes"
	"fmt"
	"math/big"
	"runtime/debug"
	"strings"
	"sync"

	"github.com/bronlabs/bron-crypto/pkg/base/curves/k256"
	"github.com/bronlabs/bron-crypto/pkg/base/nt/num"
	"github.com/bronlabs/bron-crypto/pkg/base/serde"
	"github.com/bronlabs/bron-crypto/pkg/encryption/paillier"
	"github.com/bronlabs/bron-crypto/pkg/mpc/session"
	"github.com/bronlabs/bron-crypto/pkg/proofs/paillier/lp"
	"github.com/bronlabs/bron-crypto/pkg/proofs/paillier/lpdl"
	"github.com/bronlabs/bron-crypto/pkg/proofs/paillier/pailliern"
	"github.com/bronlabs/bron-crypto/pkg/proofs/sigma/compiler"
	"github.com/bronlabs/bron-crypto/pkg/proofs/sigma/compiler/fiatshamir"

	"verifmc/engine"
)

// ---------------------------------------------------------------------------------------------
// generic driver for the interactive (5-move) Paillier protocols LP and LPDL: honest run, then every single edit
// of every message (CBOR tree of its serde encoding); the verifier must never accept an edited run.

type interactive struct {
	name  string
	nMsgs int
	mode  bitMode
	idx   idxAlphabet
	chunk int // edits per execution (default 8)
	// run executes the protocol; ed may replace the encoding of message m (1-based). stage: "accept", "noop",
	// "exempt", "ISOLATE:<class>", "PANIC@site|msg", or "<round>:<error>".
	run func(ed zkEdit, screen bool) (accepted bool, stage string, msgs [][]byte)
	// admit (optional) evaluates the documented admission rule of the construction; when it reports false the
	// honest run must be refused
	admit func() (bool, string)
}

// zkEdit edits one message of the CURRENT run (errgroup workers may interleave reads of the shared randomness, so the
// messages of two runs need not be byte-identical; edits are therefore always applied to the run's own message).
type zkEdit func(msg int, raw []byte) []byte

var (
	iaMu       sync.Mutex
	iaRegistry = map[string]*interactive{}
)

func registerIA(ia *interactive) {
	iaMu.Lock()
	iaRegistry[ia.name] = ia
	iaMu.Unlock()
}

// step passes one typed message through the edit layer.
func step[T any](m int, v T, ed zkEdit, screen bool, msgs [][]byte) (T, string) {
	raw := must(serde.MarshalCBOR(v))
	msgs[m] = raw
	b := ed(m, raw)
	if b == nil {
		return v, ""
	}
	if bytes.Equal(b, raw) {
		return v, "noop"
	}
	base := nilPaths(v)
	nv, err := serde.UnmarshalCBOR[T](b)
	if err != nil {
		return v, fmt.Sprintf("decode-msg%d:%v", m, err)
	}
	if rb, err := serde.MarshalCBOR(nv); err == nil && bytes.Equal(rb, raw) {
		return v, "exempt"
	}
	if np := nilPaths(nv); screen && !sameStrings(np, base) {
		return v, "ISOLATE:" + nilClass(base, np)
	}
	return nv, ""
}

func recoverStage(accepted *bool, stage *string) {
	if r := recover(); r != nil {
		if he, ok := r.(engine.HarnessError); ok {
			panic(he)
		}
		*accepted, *stage = false, fmt.Sprintf("PANIC@%s|%v", libSite(string(debug.Stack())), r)
	}
}

// bareCtx is a session context without the prover-id clone step (LP/LPDL take the two-party context directly).
func bareCtx(s ctxSpec) *session.Context { return s.build() }

func lpCase(bits, k int) *interactive {
	sk := paillierKey("general", bits)
	ia := &interactive{name: fmt.Sprintf("lp/%d/k%d", bits, k), nMsgs: 4, mode: bitsLSB, idx: idx2}
	ia.run = func(ed zkEdit, screen bool) (accepted bool, stage string, msgs [][]byte) {
		msgs = make([][]byte, 5)
		defer recoverStage(&accepted, &stage)
		ve, err := lp.NewVerifier(bareCtx(verifierCtx()), k, sk.Public(), stream(ia.name+"/v"))
		if err != nil {
			return false, "NewVerifier:" + err.Error(), msgs
		}
		pr, err := lp.NewProver(bareCtx(proverCtx()), k, sk, stream(ia.name+"/p"))
		if err != nil {
			return false, "NewProver:" + err.Error(), msgs
		}
		r1, err := ve.Round1()
		if err != nil {
			return false, "Round1:" + err.Error(), msgs
		}
		r1, st := step(1, r1, ed, screen, msgs)
		if st != "" {
			return false, st, msgs
		}
		r2, err := pr.Round2(r1)
		if err != nil {
			return false, "Round2:" + err.Error(), msgs
		}
		if r2, st = step(2, r2, ed, screen, msgs); st != "" {
			return false, st, msgs
		}
		r3, err := ve.Round3(r2)
		if err != nil {
			return false, "Round3:" + err.Error(), msgs
		}
		if r3, st = step(3, r3, ed, screen, msgs); st != "" {
			return false, st, msgs
		}
		r4, err := pr.Round4(r3)
		if err != nil {
			return false, "Round4:" + err.Error(), msgs
		}
		if r4, st = step(4, r4, ed, screen, msgs); st != "" {
			return false, st, msgs
		}
		if err := ve.Round5(r4); err != nil {
			return false, "Round5:" + err.Error(), msgs
		}
		return true, "accept", msgs
	}
	registerIA(ia)
	return ia
}

func lpdlCase(bits int) *interactive {
	curve := k256.NewCurve()
	sk := paillierKey("general", bits)
	// x in [q/3, 2q/3)
	q := curve.ScalarField().Order().Big()
	third := new(big.Int).Div(q, big.NewInt(3))
	xBig := new(big.Int).Add(third, new(big.Int).Mod(new(big.Int).SetBytes(take(stream("lpdl/x"), 40)), third))
	x := must(curve.ScalarField().FromBytesBEReduce(xBig.Bytes()))
	xPt := must(paillier.NewPlaintextFromNat(must(num.N().FromBig(xBig)), sk.Group().N()))
	r := pNonce(sk.Public(), fmt.Sprintf("lpdl/%d/r", bits))
	xEnc := must(sk.Public().EncryptWithNonce(xPt, r))
	bigQ := curve.ScalarBaseMul(x)
	mode, idx := bitsLSB, idx1
	if engine.Thorough() {
		idx = idx2
	}
	ia := &interactive{name: fmt.Sprintf("lpdl/%d", bits), nMsgs: 4, mode: mode, idx: idx}
	ia.run = func(ed zkEdit, screen bool) (accepted bool, stage string, msgs [][]byte) {
		msgs = make([][]byte, 5)
		defer recoverStage(&accepted, &stage)
		ve, err := lpdl.NewVerifier(bareCtx(verifierCtx()), sk.Public(), bigQ, xEnc, stream(ia.name+"/v"))
		if err != nil {
			return false, "NewVerifier:" + err.Error(), msgs
		}
		pr, err := lpdl.NewProver(bareCtx(proverCtx()), curve, sk, x, r, stream(ia.name+"/p"))
		if err != nil {
			return false, "NewProver:" + err.Error(), msgs
		}
		r1, err := ve.Round1()
		if err != nil {
			return false, "Round1:" + err.Error(), msgs
		}
		r1, st := step(1, r1, ed, screen, msgs)
		if st != "" {
			return false, st, msgs
		}
		r2, err := pr.Round2(r1)
		if err != nil {
			return false, "Round2:" + err.Error(), msgs
		}
		if r2, st = step(2, r2, ed, screen, msgs); st != "" {
			return false, st, msgs
		}
		r3, err := ve.Round3(r2)
		if err != nil {
			return false, "Round3:" + err.Error(), msgs
		}
		if r3, st = step(3, r3, ed, screen, msgs); st != "" {
			return false, st, msgs
		}
		r4, err := pr.Round4(r3)
		if err != nil {
			return false, "Round4:" + err.Error(), msgs
		}
		if r4, st = step(4, r4, ed, screen, msgs); st != "" {
			return false, st, msgs
		}
		if err := ve.Round5(r4); err != nil {
			return false, "Round5:" + err.Error(), msgs
		}
		return true, "accept", msgs
	}
	registerIA(ia)
	return ia
}

// iaBody: choice = protocol x message x chunk of edits.
func iaBody(ias []*interactive) func(*engine.X) {
	none := func(int, []byte) []byte { return nil }
	var honest memo[[][]byte]
	return func(x *engine.X) {
		ia := engine.Pick(x, "protocol", ias)
		if ia.admit != nil {
			if want, why := ia.admit(); !want {
				x.Case(ia.name + "/refusal")
				ok, st, _ := ia.run(none, true)
				if ok {
					failf(x, "interactive/admitted", "%s: admitted outside the documented parameters (%s)", ia.name, why)
				}
				x.Observe(ia.name, " refused at ", stageKey(st), " (", why, ")")
				x.Trivial()
				return
			}
		}
		msgs := honest.get(ia.name, func() [][]byte {
			ok, st, msgs := ia.run(none, true)
			if !ok {
				return [][]byte{[]byte(st)}
			}
			return msgs
		})
		if len(msgs) == 1 {
			failf(x, "interactive/complete", "%s: honest interactive run rejected at %s", ia.name, msgs[0])
			return
		}
		m := 1 + x.Choose("message", ia.nMsgs)
		eds := enumerateEdits(msgs[m], ia.mode, ia.idx)
		iaChunk := ia.chunk
		if iaChunk == 0 {
			iaChunk = 8
		}
		nChunks := (len(eds) + iaChunk - 1) / iaChunk
		ch := x.Choose("chunk", nChunks)
		lo, hi := ch*iaChunk, min((ch+1)*iaChunk, len(eds))
		stages := map[string]int{}
		// structure-changing edits run in a child process (batched): a panic in a library goroutine is unrecoverable
		var risky []int
		for idx := lo; idx < hi; idx++ {
			if c := eds[idx].class; c != "bit" && c != "splice" {
				risky = append(risky, idx)
			}
		}
		childRes := map[int]childResult{}
		if len(risky) > 0 {
			rs := runBatch(len(risky), func(from, to int) (string, []byte) {
				var fs []string
				for _, i := range risky[from:to] {
					fs = append(fs, fmt.Sprint(i))
				}
				return fmt.Sprintf("ia|%s|%d|%s", ia.name, m, strings.Join(fs, ",")), nil
			})
			for k, i := range risky {
				childRes[i] = rs[k]
			}
		}
		for idx := lo; idx < hi; idx++ {
			ed := eds[idx]
			x.Case(fmt.Sprintf("%s/msg%d/%s", ia.name, m, ed.desc))
			var acc bool
			var st string
			if res, ok := childRes[idx]; ok {
				switch res.outcome {
				case "ACCEPT":
					acc, st = true, "accept"
				case "REJECT":
					acc, st = false, res.detail
				case "PANIC":
					acc, st = false, "PANIC@"+res.site+"|"+res.detail
				default:
					acc, st = false, "CRASH@"+res.site+"|"+res.detail
				}
			} else {
				acc, st, _ = ia.run(func(msg int, raw []byte) []byte {
					if msg != m {
						return nil
					}
					return ed.gen(newWalker(raw))
				}, false)
			}
			switch {
			case strings.HasPrefix(st, "CRASH@"):
				site, rest, _ := strings.Cut(strings.TrimPrefix(st, "CRASH@"), "|")
				failf(x, "crash@"+site, "%s: the process was TERMINATED by an unrecoverable panic in a library goroutine (in %s) although only message %d was edited (%s): %s", ia.name, site, m, ed.desc, rest)
			case strings.HasPrefix(st, "PANIC@"):
				site, rest, _ := strings.Cut(strings.TrimPrefix(st, "PANIC@"), "|")
				failf(x, "panic@"+site, "%s: interactive run panicked in %s although only message %d was edited (%s): %s", ia.name, site, m, ed.desc, rest)
			case acc:
				failf(x, fmt.Sprintf("accepted/%s/interactive/msg%d/%s@%s", family(ia.name), m, ed.class, genericPath(ed.desc)), "%s: verifier ACCEPTED although message %d was edited: %s", ia.name, m, ed.desc)
			default:
				stages[stageKey(st)]++
			}
		}
		x.Observe(ia.name, " msg ", m, " chunk ", ch, " ", fmt.Sprint(stages))
	}
}

// ---------------------------------------------------------------------------------------------
// pailliern: the library's own non-interactive proof that N is a Paillier modulus (not a sigma.Protocol); adapted
// to the niInst interface so that the context/statement/proof-edit sections apply unchanged (Fiat-Shamir slot).

func paillierNInst(bits int) *niInst {
	keys := map[int]*paillier.SecretKey{0: paillierKey("general", bits), 1: paillierKey("blum", bits)}
	n := &niInst{name: fmt.Sprintf("pailliern/%d", bits), heavy: true, unitMS: 60, noRename: true, soundnessError: 128, specialSoundness: 2}
	n.altNames = func() []string { return []string{"N:=other-public-key"} }
	n.compileErr = func(c compiler.Name) error {
		if c != fiatshamir.Name {
			return fmt.Errorf("pailliern is its own non-interactive proof; no %s variant", c)
		}
		return nil
	}
	n.prove = func(_ compiler.Name, ctx *session.Context, inst int, _ string) ([]byte, error) {
		// pailliern's verifier is one call (no construct/use split), so "after construction" cannot be expressed on that
		// side; for both sides the late append therefore happens before the protocol touches the transcript
		runLate(ctx)
		pr, err := pailliern.NewProver(ctx.SessionID(), keys[inst], ctx.Transcript())
		if err != nil {
			return nil, err
		}
		proof, _, err := pr.Prove()
		if err != nil {
			return nil, err
		}
		return serde.MarshalCBOR(proof)
	}
	n.verify = func(_ compiler.Name, ctx *session.Context, sel stmtSel, proof []byte) error {
		if sel.renamed {
			return fmt.Errorf("n/a")
		}
		p, err := serde.UnmarshalCBOR[*pailliern.Proof](proof)
		if err != nil {
			return err
		}
		k := keys[0]
		if sel.kind != 0 {
			k = keys[1]
		}
		runLate(ctx) // one-shot verifier: "after construction" coincides with "before Verify"
		return pailliern.Verify(ctx.SessionID(), ctx.Transcript(), k.Public(), p)
	}
	n.recode = func(_ compiler.Name, proof []byte) ([]byte, error) {
		p, err := serde.UnmarshalCBOR[*pailliern.Proof](proof)
		if err != nil {
			return nil, err
		}
		return serde.MarshalCBOR(p)
	}
	n.nils = func(_ compiler.Name, proof []byte) ([]string, error) {
		p, err := serde.UnmarshalCBOR[*pailliern.Proof](proof)
		if err != nil {
			return nil, err
		}
		return nilPaths(p), nil
	}
	register(n)
	return n
}
