package c04

// Boldyreva threshold BLS signing (pkg/mpc/signatures/bls/boldyreva02 + .../signing) under a single deviating cosigner.
//
// The protocol is non-interactive: every cosigner of the quorum produces ONE message, its PartialSignature, and an
// aggregator combines them. The space is therefore: key-group variant (one section each) x rogue-key prevention mode x
// quorum x deviating cosigner x aggregator (outside / first honest quorum member) x one alteration of the deviator's
// CBOR-encoded partial signature (every node of its tree x every applicable operator of opsFor/applyOp, plus
// whole-message and coordinated edits). Every element is one real decode (serde.UnmarshalCBOR) + one real Aggregate.
//
// Independent oracle (copied from checks/c01, the minimal part): sigma == [sk]*H_dst(m) in math/big curve arithmetic,
// with sk reconstructed by ref/linalg from ALL dealt shares and H taken from the library (hash-to-curve is C19's
// subject); in POP mode additionally pop == [sk]*H_pop(pk).

import (
	"github.com/bronlabs/bron-crypto/pkg/mpc/sharing/accessstructures/cnf"
	"github.com/bronlabs/bron-crypto/pkg/mpc/sharing/accessstructures"
	"bytes"
	"fmt"
	"math/big"
	"os"
	"runtime/debug"
	"slices"
	"sort"
	"strings"
	"sync"
	"time"

	"github.com/bronlabs/bron-crypto/pkg/base"
	"github.com/bronlabs/bron-crypto/pkg/base/algebra"
	"github.com/bronlabs/bron-crypto/pkg/base/curves"
	"github.com/bronlabs/bron-crypto/pkg/base/curves/pairable/bls12381"
	"github.com/bronlabs/bron-crypto/pkg/base/datastructures/hashmap"
	"github.com/bronlabs/bron-crypto/pkg/base/serde"
	"github.com/bronlabs/bron-crypto/pkg/mpc"
	"github.com/bronlabs/bron-crypto/pkg/mpc/signatures/bls/boldyreva02"
	"github.com/bronlabs/bron-crypto/pkg/signatures/bls"

	"verifmc/engine"
	"verifmc/proto"
	"verifmc/ref/cbor"
	"verifmc/ref/conv"
	"verifmc/ref/curve"
	"verifmc/ref/curve/libcurve"
	"verifmc/ref/linalg"
	"verifmc/ref/sig"
)

// Domain separation tags typed in from draft-irtf-cfrg-bls-signature (section 4.2): [signature group][mode].
var bolDST = map[string]map[bls.RogueKeyPreventionAlgorithm]string{
	"G2": {
		bls.Basic:               "BLS_SIG_BLS12381G2_XMD:SHA-256_SSWU_RO_NUL_",
		bls.MessageAugmentation: "BLS_SIG_BLS12381G2_XMD:SHA-256_SSWU_RO_AUG_",
		bls.POP:                 "BLS_SIG_BLS12381G2_XMD:SHA-256_SSWU_RO_POP_",
	},
	"G1": {
		bls.Basic:               "BLS_SIG_BLS12381G1_XMD:SHA-256_SSWU_RO_NUL_",
		bls.MessageAugmentation: "BLS_SIG_BLS12381G1_XMD:SHA-256_SSWU_RO_AUG_",
		bls.POP:                 "BLS_SIG_BLS12381G1_XMD:SHA-256_SSWU_RO_POP_",
	},
}
var bolPopDST = map[string]string{
	"G2": "BLS_POP_BLS12381G2_XMD:SHA-256_SSWU_RO_POP_",
	"G1": "BLS_POP_BLS12381G1_XMD:SHA-256_SSWU_RO_POP_",
}

type bolMode struct {
	name string
	alg  bls.RogueKeyPreventionAlgorithm
}

var bolModes = []bolMode{{"basic", bls.Basic}, {"aug", bls.MessageAugmentation}, {"pop", bls.POP}}

var (
	bolIDs     = []proto.ID{1, 2, 3}
	bolQuorums = [][]proto.ID{{1, 2}, {1, 2, 3}}
	bolMsg     = []byte("m")
	bolOther   = []byte("other")
)

const (
	bolPathSigma    = "$>sigma_i"
	bolPathSigmaPop = "$>sigma_pop_i"
)

// bolFault is one alteration of the deviator's encoded partial signature.
type bolFault struct {
	Path string // node path inside the CBOR tree ("" for whole-message / coordinated operators)
	Op   string
}

// bolRefSecret solves lambda^T * M = e0 over all MSP rows in math/big and returns sum lambda_r * share_r mod q
// (copy of checks/c01 refSecret).
func bolRefSecret[E algebra.PrimeGroupElement[E, S], S algebra.PrimeFieldElement[S]](q *big.Int, shards map[proto.ID]*mpc.BaseShard[E, S]) (*big.Int, error) {
	var first *mpc.BaseShard[E, S]
	ids := make([]proto.ID, 0, len(shards))
	for id := range shards {
		ids = append(ids, id)
	}
	sort.Slice(ids, func(i, j int) bool { return ids[i] < ids[j] })
	if len(ids) == 0 {
		return nil, fmt.Errorf("no shards")
	}
	first = shards[ids[0]]
	lm := first.MSP().Matrix()
	rows, cols := lm.Dimensions()
	M := linalg.New(q, rows, cols)
	for i := 0; i < rows; i++ {
		for j := 0; j < cols; j++ {
			e, err := lm.Get(i, j)
			if err != nil {
				return nil, err
			}
			M.A[i][j] = conv.ToBig(e)
		}
	}
	rowsOf := map[proto.ID][]int{}
	for r := 0; r < rows; r++ {
		h, ok := first.MSP().RowsToHolders().Get(r)
		if !ok {
			return nil, fmt.Errorf("MSP row %d has no holder", r)
		}
		rowsOf[h] = append(rowsOf[h], r)
	}
	share := make([]*big.Int, rows)
	for _, id := range ids {
		sv := shards[id].Share().Value()
		if len(sv) != len(rowsOf[id]) {
			return nil, fmt.Errorf("party %d: %d share components for %d MSP rows", id, len(sv), len(rowsOf[id]))
		}
		for j, r := range rowsOf[id] {
			share[r] = conv.ToBig(sv[j])
		}
	}
	for r := range share {
		if share[r] == nil {
			return nil, fmt.Errorf("no share component for MSP row %d", r)
		}
	}
	e0 := make([]*big.Int, cols)
	for i := range e0 {
		e0[i] = new(big.Int)
	}
	e0[0] = big.NewInt(1)
	lambda, ok := M.Transpose().SolveRight(e0)
	if !ok {
		return nil, fmt.Errorf("the target vector is not in the row span of the full MSP")
	}
	acc := new(big.Int)
	for r := 0; r < rows; r++ {
		acc.Add(acc, new(big.Int).Mul(lambda[r], share[r]))
	}
	return acc.Mod(acc, q), nil
}

// bolCatch runs f; a panic is returned as text (message + first library frame). Harness errors are passed on.
func bolCatch(f func()) (pan string) {
	defer func() {
		if r := recover(); r != nil {
			if he, ok := r.(engine.HarnessError); ok {
				panic(he)
			}
			pan = fmt.Sprintf("%v [first library frame: %s]", r, bolFirstLibFrame(string(debug.Stack())))
		}
	}()
	f()
	return ""
}

func bolFirstLibFrame(stack string) string {
	lines := strings.Split(stack, "\n")
	for i, l := range lines {
		if strings.HasPrefix(l, "github.com/bronlabs/bron-crypto/") {
			fn := l
			if j := strings.LastIndexByte(fn, '('); j > 0 {
				fn = fn[:j]
			}
			if i+1 < len(lines) {
				loc := strings.TrimSpace(lines[i+1])
				if j := strings.IndexByte(loc, ' '); j > 0 {
					loc = loc[:j]
				}
				return fn + " at " + loc
			}
			return fn
		}
	}
	return "none"
}

// bolReplaceNode puts a clone of repl where the node at path is.
func bolReplaceNode(tr *cbor.Node, path string, repl *cbor.Node) bool {
	r := cbor.Find(tr, path)
	if r == nil {
		return false
	}
	*r.Node = *repl.Clone()
	return true
}

// bolApplyWhole implements the whole-message and coordinated operators. other = another cosigner's partial signature
// (same mode, message), otherMsg = the deviator's own partial signature over another message, popVec = the deviator's
// own POP-mode partial signature over the same message (non-POP modes: source of a well-formed sigma_pop_i vector).
func bolApplyWhole(op string, payload, other, otherMsg, popVec []byte) (out []byte, applied bool, note string) {
	switch op {
	case "replace-other-cosigner":
		out = other
	case "replace-other-message":
		out = otherMsg
	default:
		tr, err := cbor.Parse(payload)
		if err != nil {
			return nil, false, "payload unparsable"
		}
		arr := func(path string) *cbor.Node {
			r := cbor.Find(tr, path)
			if r == nil || r.Node.Kind != cbor.Array {
				return nil
			}
			return r.Node
		}
		truncate := func(path string) bool {
			n := arr(path)
			if n == nil || len(n.Items) == 0 {
				return false
			}
			n.Items = n.Items[:len(n.Items)-1]
			return true
		}
		empty := func(path string) bool {
			n := arr(path)
			if n == nil {
				return false
			}
			n.Items = nil
			return true
		}
		ok := false
		switch op {
		case "truncate-both":
			a, b := truncate(bolPathSigma), truncate(bolPathSigmaPop)
			ok = a && b
		case "truncate-sigma_i":
			ok = truncate(bolPathSigma)
		case "truncate-sigma_pop_i":
			ok = truncate(bolPathSigmaPop)
		case "empty-list-sigma_i":
			ok = empty(bolPathSigma)
		case "empty-list-sigma_pop_i":
			ok = empty(bolPathSigmaPop)
		case "attach-pop-vector":
			dt, err := cbor.Parse(popVec)
			if err != nil {
				return nil, false, "donor unparsable"
			}
			d := cbor.Find(dt, bolPathSigmaPop)
			if d == nil || d.Node.Kind != cbor.Array {
				return nil, false, "donor has no sigma_pop_i vector"
			}
			ok = bolReplaceNode(tr, bolPathSigmaPop, d.Node)
		case "attach-empty-pop-list":
			ok = bolReplaceNode(tr, bolPathSigmaPop, &cbor.Node{Kind: cbor.Array})
		default:
			return nil, false, "unknown op"
		}
		if !ok {
			return nil, false, "vector not present"
		}
		out = cbor.Encode(tr)
	}
	if out == nil || bytes.Equal(out, payload) {
		return nil, false, "no change"
	}
	return out, true, ""
}

// bolNegatePoint flips the sign bit (0x20 of the first byte) of a compressed BLS12-381 point.
func bolNegatePoint(payload []byte, path string) ([]byte, bool, string) {
	tr, err := cbor.Parse(payload)
	if err != nil {
		return nil, false, "payload unparsable"
	}
	r := cbor.Find(tr, path)
	if r == nil || r.Node.Kind != cbor.Bytes || len(r.Node.Data) == 0 {
		return nil, false, "path not present"
	}
	r.Node.Data[0] ^= 0x20
	return cbor.Encode(tr), true, ""
}

// bolUnused: the altered component is provably not read in that mode. PartialSignature.Validate and
// Aggregator.Aggregate touch SigmaPopI only under `rogueKeyPrevention == bls.POP`; in the Basic and
// MessageAugmentation modes nothing of sigma_pop_i reaches a check or the output.
func bolUnused(mode bolMode, f bolFault) bool {
	if mode.alg == bls.POP {
		return false
	}
	if f.Path == bolPathSigmaPop || strings.HasPrefix(f.Path, bolPathSigmaPop+"[") || strings.HasPrefix(f.Path, bolPathSigmaPop+">") {
		return true
	}
	return f.Path == "" && (f.Op == "attach-pop-vector" || f.Op == "attach-empty-pop-list")
}

type bolSection struct {
	name string
	body func(*engine.X)
	note func() []string
}

func mkBoldyreva[
	PK curves.PairingFriendlyPoint[PK, PKFE, SG, SGFE, E, S], PKFE algebra.FieldElement[PKFE],
	SG curves.PairingFriendlyPoint[SG, SGFE, PK, PKFE, E, S], SGFE algebra.FieldElement[SGFE],
	E algebra.MultiplicativeGroupElement[E], S algebra.PrimeFieldElement[S],
	KE, SE any,
](
	v proto.C01BLS[PK, PKFE, SG, SGFE, E, S],
	keyGroup curves.PairingFriendlyCurve[PK, PKFE, SG, SGFE, E, S],
	sigGroup curves.PairingFriendlyCurve[SG, SGFE, PK, PKFE, E, S],
	sigGroupName string,
	refK *curve.WCurve[KE], refS *curve.WCurve[SE],
	keyToRef func(PK) (curve.WPoint[KE], error), sigToRef func(SG) (curve.WPoint[SE], error),
	acName string, mkAC func() accessstructures.Monotone,
) bolSection {
	type (
		sigT  = *bls.Signature[SG, SGFE, PK, PKFE, E, S]
		psigT = *boldyreva02.PartialSignature[SG, SGFE, PK, PKFE, E, S]
		pmT   = *boldyreva02.PublicMaterial[PK, PKFE, SG, SGFE, E, S]
	)
	type keyMat struct {
		shards    map[proto.ID]*boldyreva02.Shard[PK, PKFE, SG, SGFE, E, S] // as decoded from their CBOR encoding
		pmOutside pmT                                                       // what an outside aggregator receives (decoded)
		sk        *big.Int                                                  // reconstructed by ref/linalg from ALL dealt shares
		pk        PK
		err       error
	}
	// one (mode, quorum): the honest partial signatures as sent (bytes) and as received (decoded), the donors and the
	// fault list per deviator
	type runMat struct {
		sent     map[proto.ID][]byte
		recv     map[proto.ID]psigT
		otherMsg map[proto.ID][]byte
		popVec   map[proto.ID][]byte
		faults   map[proto.ID][]bolFault
		honest   []byte // the honest run's signature (|| proof of possession), independently verified
		err      error
	}
	section := "boldyreva/" + v.Name
	if acName != "" {
		section += "/" + acName
	}
	q := conv.BLS12381R

	var (
		keysOnce sync.Once
		keys     *keyMat
	)
	getKeys := func() *keyMat {
		keysOnce.Do(func() {
			km := &keyMat{}
			keys = km
			ac := mkAC()
			bs, err := proto.C01BaseShards[PK, S](proto.C01Dealer, keyGroup, ac, bolIDs, engine.Seed(), "c04/boldyreva/"+v.Name+acName)
			if err != nil {
				km.err = fmt.Errorf("trusted dealer: %w", err)
				return
			}
			if km.sk, err = bolRefSecret(q, bs); err != nil {
				km.err = fmt.Errorf("reference reconstruction: %w", err)
				return
			}
			if km.shards, err = proto.C01BoldyrevaShards(v, bs); err != nil {
				km.err = err
				return
			}
			for _, id := range bolIDs {
				if km.shards[id] == nil {
					km.err = fmt.Errorf("no shard for party %d", id)
					return
				}
				km.shards[id] = proto.C01Wire(km.shards[id])
			}
			km.pmOutside = proto.C01Wire(km.shards[bolIDs[len(bolIDs)-1]].PublicKeyMaterial())
			km.pk = km.shards[bolIDs[0]].PublicKey().Value()
			P, err := keyToRef(km.pk)
			if err != nil {
				km.err = fmt.Errorf("public key is not a point of the reference group: %w", err)
				return
			}
			if P.Inf || !refK.Equal(P, sig.BLSPublicKey(refK, km.sk)) {
				km.err = fmt.Errorf("group public key != [sk]*G for the secret reconstructed from the dealt shares")
			}
		})
		return keys
	}

	// the reference point [sk]*H_dst(msg); H from the library, checked to lie in the r-torsion subgroup
	var wantMemo sync.Map
	type wantEntry struct {
		once sync.Once
		w    curve.WPoint[SE]
		err  error
	}
	want := func(sk *big.Int, dst string, msg []byte) (curve.WPoint[SE], error) {
		e, _ := wantMemo.LoadOrStore(dst+"|"+string(msg), &wantEntry{})
		we := e.(*wantEntry)
		we.once.Do(func() {
			hm, err := sigGroup.HashWithDst(dst, msg)
			if err != nil {
				we.err = err
				return
			}
			h, err := sigToRef(hm)
			if err != nil {
				we.err = err
				return
			}
			if h.Inf || !refS.InSubgroup(h) {
				we.err = fmt.Errorf("the library's hash-to-curve output is the identity or outside the r-torsion subgroup")
				return
			}
			we.w = sig.BLSSign(refS, sk, h)
		})
		return we.w, we.err
	}
	// refVerify: the independent verdict on (message, signature) for the mode under the group public key.
	refVerify := func(km *keyMat, mode bolMode, raw []byte, sg sigT) (bool, string) {
		if sg == nil {
			return false, "nil signature returned without error"
		}
		internal := raw
		if mode.alg == bls.MessageAugmentation {
			internal = slices.Concat(km.pk.Bytes(), raw)
		}
		w, err := want(km.sk, bolDST[sigGroupName][mode.alg], internal)
		if err != nil {
			panic(engine.HarnessError{Msg: "hash to curve: " + err.Error()})
		}
		sv, err := sigToRef(sg.Value())
		if err != nil {
			return false, fmt.Sprintf("signature is not a point of the reference group: %v", err)
		}
		if sv.Inf || !refS.Equal(sv, w) {
			return false, "sigma != [sk]*H(m)"
		}
		if mode.alg == bls.POP {
			pop := sg.Pop()
			if pop == nil {
				return false, "proof-of-possession mode but the signature carries no proof"
			}
			wp, err := want(km.sk, bolPopDST[sigGroupName], km.pk.Bytes())
			if err != nil {
				panic(engine.HarnessError{Msg: "hash to curve (pop): " + err.Error()})
			}
			pv, err := sigToRef(pop.Value())
			if err != nil || pv.Inf || !refS.Equal(pv, wp) {
				return false, fmt.Sprintf("proof of possession != [sk]*H_pop(pk) (err=%v)", err)
			}
		}
		return true, ""
	}
	sigBytes := func(sg sigT) []byte {
		b := slices.Clone(sg.Bytes())
		if p := sg.Pop(); p != nil {
			b = append(b, p.Bytes()...)
		}
		return b
	}
	// aggregate runs one aggregator over the given partial signatures; a panic comes back as text.
	aggregate := func(pm pmT, mode bolMode, ps map[proto.ID]psigT, msg []byte) (sg sigT, err error, pan string) {
		pan = bolCatch(func() {
			agg, e := v.NewAggregator(pm, mode.alg)
			if e != nil {
				panic(engine.HarnessError{Msg: "aggregator constructor refused honest public material: " + e.Error()})
			}
			sg, err = agg.Aggregate(hashmap.NewComparableFromNativeLike(ps).Freeze(), msg)
		})
		return sg, err, pan
	}
	sign := func(km *keyMat, quorum []proto.ID, mode bolMode, msg []byte, label string) (map[proto.ID][]byte, error) {
		ctxs := proto.Contexts(quorum, proto.KeySeed(engine.Seed()), "c04/boldyreva/"+label)
		out := map[proto.ID][]byte{}
		for _, id := range quorum {
			c, err := v.NewCosigner(ctxs[id], km.shards[id], mode.alg)
			if err != nil {
				return nil, fmt.Errorf("cosigner %d: %w", id, err)
			}
			p, err := c.ProducePartialSignature(msg)
			if err != nil || p == nil {
				return nil, fmt.Errorf("cosigner %d ProducePartialSignature: %v", id, err)
			}
			b, err := serde.MarshalCBOR(p)
			if err != nil {
				return nil, fmt.Errorf("cosigner %d: partial signature does not encode: %w", id, err)
			}
			out[id] = b
		}
		return out, nil
	}

	var runs sync.Map
	type runEntry struct {
		once sync.Once
		r    *runMat
	}
	getRun := func(km *keyMat, mode bolMode, qi int) *runMat {
		e, _ := runs.LoadOrStore(fmt.Sprintf("%s|%d", mode.name, qi), &runEntry{})
		re := e.(*runEntry)
		re.once.Do(func() {
			r := &runMat{recv: map[proto.ID]psigT{}, faults: map[proto.ID][]bolFault{}}
			re.r = r
			quorum := bolQuorums[qi]
			label := fmt.Sprintf("%s|%s|q%d", v.Name, mode.name, qi)
			if r.sent, r.err = sign(km, quorum, mode, bolMsg, label); r.err != nil {
				return
			}
			if r.otherMsg, r.err = sign(km, quorum, mode, bolOther, label); r.err != nil {
				return
			}
			if mode.alg != bls.POP {
				if r.popVec, r.err = sign(km, quorum, bolModes[2], bolMsg, label); r.err != nil {
					return
				}
			}
			for _, id := range quorum {
				p, err := serde.UnmarshalCBOR[psigT](r.sent[id])
				if err != nil {
					r.err = fmt.Errorf("cosigner %d: honest partial signature does not decode: %w", id, err)
					return
				}
				r.recv[id] = p
				tr, err := cbor.Parse(r.sent[id])
				if err != nil || !bytes.Equal(cbor.Encode(tr), r.sent[id]) {
					r.err = fmt.Errorf("cosigner %d: the partial signature does not re-encode to itself in ref/cbor (%v)", id, err)
					return
				}
				var fs []bolFault
				for _, ref := range cbor.Walk(tr) {
					for _, op := range opsFor(ref, true) {
						if op == "believe" {
							continue // needs a running sender whose memory is edited; a one-message protocol has none
						}
						fs = append(fs, bolFault{ref.Path, op})
					}
					if ref.Parent != nil && ref.Parent.Kind == cbor.Map {
						fs = append(fs, bolFault{ref.Path, "drop-field"})
					}
					if ref.Node.Kind == cbor.Bytes && !ref.Node.Embedded && strings.HasSuffix(ref.Path, ">compressedBytes") && len(ref.Node.Data) > 0 {
						// the bit flips of opsFor all leave the curve or the subgroup (the decoder refuses them); the sign
						// bit of the compressed encoding gives -P: a well-formed group element with a wrong value
						fs = append(fs, bolFault{ref.Path, "negate-point"})
					}
				}
				fs = append(fs, bolFault{"", "replace-other-cosigner"}, bolFault{"", "replace-other-message"})
				if mode.alg == bls.POP {
					for _, op := range []string{"truncate-both", "truncate-sigma_i", "truncate-sigma_pop_i", "empty-list-sigma_i", "empty-list-sigma_pop_i"} {
						fs = append(fs, bolFault{"", op})
					}
				} else {
					fs = append(fs, bolFault{"", "attach-pop-vector"}, bolFault{"", "attach-empty-pop-list"})
				}
				r.faults[id] = fs
			}
			sg, err, pan := aggregate(km.pmOutside, mode, r.recv, bolMsg)
			if pan != "" || err != nil {
				r.err = fmt.Errorf("the honest run does not aggregate: err=%v panic=%s", err, pan)
				return
			}
			if ok, why := refVerify(km, mode, bolMsg, sg); !ok {
				r.err = fmt.Errorf("the honest run's signature fails the independent verification: %s", why)
				return
			}
			r.honest = sigBytes(sg)
		})
		return re.r
	}

	type decEntry struct {
		once sync.Once
		dec  psigT
		err  error
		pan  string
	}
	var decodes sync.Map // altered bytes -> *decEntry
	var (
		freeMu sync.Mutex
		free   = map[string]int{}
	)

	body := func(x *engine.X) {
		km := getKeys()
		if km.err != nil {
			x.Failf("honest-run-fails/boldyreva|keys", "%s: key material: %v", section, km.err)
			return
		}
		mode := bolModes[x.Choose("mode", len(bolModes))]
		qi := x.Choose("quorum", len(bolQuorums))
		quorum := bolQuorums[qi]
		r := getRun(km, mode, qi)
		if r.err != nil {
			x.Failf("honest-run-fails/boldyreva|"+mode.name, "%s mode=%s quorum=%v: %v", section, mode.name, quorum, r.err)
			return
		}
		dev := quorum[x.Choose("deviator", len(quorum))]
		aggKind := x.Choose("aggregator", 2)
		faults := r.faults[dev]
		f := faults[x.Choose("fault", len(faults))]

		var firstHonest, donor proto.ID
		for _, id := range quorum {
			if id != dev {
				if firstHonest == 0 {
					firstHonest = id
				}
			}
		}
		donor = firstHonest
		aggName, pm := "outside", km.pmOutside
		if aggKind == 1 {
			aggName, pm = fmt.Sprintf("party%d", firstHonest), km.shards[firstHonest].PublicKeyMaterial()
		}
		key := fmt.Sprintf("boldyreva|%s|%s", normPath(f.Path), f.Op)
		where := fmt.Sprintf("%s mode=%s quorum=%v deviator=%d aggregator=%s message=%q, alteration [%s %s] of the deviator's partial signature %x",
			section, mode.name, quorum, dev, aggName, bolMsg, f.Path, f.Op, r.sent[dev])
		caseKey := fmt.Sprintf("%s|%s|q%v|dev%d|agg-%s|%s|%s", v.Name, mode.name, quorum, dev, aggName, f.Path, f.Op)
		x.Case(caseKey)
		debug := func(a ...any) { // development aid: one line per execution
			if dbg := os.Getenv("C04_DEBUG"); dbg != "" {
				if fh, err := os.OpenFile(dbg, os.O_APPEND|os.O_CREATE|os.O_WRONLY, 0o644); err == nil {
					fmt.Fprintln(fh, caseKey, "=>", fmt.Sprint(a...))
					fh.Close()
				}
			}
		}

		var altered []byte
		var applied bool
		var why string
		if f.Op == "negate-point" {
			altered, applied, why = bolNegatePoint(r.sent[dev], f.Path)
		} else if f.Path == "" {
			altered, applied, why = bolApplyWhole(f.Op, r.sent[dev], r.sent[donor], r.otherMsg[dev], r.popVec[dev])
		} else {
			altered, applied, why = applyOp(fault{Path: f.Path, Op: f.Op}, r.sent[dev], r.sent[donor], r.otherMsg[dev])
		}
		if !applied {
			x.Trivial()
			x.Observe("inapplicable:", why)
			debug("inapplicable: ", why)
			return
		}
		where += fmt.Sprintf(" -> %x", altered)

		// the recipient decodes
		// (decoding does not depend on the aggregator: both aggregator executions of a fault share one decode; the
		// decoded object is only read afterwards)
		de, _ := decodes.LoadOrStore(string(altered), &decEntry{})
		dent := de.(*decEntry)
		dent.once.Do(func() {
			dent.pan = bolCatch(func() { dent.dec, dent.err = serde.UnmarshalCBOR[psigT](altered) })
		})
		dec, derr := dent.dec, dent.err
		if pan := dent.pan; pan != "" {
			x.Failf("panic/"+key, "%s: decoding the altered partial signature panicked: %s", where, pan)
			return
		}
		if derr != nil {
			x.Observe(mode.name, "rejected by the decoder:", fmt.Sprintf("%.70s", firstLine(derr)))
			debug("decoder: ", firstLine(derr))
			return
		}
		// is it a deviation at all?
		same, equal := false, false
		if pan := bolCatch(func() {
			re, err := serde.MarshalCBOR(dec)
			same = err == nil && bytes.Equal(re, r.sent[dev])
			equal = dec.Equal(r.recv[dev])
		}); pan != "" {
			x.Observe("re-encoding/Equal of the decoded alteration panicked:", pan)
		}
		ps := map[proto.ID]psigT{}
		for _, id := range quorum {
			ps[id] = r.recv[id]
		}
		ps[dev] = dec
		sg, err, pan := aggregate(pm, mode, ps, bolMsg)
		// S1
		if pan != "" {
			x.Failf("panic/"+key, "%s: Aggregate panicked: %s", where, pan)
			return
		}
		// S2
		valid := false
		if err == nil {
			var bad string
			if valid, bad = refVerify(km, mode, bolMsg, sg); !valid {
				got := []byte(nil)
				if sg != nil {
					got = sigBytes(sg)
				}
				x.Failf("bad-signature/"+key, "%s: Aggregate returned the signature %x which fails the independent verification for the group public key %x: %s", where, got, km.pk.Bytes(), bad)
			}
		}
		// S3
		if err != nil {
			for _, b := range base.GetMaliciousIdentities[proto.ID](err) {
				if b != dev {
					x.Failf("wrong-blame/"+key, "%s: the aggregator blames %d, the deviating cosigner is %d (err: %s)", where, b, dev, firstLine(err))
				}
			}
		}
		if same {
			x.Trivial()
			x.Observe("same values after decoding (not a deviation); Equal =", equal, "aggregate err =", err != nil)
			debug("same values; aggregate err=", err)
			return
		}
		// D
		switch {
		case err != nil:
			blamed := len(base.GetMaliciousIdentities[proto.ID](err)) > 0
			x.Observe(mode.name, "rejected by the aggregator, blame =", blamed, fmt.Sprintf("%.70s", firstLine(err)))
			debug("aggregator: blame=", base.GetMaliciousIdentities[proto.ID](err), " ", firstLine(err))
		case valid && bolUnused(mode, f) && bytes.Equal(sigBytes(sg), r.honest):
			freeMu.Lock()
			free[fmt.Sprintf("mode=%s %s %s", mode.name, normPath(f.Path), f.Op)]++
			freeMu.Unlock()
			x.Observe(mode.name, "free: sigma_pop_i is not read in this mode; signature identical to the honest run's; Equal =", equal)
			debug("free; Equal=", equal)
		default:
			x.Failf("undetected/"+key, "%s: the alteration decodes to a different partial signature (Equal=%v) and Aggregate returned a signature (valid=%v, identical to the honest run's=%v) instead of an error", where, equal, valid, sg != nil && bytes.Equal(sigBytes(sg), r.honest))
		}
	}
	note := func() []string {
		freeMu.Lock()
		defer freeMu.Unlock()
		var out []string
		for k, n := range free {
			out = append(out, fmt.Sprintf("%s (x%d)", k, n))
		}
		sort.Strings(out)
		return out
	}
	return bolSection{section, body, note}
}

func boldyrevaSections() {
	type (
		g1 = *bls12381.PointG1
		f1 = *bls12381.BaseFieldElementG1
		g2 = *bls12381.PointG2
		f2 = *bls12381.BaseFieldElementG2
		gt = *bls12381.GtElement
		sc = *bls12381.Scalar
	)
	fam := proto.C01BLSFamily()
	a1, a2 := libcurve.BLS12381G1(), libcurve.BLS12381G2()
	t23 := func() accessstructures.Monotone { return proto.Threshold(2, bolIDs...) }
	cnf23 := func() accessstructures.Monotone {
		ac, err := cnf.NewCNFAccessStructure(proto.Set(1), proto.Set(2), proto.Set(3))
		if err != nil {
			panic(engine.HarnessError{Msg: "cnf.NewCNFAccessStructure: " + err.Error()})
		}
		return ac
	}
	secs := []bolSection{
		mkBoldyreva[g1, f1, g2, f2, gt, sc, *big.Int, curve.Fp2](proto.C01BoldyrevaShort(), fam.SourceSubGroup(), fam.TwistedSubGroup(), "G2", a1.Ref, a2.Ref, a1.TryToRef, a2.TryToRef, "", t23),
		mkBoldyreva[g2, f2, g1, f1, gt, sc, curve.Fp2, *big.Int](proto.C01BoldyrevaLong(), fam.TwistedSubGroup(), fam.SourceSubGroup(), "G1", a2.Ref, a1.Ref, a2.TryToRef, a1.TryToRef, "", t23),
		// the same 2-of-3 policy written as a CNF (maximal unqualified sets {1},{2},{3}): every holder owns TWO rows of the
		// span programme, so every partial signature has two components
		mkBoldyreva[g1, f1, g2, f2, gt, sc, *big.Int, curve.Fp2](proto.C01BoldyrevaShort(), fam.SourceSubGroup(), fam.TwistedSubGroup(), "G2", a1.Ref, a2.Ref, a1.TryToRef, a2.TryToRef, "cnf-two-rows", cnf23),
	}
	for _, s := range secs {
		sec := engine.Explore(s.body, engine.Opts{Name: s.name, MaxFails: 100000, Budget: engine.Budget(2*time.Minute, 10*time.Minute)})
		sec.Note("space: mode {basic, aug, pop} x T(2,3) quorum {1,2} / {1,2,3} x deviating cosigner x aggregator {outside (CBOR-decoded public material), first honest quorum member} x (every node of the deviator's CBOR-encoded partial signature x every applicable opsFor operator + negate-point (sign bit of a compressed point) [donor-other-sender = same leaf of another cosigner's partial signature, donor-other-session = same leaf of the deviator's own partial signature over the message \"other\"; believe excluded] + drop-field + replace by another cosigner's / by the own other-message partial signature + pop mode: truncate both / either parallel vector, empty non-nil list per vector + basic/aug modes: attach a well-formed / an empty sigma_pop_i vector); message \"m\"")
		if free := s.note(); len(free) > 0 {
			sec.Note("components that are provably unused in their mode (Validate and Aggregate read SigmaPopI only under POP): altered, accepted, and the signature is valid and bit-identical to the honest run's (observed, not failed): %s", strings.Join(free, "; "))
		} else {
			sec.Note("no alteration of an unused component was accepted")
		}
	}
}
