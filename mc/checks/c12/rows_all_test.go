package c12

import "sync"

var regOnce sync.Once

// registerAll fills the registry (idempotent).
func registerAll() {
	regOnce.Do(func() {
		registerCurves()
		registerSharing()
		registerMatrices()
		registerPolynomials()
		registerNT()
		registerPaillier()
		registerElGamal()
		registerConstructions()
		registerCommitments()
		registerKeyAgreement()
		registerSignatures()
		registerShards()
		registerProofs()
		registerMessages()
	})
}
