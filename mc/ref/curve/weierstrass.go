package curve

import (
	"fmt"
	"math/big"
)

// WPoint is an affine point of a short-Weierstrass curve, or the point at infinity (Inf == true; X, Y ignored).
type WPoint[E any] struct {
	X, Y E
	Inf  bool
}

// WCurve is y^2 = x^3 + A x + B over the field F, with a distinguished generator G of the prime-order subgroup of
// order Q and cofactor H (#E(F) = H*Q).
type WCurve[E any] struct {
	Name string
	F    Field[E]
	A, B E
	G    WPoint[E]
	Q    *big.Int // order of G (prime)
	H    *big.Int // cofactor
}

// FpCurve / FpPoint are the instantiations over a prime field (k256, p256, pallas, vesta, BLS12-381 G1).
type (
	FpCurve  = WCurve[*big.Int]
	FpPoint  = WPoint[*big.Int]
	Fp2Curve = WCurve[Fp2]
	Fp2Point = WPoint[Fp2]
)

// Identity returns the point at infinity O.
func (c *WCurve[E]) Identity() WPoint[E] {
	return WPoint[E]{X: c.F.Zero(), Y: c.F.Zero(), Inf: true}
}

// Generator returns G.
func (c *WCurve[E]) Generator() WPoint[E] { return c.G }

// Affine builds the point (x, y) without checking it; use OnCurve.
func (c *WCurve[E]) Affine(x, y E) WPoint[E] { return WPoint[E]{X: x, Y: y} }

// rhs returns x^3 + A x + B.
func (c *WCurve[E]) rhs(x E) E {
	F := c.F
	return F.Add(F.Add(F.Mul(F.Sqr(x), x), F.Mul(c.A, x)), c.B)
}

// OnCurve reports whether p is O or satisfies the curve equation with canonical coordinates.
func (c *WCurve[E]) OnCurve(p WPoint[E]) bool {
	if p.Inf {
		return true
	}
	if !c.F.Valid(p.X) || !c.F.Valid(p.Y) {
		return false
	}
	return c.F.Equal(c.F.Sqr(p.Y), c.rhs(p.X))
}

// Equal compares two points (O equals only O).
func (c *WCurve[E]) Equal(p, q WPoint[E]) bool {
	if p.Inf || q.Inf {
		return p.Inf && q.Inf
	}
	return c.F.Equal(p.X, q.X) && c.F.Equal(p.Y, q.Y)
}

// IsIdentity reports p == O.
func (c *WCurve[E]) IsIdentity(p WPoint[E]) bool { return p.Inf }

// Neg returns -p = (x, -y); -O = O.
func (c *WCurve[E]) Neg(p WPoint[E]) WPoint[E] {
	if p.Inf {
		return c.Identity()
	}
	return WPoint[E]{X: p.X, Y: c.F.Neg(p.Y)}
}

// Double returns 2p by the tangent rule. Cases: O -> O; y == 0 (order two) -> O; otherwise
// lambda = (3x^2 + A) / 2y.
func (c *WCurve[E]) Double(p WPoint[E]) WPoint[E] {
	F := c.F
	if p.Inf {
		return c.Identity()
	}
	if F.IsZero(p.Y) {
		return c.Identity()
	}
	num := F.Add(F.Mul(F.FromInt64(3), F.Sqr(p.X)), c.A)
	den, ok := F.Inv(F.Add(p.Y, p.Y))
	if !ok {
		panic("ref/curve: 2y not invertible (characteristic 2?)")
	}
	l := F.Mul(num, den)
	x3 := F.Sub(F.Sub(F.Sqr(l), p.X), p.X)
	y3 := F.Sub(F.Mul(l, F.Sub(p.X, x3)), p.Y)
	return WPoint[E]{X: x3, Y: y3}
}

// Add returns p + q by the chord rule with the explicit case analysis:
//
//	O + q = q;  p + O = p;  x1 == x2 and y1 == y2 -> Double(p);  x1 == x2 and y1 == -y2 -> O;
//	otherwise lambda = (y2 - y1)/(x2 - x1).
func (c *WCurve[E]) Add(p, q WPoint[E]) WPoint[E] {
	F := c.F
	if p.Inf {
		return q
	}
	if q.Inf {
		return p
	}
	if F.Equal(p.X, q.X) {
		if F.Equal(p.Y, q.Y) {
			return c.Double(p)
		}
		// on a curve the only other possibility is y1 == -y2
		return c.Identity()
	}
	den, ok := F.Inv(F.Sub(q.X, p.X))
	if !ok {
		panic("ref/curve: x2-x1 not invertible")
	}
	l := F.Mul(F.Sub(q.Y, p.Y), den)
	x3 := F.Sub(F.Sub(F.Sqr(l), p.X), q.X)
	y3 := F.Sub(F.Mul(l, F.Sub(p.X, x3)), p.Y)
	return WPoint[E]{X: x3, Y: y3}
}

// Sub returns p - q.
func (c *WCurve[E]) Sub(p, q WPoint[E]) WPoint[E] { return c.Add(p, c.Neg(q)) }

// ScalarMul returns k*p for any integer k (negative k multiplies -p) by left-to-right double-and-add. k is NOT
// reduced modulo Q, so the function is also correct for points outside the prime-order subgroup.
func (c *WCurve[E]) ScalarMul(k *big.Int, p WPoint[E]) WPoint[E] {
	if k.Sign() < 0 {
		return c.ScalarMul(new(big.Int).Neg(k), c.Neg(p))
	}
	r := c.Identity()
	for i := k.BitLen() - 1; i >= 0; i-- {
		r = c.Double(r)
		if k.Bit(i) == 1 {
			r = c.Add(r, p)
		}
	}
	return r
}

// ScalarBaseMul returns k*G.
func (c *WCurve[E]) ScalarBaseMul(k *big.Int) WPoint[E] { return c.ScalarMul(k, c.G) }

// MultiScalarMul returns sum k_i * p_i (O for empty input); panics on mismatched lengths.
func (c *WCurve[E]) MultiScalarMul(ks []*big.Int, ps []WPoint[E]) WPoint[E] {
	if len(ks) != len(ps) {
		panic("ref/curve: MultiScalarMul length mismatch")
	}
	r := c.Identity()
	for i := range ks {
		r = c.Add(r, c.ScalarMul(ks[i], ps[i]))
	}
	return r
}

// InSubgroup reports whether p is on the curve and Q*p == O (prime-order subgroup membership).
func (c *WCurve[E]) InSubgroup(p WPoint[E]) bool {
	return c.OnCurve(p) && c.ScalarMul(c.Q, p).Inf
}

// ClearCofactor returns H*p (plain multiplication by the cofactor; RFC 9380 "h_eff" variants are not modelled).
func (c *WCurve[E]) ClearCofactor(p WPoint[E]) WPoint[E] { return c.ScalarMul(c.H, p) }

// LiftX returns the points with abscissa x: ok=false if x^3+Ax+B is not a square. The two results are negatives of
// each other (equal when y == 0); which of them is "first" is unspecified - use LiftXOdd on prime fields.
func (c *WCurve[E]) LiftX(x E) (p, negp WPoint[E], ok bool) {
	y, ok := c.F.Sqrt(c.rhs(x))
	if !ok {
		return c.Identity(), c.Identity(), false
	}
	p = WPoint[E]{X: x, Y: y}
	return p, c.Neg(p), true
}

// HasX reports whether some affine point has abscissa x.
func (c *WCurve[E]) HasX(x E) bool { return c.F.IsSquare(c.rhs(x)) }

// Key is a string usable as a map key / in messages: "O" or "(x,y)" in hex.
func (c *WCurve[E]) Key(p WPoint[E]) string {
	if p.Inf {
		return "O"
	}
	return fmt.Sprintf("(%s,%s)", c.F.String(p.X), c.F.String(p.Y))
}

// LiftXOdd decompresses x on a curve over a prime field choosing the root whose least significant bit equals odd
// (the SEC 1 compressed-point convention). ok=false when x is not the abscissa of a point. For y == 0 the unique
// point is returned when odd == false and ok=false otherwise.
func LiftXOdd(c *FpCurve, x *big.Int, odd bool) (FpPoint, bool) {
	p, n, ok := c.LiftX(x)
	if !ok {
		return c.Identity(), false
	}
	want := uint(0)
	if odd {
		want = 1
	}
	if p.Y.Bit(0) == want {
		return p, true
	}
	if n.Y.Bit(0) == want {
		return n, true
	}
	return c.Identity(), false
}

// PointsWithX0 returns the affine points with x == 0 (they exist iff B is a square: e.g. P-256), possibly none.
func (c *WCurve[E]) PointsWithX0() []WPoint[E] {
	p, n, ok := c.LiftX(c.F.Zero())
	if !ok {
		return nil
	}
	if c.Equal(p, n) {
		return []WPoint[E]{p}
	}
	return []WPoint[E]{p, n}
}
