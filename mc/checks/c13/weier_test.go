package c13

import (
	"fmt"
	"math/big"

	"verifmc/engine"
	"verifmc/ref/curve"
)

// Short-Weierstrass family (k256, p256: SEC 1; pallas, vesta: zcash pasta; BLS12-381 G1, G2: zcash flags), generic in
// the coordinate field E (*big.Int or curve.Fp2).

type wAdapter[P any, E any] struct {
	ref   *curve.WCurve[E]
	toRef func(P) (curve.WPoint[E], error)
	toLib func(curve.WPoint[E]) (P, error)
	comps func(E) []*big.Int // canonical components
	mk    func([]*big.Int) E // components (reduced mod p here) -> element
	deg   int
	p     *big.Int
}

func fpAdapter[P any](ref *curve.FpCurve, toRef func(P) (curve.FpPoint, error), toLib func(curve.FpPoint) (P, error)) *wAdapter[P, *big.Int] {
	p := ref.F.Char()
	return &wAdapter[P, *big.Int]{ref: ref, toRef: toRef, toLib: toLib, deg: 1, p: p,
		comps: func(e *big.Int) []*big.Int { return []*big.Int{e} },
		mk:    func(c []*big.Int) *big.Int { return mod(c[0], p) },
	}
}

func fp2Adapter[P any](ref *curve.Fp2Curve, toRef func(P) (curve.Fp2Point, error), toLib func(curve.Fp2Point) (P, error)) *wAdapter[P, curve.Fp2] {
	p := ref.F.Char()
	return &wAdapter[P, curve.Fp2]{ref: ref, toRef: toRef, toLib: toLib, deg: 2, p: p,
		comps: func(e curve.Fp2) []*big.Int { return []*big.Int{e.C0, e.C1} },
		mk:    func(c []*big.Int) curve.Fp2 { return curve.Fp2{C0: mod(c[0], p), C1: mod(c[1], p)} },
	}
}

func allZero(c []*big.Int) bool {
	for _, v := range c {
		if v.Sign() != 0 {
			return false
		}
	}
	return true
}

func (a *wAdapter[P, E]) viewRef(r curve.WPoint[E]) pview {
	ref := a.ref
	v := pview{inf: r.Inf, ident: r.Inf, key: ref.Key(r), negKey: ref.Key(ref.Neg(r)), class: "generic"}
	if r.Inf {
		v.class = "identity"
		v.inSub = true
		return v
	}
	v.x, v.y = a.comps(r.X), a.comps(r.Y)
	switch {
	case allZero(v.x):
		v.class = "x=0"
	case allZero(v.y):
		v.class = "y=0"
	}
	v.inSub = cachedInSub(ref.Name, v.key, func() bool {
		if ref.H.Cmp(bi(1)) == 0 {
			return ref.OnCurve(r) // cofactor 1: the curve group is the prime-order group
		}
		return ref.InSubgroup(r)
	})
	if !v.inSub && v.class == "generic" {
		v.class = "outside-subgroup"
	}
	return v
}

func (a *wAdapter[P, E]) view(p P) pview {
	r, err := a.toRef(p)
	if err != nil {
		return pview{err: err}
	}
	return a.viewRef(r)
}

// ncoord is a labelled coordinate (one integer per component, possibly unreduced).
type ncoord struct {
	label string
	c     []*big.Int
}

type wSpecials[E any] struct {
	G, G2    curve.WPoint[E]
	xNoY     []*big.Int        // abscissa without a point
	off      []curve.WPoint[E] // points of the curve outside the prime-order subgroup (cofactor != 1), ± pairs
	aliasSrc []curve.WPoint[E] // valid group elements whose x may have an unreduced alias x+p
	x0       []curve.WPoint[E] // points with x = 0
}

func (a *wAdapter[P, E]) specials() wSpecials[E] {
	ref := a.ref
	var s wSpecials[E]
	s.G = ref.G
	s.G2 = ref.Double(ref.G)
	s.x0 = ref.PointsWithX0()
	el := func(t int64, u int64) E {
		c := make([]*big.Int, a.deg)
		c[0] = bi(t)
		if a.deg == 2 {
			c[1] = bi(u)
		}
		return a.mk(c)
	}
	for t := int64(1); t < 1000 && s.xNoY == nil; t++ {
		if x := el(t, 1); !ref.HasX(x) {
			s.xNoY = a.comps(x)
		}
	}
	if s.xNoY == nil {
		panic(engine.HarnessError{Msg: ref.Name + ": no abscissa without a point found"})
	}
	cof1 := ref.H.Cmp(bi(1)) == 0
	for t := int64(1); t < 1000; t++ {
		pt, neg, ok := ref.LiftX(el(t, 1))
		if !ok {
			continue
		}
		if cof1 {
			s.aliasSrc = append(s.aliasSrc, pt)
			break
		}
		if !ref.InSubgroup(pt) {
			s.off = append(s.off, pt, neg)
			break
		}
	}
	if !cof1 {
		acc := ref.G
		for k := 1; k <= 64; k++ {
			s.aliasSrc = append(s.aliasSrc, acc)
			acc = ref.Add(acc, ref.G)
		}
		for _, pt := range s.x0 {
			if !ref.InSubgroup(pt) {
				s.off = append(s.off, pt)
			}
		}
	}
	return s
}

// alias returns c with p added to component 0 when that still fits maxBits[0] (nil otherwise).
func aliasOf(c []*big.Int, p *big.Int, maxBits []int) []*big.Int {
	v := add(c[0], p)
	if v.BitLen() > maxBits[0] {
		return nil
	}
	out := append([]*big.Int{v}, c[1:]...)
	return out
}

func fits(c []*big.Int, maxBits []int) bool {
	for i := range c {
		if c[i].BitLen() > maxBits[i] {
			return false
		}
	}
	return true
}

func dedupe(in []ncoord, maxBits []int) []ncoord {
	seen := map[string]bool{}
	var out []ncoord
	for _, e := range in {
		if e.c == nil || !fits(e.c, maxBits) {
			continue
		}
		k := intsStr(e.c)
		if seen[k] {
			continue
		}
		seen[k] = true
		out = append(out, e)
	}
	return out
}

// xAlphabet: {0,1,2,p-1,p,p+1,2^k-1} (per component for F_p^2) + generator / 2G abscissas, an abscissa without a point,
// abscissas of points with x=0 / outside the subgroup, and an unreduced alias of a valid abscissa.
func (a *wAdapter[P, E]) xAlphabet(s wSpecials[E], maxBits []int) []ncoord {
	p := a.p
	var out []ncoord
	if a.deg == 1 {
		for _, e := range coordAlphabet(p, maxBits[0]) {
			out = append(out, ncoord{e.n, []*big.Int{e.v}})
		}
	} else {
		a0 := []named{{"0", bi(0)}, {"1", bi(1)}, {"p-1", sub(p, bi(1))}, {"p", p}, {"max", pow2m1(maxBits[0])}}
		a1 := []named{{"0", bi(0)}, {"1", bi(1)}, {"p-1", sub(p, bi(1))}, {"p", p}, {"max", pow2m1(maxBits[1])}}
		for _, u := range a1 {
			for _, t := range a0 {
				out = append(out, ncoord{"(" + t.n + "," + u.n + ")", []*big.Int{t.v, u.v}})
			}
		}
	}
	out = append(out, ncoord{"Gx", a.comps(s.G.X)}, ncoord{"x(2G)", a.comps(s.G2.X)}, ncoord{"x-without-point", s.xNoY})
	for i, pt := range s.off {
		out = append(out, ncoord{fmt.Sprintf("x(outside-subgroup#%d)", i), a.comps(pt.X)})
	}
	for i, pt := range s.aliasSrc {
		if al := aliasOf(a.comps(pt.X), p, maxBits); al != nil {
			out = append(out, ncoord{fmt.Sprintf("x(valid#%d)", i), a.comps(pt.X)}, ncoord{fmt.Sprintf("x(valid#%d)+p", i), al})
			break
		}
	}
	return dedupe(out, maxBits)
}

// yAlphabet for a given abscissa: small values, Gy, both roots of the curve equation (when they exist) and an unreduced
// alias of a root.
func (a *wAdapter[P, E]) yAlphabet(s wSpecials[E], x []*big.Int, maxBits []int) []ncoord {
	p := a.p
	var out []ncoord
	if a.deg == 1 {
		for _, e := range []named{{"0", bi(0)}, {"1", bi(1)}, {"2", bi(2)}, {"p-1", sub(p, bi(1))}, {"p", p}, {"p+1", add(p, bi(1))}, {"max", pow2m1(maxBits[0])}} {
			out = append(out, ncoord{e.n, []*big.Int{e.v}})
		}
	} else {
		m0, m1 := pow2m1(maxBits[0]), pow2m1(maxBits[1])
		out = append(out,
			ncoord{"(0,0)", []*big.Int{bi(0), bi(0)}}, ncoord{"(1,0)", []*big.Int{bi(1), bi(0)}}, ncoord{"(0,1)", []*big.Int{bi(0), bi(1)}},
			ncoord{"(p,p)", []*big.Int{p, p}}, ncoord{"(p-1,p-1)", []*big.Int{sub(p, bi(1)), sub(p, bi(1))}}, ncoord{"(max,max)", []*big.Int{m0, m1}})
	}
	out = append(out, ncoord{"Gy", a.comps(s.G.Y)})
	if pt, neg, ok := a.ref.LiftX(a.mk(x)); ok {
		out = append(out, ncoord{"root", a.comps(pt.Y)}, ncoord{"-root", a.comps(neg.Y)})
		if al := aliasOf(a.comps(pt.Y), p, maxBits); al != nil {
			out = append(out, ncoord{"root+p", al})
		}
		if al := aliasOf(a.comps(neg.Y), p, maxBits); al != nil {
			out = append(out, ncoord{"-root+p", al})
		}
	}
	return dedupe(out, maxBits)
}

func fullBits(deg, bits int) []int {
	out := make([]int, deg)
	for i := range out {
		out[i] = bits
	}
	return out
}

// refElems lists the reference alphabet: identity, ±G, 2G..8G, -2G, (q-1)G, (q-2)G, points with x = 0, points outside the
// prime-order subgroup.
func (a *wAdapter[P, E]) refElems(s wSpecials[E]) []struct {
	name string
	pt   curve.WPoint[E]
} {
	ref := a.ref
	type ne = struct {
		name string
		pt   curve.WPoint[E]
	}
	out := []ne{{"O", ref.Identity()}, {"G", ref.G}, {"-G", ref.Neg(ref.G)}}
	maxK := 8
	if engine.Thorough() {
		maxK = 32
	}
	acc := ref.G
	for k := 2; k <= maxK; k++ {
		acc = ref.Add(acc, ref.G)
		out = append(out, ne{fmt.Sprintf("%dG", k), acc})
	}
	out = append(out, ne{"-2G", ref.Neg(s.G2)},
		ne{"(q-1)G", ref.ScalarBaseMul(sub(ref.Q, bi(1)))}, ne{"(q-2)G", ref.ScalarBaseMul(sub(ref.Q, bi(2)))})
	for i, pt := range s.x0 {
		out = append(out, ne{fmt.Sprintf("x0#%d", i), pt})
	}
	for i, pt := range s.off {
		out = append(out, ne{fmt.Sprintf("outside-subgroup#%d", i), pt})
	}
	seen := map[string]bool{}
	var ded []ne
	for _, e := range out {
		if k := ref.Key(e.pt); !seen[k] {
			seen[k] = true
			ded = append(ded, e)
		}
	}
	return ded
}

type arith[P any] interface {
	Add(P) P
	Neg() P
}

// buildElems constructs the library representations of the reference alphabet.
func buildElems[P arith[P], R any](names []string, refs []R, viewRef func(R) pview, view func(P) pview, toLib func(R) (P, error), gen func() P) []elem[P] {
	var out []elem[P]
	for i, r := range refs {
		e := elem[P]{name: names[i], v: viewRef(r)}
		p, err, pan := safe(func() (P, error) { return toLib(r) })
		if pan != nil {
			err = fmt.Errorf("panic: %v", pan)
		}
		if err != nil {
			e.refusal = err
			out = append(out, e)
			continue
		}
		e.reps = append(e.reps, p)
		e.repNames = append(e.repNames, "affine")
		// a second projective representative produced by library arithmetic
		q, _, pan := safe(func() (P, error) {
			if e.v.ident {
				g := gen()
				return g.Add(g.Neg()), nil
			}
			return p.Add(p).Add(p.Neg()), nil
		})
		if pan == nil {
			e.reps = append(e.reps, q)
			e.repNames = append(e.repNames, "arith")
		}
		for ri, rp := range e.reps {
			if v := view(rp); v.err != nil || v.key != e.v.key {
				e.buildFail = fmt.Sprintf("representation %s of %s = %s reads back as %s (%v)", e.repNames[ri], e.name, e.v.key, v.key, v.err)
			}
		}
		out = append(out, e)
	}
	return out
}

// wAPI is the library side of a Weierstrass codec.
type wAPI[P any, F any] struct {
	fromCompressed   func([]byte) (P, error)
	fromUncompressed func([]byte) (P, error)
	fromBytes        func([]byte) (P, error)
	fromAffine       func(F, F) (P, error)
	fromAffineX      func(F, bool) (P, error)
	identity         func() P
	newP             func() P
	fieldFromBytes   func([]byte) (F, error) // canonical big-endian bytes (F_p^2: c0 || c1)
	coordBytes       int
}

type wPoint[P any, F any] interface {
	arith[P]
	ToCompressed() []byte
	ToUncompressed() []byte
	Bytes() []byte
	AffineX() (F, error)
	AffineY() (F, error)
}

type style int

const (
	styleSEC1 style = iota
	stylePasta
	styleBLS
)

func newWeierstrass[P wPoint[P, F], F interface{ Bytes() []byte }, E any](name string, a *wAdapter[P, E], api wAPI[P, F], st style, isOdd func(F) bool) *codec[P, F] {
	sp := a.specials()
	n := api.coordBytes
	p := a.p
	c := &codec[P, F]{name: name, prime: true, p: p, view: a.view, fromAffine: api.fromAffine, fromAffineX: api.fromAffineX, isOdd: isOdd}
	c.affineOf = func(pt P) (F, F, error) {
		x, err := pt.AffineX()
		if err != nil {
			var z F
			return z, z, err
		}
		y, err := pt.AffineY()
		return x, y, err
	}
	c.fe = func(cs []*big.Int) (F, error) {
		var b []byte
		for _, v := range cs {
			b = append(b, beBytes(mod(v, p), n)...)
		}
		return api.fieldFromBytes(b)
	}
	c.elems = func() []elem[P] {
		re := a.refElems(sp)
		names := make([]string, len(re))
		refs := make([]curve.WPoint[E], len(re))
		for i := range re {
			names[i], refs[i] = re[i].name, re[i].pt
		}
		toLib := func(r curve.WPoint[E]) (P, error) {
			if r.Inf {
				return api.identity(), nil
			}
			return a.toLib(r)
		}
		gen := func() P {
			g, err := a.toLib(a.ref.G)
			if err != nil {
				panic(engine.HarnessError{Msg: name + ": generator: " + err.Error()})
			}
			return g
		}
		return buildElems(names, refs, a.viewRef, a.view, toLib, gen)
	}
	c.sweepEls = []string{"G", "2G", "O", "-G"}

	var comp, uncomp *bformat[P]
	comp = &bformat[P]{name: "compressed", dec: api.fromCompressed, enc: func(pt P) []byte { return pt.ToCompressed() }}
	uncomp = &bformat[P]{name: "uncompressed", dec: api.fromUncompressed, enc: func(pt P) []byte { return pt.ToUncompressed() }}
	half := new(big.Int).Rsh(sub(p, bi(1)), 1)
	parity := func(v pview) (int, bool) {
		if v.inf || allZero(v.y) {
			return 0, false
		}
		return int(v.y[0].Bit(0)), true
	}
	var xbC, xbU, ybU []int // max bits per component of x (compressed), x and y (uncompressed)
	switch st {
	case styleSEC1:
		c.sign = parity
		comp.size, uncomp.size = n+1, 2*n+1
		xbC, xbU, ybU = fullBits(1, 8*n), fullBits(1, 8*n), fullBits(1, 8*n)
		comp.spec = func(d []byte) expect {
			if len(d) != n+1 {
				return expect{reject: "wrong-length"}
			}
			if d[0] != 2 && d[0] != 3 {
				return expect{reject: "wrong-tag"}
			}
			x := beInt(d[1:])
			return expect{x: []*big.Int{x}, sign: int(d[0] & 1), identOK: mod(x, p).Sign() == 0}
		}
		uncomp.spec = func(d []byte) expect {
			if len(d) != 2*n+1 {
				return expect{reject: "wrong-length"}
			}
			if d[0] != 4 {
				return expect{reject: "wrong-tag"}
			}
			x, y := beInt(d[1:1+n]), beInt(d[1+n:])
			return expect{x: []*big.Int{x}, y: []*big.Int{y}, sign: -1, identOK: mod(x, p).Sign() == 0 && mod(y, p).Sign() == 0}
		}
		comp.inputs = func() []dinput {
			var out []dinput
			xs := a.xAlphabet(sp, xbC)
			for _, tag := range []byte{2, 3} {
				for _, x := range xs {
					out = append(out, dinput{fmt.Sprintf("tag=%02x/x=%s", tag, x.label), cat([]byte{tag}, beBytes(x.c[0], n))})
				}
			}
			// every tag on bodies that are not library encodings (an unreduced alias, an abscissa without a point, p)
			for _, x := range xs {
				if x.label == "p" || x.label == "x-without-point" || len(x.label) > 2 && x.label[len(x.label)-2:] == "+p" {
					for tag := 0; tag < 256; tag++ {
						out = append(out, dinput{fmt.Sprintf("tag=%02x/x=%s", tag, x.label), cat([]byte{byte(tag)}, beBytes(x.c[0], n))})
					}
				}
			}
			return uniqInputs(out)
		}
		uncomp.inputs = func() []dinput {
			var out []dinput
			for _, x := range a.xAlphabet(sp, xbU) {
				for _, y := range a.yAlphabet(sp, x.c, ybU) {
					out = append(out, dinput{fmt.Sprintf("tag=04/x=%s/y=%s", x.label, y.label), cat([]byte{4}, beBytes(x.c[0], n), beBytes(y.c[0], n))})
				}
			}
			return uniqInputs(out)
		}
	case stylePasta:
		c.sign = parity
		comp.size, uncomp.size = n, 2*n
		xbC, xbU, ybU = fullBits(1, 8*n-1), fullBits(1, 8*n), fullBits(1, 8*n)
		comp.spec = func(d []byte) expect {
			if len(d) != n {
				return expect{reject: "wrong-length"}
			}
			b := append([]byte{}, d...)
			sign := int(b[n-1] >> 7)
			b[n-1] &= 0x7f
			x := leInt(b)
			return expect{x: []*big.Int{x}, sign: sign, identOK: mod(x, p).Sign() == 0 && sign == 0}
		}
		uncomp.spec = func(d []byte) expect {
			if len(d) != 2*n {
				return expect{reject: "wrong-length"}
			}
			x, y := leInt(d[:n]), leInt(d[n:])
			return expect{x: []*big.Int{x}, y: []*big.Int{y}, sign: -1, identOK: mod(x, p).Sign() == 0 && mod(y, p).Sign() == 0}
		}
		comp.inputs = func() []dinput {
			var out []dinput
			for sign := 0; sign < 2; sign++ {
				for _, x := range a.xAlphabet(sp, xbC) {
					b := leBytes(x.c[0], n)
					b[n-1] |= byte(sign) << 7
					out = append(out, dinput{fmt.Sprintf("sign=%d/x=%s", sign, x.label), b})
				}
			}
			return uniqInputs(out)
		}
		uncomp.inputs = func() []dinput {
			var out []dinput
			for _, x := range a.xAlphabet(sp, xbU) {
				for _, y := range a.yAlphabet(sp, x.c, ybU) {
					out = append(out, dinput{fmt.Sprintf("x=%s/y=%s", x.label, y.label), cat(leBytes(x.c[0], n), leBytes(y.c[0], n))})
				}
			}
			return uniqInputs(out)
		}
	case styleBLS:
		deg := a.deg
		c.sign = func(v pview) (int, bool) {
			if v.inf {
				return 0, false
			}
			top := v.y[deg-1]
			if deg == 2 && top.Sign() == 0 {
				top = v.y[0]
			}
			if top.Cmp(half) > 0 {
				return 1, true
			}
			return 0, true
		}
		comp.size, uncomp.size = n*deg, 2*n*deg
		// the most significant component (c1 for F_p^2, written first) shares its top three bits with the flags
		top := fullBits(deg, 8*n)
		top[deg-1] = 8*n - 3
		xbC, xbU, ybU = top, top, fullBits(deg, 8*n)
		rd := func(b []byte) []*big.Int { // big-endian components, most significant component first
			out := make([]*big.Int, deg)
			for i := 0; i < deg; i++ {
				out[deg-1-i] = beInt(b[i*n : (i+1)*n])
			}
			return out
		}
		wr := func(cs []*big.Int) []byte {
			var b []byte
			for i := deg - 1; i >= 0; i-- {
				b = append(b, beBytes(cs[i], n)...)
			}
			return b
		}
		bodyZero := func(d []byte) bool {
			if d[0]&0x1f != 0 {
				return false
			}
			for _, v := range d[1:] {
				if v != 0 {
					return false
				}
			}
			return true
		}
		comp.spec = func(d []byte) expect {
			if len(d) != n*deg {
				return expect{reject: "wrong-length"}
			}
			C, I, S := d[0]>>7&1, d[0]>>6&1, d[0]>>5&1
			if C == 0 {
				return expect{reject: "wrong-flags/C=0"}
			}
			if I == 1 {
				if S == 1 {
					return expect{reject: "wrong-flags/I=1,S=1"}
				}
				if !bodyZero(d) {
					return expect{reject: "infinity-with-body"}
				}
				return expect{mustIdent: true, identOK: true, sign: -1}
			}
			b := append([]byte{}, d...)
			b[0] &= 0x1f
			return expect{x: rd(b), sign: int(S)}
		}
		uncomp.spec = func(d []byte) expect {
			if len(d) != 2*n*deg {
				return expect{reject: "wrong-length"}
			}
			C, I, S := d[0]>>7&1, d[0]>>6&1, d[0]>>5&1
			if C == 1 {
				return expect{reject: "wrong-flags/C=1"}
			}
			if S == 1 {
				return expect{reject: "wrong-flags/S=1"}
			}
			if I == 1 {
				if !bodyZero(d) {
					return expect{reject: "infinity-with-body"}
				}
				return expect{mustIdent: true, identOK: true, sign: -1}
			}
			b := append([]byte{}, d...)
			b[0] &= 0x1f
			return expect{x: rd(b[:n*deg]), y: rd(b[n*deg:]), sign: -1}
		}
		comp.inputs = func() []dinput {
			var out []dinput
			for fl := 0; fl < 8; fl++ {
				for _, x := range a.xAlphabet(sp, xbC) {
					b := wr(x.c)
					b[0] |= byte(fl) << 5
					out = append(out, dinput{fmt.Sprintf("CIS=%03b/x=%s", fl, x.label), b})
				}
			}
			return uniqInputs(out)
		}
		uncomp.inputs = func() []dinput {
			var out []dinput
			xs := a.xAlphabet(sp, xbU)
			for fl := 0; fl < 8; fl++ {
				for _, x := range xs {
					ys := a.yAlphabet(sp, x.c, ybU)
					if fl != 0 && !engine.Thorough() && len(ys) > 4 {
						// quick: wrong flag combinations on a reduced ordinate alphabet {0, Gy, root, -root}
						var keep []ncoord
						for _, y := range ys {
							if y.label == "0" || y.label == "(0,0)" || y.label == "Gy" || y.label == "root" || y.label == "-root" {
								keep = append(keep, y)
							}
						}
						ys = keep
					}
					for _, y := range ys {
						b := cat(wr(x.c), wr(y.c))
						b[0] |= byte(fl) << 5
						out = append(out, dinput{fmt.Sprintf("CIS=%03b/x=%s/y=%s", fl, x.label, y.label), b})
					}
				}
			}
			return uniqInputs(out)
		}
	}
	c.bases = []*bformat[P]{comp, uncomp}
	c.wraps = append(c.wraps, bytesWrap(0, func(pt P) []byte { return pt.Bytes() }, api.fromBytes))
	if w := binaryWrap(0, api.newP); w != nil {
		c.wraps = append(c.wraps, w)
	}
	c.wraps = append(c.wraps, cborWrap(0, api.newP, api.identity()))

	c.affineInputs = func() []affIn {
		var out []affIn
		for _, x := range a.xAlphabet(sp, fullBits(a.deg, 8*n)) {
			for _, y := range a.yAlphabet(sp, x.c, fullBits(a.deg, 8*n)) {
				out = append(out, affIn{label: "x=" + x.label + "/y=" + y.label, x: x.c, y: y.c})
			}
		}
		return out
	}
	c.affineXInputs = func() []affIn {
		var out []affIn
		for _, x := range a.xAlphabet(sp, fullBits(a.deg, 8*n)) {
			for _, odd := range []bool{false, true} {
				out = append(out, affIn{label: fmt.Sprintf("x=%s/odd=%v", x.label, odd), x: x.c, odd: odd})
			}
		}
		return out
	}
	return c
}

func uniqInputs(in []dinput) []dinput {
	seen := map[string]bool{}
	var out []dinput
	for _, d := range in {
		if seen[string(d.data)] {
			continue
		}
		seen[string(d.data)] = true
		out = append(out, d)
	}
	return out
}
