// Package catalog is the shared configuration catalogue of DESIGN §4: access-structure policies (abstract
// descriptions from verifmc/ref/policy), identifier assignments, and constructors of the REAL library
// access-structure objects for a (policy, identifier assignment) pair. It is used by C02 and meant for reuse by
// C01, C03, C05, C06.
//
// # Model
//
// A policy (ref/policy.Policy) speaks about parties 0..N-1; a subset of parties is a bit mask (bit i = party i).
// An identifier assignment maps party i to the library sharing.ID ids[i]. So the library-side set for mask a is
// Subset(ids, a), and the reference answer for it is p.Qualified(a) — no library code involved.
//
// # API summary
//
//	Entry{Name, P, Refusal}                     one catalogue policy; Refusal != None marks policies the library
//	                                            documents as refused (and where: see the Refusal constants)
//	Thresholds(minN,maxN)                       all (t,n), 2 <= t <= n
//	Unanimities(minN,maxN)                      n-of-n
//	CNFs(minN,maxN,labelledUpToN)               every antichain of maximal unqualified sets covering n parties, full
//	                                            set qualified; all labelled ones for n <= labelledUpToN, one per orbit
//	                                            under party relabelling above that
//	Hierarchicals(minN,maxN,maxLevels)          every level layout with strictly increasing cumulative thresholds
//	BoolExprs(maxLeaves,maxParties)             every gate tree, <= 2 gate levels, repeated leaves, up to party renaming
//	BoolExprsRefused(maxLeaves,maxParties)      the same grammar but with duplicate sibling leaves (constructor refuses)
//	Standard(tier)                              the DESIGN §4 catalogue for "quick" / "thorough"
//	Small()                                     a 20-odd policy cross-section (every family, ideal and non-ideal) for
//	                                            expensive protocols
//	IDAssignments(n)                            {ord, sparse, large} for n parties (unsorted where stated)
//	AssignmentsFor(e)                           the assignments inside the documented domain of e's family
//	                                            (CNF: IDs <= 64 only; hierarchical: sorted so IDs increase with level)
//	Build(p, ids)                               the real accessstructures.Monotone (typed variants BuildThreshold …)
//	Subset(ids, mask) / IDSet(ids...) / Quorum(ids, mask)
//	Qualified(p) / Unqualified(p) / MinimalQualified(p)   masks straight from the reference truth table
package catalog

import (
	"fmt"
	"slices"

	ds "github.com/bronlabs/bron-crypto/pkg/base/datastructures"
	"github.com/bronlabs/bron-crypto/pkg/base/datastructures/hashset"
	"github.com/bronlabs/bron-crypto/pkg/mpc/sharing"
	"github.com/bronlabs/bron-crypto/pkg/mpc/sharing/accessstructures"
	"github.com/bronlabs/bron-crypto/pkg/mpc/sharing/accessstructures/boolexpr"
	"github.com/bronlabs/bron-crypto/pkg/mpc/sharing/accessstructures/cnf"
	"github.com/bronlabs/bron-crypto/pkg/mpc/sharing/accessstructures/hierarchical"
	"github.com/bronlabs/bron-crypto/pkg/mpc/sharing/accessstructures/threshold"
	"github.com/bronlabs/bron-crypto/pkg/mpc/sharing/accessstructures/unanimity"

	"verifmc/ref/policy"
)

// Refusal says whether, and where, the library documents a refusal for a policy.
type Refusal int

const (
	// None: the policy is inside the documented domain of every call.
	None Refusal = iota
	// DuplicateSiblingLeaves: a gate has two direct leaf children of the same party;
	// boolexpr.NewThresholdGateAccessStructure returns an error.
	DuplicateSiblingLeaves
	// OneColumn: the induced span programme has a single column (boolexpr tree whose gates are all 1-of-n, i.e.
	// 1 + Σ_gates (K-1) = 1; hierarchical policy whose largest threshold is 1). Every single party is then
	// qualified on its own. The access structure itself is constructible and IsQualified is defined, but dealing
	// over the programme is refused by design (kw.NewDealerFunc requires >= 2 rows in the random column).
	// Note: a tree such as T2(0,1,T1(0),T1(1)) also qualifies every single party but has two columns and is
	// shared normally; use Entry.P.AllSingletonsQualified() for that (ISN has no unqualified set to work with).
	OneColumn
)

func (r Refusal) String() string {
	return [...]string{"none", "duplicate-sibling-leaves", "one-column"}[r]
}

// Entry is one catalogue policy.
type Entry struct {
	Name    string // unique and stable: P.String()
	P       *policy.Policy
	Refusal Refusal
}

func entry(p *policy.Policy) Entry {
	e := Entry{Name: p.String(), P: p}
	switch {
	case p.Kind == policy.BoolExpr && p.Tree.HasDuplicateSiblingLeaves():
		e.Refusal = DuplicateSiblingLeaves
	case p.Kind == policy.BoolExpr && p.Tree.Columns() == 1, p.Kind == policy.Hierarchical && p.MaxThreshold() == 1:
		e.Refusal = OneColumn
	}
	return e
}

func entries(ps []*policy.Policy) []Entry {
	out := make([]Entry, len(ps))
	for i, p := range ps {
		out[i] = entry(p)
	}
	return out
}

// Thresholds: all (t,n) with 2 <= t <= n, minN <= n <= maxN.
func Thresholds(minN, maxN int) []Entry {
	var out []Entry
	for n := minN; n <= maxN; n++ {
		out = append(out, entries(policy.Thresholds(n))...)
	}
	return out
}

// Unanimities: n-of-n for minN <= n <= maxN (n >= 2).
func Unanimities(minN, maxN int) []Entry {
	var out []Entry
	for n := max(minN, 2); n <= maxN; n++ {
		out = append(out, entry(policy.NewUnanimity(n)))
	}
	return out
}

// CNFs: every antichain of >= 2 non-empty maximal unqualified sets covering exactly n parties (so no single party
// is qualified and the full set is), for minN <= n <= maxN <= 6. For n <= labelledUpToN all labelled antichains
// are returned, above that one representative per orbit under relabelling of the parties.
// Sizes: n=2: 1; n=3: 4 / 8 labelled; n=4: 19 / 113; n=5: 179 / 6893; n=6: 16142 (labelled: 7.8M, not offered).
func CNFs(minN, maxN, labelledUpToN int) []Entry {
	var out []Entry
	for n := max(minN, 2); n <= maxN; n++ {
		out = append(out, entries(policy.CNFs(n, n <= labelledUpToN && n <= 5))...)
	}
	return out
}

// Hierarchicals: every layout of n parties into 1..maxLevels non-empty levels with strictly increasing cumulative
// thresholds (n=2: 3, n=3: 9, n=4: 27, n=5: 75 for maxLevels=3). The single-level threshold-1 layout is marked
// OneColumn.
func Hierarchicals(minN, maxN, maxLevels int) []Entry {
	var out []Entry
	for n := max(minN, 1); n <= maxN; n++ {
		out = append(out, entries(policy.Hierarchicals(n, maxLevels))...)
	}
	return out
}

// BoolExprs: every threshold-gate tree with <= 2 gate levels, <= maxLeaves leaves over <= maxParties parties,
// leaves repeated across subtrees, up to renaming of parties (maxLeaves=3: 159, 4: 1589, 5: 17215 for 4 parties).
// Trees whose gates are all 1-of-n are marked OneColumn.
func BoolExprs(maxLeaves, maxParties int) []Entry {
	return entries(policy.BoolExprs(maxLeaves, maxParties, false))
}

// BoolExprsRefused: trees of the same grammar in which some gate has duplicate sibling leaves.
func BoolExprsRefused(maxLeaves, maxParties int) []Entry {
	return entries(policy.BoolExprs(maxLeaves, maxParties, true))
}

// Standard returns the DESIGN §4 catalogue. quick (461 + 1589 policies): threshold, unanimity, hierarchical and CNF
// to n = 5 (CNF up to relabelling, labelled for n = 3), boolexpr <= 4 leaves. thorough: threshold/unanimity/CNF to
// n = 6 (every labelled CNF for n <= 5, one per relabelling orbit for n = 6), hierarchical n <= 5, boolexpr <= 5
// leaves. Policies with Refusal == OneColumn are included (Entry.Refusal says so); filter with Accepted.
func Standard(tier string) []Entry {
	var out []Entry
	if tier == "thorough" {
		out = append(out, Thresholds(2, 6)...)
		out = append(out, Unanimities(2, 6)...)
		out = append(out, CNFs(2, 6, 5)...)
		out = append(out, Hierarchicals(2, 5, 3)...)
		out = append(out, BoolExprs(5, 4)...)
		return out
	}
	out = append(out, Thresholds(2, 5)...)
	out = append(out, Unanimities(2, 5)...)
	out = append(out, CNFs(2, 5, 3)...)
	out = append(out, Hierarchicals(2, 5, 3)...)
	out = append(out, BoolExprs(4, 4)...)
	return out
}

// Accepted filters the entries the library accepts for dealing (Refusal == None).
func Accepted(es []Entry) []Entry {
	var out []Entry
	for _, e := range es {
		if e.Refusal == None {
			out = append(out, e)
		}
	}
	return out
}

// Small is a fixed cross-section for expensive protocols: every family, ideal and non-ideal span programmes,
// n <= 4. All entries are accepted by the library.
func Small() []Entry {
	L, G := policy.L, policy.G
	ps := []*policy.Policy{
		{Kind: policy.Threshold, N: 2, T: 2},
		{Kind: policy.Threshold, N: 3, T: 2},
		{Kind: policy.Threshold, N: 3, T: 3},
		{Kind: policy.Threshold, N: 4, T: 2},
		{Kind: policy.Threshold, N: 4, T: 3},
		policy.NewUnanimity(2),
		policy.NewUnanimity(3),
		{Kind: policy.CNF, N: 3, MUS: []uint64{0b001, 0b010, 0b100}},            // = threshold(2,3), non-ideal MSP
		{Kind: policy.CNF, N: 3, MUS: []uint64{0b001, 0b110}},                   // party 0 and one of {1,2}
		{Kind: policy.CNF, N: 4, MUS: []uint64{0b0011, 0b1100}},                 // one of {0,1} and one of {2,3}
		{Kind: policy.CNF, N: 4, MUS: []uint64{0b0001, 0b0110, 0b1010, 0b1100}}, // 0 and one other, or all of 1,2,3
		{Kind: policy.Hierarchical, N: 3, Levels: []policy.Level{{T: 1, Parties: []int{0}}, {T: 2, Parties: []int{1, 2}}}},
		{Kind: policy.Hierarchical, N: 4, Levels: []policy.Level{{T: 1, Parties: []int{0, 1}}, {T: 3, Parties: []int{2, 3}}}},
		{Kind: policy.Hierarchical, N: 4, Levels: []policy.Level{{T: 2, Parties: []int{0, 1, 2, 3}}}},
		{Kind: policy.BoolExpr, N: 3, Tree: G(2, L(0), L(1), L(2))},
		{Kind: policy.BoolExpr, N: 3, Tree: G(2, L(0), G(1, L(1), L(2)))},                   // 0 AND (1 OR 2)
		{Kind: policy.BoolExpr, N: 3, Tree: G(1, G(2, L(0), L(1)), G(2, L(0), L(2)))},       // repeated leaf 0
		{Kind: policy.BoolExpr, N: 4, Tree: G(2, G(1, L(0), L(1)), G(1, L(2), L(3)))},       // (0 OR 1) AND (2 OR 3)
		{Kind: policy.BoolExpr, N: 3, Tree: G(2, G(2, L(0), L(1)), G(1, L(1), L(2)), L(2))}, // 2-of-3 over mixed children
	}
	return entries(ps)
}

// ---------------------------------------------------------------------------------------------
// identifier assignments

// IDAssignment maps party i to IDs[i].
type IDAssignment struct {
	Name    string
	IDs     []sharing.ID
	Max64   bool // every identifier is <= 64 (domain of CNF / bit-set helper paths)
	Ordered bool // identifiers increase with the party index (needed by hierarchical policies)
}

var (
	sparseIDs = []sharing.ID{7, 3, 64, 2, 33, 11}
	largeIDs  = []sharing.ID{65535, 1<<32 + 1, 1<<63 + 5, 65537, 1<<64 - 1, 1<<40 + 3}
)

func mk(name string, ids []sharing.ID) IDAssignment {
	a := IDAssignment{Name: name, IDs: slices.Clone(ids), Max64: true, Ordered: true}
	for i, id := range ids {
		if id > 64 {
			a.Max64 = false
		}
		if i > 0 && ids[i-1] >= id {
			a.Ordered = false
		}
	}
	return a
}

// IDAssignments returns the three assignments of DESIGN §4 for n <= 6 parties: "ord" {1..n}, "sparse" (unsorted,
// <= 64: 7,3,64,2,33,11) and "large" (unsorted: 2^16-1, 2^32+1, 2^63+5, 2^16+1, 2^64-1, 2^40+3).
func IDAssignments(n int) []IDAssignment {
	if n > 6 {
		panic("catalog: at most 6 parties")
	}
	ord := make([]sharing.ID, n)
	for i := range ord {
		ord[i] = sharing.ID(i + 1)
	}
	return []IDAssignment{mk("ord", ord), mk("sparse", sparseIDs[:n]), mk("large", largeIDs[:n])}
}

// Sorted returns the assignment with the same identifiers in ascending order.
func (a IDAssignment) Sorted() IDAssignment {
	ids := slices.Clone(a.IDs)
	slices.Sort(ids)
	return mk(a.Name+"-sorted", ids)
}

// Reversed returns the assignment in descending order (violates the hierarchical ID-order condition as soon as
// there are two levels).
func (a IDAssignment) Reversed() IDAssignment {
	ids := slices.Clone(a.IDs)
	slices.Sort(ids)
	slices.Reverse(ids)
	return mk(a.Name+"-reversed", ids)
}

// AssignmentsFor returns the assignments that are inside the documented domain of the entry's family:
// threshold, unanimity, boolexpr: all three; CNF: only identifiers <= 64 (ord, sparse); hierarchical: the sorted
// versions (identifiers must increase from level to level; the field-size condition may still refuse "large").
func AssignmentsFor(e Entry) []IDAssignment {
	var out []IDAssignment
	for _, a := range IDAssignments(e.P.N) {
		switch e.P.Kind {
		case policy.CNF:
			if a.Max64 {
				out = append(out, a)
			}
		case policy.Hierarchical:
			if a.Ordered {
				out = append(out, a)
			} else {
				out = append(out, a.Sorted())
			}
		default:
			out = append(out, a)
		}
	}
	return out
}

// U64 converts identifiers for the reference helpers.
func U64(ids []sharing.ID) []uint64 {
	out := make([]uint64, len(ids))
	for i, id := range ids {
		out[i] = uint64(id)
	}
	return out
}

// ---------------------------------------------------------------------------------------------
// constructors of the real library objects

// IDSet makes a frozen library set.
func IDSet(ids ...sharing.ID) ds.Set[sharing.ID] { return hashset.NewComparable(ids...).Freeze() }

// Subset returns the identifiers of the parties in mask, in party order.
func Subset(ids []sharing.ID, mask uint64) []sharing.ID {
	var out []sharing.ID
	for _, i := range policy.Members(mask) {
		out = append(out, ids[i])
	}
	return out
}

// Quorum builds the unanimity structure over the parties in mask (the library needs >= 2 members).
func Quorum(ids []sharing.ID, mask uint64) (*unanimity.Unanimity, error) {
	return unanimity.NewUnanimityAccessStructure(IDSet(Subset(ids, mask)...))
}

func need(p *policy.Policy, k policy.Kind, ids []sharing.ID) {
	if p.Kind != k {
		panic(fmt.Sprintf("catalog: policy %v is not %v", p, k))
	}
	if len(ids) != p.N {
		panic(fmt.Sprintf("catalog: policy %v needs %d identifiers, got %d", p, p.N, len(ids)))
	}
}

func BuildThreshold(p *policy.Policy, ids []sharing.ID) (*threshold.Threshold, error) {
	need(p, policy.Threshold, ids)
	return threshold.NewThresholdAccessStructure(uint(p.T), IDSet(ids...))
}

func BuildUnanimity(p *policy.Policy, ids []sharing.ID) (*unanimity.Unanimity, error) {
	need(p, policy.Unanimity, ids)
	return unanimity.NewUnanimityAccessStructure(IDSet(ids...))
}

func BuildCNF(p *policy.Policy, ids []sharing.ID) (*cnf.CNF, error) {
	need(p, policy.CNF, ids)
	sets := make([]ds.Set[sharing.ID], len(p.MUS))
	for i, u := range p.MUS {
		sets[i] = IDSet(Subset(ids, u)...)
	}
	return cnf.NewCNFAccessStructure(sets...)
}

func BuildHierarchical(p *policy.Policy, ids []sharing.ID) (*hierarchical.HierarchicalConjunctiveThreshold, error) {
	need(p, policy.Hierarchical, ids)
	levels := make([]*hierarchical.ThresholdLevel, len(p.Levels))
	for i, l := range p.Levels {
		ps := make([]sharing.ID, len(l.Parties))
		for j, x := range l.Parties {
			ps[j] = ids[x]
		}
		levels[i] = hierarchical.WithLevel(l.T, ps...)
	}
	return hierarchical.NewHierarchicalConjunctiveThresholdAccessStructure(levels...)
}

// BoolNode converts a reference tree into library nodes. With shorthand, AND / OR gates are built by
// boolexpr.And / boolexpr.Or instead of boolexpr.Threshold.
func BoolNode(n *policy.Node, ids []sharing.ID, shorthand bool) *boolexpr.Node {
	if n.IsLeaf() {
		return boolexpr.ID(ids[n.Leaf])
	}
	ch := make([]*boolexpr.Node, len(n.Children))
	for i, c := range n.Children {
		ch[i] = BoolNode(c, ids, shorthand)
	}
	if shorthand && n.K == len(ch) {
		return boolexpr.And(ch...)
	}
	if shorthand && n.K == 1 {
		return boolexpr.Or(ch...)
	}
	return boolexpr.Threshold(n.K, ch...)
}

func BuildBoolExpr(p *policy.Policy, ids []sharing.ID, shorthand bool) (*boolexpr.ThresholdGateAccessStructure, error) {
	need(p, policy.BoolExpr, ids)
	return boolexpr.NewThresholdGateAccessStructure(BoolNode(p.Tree, ids, shorthand))
}

// Build constructs the real library access structure of any family.
func Build(p *policy.Policy, ids []sharing.ID) (accessstructures.Monotone, error) {
	switch p.Kind {
	case policy.Threshold:
		return wrap(BuildThreshold(p, ids))
	case policy.Unanimity:
		return wrap(BuildUnanimity(p, ids))
	case policy.CNF:
		return wrap(BuildCNF(p, ids))
	case policy.Hierarchical:
		return wrap(BuildHierarchical(p, ids))
	case policy.BoolExpr:
		return wrap(BuildBoolExpr(p, ids, false))
	}
	panic("catalog: unknown policy kind")
}

// BuildVariant constructs the same access structure as Build from a differently LISTED description: variant v rotates
// the clause list of a CNF by v (and reverses it for odd v), reverses the listing order inside every set, and lists the
// parties of every hierarchical level in reverse. The described monotone function (and, for every family whose
// documentation promises a canonical span programme, the induced MSP) is the same for every v; v = 0 is Build.
func BuildVariant(p *policy.Policy, ids []sharing.ID, v int) (accessstructures.Monotone, error) {
	if v == 0 {
		return Build(p, ids)
	}
	rev := func(in []sharing.ID) []sharing.ID {
		out := append([]sharing.ID{}, in...)
		for i, j := 0, len(out)-1; i < j; i, j = i+1, j-1 {
			out[i], out[j] = out[j], out[i]
		}
		return out
	}
	switch p.Kind {
	case policy.CNF:
		n := len(p.MUS)
		sets := make([]ds.Set[sharing.ID], n)
		for i := range p.MUS {
			src := (i + v) % n
			if v%2 == 1 {
				src = (n - 1 - i + v) % n
			}
			sets[i] = IDSet(rev(Subset(ids, p.MUS[src]))...)
		}
		return wrap(cnf.NewCNFAccessStructure(sets...))
	case policy.Hierarchical:
		levels := make([]*hierarchical.ThresholdLevel, len(p.Levels))
		for i, l := range p.Levels {
			ps := make([]sharing.ID, len(l.Parties))
			for j, x := range l.Parties {
				ps[len(ps)-1-j] = ids[x]
			}
			levels[i] = hierarchical.WithLevel(l.T, ps...)
		}
		return wrap(hierarchical.NewHierarchicalConjunctiveThresholdAccessStructure(levels...))
	case policy.Threshold:
		return wrap(threshold.NewThresholdAccessStructure(uint(p.T), IDSet(rev(ids)...)))
	case policy.Unanimity:
		return wrap(unanimity.NewUnanimityAccessStructure(IDSet(rev(ids)...)))
	}
	return Build(p, ids)
}

func wrap[T accessstructures.Monotone](v T, err error) (accessstructures.Monotone, error) {
	if err != nil {
		return nil, err
	}
	return v, nil
}

// ---------------------------------------------------------------------------------------------
// quorums from the reference truth table

// Qualified lists every qualified subset mask of p (minimal and non-minimal), ascending.
func Qualified(p *policy.Policy) []uint64 {
	var out []uint64
	for a := uint64(1); a <= p.Full(); a++ {
		if p.Qualified(a) {
			out = append(out, a)
		}
	}
	return out
}

// Unqualified lists every non-empty unqualified subset mask of p, ascending.
func Unqualified(p *policy.Policy) []uint64 {
	var out []uint64
	for a := uint64(1); a <= p.Full(); a++ {
		if !p.Qualified(a) {
			out = append(out, a)
		}
	}
	return out
}

// MinimalQualified lists the minimal qualified subset masks.
func MinimalQualified(p *policy.Policy) []uint64 { return p.MinimalQualified() }
