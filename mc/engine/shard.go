package engine

import (
	"encoding/json"
	"fmt"
	"os"
	"os/exec"
	"strconv"
	"strings"
	"sync"
	"time"
)

// Process sharding: the parent re-executes the test binary N times with VERIF_CHILD=<section>. Every child expands
// the top of the choice tree identically (deterministic bodies) until the frontier of unexecuted prefixes has at least
// N entries (a little more when that is cheap), takes the frontier entries j with j % N == i, and explores those subtrees completely. Counts are exact:
// the shared top part is counted by shard 0 only and the subtrees are disjoint.

var skipPrefixes = map[string]bool{}

type childResult struct {
	Sec      *Section  `json:"section"`
	Outcomes []string  `json:"outcomes"`
	CaseKeys []uint64  `json:"case_keys"`
	Fails    []Failure `json:"fails"`
	CapHit   bool      `json:"cap_hit"`
}

func runChild(sec *Section, body func(*X), o Opts) {
	parts := strings.Split(os.Getenv("VERIF_SHARD"), "/")
	idx, _ := strconv.Atoi(parts[0])
	n, _ := strconv.Atoi(parts[1])
	start := time.Now()
	crashFile = os.Getenv("VERIF_CHILD_OUT") + ".cur"
	for _, f := range strings.Split(os.Getenv("VERIF_SKIP_PREFIXES"), ";") {
		if f != "" {
			skipPrefixes[f] = true
		}
	}
	frontier := [][]int{nil}
	for round := 0; round < 8 && len(frontier) > 0 && (len(frontier) < n || (len(frontier) < 4*n && round < 3)); round++ {
		var next [][]int
		for _, pre := range frontier {
			if skipPrefixes[fmt.Sprint(pre)] {
				continue // this prefix killed an earlier worker; it is already reported
			}
			if o.CrashTrace {
				_ = os.WriteFile(crashFile, []byte(fmt.Sprint(pre)), 0o644)
			}
			x := runBody(sec, body, pre, false)
			if idx == 0 {
				sec.absorb(x)
			} else {
				sec.mu.Lock()
				sec.fails = append(sec.fails, x.fails...) // a failure in the shared top is reported once (dedup by parent)
				sec.mu.Unlock()
			}
			next = append(next, expand(x, len(pre), o.DevBound)...)
		}
		frontier = next
	}
	var mine [][]int
	for j, pre := range frontier {
		if j%n == idx {
			mine = append(mine, pre)
		}
	}
	capHit := exploreFrom(sec, body, o, mine, start)
	res := childResult{Sec: sec, Fails: sec.fails, CapHit: capHit}
	for k := range sec.outcomes {
		res.Outcomes = append(res.Outcomes, k)
	}
	for k := range sec.caseSet {
		res.CaseKeys = append(res.CaseKeys, k)
	}
	b, err := json.Marshal(res)
	if err == nil {
		err = os.WriteFile(os.Getenv("VERIF_CHILD_OUT"), b, 0o644)
	}
	if err != nil {
		fmt.Println("child: cannot write result:", err)
		os.Exit(3)
	}
	os.Exit(0)
}

func runParent(sec *Section, o Opts) {
	n := o.Procs
	dir, err := os.MkdirTemp("", "verif-shard-")
	if err != nil {
		panic(HarnessError{"mkdtemp: " + err.Error()})
	}
	defer os.RemoveAll(dir)
	var wg sync.WaitGroup
	results := make([]*childResult, n)
	errsCh := make([]string, n)
	var crashes []Failure
	var crashMu sync.Mutex
	for i := 0; i < n; i++ {
		wg.Add(1)
		go func(i int) {
			defer wg.Done()
			out := fmt.Sprintf("%s/%d.json", dir, i)
			var skips []string
			for attempt := 0; attempt < 6; attempt++ {
				_ = os.Remove(out)
				_ = os.Remove(out + ".cur")
				cmd := exec.Command(os.Args[0], "-test.run", "^TestCheck$", "-test.timeout", "0")
				cmd.Env = append(os.Environ(), "VERIF_CHILD="+o.Name, fmt.Sprintf("VERIF_SHARD=%d/%d", i, n), "VERIF_CHILD_OUT="+out, "VERIF_TIER="+tier, fmt.Sprintf("VERIF_SEED=%d", seed), "VERIF_SKIP_PREFIXES="+strings.Join(skips, ";"))
				if o.Serial {
					cmd.Env = append(cmd.Env, "GOMAXPROCS=2")
				}
				b, err := cmd.CombinedOutput()
				data, rerr := os.ReadFile(out)
				if rerr != nil {
					if cur, cerr := os.ReadFile(out + ".cur"); cerr == nil && o.CrashTrace {
						// the worker process died while executing this prefix: an observable crash of the code under test
						var pre []int
						for _, f := range strings.Fields(strings.Trim(string(cur), "[]")) {
							v, _ := strconv.Atoi(f)
							pre = append(pre, v)
						}
						crashMu.Lock()
						crashes = append(crashes, Failure{Key: "process-crash", Msg: "the worker process was killed while executing this choice sequence (fatal panic outside any recoverable goroutine / runtime throw):\n" + crashExcerpt(string(b)), Choices: pre, Labels: []string{fmt.Sprint(pre)}})
						crashMu.Unlock()
						skips = append(skips, fmt.Sprint(pre))
						continue // restart the shard without that prefix (its subtree stays unexplored)
					}
					errsCh[i] = fmt.Sprintf("shard %d produced no result (%v): %s", i, err, tail(string(b), 600))
					return
				}
				var r childResult
				if jerr := json.Unmarshal(data, &r); jerr != nil {
					errsCh[i] = fmt.Sprintf("shard %d result unreadable: %v", i, jerr)
					return
				}
				results[i] = &r
				return
			}
			errsCh[i] = fmt.Sprintf("shard %d crashed on %d different prefixes; giving up on its remaining subtrees", i, len(skips))
		}(i)
	}
	wg.Wait()
	capHit := false
	seenFail := map[string]bool{}
	for i, r := range results {
		if r == nil {
			HarnessFail("section %s: %s", o.Name, errsCh[i])
			capHit = true
			continue
		}
		c := r.Sec
		sec.Executions += c.Executions
		sec.Trivial += c.Trivial
		sec.Cases += c.Cases
		sec.Abandoned += c.Abandoned
		if c.MaxDepth > sec.MaxDepth {
			sec.MaxDepth = c.MaxDepth
		}
		for k, v := range c.Fanout {
			if v > sec.Fanout[k] {
				sec.Fanout[k] = v
			}
		}
		for _, k := range r.Outcomes {
			sec.outcomes[k] = struct{}{}
		}
		for _, k := range r.CaseKeys {
			sec.caseSet[k] = struct{}{}
		}
		if len(sec.Samples) < 6 {
			sec.Samples = append(sec.Samples, c.Samples...)
		}
		for _, f := range r.Fails {
			key := fmt.Sprint(f.Choices) + f.Msg
			if !seenFail[key] {
				seenFail[key] = true
				sec.fails = append(sec.fails, f)
			}
		}
		capHit = capHit || r.CapHit
	}
	if len(crashes) > 0 {
		seenCrash := map[string]bool{}
		var uniq []Failure
		for _, c := range crashes {
			if k := fmt.Sprint(c.Choices); !seenCrash[k] {
				seenCrash[k] = true
				uniq = append(uniq, c)
			}
		}
		crashes = uniq
		sec.fails = append(sec.fails, crashes...)
		sec.Notes = append(sec.Notes, fmt.Sprintf("%d executions killed their worker process; the subtrees below those prefixes were not explored", len(crashes)))
		capHit = true
	}
	sec.Notes = append(sec.Notes, fmt.Sprintf("explored by %d worker processes (disjoint subtrees of the choice tree)", n))
	sec.Exhaustive = !capHit && sec.Abandoned == 0
	if capHit {
		sec.Cap = fmt.Sprintf("time budget %s hit in some shard; %d subtrees not expanded", o.Budget, sec.Abandoned)
	}
}

func crashExcerpt(out string) string {
	i := strings.Index(out, "panic:")
	if j := strings.Index(out, "fatal error:"); j >= 0 && (i < 0 || j < i) {
		i = j
	}
	if i < 0 {
		return tail(out, 800)
	}
	lines := strings.Split(out[i:], "\n")
	var keep []string
	for _, l := range lines {
		if strings.Contains(l, "panic:") || strings.Contains(l, "fatal error:") || strings.Contains(l, "bron-crypto") || strings.Contains(l, ".go:") {
			keep = append(keep, strings.TrimSpace(l))
		}
		if len(keep) >= 14 {
			break
		}
	}
	return strings.Join(keep, "\n")
}

func tail(s string, n int) string {
	if len(s) > n {
		return s[len(s)-n:]
	}
	return s
}
