package c06

// The invariant evaluated in every state, and the reference side: reconstruction by math/big Gaussian elimination
// over the span programme matrix read entry by entry from the shard (ref/linalg), qualification from the policy
// truth table (ref/policy), BIP-340 verification from the BIP text (ref/sig).

import (
	"bytes"
	"fmt"
	"math/big"
	"slices"
	"sort"
	"sync"

	"github.com/bronlabs/bron-crypto/pkg/base/curves/k256"
	"github.com/bronlabs/bron-crypto/pkg/mpc"
	"github.com/bronlabs/bron-crypto/pkg/mpc/sharing/accessstructures"
	"github.com/bronlabs/bron-crypto/pkg/mpc/sharing/scheme/kw/msp"
	"github.com/bronlabs/bron-crypto/pkg/mpc/sharing/vss/feldman"
	"github.com/bronlabs/bron-crypto/pkg/signatures/schnorrlike/bip340"

	"verifmc/ref/conv"
	"verifmc/ref/linalg"
	"verifmc/ref/sig"
)

// rec collects what one invariant evaluation found.
type rec struct {
	fails []finding
	cases int
	obs   []string
}

func (r *rec) failf(key, format string, a ...any) {
	if len(r.fails) < 25 {
		r.fails = append(r.fails, finding{key, fmt.Sprintf(format, a...)})
	}
}

// outcome statistics across all states (vacuity: which way every "refused or wrong" oracle was satisfied)
var (
	statMu sync.Mutex
	stats  = map[string]int{}
)

func stat(k string) { statMu.Lock(); stats[k]++; statMu.Unlock() }

func statLines() []string {
	statMu.Lock()
	defer statMu.Unlock()
	var ks []string
	for k := range stats {
		ks = append(ks, k)
	}
	sort.Strings(ks)
	out := make([]string, len(ks))
	for i, k := range ks {
		out[i] = fmt.Sprintf("%6d  %s", stats[k], k)
	}
	return out
}

// ---------------------------------------------------------------------------------------------------------------
// reference side

// refMSP reads the span programme of a shard: matrix entries as residues, and the rows of every holder ascending
// (a share's components are stored in ascending row order).
func refMSP(m *msp.MSP[*k256.Scalar]) (*linalg.Mat, map[ID][]int) {
	r, c := m.Matrix().Dimensions()
	M := linalg.New(conv.K256N, r, c)
	for i := 0; i < r; i++ {
		for j := 0; j < c; j++ {
			e, err := m.Matrix().Get(i, j)
			if err != nil {
				panic(err)
			}
			M.A[i][j] = conv.ToBig(e)
		}
	}
	rows := map[ID][]int{}
	for row, id := range m.RowsToHolders().Iter() {
		rows[id] = append(rows[id], row)
	}
	for id := range rows {
		sort.Ints(rows[id])
	}
	return M, rows
}

// refCombine reconstructs from the given shares of the members of set under the span programme m.
// spans=false: e0 is not in the span of the members' rows (unqualified). fit=false: some share does not have one
// component per row of its holder (it cannot even be placed into this programme).
func refCombine(m *msp.MSP[*k256.Scalar], shares map[ID]*Share, set []ID) (x *big.Int, spans, fit bool) {
	M, rows := refMSP(m)
	var idx []int
	var vals []*big.Int
	fit = true
	for _, id := range sorted(set) {
		rs, ok := rows[id]
		if !ok {
			return nil, false, false
		}
		idx = append(idx, rs...)
		v := shares[id].Value()
		if len(v) != len(rs) {
			fit = false
			continue
		}
		for _, e := range v {
			vals = append(vals, conv.ToBig(e))
		}
	}
	sub := M.SubRows(idx)
	e0 := make([]*big.Int, M.C)
	for i := range e0 {
		e0[i] = new(big.Int)
	}
	e0[0] = big.NewInt(1)
	lambda, ok := sub.Transpose().SolveRight(e0)
	if !ok {
		return nil, false, fit
	}
	if !fit {
		return nil, true, false
	}
	acc, t := new(big.Int), new(big.Int)
	for i := range lambda {
		acc.Add(acc, t.Mul(lambda[i], vals[i]))
	}
	return acc.Mod(acc, conv.K256N), true, true
}

func refReconstruct(any *Shard, shards map[ID]*Shard, set []ID) (*big.Int, bool) {
	sh := map[ID]*Share{}
	for _, id := range set {
		sh[id] = shards[id].Share()
	}
	x, spans, fit := refCombine(any.MSP(), sh, set)
	return x, spans && fit
}

// refVerify: BIP-340 verification (reference) of the aggregated signature under the ORIGINAL public key.
func refVerify(s *bip340.Signature, msg []byte) bool {
	if s == nil || s.R == nil || s.S == nil || s.R.IsOpIdentity() {
		return false
	}
	b := append(slices.Clone(s.R.ToCompressed()[1:]), conv.ToBig(s.S).FillBytes(make([]byte, 32))...)
	return sig.BIP340Verify(pk0Bytes, msg, b)
}

// ---------------------------------------------------------------------------------------------------------------
// the invariant

func subsetsOf(ids []ID) [][]ID {
	var out [][]ID
	for m := 1; m < 1<<len(ids); m++ {
		var s []ID
		for i, id := range ids {
			if m>>i&1 == 1 {
				s = append(s, id)
			}
		}
		out = append(out, s)
	}
	return out
}

func sharesOf(e *epoch, set []ID) []*Share {
	var o []*Share
	for _, id := range set {
		o = append(o, e.shards[id].Share())
	}
	return o
}

func evaluate(s *state) *rec {
	r := &rec{}
	r.fails = append(r.fails, s.opFail...)
	cur := s.cur()
	where := fmt.Sprintf("after [%s] (epoch %d, %s)", histName(s.hist), len(s.epochs)-1, cur.st.name)
	checkEpoch(r, s, cur, where)
	for i := 0; i < len(s.epochs)-1; i++ {
		checkMixed(r, s, s.epochs[i], i, cur, i == len(s.epochs)-2, where)
	}
	if len(s.epochs) >= 2 {
		probeStaleRedistribution(r, s, s.epochs[len(s.epochs)-2], cur, where)
	}
	probeZeroDealer(r, s, cur, where)
	r.obs = append(r.obs, cur.st.name, fmt.Sprint(len(s.epochs)-1))
	return r
}

// checkEpoch: public key unchanged, every shard consistent with the new public data, every subset of holders behaves
// as the reference says.
func checkEpoch(r *rec, s *state, e *epoch, where string) {
	st := e.st
	label := "inv/" + histKey(s.hist)
	curve := k256.NewCurve()
	induced, err := accessstructures.InducedMSP(k256.NewScalarField(), st.ac)
	if err != nil {
		r.failf("harness/induced-msp", "%s: InducedMSP: %v", where, err)
		return
	}
	first := e.shards[st.ids[0]]
	for _, id := range st.ids {
		sh := e.shards[id]
		r.cases++
		if sh == nil || sh.Share() == nil {
			r.failf("shard/missing", "%s: holder %d has no shard", where, id)
			return
		}
		if sh.Share().ID() != id {
			r.failf("shard/wrong-id", "%s: the shard of holder %d carries share id %d", where, id, sh.Share().ID())
		}
		if !sh.PublicKeyValue().Equal(pk0) || !bytes.Equal(sh.PublicKeyValue().ToCompressed()[1:], pk0Bytes) {
			r.failf("pk-changed", "%s: holder %d's shard reports public key %x, the dealt key is %x", where, id, sh.PublicKeyValue().ToCompressed(), pk0.ToCompressed())
		}
		if v0, err := sh.VerificationVector().Value().Get(0, 0); err != nil || !v0.Equal(pk0) {
			r.failf("pk-changed/vv0", "%s: entry 0 of holder %d's verification vector is not the dealt public key", where, id)
		}
		if _, err := mpc.NewBaseShard(sh.Share(), sh.VerificationVector(), sh.MSP()); err != nil {
			r.failf("shard/inconsistent", "%s: NewBaseShard(share, new verification vector) of holder %d fails: %v", where, id, err)
		}
		if !sh.MSP().Equal(induced) {
			r.failf("shard/msp", "%s: holder %d's shard carries a span programme that is not the induced one of %s", where, id, st.name)
		}
		if !sh.VerificationVector().Equal(first.VerificationVector()) {
			r.failf("shard/vv-disagree", "%s: holders %d and %d hold different verification vectors", where, st.ids[0], id)
		}
	}
	scheme, err := feldman.NewScheme(curve, st.ac)
	if err != nil {
		r.failf("harness/scheme", "%s: feldman.NewScheme: %v", where, err)
		return
	}
	for _, set := range subsetsOf(st.ids) {
		r.cases++
		want := st.qualified(set)
		x, ok := refReconstruct(first, e.shards, set)
		libSecret, lerr := scheme.Reconstruct(sharesOf(e, set)...)
		if want {
			if !ok {
				r.failf("span/qualified-not-spanning", "%s: %v is qualified (reference) but e0 is not in the span of its rows", where, set)
				continue
			}
			if x.Cmp(secretX) != 0 {
				r.failf("secret-changed", "%s: reference reconstruction by the qualified set %v gives %x, the dealt secret is %x", where, set, x, secretX)
			}
			if lerr != nil {
				r.failf("reconstruct/refused", "%s: library Reconstruct refuses the qualified set %v: %v", where, set, lerr)
			} else if conv.ToBig(libSecret.Value()).Cmp(secretX) != 0 {
				r.failf("secret-changed/library", "%s: library Reconstruct by %v gives %x, the dealt secret is %x", where, set, conv.ToBig(libSecret.Value()), secretX)
			}
		} else {
			if ok {
				r.failf("span/unqualified-spanning", "%s: %v is unqualified (reference) but e0 IS in the span of its rows (reference reconstruction gives %x)", where, set, x)
			}
			if lerr == nil {
				r.failf("reconstruct/unqualified-accepted", "%s: library Reconstruct accepts the unqualified set %v", where, set)
			}
		}
		if len(set) < 2 {
			continue // a signing session needs two parties by construction; singletons are never qualified here
		}
		msg := []byte(fmt.Sprintf("c06 %s %v", histKey(s.hist), set))
		sr := signRounds(fmt.Sprintf("%s/sign%v", label, set), e.shards, set, e.shards[set[0]], msg)
		if want {
			switch {
			case sr.err != nil:
				r.failf("sign/refused", "%s: Lindell22 signing by the qualified set %v failed at %s: %v", where, set, sr.stage, sr.err)
			case !refVerify(sr.sig, msg):
				r.failf("sign/invalid", "%s: the signature by %v does not verify under the ORIGINAL public key (reference BIP-340): R=%x s=%x", where, set, sr.sig.R.ToCompressed(), sr.sig.S.Bytes())
			default:
				stat("sign by qualified set: valid under the dealt key")
			}
		} else {
			if sr.err == nil {
				r.failf("sign/unqualified-accepted", "%s: the unqualified set %v produced an aggregated signature (valid under the dealt key: %v)", where, set, refVerify(sr.sig, msg))
			} else {
				stat("sign by unqualified set: refused at " + sr.stage)
			}
		}
	}
}

// checkMixed: shards of an older epoch do not combine with shards of the current one.
func checkMixed(r *rec, s *state, old *epoch, oldIdx int, cur *epoch, adjacent bool, where string) {
	curve := k256.NewCurve()
	label := fmt.Sprintf("inv/%s/mix%d", histKey(s.hist), oldIdx)
	var common []ID
	for _, id := range cur.st.ids {
		if contains(old.st.ids, id) {
			common = append(common, id)
		}
	}
	curScheme, err1 := feldman.NewScheme(curve, cur.st.ac)
	oldScheme, err2 := feldman.NewScheme(curve, old.st.ac)
	if err1 != nil || err2 != nil {
		r.failf("harness/scheme", "%s: feldman.NewScheme: %v %v", where, err1, err2)
		return
	}
	anyCur, anyOld := cur.shards[cur.st.ids[0]], old.shards[old.st.ids[0]]
	// one direction: into (scheme, quorums of `into`) goes ONE share of `from`
	mix := func(dir string, into, from *epoch, scheme *feldman.Scheme[*k256.Point, *k256.Scalar], any *Shard, j ID) {
		for _, q := range into.st.minQ {
			if !contains(q, j) {
				continue
			}
			r.cases++
			sh := map[ID]*Share{}
			var list []*Share
			for _, id := range q {
				if id == j {
					sh[id] = from.shards[id].Share()
				} else {
					sh[id] = into.shards[id].Share()
				}
				list = append(list, sh[id])
			}
			x, spans, fit := refCombine(any.MSP(), sh, q)
			switch {
			case !fit:
				stat("mixed reconstruct (" + dir + "): share does not fit the programme")
			case !spans:
				r.failf("span/qualified-not-spanning", "%s: minimal qualified set %v does not span e0", where, q)
			case x.Cmp(secretX) == 0:
				r.failf("mixed/reconstructs", "%s: holder %d's share of epoch %d (%s) together with the epoch-%d shares of %v reconstructs the secret (reference)", where, j, epochIndex(s, from), from.st.name, epochIndex(s, into), minus(q, j))
			default:
				stat("mixed reconstruct (" + dir + "): value differs from the secret")
			}
			lib, err := scheme.Reconstruct(list...)
			if err == nil && conv.ToBig(lib.Value()).Cmp(secretX) == 0 {
				r.failf("mixed/reconstructs-library", "%s: library Reconstruct over holder %d's share of epoch %d and the epoch-%d shares of %v returns the secret", where, j, epochIndex(s, from), epochIndex(s, into), minus(q, j))
			}
			if err != nil {
				stat("mixed reconstruct (" + dir + "): library refuses")
			} else {
				stat("mixed reconstruct (" + dir + "): library returns a value that is not the secret")
			}
		}
	}
	for _, j := range common {
		r.cases++
		if _, err := mpc.NewBaseShard(old.shards[j].Share(), anyCur.VerificationVector(), anyCur.MSP()); err == nil {
			r.failf("mixed/old-share-verifies", "%s: NewBaseShard(holder %d's share of epoch %d, verification vector of the current epoch) succeeds", where, j, oldIdx)
		}
		if _, err := mpc.NewBaseShard(cur.shards[j].Share(), anyOld.VerificationVector(), anyOld.MSP()); err == nil {
			r.failf("mixed/new-share-verifies-old", "%s: NewBaseShard(holder %d's current share, verification vector of epoch %d) succeeds", where, j, oldIdx)
		}
		mix("old share into current quorum", cur, old, curScheme, anyCur, j)
		mix("current share into old quorum", old, cur, oldScheme, anyOld, j)
		if !adjacent {
			continue
		}
		// signing: holder j still uses its shard of the previous epoch, the rest of a minimal quorum the current ones
		for _, q := range cur.st.minQ {
			if !contains(q, j) || len(q) < 2 {
				continue
			}
			r.cases++
			in := map[ID]*Shard{}
			for _, id := range q {
				in[id] = cur.shards[id]
			}
			in[j] = old.shards[j]
			msg := []byte(fmt.Sprintf("c06 mixed %s %d %v", histKey(s.hist), j, q))
			sr := signRounds(fmt.Sprintf("%s/sign%d%v", label, j, q), in, q, cur.shards[minus(q, j)[0]], msg)
			switch {
			case sr.err != nil:
				stat("mixed-epoch signing: refused at " + sr.stage)
			case refVerify(sr.sig, msg):
				r.failf("mixed/signs", "%s: quorum %v in which holder %d uses its shard of epoch %d (%s) produced a signature that verifies under the dealt key", where, q, j, oldIdx, old.st.name)
			default:
				stat("mixed-epoch signing: signature does not verify")
			}
			break // the first minimal quorum containing j
		}
	}
}

// rotation is a deterministic function of the history used to pick which holder deviates in the probes.
func rotation(s *state) int {
	n := len(s.hist)
	for _, op := range s.hist {
		n += op
	}
	return n
}

func epochIndex(s *state, e *epoch) int {
	for i, x := range s.epochs {
		if x == e {
			return i
		}
	}
	return -1
}

// probeStaleRedistribution: a redistribution of the current epoch in which ONE driving holder still uses its shard
// of the previous epoch (same key, stale sharing), to the current structure, driven by a minimal qualified set, no
// trusted anchor: no honest party may end with a shard of a different key.
func probeStaleRedistribution(r *rec, s *state, old, cur *epoch, where string) {
	var common []ID
	for _, id := range cur.st.ids {
		if contains(old.st.ids, id) {
			common = append(common, id)
		}
	}
	if len(common) == 0 {
		return
	}
	// ONE stale driver per state, rotating with the history (every position occurs over the histories of a level)
	for _, j := range []ID{common[rotation(s)%len(common)]} {
		var drive []ID
		for _, q := range cur.st.minQ {
			if contains(q, j) {
				drive = q
				break
			}
		}
		if len(drive) < 2 {
			continue
		}
		r.cases++
		in := map[ID]*Shard{}
		for _, id := range cur.st.ids {
			in[id] = cur.shards[id]
		}
		in[j] = old.shards[j]
		res := redistributeRounds(redistArgs{label: fmt.Sprintf("inv/%s/stale%d", histKey(s.hist), j), prev: drive, shards: in, next: cur.st.ac})
		accepted := 0
		for _, id := range cur.st.ids {
			sh := res.out[id]
			if id == j || sh == nil {
				continue
			}
			accepted++
			if !sh.PublicKeyValue().Equal(pk0) {
				r.failf("stale-redistribution/key-changed", "%s: redistribution driven by %v in which holder %d used its shard of the previous epoch (%s) gave honest holder %d a shard with public key %x instead of %x", where, drive, j, old.st.name, id, sh.PublicKeyValue().ToCompressed(), pk0.ToCompressed())
			}
		}
		if accepted == 0 {
			stat("redistribution with one stale driver: every honest next holder refused")
		} else {
			stat("redistribution with one stale driver: some honest holder accepted a shard (same key)")
		}
	}
}

// probeZeroDealer: in an HJKY zero sharing over the current structure one dealer deals a polynomial with constant
// term 1. An honest party that accepts must not end with a "zero" sharing whose public value is not the identity
// (otherwise adding it to the shares moves the key).
func probeZeroDealer(r *rec, s *state, cur *epoch, where string) {
	one := k256.NewScalarField().One()
	// ONE deviating dealer per state, rotating with the history
	for _, j := range []ID{cur.st.ids[rotation(s)%len(cur.st.ids)]} {
		r.cases++
		outs, _ := hjkyRounds(fmt.Sprintf("inv/%s/zero%d", histKey(s.hist), j), cur.st.ac, j, one)
		accepted := 0
		for id, z := range outs {
			accepted++
			if v0, err := z.vv.Value().Get(0, 0); err != nil || !v0.IsOpIdentity() {
				r.failf("zero-sharing/nonzero-accepted", "%s: HJKY over %s: honest party %d accepted dealer %d's sharing with constant term 1; its aggregated zero verification vector commits to a non-identity value", where, cur.st.name, id, j)
			}
		}
		if accepted == 0 {
			stat("zero sharing with one non-zero dealer: every honest party refused")
		} else {
			stat("zero sharing with one non-zero dealer: accepted")
		}
	}
}
