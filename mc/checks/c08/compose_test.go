package c08

import (
	"bytes"
	"fmt"
	"io"

	"github.com/bronlabs/bron-crypto/pkg/proofs/sigma"
	"github.com/bronlabs/bron-crypto/pkg/proofs/sigma/compose/sigand"
	"github.com/bronlabs/bron-crypto/pkg/proofs/sigma/compose/sigor"
)

// andCase is the n-way AND composition of c over instances (n*i .. n*i+n-1).
func andCase[X sigma.Statement, W sigma.Witness, A sigma.Statement, S sigma.State, Z sigma.Response](
	c *sigCase[X, W, A, S, Z], n int,
) *sigCase[sigand.Statement[X], sigand.Witness[W], sigand.Commitment[A], sigand.State[S], sigand.Response[Z]] {
	type (
		XX = sigand.Statement[X]
		WW = sigand.Witness[W]
		AA = sigand.Commitment[A]
		SS = sigand.State[S]
		ZZ = sigand.Response[Z]
	)
	out := &sigCase[XX, WW, AA, SS, ZZ]{name: fmt.Sprintf("%s/and%d", c.name, n), heavy: c.heavy, unitMS: c.unitMS * n}
	out.mk = func(rng io.Reader) sigma.Protocol[XX, WW, AA, SS, ZZ] {
		return must(sigand.Compose(c.mk(rng), uint(n)))
	}
	out.inst = func(i int) (XX, WW) {
		xs := make([]X, n)
		ws := make([]W, n)
		for k := range n {
			xs[k], ws[k] = c.inst(n*i + k)
		}
		return must(sigand.ComposeStatements(xs...)), must(sigand.ComposeWitnesses(ws...))
	}
	out.alts = func() []altStmt[XX] {
		base, _ := out.inst(0)
		var alts []altStmt[XX]
		for k := range n {
			// whole branch statement replaced by another valid instance's statement
			xs := append(XX{}, base...)
			xs[k], _ = c.inst(100 + k)
			alts = append(alts, altStmt[XX]{fmt.Sprintf("branch%d:=other-instance", k), xs})
		}
		// one component inside branch 0 / last branch replaced
		for _, k := range []int{0, n - 1} {
			if k == 0 {
				for _, a := range c.alts() {
					xs := append(XX{}, base...)
					xs[0] = a.x
					alts = append(alts, altStmt[XX]{"branch0." + a.name, xs})
				}
			}
		}
		// branches permuted (proof for (x0,x1,..) presented for (x1,x0,..))
		xs := append(XX{}, base...)
		xs[0], xs[1] = xs[1], xs[0]
		alts = append(alts, altStmt[XX]{"branches-0-1-swapped", xs})
		return alts
	}
	if c.extract != nil {
		out.extract = func(_ sigma.Protocol[XX, WW, AA, SS, ZZ], x XX, a AA, es []sigma.ChallengeBytes, zs []ZZ) (WW, error) {
			bp := c.mk(stream(out.name + "/extract"))
			ws := make([]W, n)
			for k := range n {
				zk := make([]Z, len(zs))
				for j := range zs {
					zk[j] = zs[j][k]
				}
				w, err := c.extract(bp, x[k], a[k], es, zk)
				if err != nil {
					return nil, err
				}
				ws[k] = w
			}
			return sigand.ComposeWitnesses(ws...)
		}
	}
	return out
}

// orCase is the 2-way OR composition of c where only branch `side` has a witness.
func orCase[X sigma.Statement, W sigma.Witness, A sigma.Statement, S sigma.State, Z sigma.Response](
	c *sigCase[X, W, A, S, Z], side int,
) *sigCase[sigor.Statement[X], sigor.Witness[W], sigor.Commitment[A], *sigor.State[S, Z], *sigor.Response[Z]] {
	type (
		XX = sigor.Statement[X]
		WW = sigor.Witness[W]
		AA = sigor.Commitment[A]
		SS = *sigor.State[S, Z]
		ZZ = *sigor.Response[Z]
	)
	sideName := []string{"orL", "orR"}[side]
	out := &sigCase[XX, WW, AA, SS, ZZ]{name: c.name + "/" + sideName, heavy: c.heavy, unitMS: c.unitMS * 2}
	out.mk = func(rng io.Reader) sigma.Protocol[XX, WW, AA, SS, ZZ] {
		return must(sigor.Compose(c.mk(rng), 2, rng))
	}
	out.inst = func(i int) (XX, WW) {
		x0, w0 := c.inst(2 * i)
		x1, w1 := c.inst(2*i + 1)
		w := w0
		if side == 1 {
			w = w1
		}
		return must(sigor.ComposeStatements(x0, x1)), sigor.NewWitness(w)
	}
	out.alts = func() []altStmt[XX] {
		base, _ := out.inst(0)
		var alts []altStmt[XX]
		for k := range 2 {
			xs := append(XX{}, base...)
			xs[k], _ = c.inst(100 + k)
			alts = append(alts, altStmt[XX]{fmt.Sprintf("branch%d:=other-instance", k), xs})
		}
		for _, a := range c.alts() {
			xs := append(XX{}, base...)
			xs[0] = a.x
			alts = append(alts, altStmt[XX]{"branch0." + a.name, xs})
		}
		xs := append(XX{}, base...)
		xs[0], xs[1] = xs[1], xs[0]
		alts = append(alts, altStmt[XX]{"branches-swapped", xs})
		return alts
	}
	if c.extract != nil {
		out.extract = func(_ sigma.Protocol[XX, WW, AA, SS, ZZ], x XX, a AA, _ []sigma.ChallengeBytes, zs []ZZ) (WW, error) {
			bp := c.mk(stream(out.name + "/extract"))
			// the real branch is the one whose branch challenges differ between the two transcripts
			for k := range 2 {
				if bytes.Equal(zs[0].E[k], zs[1].E[k]) {
					continue
				}
				w, err := c.extract(bp, x[k], a[k], []sigma.ChallengeBytes{zs[0].E[k], zs[1].E[k]}, []Z{zs[0].Z[k], zs[1].Z[k]})
				if err != nil {
					return WW{}, err
				}
				return sigor.NewWitness(w), nil
			}
			return WW{}, fmt.Errorf("no branch with distinct challenges")
		}
	}
	return out
}
