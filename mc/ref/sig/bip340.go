package sig

import (
	"crypto/sha256"
	"math/big"

	"verifmc/ref/curve"
)

// TaggedHash is hash_tag(x) of BIP-340: SHA256(SHA256(tag) || SHA256(tag) || x).
func TaggedHash(tag string, parts ...[]byte) [32]byte {
	t := sha256.Sum256([]byte(tag))
	h := sha256.New()
	h.Write(t[:])
	h.Write(t[:])
	for _, p := range parts {
		h.Write(p)
	}
	var out [32]byte
	copy(out[:], h.Sum(nil))
	return out
}

func be32(x *big.Int) []byte { return x.FillBytes(make([]byte, 32)) }

// BIP340LiftX is lift_x: the point with abscissa x and even y; fails if x >= p or x is not an abscissa. The square root
// is computed as c^((p+1)/4) and squared back, as in the BIP text.
func BIP340LiftX(x *big.Int) (curve.FpPoint, bool) {
	c := curve.K256()
	p := c.F.Char()
	if x.Sign() < 0 || x.Cmp(p) >= 0 {
		return c.Identity(), false
	}
	cc := new(big.Int).Exp(x, big.NewInt(3), p)
	cc.Add(cc, big.NewInt(7)).Mod(cc, p)
	exp := new(big.Int).Add(p, big.NewInt(1))
	exp.Rsh(exp, 2)
	y := new(big.Int).Exp(cc, exp, p)
	if new(big.Int).Exp(y, big.NewInt(2), p).Cmp(cc) != 0 {
		return c.Identity(), false
	}
	if y.Bit(0) == 1 {
		y.Sub(p, y)
	}
	return curve.FpPoint{X: new(big.Int).Set(x), Y: y}, true
}

// BIP340Challenge is int(hash_BIP0340/challenge(bytes(r) || bytes(P) || m)) mod n.
func BIP340Challenge(rx, px *big.Int, msg []byte) *big.Int {
	h := TaggedHash("BIP0340/challenge", be32(rx), be32(px), msg)
	e := new(big.Int).SetBytes(h[:])
	return e.Mod(e, curve.K256().Q)
}

// BIP340Verify is the BIP-340 "Verification" algorithm on byte strings: pk is 32 bytes (x-only), sig 64 bytes, msg
// arbitrary length.
func BIP340Verify(pk, msg, sig []byte) bool {
	c := curve.K256()
	if len(pk) != 32 || len(sig) != 64 {
		return false
	}
	P, ok := BIP340LiftX(new(big.Int).SetBytes(pk))
	if !ok {
		return false
	}
	r := new(big.Int).SetBytes(sig[:32])
	if r.Cmp(c.F.Char()) >= 0 {
		return false
	}
	s := new(big.Int).SetBytes(sig[32:])
	if s.Cmp(c.Q) >= 0 {
		return false
	}
	e := BIP340Challenge(r, P.X, msg)
	R := c.Sub(c.ScalarBaseMul(s), c.ScalarMul(e, P))
	if R.Inf {
		return false
	}
	if R.Y.Bit(0) == 1 {
		return false
	}
	return R.X.Cmp(r) == 0
}

// BIP340PubKey is PubKey(sk) = bytes(d'G); fails for d' = 0 or d' >= n.
func BIP340PubKey(sk []byte) ([]byte, bool) {
	c := curve.K256()
	d := new(big.Int).SetBytes(sk)
	if len(sk) != 32 || d.Sign() == 0 || d.Cmp(c.Q) >= 0 {
		return nil, false
	}
	return be32(c.ScalarBaseMul(d).X), true
}

// BIP340Sign is the BIP-340 "Default Signing" algorithm with auxiliary randomness aux (32 bytes).
func BIP340Sign(sk, msg, aux []byte) ([]byte, bool) {
	c := curve.K256()
	n := c.Q
	dp := new(big.Int).SetBytes(sk)
	if len(sk) != 32 || len(aux) != 32 || dp.Sign() == 0 || dp.Cmp(n) >= 0 {
		return nil, false
	}
	P := c.ScalarBaseMul(dp)
	d := dp
	if P.Y.Bit(0) == 1 {
		d = new(big.Int).Sub(n, dp)
	}
	ha := TaggedHash("BIP0340/aux", aux)
	t := be32(d)
	for i := range t {
		t[i] ^= ha[i]
	}
	rnd := TaggedHash("BIP0340/nonce", t, be32(P.X), msg)
	kp := new(big.Int).SetBytes(rnd[:])
	kp.Mod(kp, n)
	if kp.Sign() == 0 {
		return nil, false
	}
	R := c.ScalarBaseMul(kp)
	k := kp
	if R.Y.Bit(0) == 1 {
		k = new(big.Int).Sub(n, kp)
	}
	e := BIP340Challenge(R.X, P.X, msg)
	s := new(big.Int).Mul(e, d)
	s.Add(s, k).Mod(s, n)
	out := append(be32(R.X), be32(s)...)
	if !BIP340Verify(be32(P.X), msg, out) {
		return nil, false
	}
	return out, true
}
