package c04

import (
	"fmt"
	"testing"

	"verifmc/engine"
	"verifmc/proto"
	"verifmc/ref/cbor"
	"verifmc/schednet"
)

func TestMain(m *testing.M) { engine.Main(m, "C04", "fault_enumeration") }

func TestCheck(t *testing.T) {
	ids := []proto.ID{1, 2, 3}
	ac := proto.Threshold(2, ids...)
	cases := []*proto.Case{proto.SessionCase(ids), proto.AorCase(ids), proto.GennaroCase("T23", ac, ids), proto.CanettiCase("T23", ac, ids),
		proto.RedistributeCase("refresh-T23", ac, ids, ac, 0), proto.Lindell22Case("T23-q12", ac, []proto.ID{1, 2}, []byte("m"))}
	engine.Explore(func(x *engine.X) {
		c := cases[x.Choose("case", len(cases))]
		net := schednet.New(c.IDs...)
		e := c.Run(x, net, 1)
		fmt.Printf("== %s: info=%+v agg ok=%v err=%v bad=%q\n", c.Name, *e.Info, e.AggOK, e.AggErr, e.AggBad)
		for id, p := range e.Parties {
			fmt.Printf("   party %d: ok=%v err=%v starved=%v bad=%q digest=%.40s\n", id, p.OK, p.Err, p.Starved, p.Bad, p.Digest)
		}
		leaves := 0
		for _, m := range net.Trace {
			tr, err := cbor.Parse(m.Payload)
			if err != nil {
				fmt.Println("   unparsable payload", m.Key(), err)
				continue
			}
			if string(cbor.Encode(tr)) != string(m.Payload) {
				fmt.Println("   NOT canonical round trip:", m.Key())
			}
			leaves += len(cbor.Leaves(tr))
		}
		fmt.Printf("   messages=%d leaves=%d\n", len(net.Trace), leaves)
		if c.Name == "gennaro/T23" {
			for _, m := range net.Trace[:3] {
				tr, _ := cbor.Parse(m.Payload)
				fmt.Println("   ", m.Key(), tr.String())
			}
		}
	}, engine.Opts{Name: "probe", Serial: true})
}
