package c18

import (
	"math/big"
)

// Reference short-Weierstrass arithmetic y² = x³ + b over F_p (a = 0), affine, math/big, explicit case analysis.
// Constants are typed in from SEC 2 (secp256k1) and the BLS12-381 specification, not read from the library.

type refCurve struct {
	name   string
	p, b   *big.Int
	n      *big.Int // prime group order
	gx, gy *big.Int
}

type refPoint struct {
	x, y *big.Int
	inf  bool
}

var refK256 = &refCurve{
	name: "k256",
	p:    hexBig("fffffffffffffffffffffffffffffffffffffffffffffffffffffffefffffc2f"),
	b:    bi(7),
	n:    hexBig("fffffffffffffffffffffffffffffffebaaedce6af48a03bbfd25e8cd0364141"),
	gx:   hexBig("79be667ef9dcbbac55a06295ce870b07029bfcdb2dce28d959f2815b16f81798"),
	gy:   hexBig("483ada7726a3c4655da4fbfc0e1108a8fd17b448a68554199c47d08ffb10d4b8"),
}

var refBLSG1 = &refCurve{
	name: "bls12381g1",
	p:    hexBig("1a0111ea397fe69a4b1ba7b6434bacd764774b84f38512bf6730d2a0f6b0f6241eabfffeb153ffffb9feffffffffaaab"),
	b:    bi(4),
	n:    hexBig("73eda753299d7d483339d80809a1d80553bda402fffe5bfeffffffff00000001"),
	gx:   hexBig("17f1d3a73197d7942695638c4fa9ac0fc3688c4f9774b905a14e3a3f171bac586c55e83ff97a1aeffb3af00adb22c6bb"),
	gy:   hexBig("08b3f481e3aaa0f1a09e30ed741d8ae4fcf5e095d5d00af600db18cb2c04b3edd03cc744a2888ae40caa232946c5e7e1"),
}

func (c *refCurve) gen() refPoint { return refPoint{x: c.gx, y: c.gy} }

func (c *refCurve) onCurve(P refPoint) bool {
	if P.inf {
		return true
	}
	l := new(big.Int).Mul(P.y, P.y)
	r := new(big.Int).Mul(P.x, P.x)
	r.Mul(r, P.x).Add(r, c.b)
	return mod(l, c.p).Cmp(mod(r, c.p)) == 0
}

func (c *refCurve) eq(P, Q refPoint) bool {
	if P.inf || Q.inf {
		return P.inf == Q.inf
	}
	return P.x.Cmp(Q.x) == 0 && P.y.Cmp(Q.y) == 0
}

func (c *refCurve) neg(P refPoint) refPoint {
	if P.inf {
		return P
	}
	return refPoint{x: P.x, y: mod(new(big.Int).Neg(P.y), c.p)}
}

func (c *refCurve) add(P, Q refPoint) refPoint {
	switch {
	case P.inf:
		return Q
	case Q.inf:
		return P
	}
	var lam *big.Int
	if P.x.Cmp(Q.x) == 0 {
		if P.y.Cmp(Q.y) != 0 || P.y.Sign() == 0 {
			return refPoint{inf: true} // opposite points (or a 2-torsion point doubled)
		}
		// doubling: λ = 3x² / 2y
		num := new(big.Int).Mul(P.x, P.x)
		num.Mul(num, bi(3))
		den := new(big.Int).Lsh(P.y, 1)
		lam = num.Mul(num, new(big.Int).ModInverse(mod(den, c.p), c.p))
	} else {
		num := new(big.Int).Sub(Q.y, P.y)
		den := new(big.Int).Sub(Q.x, P.x)
		lam = num.Mul(num, new(big.Int).ModInverse(mod(den, c.p), c.p))
	}
	lam.Mod(lam, c.p)
	x3 := new(big.Int).Mul(lam, lam)
	x3.Sub(x3, P.x).Sub(x3, Q.x).Mod(x3, c.p)
	y3 := new(big.Int).Sub(P.x, x3)
	y3.Mul(y3, lam).Sub(y3, P.y).Mod(y3, c.p)
	return refPoint{x: x3, y: y3}
}

// mul computes k·P for any integer k >= 0 (double-and-add, most significant bit first).
func (c *refCurve) mul(k *big.Int, P refPoint) refPoint {
	if k.Sign() < 0 {
		panic("refCurve.mul: negative scalar")
	}
	R := refPoint{inf: true}
	for i := k.BitLen() - 1; i >= 0; i-- {
		R = c.add(R, R)
		if k.Bit(i) == 1 {
			R = c.add(R, P)
		}
	}
	return R
}

// selfCheck validates the typed-in constants: generator on curve, n·G = O, (n-1)·G = -G.
func (c *refCurve) selfCheck() bool {
	G := c.gen()
	if !c.onCurve(G) || !c.p.ProbablyPrime(20) || !c.n.ProbablyPrime(20) {
		return false
	}
	if !c.mul(c.n, G).inf {
		return false
	}
	return c.eq(c.mul(new(big.Int).Sub(c.n, bi(1)), G), c.neg(G))
}

func (P refPoint) String() string {
	if P.inf {
		return "O"
	}
	return "(" + short(P.x) + "," + short(P.y) + ")"
}

// key is the exact canonical form (String is abbreviated for messages).
func (P refPoint) key() string {
	if P.inf {
		return "O"
	}
	return "(" + P.x.Text(16) + "," + P.y.Text(16) + ")"
}
