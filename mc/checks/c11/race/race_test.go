// Free-running race pass for C11 (DESIGN §2.5): the same kinds of harness bodies as the scheduled scenarios, but on
// the UNINSTRUMENTED pkg/network with real goroutines, built with -race. A cooperative scheduler's hand-offs are
// happens-before edges, so the race detector sees nothing under SCHED; this separate pass is the detector for
// unsynchronised accesses the scheduler does not model. It is not the deciding step of C11.
package race

import (
	"context"
	"fmt"
	"sync"
	"testing"

	"github.com/bronlabs/bron-crypto/pkg/base/datastructures/hashset"
	"github.com/bronlabs/bron-crypto/pkg/mpc/session"
	"github.com/bronlabs/bron-crypto/pkg/mpc/sharing"
	"github.com/bronlabs/bron-crypto/pkg/network"
	ntu "github.com/bronlabs/bron-crypto/pkg/network/testutils"

	"verifmc/det"
)

func TestRaceRouterDemux(t *testing.T) {
	for it := 0; it < 200; it++ {
		ids := []sharing.ID{1, 2, 3}
		co := ntu.NewMockCoordinator(ids...)
		rts := map[sharing.ID]*network.Router{}
		for _, id := range ids {
			rts[id] = network.NewRouter(co.DeliveryFor(id))
		}
		var wg sync.WaitGroup
		for _, id := range ids {
			wg.Add(1)
			go func() {
				defer wg.Done()
				out := map[sharing.ID][]byte{}
				for _, o := range ids {
					if o != id {
						out[o] = []byte(fmt.Sprintf("%d->%d", id, o))
					}
				}
				for _, cid := range []string{"a", "b"} {
					if err := rts[id].SendTo(context.Background(), cid, out); err != nil {
						t.Errorf("send: %v", err)
					}
				}
			}()
			for _, cid := range []string{"a", "b"} {
				wg.Add(1)
				go func() {
					defer wg.Done()
					var froms []sharing.ID
					for _, o := range ids {
						if o != id {
							froms = append(froms, o)
						}
					}
					view := rts[id]
					got, err := view.ReceiveFrom(context.Background(), cid, froms...)
					if err != nil {
						t.Errorf("receive: %v", err)
						return
					}
					for _, o := range froms {
						if string(got[o]) != fmt.Sprintf("%d->%d", o, id) {
							t.Errorf("wrong payload %q", got[o])
						}
					}
				}()
			}
		}
		wg.Wait()
		for _, rt := range rts {
			rt.Close()
		}
	}
}

func TestRaceCancelAndClose(t *testing.T) {
	for it := 0; it < 200; it++ {
		ids := []sharing.ID{1, 2}
		co := ntu.NewMockCoordinator(ids...)
		rt := network.NewRouter(co.DeliveryFor(1))
		ctx, cancel := context.WithCancel(context.Background())
		var wg sync.WaitGroup
		wg.Add(3)
		go func() { defer wg.Done(); _, _ = rt.ReceiveFrom(ctx, "a", 2) }()
		go func() { defer wg.Done(); cancel() }()
		go func() {
			defer wg.Done()
			_ = network.NewRouter(co.DeliveryFor(2)).SendTo(context.Background(), "a", map[sharing.ID][]byte{1: []byte("x")})
		}()
		wg.Wait()
		rt.Close()
		rt.Close()
	}
}

func TestRaceSessionRunners(t *testing.T) {
	for it := 0; it < 30; it++ {
		ids := []sharing.ID{7, 3, 64}
		quorum := hashset.NewComparable(ids...).Freeze()
		co := ntu.NewMockCoordinator(ids...)
		var wg sync.WaitGroup
		sids := make([]network.SID, len(ids))
		for i, id := range ids {
			wg.Add(1)
			go func() {
				defer wg.Done()
				rt := network.NewRouter(co.DeliveryFor(id))
				defer rt.Close()
				r, err := session.NewSessionRunner(id, quorum, det.New(int64(it), fmt.Sprint(id)))
				if err != nil {
					t.Errorf("runner: %v", err)
					return
				}
				c, err := r.Run(context.Background(), rt, nil)
				if err != nil {
					t.Errorf("run: %v", err)
					return
				}
				sids[i] = c.SessionID()
			}()
		}
		wg.Wait()
		if sids[0] != sids[1] || sids[1] != sids[2] {
			t.Errorf("session ids differ")
		}
	}
}
