// Package mcrt is the cooperative scheduler runtime of the SCHED engine.
//
// It is mounted by a build overlay INSIDE the repository module (as github.com/bronlabs/bron-crypto/pkg/mcrt)
// so that the automatically instrumented copy of pkg/network and the check harness share one instance.
// Exactly one thread (goroutine started through Go) holds the baton at any time; every synchronisation
// operation of the instrumented code is a scheduling point whose enabledness is computed from shadow state
// (mutex owner, channel length/capacity/closed), never polled. "No enabled thread while some thread is
// unfinished" is a deadlock.
package mcrt

import (
	"context"
	"fmt"
	"reflect"
	"runtime/debug"
	"strings"
	"time"
)

// Chooser is satisfied by *engine.X: the explorer owns every choice.
type Chooser interface {
	Choose(label string, n int) int
	ChooseDev(label string, n int) int
}

type thread struct {
	id    int
	name  string
	wake  chan struct{}
	done  bool
	ready func() bool
	desc  string
	steps int
}

// Sched is the scheduler of one execution.
type Sched struct {
	ch         Chooser
	threads    []*thread
	cur        *thread
	doneCh     chan struct{}
	chans      map[uintptr]*chanState
	chanSeq    int
	Deadlock   string   // non-empty: blocked threads at the deadlock
	Panics     []string // panics that escaped a scheduled thread
	HarnessErr string   // the runtime's own model was violated (never a property violation)
	Switches   int
	Points     int
	Trace      []string
	KeepTrace  bool
	// AllDev: every scheduling/select choice (not only preemptions) costs one deviation from the default schedule
	// (lowest runnable thread id first). Used for long protocol runs where free context switches alone blow up.
	AllDev bool
	onPoint    func()
	// OnStuck, if set, is called when no thread is enabled while some are unfinished. It may change state that
	// enables threads (typically: cancel the contexts of parties starved by a peer's abort) and return true to
	// continue; returning false reports the deadlock.
	OnStuck func() bool
}

type chanState struct {
	id     int
	n, cap int
	closed bool
}

// S is the scheduler of the execution in progress (one execution at a time per process).
var S *Sched

// New installs a fresh scheduler driven by the given chooser.
func New(ch Chooser) *Sched {
	S = &Sched{ch: ch, doneCh: make(chan struct{}, 1), chans: map[uintptr]*chanState{}}
	return S
}

// OnPoint registers a callback run at every scheduling point (invariant checks on private state).
func (s *Sched) OnPoint(f func()) { s.onPoint = f }

func (s *Sched) harness(format string, a ...any) {
	msg := fmt.Sprintf(format, a...)
	if s.HarnessErr == "" {
		s.HarnessErr = msg
	}
	panic("mcrt harness error: " + msg)
}

// Run executes body as thread 0 ("main") and returns when every thread has finished or the system deadlocked.
func (s *Sched) Run(body func()) {
	t := &thread{id: 0, name: "main", wake: make(chan struct{}, 1)}
	s.threads = append(s.threads, t)
	s.cur = t
	go s.threadMain(t, body)
	t.wake <- struct{}{}
	<-s.doneCh
}

func (s *Sched) threadMain(t *thread, f func()) {
	<-t.wake
	defer func() {
		if r := recover(); r != nil {
			msg := fmt.Sprint(r)
			if strings.HasPrefix(msg, "harness error:") || strings.HasPrefix(msg, "mcrt harness error:") {
				if s.HarnessErr == "" {
					s.HarnessErr = msg // the explorer's own replay divergence etc.: never a property violation
				}
			} else {
				s.Panics = append(s.Panics, fmt.Sprintf("thread %s: %v\n%s", t.name, r, trim(string(debug.Stack()))))
			}
		}
		s.exit(t)
	}()
	f()
}

func trim(st string) string {
	var out []string
	for _, l := range strings.Split(st, "\n") {
		if strings.Contains(l, ".go:") && !strings.Contains(l, "/runtime/") {
			out = append(out, strings.TrimSpace(l))
		}
		if len(out) > 10 {
			break
		}
	}
	return strings.Join(out, " | ")
}

func (s *Sched) enabled() []*thread {
	var out []*thread
	cur := s.cur
	if !cur.done && (cur.ready == nil || cur.ready()) {
		out = append(out, cur)
	}
	for _, t := range s.threads {
		if t == cur || t.done {
			continue
		}
		if t.ready == nil || t.ready() {
			out = append(out, t)
		}
	}
	return out
}

// dispatch picks the next thread. Canonical order: the running thread first if still enabled, then ascending ids.
func (s *Sched) dispatch() *thread {
	if s.onPoint != nil {
		s.onPoint()
	}
	s.Points++
	en := s.enabled()
	if len(en) == 0 && s.OnStuck != nil {
		unfinished := false
		for _, t := range s.threads {
			if !t.done {
				unfinished = true
			}
		}
		if unfinished && s.OnStuck() {
			en = s.enabled()
		}
	}
	if len(en) == 0 {
		for _, t := range s.threads {
			if !t.done {
				s.Deadlock += fmt.Sprintf(" %s[%s]", t.name, t.desc)
			}
		}
		s.doneCh <- struct{}{}
		return nil
	}
	c := 0
	if len(en) > 1 {
		if en[0] == s.cur || s.AllDev {
			c = s.ch.ChooseDev("sched", len(en)) // switching away from a runnable thread is a preemption
		} else {
			c = s.ch.Choose("sched", len(en))
		}
	}
	return en[c]
}

func (s *Sched) yield(desc string, ready func() bool) {
	t := s.cur
	t.ready = ready
	t.desc = desc
	t.steps++
	next := s.dispatch()
	if next == nil {
		select {} // deadlock reported; this goroutine is abandoned (only happens on a failing execution)
	}
	if next != t {
		s.Switches++
		s.cur = next
		next.wake <- struct{}{}
		<-t.wake
	}
	if s.KeepTrace {
		s.Trace = append(s.Trace, t.name+":"+desc)
	}
	t.ready = nil
}

func (s *Sched) exit(t *thread) {
	t.done = true
	t.desc = "done"
	if s.cur != t {
		s.HarnessErr = "thread exited without holding the baton"
	}
	next := s.dispatch()
	if next == nil {
		return
	}
	s.cur = next
	next.wake <- struct{}{}
}

// Go starts f as a new scheduled thread; spawning is a scheduling point (the parent continues by default).
func Go(f func()) { GoNamed("", f) }

// GoNamed is Go with a thread name for traces.
func GoNamed(name string, f func()) {
	s := S
	t := &thread{id: len(s.threads), name: name, wake: make(chan struct{}, 1)}
	if name == "" {
		t.name = fmt.Sprintf("T%d", t.id)
	}
	s.threads = append(s.threads, t)
	go s.threadMain(t, f)
	s.yield("spawn", nil)
}

// Yield is a scheduling point of the calling thread; ready==nil means always enabled.
func Yield(desc string, ready func() bool) { S.yield(desc, ready) }

// Choose is a structural data choice made by the running thread (all alternatives explored).
func Choose(label string, n int) int {
	if n <= 1 {
		return 0
	}
	return S.ch.Choose(label, n)
}

// ChooseDev is an environment choice: 0 is the default answer, others cost one deviation.
func ChooseDev(label string, n int) int {
	if n <= 1 {
		return 0
	}
	return S.ch.ChooseDev(label, n)
}

// ---------------------------------------------------------------------------- sync.Mutex shim

// Mutex replaces sync.Mutex in the instrumented code (same method set).
type Mutex struct {
	held  bool
	owner *thread
}

func (m *Mutex) Lock() {
	S.yield("lock", func() bool { return !m.held })
	if m.held {
		S.harness("Lock granted while held")
	}
	m.held = true
	m.owner = S.cur
}

func (m *Mutex) Unlock() {
	if !m.held {
		panic("sync: unlock of unlocked mutex")
	}
	m.held = false
	m.owner = nil
}

func (m *Mutex) TryLock() bool {
	S.yield("trylock", nil)
	if m.held {
		return false
	}
	m.held = true
	m.owner = S.cur
	return true
}

// Held reports the shadow state (for state keys).
func (m *Mutex) Held() bool { return m.held }

// ---------------------------------------------------------------------------- channels

func key(ch any) uintptr {
	v := reflect.ValueOf(ch)
	if !v.IsValid() || v.IsNil() {
		return 0
	}
	return v.Pointer()
}

// Chan registers a channel created by the instrumented code and returns it unchanged.
func Chan[T any](ch chan T) chan T {
	s := S
	s.chanSeq++
	s.chans[key(ch)] = &chanState{id: s.chanSeq, cap: cap(ch)}
	return ch
}

func (s *Sched) st(ch any) *chanState {
	k := key(ch)
	if k == 0 {
		return nil // nil channel: never ready
	}
	c, ok := s.chans[k]
	if !ok {
		s.harness("operation on a channel that was not created through mcrt (unmodelled channel)")
	}
	return c
}

// Close is close(ch): a scheduling point, then the real close.
func Close[T any](ch chan T) {
	s := S
	s.yield("close", nil)
	c := s.st(ch)
	if c == nil {
		panic("close of nil channel")
	}
	if c.closed {
		panic("close of closed channel")
	}
	c.closed = true
	close(ch)
}

// Case is one communication clause of a select.
type Case struct {
	st   *chanState
	send bool
}

// Recv describes `case <-ch`.
func Recv[T any](ch <-chan T) Case { return Case{st: S.st(ch)} }

// RecvB describes `case <-ch` for a bidirectional channel value.
func RecvB[T any](ch chan T) Case { return Case{st: S.st(ch)} }

// Send describes `case ch <- v`.
func Send[T any](ch chan<- T) Case { return Case{st: S.st(ch), send: true} }

// SendB describes `case ch <- v` for a bidirectional channel value.
func SendB[T any](ch chan T) Case { return Case{st: S.st(ch), send: true} }

func (c Case) ready() bool {
	if c.st == nil {
		return false
	}
	if c.send {
		// unbuffered rendezvous is not modelled (cap 0 send never ready); closed send panics in Go: treat as ready so the panic happens
		return c.st.closed || c.st.n < c.st.cap
	}
	return c.st.n > 0 || c.st.closed
}

// Select models a select statement: it is a scheduling point, enabled iff some case is ready or there is a
// default clause. It returns the index of the chosen case (-1 = default) and updates the shadow state; the
// instrumented code then performs the real, now non-blocking, communication. Among several ready cases the
// choice is explored exhaustively (Go picks pseudo-randomly).
func Select(hasDefault bool, cases ...Case) int {
	s := S
	desc := fmt.Sprintf("select%d", len(cases))
	if hasDefault {
		s.yield(desc+"+default", nil)
	} else {
		s.yield(desc, func() bool {
			for _, c := range cases {
				if c.ready() {
					return true
				}
			}
			return false
		})
	}
	var rdy []int
	for i, c := range cases {
		if c.ready() {
			rdy = append(rdy, i)
		}
	}
	if len(rdy) == 0 {
		if !hasDefault {
			s.harness("select resumed with no ready case")
		}
		return -1
	}
	var i int
	if s.AllDev {
		i = rdy[ChooseDev("select", len(rdy))]
	} else {
		i = rdy[Choose("select", len(rdy))]
	}
	c := cases[i]
	if c.send {
		if !c.st.closed {
			c.st.n++
		}
	} else if c.st.n > 0 {
		c.st.n--
	}
	return i
}

// ChanState returns a printable shadow state of a registered channel (for state dumps).
func ChanState(ch any) string {
	c := S.st(ch)
	if c == nil {
		return "nil"
	}
	return fmt.Sprintf("%d/%d/%v", c.n, c.cap, c.closed)
}

// ---------------------------------------------------------------------------- context

type mctx struct {
	parent context.Context
	done   chan struct{}
	err    error
}

func (c *mctx) Deadline() (time.Time, bool) { return time.Time{}, false }
func (c *mctx) Done() <-chan struct{}       { return c.done }
func (c *mctx) Err() error                  { return c.err }
func (c *mctx) Value(k any) any             { return c.parent.Value(k) }

// CancelNow cancels an mcrt context without a scheduling point (for use inside OnStuck, outside any thread).
func CancelNow(ctx context.Context) {
	c, ok := ctx.(*mctx)
	if !ok || c.err != nil {
		return
	}
	c.err = context.Canceled
	S.st(c.done).closed = true
	close(c.done)
}

// Blocked lists the unfinished threads and what they wait for.
func (s *Sched) Blocked() string {
	out := ""
	for _, t := range s.threads {
		if !t.done {
			out += fmt.Sprintf(" %s[%s]", t.name, t.desc)
		}
	}
	return out
}

// WithCancel replaces context.WithCancel in the instrumented code and in harnesses. Only parents that can never
// be cancelled (context.Background/TODO) or other mcrt contexts that are not yet cancelled are supported;
// propagation from a parent is not modelled (the instrumented code does not use it).
func WithCancel(parent context.Context) (context.Context, context.CancelFunc) {
	if parent.Done() != nil {
		if _, ok := parent.(*mctx); !ok {
			S.harness("WithCancel: unmodelled cancellable parent context")
		}
	}
	c := &mctx{parent: parent, done: Chan(make(chan struct{}))}
	return c, func() {
		if c.err != nil {
			return
		}
		S.yield("cancel", nil)
		if c.err != nil {
			return
		}
		c.err = context.Canceled
		S.st(c.done).closed = true
		close(c.done)
	}
}
