package c11

import (
	"fmt"
	"sort"
	"sync"

	"verifmc/engine"
	"verifmc/proto"
	"verifmc/schednet"
)

// P1 (generic): every protocol case of verifmc/proto is executed through its real runners over real routers while
// the network may, within the deviation bound, deliver any message out of FIFO order, deliver any one message twice
// (identical retransmission) and the scheduler may deviate from the default schedule. The outputs must be exactly
// those of the undisturbed run with the same seeds ("as consistent and valid as when driven round by round": the
// undisturbed run is itself compared with the round-by-round API by C03/C01, and P1-session above does it directly).

type zeroChooser struct{}

func (zeroChooser) Choose(string, int) int    { return 0 }
func (zeroChooser) ChooseDev(string, int) int { return 0 }

var (
	refMu   sync.Mutex
	refRuns = map[string]map[proto.ID]string{}
	refPub  = map[string]string{}
)

func digestOf(e *proto.Exec, ids []proto.ID) (map[proto.ID]string, string) {
	out := map[proto.ID]string{}
	for _, id := range ids {
		p := e.Parties[id]
		switch {
		case p == nil:
			out[id] = "missing"
		case p.Panic != "":
			out[id] = "panic: " + p.Panic
		case p.Starved:
			out[id] = "starved"
		case p.Err != nil:
			out[id] = "error: " + firstLine(p.Err.Error())
		case p.Bad != "":
			out[id] = "BAD: " + p.Bad
		default:
			out[id] = "ok " + p.Digest
		}
	}
	pub := e.Pub
	if e.HasAgg {
		pub = fmt.Sprintf("agg ok=%v bad=%q %s", e.AggOK, e.AggBad, e.Pub)
	}
	return out, pub
}

func reference(c *proto.Case, seed int64) (map[proto.ID]string, string) {
	refMu.Lock()
	defer refMu.Unlock()
	k := fmt.Sprintf("%s/%d", c.Name, seed)
	if r, ok := refRuns[k]; ok {
		return r, refPub[k]
	}
	e := c.Run(zeroChooser{}, schednet.New(c.IDs...), seed)
	r, pub := digestOf(e, c.IDs)
	for _, id := range c.IDs {
		if len(r[id]) < 2 || r[id][:2] != "ok" {
			panic(engine.HarnessError{Msg: fmt.Sprintf("reference run of %s failed at party %d: %s", c.Name, id, r[id])})
		}
	}
	refRuns[k], refPub[k] = r, pub
	return r, pub
}

func p1Case(c *proto.Case) func(*engine.X) {
	return func(x *engine.X) {
		seed := engine.Seed()
		want, wantPub := reference(c, seed)
		net := schednet.New(c.IDs...)
		net.FIFO = true
		net.DupDev = true
		e := c.Run(x, net, seed)
		if e.Info.HarnessErr != "" {
			panic(engine.HarnessError{Msg: e.Info.HarnessErr})
		}
		if e.Info.Deadlock != "" {
			x.Failf("runner/deadlock/"+c.Name, "%s: DEADLOCK under a benign delivery order / identical retransmission: %s", c.Name, e.Info.Deadlock)
			return
		}
		got, gotPub := digestOf(e, c.IDs)
		ids := append([]proto.ID{}, c.IDs...)
		sort.Slice(ids, func(i, j int) bool { return ids[i] < ids[j] })
		for _, id := range ids {
			if got[id] != want[id] {
				x.Failf("runner/outcome-differs/"+c.Name, "%s: party %d ended with [%s]; the undisturbed run with the same seeds ends with [%s]", c.Name, id, got[id], want[id])
			}
		}
		if gotPub != wantPub {
			x.Failf("runner/result-differs/"+c.Name, "%s: joint result [%s] differs from the undisturbed run [%s]", c.Name, gotPub, wantPub)
		}
		x.Observe(e.Info.Switches)
	}
}
