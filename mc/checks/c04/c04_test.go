// C04 — a deviating party is detected, blamed correctly, and cannot cause a bad output.
//
// Space (single-fault sequences): protocol case x address (correlation id, sender, recipient-or-uniform-broadcast,
// CBOR leaf/container path) x mutation operator. The honest execution is run once to harvest the addresses; every
// fault is one fresh execution of all parties through their REAL runners over real routers on the adversarial
// network, under the cooperative scheduler (default schedule), so "stuck" is decided precisely.
package c04

import (
	"encoding/json"
	"fmt"
	"os"
	"sort"
	"strings"
	"sync"
	"testing"
	"time"

	"github.com/bronlabs/bron-crypto/pkg/mpc/sharing/accessstructures"
	"github.com/bronlabs/bron-crypto/pkg/mpc/sharing/accessstructures/cnf"

	"verifmc/engine"
	"verifmc/memedit"
	"verifmc/proto"
	"verifmc/schednet"
)

func TestMain(m *testing.M) { engine.Main(m, "C04", "fault_enumeration") }

type freeLeaf struct {
	Protocol string   `json:"protocol"`
	Cid      string   `json:"cid"`
	Path     string   `json:"path"`
	Ops      []string `json:"ops"`
	Why      string   `json:"why"`
}

var (
	freeOnce   sync.Once
	freeLeaves []freeLeaf
)

func loadFree() {
	freeOnce.Do(func() {
		dir := os.Getenv("VERIF_DIR")
		if dir == "" {
			dir = "/verif"
		}
		b, err := os.ReadFile(dir + "/free_leaves.json")
		if err != nil {
			return
		}
		var f struct {
			Leaves []freeLeaf `json:"leaves"`
		}
		if err := json.Unmarshal(b, &f); err != nil {
			engine.HarnessFail("free_leaves.json unreadable: %v", err)
			return
		}
		freeLeaves = f.Leaves
	})
}

func baseCid(cid string) string {
	cid = strings.TrimSuffix(cid, ":EchoRound1P2P")
	return cid
}

func isFree(caseName string, f fault) bool {
	loadFree()
	protocol := strings.SplitN(caseName, "/", 2)[0]
	for _, l := range freeLeaves {
		if l.Protocol != protocol || l.Cid != baseCid(f.Cid) || l.Path != normPath(f.Path) {
			continue
		}
		for _, o := range l.Ops {
			if o == "*" || o == f.Op {
				return true
			}
		}
	}
	return false
}

var (
	undetMu sync.Mutex
	undet   = map[string]int{}
)

func faultBody(c *proto.Case, deviators []proto.ID) func(*engine.X) {
	return func(x *engine.X) {
		seed := engine.Seed()
		h := getHarvest(c, seed, deviators)
		h2 := getHarvest(c, seed+1000, deviators)
		f := h.faults[x.Choose("fault", len(h.faults))]
		net := schednet.New(c.IDs...)
		applied := 0
		note := ""
		var believed *memedit.Result
		otherSender := func(m *schednet.Msg) []byte {
			var best *schednet.Msg
			for _, t := range h.trace {
				if t.Cid == m.Cid && t.From != m.From && t.Occ == 0 && (t.To == m.To || best == nil) {
					if best == nil || (t.To == m.To && best.To != m.To) {
						best = t
					}
				}
			}
			if best == nil {
				return nil
			}
			return best.Payload
		}
		session := func(m *schednet.Msg) []byte {
			if t := h2.byKey[m.Key()]; t != nil {
				return t.Payload
			}
			return nil
		}
		var alt map[string]*schednet.Msg
		if f.Op == "splice" {
			alt = getSplice(c, seed, h, f.From, f.K)
			// the splice is a deviation only if the differently made draw already shows in a message sent BEFORE the
			// splice round (the party has committed to something) and also changes a message from that round on
			before, after := false, false
			for _, t := range h.trace {
				if t.From != f.From {
					continue
				}
				a := alt[t.Key()]
				differs := a == nil || string(a.Payload) != string(t.Payload)
				if r := h.roundOf(t.From, t.Cid); r < f.R {
					before = before || differs
				} else {
					after = after || differs
				}
			}
			if !before || !after {
				x.Trivial()
				x.Observe("inapplicable splice: before/after differ =", before, after)
				return
			}
		}
		net.OnSend = func(m *schednet.Msg) [][]byte {
			if f.Op == "splice" {
				if m.From != f.From || h.roundOf(m.From, m.Cid) < f.R {
					return nil
				}
				a := alt[m.Key()]
				if a == nil {
					applied++
					return [][]byte{} // the alternative run sent nothing in this slot
				}
				if string(a.Payload) != string(m.Payload) {
					applied++
				}
				return [][]byte{a.Payload}
			}
			if m.Cid != f.Cid || m.From != f.From || m.Occ != 0 || (f.To != 0 && m.To != f.To) {
				return nil
			}
			switch f.Op {
			case "drop":
				applied++
				return [][]byte{}
			case "replay-other-sender":
				if p := otherSender(m); p != nil && string(p) != string(m.Payload) {
					applied++
					return [][]byte{p}
				}
				note = "no other sender's message to replay"
				return nil
			case "replay-other-session":
				if p := session(m); p != nil && string(p) != string(m.Payload) {
					applied++
					return [][]byte{p}
				}
				note = "no differing parallel-session message"
				return nil
			case "swap-recipient":
				var others []proto.ID
				for _, t := range h.trace {
					if t.Cid == m.Cid && t.From == m.From && t.To != m.To && t.Occ == 0 {
						others = append(others, t.To)
					}
				}
				if len(others) == 0 {
					note = "no other recipient"
					return nil
				}
				sort.Slice(others, func(i, j int) bool { return others[i] < others[j] })
				p := h.byKey[fmt.Sprintf("%s|%d>%d#0", m.Cid, m.From, others[0])].Payload
				if string(p) == string(m.Payload) {
					note = "identical payloads"
					return nil
				}
				applied++
				return [][]byte{p}
			}
			out, ok, why := applyOp(f, m.Payload, otherSender(m), session(m))
			if !ok {
				note = why
				return nil
			}
			if f.Op == "believe" {
				// OnSend runs on the sender's own thread (Send is not a scheduling point): its memory is quiescent
				if believed == nil {
					old, nw := leafData(m.Payload, f.Path), leafData(out, f.Path)
					r := memedit.Replace(net.Roots[f.From], old, nw)
					believed = &r
					if dbg := os.Getenv("C04_DEBUG"); dbg != "" {
						if fh, err := os.OpenFile(dbg, os.O_APPEND|os.O_CREATE|os.O_WRONLY, 0o644); err == nil {
							fmt.Fprintf(fh, "%s | %s | replaced=%d readonly=%d visited=%d\n", c.Name, f, r.Replaced, r.Unpatchable, r.Visited)
							fh.Close()
						}
					}
				}
				if believed.Replaced == 0 {
					note = fmt.Sprintf("the value does not occur as bytes in the sender's memory (visited %d objects, %d read-only occurrences)", believed.Visited, believed.Unpatchable)
					return nil // the plain alteration is the flip-mid fault
				}
			}
			applied++
			return [][]byte{out}
		}
		e := c.Run(x, net, seed)
		if e.Info.HarnessErr != "" {
			panic(engine.HarnessError{Msg: e.Info.HarnessErr})
		}
		if applied == 0 {
			x.Trivial()
			x.Observe("inapplicable:", note)
			return
		}
		key := fmt.Sprintf("%s|%s|%s|%s", strings.SplitN(c.Name, "/", 2)[0], baseCid(f.Cid), normPath(f.Path), f.Op)
		if f.Op == "splice" {
			key = fmt.Sprintf("%s|splice|draw%d|round%d", strings.SplitN(c.Name, "/", 2)[0], f.K, f.R)
		}
		// S1: no crash, no hang
		if e.Info.Deadlock != "" {
			x.Failf("hang/"+key, "%s, fault [%s]: threads stayed blocked although every starved party was cancelled: %s", c.Name, f, e.Info.Deadlock)
		}
		detected := false
		recipientRejected := false
		for _, id := range c.IDs {
			p := e.Parties[id]
			if id == f.From {
				continue // the deviator's own outcome is irrelevant
			}
			if p.Panic != "" {
				x.Failf("panic/"+key, "%s, fault [%s]: honest party %d panicked: %s", c.Name, f, id, p.Panic)
			}
			// S2: every output an honest party returns is good
			if p.OK && p.Bad != "" {
				x.Failf("bad-output/"+key, "%s, fault [%s]: honest party %d returned a bad output: %s", c.Name, f, id, p.Bad)
			}
			// S3: blame soundness
			for _, b := range p.Blamed {
				if b != f.From {
					x.Failf("wrong-blame/"+key, "%s, fault [%s]: honest party %d blames %d, the deviating party is %d (err: %v)", c.Name, f, id, b, f.From, firstLine(p.Err))
				}
			}
			if p.Err != nil && !p.Starved {
				detected = true
				if f.To == id {
					recipientRejected = true
				}
			}
			if f.Op == "drop" && !p.OK && (f.To == 0 || f.To == id) {
				detected = true // nothing was accepted by the party that depended on the withheld message
				recipientRejected = true
			}
		}
		if e.HasAgg {
			if e.AggBad != "" {
				x.Failf("bad-signature/"+key, "%s, fault [%s]: %s", c.Name, f, e.AggBad)
			}
			for _, b := range e.AggBlamed {
				if b != f.From {
					x.Failf("wrong-blame/"+key, "%s, fault [%s]: aggregator blames %d, the deviating party is %d", c.Name, f, b, f.From)
				}
			}
			if e.AggErr != nil {
				detected = true
				recipientRejected = true
			}
		}
		// D: detection, unless the leaf is a documented free (unbound) contribution.
		// Structural rule: in an echo round-2 message the digest filed under the RECIPIENT's own id is never read
		// (a party does not need an echo of its own broadcast), so altering it is not a deviation anyone can see.
		if strings.HasSuffix(f.Cid, ":EchoRound2P2P") && f.Path == fmt.Sprintf("$>echoHashes>%d", f.To) {
			x.Observe("free: echo digest about the recipient itself")
			return
		}
		needRecipient := f.To != 0
		ok := detected && (!needRecipient || recipientRejected)
		if !ok && !isFree(c.Name, f) {
			undetMu.Lock()
			undet[key]++
			undetMu.Unlock()
			who := "no honest party nor the aggregator rejected"
			if detected {
				who = fmt.Sprintf("the addressed recipient %d did not reject (someone else did)", f.To)
			}
			x.Failf("undetected/"+key, "%s, fault [%s]: %s; outcomes: %s", c.Name, f, who, outcomes(e, c.IDs))
		}
		x.Observe(detected, outcomes(e, c.IDs))
	}
}

// nonIdealCNF: maximal unqualified sets {1,2},{3,4},{5} on {1..5}: several holders own more than one MSP row.
func nonIdealCNF() accessstructures.Monotone {
	ac, err := cnf.NewCNFAccessStructure(proto.Set(1, 2), proto.Set(3, 4), proto.Set(5))
	if err != nil {
		panic(err)
	}
	return ac
}

func firstLine(err error) string {
	if err == nil {
		return ""
	}
	s := err.Error()
	if i := strings.IndexByte(s, '\n'); i >= 0 {
		return s[:i]
	}
	return s
}

func outcomes(e *proto.Exec, ids []proto.ID) string {
	var sb strings.Builder
	for _, id := range ids {
		p := e.Parties[id]
		switch {
		case p.Panic != "":
			fmt.Fprintf(&sb, "%d:panic ", id)
		case p.Starved:
			fmt.Fprintf(&sb, "%d:starved ", id)
		case p.Err != nil:
			fmt.Fprintf(&sb, "%d:err(%.60s) ", id, firstLine(p.Err))
		case p.Bad != "":
			fmt.Fprintf(&sb, "%d:BAD ", id)
		default:
			fmt.Fprintf(&sb, "%d:ok ", id)
		}
	}
	if e.HasAgg {
		fmt.Fprintf(&sb, "agg:ok=%v err=%.60s", e.AggOK, firstLine(e.AggErr))
	}
	return sb.String()
}

func TestCheck(t *testing.T) {
	engine.Rule("per protocol case the honest run is harvested once; the fault list = every message slot of every permitted deviator x every node of its CBOR tree x every applicable operator (bit flips, zero, donor value from another sender / a parallel session, int edits, array drop/dup/swap, map field drop) + whole-message drop / replay of another sender's or another session's message / swap between recipients; each fault is one complete execution; inapplicable faults (no differing donor etc.) are counted as trivial. Byte-string leaves of >= 16 bytes additionally get the BELIEVING deviator (the value is altered in the message and wherever the sender's own memory holds it, so all it computes later is consistent with the altered value). Splice faults: from its round R on the deviator sends the messages of its own run in which its random draw K was made differently. Coordinated deviator: a previous holder redistributes a shard of another key. The last hop of every signing protocol (partial signature -> aggregator: Boldyreva in its three modes, Lindell22, DKLs23 with both multipliers, CGGMP21 with the stateless and the cosigner's aggregator) gets the same node x operator enumeration on the deviator's encoded partial signature (section notes).")
	engine.Assume("single deviation per execution", "default schedule and FIFO arrival (schedules are C11's business)", "allow-list /verif/free_leaves.json names the message parts the protocols do not bind (reviewed by reading the code)", "purego build")
	thoroughAll = engine.Thorough()
	ids := []proto.ID{1, 2, 3}
	ac := proto.Threshold(2, ids...)
	type cs struct {
		c    *proto.Case
		devs []proto.ID
	}
	cases := []cs{
		{proto.SessionCase(ids), ids},
		{proto.AorCase(ids), ids},
		{proto.GennaroCase("T23", ac, ids), ids},
		{proto.CanettiCase("T23", ac, ids), ids},
		{proto.RedistributeCase("refresh-T23", ac, ids, ac, 0), ids},
		{proto.RedistributeCase("refresh-T23-anchor1", ac, ids, ac, 1), []proto.ID{2, 3}},
		{proto.RedistributeCase("T23-to-nonideal-cnf-anchor1", ac, ids, nonIdealCNF(), 1), []proto.ID{2, 3}},
		{proto.Lindell22Case("T23-q12", ac, []proto.ID{1, 2}, []byte("m")), []proto.ID{1, 2}},
		{proto.Lindell22Case("T23-q123", ac, ids, []byte("m")), ids},
	}
	only := os.Getenv("C04_ONLY")
	for _, c := range cases {
		if only != "" && !strings.Contains(c.c.Name, only) {
			continue
		}
		engine.Explore(faultBody(c.c, c.devs), engine.Opts{Name: c.c.Name, Serial: true, Procs: 16, CrashTrace: true, Engine: "SCHED", MaxFails: 100000, Budget: engine.Budget(3*time.Minute, 30*time.Minute)})
	}
	// coordinated deviation: one previous holder redistributes a shard of ANOTHER key (all its messages consistent)
	if only == "" || strings.Contains("foreign-shard", only) {
		type fc struct {
			name   string
			next   accessstructures.Monotone
			anchor proto.ID
		}
		targets := []fc{
			{"to-disjoint-T23{4,5,6}-no-anchor", proto.Threshold(2, 4, 5, 6), 0},
			{"to-T34{1,2,3,4}-no-anchor", proto.Threshold(3, 1, 2, 3, 4), 0},
			{"to-disjoint-T23{4,5,6}-anchor1", proto.Threshold(2, 4, 5, 6), 1},
			{"refresh-T23-no-anchor", ac, 0},
		}
		engine.Explore(func(x *engine.X) {
			tg := targets[x.Choose("target", len(targets))]
			devs := ids
			if tg.anchor != 0 {
				devs = []proto.ID{2, 3}
			}
			d := devs[x.Choose("deviator", len(devs))]
			c := proto.RedistributeForeignShardCase(tg.name, ac, ids, tg.next, tg.anchor, d)
			e := c.Run(x, schednet.New(c.IDs...), engine.Seed())
			if e.Info.HarnessErr != "" {
				panic(engine.HarnessError{Msg: e.Info.HarnessErr})
			}
			what := fmt.Sprintf("redistribute %s: previous holder %d takes part with a shard of another key", tg.name, d)
			if e.Info.Deadlock != "" {
				x.Failf("hang/redistribute|foreign-shard", "%s: threads stayed blocked: %s", what, e.Info.Deadlock)
			}
			detected := false
			for _, id := range c.IDs {
				if id == d {
					continue
				}
				p := e.Parties[id]
				if p.Panic != "" {
					x.Failf("panic/redistribute|foreign-shard", "%s: honest party %d panicked: %s", what, id, p.Panic)
				}
				if p.OK && p.Bad != "" {
					x.Failf("bad-output/redistribute|foreign-shard", "%s: honest party %d returned a bad output: %s", what, id, p.Bad)
				}
				for _, b := range p.Blamed {
					if b != d {
						x.Failf("wrong-blame/redistribute|foreign-shard", "%s: honest party %d blames %d", what, id, b)
					}
				}
				if p.Err != nil && !p.Starved {
					detected = true
				}
			}
			if !detected {
				x.Failf("undetected/redistribute|foreign-shard", "%s: nobody rejected; outcomes: %s", what, outcomes(e, c.IDs))
			}
			x.Observe(tg.name, d, outcomes(e, c.IDs))
		}, engine.Opts{Name: "redistribute/foreign-shard", Serial: true, Procs: 12, CrashTrace: true, Engine: "SCHED", Budget: engine.Budget(2*time.Minute, 10*time.Minute)})
	}
	// non-interactive protocol: Boldyreva threshold BLS (one partial signature per cosigner, then an aggregator)
	if only == "" || strings.Contains("boldyreva", only) {
		boldyrevaSections()
	}
	if only == "" || strings.Contains(only, "partial-signature") {
		l22PsigSections()
	}
	if len(undet) > 0 {
		keys := make([]string, 0, len(undet))
		for k := range undet {
			keys = append(keys, k)
		}
		sort.Strings(keys)
		fmt.Println("undetected fault classes:")
		for _, k := range keys {
			fmt.Printf("  %4d  %s\n", undet[k], k)
		}
	}
}
