#!/bin/bash
# Generates the SCHED build overlay from the current /repo tree: instrumented pkg/network + mcrt + state dump, and the
# sequential errgroup shim in the fork-join files that share the caller's io.Reader (deterministic executions).
set -eu
out=$1
rm -rf "$out"; mkdir -p "$out"
V=${VERIF:-/verif}
cd "$V/mc"
go run ./instrument -repo /repo -verif "$V" -out "$out" -seq-errgroup pkg/proofs/sigma/compose/sigand/and.go,pkg/proofs/sigma/compose/sigor/or.go,pkg/encryption/utils.go,pkg/encryption/paillier/secret.go,pkg/signatures/bls/core.go,pkg/mpc/signatures/ecdsa/cggmp21/keygen/dkg/rounds.go,pkg/mpc/signatures/ecdsa/cggmp21/keygen/trusteddealer/dealer.go
