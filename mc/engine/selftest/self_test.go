// Self-test of the engine's worker-crash handling: one execution out of 40 kills its process from a foreign
// goroutine; the explorer must report exactly that prefix as process-crash and still explore everything else.
//   cd /verif/mc && VERIF_OUT_DIR=/root/scratch/selftest go test -tags purego,verif ./engine/selftest/   (expects exit 1)
package selftest

import (
	"testing"
	"time"

	"verifmc/engine"
)

func TestMain(m *testing.M) { engine.Main(m, "SELFTEST", "exploration") }

func TestCheck(t *testing.T) {
	engine.Rule("self-test")
	engine.Explore(func(x *engine.X) {
		a := x.Choose("a", 8)
		b := x.Choose("b", 5)
		if a == 5 && b == 3 {
			go func() { panic("boom from a foreign goroutine") }()
			time.Sleep(time.Second)
		}
		x.Observe(a, b)
	}, engine.Opts{Name: "crash", Serial: true, Procs: 4, CrashTrace: true})
}
