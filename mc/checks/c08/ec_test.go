package c08

import (
	"fmt"
	"io"

	"github.com/bronlabs/bron-crypto/pkg/base/algebra"
	"github.com/bronlabs/bron-crypto/pkg/base/curves"
	"github.com/bronlabs/bron-crypto/pkg/commitments/indcpacom"
	"github.com/bronlabs/bron-crypto/pkg/encryption/elgamal"
	"github.com/bronlabs/bron-crypto/pkg/proofs/dlog/batch_schnorr"
	"github.com/bronlabs/bron-crypto/pkg/proofs/dlog/schnorr"
	"github.com/bronlabs/bron-crypto/pkg/proofs/elgamal/elcomop"
	"github.com/bronlabs/bron-crypto/pkg/proofs/elgamal/elog"
	"github.com/bronlabs/bron-crypto/pkg/proofs/okamoto"
	"github.com/bronlabs/bron-crypto/pkg/proofs/sigma"
)

// ecCtx bundles a curve with deterministic scalars/points derived from the seed.
type ecCtx[P curves.Point[P, F, S], F algebra.FieldElement[F], S algebra.PrimeFieldElement[S]] struct {
	name   string
	curve  curves.Curve[P, F, S]
	field  algebra.PrimeField[S]
	scalar memo[S]
}

func newEC[P curves.Point[P, F, S], F algebra.FieldElement[F], S algebra.PrimeFieldElement[S]](name string, curve curves.Curve[P, F, S]) *ecCtx[P, F, S] {
	return &ecCtx[P, F, S]{name: name, curve: curve, field: algebra.StructureMustBeAs[algebra.PrimeField[S]](curve.ScalarStructure())}
}

// sc returns the fixed non-zero scalar named label.
func (e *ecCtx[P, F, S]) sc(label string) S {
	return e.scalar.get(label, func() S {
		rng := stream("scalar/" + e.name + "/" + label)
		for {
			s := must(e.field.Random(rng))
			if !s.IsZero() {
				return s
			}
		}
	})
}

func (e *ecCtx[P, F, S]) pt(label string) P {
	return e.curve.Generator().ScalarMul(e.sc("pt/" + label))
}

// ---- Schnorr
func schnorrCase[P curves.Point[P, F, S], F algebra.FieldElement[F], S algebra.PrimeFieldElement[S]](e *ecCtx[P, F, S]) *sigCase[*schnorr.Statement[P, S], *schnorr.Witness[S], *schnorr.Commitment[P, S], *schnorr.State[S], *schnorr.Response[S]] {
	type (
		X  = *schnorr.Statement[P, S]
		W  = *schnorr.Witness[S]
		A  = *schnorr.Commitment[P, S]
		St = *schnorr.State[S]
		Z  = *schnorr.Response[S]
	)
	g := e.curve.Generator()
	c := &sigCase[X, W, A, St, Z]{name: "schnorr/" + e.name}
	c.mk = func(rng io.Reader) sigma.Protocol[X, W, A, St, Z] { return must(schnorr.NewProtocol(g, rng)) }
	c.inst = func(i int) (X, W) {
		w := e.sc(fmt.Sprintf("schnorr/w%d", i))
		return schnorr.NewStatement(g.ScalarMul(w)), schnorr.NewWitness(w)
	}
	c.alts = func() []altStmt[X] {
		return []altStmt[X]{{"X:=other-point", schnorr.NewStatement(e.pt("schnorr/altX"))}}
	}
	c.extract = func(p sigma.Protocol[X, W, A, St, Z], x X, a A, es []sigma.ChallengeBytes, zs []Z) (W, error) {
		return p.(*schnorr.Protocol[P, S]).Extract(x, a, es, zs)
	}
	return c
}

// ---- batch Schnorr (k >= 2; k = 1 is refused by the constructor)
func batchSchnorrCase[P curves.Point[P, F, S], F algebra.FieldElement[F], S algebra.PrimeFieldElement[S]](e *ecCtx[P, F, S], k int) *sigCase[*batch_schnorr.Statement[P, S], *batch_schnorr.Witness[S], *batch_schnorr.Commitment[P, S], *batch_schnorr.State[S], *batch_schnorr.Response[S]] {
	type (
		X  = *batch_schnorr.Statement[P, S]
		W  = *batch_schnorr.Witness[S]
		A  = *batch_schnorr.Commitment[P, S]
		St = *batch_schnorr.State[S]
		Z  = *batch_schnorr.Response[S]
	)
	g := e.curve.Generator()
	c := &sigCase[X, W, A, St, Z]{name: fmt.Sprintf("batchschnorr%d/%s", k, e.name)}
	c.mk = func(rng io.Reader) sigma.Protocol[X, W, A, St, Z] {
		return must(batch_schnorr.NewProtocol(k, algebra.PrimeGroup[P, S](e.curve), rng))
	}
	c.inst = func(i int) (X, W) {
		ws := make([]S, k)
		xs := make([]P, k)
		for j := range k {
			ws[j] = e.sc(fmt.Sprintf("batch%d/w%d.%d", k, i, j))
			xs[j] = g.ScalarMul(ws[j])
		}
		return batch_schnorr.NewStatement(g, xs...), batch_schnorr.NewWitness(ws...)
	}
	c.alts = func() []altStmt[X] {
		base, _ := c.inst(0)
		alts := []altStmt[X]{{"Gen:=other-generator", batch_schnorr.NewStatement(e.pt("batch/altGen"), base.Xs...)}}
		for j := range k {
			xs := append([]P{}, base.Xs...)
			xs[j] = e.pt(fmt.Sprintf("batch/altX%d", j))
			alts = append(alts, altStmt[X]{fmt.Sprintf("Xs[%d]:=other-point", j), batch_schnorr.NewStatement(g, xs...)})
		}
		xs := append([]P{}, base.Xs...)
		xs[0], xs[1] = xs[1], xs[0]
		alts = append(alts, altStmt[X]{"Xs[0]<->Xs[1]", batch_schnorr.NewStatement(g, xs...)})
		return alts
	}
	return c
}

// ---- Okamoto (representation w.r.t. two generators)
func okamotoCase[P curves.Point[P, F, S], F algebra.FieldElement[F], S algebra.PrimeFieldElement[S]](e *ecCtx[P, F, S]) *sigCase[*okamoto.Statement[P, S], *okamoto.Witness[S], *okamoto.Commitment[P, S], *okamoto.State[S], *okamoto.Response[S]] {
	type (
		X  = *okamoto.Statement[P, S]
		W  = *okamoto.Witness[S]
		A  = *okamoto.Commitment[P, S]
		St = *okamoto.State[S]
		Z  = *okamoto.Response[S]
	)
	g := e.curve.Generator()
	h := e.pt("okamoto/h")
	c := &sigCase[X, W, A, St, Z]{name: "okamoto/" + e.name}
	c.mk = func(rng io.Reader) sigma.Protocol[X, W, A, St, Z] {
		return must(okamoto.NewProtocol([]P{g, h}, rng))
	}
	c.inst = func(i int) (X, W) {
		w1, w2 := e.sc(fmt.Sprintf("okamoto/w%d.1", i)), e.sc(fmt.Sprintf("okamoto/w%d.2", i))
		return must(okamoto.NewStatement[P, S](g.ScalarMul(w1).Op(h.ScalarMul(w2)))), must(okamoto.NewWitness(w1, w2))
	}
	c.alts = func() []altStmt[X] {
		return []altStmt[X]{{"z:=other-point", must(okamoto.NewStatement[P, S](e.pt("okamoto/altZ")))}}
	}
	c.extract = func(p sigma.Protocol[X, W, A, St, Z], x X, a A, es []sigma.ChallengeBytes, zs []Z) (W, error) {
		return p.(*okamoto.Protocol[P, S]).Extract(x, a, es, zs)
	}
	return c
}

// ---- ElGamal commitment opening (elcomop) and dlog of an ElGamal commitment (elog)
type egKey[P curves.Point[P, F, S], F algebra.FieldElement[F], S algebra.PrimeFieldElement[S]] struct {
	sk  *elgamal.SecretKey[P, S]
	key *indcpacom.CommitmentKey[*elgamal.PublicKey[P, S], *elgamal.Plaintext[P, S], *elgamal.Nonce[S], *elgamal.Ciphertext[P, S]]
}

func newEGKey[P curves.Point[P, F, S], F algebra.FieldElement[F], S algebra.PrimeFieldElement[S]](e *ecCtx[P, F, S]) *egKey[P, F, S] {
	sk := must(elgamal.NewSecretKey(e.curve.Generator(), e.sc("elgamal/sk")))
	return &egKey[P, F, S]{sk: sk, key: must(indcpacom.NewCommitmentKey(sk.Public()))}
}

// commit returns the elcomop witness and the ElGamal commitment (L, M) = (g^lambda, g^y X^lambda).
func (k *egKey[P, F, S]) commit(g P, y, lambda S) (*elcomop.Witness[P, S], *elgamal.Ciphertext[P, S]) {
	w := must(indcpacom.NewWitness(must(elgamal.NewNonce(lambda))))
	m := must(indcpacom.NewMessage(must(elgamal.NewPlaintext(g.ScalarMul(y)))))
	com := must(k.key.CommitWithWitness(m, w))
	return must(elcomop.NewWitness(m, w)), com.Value()
}

func elcomopStmt[P curves.Point[P, F, S], F algebra.FieldElement[F], S algebra.PrimeFieldElement[S]](l, m P) *elcomop.Statement[P, S] {
	ct := must(elgamal.NewCiphertext(l, m))
	return &elcomop.Statement[P, S]{X: ct.Value()}
}

func elcomopCase[P curves.Point[P, F, S], F algebra.FieldElement[F], S algebra.PrimeFieldElement[S]](e *ecCtx[P, F, S]) *sigCase[*elcomop.Statement[P, S], *elcomop.Witness[P, S], *elcomop.Commitment[P, S], *elcomop.State[P, S], *elcomop.Response[P, S]] {
	type (
		X  = *elcomop.Statement[P, S]
		W  = *elcomop.Witness[P, S]
		A  = *elcomop.Commitment[P, S]
		St = *elcomop.State[P, S]
		Z  = *elcomop.Response[P, S]
	)
	g := e.curve.Generator()
	k := newEGKey(e)
	c := &sigCase[X, W, A, St, Z]{name: "elcomop/" + e.name}
	c.mk = func(rng io.Reader) sigma.Protocol[X, W, A, St, Z] {
		return must(elcomop.NewProtocol(algebra.PrimeGroup[P, S](e.curve), k.key, rng))
	}
	c.inst = func(i int) (X, W) {
		w, ct := k.commit(g, e.sc(fmt.Sprintf("elcomop/y%d", i)), e.sc(fmt.Sprintf("elcomop/l%d", i)))
		return &elcomop.Statement[P, S]{X: ct.Value()}, w
	}
	c.alts = func() []altStmt[X] {
		base, _ := c.inst(0)
		lm := base.X.Components()
		return []altStmt[X]{
			{"L:=other-point", elcomopStmt[P, F, S](e.pt("elcomop/altL"), lm[1])},
			{"M:=other-point", elcomopStmt[P, F, S](lm[0], e.pt("elcomop/altM"))},
			{"L<->M", elcomopStmt[P, F, S](lm[1], lm[0])},
		}
	}
	c.extract = func(p sigma.Protocol[X, W, A, St, Z], x X, a A, es []sigma.ChallengeBytes, zs []Z) (W, error) {
		return p.(*elcomop.Protocol[P, S]).Extract(x, a, es, zs)
	}
	return c
}

func elogCase[P curves.Point[P, F, S], F algebra.FieldElement[F], S algebra.PrimeFieldElement[S]](e *ecCtx[P, F, S]) *sigCase[*elog.Statement[P, S], *elog.Witness[P, S], *elog.Commitment[P, S], *elog.State[P, S], *elog.Response[P, S]] {
	type (
		X  = *elog.Statement[P, S]
		W  = *elog.Witness[P, S]
		A  = *elog.Commitment[P, S]
		St = *elog.State[P, S]
		Z  = *elog.Response[P, S]
	)
	g := e.curve.Generator()
	h := e.pt("elog/h")
	k := newEGKey(e)
	c := &sigCase[X, W, A, St, Z]{name: "elog/" + e.name}
	c.mk = func(rng io.Reader) sigma.Protocol[X, W, A, St, Z] {
		return must(elog.NewProtocol(algebra.PrimeGroup[P, S](e.curve), k.key, h, rng))
	}
	c.inst = func(i int) (X, W) {
		y := e.sc(fmt.Sprintf("elog/y%d", i))
		w1, ct := k.commit(g, y, e.sc(fmt.Sprintf("elog/l%d", i)))
		x := must(elog.NewStatement(&elcomop.Statement[P, S]{X: ct.Value()}, schnorr.NewStatement(h.ScalarMul(y))))
		return x, must(elog.NewWitness(w1, schnorr.NewWitness(y)))
	}
	c.alts = func() []altStmt[X] {
		base, _ := c.inst(0)
		lm := base.X0.X.Components()
		return []altStmt[X]{
			{"L:=other-point", must(elog.NewStatement(elcomopStmt[P, F, S](e.pt("elog/altL"), lm[1]), base.X1))},
			{"M:=other-point", must(elog.NewStatement(elcomopStmt[P, F, S](lm[0], e.pt("elog/altM")), base.X1))},
			{"Y:=other-point", must(elog.NewStatement(base.X0, schnorr.NewStatement(e.pt("elog/altY"))))},
		}
	}
	return c
}
