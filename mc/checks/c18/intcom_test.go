package c18

import (
	"fmt"
	"math/big"

	"github.com/bronlabs/bron-crypto/pkg/base/nt/num"
	"github.com/bronlabs/bron-crypto/pkg/base/nt/znstar"
	"github.com/bronlabs/bron-crypto/pkg/base/serde"
	"github.com/bronlabs/bron-crypto/pkg/commitments"
	"github.com/bronlabs/bron-crypto/pkg/commitments/intcom"
	"github.com/bronlabs/bron-crypto/pkg/transcripts/hagrid"

	"verifmc/engine"
)

// genPrime searches the fixed stream for a prime of exactly `bits` bits with the two top bits set (so a product of
// two of them has exactly 2·bits bits); safe=true additionally demands (p-1)/2 prime.
func genPrime(st *stream, bits int, safe bool) *big.Int {
	for {
		c := new(big.Int).SetBytes(st.bytes((bits + 7) / 8))
		c.And(c, new(big.Int).Sub(new(big.Int).Lsh(bi(1), uint(bits)), bi(1)))
		c.SetBit(c, bits-1, 1).SetBit(c, bits-2, 1).SetBit(c, 0, 1)
		if safe {
			c.SetBit(c, 1, 1)
		}
		if c.BitLen() != bits || !c.ProbablyPrime(32) {
			continue
		}
		if safe && !new(big.Int).Rsh(c, 1).ProbablyPrime(32) {
			continue
		}
		return c
	}
}

func natPlus(v *big.Int) *num.NatPlus { return must(num.NPlus().FromBig(v)) }
func zInt(v *big.Int) *num.Int        { return must(num.Z().FromBig(v)) }

type intcomKey struct {
	name string
	pub  *intcom.CommitmentKey
	trap *intcom.TrapdoorKey // nil for the extracted key
	n    *big.Int
	pq   *big.Int // p'·q' = order of QR(N); nil when unknown to the harness
}

var intcomKeyCache memo[[]*intcomKey]

func intcomKeyBits() []int {
	if engine.Thorough() {
		return []int{128, 256, 512}
	}
	return []int{128, 256}
}

// intcomKeys: for each modulus size a trapdoor key built from harness primes through znstar.NewRSAGroup +
// intcom.NewTrapdoorKey (its Export is the public key), plus a key extracted from a transcript over the first modulus.
func intcomKeys() []*intcomKey {
	return intcomKeyCache.get(engine.Tier(), func() []*intcomKey {
		var out []*intcomKey
		for _, bits := range intcomKeyBits() {
			st := newStream(fmt.Sprintf("intcom/key/%d", bits))
			p, q := genPrime(st, bits/2, true), genPrime(st, bits/2, true)
			for p.Cmp(q) == 0 {
				q = genPrime(st, bits/2, true)
			}
			group := must(znstar.NewRSAGroup(natPlus(p), natPlus(q)))
			pq := new(big.Int).Mul(new(big.Int).Rsh(p, 1), new(big.Int).Rsh(q, 1))
			zmod := must(num.NewZMod(natPlus(pq)))
			var tk *intcom.TrapdoorKey
			for {
				t := must(group.RandomQuadraticResidue(st))
				lambda := must(zmod.FromBig(st.bigBelow(pq)))
				var err error
				if tk, err = intcom.NewTrapdoorKey(t, lambda); err == nil {
					break
				}
			}
			n := new(big.Int).Mul(p, q)
			out = append(out, &intcomKey{name: fmt.Sprintf("trapdoor%d", bits), pub: tk.Export(), trap: tk, n: n, pq: pq})
			if len(out) == 1 {
				tr := hagrid.NewTranscript("verif-c18")
				tr.AppendBytes("context", []byte("intcom"))
				ek := must(intcom.ExtractCommitmentKey(tr, "intcom-key", group.ForgetOrder()))
				out = append(out, &intcomKey{name: fmt.Sprintf("extracted%d", bits), pub: ek, n: n, pq: pq})
			}
		}
		return out
	})
}

// refIntcom is the definition s^m · t^r mod N for signed integer exponents.
func refIntcom(n, s, t, m, r *big.Int) *big.Int {
	return mod(new(big.Int).Mul(expSigned(s, m, n), expSigned(t, r, n)), n)
}

func expSigned(b, e, n *big.Int) *big.Int {
	if e.Sign() >= 0 {
		return new(big.Int).Exp(b, e, n)
	}
	inv := new(big.Int).ModInverse(b, n)
	if inv == nil {
		panic("expSigned: base not invertible")
	}
	return new(big.Int).Exp(inv, new(big.Int).Neg(e), n)
}

func intcomMessages(k *intcomKey) []*big.Int {
	b256 := new(big.Int).Sub(new(big.Int).Lsh(bi(1), 256), bi(1)) // 2^256-1: larger than the group order for the small moduli
	// N and 1-2N: distinct integers that are congruent to 0 / 1 modulo the commitment modulus (boundary of the message space:
	// integer commitments commit to INTEGERS, not residues)
	return []*big.Int{bi(0), bi(1), bi(-1), b256, new(big.Int).Neg(b256), newStream("intcom/msg").bigBelow(new(big.Int).Lsh(bi(1), 64)),
		new(big.Int).Set(k.n), new(big.Int).Sub(bi(1), new(big.Int).Lsh(k.n, 1))}
}

// intcomWitnesses: 0, ±1, both ends of the sampling range [-N·2^80, N·2^80), and one value from SampleWitness.
func intcomWitnesses(k *intcomKey) []*big.Int {
	up := new(big.Int).Lsh(k.n, 80)
	w := must(k.pub.SampleWitness(newStream("intcom/wit/" + k.name)))
	return []*big.Int{bi(0), bi(1), bi(-1), new(big.Int).Sub(up, bi(1)), new(big.Int).Neg(up), w.Value().Big()}
}

type intChange struct {
	what string
	v    *big.Int
}

// intChanges: every other alphabet value, v±1, -v, 2v and every single-bit change of the magnitude (one bit above
// the top bit included).
func intChanges(v *big.Int, alphabet []*big.Int) []intChange {
	var out []intChange
	for i, a := range alphabet {
		out = append(out, intChange{fmt.Sprintf("alphabet%d", i), a})
	}
	out = append(out,
		intChange{"plus1", new(big.Int).Add(v, bi(1))},
		intChange{"minus1", new(big.Int).Sub(v, bi(1))},
		intChange{"neg", new(big.Int).Neg(v)},
		intChange{"double", new(big.Int).Lsh(v, 1)},
	)
	abs := new(big.Int).Abs(v)
	top := abs.BitLen() + 1
	if top < 9 {
		top = 9
	}
	for b := 0; b <= top; b++ {
		a := new(big.Int).Set(abs)
		a.SetBit(a, b, a.Bit(b)^1)
		if v.Sign() < 0 {
			a.Neg(a)
		}
		out = append(out, intChange{fmt.Sprintf("bit%d", b), a})
	}
	return out
}

type unitChange struct {
	what string
	v    *big.Int
}

// unitChanges: single-component changes of a residue u mod n: u², u·w, u⁻¹, -u, 1, w, and every single-bit change
// of the value below the modulus (validity as a group element / key component is decided by the library constructors).
func unitChanges(u, w, n *big.Int) []unitChange {
	out := []unitChange{
		{"square", mod(new(big.Int).Mul(u, u), n)},
		{"timesother", mod(new(big.Int).Mul(u, w), n)},
		{"inverse", new(big.Int).ModInverse(u, n)},
		{"neg", mod(new(big.Int).Neg(u), n)},
		{"one", bi(1)},
		{"other", w},
	}
	for b := 0; b < n.BitLen(); b++ {
		a := new(big.Int).Set(u)
		a.SetBit(a, b, a.Bit(b)^1)
		if a.Cmp(n) < 0 {
			out = append(out, unitChange{fmt.Sprintf("bit%d", b), a})
		}
	}
	return out
}

// rsaUnit hands the residue v to the library's element constructor (0 is not representable at all).
func rsaUnit(group *znstar.RSAGroupUnknownOrder, v *big.Int) (*znstar.RSAGroupElementUnknownOrder, error) {
	if v.Sign() <= 0 {
		return nil, fmt.Errorf("not a positive residue")
	}
	return group.FromNatPlus(natPlus(v))
}

type intcomKeyDTO struct {
	S *znstar.RSAGroupElementUnknownOrder `cbor:"s"`
	T *znstar.RSAGroupElementUnknownOrder `cbor:"t"`
}

// intcomKeyFrom builds a public key with the given generators through the only public path: the CBOR decoder
// (which revalidates through the package's private constructor).
func intcomKeyFrom(group *znstar.RSAGroupUnknownOrder, s, t *big.Int) (*intcom.CommitmentKey, error) {
	se, err := rsaUnit(group, s)
	if err != nil {
		return nil, err
	}
	te, err := rsaUnit(group, t)
	if err != nil {
		return nil, err
	}
	b, err := serde.MarshalCBOR(&intcomKeyDTO{S: se, T: te})
	if err != nil {
		panic(engine.HarnessError{Msg: "cannot encode intcom key DTO: " + err.Error()})
	}
	k := new(intcom.CommitmentKey)
	if err := k.UnmarshalCBOR(b); err != nil {
		return nil, err
	}
	return k, nil
}

var intcomTally, intcomEquivTally tally

// intcomFaultBody: one execution = one (key, message, witness) tuple; inner cases = every single-component change,
// each decided by full recomputation of s^m·t^r mod N in math/big.
func intcomFaultBody(x *engine.X) {
	keys := intcomKeys()
	ki := x.Choose("key", len(keys))
	k := keys[ki]
	msgs, wits := intcomMessages(k), intcomWitnesses(k)
	mi := x.Choose("msg", len(msgs))
	wi := x.Choose("wit", len(wits))
	m, r := msgs[mi], wits[wi]
	id := fmt.Sprintf("intcom/%s/m%d/w%d", k.name, mi, wi)
	lt := localTally{}
	defer lt.flush(&intcomTally)

	key := k.pub
	group := key.Group()
	n := k.n
	s, t := key.S().Value().Big(), key.T().Value().Big()
	M := must(intcom.NewMessage(zInt(m)))
	W := must(intcom.NewWitness(zInt(r)))
	C, err := key.CommitWithWitness(M, W)
	if err != nil {
		x.Failf("intcom/commit/err", "%s: CommitWithWitness failed: %v", id, err)
		return
	}
	cv := C.Value().Value().Big()
	x.Case(id)
	if want := refIntcom(n, s, t, m, r); cv.Cmp(want) != 0 {
		x.Failf("intcom/commit/value", "%s: commitment %s differs from s^m·t^r mod N = %s (m=%s r=%s)", id, short(cv), short(want), short(m), short(r))
		return
	}
	if err := key.Open(C, M, W); err != nil {
		x.Failf("intcom/open/untouched", "%s: Open rejected the untouched (m, w, key, c): %v", id, err)
	}
	if k.trap != nil {
		// the trapdoor key computes t^(λm+r) with the known order: same commitment, same verdicts
		CT, err := k.trap.CommitWithWitness(M, W)
		if err != nil || !CT.Equal(C) {
			x.Failf("intcom/trapdoor/commit-value", "%s: trapdoor CommitWithWitness differs from the public key's (err=%v)", id, err)
		} else if err := k.trap.Open(C, M, W); err != nil {
			x.Failf("intcom/trapdoor/open-untouched", "%s: trapdoor key rejected the untouched opening: %v", id, err)
		}
	}
	lt["accept-untouched"]++

	judge := func(what string, same bool, s2, t2, c2, m2, r2 *big.Int, run func() error) {
		x.Case(id + "/" + what)
		valid := refIntcom(n, s2, t2, m2, r2).Cmp(c2) == 0
		err := run()
		switch {
		case same:
			lt["same-value"]++
			if err != nil {
				x.Failf("intcom/open/same-value-"+fieldOf(what), "%s: Open rejected %s although the value is unchanged: %v", id, what, err)
			}
		case valid:
			lt["degenerate-"+fieldOf(what)]++
		case err == nil:
			x.Failf("intcom/open/accepts-"+fieldOf(what), "%s: Open ACCEPTED after lone change %s", id, what)
		default:
			lt["reject-"+fieldOf(what)]++
		}
	}
	for _, ch := range intChanges(m, msgs) {
		M2 := must(intcom.NewMessage(zInt(ch.v)))
		judge("msg-"+ch.what, ch.v.Cmp(m) == 0, s, t, cv, ch.v, r, func() error { return key.Open(C, M2, W) })
		if k.trap != nil && ch.v.Cmp(m) != 0 && refIntcom(n, s, t, ch.v, r).Cmp(cv) != 0 && k.trap.Open(C, M2, W) == nil {
			x.Failf("intcom/trapdoor/open-accepts-msg", "%s: trapdoor key's Open ACCEPTED after lone change msg-%s", id, ch.what)
		}
	}
	for _, ch := range intChanges(r, wits) {
		W2 := must(intcom.NewWitness(zInt(ch.v)))
		judge("wit-"+ch.what, ch.v.Cmp(r) == 0, s, t, cv, m, ch.v, func() error { return key.Open(C, M, W2) })
		if k.trap != nil && ch.v.Cmp(r) != 0 && refIntcom(n, s, t, m, ch.v).Cmp(cv) != 0 && k.trap.Open(C, M, W2) == nil {
			x.Failf("intcom/trapdoor/open-accepts-wit", "%s: trapdoor key's Open ACCEPTED after lone change wit-%s", id, ch.what)
		}
	}
	for _, ch := range unitChanges(s, t, n) {
		k2, err := intcomKeyFrom(group, ch.v, t)
		if err != nil {
			lt["key-construction-refused"]++
			x.Case(id + "/keys-" + ch.what + "/refused")
			continue
		}
		judge("keys-"+ch.what, ch.v.Cmp(s) == 0, ch.v, t, cv, m, r, func() error { return k2.Open(C, M, W) })
	}
	for _, ch := range unitChanges(t, s, n) {
		k2, err := intcomKeyFrom(group, s, ch.v)
		if err != nil {
			lt["key-construction-refused"]++
			x.Case(id + "/keyt-" + ch.what + "/refused")
			continue
		}
		judge("keyt-"+ch.what, ch.v.Cmp(t) == 0, s, ch.v, cv, m, r, func() error { return k2.Open(C, M, W) })
	}
	// a key over a different modulus (whole-key replacement): never opens
	for j, o := range keys {
		if o.n.Cmp(n) != 0 {
			x.Case(fmt.Sprintf("%s/key-replace%d", id, j))
			if o.pub.Open(C, M, W) == nil {
				x.Failf("intcom/open/accepts-key", "%s: key %s over a different modulus ACCEPTED the opening", id, o.name)
			}
			lt["reject-key"]++
		}
	}
	for _, ch := range unitChanges(cv, t, n) {
		ce, err := rsaUnit(group, ch.v)
		if err != nil {
			lt["commitment-construction-refused"]++
			continue
		}
		C2 := must(intcom.NewCommitment(ce))
		judge("com-"+ch.what, ch.v.Cmp(cv) == 0, s, t, ch.v, m, r, func() error { return key.Open(C2, M, W) })
	}
	// generic Commit
	if wi == len(wits)-1 {
		C3, W3, err := commitments.Commit(key, M, newStream(id+"/Commit"))
		x.Case(id + "/Commit")
		if err != nil {
			x.Failf("intcom/Commit/err", "%s: commitments.Commit failed: %v", id, err)
		} else if refIntcom(n, s, t, m, W3.Value().Big()).Cmp(C3.Value().Value().Big()) != 0 || key.Open(C3, M, W3) != nil {
			x.Failf("intcom/Commit/value", "%s: commitments.Commit output does not open / differs from s^m·t^r", id)
		}
	}
	if wi == len(wits)-1 {
		C4, shift, err := commitments.ReRandomise(key, C, newStream(id+"/ReRandomise"))
		x.Case(id + "/ReRandomise")
		if err != nil {
			x.Failf("intcom/ReRandomise/err", "%s: commitments.ReRandomise failed: %v", id, err)
		} else {
			r4 := new(big.Int).Add(r, shift.Value().Big())
			W4, err := key.WitnessOp(W, shift)
			if err != nil || refIntcom(n, s, t, m, r4).Cmp(C4.Value().Value().Big()) != 0 || key.Open(C4, M, W4) != nil {
				x.Failf("intcom/ReRandomise/value", "%s: re-randomised commitment does not open to (m, w+shift) (err=%v)", id, err)
			}
		}
	}
	if key.Open(nil, M, W) == nil || key.Open(C, nil, W) == nil || key.Open(C, M, nil) == nil {
		x.Failf("intcom/open/nil", "%s: Open accepted a nil argument", id)
	}
	x.Observe(id, short(cv))
}

// intcomEquivBody: trapdoor key x every ordered message pair x witness alphabet.
func intcomEquivBody(x *engine.X) {
	var traps []*intcomKey
	for _, k := range intcomKeys() {
		if k.trap != nil {
			traps = append(traps, k)
		}
	}
	k := traps[x.Choose("trapdoor", len(traps))]
	msgs, wits := intcomMessages(k), intcomWitnesses(k)
	mi := x.Choose("msg", len(msgs))
	wi := x.Choose("wit", len(wits))
	m, r := msgs[mi], wits[wi]
	id := fmt.Sprintf("intcom/equiv/%s/m%d/w%d", k.name, mi, wi)
	lt := localTally{}
	defer lt.flush(&intcomEquivTally)

	pub := k.trap.Export()
	n := k.n
	s, t := pub.S().Value().Big(), pub.T().Value().Big()
	lambda := k.trap.Lambda().Big()
	if new(big.Int).Exp(t, lambda, n).Cmp(s) != 0 {
		x.Failf("intcom/trapdoor/s", "%s: exported s is not t^lambda", id)
		return
	}
	M := must(intcom.NewMessage(zInt(m)))
	W := must(intcom.NewWitness(zInt(r)))
	C, err := k.trap.CommitWithWitness(M, W)
	x.Case(id)
	if err != nil {
		x.Failf("intcom/trapdoor/commit-err", "%s: CommitWithWitness failed: %v", id, err)
		return
	}
	cv := C.Value().Value().Big()
	if cv.Cmp(refIntcom(n, s, t, m, r)) != 0 {
		x.Failf("intcom/trapdoor/commit-value", "%s: trapdoor commitment differs from s^m·t^r mod N", id)
		return
	}
	up := new(big.Int).Lsh(n, 80)
	lo := new(big.Int).Neg(up)
	for mj, m2 := range msgs {
		M2 := must(intcom.NewMessage(zInt(m2)))
		x.Case(fmt.Sprintf("%s/to%d", id, mj))
		W2, err := k.trap.Equivocate(M, W, M2, newStream(id))
		if err != nil {
			x.Failf("intcom/equivocate/err", "%s: Equivocate(m=%s -> m'=%s) failed: %v", id, short(m), short(m2), err)
			continue
		}
		r2 := W2.Value().Big()
		if refIntcom(n, s, t, m2, r2).Cmp(cv) != 0 {
			x.Failf("intcom/equivocate/value", "%s: equivocated witness %s does not satisfy s^m'·t^r' = c (m'=%s)", id, short(r2), short(m2))
		}
		if err := pub.Open(C, M2, W2); err != nil {
			x.Failf("intcom/equivocate/open", "%s: exported key rejected the equivocated opening to m'=%s: %v", id, short(m2), err)
		}
		if err := k.trap.Open(C, M2, W2); err != nil {
			x.Failf("intcom/equivocate/open-trapdoor", "%s: trapdoor key rejected the equivocated opening to m'=%s: %v", id, short(m2), err)
		}
		lt["equivocation-accepted"]++
		if m2.Cmp(m) != 0 {
			if r2.Cmp(lo) >= 0 && r2.Cmp(up) < 0 {
				lt["equivocated-witness-in-sampling-range"]++
			} else {
				lt["equivocated-witness-outside-sampling-range"]++
			}
		}
		for mk, m3 := range msgs {
			if m3.Cmp(m2) == 0 {
				continue
			}
			x.Case(fmt.Sprintf("%s/to%d/not%d", id, mj, mk))
			// m'' opens too only if s^(m''-m') = 1, i.e. the order p'q' divides m''-m' (decided by recomputation)
			if refIntcom(n, s, t, m3, r2).Cmp(cv) == 0 {
				lt["degenerate-equivocation"]++
				continue
			}
			if pub.Open(C, must(intcom.NewMessage(zInt(m3))), W2) == nil {
				x.Failf("intcom/equivocate/binding", "%s: witness equivocated for m'=%s also opens m''=%s", id, short(m2), short(m3))
			}
			lt["equivocation-other-message-rejected"]++
		}
	}
	x.Observe(id, short(cv))
}
