// C16 — Paillier / ElGamal decrypt correctly; homomorphisms are exact.
//
// Engine: explicit-state search (engine.BFS) whose transition function is the real library call. A state is one live
// ciphertext together with the reference state kept beside it: the plaintext AND the composed nonce (math/big), so
// the model predicts the exact ciphertext bytes c = (1+N)^m · r^N mod N² (ElGamal: (ρ·G, (μ+ρ·a)·G)), not only its
// decryption. Every transition is executed through the public-key path AND the secret-key (CRT / trapdoor) path and
// the two results must be byte-equal; the state invariant demands Decrypt == model plaintext (in [0,N) and in the
// symmetric range), Open == (model plaintext, model nonce), re-encryption of the opening == c, and c == reference
// formula. Separate CT sections enumerate the refusals (out-of-range plaintexts, non-unit nonces, non-members of
// Z*_{N²}, foreign-key ciphertexts), the two building blocks Representative / IdentityNoise, and ElGamal key
// construction (degenerate secrets, non-canonical generators).
//
// Deviations from DESIGN §5 C16 (spirit kept: complete enumeration of a stated finite space, independent oracle):
//   - states are merged by (ciphertext bytes, model) instead of exploring the raw history tree; every transition is still
//     executed and checked, only the re-expansion of an already expanded state is skipped;
//   - the binary CiphertextOp takes as second operand a fresh Encrypt(m';r') over the whole alphabet, the state itself
//     (c·c) or twice the state (variadic form), not an arbitrary second reachable state;
//   - quick depth is 3 (Encrypt + 2 steps) on 256/512-bit keys; thorough goes to depth 5/4/4/3 on 256/512/1024/2048;
//   - "ciphertexts outside Z*_{N²} are refused by Decrypt": such a value cannot be wrapped through the public API, so the
//     rule is checked where it is enforced (NewCiphertext) and Decrypt/Open are checked against foreign-key ciphertexts.
package c16

import (
	"crypto/sha256"
	"fmt"
	"math/big"
	"os"
	"sync"
	"testing"

	"verifmc/engine"
)

func TestMain(m *testing.M) { engine.Main(m, "C16", "model_checking") }

// named integer of an alphabet
type namedInt struct {
	name string
	v    *big.Int
}

func bi(v int64) *big.Int { return big.NewInt(v) }

// streamInt returns a fixed pseudo-random integer of the given bit length from a SHA-256 counter stream.
func streamInt(label string, bits int) *big.Int {
	var buf []byte
	for i := 0; len(buf)*8 < bits+64; i++ {
		h := sha256.Sum256([]byte(fmt.Sprintf("verif/C16/%s/seed=%d/%d", label, engine.Seed(), i)))
		buf = append(buf, h[:]...)
	}
	v := new(big.Int).SetBytes(buf)
	return v.Rsh(v, uint(len(buf)*8-bits))
}

// guard converts a panic inside a library call into an error value so that the BFS transition function never
// unwinds (engine.BFS only recovers inside the invariant).
func guard[T any](f func() (T, error)) (out T, err error) {
	defer func() {
		if r := recover(); r != nil {
			err = fmt.Errorf("PANIC: %v", r)
		}
	}()
	return f()
}

type fail struct{ key, msg string }

func TestCheck(t *testing.T) {
	engine.Rule("BFS over operation histories on ONE live ciphertext per key. Depth-1 states are ALL Encrypt(m;r) over plaintexts {0,1,2,N-1,h,h+1,-1,-h} (h=floor(N/2); the two negative ones through NewPlaintextSymmetric) x nonces {1,2,N-1,fixed unit u}. Every further step applies EVERY operation of the alphabet: CiphertextOp(c, fresh Encrypt(m';r')) for all 32 (m';r'), CiphertextOp(c,c), CiphertextOp(c,c,c), CiphertextOpInv, CiphertextScalarOp(k) for k in {0,1,-1,2,N,N+1,-N,2^64}, Shift(m') for all 8 plaintexts, ReRandomise(r') for all 4 nonces = 55 operations, each executed through the PublicKey method AND the SecretKey method (results must be byte-equal), together with the matching Plaintext*/Nonce* operations of both keys against the math/big model. ElGamal: the same shape with plaintexts mu*G for mu in {0,1,2,q-1,h,h+1,w}, nonces {1,2,q-1,w}, scalars {0,1,q-1,2,2^64,w}, secrets a in {2,q-1,w} (48 operations). A state is distinct by (ciphertext bytes, announced length, model plaintext, model nonce); states with equal keys are merged (their futures are equal because ciphertexts are immutable values), but EVERY transition, also into a known state, is executed on the real code and its target is checked by the full invariant. Non-trivial = the library returned a ciphertext and it was compared byte-for-byte with the reference formula, decrypted, opened and re-encrypted.")
	engine.Assume(
		"math/big and the textbook reference in /verif/mc/ref/paillier (plain modular exponentiation c=(1+N)^m r^N mod N^2, L-function decryption, N-th root by N^-1 mod lambda) are correct",
		"ElGamal oracle: the predicted ciphertext (rho*G, (mu+rho*a)*G) is computed from exponents combined in math/big, once with ONE library scalar multiplication of the generator per component and once on the affine math/big curves of /verif/mc/ref/curve (constants typed in from the standards; delta as the reference sum mu*G + (rho*a)*G); library points are read through AffineX/AffineY/IsZero",
		"state merging assumes that a library ciphertext behaves as a function of its value (Paillier: value and announced length; ElGamal: the two curve points, independent of their projective representatives, which is property C14)",
		"Paillier keys of 256/512 bits (quick) and additionally 1024/2048 bits (thorough) in the flavours general (p,q = 1 mod 4), Blum (not safe) and safe-prime, built from fixed primes via znstar.NewPaillierGroup; the key-size floor is relaxed because the check is a test binary (testing.Testing())",
		"a value outside Z*_{N^2} cannot be wrapped as a Ciphertext through the non-CBOR public API, so the membership rule is checked at NewCiphertext (both group views) and Decrypt/Open are checked to refuse ciphertexts of a different key; the CBOR decoder is covered by C12",
		"purego build of the library",
	)
	if f := os.Getenv("VERIF_C16_ONLY"); f != "" {
		// development / mutant-demonstration knob: only BFS sections whose name contains f are run. Such a run is never
		// a verdict: it ends with exit 2 (harness error) unless it found a violation.
		engine.HarnessFail("VERIF_C16_ONLY=%s: partial run, BFS sections not matching were skipped", f)
	}
	// CT sections run first (inside the two functions); all BFS sections then run side by side
	pb := runPaillier()
	eb := runElGamal()
	runParallel(append(pb, eb...))
}

// runParallel runs the given section functions concurrently (engine.BFS is single-threaded per section; sections
// are independent and only share the engine's locked registry).
func runParallel(fs []func()) {
	var wg sync.WaitGroup
	sem := make(chan struct{}, 16)
	for _, f := range fs {
		wg.Add(1)
		go func() {
			defer wg.Done()
			sem <- struct{}{}
			defer func() { <-sem }()
			f()
		}()
	}
	wg.Wait()
}
