package curve

import (
	"fmt"
	"math/big"
)

// EPoint is an affine point (x, y) of a twisted Edwards curve. The identity is the ordinary point (0, 1).
type EPoint struct {
	X, Y *big.Int
}

// TECurve is a x^2 + y^2 = 1 + d x^2 y^2 over F_p with a square and d a non-square (complete addition law), a
// generator G of the prime-order subgroup of order Q, and cofactor H.
type TECurve struct {
	Name string
	F    *PrimeField
	A, D *big.Int
	G    EPoint
	Q    *big.Int
	H    *big.Int
}

// Identity returns (0, 1).
func (c *TECurve) Identity() EPoint { return EPoint{big.NewInt(0), big.NewInt(1)} }

// Generator returns G.
func (c *TECurve) Generator() EPoint { return c.G }

// OnCurve reports whether the coordinates are canonical and satisfy the curve equation.
func (c *TECurve) OnCurve(p EPoint) bool {
	F := c.F
	if !F.Valid(p.X) || !F.Valid(p.Y) {
		return false
	}
	xx, yy := F.Sqr(p.X), F.Sqr(p.Y)
	l := F.Add(F.Mul(c.A, xx), yy)
	r := F.Add(big.NewInt(1), F.Mul(c.D, F.Mul(xx, yy)))
	return l.Cmp(r) == 0
}

// Equal compares coordinates.
func (c *TECurve) Equal(p, q EPoint) bool { return c.F.Equal(p.X, q.X) && c.F.Equal(p.Y, q.Y) }

// IsIdentity reports p == (0, 1).
func (c *TECurve) IsIdentity(p EPoint) bool { return c.Equal(p, c.Identity()) }

// Neg returns (-x, y).
func (c *TECurve) Neg(p EPoint) EPoint { return EPoint{c.F.Neg(p.X), c.F.Red(p.Y)} }

// Add returns p + q. Cases: identity operand -> the other operand; q == -p -> identity; otherwise (including
// p == q) the unified law
//
//	x3 = (x1 y2 + y1 x2) / (1 + d x1 x2 y1 y2),  y3 = (y1 y2 - a x1 x2) / (1 - d x1 x2 y1 y2)
//
// whose denominators are never zero on a complete curve (a zero denominator panics: it would mean the constants or an
// operand are wrong).
func (c *TECurve) Add(p, q EPoint) EPoint {
	F := c.F
	if c.IsIdentity(p) {
		return EPoint{F.Red(q.X), F.Red(q.Y)}
	}
	if c.IsIdentity(q) {
		return EPoint{F.Red(p.X), F.Red(p.Y)}
	}
	if c.Equal(q, c.Neg(p)) {
		return c.Identity()
	}
	x1x2 := F.Mul(p.X, q.X)
	y1y2 := F.Mul(p.Y, q.Y)
	t := F.Mul(c.D, F.Mul(x1x2, y1y2))
	dx, ok1 := F.Inv(F.Add(big.NewInt(1), t))
	dy, ok2 := F.Inv(F.Sub(big.NewInt(1), t))
	if !ok1 || !ok2 {
		panic("ref/curve: zero denominator in the Edwards addition law (operand not on the curve?)")
	}
	x3 := F.Mul(F.Add(F.Mul(p.X, q.Y), F.Mul(p.Y, q.X)), dx)
	y3 := F.Mul(F.Sub(y1y2, F.Mul(c.A, x1x2)), dy)
	return EPoint{x3, y3}
}

// Double returns p + p.
func (c *TECurve) Double(p EPoint) EPoint { return c.Add(p, p) }

// Sub returns p - q.
func (c *TECurve) Sub(p, q EPoint) EPoint { return c.Add(p, c.Neg(q)) }

// ScalarMul returns k*p for any integer k (not reduced mod Q: correct for points with a torsion component).
func (c *TECurve) ScalarMul(k *big.Int, p EPoint) EPoint {
	if k.Sign() < 0 {
		return c.ScalarMul(new(big.Int).Neg(k), c.Neg(p))
	}
	r := c.Identity()
	for i := k.BitLen() - 1; i >= 0; i-- {
		r = c.Double(r)
		if k.Bit(i) == 1 {
			r = c.Add(r, p)
		}
	}
	return r
}

// ScalarBaseMul returns k*G.
func (c *TECurve) ScalarBaseMul(k *big.Int) EPoint { return c.ScalarMul(k, c.G) }

// MultiScalarMul returns sum k_i * p_i (identity for empty input).
func (c *TECurve) MultiScalarMul(ks []*big.Int, ps []EPoint) EPoint {
	if len(ks) != len(ps) {
		panic("ref/curve: MultiScalarMul length mismatch")
	}
	r := c.Identity()
	for i := range ks {
		r = c.Add(r, c.ScalarMul(ks[i], ps[i]))
	}
	return r
}

// InSubgroup reports whether p is on the curve and Q*p is the identity (torsion free).
func (c *TECurve) InSubgroup(p EPoint) bool { return c.OnCurve(p) && c.IsIdentity(c.ScalarMul(c.Q, p)) }

// ClearCofactor returns H*p.
func (c *TECurve) ClearCofactor(p EPoint) EPoint { return c.ScalarMul(c.H, p) }

// Order returns the exact order of p (a divisor of H*Q), computed from the factorisation H = 2^k, Q prime.
func (c *TECurve) Order(p EPoint) *big.Int {
	n := new(big.Int).Mul(c.H, c.Q)
	// strip factors while the multiple still kills p
	for _, f := range []*big.Int{c.Q, big.NewInt(2)} {
		for {
			if new(big.Int).Mod(n, f).Sign() != 0 {
				break
			}
			m := new(big.Int).Div(n, f)
			if !c.IsIdentity(c.ScalarMul(m, p)) {
				break
			}
			n = m
		}
	}
	return n
}

// LiftY returns the points with ordinate y: x^2 = (1 - y^2)/(a - d y^2). ok=false if that is not a square.
// even is the root with even x ("non-negative" in RFC 8032), odd the other; they coincide when x == 0.
func (c *TECurve) LiftY(y *big.Int) (even, odd EPoint, ok bool) {
	F := c.F
	yy := F.Sqr(y)
	num := F.Sub(big.NewInt(1), yy)
	den := F.Sub(c.A, F.Mul(c.D, yy))
	xx, ok := F.Div(num, den)
	if !ok {
		return EPoint{}, EPoint{}, false
	}
	x, ok := F.Sqrt(xx)
	if !ok {
		return EPoint{}, EPoint{}, false
	}
	nx := F.Neg(x)
	if x.Bit(0) == 1 {
		x, nx = nx, x
	}
	return EPoint{x, F.Red(y)}, EPoint{nx, F.Red(y)}, true
}

// Compress is the RFC 8032 encoding: 32-byte little-endian y with the parity of x in the top bit.
func (c *TECurve) Compress(p EPoint) []byte {
	n := c.F.ByteLen()
	be := c.F.Bytes(p.Y)
	out := make([]byte, n)
	for i := range be {
		out[n-1-i] = be[i]
	}
	out[n-1] |= byte(c.F.Red(p.X).Bit(0)) << 7
	return out
}

// Decompress is the RFC 8032 decoding (strict: y must be canonical, x = 0 with sign bit set is rejected).
func (c *TECurve) Decompress(b []byte) (EPoint, bool) {
	n := c.F.ByteLen()
	if len(b) != n {
		return EPoint{}, false
	}
	le := append([]byte{}, b...)
	sign := uint(le[n-1] >> 7)
	le[n-1] &= 0x7f
	y := new(big.Int).SetBytes(reverse(le))
	if y.Cmp(c.F.P) >= 0 {
		return EPoint{}, false
	}
	e, o, ok := c.LiftY(y)
	if !ok {
		return EPoint{}, false
	}
	if sign == 0 {
		return e, true
	}
	if o.X.Sign() == 0 {
		return EPoint{}, false
	}
	return o, true
}

// SmallOrderPoints returns all points of order dividing H (the torsion subgroup E[H]), found by exhaustive
// multiplication of an H-torsion generator: T = Q * S for points S obtained by lifting y = 2, 3, 4, ... until T has
// full order H. For edwards25519 these are the 8 well-known low-order points.
func (c *TECurve) SmallOrderPoints() []EPoint {
	h := int(c.H.Int64())
	for y := int64(2); y < 1000; y++ {
		s, _, ok := c.LiftY(big.NewInt(y))
		if !ok {
			continue
		}
		t := c.ScalarMul(c.Q, s)
		if c.Order(t).Cmp(c.H) != 0 {
			continue
		}
		out := make([]EPoint, 0, h)
		acc := c.Identity()
		for i := 0; i < h; i++ {
			out = append(out, acc)
			acc = c.Add(acc, t)
		}
		return out
	}
	panic("ref/curve: no torsion generator found")
}

// Key is a printable form of the point.
func (c *TECurve) Key(p EPoint) string {
	return fmt.Sprintf("(0x%s,0x%s)", c.F.Red(p.X).Text(16), c.F.Red(p.Y).Text(16))
}

func reverse(b []byte) []byte {
	r := make([]byte, len(b))
	for i := range b {
		r[len(b)-1-i] = b[i]
	}
	return r
}
