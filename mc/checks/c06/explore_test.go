package c06

// Glue between engine.BFS (which walks operation histories one at a time) and the real protocol executions: states are
// cached by the history that reaches them, a successor = cached parent + ONE operation executed on fresh protocol
// objects, and the successors (operation + invariant) of a batch of frontier states are computed ahead in parallel,
// because engine.BFS itself is sequential and round-by-round executions are independent of each other.

import (
	"fmt"
	"runtime"
	"runtime/debug"
	"slices"
	"strings"
	"sync"

	"verifmc/engine"
)

type node struct {
	st   *state
	ok   bool // the last operation is enabled
	once sync.Once
	rec  *rec
}

func (n *node) eval() *rec {
	n.once.Do(func() {
		defer func() {
			if p := recover(); p != nil {
				if he, ok := p.(engine.HarnessError); ok {
					panic(he)
				}
				n.rec = &rec{fails: []finding{{"panic/invariant", fmt.Sprintf("panic while evaluating the invariant after [%s]: %v\n%s", histName(n.st.hist), p, trimStack())}}}
			}
		}()
		n.rec = evaluate(n.st)
	})
	return n.rec
}

func trimStack() string {
	var out []string
	for _, l := range strings.Split(string(debug.Stack()), "\n") {
		if strings.Contains(l, "bron-crypto") || strings.Contains(l, "verifmc") {
			out = append(out, strings.TrimSpace(l))
		}
		if len(out) >= 12 {
			break
		}
	}
	return strings.Join(out, "\n")
}

// cache holds the executed histories; it is shared by the sections of one run (the same history is the same
// deterministic execution: same operations, same byte streams).
type cache struct {
	mu    sync.Mutex
	nodes map[string]*node
}

type explorer struct {
	*cache
	canon    func(*state) string // nil: every history is its own state
	seen     map[string]bool
	frontier map[int][][]int // mirror of engine.BFS's frontier per depth
	chunk    int
	harness  *engine.HarnessError
	// counters
	computed, prefetched int
}

func newExplorer(c *cache, canon func(*state) string) *explorer {
	return &explorer{cache: c, canon: canon, seen: map[string]bool{}, frontier: map[int][][]int{}, chunk: 16}
}

func (e *explorer) get(h []int) *node {
	e.mu.Lock()
	defer e.mu.Unlock()
	return e.nodes[histKey(h)]
}

func (e *explorer) put(h []int, n *node) {
	e.mu.Lock()
	e.nodes[histKey(h)] = n
	e.computed++
	e.mu.Unlock()
}

// step computes the successor of parent under op (operation only).
func step(parent *node, op int) (n *node) {
	hist := append(slices.Clone(parent.st.hist), op)
	defer func() {
		if p := recover(); p != nil {
			if he, ok := p.(engine.HarnessError); ok {
				panic(he)
			}
			n = &node{ok: true, st: &state{hist: hist, epochs: parent.st.epochs, signs: parent.st.signs, last: opName(op),
				opFail: []finding{{"panic/" + opClass(op), fmt.Sprintf("%s after [%s] panicked: %v\n%s", opName(op), histName(parent.st.hist), p, trimStack())}}}}
		}
	}()
	ns, ok := apply(parent.st, op)
	if !ok {
		return &node{ok: false}
	}
	return &node{st: ns, ok: true}
}

// ensure returns the node of a history, computing it (and, when the history is a child of a frontier state, the
// children of the next few frontier states, in parallel) if needed.
func (e *explorer) ensure(h []int) *node {
	if n := e.get(h); n != nil {
		return n
	}
	if len(h) == 0 {
		n := &node{st: rootState(), ok: true}
		e.put(h, n)
		return n
	}
	parent := h[:len(h)-1]
	fr := e.frontier[len(parent)]
	idx := -1
	for i, p := range fr {
		if slices.Equal(p, parent) {
			idx = i
			break
		}
	}
	if idx < 0 {
		// not reached through the search (replay of a recorded history): plain recursion
		pn := e.ensure(parent)
		if !pn.ok {
			n := &node{ok: false}
			e.put(h, n)
			return n
		}
		n := step(pn, h[len(h)-1])
		e.put(h, n)
		return n
	}
	type task struct {
		parent *node
		hist   []int
	}
	var tasks []task
	for _, p := range fr[idx:min(idx+e.chunk, len(fr))] {
		pn := e.get(p)
		for op := 0; op < numOps; op++ {
			ch := append(slices.Clone(p), op)
			if e.get(ch) == nil {
				tasks = append(tasks, task{pn, ch})
			}
		}
	}
	var wg sync.WaitGroup
	ch := make(chan task)
	for w := 0; w < runtime.GOMAXPROCS(0); w++ {
		wg.Add(1)
		go func() {
			defer wg.Done()
			for t := range ch {
				func() {
					defer func() {
						if p := recover(); p != nil {
							he, ok := p.(engine.HarnessError)
							if !ok {
								he = engine.HarnessError{Msg: fmt.Sprintf("unexpected panic in the C06 harness: %v\n%s", p, trimStack())}
							}
							e.mu.Lock()
							if e.harness == nil {
								e.harness = &he
							}
							e.mu.Unlock()
						}
					}()
					n := step(t.parent, t.hist[len(t.hist)-1])
					if n.ok {
						n.eval()
					}
					e.put(t.hist, n)
					e.mu.Lock()
					e.prefetched++
					e.mu.Unlock()
				}()
			}
		}()
	}
	for _, t := range tasks {
		ch <- t
	}
	close(ch)
	wg.Wait()
	if e.harness != nil {
		panic(*e.harness)
	}
	n := e.get(h)
	if n == nil {
		panic(engine.HarnessError{Msg: "C06 explorer: history not computed: " + histName(h)})
	}
	return n
}

func (e *explorer) key(s *state) string {
	if e.canon == nil {
		return "h:" + histKey(s.hist)
	}
	return e.canon(s)
}

// search runs engine.BFS over the operation alphabet.
func (e *explorer) search(name string, depth int, budget engine.BFSOpts[*node]) *engine.Section {
	o := budget
	o.Name, o.Depth, o.NumOps = name, depth, numOps
	o.Build = func(hist []int) (*node, bool) {
		n := e.ensure(hist)
		return n, n.ok
	}
	if e.canon != nil {
		o.Canon = func(n *node, _ []int) string { return e.canon(n.st) }
	}
	o.Invariant = func(x *engine.X, n *node, hist []int) {
		// mirror of the engine's frontier (it calls Invariant for every enabled successor, before de-duplication)
		k := e.key(n.st)
		if !e.seen[k] {
			e.seen[k] = true
			e.frontier[len(hist)] = append(e.frontier[len(hist)], slices.Clone(hist))
		}
		r := n.eval()
		for i := 0; i < r.cases; i++ {
			x.Case("")
		}
		x.Observe(r.obs)
		for _, f := range r.fails {
			x.Failf(f.key, "%s", f.msg)
		}
		if x.Replay {
			fmt.Printf("replayed [%s]: %s; epochs:", histName(hist), n.st.last)
			for i, ep := range n.st.epochs {
				fmt.Printf(" %d:%s", i, ep.st.name)
			}
			fmt.Printf("; %d inner cases, %d findings\n", r.cases, len(r.fails))
		}
	}
	o.OpName = opName
	return engine.BFS(o)
}
