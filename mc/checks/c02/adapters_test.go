package c02

import (
	"crypto/sha256"
	"fmt"
	"io"
	"maps"
	"math/big"
	"slices"
	"sort"
	"strings"
	"sync"
	"time"

	"github.com/bronlabs/bron-crypto/pkg/base/algebra"
	"github.com/bronlabs/bron-crypto/pkg/base/curves/k256"
	"github.com/bronlabs/bron-crypto/pkg/base/datastructures/bitset"
	"github.com/bronlabs/bron-crypto/pkg/base/polynomials"
	pedcom "github.com/bronlabs/bron-crypto/pkg/commitments/pedersencom"
	"github.com/bronlabs/bron-crypto/pkg/mpc/sharing"
	"github.com/bronlabs/bron-crypto/pkg/mpc/sharing/accessstructures"
	"github.com/bronlabs/bron-crypto/pkg/mpc/sharing/accessstructures/unanimity"
	"github.com/bronlabs/bron-crypto/pkg/mpc/sharing/scheme/additive"
	"github.com/bronlabs/bron-crypto/pkg/mpc/sharing/scheme/isn"
	"github.com/bronlabs/bron-crypto/pkg/mpc/sharing/scheme/kw"
	"github.com/bronlabs/bron-crypto/pkg/mpc/sharing/scheme/kw/msp"
	"github.com/bronlabs/bron-crypto/pkg/mpc/sharing/scheme/shamir"
	"github.com/bronlabs/bron-crypto/pkg/mpc/sharing/scheme/tassa"
	"github.com/bronlabs/bron-crypto/pkg/mpc/sharing/vss/feldman"
	"github.com/bronlabs/bron-crypto/pkg/mpc/sharing/vss/pedersen"

	"verifmc/catalog"
	"verifmc/engine"
	"verifmc/ref/conv"
	"verifmc/ref/linalg"
	"verifmc/ref/policy"
)

// ---------------------------------------------------------------------------------------------
// KW / Feldman (shares are *kw.Share) and Pedersen, all over the induced span programme

// kwCore is what the three MSP-based schemes share: the span programme (library object and readout).
type kwCore[F algebra.PrimeFieldElement[F]] struct {
	c    fctx[F]
	pc   pcase
	ac   accessstructures.Monotone
	m    *msp.MSP[F]
	view *mspView
}

func newKWCore[F algebra.PrimeFieldElement[F]](x *engine.X, c fctx[F], pc pcase) (*kwCore[F], bool) {
	p, ids, key := pc.e.P, pc.a.IDs, c.name+"/"+pc.key()
	ac, err := catalog.Build(p, ids)
	if err != nil {
		x.Failf("policy/constructor", "%s: constructor refused a catalogue policy%s", key, errLine(err))
		return nil, false
	}
	m, err := accessstructures.InducedMSP(c.field, ac)
	if p.Kind == policy.Hierarchical {
		mustAccept, mustRefuse := hierExpect(p, ids, c.q)
		if err != nil {
			if mustAccept {
				x.Failf("msp/hierarchical-refused", "%s: InducedMSP refused a hierarchical policy that satisfies the identifier-order and field-size conditions%s", key, errLine(err))
			} else {
				x.Observe(key, "refused-as-documented")
				x.Trivial()
			}
			return nil, false
		}
		if mustRefuse {
			x.Failf(fieldSizeKey(ids), "%s: InducedMSP accepted a hierarchical policy that violates Tassa's condition (largest identifier %d, largest threshold %d)", key, slices.Max(ids), p.MaxThreshold())
			return nil, false
		}
	} else if err != nil {
		x.Failf("msp/induce", "%s: InducedMSP failed on a catalogue policy%s", key, errLine(err))
		return nil, false
	}
	return &kwCore[F]{c: c, pc: pc, ac: ac, m: m, view: readMSP(c.q, m, ids)}, true
}

// expected share values of a party for dealer column r: the party's rows of M·r (ascending rows).
func (k *kwCore[F]) expect(r []*big.Int, party int) []*big.Int {
	var out []*big.Int
	for _, row := range k.view.rowsOf[party] {
		acc := new(big.Int)
		for j := 0; j < k.view.M.C; j++ {
			acc.Add(acc, new(big.Int).Mul(k.view.M.A[row][j], r[j]))
		}
		out = append(out, acc.Mod(acc, k.c.q))
	}
	return out
}

func column[F algebra.PrimeFieldElement[F]](c fctx[F], df *kw.DealerFunc[F]) []*big.Int {
	m := refMat(c.q, df.RandomColumn())
	out := make([]*big.Int, m.R)
	for i := range out {
		out[i] = m.A[i][0]
	}
	return out
}

// altColumn solves, in the reference, for the dealer column r' with r'_0 = sPrime that leaves every share of mask
// unchanged.
func (k *kwCore[F]) altColumn(x *engine.X, key string, r []*big.Int, mask uint64, sPrime *big.Int) ([]*big.Int, bool) {
	MA := k.view.M.SubRows(k.view.rowsFor(mask))
	d, ok := solveWitness(k.c.q, MA, k.view.M.C, k.c.sub(sPrime, r[0]))
	if !ok {
		x.Failf("privacy/no-witness/"+k.pc.e.P.Kind.String(), "%s: the rows of the unqualified set %v span e0: its shares determine the secret", key, catalog.Subset(k.pc.a.IDs, mask))
		return nil, false
	}
	out := make([]*big.Int, len(r))
	for i := range r {
		out[i] = k.c.add(r[i], d[i])
	}
	return out, true
}

// kwFlavour abstracts KW vs Feldman (same share and dealer-function types).
type kwFlavour[F algebra.PrimeFieldElement[F]] struct {
	name            string
	deal            func(secret *kw.Secret[F], rd io.Reader) (func(sharing.ID) (*kw.Share[F], bool), *kw.DealerFunc[F], error)
	dealRandom      func(rd io.Reader) (func(sharing.ID) (*kw.Share[F], bool), *kw.Secret[F], error)
	reconstruct     func(sh ...*kw.Share[F]) (*kw.Secret[F], error)
	can             func(ids ...sharing.ID) bool
	toAdditive      func(sh *kw.Share[F], q *unanimity.Unanimity) (*additive.Share[F], error)
	realDealWitness bool // push the witness through Deal as well (cheap for plain KW)
}

type kwState[F algebra.PrimeFieldElement[F]] struct{ r []*big.Int }

func kwAdapter[F algebra.PrimeFieldElement[F]](x *engine.X, c fctx[F], pc pcase, mkFlavour func(core *kwCore[F]) (*kwFlavour[F], error)) (*adapter[*kw.Share[F]], bool) {
	core, ok := newKWCore(x, c, pc)
	if !ok {
		return nil, false
	}
	ids, key := pc.a.IDs, c.name+"/"+pc.key()
	fl, err := mkFlavour(core)
	if err != nil {
		x.Failf("scheme/constructor", "%s: scheme constructor failed although the span programme was induced%s", key, errLine(err))
		return nil, false
	}
	D := core.view.M.C
	if D == 1 {
		x.Case(fl.name + "/" + key + "/one-column")
		_, _, err := fl.deal(kw.NewSecret(c.el(big.NewInt(7))), c.reader("onecol"))
		if err == nil {
			x.Failf("refusal/one-column", "%s/%s: dealing under a policy in which every single shareholder is qualified was not refused", fl.name, key)
		}
		x.Observe(key, "one-column refused")
		return nil, false
	}
	collect := func(get func(sharing.ID) (*kw.Share[F], bool), secret *big.Int, r []*big.Int) *dealing[*kw.Share[F]] {
		d := &dealing[*kw.Share[F]]{secret: secret, shares: make([]*kw.Share[F], len(ids)), has: make([]bool, len(ids)), state: kwState[F]{r}}
		for i, id := range ids {
			d.shares[i], d.has[i] = get(id)
		}
		return d
	}
	verify := func(x *engine.X, d *dealing[*kw.Share[F]], r []*big.Int, what string) bool {
		if r[0].Cmp(d.secret) != 0 {
			x.Failf(fl.name+"/deal-secret-slot", "%s: %s: the dealer column's first entry is not the secret", key, what)
			return false
		}
		for i := range ids {
			want := core.expect(r, i)
			if !d.has[i] {
				if len(want) > 0 {
					x.Failf(fl.name+"/deal-missing-share", "%s: %s: shareholder %d owns rows but received no share", key, what, ids[i])
					return false
				}
				continue
			}
			if d.shares[i].ID() != ids[i] || !eqBigs(bigs(d.shares[i].Value()), want) {
				x.Failf(fl.name+"/deal-share-value", "%s: %s: share of %d is not the shareholder's rows of M·r (recomputed with math/big)", key, what, ids[i])
				return false
			}
		}
		return true
	}
	ad := &adapter[*kw.Share[F]]{
		scheme:                     fl.name,
		freeRand:                   D - 1,
		refusesUnqualifiedAdditive: true,
		mspBased:                   true,
		missingShareKey:            fl.name + "/party-without-share/" + pc.e.P.Kind.String(),
	}
	ad.deal = func(x *engine.X, secret *big.Int, rnd []*big.Int, label string) (*dealing[*kw.Share[F]], bool) {
		// the column sampler draws D values; the first one is overwritten by the secret
		rd := c.reader(label, append([]*big.Int{big.NewInt(0)}, rnd...)...)
		get, df, err := fl.deal(kw.NewSecret(c.el(secret)), rd)
		if err != nil {
			x.Failf(fl.name+"/deal-refused", "%s: Deal refused an accepted policy%s", key, errLine(err))
			return nil, false
		}
		r := column(c, df)
		if len(r) != D || !eqBigs(r[1:], rnd) {
			x.Failf(fl.name+"/deal-randomness-layout", "%s: the dealer column is not (secret, sampled values in order)", key)
			return nil, false
		}
		if conv.ToBig(df.Secret().Value()).Cmp(secret) != 0 {
			x.Failf(fl.name+"/dealerfunc-secret", "%s: DealerFunc.Secret() is not the dealt secret", key)
		}
		d := collect(get, secret, r)
		return d, verify(x, d, r, "Deal")
	}
	ad.dealRandom = func(x *engine.X, label string) (*dealing[*kw.Share[F]], bool) {
		get, sec, err := fl.dealRandom(c.reader(label))
		if err != nil {
			x.Failf(fl.name+"/deal-refused", "%s: DealRandom refused an accepted policy%s", key, errLine(err))
			return nil, false
		}
		return collect(get, conv.ToBig(sec.Value()), nil), true
	}
	ad.reconstruct = func(sh []*kw.Share[F]) (*big.Int, error) {
		s, err := fl.reconstruct(sh...)
		if err != nil {
			return nil, err
		}
		return conv.ToBig(s.Value()), nil
	}
	ad.can = func(ids []sharing.ID) bool { return fl.can(ids...) }
	ad.toAdditive = func(sh *kw.Share[F], q *unanimity.Unanimity) (sharing.ID, *big.Int, error) {
		a, err := fl.toAdditive(sh, q)
		if err != nil {
			return 0, nil, err
		}
		return a.ID(), conv.ToBig(a.Value()), nil
	}
	ad.add = func(a, b *kw.Share[F]) *kw.Share[F] { return a.Add(b) }
	ad.scale = func(a *kw.Share[F], k *big.Int) *kw.Share[F] { return a.ScalarMul(c.el(k)) }
	ad.flat = func(a *kw.Share[F]) string { return fmt.Sprint(a.ID(), ":", flatBigs(bigs(a.Value()))) }
	ad.witness = func(x *engine.X, d *dealing[*kw.Share[F]], mask uint64, sPrime *big.Int) (*dealing[*kw.Share[F]], string) {
		r := d.state.(kwState[F]).r
		r2, ok := core.altColumn(x, key, r, mask, sPrime)
		if !ok {
			return nil, ""
		}
		df, err := kw.NewDealerFunc(libColumn(c, r2), core.m)
		if err != nil {
			x.Failf(fl.name+"/dealerfunc", "%s: NewDealerFunc refused a full-length column%s", key, errLine(err))
			return nil, ""
		}
		alt := collect(func(id sharing.ID) (*kw.Share[F], bool) {
			sh, err := df.ShareOf(id)
			return sh, err == nil
		}, sPrime, r2)
		if !verify(x, alt, r2, "NewDealerFunc") {
			return nil, ""
		}
		if fl.realDealWitness {
			get, df2, err := fl.deal(kw.NewSecret(c.el(sPrime)), c.reader("W", append([]*big.Int{big.NewInt(1)}, r2[1:]...)...))
			if err != nil || !eqBigs(column(c, df2), r2) {
				x.Failf(fl.name+"/deal-randomness-layout", "%s: Deal with chosen randomness did not use the witness column%s", key, errLine(err))
				return nil, ""
			}
			alt2 := collect(get, sPrime, r2)
			for i := range ids {
				if alt.has[i] != alt2.has[i] || (alt.has[i] && ad.flat(alt.shares[i]) != ad.flat(alt2.shares[i])) {
					x.Failf(fl.name+"/deal-vs-dealerfunc", "%s: Deal and NewDealerFunc disagree on the share of %d for the same column", key, ids[i])
					return nil, ""
				}
			}
			return alt2, ""
		}
		return alt, ""
	}
	return ad, true
}

func plainKW[F algebra.PrimeFieldElement[F]](core *kwCore[F]) (*kwFlavour[F], error) {
	s, err := kw.NewScheme(core.c.field, core.ac)
	if err != nil {
		return nil, err
	}
	return &kwFlavour[F]{
		name: "kw",
		deal: func(secret *kw.Secret[F], rd io.Reader) (func(sharing.ID) (*kw.Share[F], bool), *kw.DealerFunc[F], error) {
			do, df, err := s.DealAndRevealDealerFunc(secret, rd)
			if err != nil {
				return nil, nil, err
			}
			return do.Shares().Get, df, nil
		},
		dealRandom: func(rd io.Reader) (func(sharing.ID) (*kw.Share[F], bool), *kw.Secret[F], error) {
			do, sec, err := s.DealRandom(rd)
			if err != nil {
				return nil, nil, err
			}
			return do.Shares().Get, sec, nil
		},
		reconstruct:     s.Reconstruct,
		can:             s.CanReconstruct,
		toAdditive:      s.ConvertShareToAdditive,
		realDealWitness: true,
	}, nil
}

func feldmanK256(core *kwCore[*k256.Scalar]) (*kwFlavour[*k256.Scalar], error) {
	s, err := feldman.NewScheme(k256.NewCurve(), core.ac)
	if err != nil {
		return nil, err
	}
	type F = *k256.Scalar
	return &kwFlavour[F]{
		name: "feldman",
		deal: func(secret *kw.Secret[F], rd io.Reader) (func(sharing.ID) (*kw.Share[F], bool), *kw.DealerFunc[F], error) {
			do, df, err := s.DealAndRevealDealerFunc(secret, rd)
			if err != nil {
				return nil, nil, err
			}
			return do.Shares().Get, df, nil
		},
		dealRandom: func(rd io.Reader) (func(sharing.ID) (*kw.Share[F], bool), *kw.Secret[F], error) {
			do, sec, err := s.DealRandom(rd)
			if err != nil {
				return nil, nil, err
			}
			return do.Shares().Get, sec, nil
		},
		reconstruct: s.Reconstruct,
		can:         s.CanReconstruct,
		toAdditive:  s.ConvertShareToAdditive,
	}, nil
}

// ---- Pedersen

type pedState struct{ g, h []*big.Int }

var pedKey = sync.OnceValue(func() *pedcom.CommitmentKey[*k256.Point, *k256.Scalar] {
	k, err := pedcom.SampleCommitmentKey(k256.NewCurve(), &stream{seed: sha256.Sum256([]byte(fmt.Sprintf("C02/pedersen-key/%d", engine.Seed())))})
	if err != nil {
		panic(engine.HarnessError{Msg: "cannot sample a Pedersen key: " + err.Error()})
	}
	return k
})

func pedersenAdapter(x *engine.X, c fctx[*k256.Scalar], pc pcase) (*adapter[*pedersen.Share[*k256.Scalar]], bool) {
	type F = *k256.Scalar
	type S = *pedersen.Share[F]
	core, ok := newKWCore(x, c, pc)
	if !ok {
		return nil, false
	}
	ids, key := pc.a.IDs, c.name+"/"+pc.key()
	s, err := pedersen.NewScheme(pedKey(), core.ac)
	if err != nil {
		x.Failf("scheme/constructor", "%s: pedersen.NewScheme failed although the span programme was induced%s", key, errLine(err))
		return nil, false
	}
	D := core.view.M.C
	if D == 1 {
		x.Case("pedersen/" + key + "/one-column")
		if _, err := s.Deal(kw.NewSecret(c.el(big.NewInt(7))), c.reader("onecol")); err == nil {
			x.Failf("refusal/one-column", "pedersen/%s: dealing under a policy in which every single shareholder is qualified was not refused", key)
		}
		return nil, false
	}
	flat := func(a S) string {
		var bl []*big.Int
		for _, w := range a.Blinding() {
			bl = append(bl, conv.ToBig(w.Value()))
		}
		return fmt.Sprint(a.ID(), ":", flatBigs(bigs(a.Value())), "/", flatBigs(bl))
	}
	collect := func(get func(sharing.ID) (S, bool), secret *big.Int, st pedState) *dealing[S] {
		d := &dealing[S]{secret: secret, shares: make([]S, len(ids)), has: make([]bool, len(ids)), state: st}
		for i, id := range ids {
			d.shares[i], d.has[i] = get(id)
		}
		return d
	}
	verify := func(x *engine.X, d *dealing[S], st pedState, what string) bool {
		if st.g[0].Cmp(d.secret) != 0 {
			x.Failf("pedersen/deal-secret-slot", "%s: %s: the secret column's first entry is not the secret", key, what)
			return false
		}
		for i := range ids {
			wg, wh := core.expect(st.g, i), core.expect(st.h, i)
			if !d.has[i] {
				if len(wg) > 0 {
					x.Failf("pedersen/deal-missing-share", "%s: %s: shareholder %d owns rows but received no share", key, what, ids[i])
					return false
				}
				continue
			}
			var bl []*big.Int
			for _, w := range d.shares[i].Blinding() {
				bl = append(bl, conv.ToBig(w.Value()))
			}
			if d.shares[i].ID() != ids[i] || !eqBigs(bigs(d.shares[i].Value()), wg) || !eqBigs(bl, wh) {
				x.Failf("pedersen/deal-share-value", "%s: %s: share of %d is not (M·r_g, M·r_h) on the shareholder's rows", key, what, ids[i])
				return false
			}
		}
		return true
	}
	ad := &adapter[S]{scheme: "pedersen", freeRand: D - 1, refusesUnqualifiedAdditive: true, mspBased: true, missingShareKey: "pedersen/party-without-share/" + pc.e.P.Kind.String(), flat: flat}
	ad.deal = func(x *engine.X, secret *big.Int, rnd []*big.Int, label string) (*dealing[S], bool) {
		do, df, err := s.DealAndRevealDealerFunc(kw.NewSecret(c.el(secret)), c.reader(label, append([]*big.Int{big.NewInt(0)}, rnd...)...))
		if err != nil {
			x.Failf("pedersen/deal-refused", "%s: Deal refused an accepted policy%s", key, errLine(err))
			return nil, false
		}
		st := pedState{column(c, df.G()), column(c, df.H())}
		if len(st.g) != D || !eqBigs(st.g[1:], rnd) {
			x.Failf("pedersen/deal-randomness-layout", "%s: the secret dealer column is not (secret, sampled values in order)", key)
			return nil, false
		}
		d := collect(do.Shares().Get, secret, st)
		d.state = pedFull{st, df}
		return d, verify(x, d, st, "Deal")
	}
	ad.dealRandom = func(x *engine.X, label string) (*dealing[S], bool) {
		do, sec, err := s.DealRandom(c.reader(label))
		if err != nil {
			x.Failf("pedersen/deal-refused", "%s: DealRandom refused an accepted policy%s", key, errLine(err))
			return nil, false
		}
		return collect(do.Shares().Get, conv.ToBig(sec.Value()), pedState{}), true
	}
	ad.reconstruct = func(sh []S) (*big.Int, error) {
		r, err := s.Reconstruct(sh...)
		if err != nil {
			return nil, err
		}
		return conv.ToBig(r.Value()), nil
	}
	ad.can = func(ids []sharing.ID) bool { return s.CanReconstruct(ids...) }
	ad.toAdditive = func(sh S, q *unanimity.Unanimity) (sharing.ID, *big.Int, error) {
		a, err := s.ConvertShareToAdditive(sh, q)
		if err != nil {
			return 0, nil, err
		}
		return a.ID(), conv.ToBig(a.Value()), nil
	}
	ad.add = func(a, b S) S { return a.Add(b) }
	ad.scale = func(a S, k *big.Int) S { return a.ScalarOp(c.el(k)) }
	ad.witness = func(x *engine.X, d *dealing[S], mask uint64, sPrime *big.Int) (*dealing[S], string) {
		pf := d.state.(pedFull)
		g2, ok := core.altColumn(x, key, pf.st.g, mask, sPrime)
		if !ok {
			return nil, ""
		}
		gdf, err := kw.NewDealerFunc(libColumn(c, g2), core.m)
		if err != nil {
			x.Failf("pedersen/dealerfunc", "%s: kw.NewDealerFunc refused a full-length column%s", key, errLine(err))
			return nil, ""
		}
		pdf, err := pedersen.NewDealerFunc(gdf, pf.df.H())
		if err != nil {
			x.Failf("pedersen/dealerfunc", "%s: pedersen.NewDealerFunc failed%s", key, errLine(err))
			return nil, ""
		}
		st := pedState{g2, pf.st.h}
		alt := collect(func(id sharing.ID) (S, bool) {
			sh, err := pdf.ShareOf(id)
			return sh, err == nil
		}, sPrime, st)
		if !verify(x, alt, st, "NewDealerFunc") {
			return nil, ""
		}
		return alt, ""
	}
	return ad, true
}

type pedFull struct {
	st pedState
	df *pedersen.DealerFunc[*k256.Scalar]
}

// ---------------------------------------------------------------------------------------------
// polynomial schemes: Shamir (threshold) and Tassa (hierarchical)

type polyState struct{ coeffs []*big.Int }

func coeffsOf[F algebra.PrimeFieldElement[F]](p *polynomials.Polynomial[F], n int) []*big.Int {
	out := bigs(p.Coefficients())
	for len(out) < n {
		out = append(out, new(big.Int))
	}
	return out
}

func shamirAdapter[F algebra.PrimeFieldElement[F]](x *engine.X, c fctx[F], pc pcase) (*adapter[*shamir.Share[F]], bool) {
	type S = *shamir.Share[F]
	p, ids, key := pc.e.P, pc.a.IDs, c.name+"/"+pc.key()
	ac, err := catalog.BuildThreshold(p, ids)
	if err != nil {
		x.Failf("policy/constructor", "%s: constructor refused a catalogue policy%s", key, errLine(err))
		return nil, false
	}
	s, err := shamir.NewScheme(c.field, ac)
	if err != nil {
		x.Failf("scheme/constructor", "%s: shamir.NewScheme failed%s", key, errLine(err))
		return nil, false
	}
	t := p.T
	nodes := make([]*big.Int, len(ids))
	for i, id := range ids {
		nodes[i] = idNode(c.q, id)
	}
	collect := func(get func(sharing.ID) (S, bool), secret *big.Int, co []*big.Int) *dealing[S] {
		d := &dealing[S]{secret: secret, shares: make([]S, len(ids)), has: make([]bool, len(ids)), state: polyState{co}}
		for i, id := range ids {
			d.shares[i], d.has[i] = get(id)
		}
		return d
	}
	verify := func(x *engine.X, d *dealing[S], co []*big.Int, what string) bool {
		if co[0].Cmp(d.secret) != 0 {
			x.Failf("shamir/deal-secret-slot", "%s: %s: the dealing polynomial's constant term is not the secret", key, what)
			return false
		}
		for i := range ids {
			if !d.has[i] || d.shares[i].ID() != ids[i] || conv.ToBig(d.shares[i].Value()).Cmp(linalg.EvalPoly(c.q, co, nodes[i])) != 0 {
				x.Failf("shamir/deal-share-value", "%s: %s: share of %d is not f(id) (recomputed with math/big)", key, what, ids[i])
				return false
			}
		}
		return true
	}
	ad := &adapter[S]{scheme: "shamir", freeRand: t - 1, nonzeroLast: true, missingShareKey: "shamir/party-without-share"}
	dealWith := func(x *engine.X, secret *big.Int, rnd []*big.Int, label, what string) (*dealing[S], bool) {
		do, poly, err := s.DealAndRevealDealerFunc(shamir.NewSecret(c.el(secret)), c.reader(label, rnd...))
		if err != nil {
			x.Failf("shamir/deal-refused", "%s: Deal refused%s", key, errLine(err))
			return nil, false
		}
		co := coeffsOf(poly, t)
		if len(co) != t || !eqBigs(co[1:], rnd) {
			x.Failf("shamir/deal-randomness-layout", "%s: the dealing polynomial is not (secret, sampled coefficients in order) of degree t-1", key)
			return nil, false
		}
		d := collect(do.Shares().Get, secret, co)
		return d, verify(x, d, co, what)
	}
	ad.deal = func(x *engine.X, secret *big.Int, rnd []*big.Int, label string) (*dealing[S], bool) {
		return dealWith(x, secret, rnd, label, "Deal")
	}
	ad.dealRandom = func(x *engine.X, label string) (*dealing[S], bool) {
		do, sec, err := s.DealRandom(c.reader(label))
		if err != nil {
			x.Failf("shamir/deal-refused", "%s: DealRandom refused%s", key, errLine(err))
			return nil, false
		}
		return collect(do.Shares().Get, conv.ToBig(sec.Value()), nil), true
	}
	ad.reconstruct = func(sh []S) (*big.Int, error) {
		r, err := s.Reconstruct(sh...)
		if err != nil {
			return nil, err
		}
		return conv.ToBig(r.Value()), nil
	}
	ad.can = func(ids []sharing.ID) bool { return s.CanReconstruct(ids...) }
	ad.toAdditive = func(sh S, q *unanimity.Unanimity) (sharing.ID, *big.Int, error) {
		a, err := s.ConvertShareToAdditive(sh, q)
		if err != nil {
			return 0, nil, err
		}
		return a.ID(), conv.ToBig(a.Value()), nil
	}
	ad.add = func(a, b S) S { return a.Add(b) }
	ad.scale = func(a S, k *big.Int) S { return a.ScalarMul(c.el(k)) }
	ad.flat = func(a S) string { return fmt.Sprint(a.ID(), ":", conv.ToBig(a.Value()).Text(16)) }
	ad.witness = func(x *engine.X, d *dealing[S], mask uint64, sPrime *big.Int) (*dealing[S], string) {
		co := d.state.(polyState).coeffs
		var rows [][]*big.Int
		for _, party := range policy.Members(mask) {
			rows = append(rows, derivRow(c.q, nodes[party], 0, t))
		}
		dv, ok := solveWitness(c.q, linalg.FromRows(c.q, rows), t, c.sub(sPrime, co[0]))
		if !ok {
			x.Failf("privacy/no-witness/shamir", "%s: the Vandermonde rows of the unqualified set %v span e0", key, catalog.Subset(ids, mask))
			return nil, ""
		}
		co2 := make([]*big.Int, t)
		for i := range co2 {
			co2[i] = c.add(co[i], dv[i])
		}
		if co2[t-1].Sign() != 0 {
			alt, ok := dealWith(x, sPrime, co2[1:], "W", "Deal(witness)")
			if !ok {
				return nil, ""
			}
			return alt, ""
		}
		// the only polynomial consistent with (view, s') has a vanishing leading coefficient, which the sampler
		// excludes by design (statistical distance 1/q): witness it through the dealer-function type instead
		ring, err := polynomials.NewPolynomialRing(c.field)
		if err != nil {
			panic(engine.HarnessError{Msg: err.Error()})
		}
		poly, err := ring.New(c.els(co2)...)
		if err != nil {
			panic(engine.HarnessError{Msg: err.Error()})
		}
		alt := collect(func(id sharing.ID) (S, bool) {
			sh, err := shamir.NewShare(id, poly.Eval(s.SharingIDToLagrangeNode(id)), ac)
			return sh, err == nil
		}, sPrime, co2)
		if !verify(x, alt, co2, "polynomial dealer function") {
			return nil, ""
		}
		x.Observe("degree-deficient witness")
		return alt, ""
	}
	return ad, true
}

func tassaAdapter[F algebra.PrimeFieldElement[F]](x *engine.X, c fctx[F], pc pcase) (*adapter[*tassa.Share[F]], bool) {
	type S = *tassa.Share[F]
	p, ids, key := pc.e.P, pc.a.IDs, c.name+"/"+pc.key()
	ac, err := catalog.BuildHierarchical(p, ids)
	if err != nil {
		x.Failf("policy/constructor", "%s: constructor refused a catalogue policy%s", key, errLine(err))
		return nil, false
	}
	s, err := tassa.NewScheme(ac, c.field)
	mustAccept, mustRefuse := hierExpect(p, ids, c.q)
	if err != nil {
		if mustAccept {
			x.Failf("tassa/refused", "%s: tassa.NewScheme refused a hierarchical policy that satisfies the identifier-order and field-size conditions%s", key, errLine(err))
		} else {
			x.Observe(key, "refused-as-documented")
			x.Trivial()
		}
		return nil, false
	}
	if mustRefuse {
		x.Failf(fieldSizeKey(ids), "%s: tassa.NewScheme accepted a hierarchical policy that violates Tassa's condition (largest identifier %d, largest threshold %d)", key, slices.Max(ids), p.MaxThreshold())
		return nil, false
	}
	k := p.MaxThreshold()
	nodes := make([]*big.Int, len(ids))
	rank := make([]int, len(ids))
	prev := 0
	for _, l := range p.Levels {
		for _, party := range l.Parties {
			nodes[party] = idNode(c.q, ids[party])
			rank[party] = prev
		}
		prev = l.T
	}
	collect := func(get func(sharing.ID) (S, bool), secret *big.Int, co []*big.Int) *dealing[S] {
		d := &dealing[S]{secret: secret, shares: make([]S, len(ids)), has: make([]bool, len(ids)), state: polyState{co}}
		for i, id := range ids {
			d.shares[i], d.has[i] = get(id)
		}
		return d
	}
	verify := func(x *engine.X, d *dealing[S], co []*big.Int, what string) bool {
		if co[0].Cmp(d.secret) != 0 {
			x.Failf("tassa/deal-secret-slot", "%s: %s: the dealing polynomial's constant term is not the secret", key, what)
			return false
		}
		for i := range ids {
			if !d.has[i] || d.shares[i].ID() != ids[i] || conv.ToBig(d.shares[i].Value()).Cmp(linalg.EvalPolyDeriv(c.q, co, rank[i], nodes[i])) != 0 {
				x.Failf("tassa/deal-share-value", "%s: %s: share of %d is not the derivative of order %d of f at its identifier (recomputed with math/big)", key, what, ids[i], rank[i])
				return false
			}
		}
		return true
	}
	ad := &adapter[S]{scheme: "tassa", freeRand: k - 1, nonzeroLast: true, refusesUnqualifiedAdditive: true, missingShareKey: "tassa/party-without-share"}
	dealWith := func(x *engine.X, secret *big.Int, rnd []*big.Int, label, what string) (*dealing[S], bool) {
		do, poly, err := s.DealAndRevealDealerFunc(tassa.NewSecret(c.el(secret)), c.reader(label, rnd...))
		if err != nil {
			x.Failf("tassa/deal-refused", "%s: Deal refused an accepted policy%s", key, errLine(err))
			return nil, false
		}
		co := coeffsOf(poly, k)
		if len(co) != k || !eqBigs(co[1:], rnd) {
			x.Failf("tassa/deal-randomness-layout", "%s: the dealing polynomial is not (secret, sampled coefficients in order) of degree k-1", key)
			return nil, false
		}
		d := collect(do.Shares().Get, secret, co)
		return d, verify(x, d, co, what)
	}
	ad.deal = func(x *engine.X, secret *big.Int, rnd []*big.Int, label string) (*dealing[S], bool) {
		return dealWith(x, secret, rnd, label, "Deal")
	}
	ad.dealRandom = func(x *engine.X, label string) (*dealing[S], bool) {
		do, sec, err := s.DealRandom(c.reader(label))
		if err != nil {
			x.Failf("tassa/deal-refused", "%s: DealRandom refused an accepted policy%s", key, errLine(err))
			return nil, false
		}
		return collect(do.Shares().Get, conv.ToBig(sec.Value()), nil), true
	}
	ad.reconstruct = func(sh []S) (*big.Int, error) {
		r, err := s.Reconstruct(sh...)
		if err != nil {
			return nil, err
		}
		return conv.ToBig(r.Value()), nil
	}
	ad.can = func(ids []sharing.ID) bool { return s.CanReconstruct(ids...) }
	ad.toAdditive = func(sh S, q *unanimity.Unanimity) (sharing.ID, *big.Int, error) {
		a, err := s.ConvertShareToAdditive(sh, q)
		if err != nil {
			return 0, nil, err
		}
		return a.ID(), conv.ToBig(a.Value()), nil
	}
	ad.add = func(a, b S) S { return a.Op(b) }
	ad.scale = func(a S, k *big.Int) S { return a.ScalarOp(c.el(k)) }
	ad.flat = func(a S) string { return fmt.Sprint(a.ID(), ":", conv.ToBig(a.Value()).Text(16)) }
	ad.witness = func(x *engine.X, d *dealing[S], mask uint64, sPrime *big.Int) (*dealing[S], string) {
		co := d.state.(polyState).coeffs
		var rows [][]*big.Int
		for _, party := range policy.Members(mask) {
			rows = append(rows, derivRow(c.q, nodes[party], rank[party], k))
		}
		dv, ok := solveWitness(c.q, linalg.FromRows(c.q, rows), k, c.sub(sPrime, co[0]))
		if !ok {
			x.Failf("privacy/no-witness/tassa", "%s: the Birkhoff rows of the unqualified set %v span e0", key, catalog.Subset(ids, mask))
			return nil, ""
		}
		co2 := make([]*big.Int, k)
		for i := range co2 {
			co2[i] = c.add(co[i], dv[i])
		}
		if co2[k-1].Sign() == 0 {
			return nil, "degree-deficient witness (excluded by the sampler by design; tassa shares cannot be built outside Deal)"
		}
		alt, ok := dealWith(x, sPrime, co2[1:], "W", "Deal(witness)")
		if !ok {
			return nil, ""
		}
		return alt, ""
	}
	return ad, true
}

// ---------------------------------------------------------------------------------------------
// ISN (any family through its maximal unqualified sets) and additive (unanimity)

type isnState[F algebra.PrimeFieldElement[F]] struct {
	df     isn.DealerFunc[F]
	pieces map[uint64]*big.Int // by maximal-unqualified-set mask
}

func isnAdapter[F algebra.PrimeFieldElement[F]](x *engine.X, c fctx[F], pc pcase) (*adapter[*isn.Share[F]], bool) {
	type S = *isn.Share[F]
	p, ids, key := pc.e.P, pc.a.IDs, c.name+"/"+pc.key()
	ac, err := catalog.Build(p, ids)
	if err != nil {
		x.Failf("policy/constructor", "%s: constructor refused a catalogue policy%s", key, errLine(err))
		return nil, false
	}
	var s *isn.Scheme[F]
	s, err = isn.NewFiniteScheme(c.field, ac)
	mus := p.MaximalUnqualified()
	if p.AllSingletonsQualified() {
		// every single party is qualified: there is no non-empty unqualified set, nothing to build the scheme from
		x.Case("isn/" + key + "/all-singletons")
		if err == nil {
			if _, err = s.Deal(isn.NewSecret(c.el(big.NewInt(7))), c.reader("onecol")); err == nil {
				x.Failf("refusal/isn-all-singletons", "isn/%s: dealing under a policy in which every single shareholder is qualified was not refused", key)
			}
		}
		return nil, false
	}
	if err != nil {
		if !noSingletonQualified(p) {
			// the CNF form lives on the union of the maximal unqualified sets; with a shareholder that is qualified
			// alone that union can have fewer than two members and the constructor refuses
			x.Observe(key, "refused: CNF universe too small")
			x.Trivial()
			return nil, false
		}
		x.Failf("scheme/constructor", "%s: isn.NewFiniteScheme failed%s", key, errLine(err))
		return nil, false
	}
	keyOf := map[uint64]bitset.ImmutableBitSet[sharing.ID]{}
	maskOf := map[bitset.ImmutableBitSet[sharing.ID]]uint64{}
	for _, u := range mus {
		k := bitset.NewImmutableBitSet(catalog.Subset(ids, u)...)
		keyOf[u], maskOf[k] = k, u
	}
	flat := func(a S) string {
		type kv struct {
			k uint64
			v string
		}
		var es []kv
		for k, v := range a.Value().Iter() {
			es = append(es, kv{uint64(k), conv.ToBig(v).Text(16)})
		}
		sort.Slice(es, func(i, j int) bool { return es[i].k < es[j].k })
		parts := []string{fmt.Sprint(a.ID())}
		for _, e := range es {
			parts = append(parts, fmt.Sprintf("%x=%s", e.k, e.v))
		}
		return strings.Join(parts, ";")
	}
	collect := func(get func(sharing.ID) (S, bool), secret *big.Int, st isnState[F]) *dealing[S] {
		d := &dealing[S]{secret: secret, shares: make([]S, len(ids)), has: make([]bool, len(ids)), state: st}
		for i, id := range ids {
			d.shares[i], d.has[i] = get(id)
			if d.has[i] && d.shares[i] == nil {
				d.has[i] = false
			}
		}
		return d
	}
	verify := func(x *engine.X, d *dealing[S], st isnState[F], what string) bool {
		sum := new(big.Int)
		for _, v := range st.pieces {
			sum = c.add(sum, v)
		}
		if sum.Cmp(d.secret) != 0 {
			x.Failf("isn/deal-pieces-sum", "%s: %s: the pieces of the dealer function do not sum to the secret", key, what)
			return false
		}
		for i := range ids {
			if !d.has[i] {
				continue // reported where a qualified set needs the share
			}
			want := map[uint64]*big.Int{}
			for _, u := range mus {
				if u>>uint(i)&1 == 0 {
					want[u] = st.pieces[u]
				}
			}
			got := d.shares[i].Value()
			okShare := d.shares[i].ID() == ids[i] && got.Size() == len(want)
			for u, v := range want {
				g, has := got.Get(keyOf[u])
				okShare = okShare && has && conv.ToBig(g).Cmp(v) == 0
			}
			if !okShare {
				x.Failf("isn/deal-share-value", "%s: %s: share of %d is not {piece of T : T maximal unqualified, %d not in T}", key, what, ids[i], ids[i])
				return false
			}
		}
		return true
	}
	readState := func(x *engine.X, df isn.DealerFunc[F]) (isnState[F], bool) {
		st := isnState[F]{df: df, pieces: map[uint64]*big.Int{}}
		for k, v := range df {
			u, known := maskOf[k]
			if !known {
				x.Failf("isn/dealerfunc-keys", "%s: the dealer function has a piece for %v, which is not a maximal unqualified set", key, k.List())
				return st, false
			}
			st.pieces[u] = conv.ToBig(v)
		}
		if len(st.pieces) != len(mus) {
			x.Failf("isn/dealerfunc-keys", "%s: the dealer function has %d pieces for %d maximal unqualified sets", key, len(st.pieces), len(mus))
			return st, false
		}
		return st, true
	}
	ad := &adapter[S]{scheme: "isn", freeRand: len(mus) - 1, missingShareKey: "isn/party-without-share/" + p.Kind.String(), flat: flat}
	ad.deal = func(x *engine.X, secret *big.Int, rnd []*big.Int, label string) (*dealing[S], bool) {
		do, df, err := s.DealAndRevealDealerFunc(isn.NewSecret(c.el(secret)), c.reader(label, rnd...))
		if err != nil {
			x.Failf("isn/deal-refused", "%s: Deal refused%s", key, errLine(err))
			return nil, false
		}
		st, ok := readState(x, df)
		if !ok {
			return nil, false
		}
		d := collect(do.Shares().Get, secret, st)
		return d, verify(x, d, st, "Deal")
	}
	ad.dealRandom = func(x *engine.X, label string) (*dealing[S], bool) {
		do, sec, err := s.DealRandom(c.reader(label))
		if err != nil {
			x.Failf("isn/deal-refused", "%s: DealRandom refused%s", key, errLine(err))
			return nil, false
		}
		return collect(do.Shares().Get, conv.ToBig(sec.Value()), isnState[F]{}), true
	}
	ad.reconstruct = func(sh []S) (*big.Int, error) {
		r, err := s.Reconstruct(sh...)
		if err != nil {
			return nil, err
		}
		return conv.ToBig(r.Value()), nil
	}
	ad.can = func(ids []sharing.ID) bool { return s.CanReconstruct(ids...) }
	ad.toAdditive = func(sh S, q *unanimity.Unanimity) (sharing.ID, *big.Int, error) {
		a, err := s.ConvertShareToAdditive(sh, q)
		if err != nil {
			return 0, nil, err
		}
		return a.ID(), conv.ToBig(a.Value()), nil
	}
	ad.add = func(a, b S) S { return a.Op(b) }
	ad.scale = func(a S, k *big.Int) S { return a.ScalarOp(c.el(k)) }
	ad.witness = func(x *engine.X, d *dealing[S], mask uint64, sPrime *big.Int) (*dealing[S], string) {
		st := d.state.(isnState[F])
		// the missing summand: a maximal unqualified set T that contains the whole set; nobody in it holds T's piece
		var T uint64
		found := false
		for _, u := range mus {
			if mask&^u == 0 {
				T, found = u, true
				break
			}
		}
		if !found {
			panic(engine.HarnessError{Msg: "reference: unqualified set inside no maximal unqualified set"})
		}
		df2 := maps.Clone(st.df)
		st2 := isnState[F]{df: df2, pieces: maps.Clone(st.pieces)}
		st2.pieces[T] = c.add(st.pieces[T], c.sub(sPrime, d.secret))
		df2[keyOf[T]] = c.el(st2.pieces[T])
		alt := collect(func(id sharing.ID) (S, bool) {
			if !d.has[slices.Index(ids, id)] {
				return nil, false
			}
			return df2.ShareOf(id), true
		}, sPrime, st2)
		if !verify(x, alt, st2, "DealerFunc.ShareOf") {
			return nil, ""
		}
		return alt, ""
	}
	return ad, true
}

func additiveAdapter[F algebra.PrimeFieldElement[F]](x *engine.X, c fctx[F], pc pcase) (*adapter[*additive.Share[F]], bool) {
	type S = *additive.Share[F]
	p, ids, key := pc.e.P, pc.a.IDs, c.name+"/"+pc.key()
	ac, err := catalog.BuildUnanimity(p, ids)
	if err != nil {
		x.Failf("policy/constructor", "%s: constructor refused a catalogue policy%s", key, errLine(err))
		return nil, false
	}
	s, err := additive.NewScheme(c.field, ac)
	if err != nil {
		x.Failf("scheme/constructor", "%s: additive.NewScheme failed%s", key, errLine(err))
		return nil, false
	}
	collect := func(get func(sharing.ID) (S, bool), secret *big.Int) *dealing[S] {
		d := &dealing[S]{secret: secret, shares: make([]S, len(ids)), has: make([]bool, len(ids))}
		for i, id := range ids {
			d.shares[i], d.has[i] = get(id)
		}
		return d
	}
	verify := func(x *engine.X, d *dealing[S], what string) bool {
		sum := new(big.Int)
		for i := range ids {
			if !d.has[i] || d.shares[i].ID() != ids[i] {
				x.Failf("additive/deal-share-value", "%s: %s: shareholder %d has no share of its own", key, what, ids[i])
				return false
			}
			sum = c.add(sum, conv.ToBig(d.shares[i].Value()))
		}
		if sum.Cmp(d.secret) != 0 {
			x.Failf("additive/deal-share-value", "%s: %s: the shares do not sum to the secret", key, what)
			return false
		}
		return true
	}
	ad := &adapter[S]{scheme: "additive", freeRand: p.N - 1, missingShareKey: "additive/party-without-share"}
	ad.deal = func(x *engine.X, secret *big.Int, rnd []*big.Int, label string) (*dealing[S], bool) {
		sec, err := additive.NewSecret(c.el(secret))
		if err != nil {
			panic(engine.HarnessError{Msg: err.Error()})
		}
		do, err := s.Deal(sec, c.reader(label, rnd...))
		if err != nil {
			x.Failf("additive/deal-refused", "%s: Deal refused%s", key, errLine(err))
			return nil, false
		}
		d := collect(do.Shares().Get, secret)
		// n-1 of the shares are the sampled values
		var vals []*big.Int
		for i := range ids {
			if d.has[i] {
				vals = append(vals, conv.ToBig(d.shares[i].Value()))
			}
		}
		for _, r := range rnd {
			j := slices.IndexFunc(vals, func(v *big.Int) bool { return v.Cmp(r) == 0 })
			if j < 0 {
				x.Failf("additive/deal-randomness-layout", "%s: a sampled value is not among the shares", key)
				return nil, false
			}
			vals = slices.Delete(vals, j, j+1)
		}
		return d, verify(x, d, "Deal")
	}
	ad.dealRandom = func(x *engine.X, label string) (*dealing[S], bool) {
		do, sec, err := s.DealRandom(c.reader(label))
		if err != nil {
			x.Failf("additive/deal-refused", "%s: DealRandom refused%s", key, errLine(err))
			return nil, false
		}
		return collect(do.Shares().Get, conv.ToBig(sec.Value())), true
	}
	ad.reconstruct = func(sh []S) (*big.Int, error) {
		r, err := s.Reconstruct(sh...)
		if err != nil {
			return nil, err
		}
		return conv.ToBig(r.Value()), nil
	}
	ad.add = func(a, b S) S { return a.Add(b) }
	ad.scale = func(a S, k *big.Int) S { return a.ScalarOp(c.el(k)) }
	ad.flat = func(a S) string { return fmt.Sprint(a.ID(), ":", conv.ToBig(a.Value()).Text(16)) }
	ad.witness = func(x *engine.X, d *dealing[S], mask uint64, sPrime *big.Int) (*dealing[S], string) {
		// the missing summand: shift the share of a shareholder outside the set
		j := -1
		for i := 0; i < p.N; i++ {
			if mask>>uint(i)&1 == 0 {
				j = i
				break
			}
		}
		alt := collect(func(id sharing.ID) (S, bool) {
			i := slices.Index(ids, id)
			if i != j {
				return d.shares[i], true
			}
			sh, err := additive.NewShare(id, c.el(c.add(conv.ToBig(d.shares[i].Value()), c.sub(sPrime, d.secret))), ac)
			return sh, err == nil
		}, sPrime)
		if !verify(x, alt, "shifted share") {
			return nil, ""
		}
		return alt, ""
	}
	return ad, true
}

// ---------------------------------------------------------------------------------------------

// huge: policies whose 2^n x linear-algebra cost forbids the secret x randomness cross product and the extra
// identifier assignments in the dealing sections (they are still crossed with everything in "policy" and "msp").
func huge(e catalog.Entry) bool {
	return (e.P.Kind == policy.CNF && e.P.N >= 6) || (e.P.Kind == policy.BoolExpr && e.P.Tree.Leaves() >= 5)
}

// noCross: entries dealt with one secret (mid) and one randomness (seeded) only. thorough: the huge ones; quick:
// additionally the n=5 CNF and hierarchical policies (their full secret x randomness cross is in thorough).
func noCross(e catalog.Entry) bool {
	if huge(e) {
		return true
	}
	return !engine.Thorough() && e.P.N >= 5 && (e.P.Kind == policy.CNF || e.P.Kind == policy.Hierarchical)
}

func dealSections(std []catalog.Entry, kc fctx[*k256.Scalar], ec fctx[*edwardsScalar], bc fctx[*blsScalar]) {
	type filter = func(catalog.Entry, catalog.IDAssignment) bool
	ord := func(a catalog.IDAssignment) bool { return a.Name == "ord" }
	and := func(fs ...filter) filter {
		return func(e catalog.Entry, a catalog.IDAssignment) bool {
			for _, f := range fs {
				if !f(e, a) {
					return false
				}
			}
			return true
		}
	}
	hugeOrdOnly := func(e catalog.Entry, a catalog.IDAssignment) bool { return !huge(e) || ord(a) }
	ordOnly := func(e catalog.Entry, a catalog.IDAssignment) bool { return ord(a) }
	noHuge := func(e catalog.Entry, a catalog.IDAssignment) bool { return !huge(e) }
	max64 := func(e catalog.Entry, a catalog.IDAssignment) bool { return a.Max64 }
	accepted := func(e catalog.Entry, a catalog.IDAssignment) bool { return e.Refusal == catalog.None }
	// boolexpr span programmes do not depend on the identifiers: the group-operation heavy VSS sections visit them
	// on the ord assignment only, and (quick) on trees with <= 3 leaves
	vssFilter := func(e catalog.Entry, a catalog.IDAssignment) bool {
		if huge(e) {
			return false
		}
		if e.P.Kind == policy.CNF && e.P.N >= 5 {
			// thorough lists every labelled n=5 CNF; the VSS sections take one per relabelling orbit
			return policy.Canonical(e.P.TruthBits(), e.P.N) == e.P.TruthBits()
		}
		if e.P.Kind != policy.BoolExpr {
			return true
		}
		return ord(a) && (engine.Thorough() || e.P.Tree.Leaves() <= 3)
	}
	if !engine.Thorough() {
		base := vssFilter
		vssFilter = func(e catalog.Entry, a catalog.IDAssignment) bool {
			// quick: the n=5 CNF / hierarchical policies are left to the KW sections (same span programmes)
			return base(e, a) && !(e.P.N >= 5 && (e.P.Kind == policy.CNF || e.P.Kind == policy.Hierarchical))
		}
	}
	B := func(q, t time.Duration) time.Duration { return engine.Budget(q, t) }
	// every section gets its own totals; the options are copied per section
	var pending *dealStats
	withStats := func(o dealOpts) dealOpts { pending = &dealStats{}; o.stats = pending; return o }
	explore := func(body func(*engine.X), o engine.Opts) { st := pending; sec := engine.Explore(body, o); st.note(sec) }
	full := dealOpts{fullCross: true, linear: true, noCross: noCross}
	allSecrets := dealOpts{secrets: []int{0, 1, 2, 3}, linear: true, noCross: noCross}
	twoSecrets := dealOpts{secrets: []int{0, 3}, linear: true, noCross: noCross}
	midOnly := dealOpts{linear: true}
	tassaExtra := dealOpts{secrets: []int{0, 3}, linear: true}
	if engine.Thorough() {
		tassaExtra = full
	}
	extraField := twoSecrets
	if engine.Thorough() {
		extraField = allSecrets
	}

	// KW over the whole catalogue
	kwAll := buildCases(std, hugeOrdOnly)
	explore(dealBody(kc, "kw", kwAll, func(x *engine.X, pc pcase) (*adapter[*kw.Share[*k256.Scalar]], bool) {
		return kwAdapter(x, kc, pc, plainKW[*k256.Scalar])
	}, withStats(full)), engine.Opts{Name: "deal/kw/k256", Budget: B(4*time.Minute, 40*time.Minute)})
	kwOrd := buildCases(std, and(ordOnly, noHuge))
	explore(dealBody(ec, "kw", kwOrd, func(x *engine.X, pc pcase) (*adapter[*kw.Share[*edwardsScalar]], bool) {
		return kwAdapter(x, ec, pc, plainKW[*edwardsScalar])
	}, withStats(extraField)), engine.Opts{Name: "deal/kw/ed25519", Budget: B(3*time.Minute, 20*time.Minute)})
	explore(dealBody(bc, "kw", kwOrd, func(x *engine.X, pc pcase) (*adapter[*kw.Share[*blsScalar]], bool) {
		return kwAdapter(x, bc, pc, plainKW[*blsScalar])
	}, withStats(extraField)), engine.Opts{Name: "deal/kw/bls12381", Budget: B(3*time.Minute, 20*time.Minute)})

	// Feldman / Pedersen (k256 group)
	vssCases := buildCases(std, vssFilter)
	explore(dealBody(kc, "feldman", vssCases, func(x *engine.X, pc pcase) (*adapter[*kw.Share[*k256.Scalar]], bool) {
		return kwAdapter(x, kc, pc, feldmanK256)
	}, withStats(twoSecrets)), engine.Opts{Name: "deal/feldman/k256", Budget: B(4*time.Minute, 30*time.Minute)})
	pedOpts := midOnly
	if engine.Thorough() {
		pedOpts = twoSecrets
	}
	explore(dealBody(kc, "pedersen", vssCases, func(x *engine.X, pc pcase) (*adapter[*pedersen.Share[*k256.Scalar]], bool) {
		return pedersenAdapter(x, kc, pc)
	}, withStats(pedOpts)), engine.Opts{Name: "deal/pedersen/k256", Budget: B(4*time.Minute, 30*time.Minute)})

	// Shamir: threshold policies, all assignments, all fields, full cross
	thr := buildCases(kinds(std, policy.Threshold), nil)
	explore(dealBody(kc, "shamir", thr, func(x *engine.X, pc pcase) (*adapter[*shamir.Share[*k256.Scalar]], bool) {
		return shamirAdapter(x, kc, pc)
	}, withStats(full)), engine.Opts{Name: "deal/shamir/k256", Budget: B(2*time.Minute, 10*time.Minute)})
	explore(dealBody(ec, "shamir", thr, func(x *engine.X, pc pcase) (*adapter[*shamir.Share[*edwardsScalar]], bool) {
		return shamirAdapter(x, ec, pc)
	}, withStats(full)), engine.Opts{Name: "deal/shamir/ed25519", Budget: B(2*time.Minute, 10*time.Minute)})
	explore(dealBody(bc, "shamir", thr, func(x *engine.X, pc pcase) (*adapter[*shamir.Share[*blsScalar]], bool) {
		return shamirAdapter(x, bc, pc)
	}, withStats(full)), engine.Opts{Name: "deal/shamir/bls12381", Budget: B(2*time.Minute, 10*time.Minute)})

	// additive: unanimity
	una := buildCases(kinds(std, policy.Unanimity), nil)
	explore(dealBody(kc, "additive", una, func(x *engine.X, pc pcase) (*adapter[*additive.Share[*k256.Scalar]], bool) {
		return additiveAdapter(x, kc, pc)
	}, withStats(full)), engine.Opts{Name: "deal/additive/k256", Budget: B(time.Minute, 5*time.Minute)})
	explore(dealBody(ec, "additive", una, func(x *engine.X, pc pcase) (*adapter[*additive.Share[*edwardsScalar]], bool) {
		return additiveAdapter(x, ec, pc)
	}, withStats(full)), engine.Opts{Name: "deal/additive/ed25519", Budget: B(time.Minute, 5*time.Minute)})
	explore(dealBody(bc, "additive", una, func(x *engine.X, pc pcase) (*adapter[*additive.Share[*blsScalar]], bool) {
		return additiveAdapter(x, bc, pc)
	}, withStats(full)), engine.Opts{Name: "deal/additive/bls12381", Budget: B(time.Minute, 5*time.Minute)})

	// Tassa: hierarchical (the single-level threshold-1 layout is outside: Tassa deals it but its Reconstruct insists
	// on two shares while every single party is qualified)
	hier := buildCases(kinds(std, policy.Hierarchical), accepted)
	explore(dealBody(kc, "tassa", hier, func(x *engine.X, pc pcase) (*adapter[*tassa.Share[*k256.Scalar]], bool) {
		return tassaAdapter(x, kc, pc)
	}, withStats(full)), engine.Opts{Name: "deal/tassa/k256", Budget: B(2*time.Minute, 15*time.Minute)})
	explore(dealBody(ec, "tassa", hier, func(x *engine.X, pc pcase) (*adapter[*tassa.Share[*edwardsScalar]], bool) {
		return tassaAdapter(x, ec, pc)
	}, withStats(tassaExtra)), engine.Opts{Name: "deal/tassa/ed25519", Budget: B(2*time.Minute, 15*time.Minute)})
	explore(dealBody(bc, "tassa", hier, func(x *engine.X, pc pcase) (*adapter[*tassa.Share[*blsScalar]], bool) {
		return tassaAdapter(x, bc, pc)
	}, withStats(tassaExtra)), engine.Opts{Name: "deal/tassa/bls12381", Budget: B(2*time.Minute, 15*time.Minute)})

	// ISN: every family through its maximal unqualified sets, identifiers <= 64 (bit-set domain)
	isnAll := buildCases(std, and(max64, hugeOrdOnly))
	explore(dealBody(kc, "isn", isnAll, func(x *engine.X, pc pcase) (*adapter[*isn.Share[*k256.Scalar]], bool) {
		return isnAdapter(x, kc, pc)
	}, withStats(full)), engine.Opts{Name: "deal/isn/k256", Budget: B(3*time.Minute, 30*time.Minute)})
	isnOrd := buildCases(std, and(ordOnly, noHuge))
	explore(dealBody(ec, "isn", isnOrd, func(x *engine.X, pc pcase) (*adapter[*isn.Share[*edwardsScalar]], bool) {
		return isnAdapter(x, ec, pc)
	}, withStats(twoSecrets)), engine.Opts{Name: "deal/isn/ed25519", Budget: B(2*time.Minute, 15*time.Minute)})
	explore(dealBody(bc, "isn", isnOrd, func(x *engine.X, pc pcase) (*adapter[*isn.Share[*blsScalar]], bool) {
		return isnAdapter(x, bc, pc)
	}, withStats(twoSecrets)), engine.Opts{Name: "deal/isn/bls12381", Budget: B(2*time.Minute, 15*time.Minute)})
}
