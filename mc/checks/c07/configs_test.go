package c07

import (
	"github.com/bronlabs/bron-crypto/pkg/mpc/sharing/accessstructures"
	"github.com/bronlabs/bron-crypto/pkg/mpc/sharing/accessstructures/unanimity"
	"github.com/bronlabs/bron-crypto/pkg/proofs/sigma/compiler/fischlin"
	"github.com/bronlabs/bron-crypto/pkg/proofs/sigma/compiler/randfischlin"

	"verifmc/proto"
)

func unanimous(ids ...ID) accessstructures.Monotone {
	ac, err := unanimity.NewUnanimityAccessStructure(proto.Set(ids...))
	if err != nil {
		panic(err)
	}
	return ac
}

func quickCases() []*kase {
	i2 := []ID{1, 2}
	i3 := []ID{1, 2, 3}
	t22 := proto.Threshold(2, i2...)
	t23 := proto.Threshold(2, i3...)
	t33 := proto.Threshold(3, i3...)
	return []*kase{
		sessionCase(i2), sessionCase(i3),
		aorCase(i2), aorCase(i3),
		gennaroCase("T22", t22, i2), gennaroCase("T23", t23, i3), gennaroCase("T33", t33, i3),
		canettiCase("T22", t22, i2), canettiCase("T23", t23, i3), canettiCase("T33", t33, i3),
		redistributeCase("refresh-T23", t23, i3, t23),
		redistributeCase("T23-q12-to-T23", t23, i2, t23),
		redistributeCase("T23-to-T2of234", t23, i3, proto.Threshold(2, 2, 3, 4)),
		lindell22Case("T22-q12", t22, i2, []byte("m")),
		lindell22Case("T23-q12", t23, i2, []byte("m")),
		lindell22Case("T23-q13", t23, []ID{1, 3}, []byte("m")),
		lindell22Case("T23-q23", t23, []ID{2, 3}, []byte("m")),
		lindell22Case("T23-q123", t23, i3, []byte("m")),
		hjkyCase("T22", t22, i2), hjkyCase("T23", t23, i3), hjkyCase("T33", t33, i3), hjkyCase("U3", unanimous(i3...), i3),
		// one OT-based signing protocol in the quick tier (hundreds of draws per party; failing-source probes at the
		// round boundaries): DKLs23 with the OT-extension multiplier
		dkls23MultCase("softspoken", "T22-q12", t22, i2, []byte("m")),
	}
}

func thoroughCases() []*kase {
	i2 := []ID{1, 2}
	i3 := []ID{1, 2, 3}
	i4 := []ID{1, 2, 3, 4}
	sparse := []ID{3, 7, 64}
	t22 := proto.Threshold(2, i2...)
	t23 := proto.Threshold(2, i3...)
	t24 := proto.Threshold(2, i4...)
	t34 := proto.Threshold(3, i4...)
	t44 := proto.Threshold(4, i4...)
	ts := proto.Threshold(2, sparse...)
	kib := make([]byte, 1024)
	for i := range kib {
		kib[i] = byte(i * 7)
	}
	return []*kase{
		sessionCase(i4), sessionCase(sparse),
		aorCase(i4), aorCase(sparse),
		gennaroCase("T24", t24, i4), gennaroCase("T34", t34, i4), gennaroCase("T44", t44, i4), gennaroCase("T2of3-7-64", ts, sparse),
		canettiCase("T24", t24, i4), canettiCase("T34", t34, i4), canettiCase("T44", t44, i4), canettiCase("T2of3-7-64", ts, sparse),
		redistributeCase("refresh-T34", t34, i4, t34),
		redistributeCase("T34-q123-to-T23", t34, i3, t23),
		redistributeCase("T23-to-T34", t23, i3, t34),
		lindell22Case("T34-q123", t34, i3, []byte("m")),
		lindell22Case("T34-q1234", t34, i4, []byte("m")),
		lindell22Case("T24-q24", t24, []ID{2, 4}, []byte("m")),
		lindell22Case("T23-q12-empty", t23, i2, []byte{}),
		lindell22Case("T23-q123-1KiB", t23, i3, kib),
		lindell22Case("T2of3-7-64-q3-64", ts, []ID{3, 64}, []byte("m")),
		hjkyCase("T24", t24, i4), hjkyCase("T34", t34, i4), hjkyCase("U2", unanimous(i2...), i2), hjkyCase("U4", unanimous(i4...), i4),
		dkls23Case("T22-q12", t22, i2, []byte("m")),
		dkls23Case("T23-q13", t23, []ID{1, 3}, []byte("m")),
		dkls23MultCase("softspoken", "T23-q23", t23, []ID{2, 3}, []byte("m")),
		lindell17Case("T22-p1-s2", t22, 1, 2, fischlin.Name, []byte("m")),
		lindell17Case("T23-p3-s2", t23, 3, 2, randfischlin.Name, []byte("m")),
		ecbbotCase(16, 2), ecbbotCase(128, 1),
		vsotCase(16, 2), vsotCase(128, 1),
		softspokenCase(128, 1), softspokenCase(256, 2),
		rvoleBBOTCase(1), rvoleBBOTCase(2),
		rvoleSoftspokenCase(1), rvoleSoftspokenCase(2),
	}
}
