package c07

// Boldyreva'02 threshold BLS partial signing is deterministic BY CONSTRUCTION: its constructors take no io.Reader at
// all. It is run once only to RECORD that fact (identical partial signatures from two independent cosigner objects,
// and the only reader in scope - the one that dealt the key - is not touched by signing). No oracle is attached.

import (
	"bytes"
	"fmt"

	"github.com/bronlabs/bron-crypto/pkg/base/curves/pairable/bls12381"
	"github.com/bronlabs/bron-crypto/pkg/base/serde"
	"github.com/bronlabs/bron-crypto/pkg/mpc/dkg/trusteddealer"
	"github.com/bronlabs/bron-crypto/pkg/mpc/signatures/bls/boldyreva02/keygen"
	"github.com/bronlabs/bron-crypto/pkg/mpc/signatures/bls/boldyreva02/signing"
	"github.com/bronlabs/bron-crypto/pkg/signatures/bls"

	"verifmc/engine"
	"verifmc/proto"
)

func boldyrevaRecord(x *engine.X) {
	ids := []ID{1, 2, 3}
	quorum := []ID{1, 2}
	ac := proto.Threshold(2, ids...)
	dealer := newTap(engine.Seed(), spec{label: "c07/boldyreva/dealer"})
	dealt, err := trusteddealer.Deal(bls12381.NewG1(), ac, dealer)
	if err != nil {
		panic(engine.HarnessError{Msg: "boldyreva dealing: " + err.Error()})
	}
	after := dealer.Bytes
	family := &bls12381.FamilyTrait{}
	var enc [2][]byte
	for round := 0; round < 2; round++ {
		ctxs := proto.Contexts(quorum, engine.Seed(), "c07/boldyreva")
		for _, id := range quorum {
			base, _ := dealt.Get(id)
			shard, err := keygen.NewShortKeyShard[*bls12381.PointG1, *bls12381.BaseFieldElementG1, *bls12381.PointG2, *bls12381.BaseFieldElementG2, *bls12381.GtElement, *bls12381.Scalar](base)
			if err != nil {
				panic(engine.HarnessError{Msg: "boldyreva shard: " + err.Error()})
			}
			c, err := signing.NewShortKeyCosigner(ctxs[id], family, shard, bls.Basic)
			if err != nil {
				panic(engine.HarnessError{Msg: "boldyreva cosigner: " + err.Error()})
			}
			ps, err := c.ProducePartialSignature([]byte("m"))
			if err != nil {
				panic(engine.HarnessError{Msg: "boldyreva partial signature: " + err.Error()})
			}
			b, err := serde.MarshalCBOR(ps)
			if err != nil {
				panic(engine.HarnessError{Msg: "boldyreva encode: " + err.Error()})
			}
			enc[round] = append(enc[round], b...)
		}
	}
	x.Case("boldyreva/record")
	x.Observe(fmt.Sprintf("RECORD ONLY: constructors take no io.Reader; two independent signings give identical partial signatures: %v; bytes drawn from the dealer's reader during signing: %d", bytes.Equal(enc[0], enc[1]), dealer.Bytes-after))
	note(fmt.Sprintf("boldyreva/two-signings-identical:%v", bytes.Equal(enc[0], enc[1])), 1)
	note("boldyreva/reader-bytes-during-signing", int(dealer.Bytes-after))
}
