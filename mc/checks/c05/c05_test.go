// C05 — share verification accepts exactly the dealer's shares.
//
// Space: VSS in {Feldman, Pedersen} x access structure (catalogue, n <= 4, ideal and non-ideal span programmes) x
// identifier assignment x group (k256, BLS12-381 G1, edwards25519 prime subgroup) x dealing kind (1, 2 or 3
// combined dealings made by Scheme.DealAndRevealDealerFunc on fixed streams; two special dealer columns with zero
// and repeated entries made by kw.NewDealerFunc) x
//
//	(A) holder x share coordinate x {+1, -1, :=0, := any other coordinate's value of any holder, drop, append}
//	    x claimed identity (all holders + one non-holder), and, for combined dealings, the partial sums;
//	(B) every edit of the verification vector {entry j += G, -= G, (+= H), := identity, swap j<->k, drop last,
//	    drop first, append identity, append G} x holder, plus the share that matches the edited vector;
//	(C) ReconstructInTheExponent over every subset of holders, ReconstructAndVerify over the minimal qualified
//	    sets, mpc.NewBaseShard / NewBasePublicMaterial on the same inputs as Verify.
//
// Oracle: math/big. M and the row labelling are read out of the library, r out of the dealer function; the
// reference computes λ = M·r and, after a vector edit, λ' = M·r' for the edited exponents r'. A presented vector
// must verify under a claimed holder iff it equals λ' restricted to that holder's rows (Pedersen: iff the
// commitments agree, which is decided exactly because the harness knows log_G(H)).
//
// Tiers (the factorisation is forced by the cost of one Verify = R·D scalar multiplications, 5-40 ms purego):
//
//	quick     k256: whole n<=4 catalogue (179 structures, one rotating identifier assignment) x k=1, with NewBaseShard;
//	          k256: catalog.Small() x {k=2, k=3, special-A, special-B}; BLS12-381 G1: Small() x k=1;
//	          edwards25519: five n<=3 structures of Small() x k=1. Altered shares are presented under the owner's,
//	          the donor's and the length-matching identities.
//	thorough  k256: catalogue x all identifier assignments x k=1; catalogue x {k=2, k=3, special-A, special-B};
//	          boolexpr trees with <= 4 leaves x k=1 (identities as in quick); BLS12-381 G1: Small() x all assignments x all five kinds;
//	          edwards25519: Small() x {k=1, k=2, special-A}. Altered shares under every identity, extra vector
//	          edits (-G, drop first), matched shares for := identity and swap, NewBaseShard everywhere.
//
// C05_DRY=1 / C05_STRIDE=k are sizing and smoke-run aids; a run with either set exits 2 (never a verdict).
package c05

import (
	"fmt"
	"math/big"
	"os"
	"sort"
	"strconv"
	"sync"
	"sync/atomic"
	"testing"
	"time"

	"github.com/bronlabs/bron-crypto/pkg/base/algebra"
	"github.com/bronlabs/bron-crypto/pkg/base/curves/edwards25519"
	"github.com/bronlabs/bron-crypto/pkg/base/curves/k256"
	"github.com/bronlabs/bron-crypto/pkg/base/curves/pairable/bls12381"
	"github.com/bronlabs/bron-crypto/pkg/mpc/sharing/vss/feldman"

	"verifmc/catalog"
	"verifmc/engine"
	"verifmc/ref/conv"
)

func TestMain(m *testing.M) { engine.Main(m, "C05", "fault_enumeration") }

type config struct {
	e catalog.Entry
	a catalog.IDAssignment
}

// kind is how the dealing under test is produced.
type kind struct {
	name    string
	deals   int // number of Scheme.DealAndRevealDealerFunc dealings that are combined
	special int // >= 0: a special dealer column through kw.NewDealerFunc
}

var (
	k1  = kind{"k=1", 1, -1}
	k2  = kind{"k=2", 2, -1}
	k3  = kind{"k=3", 3, -1}
	spA = kind{"special-A", 0, 0}
	spB = kind{"special-B", 0, 1}
)

type opts struct {
	wideAll  bool // present every altered share under every identity (otherwise: owner, donor of a copied value, holders with a matching row count)
	extended bool // additional vector edits (-G, drop first) and matched shares for := identity and swap
	shard    bool // evaluate mpc.NewBaseShard next to every Feldman Verify
}

// totals over the whole run, printed at the end (vacuity: both verdicts must occur where the reference says so)
var tally struct {
	accept, reject, refused, unaffected, affected, structuresRefused atomic.Int64
}

// dryRun (C05_DRY=1) only counts the cases of the selected tier; it is a sizing aid and never part of a verdict.
var dryRun = os.Getenv("C05_DRY") != ""

var (
	classMu    sync.Mutex
	classTally = map[string]*[3]int64{} // class -> accepted, rejected, refused by the share constructor
)

func printTally() {
	fmt.Printf("[C05] verdicts: accepted=%d rejected=%d refused-by-constructor=%d; vector edits leaving a holder unaffected=%d affected=%d; structures refused=%d\n",
		tally.accept.Load(), tally.reject.Load(), tally.refused.Load(), tally.unaffected.Load(), tally.affected.Load(), tally.structuresRefused.Load())
	classMu.Lock()
	defer classMu.Unlock()
	keys := make([]string, 0, len(classTally))
	for k := range classTally {
		keys = append(keys, k)
	}
	sort.Strings(keys)
	for _, k := range keys {
		v := classTally[k]
		fmt.Printf("[C05]   %-42s accepted=%-7d rejected=%-7d refused=%d\n", k, v[0], v[1], v[2])
	}
}

func body[E algebra.PrimeGroupElement[E, S], S algebra.PrimeFieldElement[S]](g gctx[E, S], cfgs []config, kinds []kind, o opts) func(*engine.X) {
	return func(x *engine.X) {
		cfg := cfgs[x.Choose("config", len(cfgs))]
		vss := x.Choose("vss", 2)
		kd := kinds[x.Choose("dealing", len(kinds))]
		vname := [...]string{"feldman", "pedersen"}[vss]
		cfgKey := cfg.e.Name + "/" + cfg.a.Name
		key := fmt.Sprintf("%s/%s/%s/%s", g.name, vname, cfgKey, kd.name)

		ac, err := catalog.Build(cfg.e.P, cfg.a.IDs)
		if err != nil {
			// outside the documented domain of the family (e.g. hierarchical identifiers vs field size): C02's subject
			x.Trivial()
			x.Observe("structure refused")
			tally.structuresRefused.Add(1)
			return
		}
		var b *backend[E, S]
		if vss == 0 {
			b, err = feldmanBackend(g, ac, cfg.a.IDs, cfgKey)
		} else {
			b, err = pedersenBackend(g, ac, cfg.a.IDs, cfgKey)
		}
		if err != nil {
			x.Trivial()
			x.Observe("scheme refused")
			tally.structuresRefused.Add(1)
			return
		}
		m := b.m

		// the dealing under test
		var parts []*libDeal[E, S]
		if kd.special >= 0 {
			parts = append(parts, b.special(x, key, kd.special))
		} else {
			for d := 0; d < kd.deals; d++ {
				parts = append(parts, b.deal(x, fmt.Sprintf("%s/dealing%d", key, d), d))
			}
		}
		for _, p := range parts {
			if p == nil {
				return // already reported
			}
		}
		ld := b.combine(x, key, parts)
		if ld == nil {
			return
		}
		d := ld.ref
		n := len(m.ids)
		var acc, rej, ref, unaff, aff int
		local := map[string]*[3]int64{}
		count := func(class string, idx int) {
			v := local[class]
			if v == nil {
				v = new([3]int64)
				local[class] = v
			}
			v[idx]++
		}

		judge := func(class, what string, claim int, p pres, e []*big.Int, vv *feldman.VerificationVector[E, S]) {
			want := m.expect(e, claim, p)
			ckey := fmt.Sprintf("%s/%s/claim%d", key, what, claim)
			x.Case(ckey)
			if dryRun {
				return // sizing aid: count the cases of a tier without calling the library
			}
			got, refused := b.verify(x, ckey, claim, p, vv, o.shard)
			switch {
			case refused:
				ref++
				count(b.name+"/"+class, 2)
			case got:
				acc++
				count(b.name+"/"+class, 0)
			default:
				rej++
				count(b.name+"/"+class, 1)
			}
			if want && !got {
				how := "Verify returned an error"
				if refused {
					how = "the share constructor refused it"
				}
				x.Failf(b.name+"/"+class+"/false-reject", "%s: %s, but the presented vector sec=%v bl=%v under claimed party %d (id %d) IS what the committed sharing assigns (rows %v)", ckey, how, p.sec, p.bl, claim, m.idOf(claim), m.rows[min(max(claim, 0), n-1)])
			}
			if !want && got {
				x.Failf(b.name+"/"+class+"/false-accept", "%s: Verify accepted sec=%v bl=%v under claimed party %d (id %d), which is NOT what the committed sharing assigns", ckey, p.sec, p.bl, claim, m.idOf(claim))
			}
		}

		// (A) share faults under the dealt vector
		for i := 0; i < n; i++ {
			honest := d.honest(i)
			if len(m.rows[i]) > 0 {
				for c := -1; c < n; c++ {
					judge("share/honest", fmt.Sprintf("party%d/honest", i), c, honest, d.e, ld.vv)
				}
			}
			faults, claims := m.shareFaults(d, i)
			for fi, p := range faults {
				what := fmt.Sprintf("party%d/%s", i, p.desc)
				if o.wideAll {
					for c := -1; c < n; c++ {
						judge("share/"+p.class, what, c, p, d.e, ld.vv)
					}
					continue
				}
				judge("share/"+p.class, what, i, p, d.e, ld.vv)
				for _, c := range claims[fi] {
					if c != i {
						judge("share/"+p.class, what, c, p, d.e, ld.vv)
					}
				}
			}
			// combined dealings: a partial sum is not the share of the combination, and the share of the
			// combination does not verify against a single dealer's vector
			if len(parts) > 1 && len(m.rows[i]) > 0 {
				for k := 1; k < len(parts); k++ {
					refs := make([]*refDealing, k)
					for t := range refs {
						refs[t] = parts[t].ref
					}
					ps := m.sum(refs...).honest(i)
					ps.class = "partial-sum"
					judge("share/partial-sum", fmt.Sprintf("party%d/sum of first %d dealings", i, k), i, ps, d.e, ld.vv)
				}
				for k, part := range parts {
					judge("share/sum-vs-single-vector", fmt.Sprintf("party%d/combined share vs vector of dealing %d", i, k), i, honest, part.ref.e, part.vv)
				}
			}
		}

		// (B) edits of the verification vector
		elems := vvElems(ld.vv)
		for _, ed := range m.vvEdits(o.extended) {
			e2 := m.applyExp(d.e, ed)
			el2 := g.applyLib(elems, ed)
			val, err := g.mkValue(el2)
			if err != nil {
				panic(engine.HarnessError{Msg: "cannot build edited vector: " + err.Error()})
			}
			vv2, err := feldman.NewVerificationVector(val, nil)
			if err != nil {
				x.Failf("vv/constructor", "%s: NewVerificationVector(column, nil) refused a column vector of length %d: %s", key, len(el2), errLine(err))
				continue
			}
			if _, err := feldman.NewVerificationVector(val, b.msp); (err == nil) != !ed.length {
				x.Failf("vv/constructor-length", "%s: NewVerificationVector(column of length %d, msp with D=%d) err=%s", key, len(el2), m.M.C, errLine(err))
			}
			if ed.length && !dryRun {
				// vectors of different lengths cannot be combined (documented refusal), in either order
				_, err1 := ld.vv.Op(vv2)
				_, err2 := vv2.Op(ld.vv)
				x.Case(fmt.Sprintf("%s/vv %s/op", key, ed))
				if err1 == nil || err2 == nil {
					x.Failf("vv/op-length", "%s: VerificationVector.Op combined vectors of lengths %d and %d: err=%s / %s", key, len(elems), len(el2), errLine(err1), errLine(err2))
				}
			}
			for i := 0; i < n; i++ {
				if len(m.rows[i]) == 0 {
					continue
				}
				want := m.expect(e2, i, d.honest(i))
				if !ed.length && (ed.kind == "plusG" || ed.kind == "minusG" || ed.kind == "plusH") && want == m.colSupport(i, ed.j) {
					// the statement's formulation: fails for exactly the holders whose rows have a non-zero entry in column j
					panic(engine.HarnessError{Msg: "reference disagrees with the column-support formulation"})
				}
				if want {
					unaff++
				} else {
					aff++
				}
				judge("vv/"+ed.kind, fmt.Sprintf("vv %s/party%d", ed, i), i, d.honest(i), e2, vv2)
				if ed.kind == "plusG" || (o.extended && (ed.kind == "identity" || ed.kind == "swap")) {
					// the share that the edited vector commits to must be accepted
					lam := m.M.Apply(e2)
					p := pres{class: "matched", desc: "share recomputed for the edited vector"}
					for _, r := range m.rows[i] {
						p.sec = append(p.sec, lam[r])
						if m.pedersen() {
							p.bl = append(p.bl, new(big.Int))
						}
					}
					judge("vv/"+ed.kind+"/matched", fmt.Sprintf("vv %s/party%d/matched", ed, i), i, p, e2, vv2)
				}
			}
		}

		// a missing vector is refused, not dereferenced
		for i := 0; i < n && !dryRun; i++ {
			if len(m.rows[i]) == 0 {
				continue
			}
			x.Case(fmt.Sprintf("%s/vv nil/party%d", key, i))
			if got, _ := b.verify(x, key+"/vv nil", i, d.honest(i), nil, o.shard); got {
				x.Failf(b.name+"/vv/nil/false-accept", "%s: Verify accepted party %d's share against a nil verification vector", key, i)
			}
		}

		// (C) reconstruction in the exponent / ReconstructAndVerify / public material
		if !dryRun {
			b.recon(x, key, cfg.e, ld, true)
		}

		classMu.Lock()
		for k, v := range local {
			t := classTally[k]
			if t == nil {
				t = new([3]int64)
				classTally[k] = t
			}
			for i := range v {
				t[i] += v[i]
			}
		}
		classMu.Unlock()
		tally.accept.Add(int64(acc))
		tally.reject.Add(int64(rej))
		tally.refused.Add(int64(ref))
		tally.unaffected.Add(int64(unaff))
		tally.affected.Add(int64(aff))
		x.Observe(fmt.Sprintf("%s: accepted=%d rejected=%d refused-by-constructor=%d; vector edits x holders: unaffected=%d affected=%d", key, acc, rej, ref, unaff, aff))
	}
}

func configs(es []catalog.Entry, assign func(catalog.Entry) []catalog.IDAssignment) []config {
	var out []config
	for _, e := range catalog.Accepted(es) {
		if e.P.N > 4 {
			continue
		}
		for _, a := range assign(e) {
			out = append(out, config{e, a})
		}
	}
	if stride > 1 {
		var sub []config
		for i := stride - 1; i < len(out); i += stride {
			sub = append(sub, out[i])
		}
		out = sub
	}
	return out
}

// stride (C05_STRIDE=k) keeps every k-th configuration: a development aid for smoke-running a tier on a loaded
// machine. Such a run is reported as a harness error, never as a verdict.
var stride = func() int { k, _ := strconv.Atoi(os.Getenv("C05_STRIDE")); return k }()

func allAssignments(e catalog.Entry) []catalog.IDAssignment { return catalog.AssignmentsFor(e) }

// oneAssignment rotates through the admissible assignments by catalogue position, so that every assignment kind is
// exercised without multiplying the space.
func oneAssignment() func(catalog.Entry) []catalog.IDAssignment {
	i := 0
	return func(e catalog.Entry) []catalog.IDAssignment {
		as := catalog.AssignmentsFor(e)
		i++
		return as[i%len(as) : i%len(as)+1]
	}
}

func TestCheck(t *testing.T) {
	rule := "every (group, VSS, access structure, identifier assignment, dealing kind) is one execution; inside it: (A) the honest share of every holder is presented under every holder's identity and a non-holder's; every single-coordinate alteration of every holder's share (+1, -1, :=0 on secret and blinding coordinates, := the value of every other coordinate of every holder, drop a coordinate, append 0 / a copy, unequal component lengths) is presented "
	if engine.Thorough() {
		rule += "under every identity (section boolexpr<=4leaves: under the owner's, the donor's and the length-matching identities); "
	} else {
		rule += "under the owner's identity, the donor's identity (for a copied value) and every identity whose row count equals the new length (for drop/append); "
	}
	rule += "for combined dealings the partial sums and the combined share against each single vector; (B) every single edit of the verification vector (entry j +G, +H, := identity, swap j<->k, drop last, append identity, append G"
	if engine.Thorough() {
		rule += ", -G, drop first"
	}
	rule += ") is presented to every holder with its honest share, and with the share recomputed for the edited vector; (C) every subset of holders is reconstructed in the exponent, minimal qualified sets by ReconstructAndVerify with and without one altered coordinate. A case is distinct by (group, VSS, structure, assignment, dealing kind, holder, alteration or edit, claimed identity); non-trivial = Verify (and mpc.NewBaseShard where stated) was called on it and its verdict compared with the math/big prediction. Structures the library refuses to build (hierarchical identifiers outside the field-size condition) are counted as trivial executions."
	engine.Rule(rule)
	engine.Assume(
		"math/big and /verif/mc/ref/linalg (matrix-vector product) are correct",
		"the span programme matrix and row labelling are read out of the library (their correctness is C02's subject); the dealer column is read out of the library's DealerFunc and cross-checked: dealt shares = M·r in math/big and V_j = [r_j]G (+[r_h_j]H) by library scalar multiplication (C14's subject)",
		"Pedersen: the commitment key is made by pedersencom.NewTrapdoorKey with a trapdoor known to the harness, so 'the commitments agree' is decided exactly in math/big; no forged opening is presented",
		"simultaneous alterations of share and vector are explored only in the matching direction (share recomputed for the edited vector)",
		"purego build of the library",
	)
	kc := newGctx("k256", k256.NewCurve(), k256.NewScalarField(), conv.K256N)
	bc := newGctx("bls12381g1", bls12381.NewG1(), bls12381.NewScalarField(), conv.BLS12381R)
	ec := newGctx("ed25519", edwards25519.NewPrimeSubGroup(), edwards25519.NewScalarField(), conv.Ed25519L)

	var full []catalog.Entry
	full = append(full, catalog.Thresholds(2, 4)...)
	full = append(full, catalog.Unanimities(2, 4)...)
	full = append(full, catalog.CNFs(2, 4, 3)...)
	full = append(full, catalog.Hierarchicals(2, 4, 3)...)
	full = append(full, catalog.BoolExprs(3, 4)...)
	small := catalog.Small()
	// edwards25519 scalar multiplication is ~5x dearer than k256: the quick tier uses the n<=3 part of Small
	// (threshold, unanimity, non-ideal CNF, hierarchical, boolexpr with a repeated leaf)
	var tiny []catalog.Entry
	for _, e := range small {
		switch e.Name {
		case "thr(2,3)", "una(2)", "cnf3{0|1|2}", "hier3[1:0 2:12]", "bool3:T1(T2(0,1),T2(0,2))":
			tiny = append(tiny, e)
		}
	}
	if len(tiny) != 5 {
		panic(engine.HarnessError{Msg: "catalog.Small() no longer contains the five structures used for edwards25519"})
	}

	if !engine.Thorough() {
		q := opts{shard: true}
	engine.Explore(customGBody(kc), engine.Opts{Name: "k256/pedersen/custom-g", Budget: engine.Budget(2*time.Minute, 10*time.Minute)})
		engine.Explore(body(kc, configs(full, oneAssignment()), []kind{k1}, q), engine.Opts{Name: "k256/catalogue/k=1", Budget: 12 * time.Minute})
		engine.Explore(body(kc, configs(small, oneAssignment()), []kind{k2, k3, spA, spB}, opts{}), engine.Opts{Name: "k256/small/combined+special", Budget: 6 * time.Minute})
		engine.Explore(body(bc, configs(small, oneAssignment()), []kind{k1}, q), engine.Opts{Name: "bls12381g1/small/k=1", Budget: 6 * time.Minute})
		engine.Explore(body(ec, configs(tiny, oneAssignment()), []kind{k1}, q), engine.Opts{Name: "ed25519/tiny/k=1", Budget: 6 * time.Minute})
	} else {
		o := opts{wideAll: true, extended: true, shard: true}
		engine.Explore(body(kc, configs(full, allAssignments), []kind{k1}, o), engine.Opts{Name: "k256/catalogue/all-ids/k=1", Budget: 30 * time.Minute})
		engine.Explore(body(kc, configs(full, oneAssignment()), []kind{k2, k3, spA, spB}, o), engine.Opts{Name: "k256/catalogue/combined+special", Budget: 40 * time.Minute})
		engine.Explore(body(kc, configs(catalog.BoolExprs(4, 4), oneAssignment()), []kind{k1}, opts{shard: true}), engine.Opts{Name: "k256/boolexpr<=4leaves/k=1", Budget: 20 * time.Minute})
		engine.Explore(body(bc, configs(small, allAssignments), []kind{k1, k2, k3, spA, spB}, o), engine.Opts{Name: "bls12381g1/small/all-ids", Budget: 30 * time.Minute})
		engine.Explore(body(ec, configs(small, oneAssignment()), []kind{k1, k2, spA}, o), engine.Opts{Name: "ed25519/small", Budget: 30 * time.Minute})
	}
	printTally()
	if dryRun {
		engine.HarnessFail("C05_DRY is set: cases were counted, the library was not called")
	}
	if stride > 1 {
		engine.HarnessFail("C05_STRIDE is set: only every %d-th configuration was explored", stride)
	}
}
