package c11

import (
	"bytes"
	"context"
	"errors"
	"fmt"
	"sort"
	"strings"

	"github.com/bronlabs/bron-crypto/pkg/base"
	"github.com/bronlabs/bron-crypto/pkg/mcrt"
	"github.com/bronlabs/bron-crypto/pkg/mpc/sharing"
	"github.com/bronlabs/bron-crypto/pkg/network"
	"github.com/bronlabs/errs-go/errs"

	"verifmc/engine"
)

// ---- reference model -------------------------------------------------------------------------------------
//
// The reference is a plain log kept by the adversarial network, independent of the router:
//   delivery k = (from, wire-cid, payload) handed to the router's reader at logical time tau_k; the reader
//   has certainly deposited it once it asks for the next message (time rho_k).
// A ReceiveFrom call with interval [a,b] is judged against that log (linearizability-style):
//   success(map)        ok iff every requested sender has a delivered message for the cid by time b, map[f] is the
//                       FIRST such payload, keys are exactly the requested senders, and no conflicting duplicate for
//                       the cid was certainly deposited before the call started;
//   duplicate error(f)  ok iff two different payloads (f, cid) were delivered by time b and the error tags exactly f;
//   cancellation        ok iff the context was cancelled by time b;
//   router failure      ok iff Close / a transport error / an undecodable message / the (lowered) buffer bound
//                       happened by time b;
//   anything else is a violation. Scenario-level oracles add: a receive whose messages are all deliverable and that
//   nothing cancels or closes must succeed (R1,R2,R5), a cancelled receive retried returns the full set (R4), an
//   identical retransmission is invisible (R3), no deadlock (scheduler).

type delivery struct {
	from    sharing.ID
	cid     string
	payload []byte
	tau     int // logical time of hand-over
	rho     int // logical time at which the reader came back (deposit certainly done); 1<<60 if never
	bad     bool
}

type recvCall struct {
	name      string
	cid       string // wire cid (namespace prefix included)
	froms     []sharing.ID
	a, b      int
	got       map[sharing.ID][]byte
	err       error
	cancelAt  int // logical time the context was cancelled (1<<60 = never)
}

const never = 1 << 60

type world struct {
	x       *engine.X
	s       *mcrt.Sched
	net     *Net
	me      sharing.ID
	quorum  map[sharing.ID]bool
	rt      *network.Router
	log     []*delivery
	calls   []*recvCall
	closeAt int
	failAt  int
	badAt   int
	invFail  string
	checkInv bool
	maxBuf   int // lowered receive-buffer bound (0 = the real one, never reached)
}

// undelivered counts distinct (sender, cid) member messages handed to the router by time t (upper bound on what it buffers).
func (w *world) undelivered(t int) int {
	seen := map[string]bool{}
	for _, d := range w.log {
		if d.bad || !w.quorum[d.from] || d.tau > t {
			continue
		}
		seen[fmt.Sprintf("%d/%s", d.from, d.cid)] = true
	}
	return len(seen)
}

func now() int { return mcrt.S.Points }

// loggingEndpoint wraps the receiver's endpoint to build the reference log.
type loggingEndpoint struct {
	*Endpoint
	w *world
}

func (l *loggingEndpoint) Receive(ctx context.Context) (sharing.ID, []byte, error) {
	// the reader is back: everything delivered so far has certainly been processed
	for _, d := range l.w.log {
		if d.rho == never {
			d.rho = now()
		}
	}
	from, raw, err := l.Endpoint.Receive(ctx)
	if err != nil {
		if errors.Is(err, errTransport) && l.w.failAt == never {
			l.w.failAt = now()
		}
		return from, raw, err
	}
	cid, payload := unwire(raw)
	d := &delivery{from: from, cid: cid, payload: payload, tau: now(), rho: never}
	if cid == "<undecodable>" {
		d.bad = true
		if l.w.quorum[from] && l.w.badAt == never {
			l.w.badAt = now()
		}
	}
	l.w.log = append(l.w.log, d)
	return from, raw, nil
}

func newWorld(x *engine.X, s *mcrt.Sched, me sharing.ID, parties ...sharing.ID) *world {
	w := &world{x: x, s: s, me: me, net: NewNet(parties...), quorum: map[sharing.ID]bool{}, closeAt: never, failAt: never, badAt: never, checkInv: true}
	for _, p := range parties {
		w.quorum[p] = true
	}
	w.rt = network.NewRouter(&loggingEndpoint{w.net.Endpoint(me), w})
	s.OnPoint(func() {
		if !w.checkInv || w.invFail != "" {
			return
		}
		dump, buffered, sum, locked := network.VerifDump(w.rt)
		if !locked && buffered != sum {
			w.invFail = fmt.Sprintf("accounting: buffered=%d but mailboxes hold %d payloads: %s", buffered, sum, dump)
		}
		if buffered < 0 {
			w.invFail = fmt.Sprintf("accounting: buffered=%d is negative: %s", buffered, dump)
		}
	})
	return w
}

// recv performs one ReceiveFrom on view rt (a namespaced view of w.rt or w.rt itself) and logs the call.
func (w *world) recv(name string, rt *network.Router, ctx context.Context, prefix, cid string, cancelAt *int, froms ...sharing.ID) *recvCall {
	c := &recvCall{name: name, cid: prefix + cid, froms: froms, a: now(), cancelAt: never}
	w.calls = append(w.calls, c)
	got, err := rt.ReceiveFrom(ctx, cid, froms...)
	c.b = now()
	c.got, c.err = got, err
	if cancelAt != nil {
		c.cancelAt = *cancelAt
	}
	return c
}

func (w *world) close() {
	if w.closeAt == never {
		w.closeAt = now()
	}
	w.rt.Close()
}

func payloadsEqual(a, b []byte) bool { return bytes.Equal(a, b) }

// judge evaluates every logged call against the reference log.
func (w *world) judge() {
	x := w.x
	if w.invFail != "" {
		x.Failf("router/accounting", "%s", w.invFail)
	}
	for _, c := range w.calls {
		// messages for this cid from members, in delivery order
		type ent struct {
			first    []byte
			conflict bool // a different payload was delivered later
			firstTau int
			firstRho int
			confTau  int
			confRho  int
		}
		perSender := map[sharing.ID]*ent{}
		for _, d := range w.log {
			if d.bad || !w.quorum[d.from] || d.cid != c.cid || d.tau > c.b {
				continue
			}
			e := perSender[d.from]
			if e == nil {
				perSender[d.from] = &ent{first: d.payload, firstTau: d.tau, firstRho: d.rho, confTau: never, confRho: never}
			} else if !payloadsEqual(e.first, d.payload) && !e.conflict {
				e.conflict = true
				e.confTau, e.confRho = d.tau, d.rho
			}
		}
		conflictPossible := false       // some conflicting duplicate for the cid delivered by time b
		conflictCertainBefore := false  // … certainly deposited before the call started
		for _, e := range perSender {
			if e.conflict {
				conflictPossible = true
				if e.confRho <= c.a {
					conflictCertainBefore = true
				}
			}
		}
		completeCertainBefore := true
		completePossible := true
		for _, f := range c.froms {
			e := perSender[f]
			if e == nil {
				completeCertainBefore, completePossible = false, false
				break
			}
			if e.firstRho > c.a {
				completeCertainBefore = false
			}
		}
		// NOTE: the router documents a priority (poison, complete set, latched failure, cancellation) inside one call,
		// but also that a latched failure is returned to every SUBSEQUENT call; the property demands neither, so a
		// failure/cancellation outcome is only required to be justified by an event, never "forced to succeed".
		_ = completeCertainBefore
		desc := fmt.Sprintf("%s ReceiveFrom(%q, %v) interval [%d,%d]", c.name, c.cid, c.froms, c.a, c.b)
		switch {
		case c.err == nil:
			if !completePossible {
				x.Failf("router/phantom", "%s returned success but some requested sender's message for this id was never delivered; got=%s log=%s", desc, fmtMap(c.got), w.fmtLog())
				continue
			}
			if conflictCertainBefore {
				x.Failf("router/conflict-missed", "%s returned success although a conflicting duplicate had been deposited before the call; log=%s", desc, w.fmtLog())
			}
			if len(c.got) != len(c.froms) {
				x.Failf("router/wrong-senders", "%s returned %d payloads for %d requested senders: %s", desc, len(c.got), len(c.froms), fmtMap(c.got))
			}
			for _, f := range c.froms {
				g, ok := c.got[f]
				if !ok {
					x.Failf("router/wrong-senders", "%s: requested sender %d missing from result %s", desc, f, fmtMap(c.got))
					continue
				}
				if !payloadsEqual(g, perSender[f].first) {
					x.Failf("router/wrong-payload", "%s: sender %d payload %q, reference says %q (the payload that sender sent first under this id); log=%s", desc, f, g, perSender[f].first, w.fmtLog())
				}
			}
		case errs.Is(c.err, network.ErrDuplicateMessage):
			blamed := blamedIDs(c.err)
			okBlame := len(blamed) == 1 && perSender[blamed[0]] != nil && perSender[blamed[0]].conflict
			if !conflictPossible {
				x.Failf("router/false-conflict", "%s failed with a duplicate-message error but no conflicting retransmission was delivered; log=%s", desc, w.fmtLog())
			} else if !okBlame {
				x.Failf("router/wrong-blame", "%s blamed %v for a conflicting retransmission; reference conflicts: %s", desc, blamed, w.fmtLog())
			}
		case errs.Is(c.err, context.Canceled):
			if c.cancelAt > c.b {
				x.Failf("router/spurious-cancel", "%s returned a cancellation error but its context was not cancelled", desc)
			}
		default:
			closed := errs.Is(c.err, network.ErrRouterClosed) && w.closeAt <= c.b
			transport := errors.Is(c.err, errTransport) && w.failAt <= c.b
			decode := w.badAt <= c.b && strings.Contains(c.err.Error(), "decode")
			overflow := errs.Is(c.err, network.ErrReceiveBufferFull) && w.overflowJustified(c.b)
			if !(closed || transport || decode || overflow) {
				x.Failf("router/unexpected-error", "%s failed with an error no event justifies: %v; log=%s", desc, c.err, w.fmtLog())
			}
		}
	}
}

// overflowJustified: the documented bound was reached: at least maxBuf distinct (sender,cid) member messages delivered and not consumed by time t.
func (w *world) overflowJustified(t int) bool {
	return w.maxBuf > 0 && w.undelivered(t) >= w.maxBuf
}

func blamedIDs(err error) []sharing.ID {
	return base.GetMaliciousIdentities[sharing.ID](err)
}

func firstLine(s string) string {
	if i := strings.IndexByte(s, '\n'); i >= 0 {
		return s[:i]
	}
	return s
}

func fmtMap(m map[sharing.ID][]byte) string {
	ids := make([]int, 0, len(m))
	for id := range m {
		ids = append(ids, int(id))
	}
	sort.Ints(ids)
	var sb strings.Builder
	for _, id := range ids {
		sb.WriteString(fmt.Sprintf("%d=%q ", id, m[sharing.ID(id)]))
	}
	return "{" + sb.String() + "}"
}

func (w *world) fmtLog() string {
	var sb strings.Builder
	for _, d := range w.log {
		rho := fmt.Sprint(d.rho)
		if d.rho == never {
			rho = "-"
		}
		sb.WriteString(fmt.Sprintf("[%d:%q=%q @%d..%s] ", d.from, d.cid, d.payload, d.tau, rho))
	}
	return sb.String()
}
