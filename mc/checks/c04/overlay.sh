#!/bin/bash
# Generates the SCHED build overlay for C11 from the current /repo tree: instrumented pkg/network + mcrt + state dump.
set -eu
out=$1
rm -rf "$out"; mkdir -p "$out"
cd /verif/mc
go run ./instrument -repo /repo -verif /verif -out "$out"
