package policy

import (
	"runtime"
	"sort"
	"sync"
)

// Thresholds returns every (t,n) threshold policy with 2 <= t <= n.
func Thresholds(n int) []*Policy {
	var out []*Policy
	for t := 2; t <= n; t++ {
		out = append(out, &Policy{Kind: Threshold, N: n, T: t})
	}
	return out
}

// NewUnanimity returns the n-of-n policy.
func NewUnanimity(n int) *Policy { return &Policy{Kind: Unanimity, N: n} }

// ---------------------------------------------------------------------------------------------
// CNF: every antichain of maximal unqualified sets <-> every monotone Boolean function.
//
// A truth table over n <= 6 parties is a uint64 whose bit a is 1 iff subset a is qualified.

// MonotoneFunctions returns the truth tables of all monotone functions of n variables (n <= 5: 3, 6, 20, 168,
// 7581 functions; n = 6 has 7 828 354 and is streamed by CNFs instead).
func MonotoneFunctions(n int) []uint64 {
	if n > 5 {
		panic("policy: MonotoneFunctions is materialised for n <= 5 only")
	}
	cur := []uint64{0, 1} // n = 0: constant false / constant true on the single subset ∅
	for k := 1; k <= n; k++ {
		half := uint(1) << uint(k-1)
		var next []uint64
		for _, f0 := range cur { // subsets without party k-1
			for _, f1 := range cur { // subsets with party k-1
				if f0&^f1 == 0 { // monotone: qualified without k-1 => qualified with it
					next = append(next, f0|f1<<half)
				}
			}
		}
		cur = next
	}
	sort.Slice(cur, func(i, j int) bool { return cur[i] < cur[j] })
	return cur
}

// swapVars exchanges the roles of parties i < j in a truth table (delta swap).
func swapVars(tt uint64, n, i, j int) uint64 {
	if i == j {
		return tt
	}
	if i > j {
		i, j = j, i
	}
	d := (uint(1) << uint(j)) - (uint(1) << uint(i))
	var m uint64
	for a := 0; a < 1<<uint(n); a++ {
		if a>>uint(i)&1 == 1 && a>>uint(j)&1 == 0 {
			m |= 1 << uint(a)
		}
	}
	t := (tt ^ (tt >> d)) & m
	return tt ^ t ^ (t << d)
}

type swapTab struct {
	d [6][6]uint
	m [6][6]uint64
}

func newSwapTab(n int) *swapTab {
	st := &swapTab{}
	for i := 0; i < n; i++ {
		for j := i + 1; j < n; j++ {
			st.d[i][j] = (uint(1) << uint(j)) - (uint(1) << uint(i))
			var m uint64
			for a := 0; a < 1<<uint(n); a++ {
				if a>>uint(i)&1 == 1 && a>>uint(j)&1 == 0 {
					m |= 1 << uint(a)
				}
			}
			st.m[i][j] = m
		}
	}
	return st
}

func (st *swapTab) swap(tt uint64, i, j int) uint64 {
	if i > j {
		i, j = j, i
	}
	t := (tt ^ (tt >> st.d[i][j])) & st.m[i][j]
	return tt ^ t ^ (t << st.d[i][j])
}

// isCanonical reports whether tt is the numerically smallest truth table of its orbit under all n! relabellings
// of the parties (Heap's algorithm; every step is one transposition of two parties).
func (st *swapTab) isCanonical(tt uint64, n int) bool {
	var c [6]int
	cur := tt
	i := 0
	for i < n {
		if c[i] < i {
			if i%2 == 0 {
				cur = st.swap(cur, 0, i)
			} else {
				cur = st.swap(cur, c[i], i)
			}
			if cur < tt {
				return false
			}
			c[i]++
			i = 0
		} else {
			c[i] = 0
			i++
		}
	}
	return true
}

// Canonical returns the smallest truth table in the orbit of tt under relabelling of the n parties.
func Canonical(tt uint64, n int) uint64 {
	st := newSwapTab(n)
	var c [6]int
	cur, best := tt, tt
	i := 0
	for i < n {
		if c[i] < i {
			if i%2 == 0 {
				cur = st.swap(cur, 0, i)
			} else {
				cur = st.swap(cur, c[i], i)
			}
			if cur < best {
				best = cur
			}
			c[i]++
			i = 0
		} else {
			c[i] = 0
			i++
		}
	}
	return best
}

// cnfAdmissible: the full set is qualified and no single party is (equivalently: the maximal unqualified sets are
// non-empty, there are at least two of them and they cover all n parties). These are exactly the monotone
// functions that are CNF access structures over the universe {0..n-1} in the library's sense, where the universe
// is the union of the maximal unqualified sets.
func cnfAdmissible(tt uint64, n int) bool {
	if tt>>((uint(1)<<uint(n))-1)&1 == 0 { // full set
		return false
	}
	for i := 0; i < n; i++ {
		if tt>>(uint(1)<<uint(i))&1 == 1 {
			return false
		}
	}
	return tt&1 == 0
}

// FromTruthBits builds the CNF policy whose qualified sets are exactly the 1-bits of tt (tt must be monotone).
func FromTruthBits(tt uint64, n int) *Policy {
	var mus []uint64
	full := (uint64(1) << uint(n)) - 1
	for a := uint64(0); a <= full; a++ {
		if tt>>a&1 == 1 {
			continue
		}
		max := true
		for i := 0; i < n; i++ {
			if a>>uint(i)&1 == 0 && tt>>(a|1<<uint(i))&1 == 0 {
				max = false
				break
			}
		}
		if max {
			mus = append(mus, a)
		}
	}
	return &Policy{Kind: CNF, N: n, MUS: mus}
}

// CNFTruthTables returns the truth tables of every CNF access structure over exactly n parties (2 <= n <= 6):
// every antichain of >= 2 non-empty maximal unqualified sets that covers all n parties. labelled=false keeps one
// representative per orbit under relabelling of the parties (n=2: 1, n=3: 4, n=4: 19, n=5: 179, n=6: 16142 =
// inequivalent monotone functions 16353 minus the 210 with a qualified singleton minus the constant one),
// labelled=true keeps all of them (n=3: 8, n=4: 113, n=5: 6893).
func CNFTruthTables(n int, labelled bool) []uint64 {
	if n < 2 || n > 6 {
		panic("policy: CNFTruthTables needs 2 <= n <= 6")
	}
	st := newSwapTab(n)
	keep := func(tt uint64) bool {
		return cnfAdmissible(tt, n) && (labelled || st.isCanonical(tt, n))
	}
	var out []uint64
	if n <= 5 {
		for _, tt := range MonotoneFunctions(n) {
			if keep(tt) {
				out = append(out, tt)
			}
		}
		return out
	}
	// n = 6: stream the 7.8M pairs (f0 <= f1) of 5-variable monotone functions in parallel
	m5 := MonotoneFunctions(5)
	workers := runtime.GOMAXPROCS(0)
	var mu sync.Mutex
	var wg sync.WaitGroup
	for w := 0; w < workers; w++ {
		wg.Add(1)
		go func(w int) {
			defer wg.Done()
			var local []uint64
			for i := w; i < len(m5); i += workers {
				f0 := m5[i]
				for _, f1 := range m5 {
					if f0&^f1 != 0 {
						continue
					}
					tt := f0 | f1<<32
					if keep(tt) {
						local = append(local, tt)
					}
				}
			}
			mu.Lock()
			out = append(out, local...)
			mu.Unlock()
		}(w)
	}
	wg.Wait()
	sort.Slice(out, func(i, j int) bool { return out[i] < out[j] })
	return out
}

// CNFs is CNFTruthTables turned into policies.
func CNFs(n int, labelled bool) []*Policy {
	tts := CNFTruthTables(n, labelled)
	out := make([]*Policy, len(tts))
	for i, tt := range tts {
		out[i] = FromTruthBits(tt, n)
	}
	return out
}

// ---------------------------------------------------------------------------------------------
// hierarchical: every layout of n parties into 1..maxLevels non-empty levels (parties in index order: level 1 gets
// the lowest indices) with strictly increasing cumulative thresholds 1 <= T_1 < T_2 < … and T_i <= |L_1 ∪ … ∪ L_i|.

func Hierarchicals(n, maxLevels int) []*Policy {
	var out []*Policy
	var sizes []int
	var rec func(rest int)
	emit := func() {
		m := len(sizes)
		ts := make([]int, m)
		var recT func(i, prev, cum int)
		recT = func(i, prev, cum int) {
			if i == m {
				p := &Policy{Kind: Hierarchical, N: n}
				next := 0
				for l := 0; l < m; l++ {
					lv := Level{T: ts[l]}
					for k := 0; k < sizes[l]; k++ {
						lv.Parties = append(lv.Parties, next)
						next++
					}
					p.Levels = append(p.Levels, lv)
				}
				out = append(out, p)
				return
			}
			cum += sizes[i]
			for t := prev + 1; t <= cum; t++ {
				ts[i] = t
				recT(i+1, t, cum)
			}
		}
		recT(0, 0, 0)
	}
	rec = func(rest int) {
		if rest == 0 {
			emit()
			return
		}
		if len(sizes) == maxLevels {
			return
		}
		for s := 1; s <= rest; s++ {
			sizes = append(sizes, s)
			rec(rest - s)
			sizes = sizes[:len(sizes)-1]
		}
	}
	rec(n)
	return out
}

// ---------------------------------------------------------------------------------------------
// boolexpr: every threshold-gate tree of the grammar  T(k; children)  with at most two gate levels:
// the root gate has an ordered list of children, each a leaf or a gate whose children are all leaves; at most
// maxLeaves leaves in total; every gate threshold 1..#children (so AND, OR and 1-child gates are included);
// leaves labelled by parties 0..p-1 (p <= maxParties, every party used) up to renaming of the parties (labels
// form a restricted-growth string in depth-first order — the ID assignments of the catalogue re-introduce the
// renamings), the same party may label leaves in different subtrees and at different levels.
// dupSiblings selects the trees in which some gate has two direct leaf children of the same party (refused by the
// library) instead of the admissible ones.

func BoolExprs(maxLeaves, maxParties int, dupSiblings bool) []*Policy {
	var out []*Policy
	// shape: sequence of child descriptors; 0 = leaf, j>0 = gate with j leaves
	var shape []int
	var recShape func(left int)
	emitShape := func() {
		// thresholds
		gates := []int{len(shape)} // children counts: root first
		for _, s := range shape {
			if s > 0 {
				gates = append(gates, s)
			}
		}
		ks := make([]int, len(gates))
		leaves := 0
		for _, s := range shape {
			if s == 0 {
				leaves++
			} else {
				leaves += s
			}
		}
		labels := make([]int, leaves)
		build := func() *Node {
			root := &Node{Leaf: -1, K: ks[0]}
			li, gi := 0, 1
			for _, s := range shape {
				if s == 0 {
					root.Children = append(root.Children, L(labels[li]))
					li++
					continue
				}
				g := &Node{Leaf: -1, K: ks[gi]}
				gi++
				for k := 0; k < s; k++ {
					g.Children = append(g.Children, L(labels[li]))
					li++
				}
				root.Children = append(root.Children, g)
			}
			return root
		}
		var recLabel func(i, used int)
		recLabel = func(i, used int) {
			if i == leaves {
				t := build()
				if t.HasDuplicateSiblingLeaves() == dupSiblings {
					out = append(out, &Policy{Kind: BoolExpr, N: used, Tree: t})
				}
				return
			}
			for v := 0; v <= used && v < maxParties; v++ {
				labels[i] = v
				nu := used
				if v == used {
					nu++
				}
				recLabel(i+1, nu)
			}
		}
		var recK func(i int)
		recK = func(i int) {
			if i == len(gates) {
				recLabel(0, 0)
				return
			}
			for k := 1; k <= gates[i]; k++ {
				ks[i] = k
				recK(i + 1)
			}
		}
		recK(0)
	}
	recShape = func(left int) {
		if len(shape) > 0 {
			emitShape()
		}
		for s := 0; s <= left; s++ {
			w := s
			if s == 0 {
				w = 1
			}
			if w > left {
				continue
			}
			shape = append(shape, s)
			recShape(left - w)
			shape = shape[:len(shape)-1]
		}
	}
	recShape(maxLeaves)
	return out
}
