// Package policy is the boring reference for access structures: the truth table of every family is computed from
// its *definition*, on abstract party indices 0..N-1 and subsets represented as bit masks (bit i = party i).
// Nothing here imports the library.
//
//	threshold     A qualified  <=>  |A| >= T
//	unanimity     A qualified  <=>  A = {0..N-1}
//	CNF           A qualified  <=>  A is not contained in any maximal unqualified set
//	hierarchical  A qualified  <=>  for every level i: |A ∩ (L_1 ∪ … ∪ L_i)| >= T_i
//	boolexpr      recursive gate evaluation: a leaf is satisfied iff its party is in A, a gate iff >= K children are
//
// plus complete enumerators of each family over N parties (see enumerate.go).
package policy

import (
	"fmt"
	"math/bits"
	"sort"
	"strings"
)

// Kind names an access-structure family.
type Kind int

const (
	Threshold Kind = iota + 1
	Unanimity
	CNF
	Hierarchical
	BoolExpr
)

func (k Kind) String() string {
	switch k {
	case Threshold:
		return "threshold"
	case Unanimity:
		return "unanimity"
	case CNF:
		return "cnf"
	case Hierarchical:
		return "hierarchical"
	case BoolExpr:
		return "boolexpr"
	}
	return "?"
}

// Level is one level of a hierarchical conjunctive threshold policy: cumulative threshold T over this level's
// parties and all earlier levels' parties.
type Level struct {
	T       int
	Parties []int // party indices
}

// Node is a node of a threshold-gate tree. Leaf >= 0: attribute leaf for that party index (K, Children unused).
// Leaf < 0: gate satisfied when at least K of Children are.
type Node struct {
	Leaf     int
	K        int
	Children []*Node
}

// L makes a leaf, G a gate.
func L(party int) *Node          { return &Node{Leaf: party} }
func G(k int, ch ...*Node) *Node { return &Node{Leaf: -1, K: k, Children: ch} }
func (n *Node) IsLeaf() bool     { return n.Leaf >= 0 }
func (n *Node) eval(a uint64) bool {
	if n.IsLeaf() {
		return a>>uint(n.Leaf)&1 == 1
	}
	c := 0
	for _, ch := range n.Children {
		if ch.eval(a) {
			c++
		}
	}
	return c >= n.K
}

// Leaves counts attribute leaves (= rows of the induced span programme).
func (n *Node) Leaves() int {
	if n.IsLeaf() {
		return 1
	}
	c := 0
	for _, ch := range n.Children {
		c += ch.Leaves()
	}
	return c
}

// Columns is the number of columns of the Liu–Cao–Wong span programme of the tree: 1 + Σ_gates (K-1).
func (n *Node) Columns() int { return 1 + n.extraCols() }
func (n *Node) extraCols() int {
	if n.IsLeaf() {
		return 0
	}
	c := n.K - 1
	for _, ch := range n.Children {
		c += ch.extraCols()
	}
	return c
}

// Depth is the number of gate levels (a leaf has depth 0).
func (n *Node) Depth() int {
	if n.IsLeaf() {
		return 0
	}
	d := 0
	for _, ch := range n.Children {
		if cd := ch.Depth(); cd > d {
			d = cd
		}
	}
	return d + 1
}

// HasDuplicateSiblingLeaves reports whether some gate has two direct leaf children for the same party
// (the library refuses such trees).
func (n *Node) HasDuplicateSiblingLeaves() bool {
	if n.IsLeaf() {
		return false
	}
	seen := map[int]bool{}
	for _, ch := range n.Children {
		if ch.IsLeaf() {
			if seen[ch.Leaf] {
				return true
			}
			seen[ch.Leaf] = true
		} else if ch.HasDuplicateSiblingLeaves() {
			return true
		}
	}
	return false
}

func (n *Node) String() string {
	if n.IsLeaf() {
		return fmt.Sprint(n.Leaf)
	}
	parts := make([]string, len(n.Children))
	for i, ch := range n.Children {
		parts[i] = ch.String()
	}
	return fmt.Sprintf("T%d(%s)", n.K, strings.Join(parts, ","))
}

// Policy is one access structure over parties 0..N-1.
type Policy struct {
	Kind   Kind
	N      int
	T      int      // threshold
	MUS    []uint64 // CNF: maximal unqualified sets as masks (an antichain)
	Levels []Level  // hierarchical
	Tree   *Node    // boolexpr
}

// Full is the mask of all parties.
func (p *Policy) Full() uint64 { return (uint64(1) << uint(p.N)) - 1 }

// Qualified evaluates the definition of the family on the subset a (bits outside 0..N-1 make the set unqualified:
// a set with a stranger is not a set of shareholders).
func (p *Policy) Qualified(a uint64) bool {
	if a&^p.Full() != 0 {
		return false
	}
	switch p.Kind {
	case Threshold:
		return bits.OnesCount64(a) >= p.T
	case Unanimity:
		return a == p.Full()
	case CNF:
		for _, u := range p.MUS {
			if a&^u == 0 { // a ⊆ u
				return false
			}
		}
		return true
	case Hierarchical:
		var cum uint64
		for _, l := range p.Levels {
			for _, x := range l.Parties {
				cum |= 1 << uint(x)
			}
			if bits.OnesCount64(a&cum) < l.T {
				return false
			}
		}
		return true
	case BoolExpr:
		return p.Tree.eval(a)
	}
	panic("policy: unknown kind")
}

// TruthTable returns Qualified for every mask 0..2^N-1.
func (p *Policy) TruthTable() []bool {
	tt := make([]bool, 1<<uint(p.N))
	for a := range tt {
		tt[a] = p.Qualified(uint64(a))
	}
	return tt
}

// TruthBits is TruthTable packed into a uint64 (N <= 6).
func (p *Policy) TruthBits() uint64 {
	if p.N > 6 {
		panic("policy: TruthBits needs N <= 6")
	}
	var out uint64
	for a := 0; a < 1<<uint(p.N); a++ {
		if p.Qualified(uint64(a)) {
			out |= 1 << uint(a)
		}
	}
	return out
}

// MaximalUnqualified lists the maximal unqualified subsets, computed from the truth table (not from MUS).
func (p *Policy) MaximalUnqualified() []uint64 {
	var out []uint64
	full := p.Full()
	for a := uint64(0); a <= full; a++ {
		if p.Qualified(a) {
			continue
		}
		max := true
		for i := 0; i < p.N && max; i++ {
			if a>>uint(i)&1 == 0 && !p.Qualified(a|1<<uint(i)) {
				max = false
			}
		}
		if max {
			out = append(out, a)
		}
	}
	return out
}

// MinimalQualified lists the minimal qualified subsets.
func (p *Policy) MinimalQualified() []uint64 {
	var out []uint64
	full := p.Full()
	for a := uint64(0); a <= full; a++ {
		if !p.Qualified(a) {
			continue
		}
		min := true
		for i := 0; i < p.N && min; i++ {
			if a>>uint(i)&1 == 1 && p.Qualified(a&^(1<<uint(i))) {
				min = false
			}
		}
		if min {
			out = append(out, a)
		}
	}
	return out
}

// Monotone checks that the truth table is monotone (a sanity property of the reference itself).
func (p *Policy) Monotone() bool {
	full := p.Full()
	for a := uint64(0); a <= full; a++ {
		if !p.Qualified(a) {
			continue
		}
		for i := 0; i < p.N; i++ {
			if !p.Qualified(a | 1<<uint(i)) {
				return false
			}
		}
	}
	return true
}

// AllSingletonsQualified: every single party is qualified on its own.
func (p *Policy) AllSingletonsQualified() bool {
	for i := 0; i < p.N; i++ {
		if !p.Qualified(1 << uint(i)) {
			return false
		}
	}
	return true
}

// AnyQualified: at least one set (hence the full set) is qualified.
func (p *Policy) AnyQualified() bool { return p.Qualified(p.Full()) }

// Members lists the party indices of a mask in ascending order.
func Members(a uint64) []int {
	var out []int
	for i := 0; a != 0; i, a = i+1, a>>1 {
		if a&1 == 1 {
			out = append(out, i)
		}
	}
	return out
}

// MaskOf builds a mask from party indices.
func MaskOf(parties ...int) uint64 {
	var a uint64
	for _, x := range parties {
		a |= 1 << uint(x)
	}
	return a
}

func setString(a uint64) string {
	var sb strings.Builder
	for _, m := range Members(a) {
		sb.WriteString(fmt.Sprint(m))
	}
	return sb.String()
}

// String is a stable, unique description (used in case keys).
func (p *Policy) String() string {
	switch p.Kind {
	case Threshold:
		return fmt.Sprintf("thr(%d,%d)", p.T, p.N)
	case Unanimity:
		return fmt.Sprintf("una(%d)", p.N)
	case CNF:
		s := append([]uint64{}, p.MUS...)
		sort.Slice(s, func(i, j int) bool { return s[i] < s[j] })
		parts := make([]string, len(s))
		for i, u := range s {
			parts[i] = setString(u)
		}
		return fmt.Sprintf("cnf%d{%s}", p.N, strings.Join(parts, "|"))
	case Hierarchical:
		parts := make([]string, len(p.Levels))
		for i, l := range p.Levels {
			parts[i] = fmt.Sprintf("%d:%s", l.T, setString(MaskOf(l.Parties...)))
		}
		return fmt.Sprintf("hier%d[%s]", p.N, strings.Join(parts, " "))
	case BoolExpr:
		return fmt.Sprintf("bool%d:%s", p.N, p.Tree)
	}
	return "?"
}
