package c18

import (
	"bytes"
	"errors"
	"fmt"
	"strconv"

	"golang.org/x/crypto/blake2b"

	"github.com/bronlabs/bron-crypto/pkg/commitments"
	"github.com/bronlabs/bron-crypto/pkg/commitments/hashcom"
	"github.com/bronlabs/bron-crypto/pkg/transcripts/hagrid"

	"verifmc/engine"
)

// refHashcom is the definition of the scheme: BLAKE2b-256 keyed with the 32-byte key over message || witness.
func refHashcom(key, msg, wit []byte) [32]byte {
	h, err := blake2b.New256(key)
	if err != nil {
		panic(err)
	}
	in := make([]byte, 0, len(msg)+len(wit))
	in = append(in, msg...)
	in = append(in, wit...)
	h.Write(in)
	var out [32]byte
	copy(out[:], h.Sum(nil))
	return out
}

var hashcomKeys memo[*hashcom.CommitmentKey]

const hashcomNumKeys = 4 // 0,1 sampled from the fixed stream; 2,3 extracted from transcripts

func hashcomKey(i int) *hashcom.CommitmentKey {
	return hashcomKeys.get(fmt.Sprint(i), func() *hashcom.CommitmentKey {
		switch i {
		case 0, 1:
			return must(hashcom.SampleCommitmentKey(newStream(fmt.Sprintf("hashcom/key/%d", i))))
		default:
			t := hagrid.NewTranscript("verif-c18")
			t.AppendBytes("context", []byte{byte(i)})
			return must(hashcom.ExtractCommitmentKey(t, "hashcom-key"))
		}
	})
}

func hashcomMessages() [][]byte {
	m := [][]byte{{}, {0x00}, {0xa5}, pattern(32), pattern(1024)}
	if engine.Thorough() {
		m = append(m, bytes.Repeat([]byte{0xff}, 32), pattern(4096), pattern(16384), pattern(32768))
	}
	return m
}

func hashcomWitnesses() []hashcom.Witness {
	var zero, ones, s0, s1 hashcom.Witness
	for i := range ones {
		ones[i] = 0xff
	}
	copy(s0[:], newStream("hashcom/wit/0").bytes(32))
	copy(s1[:], newStream("hashcom/wit/1").bytes(32))
	return []hashcom.Witness{zero, ones, s0, s1}
}

var hashcomTally tally

// hashcomBody: one execution = one (key, message, witness) tuple; inner cases = every single-bit / single-component
// change of that tuple's message, witness, key and commitment.
func hashcomBody(x *engine.X) {
	ki := x.Choose("key", hashcomNumKeys)
	msgs := hashcomMessages()
	mi := x.Choose("msg", len(msgs))
	wits := hashcomWitnesses()
	wi := x.Choose("wit", len(wits))
	key, msg, wit := hashcomKey(ki), msgs[mi], wits[wi]
	id := fmt.Sprintf("hashcom/k%d/m%d/w%d", ki, mi, wi)
	// long messages: the message-bit enumeration is split into 16 slices (parallel subtrees); slice 0 also does
	// everything else
	chunks, chunk := 1, 0
	if len(msg) >= 4096 {
		chunks = 16
		chunk = x.Choose("msgslice", chunks)
		if chunk > 0 {
			id += fmt.Sprintf("/slice%d", chunk)
		}
	}
	lt := localTally{}
	defer lt.flush(&hashcomTally)

	com, err := key.CommitWithWitness(msg, wit)
	if err != nil {
		x.Failf("hashcom/commit/err", "%s: CommitWithWitness failed: %v", id, err)
		return
	}
	ref := refHashcom(key[:], msg, wit[:])
	x.Case(id)
	if com != hashcom.Commitment(ref) {
		x.Failf("hashcom/commit/value", "%s: commitment %x differs from keyed BLAKE2b-256(m||w) = %x", id, com[:], ref[:])
	}
	if err := key.Open(com, msg, wit); err != nil {
		x.Failf("hashcom/open/untouched", "%s: Open rejected the untouched (m, w, key, c): %v", id, err)
	}
	lt["accept-untouched"]++
	if chunk == 0 {
		// the message as a sub-slice of a longer live buffer (spare capacity behind it): committing and opening read the
		// message and must leave everything behind it alone
		x.Case(id + "/subslice")
		record := append(append(make([]byte, 0, len(msg)+96), msg...), bytes.Repeat([]byte{0xc3, 0x5a, 0x01}, 32)...)
		tail := append([]byte{}, record[len(msg):]...)
		sub := record[:len(msg)]
		c2, err := key.CommitWithWitness(sub, wit)
		if err != nil || c2 != com {
			x.Failf("hashcom/commit/subslice", "%s: committing to the same bytes held as a sub-slice of a longer buffer gives %x (err %v), not %x", id, c2[:], err, com[:])
		}
		if err := key.Open(com, sub, wit); err != nil {
			x.Failf("hashcom/open/subslice", "%s: Open rejected the message held as a sub-slice of a longer buffer: %v", id, err)
		}
		if !bytes.Equal(record[len(msg):], tail) || !bytes.Equal(sub, msg) {
			x.Failf("hashcom/mutates-argument", "%s: CommitWithWitness / Open wrote into the caller's buffer behind the message (spare capacity of the slice)", id)
		}
		lt["subslice"]++
	}

	// probe evaluates one altered tuple against the definition.
	// (cases of messages above 4 KiB are counted but not entered into the distinct-case set: millions of keys)
	keyed := len(msg) <= 4096
	probe := func(what string, k *hashcom.CommitmentKey, c hashcom.Commitment, m []byte, w hashcom.Witness) {
		if keyed {
			x.Case(id + "/" + what)
		} else {
			x.Case("")
		}
		valid := refHashcom(k[:], m, w[:]) == [32]byte(c)
		err := k.Open(c, m, w)
		switch {
		case valid:
			// the altered tuple is itself a valid opening by definition (would be a BLAKE2b collision): nothing demanded
			lt["degenerate"]++
		case err == nil:
			x.Failf("hashcom/open/accepts-"+fieldOf(what), "%s: Open ACCEPTED after lone change %s", id, what)
		default:
			if !errors.Is(err, commitments.ErrVerificationFailed) {
				lt["reject-other-error"]++
			}
			lt["reject-"+fieldOf(what)]++
		}
	}

	// message: every single bit, and every single-byte length change
	flipped := append([]byte{}, msg...)
	for b := chunk * (8 * len(msg) / chunks); b < (chunk+1)*(8*len(msg)/chunks); b++ {
		flipped[b/8] ^= 0x80 >> (b % 8)
		probe("msg-bit"+strconv.Itoa(b), key, com, flipped, wit)
		flipped[b/8] ^= 0x80 >> (b % 8)
	}
	if chunk > 0 {
		x.Observe(id)
		return
	}
	probe("msg-append00", key, com, append(append([]byte{}, msg...), 0x00), wit)
	probe("msg-prepend00", key, com, append([]byte{0x00}, msg...), wit)
	if len(msg) > 0 {
		probe("msg-droplast", key, com, msg[:len(msg)-1], wit)
		probe("msg-dropfirst", key, com, msg[1:], wit)
		probe("msg-empty", key, com, []byte{}, wit)
	}
	for j, other := range msgs {
		if j != mi {
			probe(fmt.Sprintf("msg-replace%d", j), key, com, other, wit)
		}
	}
	// witness: every single bit, every other alphabet value
	for b := 0; b < 256; b++ {
		var w2 hashcom.Witness
		copy(w2[:], flipBit(wit[:], b))
		probe(fmt.Sprintf("wit-bit%d", b), key, com, msg, w2)
	}
	for j, other := range wits {
		if j != wi {
			probe(fmt.Sprintf("wit-replace%d", j), key, com, msg, other)
		}
	}
	// key: every single bit, every other key
	for b := 0; b < 256; b++ {
		var k2 hashcom.CommitmentKey
		copy(k2[:], flipBit(key[:], b))
		probe(fmt.Sprintf("key-bit%d", b), &k2, com, msg, wit)
	}
	for j := 0; j < hashcomNumKeys; j++ {
		if j != ki {
			probe(fmt.Sprintf("key-replace%d", j), hashcomKey(j), com, msg, wit)
		}
	}
	// commitment: every single bit, the commitment of every other witness
	for b := 0; b < 256; b++ {
		var c2 hashcom.Commitment
		copy(c2[:], flipBit(com[:], b))
		probe(fmt.Sprintf("com-bit%d", b), key, c2, msg, wit)
	}
	for j, other := range wits {
		if j != wi {
			c2, _ := key.CommitWithWitness(msg, other)
			probe(fmt.Sprintf("com-replace%d", j), key, c2, msg, wit)
		}
	}

	// nil message: same byte string as the empty message for the hash; Open documents ErrIsNil for nil arguments.
	if len(msg) == 0 {
		err := key.Open(com, nil, wit)
		switch {
		case err == nil:
			lt["nil-message-accepted"]++
		case errors.Is(err, commitments.ErrIsNil):
			lt["nil-message-refused(ErrIsNil)"]++
		default:
			x.Failf("hashcom/open/nil-message", "%s: Open(nil message) failed with an undocumented error: %v", id, err)
		}
	}
	// nil key is a documented refusal
	if err := (*hashcom.CommitmentKey)(nil).Open(com, msg, wit); err == nil {
		x.Failf("hashcom/open/nil-key", "%s: Open on a nil key accepted", id)
	}

	// generic Commit: samples the witness from the reader and commits with it
	if wi >= 2 {
		c2, w2, err := commitments.Commit(key, msg, newStream(fmt.Sprintf("hashcom/wit/%d", wi-2)))
		x.Case(id + "/Commit")
		if err != nil {
			x.Failf("hashcom/Commit/err", "%s: commitments.Commit failed: %v", id, err)
		} else if w2 != wit || c2 != com {
			x.Failf("hashcom/Commit/value", "%s: commitments.Commit did not use the reader's bytes as witness / differs from CommitWithWitness", id)
		}
	}
	x.Observe(id, fmt.Sprintf("%x", com[:4]))
}

func fieldOf(what string) string {
	for i := 0; i < len(what); i++ {
		if what[i] == '-' {
			return what[:i]
		}
	}
	return what
}
