package c18

import (
	"crypto/sha256"
	"encoding/binary"
	"fmt"
	"math/big"
	"sync"

	"verifmc/engine"
)

// stream is a fixed deterministic byte stream: SHA-256(seed || label || counter) blocks. It is the only source of
// "randomness" handed to the library (keys, witnesses, Equivocate's prng); it never selects which cases run.
type stream struct {
	key [32]byte
	ctr uint64
	buf []byte
}

func newStream(label string) *stream {
	h := sha256.New()
	var s [8]byte
	binary.BigEndian.PutUint64(s[:], uint64(engine.Seed()))
	h.Write([]byte("verif/c18/"))
	h.Write(s[:])
	h.Write([]byte(label))
	st := &stream{}
	copy(st.key[:], h.Sum(nil))
	return st
}

func (s *stream) Read(p []byte) (int, error) {
	for i := range p {
		if len(s.buf) == 0 {
			var c [8]byte
			binary.BigEndian.PutUint64(c[:], s.ctr)
			s.ctr++
			d := sha256.Sum256(append(append([]byte{}, s.key[:]...), c[:]...))
			s.buf = d[:]
		}
		p[i] = s.buf[0]
		s.buf = s.buf[1:]
	}
	return len(p), nil
}

func (s *stream) bytes(n int) []byte {
	b := make([]byte, n)
	_, _ = s.Read(b)
	return b
}

// bigBelow returns a stream-derived integer in [0, n).
func (s *stream) bigBelow(n *big.Int) *big.Int {
	b := s.bytes((n.BitLen()+7)/8 + 16)
	return new(big.Int).Mod(new(big.Int).SetBytes(b), n)
}

// pattern is the fixed 1 KiB-style message pattern (not constant, not periodic in 256).
func pattern(n int) []byte {
	out := make([]byte, n)
	for i := range out {
		out[i] = byte(i*7 + i/251 + 3)
	}
	return out
}

func bi(v int64) *big.Int { return big.NewInt(v) }

func hexBig(s string) *big.Int {
	v, ok := new(big.Int).SetString(s, 16)
	if !ok {
		panic("bad hex constant")
	}
	return v
}

func mod(a, m *big.Int) *big.Int { return new(big.Int).Mod(a, m) }

// flipBit returns a copy of b with bit i (0 = most significant bit of b[0]) inverted.
func flipBit(b []byte, i int) []byte {
	out := append([]byte{}, b...)
	out[i/8] ^= 0x80 >> (i % 8)
	return out
}

// memo caches expensive immutable setup (keys) across executions.
type memo[T any] struct {
	mu sync.Mutex
	m  map[string]*memoEntry[T]
}

type memoEntry[T any] struct {
	once sync.Once
	v    T
}

func (c *memo[T]) get(key string, build func() T) T {
	c.mu.Lock()
	if c.m == nil {
		c.m = map[string]*memoEntry[T]{}
	}
	e, ok := c.m[key]
	if !ok {
		e = &memoEntry[T]{}
		c.m[key] = e
	}
	c.mu.Unlock()
	e.once.Do(func() { e.v = build() })
	return e.v
}

func must[T any](v T, err error) T {
	if err != nil {
		panic(engine.HarnessError{Msg: fmt.Sprintf("harness setup failed: %v", err)})
	}
	return v
}

func short(v *big.Int) string {
	s := v.Text(16)
	if len(s) > 20 {
		return s[:8] + "…" + s[len(s)-8:] + fmt.Sprintf("(%db)", v.BitLen())
	}
	return s
}

// tally counts outcome classes across a section (printed as a section note → vacuity evidence).
type tally struct {
	mu sync.Mutex
	m  map[string]int64
}

func (t *tally) add(k string, n int64) {
	t.mu.Lock()
	if t.m == nil {
		t.m = map[string]int64{}
	}
	t.m[k] += n
	t.mu.Unlock()
}

func (t *tally) String() string {
	t.mu.Lock()
	defer t.mu.Unlock()
	keys := make([]string, 0, len(t.m))
	for k := range t.m {
		keys = append(keys, k)
	}
	sortStrings(keys)
	out := ""
	for _, k := range keys {
		out += fmt.Sprintf("%s=%d ", k, t.m[k])
	}
	return out
}

func sortStrings(s []string) {
	for i := 1; i < len(s); i++ {
		for j := i; j > 0 && s[j] < s[j-1]; j-- {
			s[j], s[j-1] = s[j-1], s[j]
		}
	}
}

// localTally is a per-execution tally merged at the end (avoids lock traffic in inner loops).
type localTally map[string]int64

func (l localTally) flush(t *tally) {
	for k, v := range l {
		t.add(k, v)
	}
}
