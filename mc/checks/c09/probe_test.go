package c09

import (
	"fmt"
	"math/big"
	"os"
	"testing"
	"time"

	"verifmc/ref/cbor"
)

func showTree(name string, msg any, t *cbor.Node) {
	ls := cbor.Leaves(t)
	fmt.Printf("== %s: %d leaves, kinds=%v\n", name, len(ls), cbor.SortedKinds(t))
	for i, l := range ls {
		if i < 6 || i >= len(ls)-3 {
			fmt.Printf("   %s  [%s] len=%d\n", l.Path, l.KindID, len(l.Node.Data))
		}
	}
}

func TestProbe(t *testing.T) {
	if os.Getenv("C09_PROBE") == "" {
		t.Skip()
	}
	seen := map[string]bool{}
	tp := func(name string, root *cbor.Node) {
		if !seen[name] {
			seen[name] = true
			showTree(name, nil, root)
		}
	}
	for _, xi := range []int{8, 128} {
		for l := 1; l <= 3; l += 2 {
			ch := make([]byte, xi/8)
			ch[0] = 0xa5
			t0 := time.Now()
			r, se := runECBBOT(cvK256, xi, l, ch, 1, "p", nil)
			fmt.Printf("ecbbot k256 xi=%d l=%d: %v err=%v\n", xi, l, time.Since(t0), se)
			_ = r
			t0 = time.Now()
			_, se = runECBBOT(cvP256, xi, l, ch, 1, "p", nil)
			fmt.Printf("ecbbot p256 xi=%d l=%d: %v err=%v\n", xi, l, time.Since(t0), se)
			t0 = time.Now()
			_, se = runVSOT(cvK256, xi, l, ch, 1, "p", nil)
			fmt.Printf("vsot k256 xi=%d l=%d: %v err=%v\n", xi, l, time.Since(t0), se)
			t0 = time.Now()
			_, se = runVSOT(cvP256, xi, l, ch, 1, "p", nil)
			fmt.Printf("vsot p256 xi=%d l=%d: %v err=%v\n", xi, l, time.Since(t0), se)
		}
	}
	_, se := runECBBOT(cvK256, 8, 1, []byte{3}, 1, "p", tp)
	fmt.Println(se)
	_, se = runVSOT(cvK256, 8, 1, []byte{3}, 1, "p", tp)
	fmt.Println(se)
	for kind := 0; kind < 2; kind++ {
		t0 := time.Now()
		bs := getSeeds(kind, 0, 1)
		fmt.Printf("seeds %s: %v err=%v\n", bs.name, time.Since(t0), bs.err)
		for _, sh := range [][2]int{{128, 1}, {256, 2}, {8, 16}} {
			ch := make([]byte, sh[0]/8)
			ch[0] = 0x5a
			t0 = time.Now()
			r, se := runExt(bs, sh[0], sh[1], ch, 1, "e", tp)
			fmt.Printf("ext xi=%d l=%d: %v err=%v\n", sh[0], sh[1], time.Since(t0), se)
			if se == nil {
				fmt.Printf("   recv[0][0]=%x send=%x/%x\n", r.recv.Messages[0][0][:4], r.send.Messages[0][0][0][:4], r.send.Messages[0][1][0][:4])
			}
		}
		a := []*big.Int{big.NewInt(5)}
		t0 = time.Now()
		rr, se := runRvoleSoftspoken(cvK256, bs, a, 1, "rs", tp, nil, nil)
		fmt.Printf("rvole softspoken: %v err=%v\n", time.Since(t0), se)
		if se == nil {
			fmt.Printf("  b=%x c=%x d=%x\n", rr.b, rr.c[0], rr.d[0])
		}
	}
	seen = map[string]bool{}
	a := []*big.Int{big.NewInt(5), big.NewInt(7)}
	t0 := time.Now()
	rr, se := runRvoleBBOT(cvK256, a, 1, "rb", tp, func(h *rvoleRun, _ *cbor.Node, again replayBob) {
		t1 := time.Now()
		d, se := again(nil)
		fmt.Printf("  replay: %v err=%v same=%v\n", time.Since(t1), se, se == nil && sameBigs(d, h.d))
		d, se = again(nil)
		fmt.Printf("  replay2: err=%v same=%v\n", se, se == nil && sameBigs(d, h.d))
	})
	fmt.Printf("rvole bbot L=2: %v err=%v\n", time.Since(t0), se)
	if se == nil {
		fmt.Printf("  b=%x c=%x d=%x\n", rr.b, rr.c[0], rr.d[0])
	}
}
