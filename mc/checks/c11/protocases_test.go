package c11

import (
	"crypto/sha256"
	"fmt"
	"sort"
	"sync"

	"github.com/bronlabs/bron-crypto/pkg/base/curves/k256"
	"github.com/bronlabs/bron-crypto/pkg/mpc/signatures/ecdsa/dkls23"
	"github.com/bronlabs/bron-crypto/pkg/mpc/signatures/ecdsa/lindell17"
	"github.com/bronlabs/bron-crypto/pkg/proofs/sigma/compiler/fischlin"
	"github.com/bronlabs/bron-crypto/pkg/signatures/ecdsa"

	"verifmc/engine"
	"verifmc/proto"
	"verifmc/schednet"
)

// P1 (generic): every protocol case of verifmc/proto is executed through its real runners over real routers while
// the network may, within the deviation bound, deliver any message out of FIFO order, deliver any one message twice
// (identical retransmission) and the scheduler may deviate from the default schedule. The outputs must be exactly
// those of the undisturbed run with the same seeds ("as consistent and valid as when driven round by round": the
// undisturbed run is itself compared with the round-by-round API by C03/C01, and P1-session above does it directly).

type zeroChooser struct{}

func (zeroChooser) Choose(string, int) int    { return 0 }
func (zeroChooser) ChooseDev(string, int) int { return 0 }

var (
	refMu   sync.Mutex
	refRuns = map[string]map[proto.ID]string{}
	refPub  = map[string]string{}
)

func digestOf(e *proto.Exec, ids []proto.ID) (map[proto.ID]string, string) {
	out := map[proto.ID]string{}
	for _, id := range ids {
		p := e.Parties[id]
		switch {
		case p == nil:
			out[id] = "missing"
		case p.Panic != "":
			out[id] = "panic: " + p.Panic
		case p.Starved:
			out[id] = "starved"
		case p.Err != nil:
			out[id] = "error: " + firstLine(p.Err.Error())
		case p.Bad != "":
			out[id] = "BAD: " + p.Bad
		default:
			out[id] = "ok " + p.Digest
		}
	}
	pub := e.Pub
	if e.HasAgg {
		pub = fmt.Sprintf("agg ok=%v bad=%q %s", e.AggOK, e.AggBad, e.Pub)
	}
	return out, pub
}

func reference(c *proto.Case, seed int64) (map[proto.ID]string, string) {
	refMu.Lock()
	defer refMu.Unlock()
	k := fmt.Sprintf("%s/%d", c.Name, seed)
	if r, ok := refRuns[k]; ok {
		return r, refPub[k]
	}
	e := c.Run(zeroChooser{}, schednet.New(c.IDs...), seed)
	r, pub := digestOf(e, c.IDs)
	for _, id := range c.IDs {
		if len(r[id]) < 2 || r[id][:2] != "ok" {
			panic(engine.HarnessError{Msg: fmt.Sprintf("reference run of %s failed at party %d: %s", c.Name, id, r[id])})
		}
	}
	refRuns[k], refPub[k] = r, pub
	return r, pub
}

func p1Case(c *proto.Case) func(*engine.X) {
	return func(x *engine.X) {
		seed := engine.Seed()
		want, wantPub := reference(c, seed)
		net := schednet.New(c.IDs...)
		net.FIFO = true
		net.DupDev = true
		e := c.Run(x, net, seed)
		if e.Info.HarnessErr != "" {
			panic(engine.HarnessError{Msg: e.Info.HarnessErr})
		}
		if e.Info.Deadlock != "" {
			x.Failf("runner/deadlock/"+c.Name, "%s: DEADLOCK under a benign delivery order / identical retransmission: %s", c.Name, e.Info.Deadlock)
			return
		}
		got, gotPub := digestOf(e, c.IDs)
		ids := append([]proto.ID{}, c.IDs...)
		sort.Slice(ids, func(i, j int) bool { return ids[i] < ids[j] })
		for _, id := range ids {
			if got[id] != want[id] {
				x.Failf("runner/outcome-differs/"+c.Name, "%s: party %d ended with [%s]; the undisturbed run with the same seeds ends with [%s]", c.Name, id, got[id], want[id])
			}
		}
		if gotPub != wantPub {
			x.Failf("runner/result-differs/"+c.Name, "%s: joint result [%s] differs from the undisturbed run [%s]", c.Name, gotPub, wantPub)
		}
		x.Observe(e.Info.Switches)
	}
}

// ---- Lindell17 two-party ECDSA signing over its runners (4 exchanges, strict ping-pong) ---------------------------

var (
	l17Once   sync.Once
	l17Shards map[proto.ID]*lindell17.Shard[*k256.Point, *k256.BaseFieldElement, *k256.Scalar]
	l17Suite  *ecdsa.Suite[*k256.Point, *k256.BaseFieldElement, *k256.Scalar]
	l17RefSig string
)

func l17Setup() {
	l17Once.Do(func() {
		ids := []proto.ID{1, 2, 3}
		sh, err := proto.C01Lindell17Deal(k256.NewCurve(), proto.Threshold(2, ids...), 1024, 1, "c11")
		if err != nil {
			panic(engine.HarnessError{Msg: "lindell17 dealer: " + err.Error()})
		}
		l17Shards = sh
		s, err := ecdsa.NewSuite(k256.NewCurve(), sha256.New)
		if err != nil {
			panic(engine.HarnessError{Msg: "ecdsa suite: " + err.Error()})
		}
		l17Suite = s
		out := proto.C01Lindell17Run(zeroChooser{}, schednet.New(1, 2), l17Suite, l17Shards, 1, 2, fischlin.Name, []byte("m"), engine.Seed(), "c11")
		sig, ok := out.Sigs["party/1"]
		if !ok || len(out.Errs) != 0 {
			panic(engine.HarnessError{Msg: fmt.Sprintf("lindell17 reference run failed: %v", out.Errs)})
		}
		l17RefSig = fmt.Sprintf("%x/%x", sig.R().Bytes(), sig.S().Bytes())
	})
}

// p1Lindell17: key material is dealt once per worker process (Paillier key generation is not a function of the seed),
// so the reference run and the disturbed runs of one process share it.
func p1Lindell17(x *engine.X) {
	l17Setup()
	net := schednet.New(1, 2)
	net.FIFO = true
	net.DupDev = true
	out := proto.C01Lindell17Run(x, net, l17Suite, l17Shards, 1, 2, fischlin.Name, []byte("m"), engine.Seed(), "c11")
	if out.Info != nil && out.Info.HarnessErr != "" {
		panic(engine.HarnessError{Msg: out.Info.HarnessErr})
	}
	if out.Info != nil && out.Info.Deadlock != "" {
		x.Failf("runner/deadlock/lindell17", "lindell17: DEADLOCK under a benign delivery order / identical retransmission: %s", out.Info.Deadlock)
		return
	}
	for who, err := range out.Errs {
		x.Failf("runner/outcome-differs/lindell17", "lindell17: %s failed under a benign delivery order / identical retransmission: %v; the undisturbed run succeeds", who, firstLine(err.Error()))
	}
	if sig, ok := out.Sigs["party/1"]; ok {
		if got := fmt.Sprintf("%x/%x", sig.R().Bytes(), sig.S().Bytes()); got != l17RefSig {
			x.Failf("runner/result-differs/lindell17", "lindell17: signature %s differs from the undisturbed run %s", got, l17RefSig)
		}
	} else if len(out.Errs) == 0 {
		x.Failf("runner/outcome-differs/lindell17", "lindell17: the primary ended without a signature")
	}
	x.Observe(len(out.Errs))
}

// ---- DKLs23 threshold ECDSA signing over its runners, three cosigners (non-minimal quorum of T(2,3)) -------------
// Three cosigners are needed for rounds to overlap: a fast party can deliver its round-(k+1) unicast to a party that
// still waits for a slow party's round-k message.

var (
	dklsMu     sync.Mutex
	dklsSuite  *ecdsa.Suite[*k256.Point, *k256.BaseFieldElement, *k256.Scalar]
	dklsShards map[proto.ID]*dkls23.Shard[*k256.Point, *k256.BaseFieldElement, *k256.Scalar]
	dklsRef    = map[string]string{}
)

// dklsSetup deals the key once per process and runs the undisturbed reference of the requested multiplier once.
func dklsSetup(mult string) string {
	dklsMu.Lock()
	defer dklsMu.Unlock()
	ids := []proto.ID{1, 2, 3}
	if dklsShards == nil {
		s, err := ecdsa.NewSuite(k256.NewCurve(), sha256.New)
		if err != nil {
			panic(engine.HarnessError{Msg: "ecdsa suite: " + err.Error()})
		}
		dklsSuite = s
		base, err := proto.C01BaseShards(proto.C01Dealer, k256.NewCurve(), proto.Threshold(2, ids...), ids, 1, "c11/dkls23")
		if err != nil {
			panic(engine.HarnessError{Msg: "dkls23 dealer: " + err.Error()})
		}
		sh, err := proto.C01DKLs23Shards[*k256.Point, *k256.BaseFieldElement, *k256.Scalar](base)
		if err != nil {
			panic(engine.HarnessError{Msg: "dkls23 shards: " + err.Error()})
		}
		dklsShards = sh
	}
	if ref, ok := dklsRef[mult]; ok {
		return ref
	}
	out := proto.C01DKLs23Run(zeroChooser{}, schednet.New(ids...), mult, dklsSuite, dklsShards, ids, []byte("m"), engine.Seed(), "c11")
	sig, ok := out.Sigs["agg/outside"]
	if !ok || len(out.Errs) != 0 {
		panic(engine.HarnessError{Msg: fmt.Sprintf("dkls23-%s reference run failed: %v", mult, out.Errs)})
	}
	dklsRef[mult] = fmt.Sprintf("%x/%x", sig.R().Bytes(), sig.S().Bytes())
	return dklsRef[mult]
}

func p1DKLs23(mult string) func(x *engine.X) {
	return func(x *engine.X) {
		want := dklsSetup(mult)
		ids := []proto.ID{1, 2, 3}
		net := schednet.New(ids...)
		net.FIFO = true
		net.DupDev = true
		name := "dkls23-" + mult
		out := proto.C01DKLs23Run(x, net, mult, dklsSuite, dklsShards, ids, []byte("m"), engine.Seed(), "c11")
		if out.Info != nil && out.Info.HarnessErr != "" {
			panic(engine.HarnessError{Msg: out.Info.HarnessErr})
		}
		if out.Info != nil && out.Info.Deadlock != "" {
			x.Failf("runner/deadlock/"+name, "%s: DEADLOCK under a benign delivery order / identical retransmission: %s", name, out.Info.Deadlock)
			return
		}
		for who, err := range out.Errs {
			x.Failf("runner/outcome-differs/"+name, "%s: %s failed under a benign delivery order / identical retransmission: %v; the undisturbed run succeeds", name, who, firstLine(err.Error()))
		}
		if sig, ok := out.Sigs["agg/outside"]; ok {
			if got := fmt.Sprintf("%x/%x", sig.R().Bytes(), sig.S().Bytes()); got != want {
				x.Failf("runner/result-differs/"+name, "%s: signature %s differs from the undisturbed run %s", name, got, want)
			}
		} else if len(out.Errs) == 0 {
			x.Failf("runner/outcome-differs/"+name, "%s: the aggregator ended without a signature", name)
		}
		x.Observe(len(out.Errs))
	}
}
