package c13

import (
	"fmt"
	"math/big"

	"verifmc/engine"
	"verifmc/ref/curve"
)

// Twisted Edwards (edwards25519 and its prime subgroup type) and Montgomery (curve25519 and its prime subgroup type).

type edAPI[P any, F any] struct {
	fromCompressed   func([]byte) (P, error)
	fromUncompressed func([]byte) (P, error)
	fromBytes        func([]byte) (P, error)
	fromAffine       func(F, F) (P, error)
	identity         func() P
	newP             func() P
	fieldFromBytes   func([]byte) (F, error)
	toRef            func(P) (curve.EPoint, error)
	toLib            func(curve.EPoint) (P, error)
}

func edViewRef(E *curve.TECurve) func(curve.EPoint) pview {
	return func(r curve.EPoint) pview {
		F := E.F
		v := pview{x: []*big.Int{F.Red(r.X)}, y: []*big.Int{F.Red(r.Y)}, key: E.Key(r), negKey: E.Key(E.Neg(r)), class: "generic"}
		v.ident = E.IsIdentity(r)
		v.inSub = cachedInSub(E.Name, v.key, func() bool { return E.InSubgroup(r) })
		small := cachedInSub(E.Name+"/small", v.key, func() bool { return E.IsIdentity(E.ScalarMul(E.H, r)) })
		switch {
		case v.ident:
			v.class = "identity"
		case v.x[0].Sign() == 0:
			v.class = "x=0"
		case v.y[0].Sign() == 0:
			v.class = "y=0"
		case small:
			v.class = "small-order"
		case !v.inSub:
			v.class = "outside-subgroup"
		}
		return v
	}
}

type edRefElem struct {
	name string
	pt   curve.EPoint
}

// edRefElems: the 8 small-order points, ±G, 2G..8G, -2G, (q-1)G, (q-2)G and points with a torsion component.
func edRefElems(E *curve.TECurve) []edRefElem {
	var out []edRefElem
	tors := E.SmallOrderPoints()
	for i, t := range tors {
		nm := fmt.Sprintf("T%d", i)
		if i == 0 {
			nm = "O"
		}
		out = append(out, edRefElem{nm, t})
	}
	out = append(out, edRefElem{"G", E.G}, edRefElem{"-G", E.Neg(E.G)})
	maxK := 8
	if engine.Thorough() {
		maxK = 32
	}
	acc := E.G
	for k := 2; k <= maxK; k++ {
		acc = E.Add(acc, E.G)
		out = append(out, edRefElem{fmt.Sprintf("%dG", k), acc})
	}
	g2 := E.Double(E.G)
	out = append(out, edRefElem{"-2G", E.Neg(g2)},
		edRefElem{"(q-1)G", E.ScalarBaseMul(sub(E.Q, bi(1)))}, edRefElem{"(q-2)G", E.ScalarBaseMul(sub(E.Q, bi(2)))})
	for _, i := range []int{1, 2, 4} {
		out = append(out, edRefElem{fmt.Sprintf("G+T%d", i), E.Add(E.G, tors[i])})
	}
	out = append(out, edRefElem{"2G+T3", E.Add(g2, tors[3])})
	seen := map[string]bool{}
	var ded []edRefElem
	for _, e := range out {
		if k := E.Key(e.pt); !seen[k] {
			seen[k] = true
			ded = append(ded, e)
		}
	}
	return ded
}

type edPoint[P any, F any] interface {
	arith[P]
	ToCompressed() []byte
	ToUncompressed() []byte
	Bytes() []byte
	AffineX() (F, error)
	AffineY() (F, error)
}

func named1(l []named) []ncoord {
	var out []ncoord
	for _, e := range l {
		out = append(out, ncoord{e.n, []*big.Int{e.v}})
	}
	return out
}

func newEdwards[P edPoint[P, F], F interface{ Bytes() []byte }](name string, prime bool, api edAPI[P, F]) *codec[P, F] {
	E := curve.Edwards25519()
	p := E.F.Char()
	const n = 32
	viewRef := edViewRef(E)
	view := func(pt P) pview {
		r, err := api.toRef(pt)
		if err != nil {
			return pview{err: err}
		}
		return viewRef(r)
	}
	c := &codec[P, F]{name: name, prime: prime, p: p, view: view, fromAffine: api.fromAffine}
	c.sign = func(v pview) (int, bool) {
		if v.x[0].Sign() == 0 {
			return 0, false // the sign bit of x = 0 carries no information; the library ignores it
		}
		return int(v.x[0].Bit(0)), true
	}
	c.affineOf = func(pt P) (F, F, error) {
		x, err := pt.AffineX()
		if err != nil {
			var z F
			return z, z, err
		}
		y, err := pt.AffineY()
		return x, y, err
	}
	c.fe = func(cs []*big.Int) (F, error) { return api.fieldFromBytes(beBytes(mod(cs[0], p), n)) }
	refEls := edRefElems(E)
	c.elems = func() []elem[P] {
		names := make([]string, len(refEls))
		refs := make([]curve.EPoint, len(refEls))
		for i := range refEls {
			names[i], refs[i] = refEls[i].name, refEls[i].pt
		}
		gen := func() P {
			g, err := api.toLib(E.G)
			if err != nil {
				panic(engine.HarnessError{Msg: name + ": generator: " + err.Error()})
			}
			return g
		}
		return buildElems(names, refs, viewRef, view, api.toLib, gen)
	}
	c.sweepEls = []string{"G", "2G", "O", "-G", "T4"}

	// ordinate alphabet: {0,1,2,p-1,p,p+1,2^k-1}, Gy, y(2G), ordinates of all small-order points and of a point with a
	// torsion component, an ordinate without a point, an unreduced alias of a small valid ordinate
	yAlpha := func(maxBits int) []ncoord {
		var ex []named
		for _, e := range refEls {
			switch e.name {
			case "G", "2G", "G+T1", "T1", "T2", "T3", "T5", "T6", "T7":
				ex = append(ex, named{"y(" + e.name + ")", E.F.Red(e.pt.Y)})
			}
		}
		var noX, small *big.Int
		for t := int64(2); t < 200 && (noX == nil || small == nil); t++ {
			_, _, ok := E.LiftY(bi(t))
			if !ok && noX == nil {
				noX = bi(t)
			}
			if ok && small == nil {
				small = bi(t)
			}
		}
		ex = append(ex, named{"y-without-point", noX}, named{"y(small)", small}, named{"y(small)+p", add(small, p)})
		return named1(coordAlphabet(p, maxBits, ex...))
	}
	xAlpha := func(y *big.Int, maxBits int) []ncoord {
		ex := []named{{"2^255-1", pow2m1(255)}, {"Gx", E.G.X}}
		if ev, od, ok := E.LiftY(mod(y, p)); ok {
			ex = append(ex, named{"root-even", ev.X}, named{"root-odd", od.X}, named{"root-even+p", add(ev.X, p)}, named{"root-odd+p", add(od.X, p)})
		}
		l := []named{{"0", bi(0)}, {"1", bi(1)}, {"p-1", sub(p, bi(1))}, {"p", p}, {fmt.Sprintf("2^%d-1", maxBits), pow2m1(maxBits)}}
		return dedupe(named1(append(l, ex...)), []int{maxBits})
	}

	comp := &bformat[P]{name: "compressed", size: n, dec: api.fromCompressed, enc: func(pt P) []byte { return pt.ToCompressed() }}
	comp.spec = func(d []byte) expect {
		if len(d) != n {
			return expect{reject: "wrong-length"}
		}
		b := append([]byte{}, d...)
		sign := int(b[n-1] >> 7)
		b[n-1] &= 0x7f
		return expect{y: []*big.Int{leInt(b)}, sign: sign}
	}
	comp.inputs = func() []dinput {
		var out []dinput
		for sign := 0; sign < 2; sign++ {
			for _, y := range yAlpha(255) {
				b := leBytes(y.c[0], n)
				b[n-1] |= byte(sign) << 7
				out = append(out, dinput{fmt.Sprintf("sign=%d/y=%s", sign, y.label), b})
			}
		}
		return uniqInputs(out)
	}
	uncomp := &bformat[P]{name: "uncompressed", size: 2 * n, dec: api.fromUncompressed, enc: func(pt P) []byte { return pt.ToUncompressed() }}
	uncomp.spec = func(d []byte) expect {
		if len(d) != 2*n {
			return expect{reject: "wrong-length"}
		}
		return expect{y: []*big.Int{leInt(d[:n])}, x: []*big.Int{leInt(d[n:])}, sign: -1}
	}
	uncomp.inputs = func() []dinput {
		var out []dinput
		for _, y := range yAlpha(256) {
			for _, xx := range xAlpha(y.c[0], 256) {
				out = append(out, dinput{fmt.Sprintf("y=%s/x=%s", y.label, xx.label), cat(leBytes(y.c[0], n), leBytes(xx.c[0], n))})
			}
		}
		return uniqInputs(out)
	}
	c.bases = []*bformat[P]{comp, uncomp}
	c.wraps = append(c.wraps, bytesWrap(0, func(pt P) []byte { return pt.Bytes() }, api.fromBytes))
	if w := binaryWrap(0, api.newP); w != nil {
		c.wraps = append(c.wraps, w)
	}
	c.wraps = append(c.wraps, cborWrap(0, api.newP, api.identity()))
	c.affineInputs = func() []affIn {
		var out []affIn
		for _, y := range yAlpha(256) {
			for _, xx := range xAlpha(y.c[0], 256) {
				out = append(out, affIn{label: "y=" + y.label + "/x=" + xx.label, x: xx.c, y: y.c})
			}
		}
		return out
	}
	return c
}

// ---------------------------------------------------------------------------------------------------------------
// Montgomery

type montAPI[P any, F any] struct {
	fromCompressed   func([]byte) (P, error)
	fromUncompressed func([]byte) (P, error)
	fromBytes        func([]byte) (P, error)
	fromAffine       func(F, F) (P, error)
	identity         func() P
	newP             func() P
	fieldFromBytes   func([]byte) (F, error)
	toRef            func(P) (curve.MPoint, error)
	toLib            func(curve.MPoint) (P, error)
}

func montViewRef(M *curve.MCurve) func(curve.MPoint) pview {
	return func(r curve.MPoint) pview {
		v := pview{inf: r.Inf, ident: r.Inf, key: M.Key(r), negKey: M.Key(M.Neg(r)), class: "generic"}
		if r.Inf {
			v.class, v.inSub = "identity", true
			return v
		}
		v.x, v.y = []*big.Int{M.F.Red(r.U)}, []*big.Int{M.F.Red(r.V)}
		v.inSub = cachedInSub(M.Name, v.key, func() bool { return M.InSubgroup(r) })
		small := cachedInSub(M.Name+"/small", v.key, func() bool { return M.ScalarMul(M.H, r).Inf })
		switch {
		case v.x[0].Sign() == 0:
			v.class = "u=0"
		case small:
			v.class = "small-order"
		case !v.inSub:
			v.class = "outside-subgroup"
		}
		return v
	}
}

func newMontgomery[P edPoint[P, F], F interface{ Bytes() []byte }](name string, prime bool, api montAPI[P, F]) *codec[P, F] {
	M := curve.Curve25519()
	E := curve.Edwards25519()
	p := M.F.Char()
	const n = 32
	viewRef := montViewRef(M)
	view := func(pt P) pview {
		r, err := api.toRef(pt)
		if err != nil {
			return pview{err: err}
		}
		if !M.OnCurve(r) {
			return pview{err: fmt.Errorf("library point %s is not on the reference curve", M.Key(r))}
		}
		return viewRef(r)
	}
	c := &codec[P, F]{name: name, prime: prime, p: p, view: view, fromAffine: api.fromAffine}
	c.sign = func(v pview) (int, bool) { return 0, false }
	c.affineOf = func(pt P) (F, F, error) {
		x, err := pt.AffineX()
		if err != nil {
			var z F
			return z, z, err
		}
		y, err := pt.AffineY()
		return x, y, err
	}
	c.fe = func(cs []*big.Int) (F, error) { return api.fieldFromBytes(beBytes(mod(cs[0], p), n)) }
	type mre struct {
		name string
		pt   curve.MPoint
	}
	var refEls []mre
	{
		seen := map[string]bool{}
		for _, e := range edRefElems(E) {
			m := curve.EdwardsToMontgomery(e.pt)
			if !M.OnCurve(m) {
				panic(engine.HarnessError{Msg: "EdwardsToMontgomery(" + e.name + ") is not on curve25519"})
			}
			if k := M.Key(m); !seen[k] {
				seen[k] = true
				refEls = append(refEls, mre{e.name, m})
			}
		}
	}
	c.elems = func() []elem[P] {
		names := make([]string, len(refEls))
		refs := make([]curve.MPoint, len(refEls))
		for i := range refEls {
			names[i], refs[i] = refEls[i].name, refEls[i].pt
		}
		toLib := func(r curve.MPoint) (P, error) {
			if r.Inf {
				return api.identity(), nil
			}
			return api.toLib(r)
		}
		gen := func() P {
			g, err := api.toLib(M.G)
			if err != nil {
				panic(engine.HarnessError{Msg: name + ": generator: " + err.Error()})
			}
			return g
		}
		return buildElems(names, refs, viewRef, view, toLib, gen)
	}
	c.sweepEls = []string{"G", "2G", "O", "-G", "T4"}

	uAlpha := func() []ncoord {
		var ex []named
		for _, e := range refEls {
			switch e.name {
			case "G", "2G", "G+T1", "T1", "T2", "T3", "T4", "T5", "T6", "T7":
				if !e.pt.Inf {
					ex = append(ex, named{"u(" + e.name + ")", M.F.Red(e.pt.U)})
				}
			}
		}
		var twist, small *big.Int
		for t := int64(2); t < 200 && (twist == nil || small == nil); t++ {
			_, _, ok := M.LiftU(bi(t))
			if !ok && twist == nil {
				twist = bi(t)
			}
			if ok && small == nil {
				small = bi(t)
			}
		}
		top := new(big.Int).Lsh(bi(1), 255)
		ex = append(ex, named{"u-on-twist", twist}, named{"u(small)", small}, named{"u(small)+p", add(small, p)},
			named{"9+p", add(bi(9), p)}, named{"2^255", top}, named{"2^255+9", add(top, bi(9))}, named{"2^255-1", pow2m1(255)})
		return named1(coordAlphabet(p, 256, ex...))
	}
	vAlpha := func(u *big.Int) []ncoord {
		ex := []named{{"2^255-1", pow2m1(255)}, {"Gv", M.G.V}}
		if lo, hi, ok := M.LiftU(mod(u, p)); ok {
			ex = append(ex, named{"root-lo", lo.V}, named{"root-hi", hi.V}, named{"root-lo+p", add(lo.V, p)})
		}
		l := []named{{"0", bi(0)}, {"1", bi(1)}, {"p-1", sub(p, bi(1))}, {"p", p}, {"2^256-1", pow2m1(256)}}
		return dedupe(named1(append(l, ex...)), []int{256})
	}
	zero := func(d []byte) bool {
		for _, b := range d {
			if b != 0 {
				return false
			}
		}
		return true
	}
	comp := &bformat[P]{name: "compressed", size: n, dec: api.fromCompressed, enc: func(pt P) []byte { return pt.ToCompressed() }}
	comp.spec = func(d []byte) expect {
		if len(d) != n {
			return expect{reject: "wrong-length"}
		}
		return expect{x: []*big.Int{leInt(d)}, sign: -1, identOK: zero(d)}
	}
	comp.inputs = func() []dinput {
		var out []dinput
		for _, u := range uAlpha() {
			out = append(out, dinput{"u=" + u.label, leBytes(u.c[0], n)})
		}
		return uniqInputs(out)
	}
	uncomp := &bformat[P]{name: "uncompressed", size: 2 * n, dec: api.fromUncompressed, enc: func(pt P) []byte { return pt.ToUncompressed() }}
	uncomp.spec = func(d []byte) expect {
		if len(d) != 2*n {
			return expect{reject: "wrong-length"}
		}
		return expect{x: []*big.Int{leInt(d[:n])}, y: []*big.Int{leInt(d[n:])}, sign: -1, identOK: zero(d)}
	}
	uncomp.inputs = func() []dinput {
		var out []dinput
		for _, u := range uAlpha() {
			for _, v := range vAlpha(u.c[0]) {
				out = append(out, dinput{"u=" + u.label + "/v=" + v.label, cat(leBytes(u.c[0], n), leBytes(v.c[0], n))})
			}
		}
		return uniqInputs(out)
	}
	c.bases = []*bformat[P]{comp, uncomp}
	c.wraps = append(c.wraps, bytesWrap(0, func(pt P) []byte { return pt.Bytes() }, api.fromBytes))
	if w := binaryWrap(0, api.newP); w != nil {
		c.wraps = append(c.wraps, w)
	}
	c.wraps = append(c.wraps, cborWrap(1, api.newP, api.identity())) // curve25519 CBOR carries the uncompressed form
	c.affineInputs = func() []affIn {
		var out []affIn
		for _, u := range uAlpha() {
			for _, v := range vAlpha(u.c[0]) {
				out = append(out, affIn{label: "u=" + u.label + "/v=" + v.label, x: u.c, y: v.c})
			}
		}
		return out
	}
	return c
}
