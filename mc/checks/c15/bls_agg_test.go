package c15

import (
	"bytes"
	"encoding/hex"
	"fmt"
	"math/big"

	"github.com/bronlabs/bron-crypto/pkg/signatures/bls"

	"verifmc/engine"
	"verifmc/ref/curve"
)

// BLS aggregation: n signers (secret keys derived-A, 1, q-1, derived-B: the middle pair has opposite public keys), the
// same message or pairwise distinct messages, each rogue-key prevention mode, one fault at one position.
// Oracle by definition: the verifier must accept iff every listed key is a valid public key [sk_i]G, the mode's own rule
// holds (basic: messages pairwise distinct; proof of possession: one valid proof [sk_i]H_pop(pk_i) per key; no proofs
// in the other modes) and sigma is the non-identity element sum_i [sk_i]H(m_i') with m_i' = m_i (basic, PoP) or
// pk_i || m_i (message augmentation).

var aggFaults = []string{
	"none",
	"missing-signature",  // the aggregate lacks contributor j, the key list names it
	"missing-key",        // the key / message (/ proof) lists lack contributor j, the aggregate contains its signature
	"foreign-key",        // key j replaced by another valid key (with that key's valid proof in PoP mode)
	"identity-key",       // key j is the identity and the aggregate omits contribution j (would satisfy the pairing product)
	"identity-signature", // contribution j is the identity element (sigma_j - sigma_j) handed to the aggregation
	"subgroup-key",       // key j replaced by pk_j + T, T of cofactor order (outside the prime-order subgroup)
	"duplicate-signature",
	"altered-message",
	"swapped-messages",
	"rogue-key",                                             // last key = [x]G - sum of the other keys, aggregate = attacker's own signature under x
	"pop-missing", "pop-foreign", "pop-swapped", "pop-none", // PoP mode only
	"pops-in-other-mode", // basic / augmentation only: proofs supplied
}

func aggSigner(r *big.Int, i int) *big.Int {
	switch i {
	case 0:
		return secretKey(r, 2)
	case 1:
		return big.NewInt(1)
	case 2:
		return new(big.Int).Sub(r, big.NewInt(1))
	default:
		return secretKey(r, 4)
	}
}

func (c *blsCtx[PK, PKFE, SG, SGFE, EK, ES]) aggBody(tal *tally) func(*engine.X) {
	r := c.r()
	type sigT = bls.Signature[SG, SGFE, PK, PKFE, gtE, scE]
	type pkT = bls.PublicKey[PK, PKFE, SG, SGFE, gtE, scE]
	type popT = bls.ProofOfPossession[SG, SGFE, PK, PKFE, gtE, scE]
	return func(x *engine.X) {
		alg := engine.Pick(x, "mode", blsAlgs)
		n := 1 + x.Choose("n", 4)
		same := x.Choose("messages", 2) == 0
		fault := engine.Pick(x, "fault", aggFaults)
		// positions: all for n <= 3; first and last for n = 4 in the quick tier
		positions := []int{}
		for j := 0; j < n; j++ {
			if engine.Thorough() || n <= 3 || j == 0 || j == n-1 {
				positions = append(positions, j)
			}
		}
		j := positions[x.Choose("pos", len(positions))]
		isPop := alg == bls.POP
		skip := (fault == "none" && j != positions[0]) ||
			(fault == "rogue-key" && (n < 2 || !same || j != positions[0])) ||
			(fault == "swapped-messages" && (n < 2 || same)) ||
			(fault == "pop-swapped" && n < 2) ||
			((fault == "pop-missing" || fault == "pop-foreign" || fault == "pop-swapped" || fault == "pop-none") && !isPop) ||
			(fault == "pops-in-other-mode" && (isPop || j != positions[0])) ||
			(fault == "pop-none" && j != positions[0]) ||
			(fault == "missing-signature" && n < 2)
		if skip {
			x.Trivial()
			return
		}
		id := fmt.Sprintf("blsagg/%s/%s/n=%d/same=%v/%s@%d", c.name, algName(alg), n, same, fault, j)
		x.Case(id)

		sch, err := c.mkScheme(alg)
		if err != nil {
			panic(engine.HarnessError{Msg: err.Error()})
		}
		popScheme := bls.POP // proofs for "pops-in-other-mode" come from PoP-mode signers
		dst := blsDST(c.sigInG2, alg)
		popDst := blsPopDST(c.sigInG2)

		type contrib struct {
			dlog  *big.Int // nil: not a valid public key
			pk    *pkT
			pkEnc []byte
			msg   []byte
		}
		var cs []contrib
		var parts []*sigT
		var pops []*popT
		var popRefs []curve.WPoint[ES]
		sigma := c.refS.Identity()
		msgOf := func(i int) []byte {
			if same {
				return message(1)
			}
			return message(1 + i)
		}
		popOf := func(d *big.Int) (*popT, curve.WPoint[ES]) {
			s, err := c.baseSig(popScheme, d, message(1))
			if err != nil {
				panic(engine.HarnessError{Msg: err.Error()})
			}
			ref, _ := c.sigToRef(s.Pop().Value())
			return s.Pop(), ref
		}
		for i := 0; i < n; i++ {
			d := aggSigner(r, i)
			sg, err := c.baseSig(alg, d, msgOf(i))
			if err != nil {
				panic(engine.HarnessError{Msg: err.Error()})
			}
			sr, _ := c.sigToRef(sg.Value())
			cs = append(cs, contrib{d, c.privateKey(d).PublicKey(), c.keyEnc(c.refK.ScalarBaseMul(d)), msgOf(i)})
			parts = append(parts, sg)
			sigma = c.refS.Add(sigma, sr)
			if isPop || fault == "pops-in-other-mode" {
				p, pr := popOf(d)
				pops, popRefs = append(pops, p), append(popRefs, pr)
			}
		}
		usePops := isPop || fault == "pops-in-other-mode"
		refused := ""
		dropPart := func(k int) {
			sr, _ := c.sigToRef(parts[k].Value())
			sigma = c.refS.Sub(sigma, sr)
			parts = append(append([]*sigT{}, parts[:k]...), parts[k+1:]...)
		}
		foreign := secretKey(r, 3)
		switch fault {
		case "missing-signature":
			dropPart(j)
		case "missing-key":
			cs = append(append([]contrib{}, cs[:j]...), cs[j+1:]...)
			if isPop {
				pops = append(append([]*popT{}, pops[:j]...), pops[j+1:]...)
				popRefs = append(append([]curve.WPoint[ES]{}, popRefs[:j]...), popRefs[j+1:]...)
			}
		case "foreign-key":
			cs[j].dlog, cs[j].pk, cs[j].pkEnc = foreign, c.privateKey(foreign).PublicKey(), c.keyEnc(c.refK.ScalarBaseMul(foreign))
			if isPop {
				pops[j], popRefs[j] = popOf(foreign)
			}
		case "identity-key":
			cs[j].dlog, cs[j].pk, cs[j].pkEnc = nil, c.pkStruct(c.keyGroup.OpIdentity()), nil
			if n > 1 {
				dropPart(j)
			}
		case "subgroup-key":
			out := c.refK.Add(c.refK.ScalarBaseMul(cs[j].dlog), c.torK())
			cs[j].dlog, cs[j].pk, cs[j].pkEnc = nil, c.pkStruct(c.keyLow(out)), nil
		case "identity-signature":
			neg, err := bls.NewSignature(parts[j].Value().Neg(), parts[j].Pop())
			if err != nil {
				panic(engine.HarnessError{Msg: err.Error()})
			}
			idSig, err := parts[j].TryAdd(neg)
			if err != nil {
				refused = "TryAdd(sigma,-sigma): " + errStr(err)
			} else {
				sr, _ := c.sigToRef(parts[j].Value())
				sigma = c.refS.Sub(sigma, sr)
				parts[j] = idSig
			}
		case "duplicate-signature":
			sr, _ := c.sigToRef(parts[j].Value())
			sigma = c.refS.Add(sigma, sr)
			parts = append(parts, parts[j])
		case "altered-message":
			m := append([]byte{}, cs[j].msg...)
			m[0] ^= 1
			cs[j].msg = m
		case "swapped-messages":
			o := (j + 1) % n
			cs[j].msg, cs[o].msg = cs[o].msg, cs[j].msg
		case "rogue-key":
			xk := secretKey(r, 5)
			sum := new(big.Int)
			for i := 0; i < n-1; i++ {
				sum.Add(sum, cs[i].dlog)
			}
			dl := new(big.Int).Sub(xk, sum)
			dl.Mod(dl, r)
			if dl.Sign() == 0 {
				x.Trivial()
				return
			}
			cs[n-1].dlog, cs[n-1].pk, cs[n-1].pkEnc = dl, c.privateKey(dl).PublicKey(), c.keyEnc(c.refK.ScalarBaseMul(dl))
			forged, err := c.baseSig(alg, xk, message(1))
			if err != nil {
				panic(engine.HarnessError{Msg: err.Error()})
			}
			parts = []*sigT{forged}
			sigma, _ = c.sigToRef(forged.Value())
			if isPop {
				pops[n-1], popRefs[n-1] = popOf(xk) // the only proof the attacker can produce
			}
		case "pop-missing":
			pops = append(append([]*popT{}, pops[:j]...), pops[j+1:]...)
			popRefs = append(append([]curve.WPoint[ES]{}, popRefs[:j]...), popRefs[j+1:]...)
		case "pop-foreign":
			pops[j], popRefs[j] = popOf(foreign)
		case "pop-swapped":
			o := (j + 1) % n
			pops[j], pops[o] = pops[o], pops[j]
			popRefs[j], popRefs[o] = popRefs[o], popRefs[j]
		case "pop-none":
			usePops = false
			pops, popRefs = nil, nil
		}

		// library: aggregate through the scheme, then AggregateVerify
		var agg *sigT
		if refused == "" {
			agg, err = sch.AggregateSignatures(parts...)
			if err != nil {
				refused = "AggregateSignatures: " + errStr(err)
			}
		}
		lib := false
		var verr error
		if refused == "" {
			// the aggregate must be the sum of its parts
			if got, err := c.sigToRef(agg.Value()); err != nil || !c.refS.Equal(got, sigma) {
				x.Failf("blsagg/"+c.name+"/aggregate-not-sum", "%s: AggregateSignatures is not the sum of the signatures", id)
			}
			var v *bls.Verifier[PK, PKFE, SG, SGFE, gtE, scE]
			if usePops {
				v, err = sch.Verifier(bls.VerifyWithProofsOfPossession(pops...))
			} else {
				v, err = sch.Verifier()
			}
			if err != nil {
				panic(engine.HarnessError{Msg: err.Error()})
			}
			pks := make([]*pkT, len(cs))
			msgs := make([][]byte, len(cs))
			for i := range cs {
				pks[i], msgs[i] = cs[i].pk, cs[i].msg
			}
			verr = v.AggregateVerify(agg, pks, msgs)
			lib = verr == nil
			tal.add(algName(alg)+"/"+fault, verdictOf(verr))
		} else {
			tal.add(algName(alg)+"/"+fault, vRefuse)
		}

		// verdict by definition
		want := len(cs) > 0 && !sigma.Inf
		for _, ct := range cs {
			if ct.dlog == nil {
				want = false
			}
		}
		if want {
			switch alg {
			case bls.Basic:
				seen := map[string]bool{}
				for _, ct := range cs {
					k := hex.EncodeToString(ct.msg)
					if seen[k] {
						want = false // documented: basic mode requires pairwise distinct messages
					}
					seen[k] = true
				}
				want = want && len(pops) == 0
			case bls.MessageAugmentation:
				want = want && len(pops) == 0
			case bls.POP:
				want = want && len(pops) == len(cs)
				for i := 0; want && i < len(cs); i++ {
					want = c.refS.Equal(popRefs[i], c.expected(cs[i].dlog, popDst, cs[i].pkEnc))
				}
			}
		}
		if want {
			acc := c.refS.Identity()
			for _, ct := range cs {
				m := ct.msg
				if alg == bls.MessageAugmentation {
					m = append(append([]byte{}, ct.pkEnc...), ct.msg...)
				}
				acc = c.refS.Add(acc, c.expected(ct.dlog, dst, m))
			}
			want = c.refS.Equal(acc, sigma)
		}
		if lib != want {
			x.Failf("blsagg/"+c.name+"/"+algName(alg)+"/"+fault, "%s: AggregateVerify accept=%v (err=%s %s) but the by-definition verdict is accept=%v", id, lib, errStr(verr), refused, want)
		}
		x.Observe(id, lib)
	}
}

// AggregateSign / BatchSign of one signer over k messages.
func (c *blsCtx[PK, PKFE, SG, SGFE, EK, ES]) multiBody(tal *tally) func(*engine.X) {
	r := c.r()
	type pkT = bls.PublicKey[PK, PKFE, SG, SGFE, gtE, scE]
	type popT = bls.ProofOfPossession[SG, SGFE, PK, PKFE, gtE, scE]
	faults := []string{"none", "altered-message", "foreign-key"}
	return func(x *engine.X) {
		alg := engine.Pick(x, "mode", blsAlgs)
		ki := x.Choose("key", 3)
		k := 1 + x.Choose("messages", 3)
		same := x.Choose("distinct", 2) == 1
		fault := engine.Pick(x, "fault", faults)
		pos := x.Choose("pos", k)
		if (fault == "none" && pos != 0) || (same && k == 1) {
			x.Trivial()
			return
		}
		id := fmt.Sprintf("blsmulti/%s/%s/%s/k=%d/same=%v/%s@%d", c.name, algName(alg), keyNames[ki], k, same, fault, pos)
		d := secretKey(r, ki)
		sch, _ := c.mkScheme(alg)
		sk := c.privateKey(d)
		signer, err := sch.Signer(sk)
		if err != nil {
			panic(engine.HarnessError{Msg: err.Error()})
		}
		msgs := make([][]byte, k)
		for i := range msgs {
			if same {
				msgs[i] = message(1)
			} else {
				msgs[i] = message(1 + i)
			}
		}
		dst := blsDST(c.sigInG2, alg)
		pkEnc := c.keyEnc(c.refK.ScalarBaseMul(d))
		proc := func(m []byte) []byte {
			if alg == bls.MessageAugmentation {
				return append(append([]byte{}, pkEnc...), m...)
			}
			return m
		}
		// BatchSign: one signature per message, each equal to Sign(m_i) and individually valid
		x.Case(id + "/batch")
		batch, err := signer.BatchSign(msgs...)
		if err != nil || len(batch) != k {
			x.Failf("blsmulti/"+c.name+"/batchsign", "%s: BatchSign: %v", id, err)
			return
		}
		verifier, _ := sch.Verifier()
		for i, bs := range batch {
			one, err := c.baseSig(alg, d, msgs[i])
			if err != nil {
				panic(engine.HarnessError{Msg: err.Error()})
			}
			if !bytes.Equal(one.Bytes(), bs.Bytes()) {
				x.Failf("blsmulti/"+c.name+"/batchsign-differs", "%s: BatchSign[%d] differs from Sign", id, i)
			}
			got, _ := c.sigToRef(bs.Value())
			if !c.refS.Equal(got, c.expected(d, dst, proc(msgs[i]))) {
				x.Failf("blsmulti/"+c.name+"/batchsign-value", "%s: BatchSign[%d] is not [sk]H(m)", id, i)
			}
			vm, vk := msgs[i], sk.PublicKey()
			wantOK := true
			if i == pos && fault == "altered-message" {
				vm = append([]byte{}, vm...)
				vm[0] ^= 1
				wantOK = false
			}
			if i == pos && fault == "foreign-key" {
				vk = c.privateKey(secretKey(r, 3)).PublicKey()
				wantOK = false
			}
			e := verifier.Verify(bs, vk, vm)
			tal.add("batch/"+fault, verdictOf(e))
			if (e == nil) != wantOK {
				x.Failf("blsmulti/"+c.name+"/batch-verify/"+fault, "%s: individual verification of BatchSign[%d] accept=%v want %v (%s)", id, i, e == nil, wantOK, errStr(e))
			}
		}
		// AggregateSign: one signature over all messages, verified against k copies of the key
		x.Case(id + "/aggregate")
		as, err := signer.AggregateSign(msgs...)
		if err != nil {
			x.Failf("blsmulti/"+c.name+"/aggregatesign", "%s: AggregateSign: %v", id, err)
			return
		}
		got, _ := c.sigToRef(as.Value())
		acc := c.refS.Identity()
		for _, m := range msgs {
			acc = c.refS.Add(acc, c.expected(d, dst, proc(m)))
		}
		if !c.refS.Equal(got, acc) {
			x.Failf("blsmulti/"+c.name+"/aggregatesign-value", "%s: AggregateSign is not sum [sk]H(m_i)", id)
		}
		pks := make([]*pkT, k)
		vmsgs := make([][]byte, k)
		dl := make([]*big.Int, k)
		encs := make([][]byte, k)
		for i := range pks {
			pks[i], vmsgs[i], dl[i], encs[i] = sk.PublicKey(), msgs[i], d, pkEnc
		}
		if fault == "altered-message" {
			m := append([]byte{}, vmsgs[pos]...)
			m[0] ^= 1
			vmsgs[pos] = m
		}
		if fault == "foreign-key" {
			f := secretKey(r, 3)
			pks[pos], dl[pos], encs[pos] = c.privateKey(f).PublicKey(), f, c.keyEnc(c.refK.ScalarBaseMul(f))
		}
		var v *bls.Verifier[PK, PKFE, SG, SGFE, gtE, scE]
		if alg == bls.POP {
			ps := make([]*popT, k)
			for i := range ps {
				s, _ := c.baseSig(bls.POP, dl[i], message(1))
				ps[i] = s.Pop()
			}
			v, err = sch.Verifier(bls.VerifyWithProofsOfPossession(ps...))
		} else {
			v, err = sch.Verifier()
		}
		if err != nil {
			panic(engine.HarnessError{Msg: err.Error()})
		}
		verr := v.AggregateVerify(as, pks, vmsgs)
		tal.add("aggregatesign/"+algName(alg)+"/"+fault, verdictOf(verr))
		want := !got.Inf
		if alg == bls.Basic {
			seen := map[string]bool{}
			for _, m := range vmsgs {
				if seen[string(m)] {
					want = false
				}
				seen[string(m)] = true
			}
		}
		if want {
			acc := c.refS.Identity()
			for i := range vmsgs {
				m := vmsgs[i]
				if alg == bls.MessageAugmentation {
					m = append(append([]byte{}, encs[i]...), m...)
				}
				acc = c.refS.Add(acc, c.expected(dl[i], dst, m))
			}
			want = c.refS.Equal(acc, got)
		}
		if (verr == nil) != want {
			x.Failf("blsmulti/"+c.name+"/aggregate-verify/"+algName(alg)+"/"+fault, "%s: AggregateVerify of an AggregateSign output accept=%v (%s), by definition %v", id, verr == nil, errStr(verr), want)
		}
		x.Observe(id, verr == nil)
	}
}

func runBLSAggregate() {
	s, l := blsShort(), blsLong()
	for _, f := range []func(){
		func() {
			t := newTally()
			t.note(engine.Explore(s.aggBody(t), engine.Opts{Name: "bls-aggregate/short", Budget: budget(6, 30)}))
		},
		func() {
			t := newTally()
			t.note(engine.Explore(l.aggBody(t), engine.Opts{Name: "bls-aggregate/long", Budget: budget(6, 30)}))
		},
		func() {
			t := newTally()
			t.note(engine.Explore(s.multiBody(t), engine.Opts{Name: "bls-multi/short", Budget: budget(4, 20)}))
		},
		func() {
			t := newTally()
			t.note(engine.Explore(l.multiBody(t), engine.Opts{Name: "bls-multi/long", Budget: budget(4, 20)}))
		},
	} {
		f()
	}
}
