// Package det provides deterministic, concurrency-safe byte streams for the io.Reader parameters of the library.
// Randomness is an explicit INPUT of every protocol; checks fix it so that executions are reproducible.
package det

import (
	"crypto/sha256"
	"encoding/binary"
	"fmt"
	"io"
	"sync"
)

// Stream is a SHA-256 counter-mode byte stream keyed by (seed, label). Safe for concurrent use.
type Stream struct {
	mu    sync.Mutex
	key   [32]byte
	ctr   uint64
	buf   []byte
	Bytes int64 // total bytes handed out
	Calls int64 // number of Read calls
	Label string
	Seed  int64
	flip  int64    // Read call index answered from the alternate key (-1 = none)
	alt   [32]byte // alternate key
}

// New returns the stream for (seed, label).
func New(seed int64, label string) *Stream {
	s := &Stream{key: sha256.Sum256([]byte(fmt.Sprintf("verif-det|%d|%s", seed, label))), Label: label, Seed: seed, flip: -1}
	regMu.Lock()
	if f, ok := flips[flipKey{seed, label}]; ok {
		s.flip = f
		s.alt = sha256.Sum256([]byte(fmt.Sprintf("verif-det-alt|%d|%s|%d", seed, label, f)))
	}
	if recording {
		created = append(created, s)
	}
	regMu.Unlock()
	return s
}

type flipKey struct {
	seed  int64
	label string
}

var (
	regMu     sync.Mutex
	flips     = map[flipKey]int64{}
	created   []*Stream
	recording bool
)

// SetFlip makes every stream created later for (seed, label) answer its k-th Read call (0-based) with different
// bytes (all other calls unchanged): "the same party with exactly one random choice made differently".
func SetFlip(seed int64, label string, k int64) {
	regMu.Lock()
	flips[flipKey{seed, label}] = k
	regMu.Unlock()
}

// ClearFlips removes all flips.
func ClearFlips() {
	regMu.Lock()
	flips = map[flipKey]int64{}
	regMu.Unlock()
}

// Record starts recording the streams created from now on; Recorded returns them and stops.
func Record() {
	regMu.Lock()
	recording, created = true, nil
	regMu.Unlock()
}

// Recorded returns the streams created since Record.
func Recorded() []*Stream {
	regMu.Lock()
	defer regMu.Unlock()
	recording = false
	out := created
	created = nil
	return out
}

func (s *Stream) Read(p []byte) (int, error) {
	s.mu.Lock()
	defer s.mu.Unlock()
	call := s.Calls
	s.Calls++
	n := len(p)
	if call == s.flip {
		// consume the same amount of the main stream (so later calls are unchanged) but answer from the alternate key
		defer func() {
			var ctr uint64
			for off := 0; off < n; off += 32 {
				var blk [40]byte
				copy(blk[:], s.alt[:])
				binary.LittleEndian.PutUint64(blk[32:], ctr)
				ctr++
				h := sha256.Sum256(blk[:])
				copy(p[off:], h[:])
			}
		}()
	}
	for len(s.buf) < n {
		var blk [40]byte
		copy(blk[:], s.key[:])
		binary.LittleEndian.PutUint64(blk[32:], s.ctr)
		s.ctr++
		h := sha256.Sum256(blk[:])
		s.buf = append(s.buf, h[:]...)
	}
	copy(p, s.buf[:n])
	s.buf = s.buf[n:]
	s.Bytes += int64(n)
	return n, nil
}

var _ io.Reader = (*Stream)(nil)
