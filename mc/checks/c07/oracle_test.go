package c07

import (
	"bytes"
	"fmt"
	"regexp"
	"sort"
	"strings"

	"verifmc/ref/cbor"
)

// baseCid strips the transport suffixes: "<round>BROADCAST:…" / "<round>UNICAST:…" -> "<round>".
func baseCid(cid string) string {
	for _, s := range []string{"BROADCAST:", "UNICAST:"} {
		if i := strings.Index(cid, s); i >= 0 {
			return cid[:i]
		}
	}
	return cid
}

// kindCid keeps the round and whether it is the broadcast or the unicast part, drops the echo layer name.
func kindCid(cid string) string {
	cid = strings.TrimSuffix(cid, ":EchoRound1P2P")
	return cid
}

// isEcho2: echo round 2 carries digests of OTHER parties' broadcasts; it is transport, not a protocol message.
func isEcho2(cid string) bool { return strings.HasSuffix(cid, ":EchoRound2P2P") }

var idxRe = regexp.MustCompile(`\[(\d+)\]`)

func normPath(p string) string { return idxRe.ReplaceAllString(p, "[*]") }

// canonPath additionally strips the echo-broadcast wrapper, so that a broadcast has the same leaf paths whether it
// travelled through the echo protocol (n>=3) or directly (n=2).
func canonPath(p string) string { return normPath(stripEcho(p)) }

func stripEcho(p string) string {
	if strings.HasPrefix(p, "$>payload>~") {
		p = "$" + strings.TrimPrefix(p, "$>payload>~")
	}
	return p
}

// leafMap parses a payload and returns path -> encoded leaf, plus the ordered path list.
func leafMap(payload []byte) (map[string][]byte, []cbor.Ref, error) {
	tr, err := cbor.Parse(payload)
	if err != nil {
		return nil, nil, err
	}
	ls := cbor.Leaves(tr)
	m := make(map[string][]byte, len(ls))
	for _, r := range ls {
		m[r.Path] = cbor.Encode(r.Node)
	}
	return m, ls, nil
}

// diffPayload compares two payloads leaf by leaf. It returns the paths (of a) whose leaf differs or is absent in b,
// and the paths present only in b.
func diffPayload(a, b []byte) (differing []string, err error) {
	if bytes.Equal(a, b) {
		return nil, nil
	}
	ma, la, err := leafMap(a)
	if err != nil {
		return nil, fmt.Errorf("payload A unparsable: %w", err)
	}
	mb, lb, err := leafMap(b)
	if err != nil {
		return nil, fmt.Errorf("payload B unparsable: %w", err)
	}
	for _, r := range la {
		if vb, ok := mb[r.Path]; !ok || !bytes.Equal(ma[r.Path], vb) {
			differing = append(differing, r.Path)
		}
	}
	for _, r := range lb {
		if _, ok := ma[r.Path]; !ok {
			differing = append(differing, r.Path+"(only in second run)")
		}
	}
	if len(differing) == 0 {
		differing = append(differing, "$(structure)")
	}
	return differing, nil
}

func byKey(ms []*msg) map[string]*msg {
	m := make(map[string]*msg, len(ms))
	for _, x := range ms {
		m[x.key] = x
	}
	return m
}

// leafDiff is one differing leaf between two runs.
type leafDiff struct {
	key  string // message key
	cid  string
	from ID
	path string
}

// diffRuns lists every differing leaf between the messages of two runs (filter selects the messages compared).
func diffRuns(a, b *outcome, filter func(*msg) bool) (diffs []leafDiff, errs []string) {
	mb := byKey(b.msgs)
	seen := map[string]bool{}
	for _, m := range a.msgs {
		if filter != nil && !filter(m) {
			continue
		}
		seen[m.key] = true
		o, ok := mb[m.key]
		if !ok {
			diffs = append(diffs, leafDiff{m.key, m.cid, m.from, "(message absent in second run)"})
			continue
		}
		ps, err := diffPayload(m.payload, o.payload)
		if err != nil {
			errs = append(errs, m.key+": "+err.Error())
			continue
		}
		for _, p := range ps {
			diffs = append(diffs, leafDiff{m.key, m.cid, m.from, p})
		}
	}
	for _, m := range b.msgs {
		if filter != nil && !filter(m) {
			continue
		}
		if !seen[m.key] {
			diffs = append(diffs, leafDiff{m.key, m.cid, m.from, "(message absent in first run)"})
		}
	}
	return diffs, errs
}

// bigLeaves returns the byte-string leaves of at least 16 bytes of a payload: path -> raw value. Shorter leaves
// (integers, identifiers, flags, packed choice bits of a few bytes) can coincide by chance and carry no demand.
func bigLeaves(payload []byte) (map[string][]byte, []string) {
	tr, err := cbor.Parse(payload)
	if err != nil {
		return nil, nil
	}
	out := map[string][]byte{}
	var order []string
	for _, r := range cbor.Leaves(tr) {
		if r.Node.Kind == cbor.Bytes && len(r.Node.Data) >= 16 {
			out[r.Path] = r.Node.Data
			order = append(order, r.Path)
		}
	}
	return out, order
}

// registry implements oracle (4): a value may only re-occur under the SAME stream signature.
type registry struct {
	m map[string]regEntry
}

type regEntry struct{ sig, where string }

type conflict struct {
	value        string
	sigA, whereA string
	sigB, whereB string
}

func newRegistry() *registry { return &registry{m: map[string]regEntry{}} }

func (r *registry) add(value []byte, sig, where string) *conflict {
	k := string(value)
	if e, ok := r.m[k]; ok {
		if e.sig != sig {
			return &conflict{fmt.Sprintf("%x", value), e.sig, e.where, sig, where}
		}
		return nil
	}
	r.m[k] = regEntry{sig, where}
	return nil
}

func sortedKeys[V any](m map[string]V) []string {
	ks := make([]string, 0, len(m))
	for k := range m {
		ks = append(ks, k)
	}
	sort.Strings(ks)
	return ks
}

// jointName maps "share/2/0" to "share" (finding keys are index independent).
func jointName(k string) string {
	if i := strings.IndexByte(k, '/'); i >= 0 {
		return k[:i]
	}
	return k
}
