package c15

import (
	"crypto/sha256"
	"crypto/sha3"
	"crypto/sha512"
	"fmt"
	"hash"
	"math/big"

	"github.com/bronlabs/bron-crypto/pkg/base/algebra"
	"github.com/bronlabs/bron-crypto/pkg/base/curves/edwards25519"
	"github.com/bronlabs/bron-crypto/pkg/base/curves/k256"
	"github.com/bronlabs/bron-crypto/pkg/base/curves/p256"
	"github.com/bronlabs/bron-crypto/pkg/base/curves/pasta"
	"github.com/bronlabs/bron-crypto/pkg/signatures"
	"github.com/bronlabs/bron-crypto/pkg/signatures/schnorrlike"
	vanilla "github.com/bronlabs/bron-crypto/pkg/signatures/schnorrlike/schnorr"

	"verifmc/det"
	"verifmc/engine"
	"verifmc/ref/conv"
	"verifmc/ref/curve"
	"verifmc/ref/curve/libcurve"
	"verifmc/ref/sig"
)

type namedHash struct {
	name string
	new  func() hash.Hash
}

var schnorrHashes = []namedHash{
	{"sha256", sha256.New},
	{"sha512", sha512.New},
	{"blake2b256", newBlake2b256},
	{"sha3-256", func() hash.Hash { return sha3.New256() }},
}

// snCtx binds one library prime-order group to its reference model.
type snCtx[GE algebra.PrimeGroupElement[GE, S], S algebra.PrimeFieldElement[S], RP any] struct {
	name      string
	group     algebra.PrimeGroup[GE, S]
	sf        algebra.PrimeField[S]
	ref       sig.SchnorrGroup[RP]
	toRef     func(GE) (RP, error)
	toLib     func(RP) (GE, error)
	decode    func([]byte) (GE, error) // the library's point decoder (Point.Bytes() format)
	refDecode func([]byte) (RP, bool)  // independent decoder of the same format
	odd       func(GE) bool            // parity rule usable as shouldNegateNonce
	tal       *tally
}

type snConfig struct {
	h      namedHash
	le     bool
	neg    bool
	parity bool // shouldNegateNonce = "R has odd y" (signer side only)
}

func (c snConfig) String() string {
	return fmt.Sprintf("%s/le=%v/neg=%v/parity=%v", c.h.name, c.le, c.neg, c.parity)
}

func snConfigs() []snConfig {
	hs := schnorrHashes[:3]
	if engine.Thorough() {
		hs = schnorrHashes
	}
	var out []snConfig
	for _, h := range hs {
		for _, le := range []bool{true, false} {
			for _, neg := range []bool{false, true} {
				out = append(out, snConfig{h, le, neg, false})
				if h.name == "sha256" || engine.Thorough() {
					out = append(out, snConfig{h, le, neg, true})
				}
			}
		}
	}
	return out
}

// (key, message) pairs: factorised = every key x "a" plus the derived key x every message; otherwise the full product.
func keyMsgPairs(fullProduct bool) [][2]int {
	var out [][2]int
	for k := 0; k < 3; k++ {
		for m := 0; m < len(msgNames); m++ {
			if fullProduct || m == 1 || k == 2 {
				out = append(out, [2]int{k, m})
			}
		}
	}
	return out
}

func (c *snCtx[GE, S, RP]) pkStruct(p GE) *vanilla.PublicKey[GE, S] {
	return &schnorrlike.PublicKey[GE, S]{PublicKeyTrait: signatures.PublicKeyTrait[GE, S]{V: p}}
}

func (c *snCtx[GE, S, RP]) body() func(*engine.X) {
	cfgs := snConfigs()
	q := c.ref.Order()
	return func(x *engine.X) {
		cfg := engine.Pick(x, "config", cfgs)
		// the configuration the library's own tests and documentation name: SHA-256, little-endian challenge, s = k + e*x
		named := cfg.h.name == "sha256" && cfg.le && !cfg.neg && !cfg.parity
		km := engine.Pick(x, "key,msg", keyMsgPairs(engine.Thorough() && named))
		ki, mi := km[0], km[1]
		// all bits of the encoding: quick = the named configuration on (derived key, "a"); thorough = the named configuration
		// on every (key, message) and every other configuration on (derived key, "a"); the boundary bit subset elsewhere
		full := (named && mi == 1 && ki == 2) || (engine.Thorough() && (named || (mi == 1 && ki == 2)))
		nChunks := 1
		if full {
			nChunks = 8
		}
		chunk := x.Choose("chunk", nChunks)
		id := fmt.Sprintf("schnorr/%s/%s/%s/%s", c.name, cfg, keyNames[ki], msgNames[mi])
		rcfg := sig.SchnorrConfig{Hash: cfg.h.new, LittleEndian: cfg.le, NegResponse: cfg.neg}

		var parity func(GE) bool
		if cfg.parity {
			parity = c.odd
		}
		scheme, err := vanilla.NewScheme(c.group, cfg.h.new, cfg.neg, cfg.le, parity, det.New(engine.Seed(), "c15-"+id))
		if err != nil {
			panic(engine.HarnessError{Msg: err.Error()})
		}
		d := secretKey(q, ki)
		msg := message(mi)
		skv := conv.FromBig(c.sf, q, d)
		pk, err := vanilla.NewPublicKey(c.group.ScalarBaseOp(skv))
		if err != nil {
			panic(engine.HarnessError{Msg: err.Error()})
		}
		sk, err := vanilla.NewPrivateKey(skv, pk)
		if err != nil {
			panic(engine.HarnessError{Msg: err.Error()})
		}
		signer, err := scheme.Signer(sk)
		if err != nil {
			panic(engine.HarnessError{Msg: err.Error()})
		}
		sg, err := signer.Sign(msg)
		if err != nil {
			x.Failf("schnorr/"+c.name+"/sign", "%s: Sign failed: %v", id, err)
			return
		}
		if cfg.parity && c.odd(sg.R) {
			x.Failf("schnorr/"+c.name+"/nonce-parity", "%s: the nonce commitment violates the configured parity rule", id)
		}
		verifier, err := scheme.Verifier()
		if err != nil {
			panic(engine.HarnessError{Msg: err.Error()})
		}
		ser, err := scheme.Variant().SerializeSignature(sg)
		if err != nil {
			x.Failf("schnorr/"+c.name+"/serialize", "%s: %v", id, err)
			return
		}
		sLen := c.sf.ElementSize()
		rLen := len(ser) - sLen
		pkRef := c.ref.Mul(d, c.ref.Generator())

		type alt struct {
			label string
			sig   *vanilla.Signature[GE, S]
			why   string
			pk    *vanilla.PublicKey[GE, S]
			// reference inputs
			refOK bool // the altered components exist in the reference (decodable, key has coordinates)
			rR    RP
			rS    *big.Int
			rPk   RP
			msg   []byte
		}
		var alts []alt
		mk := func(R GE, s S) *vanilla.Signature[GE, S] {
			return &schnorrlike.Signature[GE, S]{E: sg.E, R: R, S: s}
		}
		addStruct := func(label string, s *vanilla.Signature[GE, S], p *vanilla.PublicKey[GE, S], rpk RP, m []byte) {
			rr, err := c.toRef(s.R)
			alts = append(alts, alt{label: label, sig: s, pk: p, refOK: err == nil, rR: rr, rS: conv.ToBig(s.S), rPk: rpk, msg: m})
		}
		addStruct("none", sg, pk, pkRef, msg)
		// every bit of Bytes(R) || Bytes(s) through the curve's and the field's decoders
		for _, i := range bitSet(8*len(ser), full) {
			e := flipBitBE(ser, i)
			part, bi := "s", i
			if i >= 8*sLen {
				part, bi = "R", i-8*sLen
			}
			a := alt{label: fmt.Sprintf("enc/%s/bit%d", part, bi), pk: pk, rPk: pkRef, msg: msg}
			sInt := new(big.Int).SetBytes(e[rLen:])
			if sInt.Cmp(q) >= 0 {
				// no canonical scalar has this encoding and the scheme has no signature decoder of its own: not a signature
				x.Case(id + "/" + a.label + "/s>=q")
				continue
			}
			a.rS = sInt
			a.rR, a.refOK = c.refDecode(e[:rLen])
			R2, err := c.decode(e[:rLen])
			if err != nil {
				a.why = "point decoder: " + errStr(err)
			} else {
				a.sig = mk(R2, conv.FromBig(c.sf, q, sInt))
			}
			alts = append(alts, a)
		}
		one := c.sf.One()
		addStruct("R/neg", mk(sg.R.OpInv(), sg.S), pk, pkRef, msg)
		addStruct("R/double", mk(sg.R.Op(sg.R), sg.S), pk, pkRef, msg)
		addStruct("R/identity", mk(c.group.OpIdentity(), sg.S), pk, pkRef, msg)
		addStruct("s/neg", mk(sg.R, sg.S.Neg()), pk, pkRef, msg)
		addStruct("s/plus1", mk(sg.R, sg.S.Add(one)), pk, pkRef, msg)
		addStruct("s/zero", mk(sg.R, c.sf.Zero()), pk, pkRef, msg)
		if _, err := schnorrlike.NewSignature(sg.E, sg.R, c.sf.Zero()); err == nil {
			x.Failf("schnorr/"+c.name+"/s-zero-constructible", "%s: NewSignature accepted s = 0", id)
		}
		mkPk := func(p RP) *vanilla.PublicKey[GE, S] {
			lp, err := c.toLib(p)
			if err != nil {
				panic(engine.HarnessError{Msg: "toLib: " + err.Error()})
			}
			k, err := vanilla.NewPublicKey(lp)
			if err != nil {
				panic(engine.HarnessError{Msg: "NewPublicKey: " + err.Error()})
			}
			return k
		}
		neg, dbl, fo := c.ref.Neg(pkRef), c.ref.Add(pkRef, pkRef), c.ref.Mul(secretKey(q, 3), c.ref.Generator())
		addStruct("key/neg", sg, mkPk(neg), neg, msg)
		addStruct("key/double", sg, mkPk(dbl), dbl, msg)
		addStruct("key/foreign", sg, mkPk(fo), fo, msg)
		if _, err := vanilla.NewPublicKey(c.group.OpIdentity()); err == nil {
			x.Failf("schnorr/"+c.name+"/key/identity-constructible", "%s: NewPublicKey accepted the identity", id)
		}
		addStruct("key/identity(struct)", sg, c.pkStruct(c.group.OpIdentity()), c.ref.Identity(), msg)
		for _, ma := range messageAlterations(msg, 0, engine.Thorough() && named) {
			addStruct(ma.label, sg, pk, pkRef, ma.msg)
		}

		var nAcc, nRej int
		for idx, a := range alts {
			if idx%nChunks != chunk {
				continue
			}
			x.Case(id + "/" + a.label)
			lib := false
			var verr error
			if a.sig != nil {
				verr = verifier.Verify(a.sig, a.pk, a.msg)
				lib = verr == nil
				c.tal.add(class(a.label), verdictOf(verr))
			} else {
				c.tal.add(class(a.label), vRefuse)
			}
			want := a.refOK && sig.SchnorrVerify(c.ref, rcfg, a.rPk, a.rR, a.rS, a.msg)
			if lib != want {
				x.Failf("schnorr/"+c.name+"/"+class(a.label), "%s alteration %s: library accept=%v (err=%s %s), reference accept=%v; s=%x msg=%x", id, a.label, lib, errStr(verr), a.why, want, a.rS, trunc(a.msg))
			}
			if lib {
				nAcc++
			} else {
				nRej++
			}
		}
		x.Observe(id, chunk, "acc", nAcc, "rej", nRej)
	}
}

// independent point decoders -------------------------------------------------------------------------------------

func sec1Decode(c *curve.FpCurve) func([]byte) (curve.FpPoint, bool) {
	return func(b []byte) (curve.FpPoint, bool) {
		n := c.F.ByteLen()
		if len(b) != 1+n || (b[0] != 2 && b[0] != 3) {
			return c.Identity(), false
		}
		xc := new(big.Int).SetBytes(b[1:])
		if xc.Cmp(c.F.Char()) >= 0 {
			return c.Identity(), false
		}
		return curve.LiftXOdd(c, xc, b[0] == 3)
	}
}

func pastaDecode(c *curve.FpCurve) func([]byte) (curve.FpPoint, bool) {
	return func(b []byte) (curve.FpPoint, bool) {
		n := c.F.ByteLen()
		if len(b) != n {
			return c.Identity(), false
		}
		be := make([]byte, n)
		for i := range b {
			be[n-1-i] = b[i]
		}
		odd := be[0]>>7 == 1
		be[0] &= 0x7f
		xc := new(big.Int).SetBytes(be)
		if xc.Cmp(c.F.Char()) >= 0 {
			return c.Identity(), false
		}
		return curve.LiftXOdd(c, xc, odd)
	}
}

func ed25519Decode(b []byte) (curve.EPoint, bool) {
	E := curve.Edwards25519()
	p, ok := E.Decompress(b)
	if !ok || !E.InSubgroup(p) {
		return E.Identity(), false
	}
	return p, true
}

func yOdd[P interface {
	AffineY() (F, error)
}, F interface{ IsOdd() bool }](p P) bool {
	y, err := p.AffineY()
	return err == nil && y.IsOdd()
}

func runSchnorr() {
	ak := libcurve.K256()
	kc := &snCtx[*k256.Point, *k256.Scalar, curve.FpPoint]{
		name: "k256", group: k256.NewCurve(), sf: k256.NewScalarField(), ref: sig.K256Group(), toRef: ak.TryToRef, toLib: ak.TryToLib,
		decode: k256.NewCurve().FromBytes, refDecode: sec1Decode(ak.Ref), odd: yOdd[*k256.Point, *k256.BaseFieldElement], tal: newTally(),
	}
	ap := libcurve.P256()
	pc := &snCtx[*p256.Point, *p256.Scalar, curve.FpPoint]{
		name: "p256", group: p256.NewCurve(), sf: p256.NewScalarField(), ref: sig.P256Group(), toRef: ap.TryToRef, toLib: ap.TryToLib,
		decode: p256.NewCurve().FromBytes, refDecode: sec1Decode(ap.Ref), odd: yOdd[*p256.Point, *p256.BaseFieldElement], tal: newTally(),
	}
	ae := libcurve.Edwards25519Prime()
	ec := &snCtx[*edwards25519.PrimeSubGroupPoint, *edwards25519.Scalar, curve.EPoint]{
		name: "ed25519", group: edwards25519.NewPrimeSubGroup(), sf: edwards25519.NewScalarField(), ref: sig.Ed25519Group(), toRef: ae.TryToRef, toLib: ae.TryToLib,
		decode: edwards25519.NewPrimeSubGroup().FromBytes, refDecode: ed25519Decode,
		odd: func(p *edwards25519.PrimeSubGroupPoint) bool {
			xc, err := p.AffineX()
			return err == nil && xc.IsOdd()
		}, tal: newTally(),
	}
	al := libcurve.Pallas()
	lc := &snCtx[*pasta.PallasPoint, *pasta.PallasScalar, curve.FpPoint]{
		name: "pallas", group: pasta.NewPallasCurve(), sf: pasta.NewPallasScalarField(), ref: sig.PallasGroup(), toRef: al.TryToRef, toLib: al.TryToLib,
		decode: pasta.NewPallasCurve().FromBytes, refDecode: pastaDecode(al.Ref), odd: yOdd[*pasta.PallasPoint, *pasta.PallasBaseFieldElement], tal: newTally(),
	}
	kc.tal.note(engine.Explore(kc.body(), engine.Opts{Name: "schnorr/k256", Budget: budget(3, 25)}))
	pc.tal.note(engine.Explore(pc.body(), engine.Opts{Name: "schnorr/p256", Budget: budget(3, 25)}))
	ec.tal.note(engine.Explore(ec.body(), engine.Opts{Name: "schnorr/ed25519", Budget: budget(3, 25)}))
	lc.tal.note(engine.Explore(lc.body(), engine.Opts{Name: "schnorr/pallas", Budget: budget(3, 25)}))
}
