package c14

import (
	bls12381Impl "github.com/bronlabs/bron-crypto/pkg/base/curves/pairable/bls12381/impl"
	"bytes"
	"fmt"
	"math/big"
	"sync"

	"github.com/bronlabs/bron-crypto/pkg/base/curves/k256"
	"github.com/bronlabs/bron-crypto/pkg/base/curves/pairable/bls12381"
	"github.com/bronlabs/bron-crypto/pkg/base/nt/num"
	"github.com/bronlabs/bron-crypto/pkg/base/utils/algebrautils"

	"verifmc/engine"
	"verifmc/ref/curve"
	"verifmc/ref/curve/libcurve"
)

// ---------------------------------------------------------------------------------------------------------------
// generic fixed-window ScalarMul / bucket MultiScalarMul of pkg/base/utils/algebrautils, on k256 points

type beNum []byte // an UnsignedNumeric given by raw big-endian bytes (leading zeros and the empty string allowed)

func (b beNum) BytesBE() []byte { return []byte(b) }

func genericBody() func(*engine.X) {
	g := k256Group()
	cache := &refCache[curve.FpPoint]{m: map[string]curve.FpPoint{}}
	lengths := []int{1, 2, 7, 8, 9, 16, 33}
	return func(x *engine.X) {
		al, err := g.alphabet()
		if err != nil {
			x.Failf("k256/alphabet", "cannot build the point alphabet: %v", err)
			return
		}
		sa := scalarAlphabet(g.q, 64)
		switch x.Choose("kind", 3) {
		case 2: // signed and native-integer variants
			pe := al[x.Choose("P", len(al))]
			for _, v := range []uint64{0, 1, 2, 3, 15, 16, 17, 1<<32 - 1, 1 << 32, 1<<32 + 1, 1<<63 - 1, 1 << 63, 1<<64 - 1} {
				x.Case(fmt.Sprintf("generic/native/%s/%d", pe.name, v))
				want := g.refMulCached(cache, new(big.Int).SetUint64(v), pe.ref)
				g.same(x, "generic/native", fmt.Sprintf("algebrautils.ScalarMulNative(%s, %d)", pe.name, v), algebrautils.ScalarMulNative(pe.lib, v), want)
			}
			for _, v := range []int64{0, 1, -1, 2, -2, 17, -17, 1<<31 - 1, -(1 << 31), 1<<63 - 1, -(1<<63 - 1), -(1 << 63)} {
				x.Case(fmt.Sprintf("generic/signednative/%s/%d", pe.name, v))
				want := g.ref.ScalarMul(big.NewInt(v), pe.ref)
				g.same(x, "generic/signednative", fmt.Sprintf("algebrautils.ScalarMulSignedNative(%s, %d)", pe.name, v), algebrautils.ScalarMulSignedNative(pe.lib, v), want)
			}
			for _, s := range sa {
				for _, sign := range []int64{1, -1} {
					v := new(big.Int).Mul(s.v, big.NewInt(sign))
					x.Case(fmt.Sprintf("generic/signed/%s/%s/%d", pe.name, s.name, sign))
					zi, err := num.Z().FromBig(v)
					if err != nil {
						x.Failf("generic/int", "num.Z().FromBig(%v): %v", v, err)
						continue
					}
					want := g.refMulCached(cache, s.v, pe.ref)
					if sign < 0 {
						want = g.ref.Neg(want)
					}
					g.same(x, "generic/signed", fmt.Sprintf("algebrautils.ScalarMulSigned(%s, %d*%s)", pe.name, sign, s.name), algebrautils.ScalarMulSigned(pe.lib, zi), want)
				}
			}
			x.Observe(pe.name)
		case 0: // ScalarMul(base, exponent) for every alphabet point and scalar, exponent as num.Nat and as raw bytes with padding
			pe := al[x.Choose("P", len(al))]
			for _, s := range sa {
				x.Case("generic/mul/" + pe.name + "/" + s.name)
				want := g.refMulCached(cache, s.v, pe.ref) // s.v is NOT reduced here: the generic routine works on integers
				if !g.ref.InSubgroup(pe.ref) {
					want = g.ref.ScalarMul(s.v, pe.ref)
				}
				n, err := num.N().FromBig(s.v)
				if err != nil {
					x.Failf("generic/nat", "num.N().FromBig(%v): %v", s.v, err)
					continue
				}
				tag := fmt.Sprintf("algebrautils.ScalarMul(%s, %s)", pe.name, s.name)
				g.same(x, "generic/scalarmul", tag, algebrautils.ScalarMul(pe.lib, n), want)
				g.same(x, "generic/scalarmul", tag+" [zero-padded bytes]", algebrautils.ScalarMul(pe.lib, beNum(append(make([]byte, 3), s.v.Bytes()...))), want)
				g.same(x, "generic/scalarmul", tag+" [minimal bytes]", algebrautils.ScalarMul(pe.lib, beNum(s.v.Bytes())), want)
			}
			x.Observe(pe.name)
		case 1: // MultiScalarMul at lengths on both sides of the naive/bucket switch
			n := lengths[x.Choose("len", len(lengths))]
			pat := x.Choose("pattern", 4)
			ks := make([]*big.Int, n)
			ps := make([]*k256.Point, n)
			ss := make([]beNum, n)
			want := g.ref.Identity()
			for i := 0; i < n; i++ {
				var pe entry[*k256.Point, curve.FpPoint]
				switch pat {
				case 0:
					ks[i], pe = sa[(3*i+1)%len(sa)].v, al[(5*i+2)%len(al)]
				case 1:
					ks[i], pe = new(big.Int).Sub(g.q, bi(1)), al[2] // all (q-1)*G
				case 2:
					ks[i], pe = bi(int64(i%2)), al[2+i%2] // 0/1 scalars on G, -G
				default:
					ks[i], pe = new(big.Int).Lsh(bi(int64(i+1)), uint(17*i)), al[len(al)-1-i%len(al)]
				}
				ps[i] = pe.lib
				ss[i] = beNum(ks[i].Bytes())
				if i%3 == 1 {
					ss[i] = beNum(append(make([]byte, 9), ks[i].Bytes()...)) // mixed byte lengths inside one call
				}
				want = g.ref.Add(want, g.refMulCached(cache, ks[i], pe.ref))
			}
			x.Case(fmt.Sprintf("generic/msm/%d/%d", n, pat))
			g.same(x, "generic/msm", fmt.Sprintf("algebrautils.MultiScalarMul length %d pattern %d", n, pat), algebrautils.MultiScalarMul(ss, ps), want)
			x.Observe(n, pat)
		}
	}
}

// ---------------------------------------------------------------------------------------------------------------
// BLS12-381 pairing laws
//
// Unit cost (purego): one Pair is ~0.1 s (subgroup checks of both operands, Miller loop, final exponentiation), so
// single pairings e(P_i, Q_j) of the alphabets are computed once and shared.

type pairingCtx struct {
	once sync.Once
	err  error
	p1   []entry[*bls12381.PointG1, curve.FpPoint]
	p2   []entry[*bls12381.PointG2, curve.Fp2Point]
	q    *big.Int
	mu   sync.Mutex
	base map[[2]int]*bls12381.GtElement
}

var pctx = pairingCtx{base: map[[2]int]*bls12381.GtElement{}}

func (c *pairingCtx) init() error {
	c.once.Do(func() {
		g1, g2 := g1Group(), g2Group()
		a1, err := g1.alphabet()
		if err != nil {
			c.err = err
			return
		}
		a2, err := g2.alphabet()
		if err != nil {
			c.err = err
			return
		}
		// order matters: the first three of each list are the reduced alphabets of the MultiPair enumeration
		for _, name := range []string{"G", "-G", "H", "2G'=G.Double()", "G+H"} {
			for _, e := range a1 {
				if e.name == name {
					c.p1 = append(c.p1, e)
				}
			}
			for _, e := range a2 {
				if e.name == name {
					c.p2 = append(c.p2, e)
				}
			}
		}
		if len(c.p1) != 5 || len(c.p2) != 5 {
			c.err = fmt.Errorf("pairing alphabets incomplete")
		}
		c.q = curve.BLS12381G1().Q
	})
	return c.err
}

// e returns the shared single pairing e(p1[i], p2[j]).
func (c *pairingCtx) e(x *engine.X, i, j int) *bls12381.GtElement {
	c.mu.Lock()
	v := c.base[[2]int{i, j}]
	c.mu.Unlock()
	if v != nil {
		return v
	}
	v, err := c.p1[i].lib.Pair(c.p2[j].lib)
	if err != nil {
		x.Failf("pairing/err", "Pair(%s,%s) failed: %v", c.p1[i].name, c.p2[j].name, err)
		return bls12381.NewGt().One()
	}
	c.mu.Lock()
	c.base[[2]int{i, j}] = v
	c.mu.Unlock()
	return v
}

func gtEq(a, b *bls12381.GtElement) bool { return bytes.Equal(a.Bytes(), b.Bytes()) }

// gtPow is square-and-multiply written here (library Mul/Square only).
func gtPow(a *bls12381.GtElement, e *big.Int) *bls12381.GtElement {
	r := bls12381.NewGt().One()
	for i := e.BitLen() - 1; i >= 0; i-- {
		r = r.Square()
		if e.Bit(i) == 1 {
			r = r.Mul(a)
		}
	}
	return r
}

// smallPow computes a^k for k in {-2,-1,0,1,2,4} with Mul/Inv only.
func smallPow(a *bls12381.GtElement, k int) *bls12381.GtElement {
	switch k {
	case 0:
		return bls12381.NewGt().One()
	case 1:
		return a
	case 2:
		return a.Mul(a)
	case 4:
		b := a.Mul(a)
		return b.Mul(b)
	case -1:
		return a.Inv()
	case -2:
		return a.Mul(a).Inv()
	}
	panic("smallPow")
}

func pairingBody() func(*engine.X) {
	a1, a2 := libcurve.BLS12381G1(), libcurve.BLS12381G2()
	sf := bls12381.NewScalarField()
	mk := func(v *big.Int) *bls12381.Scalar {
		return libcurve.ScalarFromBig[*bls12381.Scalar](sf, sf.ElementSize(), curve.BLS12381G1().Q, v)
	}
	// reference k*P for the exponent alphabet without a full scalar multiplication
	refMul1 := func(k int, p curve.FpPoint) curve.FpPoint {
		switch k {
		case 0:
			return a1.Ref.Identity()
		case 1:
			return p
		case 2:
			return a1.Ref.Double(p)
		}
		return a1.Ref.Neg(p)
	}
	refMul2 := func(k int, p curve.Fp2Point) curve.Fp2Point {
		switch k {
		case 0:
			return a2.Ref.Identity()
		case 1:
			return p
		case 2:
			return a2.Ref.Double(p)
		}
		return a2.Ref.Neg(p)
	}
	return func(x *engine.X) {
		c := &pctx
		if err := c.init(); err != nil {
			x.Failf("pairing/alphabet", "cannot build pairing alphabets: %v", err)
			return
		}
		one := bls12381.NewGt().One()
		gtCheck := func(what string, got, want *bls12381.GtElement) {
			if !gtEq(got, want) {
				x.Failf("pairing/bilinear", "%s: values differ", what)
			}
			if got.Equal(want) != gtEq(got, want) {
				x.Failf("pairing/gt-equal", "%s: GtElement.Equal disagrees with byte equality", what)
			}
		}
		switch x.Choose("law", 4) {
		case 0: // e(aP, bQ) == e(P,Q)^(ab), a,b in {0,1,2,q-1}; identity operands are refused by contract
			pi, qi := x.Choose("P", len(c.p1)), x.Choose("Q", len(c.p2))
			P, Q := c.p1[pi], c.p2[qi]
			base := c.e(x, pi, qi)
			if base.IsOne() || gtEq(base, one) {
				x.Failf("pairing/degenerate", "e(%s,%s) == 1 for non-identity subgroup points", P.name, Q.name)
			}
			// distinct inputs give distinct values (guards the comparisons below against a constant pairing)
			if other := c.e(x, (pi+1)%len(c.p1), qi); gtEq(other, base) {
				x.Failf("pairing/degenerate", "e(%s,%s) == e(%s,%s)", P.name, Q.name, c.p1[(pi+1)%len(c.p1)].name, Q.name)
			}
			// symmetric entry point on G2
			if rev, err := Q.lib.Pair(P.lib); err != nil {
				x.Failf("pairing/err", "PointG2.Pair failed: %v", err)
			} else {
				gtCheck(fmt.Sprintf("PointG2.Pair vs PointG1.Pair (%s,%s)", P.name, Q.name), rev, base)
			}
			if !gtEq(gtPow(base, c.q), one) {
				x.Failf("pairing/order", "e(%s,%s)^q != 1", P.name, Q.name)
			}
			exps := []struct {
				name string
				v    *big.Int
				k    int // v mod q as a small signed integer
			}{{"0", bi(0), 0}, {"1", bi(1), 1}, {"2", bi(2), 2}, {"q-1", new(big.Int).Sub(c.q, bi(1)), -1}}
			for _, a := range exps {
				aP := P.lib.ScalarMul(mk(a.v))
				for _, b := range exps {
					x.Case(fmt.Sprintf("pairing/bilinear/%s/%s/%s/%s", P.name, Q.name, a.name, b.name))
					if a.k == 1 && b.k == 1 {
						continue // the base value itself
					}
					bQ := Q.lib.ScalarMul(mk(b.v))
					// operands verified against the reference so that a wrong ScalarMul cannot mask a pairing defect
					if !a1.Ref.Equal(a1.ToRef(aP), refMul1(a.k, P.ref)) || !a2.Ref.Equal(a2.ToRef(bQ), refMul2(b.k, Q.ref)) {
						x.Failf("pairing/operands", "scalar multiples used as pairing operands are wrong")
						continue
					}
					got, err := aP.Pair(bQ)
					if a.k == 0 || b.k == 0 {
						// documented: identity operands are refused ("g1 or g2 cannot be nil/identity"); e(O,.) = 1 is also acceptable
						if err == nil && !got.IsOne() {
							x.Failf("pairing/identity", "e([%s]%s,[%s]%s) with an identity operand is neither refused nor 1", a.name, P.name, b.name, Q.name)
						}
						continue
					}
					if err != nil {
						x.Failf("pairing/err", "Pair([%s]%s,[%s]%s) failed: %v", a.name, P.name, b.name, Q.name, err)
						continue
					}
					gtCheck(fmt.Sprintf("e([%s]%s,[%s]%s) vs e(P,Q)^(%d)", a.name, P.name, b.name, Q.name, a.k*b.k), got, smallPow(base, a.k*b.k))
				}
			}
			x.Observe(P.name, Q.name, fmt.Sprintf("%x", base.Bytes()[:8]))
		case 1: // additivity in both arguments
			i, j := x.Choose("P1", len(c.p1)), x.Choose("P2", len(c.p1))
			P1, P2 := c.p1[i], c.p1[j]
			for k, Q := range c.p2 {
				k2 := (k + 1 + j%3) % len(c.p2)
				Q2 := c.p2[k2]
				x.Case(fmt.Sprintf("pairing/additive/%d/%d/%d", i, j, k))
				if !a1.Ref.Add(P1.ref, P2.ref).Inf {
					if l, err := P1.lib.Add(P2.lib).Pair(Q.lib); err != nil {
						x.Failf("pairing/err", "Pair failed: %v", err)
					} else {
						gtCheck(fmt.Sprintf("e(%s+%s,%s) vs product", P1.name, P2.name, Q.name), l, c.e(x, i, k).Mul(c.e(x, j, k)))
					}
				}
				if i <= j && !a2.Ref.Add(Q.ref, Q2.ref).Inf {
					if l, err := P1.lib.Pair(Q.lib.Add(Q2.lib)); err != nil {
						x.Failf("pairing/err", "Pair failed: %v", err)
					} else {
						gtCheck(fmt.Sprintf("e(%s,%s+%s) vs product", P1.name, Q.name, Q2.name), l, c.e(x, i, k).Mul(c.e(x, i, k2)))
					}
				}
			}
			x.Observe(i, j)
		case 2: // MultiPair == product of Pairs: every tuple of length 0..3 over P' x Q' (3 x 3 pairs; length 3 in quick: 3 x 2)
			n := x.Choose("len", 4)
			nP, nQ := 3, 3
			if n == 3 && !engine.Thorough() {
				nQ = 2
			}
			base := nP * nQ
			g1, g2 := bls12381.NewG1(), bls12381.NewG2()
			if n == 0 {
				x.Case("pairing/multipair/0")
				r, err := g1.MultiPair(nil, nil)
				if err != nil || !r.IsOne() {
					x.Failf("pairing/multipair/empty", "G1.MultiPair of no pairs: err=%v, result is one: %v", err, err == nil && r.IsOne())
				}
				r, err = g2.MultiPair(nil, nil)
				if err != nil || !r.IsOne() {
					x.Failf("pairing/multipair/empty", "G2.MultiPair of no pairs: err=%v", err)
				}
				if _, err := g1.MultiPair([]*bls12381.PointG1{c.p1[0].lib}, nil); err == nil {
					x.Failf("pairing/multipair/mismatch", "G1.MultiPair accepted 1 and 0 points")
				}
				return
			}
			head := []int{x.Choose("first", base)}
			if n >= 2 {
				head = append(head, x.Choose("second", base))
			}
			rest := 1
			for i := len(head); i < n; i++ {
				rest *= base
			}
			for idx := 0; idx < rest; idx++ {
				ps := make([]*bls12381.PointG1, n)
				qs := make([]*bls12381.PointG2, n)
				want, wantInv := one, one
				t := idx
				for i := 0; i < n; i++ {
					var cc int
					if i < len(head) {
						cc = head[i]
					} else {
						cc = t % base
						t /= base
					}
					pi, qi := cc%nP, cc/nP
					ps[i], qs[i] = c.p1[pi].lib, c.p2[qi].lib
					e := c.e(x, pi, qi)
					want = want.Mul(e)
					wantInv = wantInv.Mul(e.Inv())
				}
				x.Case(fmt.Sprintf("pairing/multipair/%d/%v/%d", n, head, idx))
				tag := fmt.Sprintf("MultiPair length %d tuple %v/%d", n, head, idx)
				if got, err := g1.MultiPair(ps, qs); err != nil {
					x.Failf("pairing/err", "%s: %v", tag, err)
				} else {
					gtCheck("G1."+tag, got, want)
				}
				if n == 3 && !engine.Thorough() {
					continue // the other entry points are exercised on lengths 1 and 2 (and on 3 in the thorough tier)
				}
				if got, err := g2.MultiPair(qs, ps); err != nil {
					x.Failf("pairing/err", "%s: %v", tag, err)
				} else {
					gtCheck("G2."+tag, got, want)
				}
				if got, err := g1.MultiPairAndInvertDuals(ps, qs); err != nil {
					x.Failf("pairing/err", "%s: %v", tag, err)
				} else {
					gtCheck("G1.MultiPairAndInvertDuals "+tag, got, wantInv)
				}
				// the engine API directly: Add / AddAndInvG1 / Check / Reset
				ppe := bls12381.NewOptimalAtePPE()
				for i := range ps {
					_ = ppe.Add(ps[i], qs[i])
				}
				for i := range ps {
					_ = ppe.AddAndInvG1(ps[i], qs[i])
				}
				if !ppe.Check() {
					x.Failf("pairing/ppe-check", "%s: product of e(P,Q) e(-P,Q) is not one according to PPE.Check", tag)
				}
				if ppe.Reset(); !ppe.Result().IsOne() {
					x.Failf("pairing/ppe-reset", "PPE.Result after Reset is not one")
				}
			}
			x.Observe(n, head)
		case 3: // point-level MultiPair helpers: e(P,Q1)...e(P,Qk)
			pi := x.Choose("P", 3)
			P := c.p1[pi]
			for k := 1; k <= 2; k++ {
				qs := make([]*bls12381.PointG2, k)
				want := one
				for i := range qs {
					qi := (i*2 + k) % len(c.p2)
					qs[i] = c.p2[qi].lib
					want = want.Mul(c.e(x, pi, qi))
				}
				x.Case(fmt.Sprintf("pairing/pointmultipair/%s/%d", P.name, k))
				if got, err := P.lib.MultiPair(qs...); err != nil {
					x.Failf("pairing/err", "PointG1.MultiPair: %v", err)
				} else {
					gtCheck(fmt.Sprintf("PointG1(%s).MultiPair of %d", P.name, k), got, want)
				}
				if got, err := P.lib.MultiPairAndInvertDuals(qs...); err != nil {
					x.Failf("pairing/err", "PointG1.MultiPairAndInvertDuals: %v", err)
				} else {
					gtCheck(fmt.Sprintf("PointG1(%s).MultiPairAndInvertDuals of %d", P.name, k), got, want.Inv())
				}
			}
			// no argument: refused by the library (an empty product equal to one would be acceptable as well)
			if r, err := P.lib.MultiPair(); err == nil && !r.IsOne() {
				x.Failf("pairing/pointmultipair/empty", "PointG1.MultiPair() with no argument returned a value different from one")
			}
			x.Observe(P.name)
		}
	}
}

func runPairing() {
	explore(pairingBody(), engine.Opts{Name: "pairing/bls12381", Budget: budget(150, 1200)})
	explore(engineBody(), engine.Opts{Name: "pairing/bls12381-impl-engine", Budget: budget(120, 600)})
}

// ---------------------------------------------------------------------------------------------------------------
// The exported low-level engine (bls12381/impl.Engine) takes ANY points, identities included (the high-level PPE
// refuses them before they reach it): a pair with an identity operand contributes the factor one.

func engineBody() func(*engine.X) {
	return func(x *engine.X) {
		c := &pctx
		if err := c.init(); err != nil {
			x.Failf("pairing/alphabet", "cannot build pairing alphabets: %v", err)
			return
		}
		one := bls12381.NewGt().One()
		// operand alphabets: index 0 = identity, then the first two non-identity points of the pairing alphabets
		p1 := []*bls12381.PointG1{bls12381.NewG1().OpIdentity(), c.p1[0].lib, c.p1[2].lib}
		p2 := []*bls12381.PointG2{bls12381.NewG2().OpIdentity(), c.p2[0].lib, c.p2[2].lib}
		idx1, idx2 := []int{-1, 0, 2}, []int{-1, 0, 2}
		n := 1 + x.Choose("len-1", 3)
		entry := x.Choose("entry", 3) // AddPair / AddPairInvG1 / AddPairInvG2 for the FIRST pair
		first := x.Choose("first", 9)
		rest := 1
		for i := 1; i < n; i++ {
			rest *= 9
		}
		for t := 0; t < rest; t++ {
			var e bls12381Impl.Engine
			want := one
			tt := t
			desc := ""
			for i := 0; i < n; i++ {
				cc := first
				if i > 0 {
					cc = tt % 9
					tt /= 9
				}
				a, b := cc%3, cc/3
				f := one
				if a != 0 && b != 0 {
					f = c.e(x, idx1[a], idx2[b])
				}
				switch {
				case i == 0 && entry == 1:
					e.AddPairInvG1(&p1[a].V, &p2[b].V)
					f = f.Inv()
				case i == 0 && entry == 2:
					e.AddPairInvG2(&p1[a].V, &p2[b].V)
					f = f.Inv()
				default:
					e.AddPair(&p1[a].V, &p2[b].V)
				}
				want = want.Mul(f)
				desc += fmt.Sprintf("(%d,%d)", a, b)
			}
			x.Case(fmt.Sprintf("pairing/engine/%d/%d/%s", n, entry, desc))
			var got bls12381.GtElement
			got.V.Set(e.Result())
			if !gtEq(&got, want) {
				x.Failf("pairing/engine-identity", "impl.Engine over the pairs %s (operand index 0 = identity; first pair through entry point %d): the result differs from the product of the pairings of the non-identity pairs", desc, entry)
			}
			if e.Check() != want.IsOne() {
				x.Failf("pairing/engine-check", "impl.Engine.Check over the pairs %s = %v, the product is one: %v", desc, e.Check(), want.IsOne())
			}
		}
		x.Observe(n, entry, first)
	}
}
