package c13

import (
	"github.com/bronlabs/bron-crypto/pkg/base/curves/curve25519"
	"github.com/bronlabs/bron-crypto/pkg/base/curves/edwards25519"
	"github.com/bronlabs/bron-crypto/pkg/base/curves/k256"
	"github.com/bronlabs/bron-crypto/pkg/base/curves/p256"
	"github.com/bronlabs/bron-crypto/pkg/base/curves/pairable/bls12381"
	"github.com/bronlabs/bron-crypto/pkg/base/curves/pasta"

	"verifmc/ref/curve"
	"verifmc/ref/curve/libcurve"
)

// pointCodec is the type-erased face of codec[P, F].
type pointCodec interface {
	roundtripSuite() *suite
	decodeSuite() *suite
	lengthSuite() *suite
}

// warm forces the lazily built library singletons before the parallel exploration starts.
func warm() {
	_ = k256.NewCurve().Generator()
	_ = p256.NewCurve().Generator()
	_ = pasta.NewPallasCurve().Generator()
	_ = pasta.NewVestaCurve().Generator()
	_ = edwards25519.NewCurve().PrimeSubGroupGenerator()
	_ = edwards25519.NewPrimeSubGroup().Generator()
	_ = curve25519.NewCurve().PrimeSubGroupGenerator()
	_ = curve25519.NewPrimeSubGroup().Generator()
	_ = bls12381.NewG1().Generator()
	_ = bls12381.NewG2().Generator()
	_ = bls12381.NewGt().One()
	_ = k256.NewScalarField().One()
	_ = p256.NewScalarField().One()
	_ = edwards25519.NewScalarField().One()
	_ = bls12381.NewScalarField().One()
	_ = pasta.NewPallasScalarField().One()
	_ = pasta.NewVestaScalarField().One()
	_ = k256.NewBaseField().One()
	_ = p256.NewBaseField().One()
	_ = edwards25519.NewBaseField().One()
	_ = bls12381.NewG1BaseField().One()
	_ = bls12381.NewG2BaseField().One()
}

func pointCodecs() []pointCodec {
	var out []pointCodec

	{ // k256
		a, cv, fld := libcurve.K256(), k256.NewCurve(), k256.NewBaseField()
		out = append(out, newWeierstrass("k256", fpAdapter(curve.K256(), a.TryToRef, a.TryToLib), wAPI[*k256.Point, *k256.BaseFieldElement]{
			fromCompressed: cv.FromCompressed, fromUncompressed: cv.FromUncompressed, fromBytes: cv.FromBytes,
			fromAffine: cv.FromAffine, fromAffineX: cv.FromAffineX, identity: cv.OpIdentity,
			newP: func() *k256.Point { return new(k256.Point) }, fieldFromBytes: fld.FromBytes, coordBytes: 32,
		}, styleSEC1, func(f *k256.BaseFieldElement) bool { return f.IsOdd() }))
	}
	{ // p256
		a, cv, fld := libcurve.P256(), p256.NewCurve(), p256.NewBaseField()
		out = append(out, newWeierstrass("p256", fpAdapter(curve.P256(), a.TryToRef, a.TryToLib), wAPI[*p256.Point, *p256.BaseFieldElement]{
			fromCompressed: cv.FromCompressed, fromUncompressed: cv.FromUncompressed, fromBytes: cv.FromBytes,
			fromAffine: cv.FromAffine, fromAffineX: cv.FromAffineX, identity: cv.OpIdentity,
			newP: func() *p256.Point { return new(p256.Point) }, fieldFromBytes: fld.FromBytes, coordBytes: 32,
		}, styleSEC1, func(f *p256.BaseFieldElement) bool { return f.IsOdd() }))
	}
	{ // pallas
		a, cv, fld := libcurve.Pallas(), pasta.NewPallasCurve(), pasta.NewPallasBaseField()
		out = append(out, newWeierstrass("pallas", fpAdapter(curve.Pallas(), a.TryToRef, a.TryToLib), wAPI[*pasta.PallasPoint, *pasta.PallasBaseFieldElement]{
			fromCompressed: cv.FromCompressed, fromUncompressed: cv.FromUncompressed, fromBytes: cv.FromBytes,
			fromAffine: cv.FromAffine, fromAffineX: cv.FromAffineX, identity: cv.OpIdentity,
			newP: func() *pasta.PallasPoint { return new(pasta.PallasPoint) }, fieldFromBytes: fld.FromBytes, coordBytes: 32,
		}, stylePasta, func(f *pasta.PallasBaseFieldElement) bool { return f.IsOdd() }))
	}
	{ // vesta
		a, cv, fld := libcurve.Vesta(), pasta.NewVestaCurve(), pasta.NewVestaBaseField()
		out = append(out, newWeierstrass("vesta", fpAdapter(curve.Vesta(), a.TryToRef, a.TryToLib), wAPI[*pasta.VestaPoint, *pasta.VestaBaseFieldElement]{
			fromCompressed: cv.FromCompressed, fromUncompressed: cv.FromUncompressed, fromBytes: cv.FromBytes,
			fromAffine: cv.FromAffine, fromAffineX: cv.FromAffineX, identity: cv.OpIdentity,
			newP: func() *pasta.VestaPoint { return new(pasta.VestaPoint) }, fieldFromBytes: fld.FromBytes, coordBytes: 32,
		}, stylePasta, func(f *pasta.VestaBaseFieldElement) bool { return f.IsOdd() }))
	}
	{ // BLS12-381 G1
		a, cv, fld := libcurve.BLS12381G1(), bls12381.NewG1(), bls12381.NewG1BaseField()
		out = append(out, newWeierstrass("bls12381g1", fpAdapter(curve.BLS12381G1(), a.TryToRef, a.TryToLib), wAPI[*bls12381.PointG1, *bls12381.BaseFieldElementG1]{
			fromCompressed: cv.FromCompressed, fromUncompressed: cv.FromUncompressed, fromBytes: cv.FromBytes,
			fromAffine: cv.FromAffine, fromAffineX: cv.FromAffineX, identity: cv.OpIdentity,
			newP: func() *bls12381.PointG1 { return new(bls12381.PointG1) }, fieldFromBytes: fld.FromBytes, coordBytes: 48,
		}, styleBLS, func(f *bls12381.BaseFieldElementG1) bool { return f.IsOdd() }))
	}
	{ // BLS12-381 G2
		a, cv, fld := libcurve.BLS12381G2(), bls12381.NewG2(), bls12381.NewG2BaseField()
		out = append(out, newWeierstrass("bls12381g2", fp2Adapter(curve.BLS12381G2(), a.TryToRef, a.TryToLib), wAPI[*bls12381.PointG2, *bls12381.BaseFieldElementG2]{
			fromCompressed: cv.FromCompressed, fromUncompressed: cv.FromUncompressed, fromBytes: cv.FromBytes,
			fromAffine: cv.FromAffine, identity: cv.OpIdentity,
			newP: func() *bls12381.PointG2 { return new(bls12381.PointG2) }, fieldFromBytes: fld.FromBytes, coordBytes: 48,
		}, styleBLS, nil))
	}
	{ // edwards25519 (full curve, cofactor 8)
		a, cv, fld := libcurve.Edwards25519(), edwards25519.NewCurve(), edwards25519.NewBaseField()
		out = append(out, newEdwards("edwards25519", false, edAPI[*edwards25519.Point, *edwards25519.BaseFieldElement]{
			fromCompressed: cv.FromCompressed, fromUncompressed: cv.FromUncompressed, fromBytes: cv.FromBytes,
			fromAffine: cv.FromAffine, identity: cv.OpIdentity,
			newP: func() *edwards25519.Point { return new(edwards25519.Point) }, fieldFromBytes: fld.FromBytes,
			toRef: a.TryToRef, toLib: a.TryToLib,
		}))
	}
	{ // edwards25519 prime-order subgroup type
		a, cv, fld := libcurve.Edwards25519Prime(), edwards25519.NewPrimeSubGroup(), edwards25519.NewBaseField()
		out = append(out, newEdwards("edwards25519prime", true, edAPI[*edwards25519.PrimeSubGroupPoint, *edwards25519.BaseFieldElement]{
			fromCompressed: cv.FromCompressed, fromUncompressed: cv.FromUncompressed, fromBytes: cv.FromBytes,
			fromAffine: cv.FromAffine, identity: cv.OpIdentity,
			newP: func() *edwards25519.PrimeSubGroupPoint { return new(edwards25519.PrimeSubGroupPoint) }, fieldFromBytes: fld.FromBytes,
			toRef: a.TryToRef, toLib: a.TryToLib,
		}))
	}
	{ // curve25519 (full Montgomery curve)
		a, cv, fld := libcurve.Curve25519(), curve25519.NewCurve(), curve25519.NewBaseField()
		out = append(out, newMontgomery("curve25519", false, montAPI[*curve25519.Point, *curve25519.BaseFieldElement]{
			fromCompressed: cv.FromCompressed, fromUncompressed: cv.FromUncompressed, fromBytes: cv.FromBytes,
			fromAffine: cv.FromAffine, identity: cv.OpIdentity,
			newP: func() *curve25519.Point { return new(curve25519.Point) }, fieldFromBytes: fld.FromBytes,
			toRef: a.TryToRef, toLib: a.TryToLib,
		}))
	}
	{ // curve25519 prime-order subgroup type
		a, cv, fld := libcurve.Curve25519(), curve25519.NewPrimeSubGroup(), curve25519.NewBaseField()
		out = append(out, newMontgomery("curve25519prime", true, montAPI[*curve25519.PrimeSubGroupPoint, *curve25519.BaseFieldElement]{
			fromCompressed: cv.FromCompressed, fromUncompressed: cv.FromUncompressed, fromBytes: cv.FromBytes,
			fromAffine: cv.FromAffine, identity: cv.OpIdentity,
			newP: func() *curve25519.PrimeSubGroupPoint { return new(curve25519.PrimeSubGroupPoint) }, fieldFromBytes: fld.FromBytes,
			toRef: func(p *curve25519.PrimeSubGroupPoint) (curve.MPoint, error) { return a.TryToRef(p.AsPoint()) },
			toLib: func(r curve.MPoint) (*curve25519.PrimeSubGroupPoint, error) {
				p, err := a.TryToLib(r)
				if err != nil {
					return nil, err
				}
				return p.AsPrimeSubGroupPoint()
			},
		}))
	}
	return out
}
