package c12

// Round messages of session set-up, agree-on-random, Gennaro, Canetti, redistribute and Lindell22, produced by driving
// the participants' round functions directly (fixed per-party randomness; no network). They are plain structs without a
// constructor: round trip, determinism and no-panic only (their validity rule, Validate(receiver, sender), needs a
// live participant and is exercised by C04).

import (
	"fmt"
	"io"
	"slices"
	"sync"

	"github.com/bronlabs/bron-crypto/pkg/base/curves/k256"
	ds "github.com/bronlabs/bron-crypto/pkg/base/datastructures"
	"github.com/bronlabs/bron-crypto/pkg/base/serde"
	"github.com/bronlabs/bron-crypto/pkg/base/datastructures/hashmap"
	"github.com/bronlabs/bron-crypto/pkg/mpc"
	"github.com/bronlabs/bron-crypto/pkg/mpc/aor"
	"github.com/bronlabs/bron-crypto/pkg/mpc/dkg/canetti"
	"github.com/bronlabs/bron-crypto/pkg/mpc/dkg/gennaro"
	"github.com/bronlabs/bron-crypto/pkg/mpc/dkg/trusteddealer"
	"github.com/bronlabs/bron-crypto/pkg/mpc/redistribute"
	"github.com/bronlabs/bron-crypto/pkg/mpc/session"
	"github.com/bronlabs/bron-crypto/pkg/mpc/sharing"
	"github.com/bronlabs/bron-crypto/pkg/mpc/signatures/schnorr/lindell22"
	l22keygen "github.com/bronlabs/bron-crypto/pkg/mpc/signatures/schnorr/lindell22/keygen"
	l22sign "github.com/bronlabs/bron-crypto/pkg/mpc/signatures/schnorr/lindell22/signing"
	"github.com/bronlabs/bron-crypto/pkg/proofs/sigma/compiler/fiatshamir"
	"github.com/bronlabs/bron-crypto/pkg/signatures/schnorrlike/bip340"
	"github.com/bronlabs/bron-crypto/pkg/transcripts/hagrid"

	"verifmc/catalog"
)

var msgIDs = []sharing.ID{1, 2, 3}

// wire passes a message through its wire form, as the network does (receivers never share memory with senders).
func wire[M any](v M) M {
	return must(serde.UnmarshalCBOR[M](must(serde.MarshalCBOR(v))))
}

// bIn turns the broadcasts of one round into each receiver's input (everybody else's message).
func bIn[M any](outs map[sharing.ID]M) map[sharing.ID]ds.Map[sharing.ID, M] {
	in := map[sharing.ID]ds.Map[sharing.ID, M]{}
	for _, rcv := range msgIDs {
		m := hashmap.NewComparable[sharing.ID, M]()
		for _, snd := range msgIDs {
			if snd != rcv {
				if v, ok := outs[snd]; ok {
					m.Put(snd, wire(v))
				}
			}
		}
		in[rcv] = m.Freeze()
	}
	return in
}

// uIn turns the unicasts of one round into each receiver's input.
func uIn[M any](outs map[sharing.ID]ds.Map[sharing.ID, M]) map[sharing.ID]ds.Map[sharing.ID, M] {
	in := map[sharing.ID]ds.Map[sharing.ID, M]{}
	for _, rcv := range msgIDs {
		m := hashmap.NewComparable[sharing.ID, M]()
		for _, snd := range msgIDs {
			if snd == rcv || outs[snd] == nil {
				continue
			}
			if v, ok := outs[snd].Get(rcv); ok {
				m.Put(snd, wire(v))
			}
		}
		in[rcv] = m.Freeze()
	}
	return in
}

func msgContexts(label string) map[sharing.ID]*session.Context {
	r := stream("msgs/ctx/" + label)
	common := make([]byte, 64)
	_, _ = io.ReadFull(r, common)
	pair := map[sharing.ID]map[sharing.ID][]byte{}
	for _, id := range msgIDs {
		pair[id] = map[sharing.ID][]byte{}
	}
	for i := range msgIDs {
		for j := i + 1; j < len(msgIDs); j++ {
			b := make([]byte, 64)
			_, _ = io.ReadFull(r, b)
			pair[msgIDs[i]][msgIDs[j]] = b
			pair[msgIDs[j]][msgIDs[i]] = b
		}
	}
	out := map[sharing.ID]*session.Context{}
	for _, id := range msgIDs {
		out[id] = must(session.NewContext(id, setOf(msgIDs...), common, pair[id]))
	}
	return out
}

// bag collects messages by type name.
type bag struct {
	mu sync.Mutex
	m  map[string][]anyVal
}

func (b *bag) put(typ, name string, v any) {
	b.mu.Lock()
	defer b.mu.Unlock()
	if b.m == nil {
		b.m = map[string][]anyVal{}
	}
	if !isNil(v) {
		b.m[typ] = append(b.m[typ], anyVal{name: name, v: v})
	}
}

func putB[M any](b *bag, typ, round string, outs map[sharing.ID]M) {
	for _, id := range msgIDs[:2] {
		if v, ok := outs[id]; ok {
			b.put(typ, fmt.Sprintf("%s/from%d", round, id), wire(v))
		}
	}
}

func putU[M any](b *bag, typ, round string, outs map[sharing.ID]ds.Map[sharing.ID, M]) {
	for _, id := range msgIDs[:2] {
		if outs[id] == nil {
			continue
		}
		ks := outs[id].Keys()
		slices.Sort(ks)
		if len(ks) > 0 {
			v, _ := outs[id].Get(ks[0])
			b.put(typ, fmt.Sprintf("%s/from%d/to%d", round, id, ks[0]), wire(v))
		}
	}
}

func msgRow[T any](b func() *bag, typ string) {
	add(spec[T]{
		name: typ, group: "messages", message: true,
		gen: func() []nv[T] {
			var out []nv[T]
			for _, v := range b().m[typ] {
				out = append(out, nv[T]{v.name, v.v.(T)})
			}
			return out
		},
	})
}

func registerMessages() {
	curve := k256.NewCurve()
	ac := func() *catalogAC { return thresholdAC(2, msgIDs...) }
	rng := func(proto string, id sharing.ID) io.Reader { return stream(fmt.Sprintf("msgs/%s/%d", proto, id)) }

	// ---- session set-up
	sessBag := sync.OnceValue(func() *bag {
		b := &bag{}
		ps := map[sharing.ID]*session.Participant{}
		for _, id := range msgIDs {
			ps[id] = must(session.NewParticipant(id, setOf(msgIDs...), rng("session", id)))
		}
		r1 := map[sharing.ID]*session.Round1Broadcast{}
		for id, p := range ps {
			r1[id] = must(p.Round1())
		}
		putB(b, "session.Round1Broadcast", "r1", r1)
		r2b := map[sharing.ID]*session.Round2Broadcast{}
		r2u := map[sharing.ID]ds.Map[sharing.ID, *session.Round2P2P]{}
		in1 := bIn(r1)
		for id, p := range ps {
			bb, uu, err := p.Round2(in1[id])
			must0(err)
			r2b[id], r2u[id] = bb, uu
		}
		putB(b, "session.Round2Broadcast", "r2", r2b)
		putU(b, "session.Round2P2P", "r2", r2u)
		r3u := map[sharing.ID]ds.Map[sharing.ID, *session.Round3P2P]{}
		in2b, in2u := bIn(r2b), uIn(r2u)
		for id, p := range ps {
			r3u[id] = must(p.Round3(in2b[id], in2u[id]))
		}
		putU(b, "session.Round3P2P", "r3", r3u)
		in3 := uIn(r3u)
		for id, p := range ps {
			_ = must(p.Round4(in3[id]))
		}
		return b
	})
	msgRow[*session.Round1Broadcast](sessBag, "session.Round1Broadcast")
	msgRow[*session.Round2Broadcast](sessBag, "session.Round2Broadcast")
	msgRow[*session.Round2P2P](sessBag, "session.Round2P2P")
	msgRow[*session.Round3P2P](sessBag, "session.Round3P2P")

	// ---- agree on random
	aorBag := sync.OnceValue(func() *bag {
		b := &bag{}
		ps := map[sharing.ID]*aor.Participant{}
		for _, id := range msgIDs {
			ps[id] = must(aor.NewParticipant(id, setOf(msgIDs...), 32, hagrid.NewTranscript("verif-c12-aor"), rng("aor", id)))
		}
		r1 := map[sharing.ID]*aor.Round1Broadcast{}
		for id, p := range ps {
			r1[id] = must(p.Round1())
		}
		putB(b, "aor.Round1Broadcast", "r1", r1)
		r2 := map[sharing.ID]*aor.Round2Broadcast{}
		in1 := bIn(r1)
		for id, p := range ps {
			r2[id] = must(p.Round2(in1[id]))
		}
		putB(b, "aor.Round2Broadcast", "r2", r2)
		in2 := bIn(r2)
		for id, p := range ps {
			_ = must(p.Round3(in2[id]))
		}
		return b
	})
	msgRow[*aor.Round1Broadcast](aorBag, "aor.Round1Broadcast")
	msgRow[*aor.Round2Broadcast](aorBag, "aor.Round2Broadcast")

	// ---- Gennaro DKG (k256, Fiat-Shamir)
	type (
		gR1B = gennaro.Round1Broadcast[KP, KS]
		gR1U = gennaro.Round1Unicast[KP, KS]
		gR2B = gennaro.Round2Broadcast[KP, KS]
	)
	genBag := sync.OnceValue(func() *bag {
		b := &bag{}
		a := ac()
		acc := must(catalog.Build(a.p, a.ids))
		ctxs := msgContexts("gennaro")
		ps := map[sharing.ID]*gennaro.Participant[KP, KS]{}
		for _, id := range msgIDs {
			ps[id] = must(gennaro.NewParticipant[KP, KS](ctxs[id], curve, acc, fiatshamir.Name, rng("gennaro", id)))
		}
		r1b := map[sharing.ID]*gR1B{}
		r1u := map[sharing.ID]ds.Map[sharing.ID, *gR1U]{}
		for id, p := range ps {
			bb, uu, err := p.Round1()
			must0(err)
			r1b[id], r1u[id] = bb, uu
		}
		putB(b, "gennaro.Round1Broadcast[k256]", "r1", r1b)
		putU(b, "gennaro.Round1Unicast[k256]", "r1", r1u)
		r2b := map[sharing.ID]*gR2B{}
		inb, inu := bIn(r1b), uIn(r1u)
		for id, p := range ps {
			r2b[id] = must(p.Round2(inb[id], inu[id]))
		}
		putB(b, "gennaro.Round2Broadcast[k256]", "r2", r2b)
		in2 := bIn(r2b)
		for id, p := range ps {
			_ = must(p.Round3(in2[id]))
		}
		return b
	})
	msgRow[*gR1B](genBag, "gennaro.Round1Broadcast[k256]")
	msgRow[*gR1U](genBag, "gennaro.Round1Unicast[k256]")
	msgRow[*gR2B](genBag, "gennaro.Round2Broadcast[k256]")

	// ---- Canetti DKG
	type (
		cR1B = canetti.Round1Broadcast[KP, KS]
		cR2B = canetti.Round2Broadcast[KP, KS]
		cR2U = canetti.Round2P2P[KP, KS]
		cR3B = canetti.Round3Broadcast[KP, KS]
	)
	canBag := sync.OnceValue(func() *bag {
		b := &bag{}
		a := ac()
		acc := must(catalog.Build(a.p, a.ids))
		ctxs := msgContexts("canetti")
		ps := map[sharing.ID]*canetti.Participant[KP, KS]{}
		for _, id := range msgIDs {
			ps[id] = must(canetti.NewParticipant[KP, KS](ctxs[id], acc, curve, rng("canetti", id)))
		}
		r1 := map[sharing.ID]*cR1B{}
		for id, p := range ps {
			r1[id] = must(p.Round1())
		}
		putB(b, "canetti.Round1Broadcast[k256]", "r1", r1)
		r2b := map[sharing.ID]*cR2B{}
		r2u := map[sharing.ID]ds.Map[sharing.ID, *cR2U]{}
		in1 := bIn(r1)
		for id, p := range ps {
			bb, uu, err := p.Round2(in1[id])
			must0(err)
			r2b[id], r2u[id] = bb, uu
		}
		putB(b, "canetti.Round2Broadcast[k256]", "r2", r2b)
		putU(b, "canetti.Round2P2P[k256]", "r2", r2u)
		r3 := map[sharing.ID]*cR3B{}
		in2b, in2u := bIn(r2b), uIn(r2u)
		for id, p := range ps {
			r3[id] = must(p.Round3(in2b[id], in2u[id]))
		}
		putB(b, "canetti.Round3Broadcast[k256]", "r3", r3)
		in3 := bIn(r3)
		for id, p := range ps {
			_ = must(p.Round4(in3[id]))
		}
		return b
	})
	msgRow[*cR1B](canBag, "canetti.Round1Broadcast[k256]")
	msgRow[*cR2B](canBag, "canetti.Round2Broadcast[k256]")
	msgRow[*cR2U](canBag, "canetti.Round2P2P[k256]")
	msgRow[*cR3B](canBag, "canetti.Round3Broadcast[k256]")

	// ---- redistribute (T(2,3) on {1,2,3} to T(2,3) on {1,2,3}: a refresh)
	type (
		rR1B = redistribute.Round1Broadcast[KP, KS]
		rR1U = redistribute.Round1P2P[KP, KS]
		rR2B = redistribute.Round2Broadcast[KP, KS]
		rR2U = redistribute.Round2P2P[KP, KS]
	)
	dealt23 := sync.OnceValue(func() map[sharing.ID]*mpc.BaseShard[KP, KS] {
		a := ac()
		m := must(trusteddealer.Deal(curve, must(catalog.Build(a.p, a.ids)), stream("msgs/deal")))
		out := map[sharing.ID]*mpc.BaseShard[KP, KS]{}
		for id, sh := range m.Iter() {
			out[id] = sh
		}
		return out
	})
	redBag := sync.OnceValue(func() *bag {
		b := &bag{}
		a := ac()
		acc := must(catalog.Build(a.p, a.ids))
		ctxs := msgContexts("redistribute")
		ps := map[sharing.ID]*redistribute.Participant[KP, KS]{}
		for _, id := range msgIDs {
			ps[id] = must(redistribute.NewParticipant[KP, KS](ctxs[id], setOf(msgIDs...), dealt23()[id], acc, rng("redistribute", id)))
		}
		r1b := map[sharing.ID]*rR1B{}
		r1u := map[sharing.ID]ds.Map[sharing.ID, *rR1U]{}
		for id, p := range ps {
			bb, uu, err := p.Round1()
			must0(err)
			r1b[id], r1u[id] = bb, uu
		}
		putB(b, "redistribute.Round1Broadcast[k256]", "r1", r1b)
		putU(b, "redistribute.Round1P2P[k256]", "r1", r1u)
		r2b := map[sharing.ID]*rR2B{}
		r2u := map[sharing.ID]ds.Map[sharing.ID, *rR2U]{}
		inb, inu := bIn(r1b), uIn(r1u)
		for id, p := range ps {
			bb, uu, err := p.Round2(inb[id], inu[id])
			must0(err)
			r2b[id], r2u[id] = bb, uu
		}
		putB(b, "redistribute.Round2Broadcast[k256]", "r2", r2b)
		putU(b, "redistribute.Round2P2P[k256]", "r2", r2u)
		in2b, in2u := bIn(r2b), uIn(r2u)
		for id, p := range ps {
			_ = must(p.Round3(in2b[id], in2u[id]))
		}
		return b
	})
	msgRow[*rR1B](redBag, "redistribute.Round1Broadcast[k256]")
	msgRow[*rR1U](redBag, "redistribute.Round1P2P[k256]")
	msgRow[*rR2B](redBag, "redistribute.Round2Broadcast[k256]")
	msgRow[*rR2U](redBag, "redistribute.Round2P2P[k256]")

	// ---- Lindell22 signing (BIP-340), all three shareholders sign
	type (
		lR1B = l22sign.Round1Broadcast[KP, KS, []byte]
		lR1U = l22sign.Round1P2P[KP, KS, []byte]
		lR2B = l22sign.Round2Broadcast[KP, KS, []byte]
		lPS  = lindell22.PartialSignature[KP, KS]
	)
	l22Bag := sync.OnceValue(func() *bag {
		b := &bag{}
		ctxs := msgContexts("lindell22")
		scheme := must(bip340.NewScheme(stream("msgs/bip340")))
		ps := map[sharing.ID]*l22sign.Cosigner[KP, KS, []byte]{}
		for _, id := range msgIDs {
			sh := must(l22keygen.NewShard(dealt23()[id]))
			ps[id] = must(l22sign.NewCosigner[KP, KS, []byte](ctxs[id], sh, fiatshamir.Name, scheme.Variant(), rng("lindell22", id)))
		}
		r1b := map[sharing.ID]*lR1B{}
		r1u := map[sharing.ID]ds.Map[sharing.ID, *lR1U]{}
		for id, p := range ps {
			bb, uu, err := p.Round1()
			must0(err)
			r1b[id], r1u[id] = bb, uu
		}
		putB(b, "lindell22.Round1Broadcast[k256]", "r1", r1b)
		putU(b, "lindell22.Round1P2P[k256]", "r1", r1u)
		r2b := map[sharing.ID]*lR2B{}
		inb, inu := bIn(r1b), uIn(r1u)
		for id, p := range ps {
			r2b[id] = must(p.Round2(inb[id], inu[id]))
		}
		putB(b, "lindell22.Round2Broadcast[k256]", "r2", r2b)
		in2 := bIn(r2b)
		psig := map[sharing.ID]*lPS{}
		for id, p := range ps {
			psig[id] = must(p.Round3(in2[id], []byte("verif C12 message")))
		}
		putB(b, "lindell22.PartialSignature[k256]", "r3", psig)
		return b
	})
	msgRow[*lR1B](l22Bag, "lindell22.Round1Broadcast[k256]")
	msgRow[*lR1U](l22Bag, "lindell22.Round1P2P[k256]")
	msgRow[*lR2B](l22Bag, "lindell22.Round2Broadcast[k256]")
	msgRow[*lPS](l22Bag, "lindell22.PartialSignature[k256]")
}
