// C06 — refresh, recovery and redistribution never change the key.
//
// Explicit-state search (engine.BFS) over ALL operation histories to a depth on the real code. Start: T(2,3) on
// {1,2,3} from the trusted dealer on k256; the harness knows the secret x (reference reconstruction from all shares)
// and the public key. A state is the history that reaches it; a successor is the cached parent state plus one
// operation executed on fresh protocol objects. See model_test.go for the alphabet, invariant_test.go for the
// invariant, drive_test.go for how every operation is driven (round-by-round API of the real participants).
package c06

import (
	"fmt"
	"os"
	"testing"
	"time"

	"verifmc/engine"
	"verifmc/ref/curve"
	"verifmc/ref/curve/libcurve"
)

func TestMain(m *testing.M) { engine.Main(m, "C06", "model_checking") }

// canonKey is the canonical state key of the merged sections: (current structure, holder set, epoch).
// Justification for merging two histories with the same triple: (a) which operations are enabled, who drives them and
// towards which structure depends only on the current structure and its holder set; (b) the current-epoch part of the
// invariant (key unchanged, shard vs. verification vector, every subset of holders reconstructs / signs or is refused)
// is a statement about the current sharing only, and every operation re-shares with fresh randomness, so the
// distribution of the current shards given (structure, x) is the same whatever the history; (c) the cross-epoch part
// depends on the earlier epochs of the representative history only through their structures: every ordered pair
// (earlier structure, current structure) already occurs as adjacent epochs in the complete (unmerged) search to depth
// 2, and the epoch number keeps states with a different number of earlier epochs apart. A signature does not change
// the triple (it is a self-loop in the merged graph).
func canonKey(s *state) string {
	c := s.cur()
	return fmt.Sprintf("%s|%v|epoch%d", c.st.name, c.st.ids, len(s.epochs)-1)
}

func TestCheck(t *testing.T) {
	engine.Rule("explicit-state search over operation histories: state = history, successor = cached parent state + one operation run on fresh real protocol objects (redistribute.Participant / hjky.Participant / lindell22 signing.Cosigner+Aggregator, round by round, every message CBOR-encoded and decoded). Alphabet (27 indices, an index that is not enabled in a state has no transition): refresh by all holders; HJKY zero-refresh; refresh driven by the k-th minimal qualified set; recover(i) for i in 1..4 (i passes no shard, all others drive, anchor = smallest driver); redistribute to each of {T(2,2){1,2}, T(3,4){1,2,3,4}, U{2,3}, CNF 1&(2|3) on {1,2,3}, non-ideal boolexpr (1&2)|(1&4) on {1,2,4}, T(2,3){1,2,3}} x {all holders drive, no anchor / a minimal qualified set drives and every other next holder trusts its smallest member as anchor}; Lindell22 BIP-340 signature by the k-th qualified set. The invariant is evaluated in every state (see Assume for its clauses). A state is non-trivial when its last operation was enabled; inner cases = single oracle evaluations (per holder, per subset, per mixed quorum, per probe).")
	engine.Assume(
		"trusted base: math/big Gaussian elimination (ref/linalg), policy truth tables (ref/policy), BIP-340 verifier from the BIP text on the math/big secp256k1 model (ref/sig, ref/curve)",
		"all parties follow the protocol in the operations of a history; the only deviations are the two probes of the invariant (one driver of a redistribution uses its shard of the previous epoch; one HJKY dealer deals a polynomial with constant term 1)",
		"messages are delivered exactly once in round order (delivery orders and network faults are C11 / C04)",
		"randomness: fixed SHA-256 counter streams derived from VERIF_SEED and the history; the property must hold for every value, one value per history is explored",
		"group k256 only; signing scheme Lindell22 with the BIP-340 variant; purego build",
		"'refused' for an unqualified subset = feldman Reconstruct returns an error and (for subsets of >= 2 holders) no aggregated Lindell22 signature is produced; no structure in the alphabet qualifies a single holder",
	)
	initStructures()
	initGenesis()
	// the dealt public key is x·G on the reference curve
	if c := curve.K256(); !c.Equal(libcurve.K256().ToRef(pk0), c.ScalarBaseMul(secretX)) {
		panic(engine.HarnessError{Msg: "dealt public key is not (reference-reconstructed secret)·G"})
	}

	depth, canonDepth := 2, 3
	if engine.Thorough() {
		depth, canonDepth = 3, 6
	}
	if v := os.Getenv("C06_DEPTH"); v != "" {
		fmt.Sscan(v, &depth)
	}
	if v := os.Getenv("C06_CANON_DEPTH"); v != "" {
		fmt.Sscan(v, &canonDepth)
	}
	budgetFull, budgetMerged := engine.Budget(10*time.Minute, 60*time.Minute), engine.Budget(6*time.Minute, 30*time.Minute)
	if v := os.Getenv("C06_BUDGET_MIN"); v != "" { // wall budget override for loaded machines
		var m int
		fmt.Sscan(v, &m)
		budgetFull, budgetMerged = time.Duration(m)*time.Minute, time.Duration(m)*time.Minute
	}
	perLevel, _ := predict(max(depth, 4))
	fmt.Println("[C06] histories per length (from the alphabet definition):", perLevel)
	shared := &cache{nodes: map[string]*node{}}
	full := newExplorer(shared, nil)
	sec := full.search(fmt.Sprintf("histories/depth%d", depth), depth, engine.BFSOpts[*node]{Budget: budgetFull})
	want := 0
	for _, n := range perLevel[:depth] {
		want += n
	}
	if sec.Exhaustive && int(sec.Transitions) != want && os.Getenv("VERIF_REPLAY") == "" {
		engine.HarnessFail("section %s executed %d transitions, the alphabet definition gives %d", sec.Name, sec.Transitions, want)
	}
	sec.Note("every history is its own state (no merging); %d (history, operation) pairs evaluated (every enabled one = one execution of the operation and of the invariant on the real code), %d of them ahead of the engine in parallel batches", full.computed, full.prefetched)
	merged := newExplorer(shared, canonKey)
	sec2 := merged.search(fmt.Sprintf("merged/depth%d", canonDepth), canonDepth, engine.BFSOpts[*node]{Budget: budgetMerged})
	if _, m := predict(canonDepth); sec2.Exhaustive && int(sec2.States) != m && os.Getenv("VERIF_REPLAY") == "" {
		engine.HarnessFail("section %s found %d merged states, the alphabet definition gives %d", sec2.Name, sec2.States, m)
	}
	sec2.Note("canonical state key (current structure, holder set, epoch); %d (history, operation) pairs were evaluated in this section, the others are histories already executed by the unmerged section (same history = same deterministic execution) whose recorded result is evaluated again", merged.computed)
	for _, l := range statLines() {
		fmt.Println("  outcome", l)
		sec2.Note("outcome %s", l)
	}
}
