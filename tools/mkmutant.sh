#!/bin/bash
# usage: tools/mkmutant.sh <name> <repo-relative-file> <sed-expression> [...more file/expr pairs]
# Creates /root/scratch/mutants/<name>/ with mutated copies and overlay.json (for VERIF_MUTANT_OVERLAY). /repo is untouched.
set -eu
name=$1; shift
d=/root/scratch/mutants/$name
mkdir -p "$d"
echo '{"Replace":{' > "$d/overlay.json"
first=1
while [ $# -ge 2 ]; do
  f=$1; e=$2; shift 2
  out="$d/$(echo "$f" | tr '/' '_')"
  sed -E "$e" "/repo/$f" > "$out"
  if cmp -s "/repo/$f" "$out"; then echo "mutation had no effect on $f" >&2; exit 1; fi
  [ $first -eq 1 ] || echo ',' >> "$d/overlay.json"
  first=0
  printf '"%s":"%s"' "/repo/$f" "$out" >> "$d/overlay.json"
done
echo '}}' >> "$d/overlay.json"
echo "$d/overlay.json"
