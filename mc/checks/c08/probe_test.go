package c08

import (
	"fmt"
	"os"
	"strings"
	"testing"
	"time"

	"github.com/bronlabs/bron-crypto/pkg/base/curves/k256"

	"verifmc/ref/cbor"
)

// TestProbe prints proof sizes, edit counts and unit costs (developer aid; only with VERIF_C08_PROBE=1).
func TestProbe(t *testing.T) {
	if os.Getenv("VERIF_C08_PROBE") == "" {
		t.Skip()
	}
	k := newEC("k256", k256.NewCurve())
	var insts []*niInst
	insts = append(insts, fam(schnorrCase(k))...)
	insts = append(insts, fam(batchSchnorrCase(k, 2))[:1]...)
	insts = append(insts, fam(okamotoCase(k))[:1]...)
	insts = append(insts, fam(elcomopCase(k))...)
	insts = append(insts, fam(elogCase(k))[:1]...)
	if os.Getenv("VERIF_C08_PROBE") == "heavy" {
		insts = nil
		for _, l := range heavyTable {
			if f := os.Getenv("VERIF_C08_ONLY"); f == "" || strings.Contains(l.name, f) {
				insts = append(insts, l.get())
			}
		}
	}
	for _, n := range only(insts) {
		for _, c := range compilers {
			if n.heavy && compShort(c) != "FS" && os.Getenv("VERIF_C08_PROBE_ALLCOMP") == "" {
				continue
			}
			t0 := time.Now()
			p, err := n.honest(c, proverCtx(), 0)
			tp := time.Since(t0)
			if err != nil {
				fmt.Printf("%-28s %-4s prove error %v\n", n.name, compShort(c), err)
				continue
			}
			t0 = time.Now()
			reps := 5
			for range reps {
				if err := n.verify(c, verifierCtx().build(), stmtSel{}, p); err != nil {
					fmt.Printf("%-28s %-4s HONEST PROOF REJECTED: %v\n", n.name, compShort(c), err)
					break
				}
			}
			tv := time.Since(t0) / time.Duration(reps)
			all := len(enumerateEdits(p, bitsAll, idxAll))
			leaf := len(enumerateEdits(p, bitsLeaf, idx5))
			tiny := len(enumerateEdits(p, bitsLSB, idx2))
			tiny1 := len(enumerateEdits(p, bitsLSB, idx1))
			fmt.Printf("%-28s %-4s len=%5d prove=%8s verify=%8s edits(all)=%6d (leaf,idx5)=%5d (lsb,idx2)=%4d (lsb,idx1)=%4d\n", n.name, compShort(c), len(p), tp.Round(time.Millisecond), tv.Round(10*time.Microsecond), all, leaf, tiny, tiny1)
			if os.Getenv("VERIF_C08_PROBE") == "tree" {
				root, _ := cbor.Parse(p)
				s := root.String()
				if len(s) > 1200 {
					s = s[:1200]
				}
				fmt.Println("   ", s)
			}
		}
	}
}
