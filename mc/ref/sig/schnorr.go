package sig

import (
	"hash"
	"math/big"

	"verifmc/ref/curve"
)

// SchnorrGroup is the reference view of a prime-order group together with the byte encoding of its elements that
// enters the Fiat-Shamir hash.
type SchnorrGroup[P any] interface {
	Name() string
	Order() *big.Int
	Generator() P
	Identity() P
	Add(p, q P) P
	Neg(p P) P
	Mul(k *big.Int, p P) P
	Equal(p, q P) bool
	IsIdentity(p P) bool
	// InSubgroup: on the curve and killed by Order().
	InSubgroup(p P) bool
	// Encode is the compressed encoding used by the library's Point.Bytes() for this curve.
	Encode(p P) []byte
}

// SchnorrConfig mirrors the parameters of the library's configurable Schnorr scheme.
type SchnorrConfig struct {
	Hash         func() hash.Hash
	LittleEndian bool // the digest is byte-reversed before it is reduced mod q as a big-endian integer
	NegResponse  bool // s = k - e*x and the verifier checks s*G == R - e*P
}

// SchnorrChallenge is e = int(H(Encode(R) || Encode(P) || msg)) mod q (digest reversed first when LittleEndian).
func SchnorrChallenge[P any](g SchnorrGroup[P], cfg SchnorrConfig, R, pk P, msg []byte) *big.Int {
	h := cfg.Hash()
	h.Write(g.Encode(R))
	h.Write(g.Encode(pk))
	h.Write(msg)
	d := h.Sum(nil)
	if cfg.LittleEndian {
		for i, j := 0, len(d)-1; i < j; i, j = i+1, j-1 {
			d[i], d[j] = d[j], d[i]
		}
	}
	e := new(big.Int).SetBytes(d)
	return e.Mod(e, g.Order())
}

// SchnorrVerifyWithChallenge checks the acceptance conditions that do not involve the hash: P != O, P in the subgroup,
// R != O, R in the subgroup, 0 < s < q, and s*G == R + e*P (R - e*P when neg).
func SchnorrVerifyWithChallenge[P any](g SchnorrGroup[P], neg bool, pk, R P, s, e *big.Int) bool {
	if g.IsIdentity(pk) || !g.InSubgroup(pk) || g.IsIdentity(R) || !g.InSubgroup(R) {
		return false
	}
	if !inRange(s, g.Order()) || e == nil || e.Sign() < 0 {
		return false
	}
	eP := g.Mul(e, pk)
	if neg {
		eP = g.Neg(eP)
	}
	return g.Equal(g.Mul(s, g.Generator()), g.Add(R, eP))
}

// SchnorrVerify recomputes the challenge from the public inputs and checks the group equation.
func SchnorrVerify[P any](g SchnorrGroup[P], cfg SchnorrConfig, pk, R P, s *big.Int, msg []byte) bool {
	if g.IsIdentity(pk) || g.IsIdentity(R) {
		return false
	}
	return SchnorrVerifyWithChallenge(g, cfg.NegResponse, pk, R, s, SchnorrChallenge(g, cfg, R, pk, msg))
}

// SchnorrSign is textbook signing with an explicit nonce: R = k*G, e = challenge, s = k + e*x (k - e*x when NegResponse).
func SchnorrSign[P any](g SchnorrGroup[P], cfg SchnorrConfig, x, k *big.Int, msg []byte) (R P, s *big.Int) {
	q := g.Order()
	R = g.Mul(k, g.Generator())
	pk := g.Mul(x, g.Generator())
	e := SchnorrChallenge(g, cfg, R, pk, msg)
	ex := new(big.Int).Mul(e, x)
	if cfg.NegResponse {
		ex.Neg(ex)
	}
	s = ex.Add(ex, k)
	s.Mod(s, q)
	return R, s
}

// ---------------------------------------------------------------------------------------------------------------
// bindings to ref/curve

type wEncoding int

const (
	encSEC1  wEncoding = iota // 0x02|0x03 || x big-endian (identity: 0x02 || zeros, the library's convention)
	encPasta                  // x little-endian, parity of y in the top bit of the last byte (identity: zeros)
)

// WeierstrassGroup adapts a prime-field short-Weierstrass curve of ref/curve.
type WeierstrassGroup struct {
	C   *curve.FpCurve
	enc wEncoding
}

func (g WeierstrassGroup) Name() string                         { return g.C.Name }
func (g WeierstrassGroup) Order() *big.Int                      { return g.C.Q }
func (g WeierstrassGroup) Generator() curve.FpPoint             { return g.C.G }
func (g WeierstrassGroup) Identity() curve.FpPoint              { return g.C.Identity() }
func (g WeierstrassGroup) Add(p, q curve.FpPoint) curve.FpPoint { return g.C.Add(p, q) }
func (g WeierstrassGroup) Neg(p curve.FpPoint) curve.FpPoint    { return g.C.Neg(p) }
func (g WeierstrassGroup) Mul(k *big.Int, p curve.FpPoint) curve.FpPoint {
	return g.C.ScalarMul(k, p)
}
func (g WeierstrassGroup) Equal(p, q curve.FpPoint) bool   { return g.C.Equal(p, q) }
func (g WeierstrassGroup) IsIdentity(p curve.FpPoint) bool { return p.Inf }
func (g WeierstrassGroup) InSubgroup(p curve.FpPoint) bool { return inSubgroup(g.C, p) } // cofactor 1: on-curve suffices

func (g WeierstrassGroup) Encode(p curve.FpPoint) []byte {
	n := g.C.F.ByteLen()
	switch g.enc {
	case encPasta:
		out := make([]byte, n)
		if p.Inf {
			return out
		}
		be := p.X.FillBytes(make([]byte, n))
		for i := range be {
			out[n-1-i] = be[i]
		}
		out[n-1] |= byte(p.Y.Bit(0)) << 7
		return out
	default:
		out := make([]byte, 1+n)
		out[0] = 2
		if p.Inf {
			return out
		}
		out[0] |= byte(p.Y.Bit(0))
		p.X.FillBytes(out[1:])
		return out
	}
}

// EdwardsGroup adapts the prime-order subgroup of a twisted Edwards curve of ref/curve (RFC 8032 encoding).
type EdwardsGroup struct{ C *curve.TECurve }

func (g EdwardsGroup) Name() string                                { return g.C.Name }
func (g EdwardsGroup) Order() *big.Int                             { return g.C.Q }
func (g EdwardsGroup) Generator() curve.EPoint                     { return g.C.G }
func (g EdwardsGroup) Identity() curve.EPoint                      { return g.C.Identity() }
func (g EdwardsGroup) Add(p, q curve.EPoint) curve.EPoint          { return g.C.Add(p, q) }
func (g EdwardsGroup) Neg(p curve.EPoint) curve.EPoint             { return g.C.Neg(p) }
func (g EdwardsGroup) Mul(k *big.Int, p curve.EPoint) curve.EPoint { return g.C.ScalarMul(k, p) }
func (g EdwardsGroup) Equal(p, q curve.EPoint) bool                { return g.C.Equal(p, q) }
func (g EdwardsGroup) IsIdentity(p curve.EPoint) bool              { return g.C.IsIdentity(p) }
func (g EdwardsGroup) InSubgroup(p curve.EPoint) bool              { return g.C.InSubgroup(p) }
func (g EdwardsGroup) Encode(p curve.EPoint) []byte                { return g.C.Compress(p) }

var (
	_ SchnorrGroup[curve.FpPoint] = WeierstrassGroup{}
	_ SchnorrGroup[curve.EPoint]  = EdwardsGroup{}
)

// K256Group is secp256k1 with SEC 1 compressed encoding.
func K256Group() WeierstrassGroup { return WeierstrassGroup{curve.K256(), encSEC1} }

// P256Group is NIST P-256 with SEC 1 compressed encoding.
func P256Group() WeierstrassGroup { return WeierstrassGroup{curve.P256(), encSEC1} }

// PallasGroup is Pallas with the zcash/pasta compressed encoding.
func PallasGroup() WeierstrassGroup { return WeierstrassGroup{curve.Pallas(), encPasta} }

// VestaGroup is Vesta with the zcash/pasta compressed encoding.
func VestaGroup() WeierstrassGroup { return WeierstrassGroup{curve.Vesta(), encPasta} }

// Ed25519Group is the prime-order subgroup of edwards25519 with RFC 8032 encoding.
func Ed25519Group() EdwardsGroup { return EdwardsGroup{curve.Edwards25519()} }
