package c13

import (
	"bytes"
	"fmt"
	"math/big"
	"sync"

	"github.com/bronlabs/bron-crypto/pkg/base/curves/pairable/bls12381"

	"verifmc/engine"
	"verifmc/ref/curve"
)

// Reference F_p^12 = F_p^2[v]/(v^3 - (1+u)) [w]/(w^2 - v), F_p^2 = F_p[u]/(u^2+1) (the BLS12-381 tower), schoolbook
// arithmetic on math/big. Used only for: canonical reading of the 12 coordinates and the membership test x^r == 1.

type f2 struct{ a, b *big.Int }
type f6 struct{ c0, c1, c2 f2 }
type f12 struct{ c0, c1 f6 }

type tower struct{ p *big.Int }

func (t tower) red(v *big.Int) *big.Int { return new(big.Int).Mod(v, t.p) }
func (t tower) add2(x, y f2) f2         { return f2{t.red(add(x.a, y.a)), t.red(add(x.b, y.b))} }
func (t tower) mul2(x, y f2) f2 {
	return f2{t.red(sub(new(big.Int).Mul(x.a, y.a), new(big.Int).Mul(x.b, y.b))), t.red(add(new(big.Int).Mul(x.a, y.b), new(big.Int).Mul(x.b, y.a)))}
}
func (t tower) xi2(x f2) f2 { return f2{t.red(sub(x.a, x.b)), t.red(add(x.a, x.b))} } // * (1+u)
func (t tower) add6(x, y f6) f6 {
	return f6{t.add2(x.c0, y.c0), t.add2(x.c1, y.c1), t.add2(x.c2, y.c2)}
}
func (t tower) mul6(x, y f6) f6 {
	m := t.mul2
	c0 := t.add2(m(x.c0, y.c0), t.xi2(t.add2(m(x.c1, y.c2), m(x.c2, y.c1))))
	c1 := t.add2(t.add2(m(x.c0, y.c1), m(x.c1, y.c0)), t.xi2(m(x.c2, y.c2)))
	c2 := t.add2(t.add2(m(x.c0, y.c2), m(x.c1, y.c1)), m(x.c2, y.c0))
	return f6{c0, c1, c2}
}
func (t tower) mulV6(x f6) f6 { return f6{t.xi2(x.c2), x.c0, x.c1} } // * v
func (t tower) mul12(x, y f12) f12 {
	return f12{t.add6(t.mul6(x.c0, y.c0), t.mulV6(t.mul6(x.c1, y.c1))), t.add6(t.mul6(x.c0, y.c1), t.mul6(x.c1, y.c0))}
}
func (t tower) one12() f12 {
	z := func() f2 { return f2{bi(0), bi(0)} }
	return f12{f6{f2{bi(1), bi(0)}, z(), z()}, f6{z(), z(), z()}}
}
func (t tower) pow12(x f12, e *big.Int) f12 {
	r := t.one12()
	for i := e.BitLen() - 1; i >= 0; i-- {
		r = t.mul12(r, r)
		if e.Bit(i) == 1 {
			r = t.mul12(r, x)
		}
	}
	return r
}

const gtCoord = 48

// coordinate order of the library's encoding: c0.c0.a, c0.c0.b, c0.c1.a, c0.c1.b, c0.c2.a, c0.c2.b, c1.c0.a, ...
func (t tower) parse12(d []byte) (f12, []*big.Int) {
	cs := make([]*big.Int, 12)
	for i := range cs {
		cs[i] = beInt(d[i*gtCoord : (i+1)*gtCoord])
	}
	r := func(i int) *big.Int { return t.red(cs[i]) }
	x := f12{
		f6{f2{r(0), r(1)}, f2{r(2), r(3)}, f2{r(4), r(5)}},
		f6{f2{r(6), r(7)}, f2{r(8), r(9)}, f2{r(10), r(11)}},
	}
	return x, cs
}
func (t tower) bytes12(x f12) []byte {
	var out []byte
	for _, c := range []f6{x.c0, x.c1} {
		for _, d := range []f2{c.c0, c.c1, c.c2} {
			out = append(out, beBytes(d.a, gtCoord)...)
			out = append(out, beBytes(d.b, gtCoord)...)
		}
	}
	return out
}

type gtElem struct {
	name string
	lib  *bls12381.GtElement
	ref  f12
	enc  []byte // expected canonical encoding
}

var gtOnce sync.Once
var gtEls []gtElem
var gtTower tower
var gtR *big.Int

func gtElements() []gtElem {
	gtOnce.Do(func() {
		gtTower = tower{curve.BLS12381G1().F.Char()}
		gtR = curve.BLS12381G1().Q
		t := gtTower
		g1, g2 := bls12381.NewG1().Generator(), bls12381.NewG2().Generator()
		gen, err := g1.Pair(g2)
		if err != nil {
			panic(engine.HarnessError{Msg: "pairing of the generators failed: " + err.Error()})
		}
		gb := gen.Bytes()
		if len(gb) != 12*gtCoord {
			panic(engine.HarnessError{Msg: "unexpected GT encoding length"})
		}
		rg, _ := t.parse12(gb)
		one := t.one12()
		if bytes.Equal(t.bytes12(rg), t.bytes12(one)) || !bytes.Equal(t.bytes12(t.pow12(rg, gtR)), t.bytes12(one)) {
			panic(engine.HarnessError{Msg: "reference tower: e(G1,G2)^r != 1 (tower or coordinate order wrong)"})
		}
		gtEls = append(gtEls, gtElem{"1", bls12381.NewGt().One(), one, t.bytes12(one)}, gtElem{"g", gen, rg, t.bytes12(rg)})
		accL, accR := gen, rg
		maxK := 8
		if engine.Thorough() {
			maxK = 16
		}
		for k := 2; k <= maxK; k++ {
			accL, accR = accL.Mul(gen), t.mul12(accR, rg)
			gtEls = append(gtEls, gtElem{fmt.Sprintf("g^%d", k), accL, accR, t.bytes12(accR)})
		}
		inv := t.pow12(rg, sub(gtR, bi(1)))
		gtEls = append(gtEls, gtElem{"g^(r-1)", gen.Inv(), inv, t.bytes12(inv)})
		g2i := t.pow12(rg, sub(gtR, bi(2)))
		gtEls = append(gtEls, gtElem{"g^(r-2)", gen.Mul(gen).Inv(), g2i, t.bytes12(g2i)})
	})
	return gtEls
}

var gtMember sync.Map

// gtInGroup: x != 0 and x^r == 1 in the reference tower.
func gtInGroup(canon []byte) bool {
	if v, ok := gtMember.Load(string(canon)); ok {
		return v.(bool)
	}
	x, _ := gtTower.parse12(canon)
	ok := bytes.Equal(gtTower.bytes12(gtTower.pow12(x, gtR)), gtTower.bytes12(gtTower.one12()))
	gtMember.Store(string(canon), ok)
	return ok
}

func gtSuites() []*suite {
	const name = "bls12381gt"
	G := bls12381.NewGt()
	n := 12 * gtCoord
	key := func(format, what string) string { return name + "/" + format + "/" + what }
	unmarshal := func(b []byte) (*bls12381.GtElement, error) {
		e := new(bls12381.GtElement)
		if err := e.UnmarshalBinary(b); err != nil {
			return nil, err
		}
		return e, nil
	}
	type dec struct {
		name string
		f    func([]byte) (*bls12381.GtElement, error)
	}
	decs := []dec{{"frombytes", G.FromBytes}, {"binary", unmarshal}}

	judge := func(x *engine.X, d dec, in dinput, st *stats) {
		x.Case(key(d.name, in.label))
		e, err, pan := safe(func() (*bls12381.GtElement, error) { return d.f(in.data) })
		if pan != nil {
			failf(x, key(d.name, "panic"), "%s %s panicked on %s: %v", name, d.name, in.label, pan)
			return
		}
		tally(name+"/"+d.name, err == nil)
		if err != nil {
			st.rej++
			if d.name != "frombytes" {
				if _, err0 := G.FromBytes(in.data); err0 == nil {
					failf(x, key(d.name, "differs-from-frombytes"), "%s %s rejects %s but FromBytes accepts it: %v", name, d.name, in.label, err)
				}
			}
			return
		}
		st.acc++
		if d.name != "frombytes" {
			// UnmarshalBinary carries the FromBytes format: same verdict and same element expected, judged there
			e0, err0 := G.FromBytes(in.data)
			if err0 != nil || !bytes.Equal(e0.Bytes(), e.Bytes()) {
				failf(x, key(d.name, "differs-from-frombytes"), "%s %s accepted %s but FromBytes: err=%v or a different element", name, d.name, in.label, err0)
			}
			return
		}
		if len(in.data) != n {
			failf(x, key(d.name, "accepts-wrong-length"), "%s %s accepted %d bytes (%s); the element size is %d", name, d.name, len(in.data), in.label, n)
			return
		}
		rx, _ := gtTower.parse12(in.data)
		want := gtTower.bytes12(rx)
		got, pan := safe1(func() []byte { return e.Bytes() })
		if pan != nil {
			failf(x, key(d.name, "panic"), "%s Bytes() panicked on the element decoded from %s: %v", name, in.label, pan)
			return
		}
		if !bytes.Equal(got, want) {
			failf(x, key(d.name, "value"), "%s %s(%s).Bytes() differs from the coordinates reduced modulo p", name, d.name, in.label)
			return
		}
		zero := true
		for _, b := range want {
			if b != 0 {
				zero = false
			}
		}
		if zero {
			failf(x, key(d.name, "accepts-zero"), "%s %s accepted %s, which denotes 0 of F_p^12: not a unit, hence not an element of the order-r group GT (GtElement.Inv panics on it)", name, d.name, in.label)
			return
		}
		if !gtInGroup(want) {
			failf(x, key(d.name, "accepts-outside-group"), "%s %s accepted %s = %s…: the denoted element x of F_p^12 has x^r != 1, it is not in the order-r target group the type promises", name, d.name, in.label, hex(in.data[:8]))
			return
		}
		// re-encode round trip
		e2, err := d.f(got)
		if err != nil || !bytes.Equal(e2.Bytes(), got) {
			failf(x, key(d.name, "roundtrip"), "%s %s round trip of the element decoded from %s fails: %v", name, d.name, in.label, err)
		}
	}

	build := func() []task {
		els := gtElements()
		p := gtTower.p
		var ts []task
		ts = append(ts, task{name: "round trip and injectivity", run: func(x *engine.X) {
			seen := map[string]string{}
			for _, el := range els {
				x.Case(key("bytes", "rt/"+el.name))
				b := el.lib.Bytes()
				if !bytes.Equal(b, el.enc) {
					failf(x, key("bytes", "encoding-wrong"), "%s Bytes() of %s is not the canonical coordinate encoding of the reference value", name, el.name)
					continue
				}
				if prev, dup := seen[string(b)]; dup {
					failf(x, key("bytes", "collision"), "%s: %s and %s share an encoding", name, prev, el.name)
				}
				seen[string(b)] = el.name
				for _, d := range decs {
					x.Case(key(d.name, "rt/"+el.name))
					e2, err, pan := safe(func() (*bls12381.GtElement, error) { return d.f(b) })
					if pan != nil || err != nil {
						failf(x, key(d.name, "roundtrip"), "%s %s refuses the encoding of %s: %v %v", name, d.name, el.name, err, pan)
						continue
					}
					if !bytes.Equal(e2.Bytes(), b) || !e2.Equal(el.lib) {
						failf(x, key(d.name, "roundtrip"), "%s %s(Bytes()) of %s gives a different element", name, d.name, el.name)
					}
				}
				mb, err := el.lib.MarshalBinary()
				if err != nil || !bytes.Equal(mb, b) {
					failf(x, key("binary", "payload-differs"), "%s MarshalBinary of %s differs from Bytes(): %v", name, el.name, err)
				}
			}
			x.Observe("elements=", len(els), " encodings=", len(seen))
		}})
		// coordinate alphabet: every single coordinate of 1 and of g replaced by {0,1,p-1,p,p+1,2^384-1}; 0; 2; unreduced alias of g
		var ins []dinput
		ins = append(ins, dinput{"zero", make([]byte, n)})
		two := make([]byte, n)
		two[gtCoord-1] = 2
		ins = append(ins, dinput{"2", two})
		vals := []named{{"0", bi(0)}, {"1", bi(1)}, {"p-1", sub(p, bi(1))}, {"p", p}, {"p+1", add(p, bi(1))}, {"2^384-1", pow2m1(384)}}
		for _, base := range els[:2] {
			for i := 0; i < 12; i++ {
				for _, v := range vals {
					d := append([]byte{}, base.enc...)
					copy(d[i*gtCoord:(i+1)*gtCoord], beBytes(v.v, gtCoord))
					ins = append(ins, dinput{fmt.Sprintf("%s/coord%d=%s", base.name, i, v.n), d})
				}
			}
		}
		for i := 0; i < 12; i++ { // unreduced aliases of g: coordinate i + p
			d := append([]byte{}, els[1].enc...)
			c := add(beInt(d[i*gtCoord:(i+1)*gtCoord]), p)
			if c.BitLen() <= 384 {
				copy(d[i*gtCoord:(i+1)*gtCoord], beBytes(c, gtCoord))
				ins = append(ins, dinput{fmt.Sprintf("g/coord%d+p", i), d})
			}
		}
		ins = uniqInputs(ins)
		for _, ch := range chunks(len(ins), 10) {
			ts = append(ts, task{name: fmt.Sprintf("coordinates %d..%d", ch[0], ch[1]), run: func(x *engine.X) {
				var st stats
				for _, in := range ins[ch[0]:ch[1]] {
					for _, d := range decs {
						judge(x, d, in, &st)
					}
				}
				st.observe(x)
			}})
		}
		maxLen := 2*n + 1
		var lens []dinput
		for l := 0; l <= maxLen; l++ {
			if l == n {
				continue
			}
			a := make([]byte, l)
			copy(a, els[1].enc)
			lens = append(lens, dinput{fmt.Sprintf("len=%d/g-zero-filled", l), a})
			if l > 0 {
				lens = append(lens, dinput{fmt.Sprintf("len=%d/ff", l), bytes.Repeat([]byte{0xff}, l)})
			}
		}
		for _, ch := range chunks(len(lens), 300) {
			ts = append(ts, task{name: fmt.Sprintf("lengths %d..%d", ch[0], ch[1]), run: func(x *engine.X) {
				var st stats
				for _, in := range lens[ch[0]:ch[1]] {
					for _, d := range decs {
						judge(x, d, in, &st)
					}
				}
				st.observe(x)
			}})
		}
		return ts
	}
	return []*suite{{name: name, build: build}}
}
