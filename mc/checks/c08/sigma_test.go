package c08

import (
	"bytes"
	"fmt"

	"github.com/bronlabs/bron-crypto/pkg/base/serde"
	"github.com/bronlabs/bron-crypto/pkg/commitments/hashcom"
	"github.com/bronlabs/bron-crypto/pkg/proofs/sigma"
	"github.com/bronlabs/bron-crypto/pkg/proofs/sigma/compiler/zk"

	"verifmc/engine"
	"verifmc/ref/cbor"
)

// challengeAlphabet is the 4-element challenge alphabet of the sigma-level checks: 0, 1, all-ones, a fixed pattern.
func challengeAlphabet(n int) []sigma.ChallengeBytes {
	zero := make([]byte, n)
	one := make([]byte, n)
	one[n-1] = 1
	ones := bytes.Repeat([]byte{0xff}, n)
	pat := make([]byte, n)
	for i := range pat {
		pat[i] = byte(0x35 + 29*i)
	}
	return []sigma.ChallengeBytes{zero, one, ones, pat}
}

var challengeNames = []string{"0", "1", "ff..ff", "pattern"}

// sigmaLevel: on ONE commitment, responses to every challenge of the alphabet verify; for every ordered pair of
// distinct challenges the extractor (where exposed) returns a witness that ValidateStatement accepts; simulated
// transcripts verify for every challenge of the alphabet.
func sigmaLevel[X sigma.Statement, W sigma.Witness, A sigma.Statement, S sigma.State, Z sigma.Response](x *engine.X, c *sigCase[X, W, A, S, Z]) {
	p := c.mk(stream(c.name + "/sigma"))
	x0, w0 := c.inst(0)
	if err := p.ValidateStatement(x0, w0); err != nil {
		x.Failf("sigma/validate-honest", "%s: ValidateStatement rejects the honest instance: %v", c.name, err)
		return
	}
	a, s, err := p.ComputeProverCommitment(x0, w0)
	if err != nil {
		x.Failf("sigma/commit", "%s: ComputeProverCommitment: %v", c.name, err)
		return
	}
	es := challengeAlphabet(p.GetChallengeBytesLength())
	zs := make([]Z, len(es))
	okZ := make([]bool, len(es))
	for i, e := range es {
		x.Case(fmt.Sprintf("%s/respond/%s", c.name, challengeNames[i]))
		z, err := p.ComputeProverResponse(x0, w0, a, s, e)
		if err != nil {
			x.Failf("sigma/respond", "%s: ComputeProverResponse(challenge=%s): %v", c.name, challengeNames[i], err)
			continue
		}
		zs[i], okZ[i] = z, true
		if err := p.Verify(x0, a, e, z); err != nil {
			x.Failf("sigma/complete", "%s: honest transcript for challenge %s does not verify: %v", c.name, challengeNames[i], err)
		}
	}
	extracted := 0
	if c.extract != nil {
		for i := range es {
			for j := range es {
				if i == j || !okZ[i] || !okZ[j] {
					continue
				}
				x.Case(fmt.Sprintf("%s/extract/%s,%s", c.name, challengeNames[i], challengeNames[j]))
				w, err := c.extract(p, x0, a, []sigma.ChallengeBytes{es[i], es[j]}, []Z{zs[i], zs[j]})
				if err != nil {
					x.Failf("sigma/extract-err", "%s: Extract(challenges %s,%s) failed: %v", c.name, challengeNames[i], challengeNames[j], err)
					continue
				}
				if err := p.ValidateStatement(x0, w); err != nil {
					x.Failf("sigma/extract-invalid", "%s: Extract(challenges %s,%s) returned a witness the statement rejects: %v", c.name, challengeNames[i], challengeNames[j], err)
					continue
				}
				extracted++
			}
		}
	}
	sims := 0
	for i, e := range es {
		x.Case(fmt.Sprintf("%s/simulate/%s", c.name, challengeNames[i]))
		sa, sz, err := p.RunSimulator(x0, e)
		if err != nil {
			x.Failf("sigma/simulate-err", "%s: RunSimulator(challenge=%s): %v", c.name, challengeNames[i], err)
			continue
		}
		if err := p.Verify(x0, sa, e, sz); err != nil {
			x.Failf("sigma/simulate-verify", "%s: simulated transcript for challenge %s does not verify: %v", c.name, challengeNames[i], err)
			continue
		}
		sims++
	}
	x.Observe(c.name, "extracted", extracted, "simulated", sims, c.extract != nil)
}

// ---------------------------------------------------------------------------------------------
// interactive zk compiler: honest run and every single message-leaf alteration

type msgEdit struct {
	msg  int    // 1 = verifier's challenge commitment, 2 = prover commitment a, 3 = opening (challenge, witness), 4 = response z
	desc string // "" = none
	// for msg 1/3: byte offset+bit in the raw bytes; for 2/4: an edited CBOR encoding
	raw []byte
}

// zkOnce runs the 5-move protocol, substituting the edited message; it reports whether the verifier accepted.
func zkOnce[X sigma.Statement, W sigma.Witness, A sigma.Statement, S sigma.State, Z sigma.Response](c *sigCase[X, W, A, S, Z], ed func(msg int, raw []byte) []byte) (accepted bool, stage string, msgs [5][]byte) {
	x0, w0 := c.inst(0)
	pr, err := zk.NewProver(proverCtx().build(), c.mk(stream(c.name+"/zk/p")), x0, w0)
	if err != nil {
		return false, "NewProver:" + err.Error(), msgs
	}
	ve, err := zk.NewVerifier(verifierCtx().build(), c.mk(stream(c.name+"/zk/v")), x0, stream(c.name+"/zk/vrng"))
	if err != nil {
		return false, "NewVerifier:" + err.Error(), msgs
	}
	ec, err := ve.Round1()
	if err != nil {
		return false, "Round1:" + err.Error(), msgs
	}
	msgs[1] = append([]byte{}, ec[:]...)
	if b := ed(1, msgs[1]); b != nil {
		copy(ec[:], b)
	}
	a, err := pr.Round2(ec)
	if err != nil {
		return false, "Round2:" + err.Error(), msgs
	}
	msgs[2] = must(serde.MarshalCBOR(a))
	if b := ed(2, msgs[2]); b != nil {
		a, err = serde.UnmarshalCBOR[A](b)
		if err != nil {
			return false, "decode-a:" + err.Error(), msgs
		}
	}
	e, ew, err := ve.Round3(a)
	if err != nil {
		return false, "Round3:" + err.Error(), msgs
	}
	msgs[3] = append(append([]byte{}, e...), ew[:]...)
	if b := ed(3, msgs[3]); b != nil {
		e = hashcom.Message(b[:len(e)])
		copy(ew[:], b[len(e):])
	}
	z, err := pr.Round4(e, ew)
	if err != nil {
		return false, "Round4:" + err.Error(), msgs
	}
	msgs[4] = must(serde.MarshalCBOR(z))
	if b := ed(4, msgs[4]); b != nil {
		z, err = serde.UnmarshalCBOR[Z](b)
		if err != nil {
			return false, "decode-z:" + err.Error(), msgs
		}
	}
	if err := ve.Verify(z); err != nil {
		return false, "Verify:" + err.Error(), msgs
	}
	return true, "accept", msgs
}

func zkRun[X sigma.Statement, W sigma.Witness, A sigma.Statement, S sigma.State, Z sigma.Response](x *engine.X, c *sigCase[X, W, A, S, Z]) {
	none := func(int, []byte) []byte { return nil }
	p := c.mk(stream(c.name + "/zk/params"))
	// documented admission rule of the interactive compiler
	admit := p.SoundnessError() >= 80 && p.GetChallengeBytesLength() <= 32
	ok, stage, msgs := zkOnce(c, none)
	if !admit {
		x.Case(c.name + "/zk/refusal")
		if ok {
			x.Failf("zk/admitted", "%s: zk compiler admitted a protocol outside its documented parameters (soundness %d, challenge %d bytes)", c.name, p.SoundnessError(), p.GetChallengeBytesLength())
		}
		x.Observe(c.name, "zk refused", stage)
		x.Trivial()
		return
	}
	x.Case(c.name + "/zk/honest")
	if !ok {
		x.Failf("zk/complete", "%s: honest interactive run rejected at %s", c.name, stage)
		return
	}
	rejected, exempt := 0, 0
	stages := map[string]int{}
	// raw byte messages (1: challenge commitment, 3: challenge||opening witness): every bit
	for _, m := range []int{1, 3} {
		for bit := 0; bit < 8*len(msgs[m]); bit++ {
			x.Case(fmt.Sprintf("%s/zk/msg%d/bit%d", c.name, m, bit))
			acc, st, _ := zkOnce(c, func(msg int, raw []byte) []byte {
				if msg != m {
					return nil
				}
				out := append([]byte{}, raw...)
				out[bit/8] ^= 0x80 >> (bit % 8)
				return out
			})
			if acc {
				x.Failf("zk/msg-edit-accepted", "%s: verifier accepted although message %d had bit %d flipped", c.name, m, bit)
			} else {
				rejected++
				stages[stageKey(st)]++
			}
		}
	}
	// structured messages (2: commitment a, 4: response z): every leaf edit of their CBOR encoding
	for _, m := range []int{2, 4} {
		root, err := cbor.Parse(msgs[m])
		if err != nil || !bytes.Equal(cbor.Encode(root), msgs[m]) {
			panic(engine.HarnessError{Msg: fmt.Sprintf("%s: zk message %d does not round-trip through the CBOR tree: %v", c.name, m, err)})
		}
		for _, ed := range enumerateEdits(msgs[m], bitsAll, false) {
			x.Case(fmt.Sprintf("%s/zk/msg%d/%s", c.name, m, ed.desc))
			if bytes.Equal(ed.out, msgs[m]) {
				continue
			}
			// mechanical exemption: the edited bytes decode to the very same value
			if m == 2 {
				if v, err := serde.UnmarshalCBOR[A](ed.out); err == nil {
					if b, err := serde.MarshalCBOR(v); err == nil && bytes.Equal(b, msgs[m]) {
						exempt++
						continue
					}
				}
			} else {
				if v, err := serde.UnmarshalCBOR[Z](ed.out); err == nil {
					if b, err := serde.MarshalCBOR(v); err == nil && bytes.Equal(b, msgs[m]) {
						exempt++
						continue
					}
				}
			}
			acc, st, _ := zkOnce(c, func(msg int, _ []byte) []byte {
				if msg != m {
					return nil
				}
				return ed.out
			})
			if acc {
				x.Failf("zk/msg-edit-accepted", "%s: verifier accepted although message %d was edited: %s", c.name, m, ed.desc)
			} else {
				rejected++
				stages[stageKey(st)]++
			}
		}
	}
	x.Observe(c.name, "zk rejected", rejected, "exempt", exempt, fmt.Sprint(stages))
}

func stageKey(s string) string {
	for i := range s {
		if s[i] == ':' {
			return s[:i]
		}
	}
	return s
}
