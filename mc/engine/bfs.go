package engine

import (
	"fmt"
	"os"
	"time"
)

// BFSOpts configures an explicit-state search over the real API.
//
// A state is identified by the operation history that reaches it; a successor is built by replaying the
// (shortest) history on fresh objects and applying one more operation, because live library objects
// cannot be cloned. Build must be deterministic.
type BFSOpts[S any] struct {
	Name   string
	Depth  int
	NumOps int
	// Build replays a history (sequence of op indices) from the initial state on the real implementation.
	// ok=false means the last operation is not enabled in the state reached by hist[:len-1] (no transition).
	Build func(hist []int) (s S, ok bool)
	// Canon returns the canonical key of a state ("" = every history is its own state). Two states may
	// share a key only if they have the same futures with respect to the invariant.
	Canon func(s S, hist []int) string
	// Invariant is evaluated in every state; it records violations on x.
	Invariant func(x *X, s S, hist []int)
	OpName    func(op int) string
	Budget    time.Duration
}

// BFS runs the search breadth-first (so the first violation has the shortest history).
func BFS[S any](o BFSOpts[S]) *Section {
	sec := newSection(o.Name)
	sec.Engine = "BFS"
	start := time.Now()
	if os.Getenv("VERIF_CHILD") != "" {
		sec.Skipped = true
		register(sec)
		return sec
	}
	if only := replaySection(); only != "" {
		if only == o.Name {
			hist := replayChoices
			x := &X{sec: sec, Replay: true}
			s, ok := o.Build(hist)
			if ok {
				o.Invariant(x, s, hist)
			}
			sec.fails = append(sec.fails, x.fails...)
			sec.Executions = 1
		} else {
			sec.Skipped = true
		}
		register(sec)
		return sec
	}
	seen := map[string]struct{}{}
	frontier := [][]int{{}}
	name := func(h []int) string {
		out := ""
		for _, op := range h {
			if o.OpName != nil {
				out += o.OpName(op) + ";"
			} else {
				out += fmt.Sprint(op) + ";"
			}
		}
		return out
	}
	capHit := false
	check := func(hist []int) bool {
		s, ok := o.Build(hist)
		sec.Executions++
		if !ok {
			return false
		}
		sec.Transitions++
		key := ""
		if o.Canon != nil {
			key = o.Canon(s, hist)
		}
		if key == "" {
			key = "h:" + name(hist)
		}
		x := &X{sec: sec}
		func() {
			defer func() {
				if r := recover(); r != nil {
					if he, ok := r.(HarnessError); ok {
						panic(he)
					}
					x.Failf("", "panic in invariant/build after %s: %v", name(hist), r)
				}
			}()
			o.Invariant(x, s, hist)
		}()
		for i := range x.fails {
			x.fails[i].Choices = append([]int{}, hist...)
			x.fails[i].Labels = []string{name(hist)}
		}
		sec.fails = append(sec.fails, x.fails...)
		sec.Cases += x.cases
		if _, dup := seen[key]; dup {
			return false
		}
		seen[key] = struct{}{}
		sec.States++
		if len(sec.Samples) < 4 || (sec.States%997 == 0 && len(sec.Samples) < 8) {
			sec.Samples = append(sec.Samples, name(hist)+" -> "+key)
		}
		return true
	}
	check([]int{})
	sec.Transitions = 0
	for d := 0; d < o.Depth && len(frontier) > 0 && !capHit; d++ {
		var next [][]int
		for _, h := range frontier {
			if o.Budget > 0 && time.Since(start) > o.Budget {
				capHit = true
				break
			}
			if len(sec.fails) >= 20 {
				break
			}
			for op := 0; op < o.NumOps; op++ {
				nh := append(append([]int{}, h...), op)
				if check(nh) {
					next = append(next, nh)
				}
			}
		}
		if !capHit {
			sec.Depth = d + 1
		}
		frontier = next
	}
	sec.WallS = time.Since(start).Seconds()
	sec.Exhaustive = !capHit
	if capHit {
		sec.Cap = fmt.Sprintf("time budget %s hit; complete to depth %d", o.Budget, sec.Depth)
	}
	register(sec)
	return sec
}
