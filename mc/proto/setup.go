// Package proto holds protocol set-ups shared by the protocol-level checks (C01, C03, C04, C06, C07): deterministic
// session contexts, trusted dealing, and one "case" per protocol that runs all parties through their real runners
// over schednet and validates every output. It builds only with the SCHED overlay.
package proto

import (
	"fmt"
	"io"
	"slices"

	"github.com/bronlabs/bron-crypto/pkg/base/curves/k256"
	ds "github.com/bronlabs/bron-crypto/pkg/base/datastructures"
	"github.com/bronlabs/bron-crypto/pkg/base/datastructures/hashset"
	"github.com/bronlabs/bron-crypto/pkg/mpc"
	"github.com/bronlabs/bron-crypto/pkg/mpc/dkg/trusteddealer"
	"github.com/bronlabs/bron-crypto/pkg/mpc/session"
	"github.com/bronlabs/bron-crypto/pkg/mpc/sharing"
	"github.com/bronlabs/bron-crypto/pkg/mpc/sharing/accessstructures"
	"github.com/bronlabs/bron-crypto/pkg/mpc/sharing/accessstructures/threshold"

	"verifmc/det"
)

type ID = sharing.ID

// Set builds a frozen ID set.
func Set(ids ...ID) ds.Set[ID] { return hashset.NewComparable(ids...).Freeze() }

// Sorted returns the ids in ascending order.
func Sorted(ids []ID) []ID { o := append([]ID{}, ids...); slices.Sort(o); return o }

// Contexts builds consistent session contexts for a quorum directly from deterministic seeds (the documented
// constructor; what session setup would output).
func Contexts(ids []ID, seed int64, label string) map[ID]*session.Context {
	r := det.New(seed, "ctx/"+label)
	common := make([]byte, 64)
	_, _ = io.ReadFull(r, common)
	s := Sorted(ids)
	pair := map[ID]map[ID][]byte{}
	for _, id := range s {
		pair[id] = map[ID][]byte{}
	}
	for i := range s {
		for j := i + 1; j < len(s); j++ {
			b := make([]byte, 64)
			_, _ = io.ReadFull(r, b)
			pair[s[i]][s[j]] = b
			pair[s[j]][s[i]] = b
		}
	}
	out := map[ID]*session.Context{}
	q := Set(ids...)
	for _, id := range s {
		c, err := session.NewContext(id, q, common, pair[id])
		if err != nil {
			panic(fmt.Sprintf("proto.Contexts: %v", err))
		}
		out[id] = c
	}
	return out
}

// Threshold builds T(t, ids).
func Threshold(t uint, ids ...ID) accessstructures.Monotone {
	ac, err := threshold.NewThresholdAccessStructure(t, Set(ids...))
	if err != nil {
		panic(err)
	}
	return ac
}

type K256Shard = mpc.BaseShard[*k256.Point, *k256.Scalar]

// DealK256 runs the trusted dealer on k256.
func DealK256(ac accessstructures.Monotone, seed int64, label string) map[ID]*K256Shard {
	m, err := trusteddealer.Deal(k256.NewCurve(), ac, det.New(seed, "deal/"+label))
	if err != nil {
		panic(fmt.Sprintf("proto.DealK256: %v", err))
	}
	out := map[ID]*K256Shard{}
	for id, sh := range m.Iter() {
		out[id] = sh
	}
	return out
}

// KeySeed maps an execution seed to the seed of everything that is FIXED across "parallel sessions": session
// contexts (session id, pairwise seeds) and previously dealt key material. Seeds s and s+1000k share those and
// differ only in the parties' fresh randomness, which is what a replay from a parallel session needs: the replayed
// message is a valid message of the same session id produced with other randomness.
func KeySeed(seed int64) int64 { return seed % 1000 }
