package c16

import (
	"github.com/bronlabs/bron-crypto/pkg/base/serde"
	"bytes"
	"crypto/sha256"
	"encoding/hex"
	"fmt"
	"math/big"
	"os"
	"strings"
	"time"

	"github.com/bronlabs/bron-crypto/pkg/base/nt/num"
	"github.com/bronlabs/bron-crypto/pkg/base/nt/znstar"
	"github.com/bronlabs/bron-crypto/pkg/encryption/paillier"

	"verifmc/engine"
	refp "verifmc/ref/paillier"
)

// ---------------------------------------------------------------------------------------------------------------
// keys and alphabets

type pkey struct {
	name    string
	flavour string
	bits    int
	depth   int
	ref     *refp.Key
	grp     *znstar.PaillierGroupKnownOrder
	sk      *paillier.SecretKey
	pk      *paillier.PublicKey
	skStored *paillier.SecretKey // the same key after a store/reload (CBOR) round trip: "every Paillier key" includes reloaded ones
	pkStored *paillier.PublicKey
	ctLen   int
	plains  []namedInt // negative value => built with NewPlaintextSymmetric
	nonces  []namedInt
	scalars []namedInt
	fresh   map[int]*paillier.Ciphertext // Encrypt(m_i, r_j) through the public key (each is itself a depth-1 state)

	cache  map[string]*pstate
	cached map[string]bool
	// vacuity statistics (the BFS of one key is sequential)
	opCount  map[string]int
	seenM    map[string]struct{}
	seenR    map[string]struct{}
	special  map[string]int
	openedOK int
}

func mustBig(hexs string) *big.Int {
	v, ok := new(big.Int).SetString(hexs, 16)
	if !ok {
		panic(engine.HarnessError{Msg: "bad prime constant"})
	}
	return v
}

// newPKey builds the library key and the reference key from the fixed primes and re-verifies the table entry.
func newPKey(e primePair, depth int) *pkey {
	p, q := mustBig(e.p), mustBig(e.q)
	four := bi(4)
	half := func(v *big.Int) *big.Int { return new(big.Int).Rsh(v, 1) }
	okFlavour := func(v *big.Int) bool {
		m4 := new(big.Int).Mod(v, four).Int64()
		switch e.flavour {
		case "general":
			return m4 == 1
		case "blum":
			return m4 == 3 && !half(v).ProbablyPrime(16)
		case "safe":
			return m4 == 3 && half(v).ProbablyPrime(32)
		}
		return false
	}
	rk, err := refp.New(p, q)
	if err != nil || !okFlavour(p) || !okFlavour(q) || p.BitLen() != q.BitLen() || rk.N.BitLen() != e.bits {
		panic(engine.HarnessError{Msg: fmt.Sprintf("prime table entry %s/%d does not verify: %v", e.flavour, e.bits, err)})
	}
	pp, err1 := num.NPlus().FromBig(p)
	qq, err2 := num.NPlus().FromBig(q)
	if err1 != nil || err2 != nil {
		panic(engine.HarnessError{Msg: "NatPlus.FromBig failed on a prime"})
	}
	grp, err := znstar.NewPaillierGroup(pp, qq)
	if err != nil {
		panic(engine.HarnessError{Msg: "NewPaillierGroup refused the primes: " + err.Error()})
	}
	sk, err := paillier.NewSecretKey(grp)
	if err != nil {
		panic(engine.HarnessError{Msg: "NewSecretKey refused the group: " + err.Error()})
	}
	skStored, pkStored := reloadKeys(sk)
	k := &pkey{skStored: skStored, pkStored: pkStored, name: fmt.Sprintf("%s/%d", e.flavour, e.bits), flavour: e.flavour, bits: e.bits, depth: depth, ref: rk, grp: grp, sk: sk, pk: sk.Public(),
		ctLen: (rk.N2.BitLen() + 7) / 8, fresh: map[int]*paillier.Ciphertext{}, cache: map[string]*pstate{}, cached: map[string]bool{},
		opCount: map[string]int{}, seenM: map[string]struct{}{}, seenR: map[string]struct{}{}, special: map[string]int{}}
	N := rk.N
	h := half(N)
	k.plains = []namedInt{
		{"0", bi(0)}, {"1", bi(1)}, {"2", bi(2)}, {"N-1", new(big.Int).Sub(N, bi(1))},
		{"h", h}, {"h+1", new(big.Int).Add(h, bi(1))}, {"-1", bi(-1)}, {"-h", new(big.Int).Neg(h)},
	}
	u := streamInt("nonce/"+k.name, e.bits)
	u.Mod(u, N)
	for !rk.ValidNonce(u) || u.Cmp(bi(2)) <= 0 {
		u.Add(u, bi(1)).Mod(u, N)
	}
	k.nonces = []namedInt{{"1", bi(1)}, {"2", bi(2)}, {"N-1", new(big.Int).Sub(N, bi(1))}, {"u", u}}
	k.scalars = []namedInt{
		{"0", bi(0)}, {"1", bi(1)}, {"-1", bi(-1)}, {"2", bi(2)}, {"N", new(big.Int).Set(N)},
		{"N+1", new(big.Int).Add(N, bi(1))}, {"-N", new(big.Int).Neg(N)}, {"2^64", new(big.Int).Lsh(bi(1), 64)},
		// scalars longer than the ciphertext modulus N^2 ("scalar larger than N")
		{"2N^2+3", new(big.Int).Add(new(big.Int).Lsh(rk.N2, 1), bi(3))}, {"-(N^3+1)", new(big.Int).Neg(new(big.Int).Add(new(big.Int).Mul(rk.N2, N), bi(1)))},
	}
	return k
}

func (k *pkey) plaintext(v *big.Int) (*paillier.Plaintext, error) {
	if v.Sign() < 0 {
		i, err := num.Z().FromBig(v)
		if err != nil {
			return nil, err
		}
		return paillier.NewPlaintextSymmetric(i, k.grp.N())
	}
	n, err := num.N().FromBig(v)
	if err != nil {
		return nil, err
	}
	return paillier.NewPlaintextFromNat(n, k.grp.N())
}

func (k *pkey) nonce(v *big.Int) (*paillier.Nonce, error) {
	np, err := num.NPlus().FromBig(v)
	if err != nil {
		return nil, err
	}
	return paillier.NewNonce(k.grp, np)
}

func (k *pkey) scalar(v *big.Int) *num.Int {
	s, err := num.Z().FromBig(v)
	if err != nil {
		panic(engine.HarnessError{Msg: "Z.FromBig: " + err.Error()})
	}
	return s
}

// ---------------------------------------------------------------------------------------------------------------
// operations

const (
	nP       = 8
	nR       = 4
	nS = 10
	opEnc    = 0 // nP*nR: at the root Encrypt(m_i, r_j); later CiphertextOp(c, Encrypt(m_i, r_j))
	opSelf   = opEnc + nP*nR
	opSelf3  = opSelf + 1
	opInv    = opSelf3 + 1
	opScalar = opInv + 1
	opShift  = opScalar + nS
	opRerand = opShift + nP
	numPOps  = opRerand + nR
)

func (k *pkey) opName(op int) string {
	switch {
	case op < opSelf:
		return fmt.Sprintf("Enc(%s;%s)", k.plains[op/nR].name, k.nonces[op%nR].name)
	case op == opSelf:
		return "Op(c,c)"
	case op == opSelf3:
		return "Op(c,c,c)"
	case op == opInv:
		return "Inv"
	case op < opShift:
		return "Scalar(" + k.scalars[op-opScalar].name + ")"
	case op < opRerand:
		return "Shift(" + k.plains[op-opShift].name + ")"
	default:
		return "ReRand(" + k.nonces[op-opRerand].name + ")"
	}
}

func opFamily(op int) string {
	switch {
	case op < opSelf:
		return "enc"
	case op <= opSelf3:
		return "self"
	case op == opInv:
		return "inv"
	case op < opShift:
		return "scalar"
	case op < opRerand:
		return "shift"
	default:
		return "rerand"
	}
}

func (k *pkey) histName(h []int) string {
	var sb strings.Builder
	for _, op := range h {
		sb.WriteString(k.opName(op))
		sb.WriteString(";")
	}
	return sb.String()
}

type pstate struct {
	preferSK bool
	ct       *paillier.Ciphertext
	m        refp.Model
	root     bool
	dead     bool
	fails    []fail
}

func (s *pstate) failf(key, format string, a ...any) {
	s.fails = append(s.fails, fail{key, fmt.Sprintf(format, a...)})
}

// agree compares the public-key-path and the secret-key-path result of one operation.
func (k *pkey) agree(ns *pstate, op string, a *paillier.Ciphertext, ea error, b *paillier.Ciphertext, eb error) *paillier.Ciphertext {
	if ea != nil {
		ns.failf("paillier/pk/"+op+"/refused", "PublicKey %s failed on valid operands: %v", op, ea)
		a = nil
	}
	if eb != nil {
		ns.failf("paillier/sk/"+op+"/refused", "SecretKey %s failed on valid operands: %v", op, eb)
		b = nil
	}
	if a != nil && b != nil && !bytes.Equal(a.Bytes(), b.Bytes()) {
		ns.failf("paillier/sk-vs-pk/"+op, "SecretKey %s gives %x, PublicKey %s gives %x", op, b.Bytes(), op, a.Bytes())
	}
	// both results are byte-equal (or a failure was recorded); alternate which object the history continues with, so
	// that ciphertext objects produced by one path are consumed by the other path as well
	if a == nil || (ns.preferSK && b != nil) {
		return b
	}
	return a
}

func (k *pkey) wantPlain(ns *pstate, tag string, got *paillier.Plaintext, err error, want *big.Int) {
	if err != nil || got == nil {
		ns.failf("paillier/plaintext-"+tag+"/refused", "%s failed on valid operands: %v", tag, err)
		return
	}
	if got.Value().Big().Cmp(want) != 0 {
		ns.failf("paillier/plaintext-"+tag, "%s = %v, model %v", tag, got.Value().Big(), want)
	}
}

func (k *pkey) wantNonce(ns *pstate, tag string, got *paillier.Nonce, err error, want *big.Int) {
	if err != nil || got == nil {
		ns.failf("paillier/nonce-"+tag+"/refused", "%s failed on valid operands: %v", tag, err)
		return
	}
	if got.Value().Value().Big().Cmp(want) != 0 {
		ns.failf("paillier/nonce-"+tag, "%s = %v, model %v", tag, got.Value().Value().Big(), want)
	}
}

func (k *pkey) freshCt(op int) (*paillier.Ciphertext, error) {
	if c, ok := k.fresh[op]; ok {
		return c, nil
	}
	pt, err := k.plaintext(k.plains[op/nR].v)
	if err != nil {
		return nil, err
	}
	n, err := k.nonce(k.nonces[op%nR].v)
	if err != nil {
		return nil, err
	}
	c, err := guard(func() (*paillier.Ciphertext, error) { return k.pk.EncryptWithNonce(pt, n) })
	if err == nil {
		k.fresh[op] = c
	}
	return c, err
}

// step applies operation op to the parent state on the real implementation (both paths) and on the model.
func (k *pkey) step(par *pstate, op int, lvl int) (ns *pstate, ok bool) {
	if par.dead || (par.root && op >= opSelf) {
		return nil, false
	}
	ns = &pstate{preferSK: lvl%2 == 0} // even levels continue with the SecretKey result, odd ones with the PublicKey result
	defer func() {
		if r := recover(); r != nil {
			if he, isH := r.(engine.HarnessError); isH {
				panic(he)
			}
			ns.failf("paillier/panic/"+opFamily(op), "panic while applying %s: %v", k.opName(op), r)
			ns.ct, ns.dead, ok = nil, true, true
		}
	}()
	type (
		C = *paillier.Ciphertext
		P = *paillier.Plaintext
		R = *paillier.Nonce
	)
	pk, sk := k.pk, k.sk
	// library objects of the parent's model values (for the plaintext-/nonce-side operations)
	var ptA P
	var nA R
	if !par.root {
		var e1, e2 error
		ptA, e1 = k.plaintext(par.m.M)
		nA, e2 = k.nonce(par.m.R)
		if e1 != nil || e2 != nil {
			ns.failf("paillier/construct", "model value refused by constructor: plaintext %v: %v; nonce %v: %v", par.m.M, e1, par.m.R, e2)
			ns.dead = true
			return ns, true
		}
	}
	switch {
	case op < opSelf:
		i, j := op/nR, op%nR
		fm := k.ref.NewModel(k.plains[i].v, k.nonces[j].v)
		pt, e1 := k.plaintext(k.plains[i].v)
		n, e2 := k.nonce(k.nonces[j].v)
		if e1 != nil || e2 != nil {
			ns.failf("paillier/construct", "alphabet value refused by constructor: plaintext %s: %v; nonce %s: %v", k.plains[i].name, e1, k.nonces[j].name, e2)
			ns.dead = true
			return ns, true
		}
		if pt.Value().Big().Cmp(fm.M) != 0 || n.Value().Value().Big().Cmp(fm.R) != 0 {
			ns.failf("paillier/construct/value", "constructor changed the value: plaintext %s -> %v, nonce %s -> %v", k.plains[i].name, pt.Value().Big(), k.nonces[j].name, n.Value().Value().Big())
		}
		if par.root {
			a, ea := guard(func() (C, error) { return pk.EncryptWithNonce(pt, n) })
			b, eb := guard(func() (C, error) { return sk.EncryptWithNonce(pt, n) })
			ns.ct, ns.m = k.agree(ns, "encrypt", a, ea, b, eb), fm
			break
		}
		fresh, err := k.freshCt(op)
		if err != nil {
			ns.failf("paillier/pk/encrypt/refused", "PublicKey EncryptWithNonce(%s;%s) failed: %v", k.plains[i].name, k.nonces[j].name, err)
			ns.dead = true
			return ns, true
		}
		a, ea := guard(func() (C, error) { return pk.CiphertextOp(par.ct, fresh) })
		b, eb := guard(func() (C, error) { return sk.CiphertextOp(par.ct, fresh) })
		ns.ct, ns.m = k.agree(ns, "op", a, ea, b, eb), k.ref.Op(par.m, fm)
		p1, e := guard(func() (P, error) { return pk.PlaintextOp(ptA, pt) })
		k.wantPlain(ns, "op", p1, e, ns.m.M)
		p2, e := guard(func() (P, error) { return sk.PlaintextOp(ptA, pt) })
		k.wantPlain(ns, "op", p2, e, ns.m.M)
		n1, e := guard(func() (R, error) { return pk.NonceOp(nA, n) })
		k.wantNonce(ns, "op/pk", n1, e, ns.m.R)
		n2, e := guard(func() (R, error) { return sk.NonceOp(nA, n) })
		k.wantNonce(ns, "op/sk", n2, e, ns.m.R)
	case op == opSelf:
		a, ea := guard(func() (C, error) { return pk.CiphertextOp(par.ct, par.ct) })
		b, eb := guard(func() (C, error) { return sk.CiphertextOp(par.ct, par.ct) })
		ns.ct, ns.m = k.agree(ns, "op-self", a, ea, b, eb), k.ref.Op(par.m, par.m)
		p1, e := guard(func() (P, error) { return pk.PlaintextOp(ptA, ptA) })
		k.wantPlain(ns, "op", p1, e, ns.m.M)
		n1, e := guard(func() (R, error) { return pk.NonceOp(nA, nA) })
		k.wantNonce(ns, "op/pk", n1, e, ns.m.R)
		n2, e := guard(func() (R, error) { return sk.NonceOp(nA, nA) })
		k.wantNonce(ns, "op/sk", n2, e, ns.m.R)
	case op == opSelf3:
		a, ea := guard(func() (C, error) { return pk.CiphertextOp(par.ct, par.ct, par.ct) })
		b, eb := guard(func() (C, error) { return sk.CiphertextOp(par.ct, par.ct, par.ct) })
		ns.ct, ns.m = k.agree(ns, "op-variadic", a, ea, b, eb), k.ref.Op(k.ref.Op(par.m, par.m), par.m)
		p1, e := guard(func() (P, error) { return pk.PlaintextOp(ptA, ptA, ptA) })
		k.wantPlain(ns, "op-variadic", p1, e, ns.m.M)
		n1, e := guard(func() (R, error) { return pk.NonceOp(nA, nA, nA) })
		k.wantNonce(ns, "op-variadic/pk", n1, e, ns.m.R)
		n2, e := guard(func() (R, error) { return sk.NonceOp(nA, nA, nA) })
		k.wantNonce(ns, "op-variadic/sk", n2, e, ns.m.R)
	case op == opInv:
		a, ea := guard(func() (C, error) { return pk.CiphertextOpInv(par.ct) })
		b, eb := guard(func() (C, error) { return sk.CiphertextOpInv(par.ct) })
		ns.ct, ns.m = k.agree(ns, "inv", a, ea, b, eb), k.ref.Inv(par.m)
		p1, e := guard(func() (P, error) { return pk.PlaintextOpInv(ptA) })
		k.wantPlain(ns, "inv", p1, e, ns.m.M)
		n1, e := guard(func() (R, error) { return pk.NonceOpInv(nA) })
		k.wantNonce(ns, "inv/pk", n1, e, ns.m.R)
		n2, e := guard(func() (R, error) { return sk.NonceOpInv(nA) })
		k.wantNonce(ns, "inv/sk", n2, e, ns.m.R)
	case op < opShift:
		sv := k.scalars[op-opScalar].v
		s := k.scalar(sv)
		a, ea := guard(func() (C, error) { return pk.CiphertextScalarOp(par.ct, s) })
		b, eb := guard(func() (C, error) { return sk.CiphertextScalarOp(par.ct, s) })
		ns.ct, ns.m = k.agree(ns, "scalar", a, ea, b, eb), k.ref.Scalar(par.m, sv)
		p1, e := guard(func() (P, error) { return pk.PlaintextScalarOp(ptA, s) })
		k.wantPlain(ns, "scalar", p1, e, ns.m.M)
		n1, e := guard(func() (R, error) { return pk.NonceScalarOp(nA, s) })
		k.wantNonce(ns, "scalar/pk", n1, e, ns.m.R)
		n2, e := guard(func() (R, error) { return sk.NonceScalarOp(nA, s) })
		k.wantNonce(ns, "scalar/sk", n2, e, ns.m.R)
	case op < opRerand:
		dv := k.plains[op-opShift].v
		d, err := k.plaintext(dv)
		if err != nil {
			ns.failf("paillier/construct", "alphabet plaintext %s refused: %v", k.plains[op-opShift].name, err)
			ns.dead = true
			return ns, true
		}
		a, ea := guard(func() (C, error) { return pk.Shift(par.ct, d) })
		b, eb := guard(func() (C, error) { return sk.Shift(par.ct, d) })
		ns.ct, ns.m = k.agree(ns, "shift", a, ea, b, eb), k.ref.Shift(par.m, dv)
		p1, e := guard(func() (P, error) { return pk.PlaintextOp(ptA, d) })
		k.wantPlain(ns, "op", p1, e, ns.m.M)
	default:
		rv := k.nonces[op-opRerand].v
		r, err := k.nonce(rv)
		if err != nil {
			ns.failf("paillier/construct", "alphabet nonce %s refused: %v", k.nonces[op-opRerand].name, err)
			ns.dead = true
			return ns, true
		}
		a, ea := guard(func() (C, error) { return pk.ReRandomise(par.ct, r) })
		b, eb := guard(func() (C, error) { return sk.ReRandomise(par.ct, r) })
		ns.ct, ns.m = k.agree(ns, "rerandomise", a, ea, b, eb), k.ref.ReRandomise(par.m, rv)
		n1, e := guard(func() (R, error) { return pk.NonceOp(nA, r) })
		k.wantNonce(ns, "op/pk", n1, e, ns.m.R)
		n2, e := guard(func() (R, error) { return sk.NonceOp(nA, r) })
		k.wantNonce(ns, "op/sk", n2, e, ns.m.R)
	}
	if ns.ct == nil {
		ns.dead = true
	}
	return ns, true
}

// build replays a history; parents are taken from the per-key cache when present (ciphertexts are immutable values),
// otherwise rebuilt from scratch (this is what a --replay run does).
func (k *pkey) build(hist []int) (*pstate, bool) {
	if len(hist) == 0 {
		return &pstate{root: true}, true
	}
	par, ok := k.cache[string(histKey(hist[:len(hist)-1]))]
	if !ok {
		par, ok = k.build(hist[:len(hist)-1])
		if !ok {
			return nil, false
		}
	}
	ns, ok := k.step(par, hist[len(hist)-1], len(hist))
	if ok && len(hist) < k.depth {
		// only the first history that reaches a state is ever extended by the search (same key as Canon)
		if c := k.canon(ns, hist); c == "" || !k.cached[c] {
			k.cached[c] = true
			k.cache[string(histKey(hist))] = ns
		}
	}
	return ns, ok
}

func histKey(h []int) []byte {
	b := make([]byte, len(h))
	for i, v := range h {
		b[i] = byte(v)
	}
	return b
}

func (k *pkey) canon(s *pstate, hist []int) string {
	if s.root {
		return "root"
	}
	if s.ct == nil {
		return "" // dead states are never merged
	}
	h := sha256.New()
	h.Write(s.ct.Bytes())
	fmt.Fprintf(h, "|%d|%s|%s", s.ct.Value().Value().Value().AnnouncedLen(), s.m.M.Text(16), s.m.R.Text(16))
	return hex.EncodeToString(h.Sum(nil)[:16])
}

func short(v *big.Int) string {
	s := v.Text(16)
	if len(s) > 40 {
		return s[:16] + "…" + s[len(s)-16:] + fmt.Sprintf("(%d bits)", v.BitLen())
	}
	return s
}

// invariant is evaluated in every state reached by every transition.
func (k *pkey) invariant(x *engine.X, s *pstate, hist []int) {
	where := fmt.Sprintf("key %s after %s", k.name, k.histName(hist))
	for _, f := range s.fails {
		x.Failf(f.key, "%s: %s", where, f.msg)
	}
	if s.ct == nil {
		return
	}
	last := hist[len(hist)-1]
	k.opCount[opFamily(last)]++
	m, r := s.m.M, s.m.R
	x.Case(k.name + "/" + k.canon(s, hist))
	where += fmt.Sprintf(" (model m=%s r=%s)", short(m), short(r))

	// 1. exact ciphertext: library bytes == textbook formula
	cb := s.ct.Bytes()
	c := new(big.Int).SetBytes(cb)
	want := k.ref.Ciphertext(s.m)
	if len(cb) != k.ctLen {
		x.Failf("paillier/ciphertext/length", "%s: ciphertext encoding has %d bytes, want %d", where, len(cb), k.ctLen)
	}
	if c.Cmp(want) != 0 {
		x.Failf("paillier/formula/"+opFamily(last), "%s: ciphertext %s differs from (1+N)^m r^N mod N^2 = %s; the ciphertext really decrypts (textbook) to m=%s r=%s", where, short(c), short(want), short(k.ref.Decrypt(c)), short(k.ref.Root(c)))
	}
	if !k.ref.ValidCiphertext(c) {
		x.Failf("paillier/ciphertext/non-unit", "%s: ciphertext %s is not in Z*_{N^2}", where, short(c))
	}
	// 2. decryption (CRT / Fermat quotient path) == model plaintext, in [0,N) and in the symmetric range
	dec, err := guard(func() (*paillier.Plaintext, error) { return k.sk.Decrypt(s.ct) })
	if err != nil {
		x.Failf("paillier/decrypt/refused", "%s: Decrypt failed: %v", where, err)
	} else {
		if dec.Value().Big().Cmp(m) != 0 {
			x.Failf("paillier/decrypt", "%s: Decrypt = %s", where, short(dec.Value().Big()))
		}
		if dec.Normalise().Big().Cmp(k.ref.Symmetric(m)) != 0 {
			x.Failf("paillier/decrypt/normalise", "%s: Normalise = %s, want %s", where, dec.Normalise().Big(), k.ref.Symmetric(m))
		}
		if dec.Modulus().Big().Cmp(k.ref.N) != 0 {
			x.Failf("paillier/decrypt/modulus", "%s: decrypted plaintext lives modulo %s, not N", where, short(dec.Modulus().Big()))
		}
	}
	// 2b. the same through the key after a store/reload round trip
	if k.skStored != nil {
		dec2, err := guard(func() (*paillier.Plaintext, error) { return k.skStored.Decrypt(s.ct) })
		if err != nil || dec2.Value().Big().Cmp(m) != 0 {
			got := "error"
			if err == nil {
				got = short(dec2.Value().Big())
			}
			x.Failf("paillier/reloaded-key/decrypt", "%s: Decrypt with the CBOR-reloaded secret key = %s (err %v)", where, got, err)
		}
		type op2 struct {
			m *paillier.Plaintext
			r *paillier.Nonce
		}
		o2, err := guard(func() (op2, error) {
			om, or, e := k.skStored.Open(s.ct)
			return op2{om, or}, e
		})
		if err != nil || o2.m.Value().Big().Cmp(m) != 0 || o2.r.Value().Value().Big().Cmp(r) != 0 {
			x.Failf("paillier/reloaded-key/open", "%s: Open with the CBOR-reloaded secret key failed or differs (err %v)", where, err)
		} else {
			re, e := guard(func() (*paillier.Ciphertext, error) { return k.pkStored.EncryptWithNonce(o2.m, o2.r) })
			re3, e3 := guard(func() (*paillier.Ciphertext, error) { return k.skStored.EncryptWithNonce(o2.m, o2.r) })
			if e != nil || e3 != nil || !bytes.Equal(re.Bytes(), cb) || !bytes.Equal(re3.Bytes(), cb) {
				x.Failf("paillier/reloaded-key/encrypt", "%s: EncryptWithNonce with the CBOR-reloaded keys does not reproduce the ciphertext (err %v / %v)", where, e, e3)
			}
		}
	}
	// 3. opening returns plaintext and nonce, and they re-encrypt to the same ciphertext (both paths)
	type opened struct {
		m *paillier.Plaintext
		r *paillier.Nonce
	}
	o, err := guard(func() (opened, error) {
		om, or, e := k.sk.Open(s.ct)
		return opened{om, or}, e
	})
	if err != nil {
		x.Failf("paillier/open/refused", "%s: Open failed: %v", where, err)
		return
	}
	if o.m.Value().Big().Cmp(m) != 0 || o.r.Value().Value().Big().Cmp(r) != 0 {
		x.Failf("paillier/open", "%s: Open = (m=%s, r=%s)", where, short(o.m.Value().Big()), short(o.r.Value().Value().Big()))
	}
	re1, e1 := guard(func() (*paillier.Ciphertext, error) { return k.pk.EncryptWithNonce(o.m, o.r) })
	re2, e2 := guard(func() (*paillier.Ciphertext, error) { return k.sk.EncryptWithNonce(o.m, o.r) })
	if e1 != nil || e2 != nil {
		x.Failf("paillier/open/reencrypt-refused", "%s: re-encrypting the opening failed: pk %v, sk %v", where, e1, e2)
		return
	}
	if !bytes.Equal(re1.Bytes(), cb) {
		x.Failf("paillier/open/reencrypt", "%s: PublicKey.EncryptWithNonce(Open(c)) = %x != c = %x", where, re1.Bytes(), cb)
	}
	if !bytes.Equal(re2.Bytes(), cb) {
		x.Failf("paillier/open/reencrypt-sk", "%s: SecretKey.EncryptWithNonce(Open(c)) = %x != c = %x", where, re2.Bytes(), cb)
	}
	if !re1.Equal(s.ct) {
		x.Failf("paillier/ciphertext/equal", "%s: Ciphertext.Equal is false for byte-identical ciphertexts", where)
	}
	k.openedOK++
	// vacuity bookkeeping
	k.seenM[m.Text(16)] = struct{}{}
	k.seenR[r.Text(16)] = struct{}{}
	h := new(big.Int).Rsh(k.ref.N, 1)
	switch {
	case m.Sign() == 0:
		k.special["m=0"]++
	case m.Cmp(new(big.Int).Sub(k.ref.N, bi(1))) == 0:
		k.special["m=N-1"]++
	case m.Cmp(h) == 0:
		k.special["m=h"]++
	case m.Cmp(new(big.Int).Add(h, bi(1))) == 0:
		k.special["m=h+1"]++
	}
	if r.Cmp(bi(1)) == 0 {
		k.special["r=1"]++
	}
	if c.Cmp(bi(1)) == 0 {
		k.special["c=1"]++
	}
}

func (k *pkey) runBFS(budget time.Duration) {
	if f := os.Getenv("VERIF_C16_ONLY"); f != "" && !strings.Contains("paillier/bfs/"+k.name, f) {
		return
	}
	sec := engine.BFS(engine.BFSOpts[*pstate]{
		Name:      "paillier/bfs/" + k.name,
		Depth:     k.depth,
		NumOps:    numPOps,
		Build:     k.build,
		Canon:     k.canon,
		Invariant: k.invariant,
		OpName:    k.opName,
		Budget:    budget,
	})
	sec.Note("key %s: N has %d bits; depth %d = 1 Encrypt + %d homomorphic steps; %d operations per state (each through PublicKey and SecretKey)", k.name, k.bits, k.depth, k.depth-1, numPOps-0)
	sec.Note("transitions checked per operation family: %v; states fully opened and re-encrypted: %d", k.opCount, k.openedOK)
	sec.Note("distinct model plaintexts %d, distinct model nonces %d; boundary hits %v", len(k.seenM), len(k.seenR), k.special)
	k.cache, k.cached = nil, nil
}

// ---------------------------------------------------------------------------------------------------------------
// CT section: refusals and the two building blocks, all keys

type refusalCase struct {
	name string
	run  func(x *engine.X, k *pkey, other *pkey)
}

func natOf(v *big.Int) *num.Nat {
	n, err := num.N().FromBig(v)
	if err != nil {
		panic(engine.HarnessError{Msg: "N.FromBig: " + err.Error()})
	}
	return n
}

func natPlusOf(v *big.Int) *num.NatPlus {
	n, err := num.NPlus().FromBig(v)
	if err != nil {
		panic(engine.HarnessError{Msg: "NPlus.FromBig: " + err.Error()})
	}
	return n
}

func paillierRefusalCases() []refusalCase {
	add := func(a, b *big.Int) *big.Int { return new(big.Int).Add(a, b) }
	mul := func(a, b *big.Int) *big.Int { return new(big.Int).Mul(a, b) }
	return []refusalCase{
		{"plaintext-from-nat", func(x *engine.X, k *pkey, _ *pkey) {
			N := k.ref.N
			for _, c := range []struct {
				name string
				v    *big.Int
			}{{"0", bi(0)}, {"N-1", add(N, bi(-1))}, {"N", N}, {"N+1", add(N, bi(1))}, {"2N", mul(N, bi(2))}, {"N^2", k.ref.N2}, {"2^64*N", new(big.Int).Lsh(N, 64)}} {
				x.Case(k.name + "/ptnat/" + c.name)
				pt, err := guard(func() (*paillier.Plaintext, error) { return paillier.NewPlaintextFromNat(natOf(c.v), k.grp.N()) })
				if k.ref.ValidPlaintext(c.v) {
					if err != nil || pt.Value().Big().Cmp(c.v) != 0 {
						x.Failf("paillier/plaintext/in-range-refused", "key %s: NewPlaintextFromNat(%s) err=%v", k.name, c.name, err)
					}
				} else if err == nil {
					x.Failf("paillier/plaintext/out-of-range-accepted", "key %s: NewPlaintextFromNat(%s) accepted an out-of-range plaintext as %v", k.name, c.name, pt.Value().Big())
				}
				x.Observe(c.name, err == nil)
			}
		}},
		{"plaintext-from-smaller-ring", func(x *engine.X, k *pkey, _ *pkey) {
			// a residue of a smaller ring Z_q (q <= N: e.g. a curve scalar) handed over without re-wrapping it in Z_N
			// (paillier.NewPlaintext; znstar's Representative documents "the plaintext's modulus must be <= N"): it is
			// the integer m in [0, N), so Enc(m; r) is the textbook ciphertext and decryption returns m
			N := k.ref.N
			for _, qc := range []struct {
				name string
				q    *big.Int
			}{{"2^61-1", new(big.Int).Sub(new(big.Int).Lsh(bi(1), 61), bi(1))}, {"3", bi(3)}, {"N-2", add(N, bi(-2))}, {"N", N}} {
				qn, err := num.NPlus().FromBig(qc.q)
				if err != nil {
					panic(engine.HarnessError{Msg: "NPlus.FromBig: " + err.Error()})
				}
				zq, err := num.NewZMod(qn)
				if err != nil {
					panic(engine.HarnessError{Msg: "num.NewZMod: " + err.Error()})
				}
				for _, mc := range []struct {
					name string
					v    *big.Int
				}{{"0", bi(0)}, {"1", bi(1)}, {"2", bi(2)}, {"q-1", add(qc.q, bi(-1))}} {
					if mc.v.Cmp(qc.q) >= 0 {
						continue
					}
					x.Case(k.name + "/ptring/" + qc.name + "/" + mc.name)
					m, err := zq.FromNat(natOf(mc.v))
					if err != nil {
						panic(engine.HarnessError{Msg: "ZMod.FromNat: " + err.Error()})
					}
					pt, err := guard(func() (*paillier.Plaintext, error) { return paillier.NewPlaintext(m) })
					if err != nil {
						x.Observe("NewPlaintext refuses", qc.name)
						continue
					}
					rv := k.nonces[len(k.nonces)-1].v
					r, err := k.nonce(rv)
					if err != nil {
						panic(engine.HarnessError{Msg: "nonce: " + err.Error()})
					}
					want := k.ref.Encrypt(mc.v, rv)
					for who, enc := range map[string]func() (*paillier.Ciphertext, error){
						"pk": func() (*paillier.Ciphertext, error) { return k.pk.EncryptWithNonce(pt, r) },
						"sk": func() (*paillier.Ciphertext, error) { return k.sk.EncryptWithNonce(pt, r) },
					} {
						c, err := guard(enc)
						if err != nil {
							// a refusal is not a wrong value (the secret-key path only takes plaintexts of Z_N itself)
							x.Observe(who, "refuses", qc.name)
							continue
						}
						if c.Value().Value().Big().Cmp(want) != 0 {
							x.Failf("paillier/encrypt/smaller-ring", "key %s: %s.EncryptWithNonce(%s in Z_%s; r) != (1+N)^m r^N mod N^2", k.name, who, mc.name, qc.name)
							continue
						}
						dec, err := guard(func() (*paillier.Plaintext, error) { return k.sk.Decrypt(c) })
						if err != nil || dec.Value().Big().Cmp(mc.v) != 0 {
							x.Failf("paillier/decrypt/smaller-ring", "key %s: Decrypt(Enc(%s in Z_%s)) err=%v", k.name, mc.name, qc.name, err)
						}
					}
					x.Observe(qc.name, mc.name)
				}
			}
		}},
		{"plaintext-symmetric", func(x *engine.X, k *pkey, _ *pkey) {
			N := k.ref.N
			h := new(big.Int).Rsh(N, 1)
			neg := func(v *big.Int) *big.Int { return new(big.Int).Neg(v) }
			for _, c := range []struct {
				name string
				v    *big.Int
			}{{"0", bi(0)}, {"-1", bi(-1)}, {"h", h}, {"-h", neg(h)}, {"h+1", add(h, bi(1))}, {"-h-1", neg(add(h, bi(1)))}, {"N-1", add(N, bi(-1))}, {"N", N}, {"-N", neg(N)}} {
				x.Case(k.name + "/ptsym/" + c.name)
				i, _ := num.Z().FromBig(c.v)
				pt, err := guard(func() (*paillier.Plaintext, error) { return paillier.NewPlaintextSymmetric(i, k.grp.N()) })
				inRange := new(big.Int).Abs(c.v).Cmp(h) <= 0
				if inRange {
					if err != nil || pt.Value().Big().Cmp(new(big.Int).Mod(c.v, N)) != 0 || pt.Normalise().Big().Cmp(c.v) != 0 {
						x.Failf("paillier/plaintext/symmetric-in-range", "key %s: NewPlaintextSymmetric(%s) err=%v", k.name, c.name, err)
					}
				} else if err == nil {
					x.Failf("paillier/plaintext/symmetric-out-of-range-accepted", "key %s: NewPlaintextSymmetric(%s) accepted an out-of-range plaintext", k.name, c.name)
				}
				x.Observe(c.name, err == nil)
			}
		}},
		{"nonce", func(x *engine.X, k *pkey, _ *pkey) {
			N, p, q := k.ref.N, k.ref.P, k.ref.Q
			for _, c := range []struct {
				name string
				v    *big.Int
			}{{"1", bi(1)}, {"N-1", add(N, bi(-1))}, {"u", k.nonces[3].v}, {"p", p}, {"q", q}, {"2p", mul(p, bi(2))}, {"N-p", new(big.Int).Sub(N, p)}, {"N", N}, {"N+p", add(N, p)}, {"pN", mul(p, N)}} {
				for view := 0; view < 2; view++ {
					x.Case(fmt.Sprintf("%s/nonce/%s/%d", k.name, c.name, view))
					var n *paillier.Nonce
					var err error
					if view == 0 {
						n, err = guard(func() (*paillier.Nonce, error) { return paillier.NewNonce(k.grp, natPlusOf(c.v)) })
					} else {
						n, err = guard(func() (*paillier.Nonce, error) { return paillier.NewNonce(k.pk.Group(), natPlusOf(c.v)) })
					}
					unit := new(big.Int).GCD(nil, nil, c.v, N).Cmp(bi(1)) == 0
					if unit && c.v.Cmp(N) < 0 {
						if err != nil || n.Value().Value().Big().Cmp(c.v) != 0 {
							x.Failf("paillier/nonce/unit-refused", "key %s: NewNonce(%s) err=%v", k.name, c.name, err)
						}
					} else if !unit && err == nil {
						x.Failf("paillier/nonce/non-unit-accepted", "key %s: NewNonce(%s) accepted a non-unit as %v", k.name, c.name, n.Value().Value().Big())
					}
					x.Observe(c.name, view, err == nil)
				}
			}
		}},
		{"ciphertext-membership", func(x *engine.X, k *pkey, _ *pkey) {
			N, N2, p, q := k.ref.N, k.ref.N2, k.ref.P, k.ref.Q
			for _, c := range []struct {
				name string
				v    *big.Int
			}{{"1", bi(1)}, {"N+1", add(N, bi(1))}, {"N^2-1", add(N2, bi(-1))}, {"p", p}, {"q", q}, {"N", N}, {"pN", mul(p, N)}, {"q^2", mul(q, q)}, {"N^2-N", new(big.Int).Sub(N2, N)}, {"N^2", N2}, {"N^2+p", add(N2, p)}} {
				for view := 0; view < 2; view++ {
					x.Case(fmt.Sprintf("%s/ctmember/%s/%d", k.name, c.name, view))
					var ct *paillier.Ciphertext
					var err error
					if view == 0 {
						ct, err = guard(func() (*paillier.Ciphertext, error) { return paillier.NewCiphertext(k.grp, natPlusOf(c.v)) })
					} else {
						ct, err = guard(func() (*paillier.Ciphertext, error) { return paillier.NewCiphertext(k.pk.Group(), natPlusOf(c.v)) })
					}
					unit := new(big.Int).GCD(nil, nil, c.v, N).Cmp(bi(1)) == 0
					if unit && c.v.Cmp(N2) < 0 {
						if err != nil || new(big.Int).SetBytes(ct.Bytes()).Cmp(c.v) != 0 {
							x.Failf("paillier/ciphertext/member-refused", "key %s: NewCiphertext(%s) err=%v", k.name, c.name, err)
							continue
						}
						// a member that is not produced by Encrypt still decrypts/opens consistently with the textbook
						dec, err := guard(func() (*paillier.Plaintext, error) { return k.sk.Decrypt(ct) })
						if err != nil || dec.Value().Big().Cmp(k.ref.Decrypt(c.v)) != 0 {
							x.Failf("paillier/decrypt/raw-member", "key %s: Decrypt(%s) = %v err=%v, textbook %v", k.name, c.name, dec, err, k.ref.Decrypt(c.v))
						}
					} else if !unit && err == nil {
						// the constructor let a non-member through: then Decrypt has to refuse it
						_, derr := guard(func() (*paillier.Plaintext, error) { return k.sk.Decrypt(ct) })
						x.Failf("paillier/ciphertext/non-member-accepted", "key %s: NewCiphertext(%s) accepted a value outside Z*_{N^2} (Decrypt err=%v)", k.name, c.name, derr)
					}
					x.Observe(c.name, view, err == nil)
				}
			}
		}},
		{"foreign-key", func(x *engine.X, k *pkey, o *pkey) {
			// a ciphertext / nonce / plaintext of ANOTHER key (N' != N) must be refused, never silently mis-decrypted
			x.Case(k.name + "/foreign/" + o.name)
			opt, _ := o.plaintext(bi(2))
			on, _ := o.nonce(bi(2))
			oc, err := o.pk.EncryptWithNonce(opt, on)
			if err != nil {
				panic(engine.HarnessError{Msg: "foreign encryption failed: " + err.Error()})
			}
			if pt, err := guard(func() (*paillier.Plaintext, error) { return k.sk.Decrypt(oc) }); err == nil {
				x.Failf("paillier/decrypt/foreign-accepted", "key %s: Decrypt accepted a ciphertext of key %s and returned %v", k.name, o.name, pt.Value().Big())
			}
			if _, err := guard(func() (int, error) { _, _, e := k.sk.Open(oc); return 0, e }); err == nil {
				x.Failf("paillier/open/foreign-accepted", "key %s: Open accepted a ciphertext of key %s", k.name, o.name)
			}
			pt, _ := k.plaintext(bi(2))
			n, _ := k.nonce(bi(2))
			if c, err := guard(func() (*paillier.Ciphertext, error) { return k.pk.EncryptWithNonce(pt, on) }); err == nil {
				x.Failf("paillier/encrypt/foreign-nonce-accepted", "key %s: PublicKey.EncryptWithNonce accepted a nonce of key %s -> %x", k.name, o.name, c.Bytes())
			}
			if c, err := guard(func() (*paillier.Ciphertext, error) { return k.sk.EncryptWithNonce(pt, on) }); err == nil {
				x.Failf("paillier/encrypt/foreign-nonce-accepted", "key %s: SecretKey.EncryptWithNonce accepted a nonce of key %s -> %x", k.name, o.name, c.Bytes())
			}
			if o.ref.N.Cmp(k.ref.N) > 0 {
				// plaintext over a LARGER modulus (value may exceed N): documented refusal of Representative
				big1, _ := o.plaintext(new(big.Int).Sub(o.ref.N, bi(1)))
				if c, err := guard(func() (*paillier.Ciphertext, error) { return k.pk.EncryptWithNonce(big1, n) }); err == nil {
					x.Failf("paillier/encrypt/foreign-plaintext-accepted", "key %s: PublicKey.EncryptWithNonce accepted a plaintext modulo the larger N of %s -> %x", k.name, o.name, c.Bytes())
				}
				if c, err := guard(func() (*paillier.Ciphertext, error) { return k.sk.EncryptWithNonce(big1, n) }); err == nil {
					x.Failf("paillier/encrypt/foreign-plaintext-accepted", "key %s: SecretKey.EncryptWithNonce accepted a plaintext modulo the larger N of %s -> %x", k.name, o.name, c.Bytes())
				}
			}
			x.Observe(o.ref.N.Cmp(k.ref.N))
		}},
		{"building-blocks", func(x *engine.X, k *pkey, _ *pkey) {
			// Representative(m) = (1+N)^m and IdentityNoise(r) = r^N, public path == secret path == textbook
			onePlusN := add(k.ref.N, bi(1))
			for _, pe := range k.plains {
				x.Case(k.name + "/repr/" + pe.name)
				pt, err := k.plaintext(pe.v)
				if err != nil {
					x.Failf("paillier/construct", "key %s: alphabet plaintext %s refused: %v", k.name, pe.name, err)
					continue
				}
				want := new(big.Int).Exp(onePlusN, new(big.Int).Mod(pe.v, k.ref.N), k.ref.N2)
				a, ea := guard(func() (*paillier.Ciphertext, error) { return k.pk.Representative(pt) })
				b, eb := guard(func() (*paillier.Ciphertext, error) { return k.sk.Representative(pt) })
				if ea != nil || eb != nil || new(big.Int).SetBytes(a.Bytes()).Cmp(want) != 0 || !bytes.Equal(a.Bytes(), b.Bytes()) {
					x.Failf("paillier/representative", "key %s: Representative(%s): pk err=%v sk err=%v, want (1+N)^m = %s", k.name, pe.name, ea, eb, short(want))
				}
			}
			for _, ne := range k.nonces {
				x.Case(k.name + "/noise/" + ne.name)
				n, err := k.nonce(ne.v)
				if err != nil {
					x.Failf("paillier/construct", "key %s: alphabet nonce %s refused: %v", k.name, ne.name, err)
					continue
				}
				want := new(big.Int).Exp(ne.v, k.ref.N, k.ref.N2)
				a, ea := guard(func() (*paillier.Ciphertext, error) { return k.pk.IdentityNoise(n) })
				b, eb := guard(func() (*paillier.Ciphertext, error) { return k.sk.IdentityNoise(n) })
				if ea != nil || eb != nil || new(big.Int).SetBytes(a.Bytes()).Cmp(want) != 0 || !bytes.Equal(a.Bytes(), b.Bytes()) {
					x.Failf("paillier/identity-noise", "key %s: IdentityNoise(%s): pk err=%v sk err=%v, want r^N = %s", k.name, ne.name, ea, eb, short(want))
				}
			}
			x.Observe(len(k.plains), len(k.nonces))
		}},
	}
}

func paillierKeys() []*pkey {
	var ks []*pkey
	for _, e := range primeTable {
		// quick: 256- and 512-bit keys, depth 3. thorough: 256 -> depth 5, 512 -> 4, 1024 -> 4, 2048 -> 3
		depth := 0
		switch e.bits {
		case 256:
			depth = 3
			if engine.Thorough() {
				depth = 5
			}
		case 512:
			depth = 3
			if engine.Thorough() {
				depth = 4
			}
		case 1024:
			if engine.Thorough() {
				depth = 4
			}
		case 2048:
			if engine.Thorough() {
				depth = 3
			}
		}
		if depth > 0 {
			ks = append(ks, newPKey(e, depth))
		}
	}
	return ks
}

func runPaillier() []func() {
	keys := paillierKeys()
	cases := paillierRefusalCases()
	engine.Explore(func(x *engine.X) {
		k := engine.Pick(x, "key", keys)
		c := engine.Pick(x, "case", cases)
		var other *pkey
		if c.name == "foreign-key" {
			other = engine.Pick(x, "other", keys)
			if other == k {
				x.Trivial()
				return
			}
		}
		c.run(x, k, other)
	}, engine.Opts{Name: "paillier/refusals-and-parts", Budget: engine.Budget(2*time.Minute, 10*time.Minute)})

	var fs []func()
	for _, k := range keys {
		fs = append(fs, func() { k.runBFS(engine.Budget(6*time.Minute, 35*time.Minute)) })
	}
	return fs
}

// reloadKeys stores the secret key and its public key as CBOR and loads them back.
func reloadKeys(sk *paillier.SecretKey) (*paillier.SecretKey, *paillier.PublicKey) {
	b, err := serde.MarshalCBOR(sk)
	if err != nil {
		panic(engine.HarnessError{Msg: "MarshalCBOR(secret key): " + err.Error()})
	}
	sk2, err := serde.UnmarshalCBOR[*paillier.SecretKey](b)
	if err != nil {
		panic(engine.HarnessError{Msg: "UnmarshalCBOR(secret key): " + err.Error()})
	}
	pb, err := serde.MarshalCBOR(sk.Public())
	if err != nil {
		panic(engine.HarnessError{Msg: "MarshalCBOR(public key): " + err.Error()})
	}
	pk2, err := serde.UnmarshalCBOR[*paillier.PublicKey](pb)
	if err != nil {
		panic(engine.HarnessError{Msg: "UnmarshalCBOR(public key): " + err.Error()})
	}
	return sk2, pk2
}
