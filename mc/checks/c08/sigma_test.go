package c08

import (
	"github.com/bronlabs/bron-crypto/pkg/proofs/sigma/compiler/fiatshamir"
	"github.com/bronlabs/bron-crypto/pkg/proofs/sigma/compiler"
	"github.com/bronlabs/bron-crypto/pkg/base/serde"
	"bytes"
	"errors"
	"fmt"
	"strings"

	"github.com/bronlabs/bron-crypto/pkg/commitments/hashcom"
	"github.com/bronlabs/bron-crypto/pkg/proofs/sigma"
	"github.com/bronlabs/bron-crypto/pkg/proofs/sigma/compiler/zk"

	"verifmc/engine"
	"verifmc/ref/cbor"
)

// challengeAlphabet is the 4-element challenge alphabet of the sigma-level checks: 0, 1, all-ones, a fixed pattern.
func challengeAlphabet(n int) []sigma.ChallengeBytes {
	zero := make([]byte, n)
	one := make([]byte, n)
	one[n-1] = 1
	ones := bytes.Repeat([]byte{0xff}, n)
	pat := make([]byte, n)
	for i := range pat {
		pat[i] = byte(0x35 + 29*i)
	}
	return []sigma.ChallengeBytes{zero, one, ones, pat}
}

var challengeNames = []string{"0", "1", "ff..ff", "pattern"}

// sigmaLevel: on ONE commitment, responses to every challenge of the alphabet verify; for every ordered pair of
// distinct challenges the extractor (where exposed) returns a witness that ValidateStatement accepts; simulated
// transcripts verify for every challenge of the alphabet.
func sigmaLevel[X sigma.Statement, W sigma.Witness, A sigma.Statement, S sigma.State, Z sigma.Response](x *engine.X, c *sigCase[X, W, A, S, Z]) {
	p := c.mk(stream(c.name + "/sigma"))
	x0, w0 := c.inst(0)
	if err := p.ValidateStatement(x0, w0); err != nil {
		failf(x, "sigma/validate-honest", "%s: ValidateStatement rejects the honest instance: %v", c.name, err)
		return
	}
	a, s, err := p.ComputeProverCommitment(x0, w0)
	if err != nil {
		failf(x, "sigma/commit", "%s: ComputeProverCommitment: %v", c.name, err)
		return
	}
	es := challengeAlphabet(p.GetChallengeBytesLength())
	names := challengeNames
	if c.unitMS > 1000 && !engine.Thorough() {
		// quick, multi-second verifications: the two generic challenges {1, pattern}
		es, names = []sigma.ChallengeBytes{es[1], es[3]}, []string{names[1], names[3]}
	}
	challengeNames := names
	zs := make([]Z, len(es))
	okZ := make([]bool, len(es))
	for i, e := range es {
		x.Case(fmt.Sprintf("%s/respond/%s", c.name, challengeNames[i]))
		z, err := p.ComputeProverResponse(x0, w0, a, s, e)
		if err != nil {
			failf(x, "sigma/respond", "%s: ComputeProverResponse(challenge=%s): %v", c.name, challengeNames[i], err)
			continue
		}
		zs[i], okZ[i] = z, true
		if err := p.Verify(x0, a, e, z); err != nil {
			failf(x, "sigma/complete", "%s: honest transcript for challenge %s does not verify: %v", c.name, challengeNames[i], err)
		}
	}
	extracted := 0
	if c.extract != nil {
		for i := range es {
			for j := range es {
				if i == j || !okZ[i] || !okZ[j] {
					continue
				}
				x.Case(fmt.Sprintf("%s/extract/%s,%s", c.name, challengeNames[i], challengeNames[j]))
				w, err := c.extract(p, x0, a, []sigma.ChallengeBytes{es[i], es[j]}, []Z{zs[i], zs[j]})
				if err != nil {
					failf(x, "sigma/extract-err", "%s: Extract(challenges %s,%s) failed: %v", c.name, challengeNames[i], challengeNames[j], err)
					continue
				}
				if err := p.ValidateStatement(x0, w); err != nil {
					failf(x, "sigma/extract-invalid", "%s: Extract(challenges %s,%s) returned a witness the statement rejects: %v", c.name, challengeNames[i], challengeNames[j], err)
					continue
				}
				extracted++
			}
		}
	}
	// a response that is ALSO accepted under another challenge is a second accepting transcript with the same first
	// message and a different challenge: the extractor must then succeed on it as well
	cross := 0
	for i := range es {
		for j := range es {
			if i == j || !okZ[i] {
				continue
			}
			x.Case(fmt.Sprintf("%s/cross/%s,%s", c.name, challengeNames[i], challengeNames[j]))
			if p.Verify(x0, a, es[j], zs[i]) != nil {
				continue
			}
			cross++
			if c.extract == nil {
				continue
			}
			w, err := c.extract(p, x0, a, []sigma.ChallengeBytes{es[i], es[j]}, []Z{zs[i], zs[i]})
			if err != nil {
				failf(x, "sigma/extract-cross", "%s: the response to challenge %s is also accepted under challenge %s, and Extract fails on these two accepting transcripts: %v", c.name, challengeNames[i], challengeNames[j], err)
			} else if err := p.ValidateStatement(x0, w); err != nil {
				failf(x, "sigma/extract-cross", "%s: the response to challenge %s is also accepted under challenge %s, and Extract returns an invalid witness: %v", c.name, challengeNames[i], challengeNames[j], err)
			}
		}
	}
	sims := 0
	for i, e := range es {
		x.Case(fmt.Sprintf("%s/simulate/%s", c.name, challengeNames[i]))
		sa, sz, err := p.RunSimulator(x0, e)
		if err != nil && c.noSimulator != nil && (errors.Is(err, c.noSimulator) || strings.Contains(err.Error(), c.noSimulator.Error())) {
			continue // documented: this protocol exposes no fixed-challenge simulator
		}
		if err != nil {
			failf(x, "sigma/simulate-err", "%s: RunSimulator(challenge=%s): %v", c.name, challengeNames[i], err)
			continue
		}
		if err := p.Verify(x0, sa, e, sz); err != nil {
			failf(x, "sigma/simulate-verify", "%s: simulated transcript for challenge %s does not verify: %v", c.name, challengeNames[i], err)
			continue
		}
		sims++
	}
	forged := shortChallengeForgery(x, c, p, x0)
	x.Observe(c.name, " extracted ", extracted, " simulated ", sims, " cross-accepted ", cross, " extractor-exposed=", c.extract != nil, " short-challenge proofs tried ", forged)
}

// fsWire mirrors the wire form of a Fiat-Shamir proof (map with the keys A, E, Z).
type fsWire[A, Z any] struct {
	A A      `cbor:"A"`
	E []byte `cbor:"E"`
	Z Z      `cbor:"Z"`
}

// shortChallengeForgery: a Fiat-Shamir proof whose challenge field is SHORTER than the protocol's challenge length.
// Without a witness, for every one-byte challenge e (all 256) and for the empty challenge, the protocol's own
// simulator (where it accepts such a challenge) yields an accepting sigma transcript (a, e, z); assembled into a proof
// it must be rejected: a verifier that sized its recomputed challenge after the proof would accept about one in 256.
// Cheap protocols only (a simulation and a verification per challenge). Returns the number of proofs presented.
func shortChallengeForgery[X sigma.Statement, W sigma.Witness, A sigma.Statement, S sigma.State, Z sigma.Response](x *engine.X, c *sigCase[X, W, A, S, Z], p sigma.Protocol[X, W, A, S, Z], x0 X) int {
	if c.heavy || c.unitMS > 50 || c.noSimulator != nil || p.GetChallengeBytesLength() < 2 || strings.Count(c.name, "/") > 1 {
		// plain protocols only: the simulators of compositions draw from the shared stream in worker goroutines, so
		// WHICH challenge a defective verifier would accept is not reproducible there
		return 0
	}
	rng := stream(c.name + "/short-challenge")
	nip, err := compiler.Compile(fiatshamir.Name, c.mk(rng), rng)
	if err != nil {
		return 0
	}
	tried := 0
	var es [][]byte
	es = append(es, []byte{})
	for e := 0; e < 256; e++ {
		es = append(es, []byte{byte(e)})
	}
	for _, e := range es {
		var sa A
		var sz Z
		var serr error
		if msg, _ := guard(func() { sa, sz, serr = p.RunSimulator(x0, e) }); msg != "" || serr != nil {
			continue // the protocol itself refuses a challenge of this length
		}
		enc, err := serde.MarshalCBOR(&fsWire[A, Z]{A: sa, E: e, Z: sz})
		if err != nil {
			continue
		}
		x.Case("")
		tried++
		var verr error
		msg, site := guard(func() {
			v, e2 := nip.NewVerifier(verifierCtx().build())
			if e2 != nil {
				verr = e2
				return
			}
			verr = v.Verify(x0, enc)
		})
		if site != "" {
			failf(x, "panic@"+site, "%s: Verify panicked on a proof with a %d-byte challenge: %s", c.name, len(e), msg)
			continue
		}
		if verr == nil {
			failf(x, "accepted/"+family(c.name)+"/FS/short-challenge", "%s: a Fiat-Shamir proof with a %d-byte challenge field %x (protocol challenge length %d), assembled from a simulated transcript WITHOUT a witness, was ACCEPTED", c.name, len(e), e, p.GetChallengeBytesLength())
		}
	}
	return tried
}

// ---------------------------------------------------------------------------------------------
// interactive zk compiler (compiler/zk): honest run and every single alteration of every message. Messages 1
// (verifier's challenge commitment) and 3 (challenge || opening witness) are raw byte strings; they pass through
// the same CBOR edit layer wrapped as one byte-string leaf (every bit of it is flipped; structural edits of the
// wrapper simply fail to decode). Messages 2 (commitment a) and 4 (response z) are edited on their CBOR tree.

func rawStep(m int, raw []byte, ed zkEdit, msgs [][]byte) ([]byte, string) {
	enc := cbor.Encode(&cbor.Node{Kind: cbor.Bytes, Data: raw})
	msgs[m] = enc
	b := ed(m, enc)
	if b == nil {
		return raw, ""
	}
	if bytes.Equal(b, enc) {
		return raw, "noop"
	}
	n, err := cbor.Parse(b)
	if err != nil || n.Kind != cbor.Bytes || n.Embedded || len(n.Data) != len(raw) {
		return raw, fmt.Sprintf("decode-msg%d:not a %d-byte string", m, len(raw))
	}
	return n.Data, ""
}

func zkIA[X sigma.Statement, W sigma.Witness, A sigma.Statement, S sigma.State, Z sigma.Response](c *sigCase[X, W, A, S, Z]) *interactive {
	ia := &interactive{name: c.name + "/zk", nMsgs: 4, mode: zkMode(c.heavy), idx: zkIdx(c.heavy), chunk: 8}
	if !c.heavy {
		ia.chunk = 64
	}
	ia.admit = func() (bool, string) {
		p := c.mk(stream(c.name + "/zk/params"))
		return p.SoundnessError() >= 80 && p.GetChallengeBytesLength() <= 32, fmt.Sprintf("soundness 2^-%d, challenge %d bytes", p.SoundnessError(), p.GetChallengeBytesLength())
	}
	ia.run = func(ed zkEdit, screen bool) (accepted bool, stage string, msgs [][]byte) {
		msgs = make([][]byte, 5)
		defer recoverStage(&accepted, &stage)
		x0, w0 := c.inst(0)
		pr, err := zk.NewProver(proverCtx().build(), c.mk(stream(c.name+"/zk/p")), x0, w0)
		if err != nil {
			return false, "NewProver:" + err.Error(), msgs
		}
		ve, err := zk.NewVerifier(verifierCtx().build(), c.mk(stream(c.name+"/zk/v")), x0, stream(c.name+"/zk/vrng"))
		if err != nil {
			return false, "NewVerifier:" + err.Error(), msgs
		}
		ec, err := ve.Round1()
		if err != nil {
			return false, "Round1:" + err.Error(), msgs
		}
		b1, st := rawStep(1, ec[:], ed, msgs)
		if st != "" {
			return false, st, msgs
		}
		copy(ec[:], b1)
		a, err := pr.Round2(ec)
		if err != nil {
			return false, "Round2:" + err.Error(), msgs
		}
		if a, st = step(2, a, ed, screen, msgs); st != "" {
			return false, st, msgs
		}
		e, ew, err := ve.Round3(a)
		if err != nil {
			return false, "Round3:" + err.Error(), msgs
		}
		b3, st := rawStep(3, append(append([]byte{}, e...), ew[:]...), ed, msgs)
		if st != "" {
			return false, st, msgs
		}
		e = hashcom.Message(b3[:len(e)])
		copy(ew[:], b3[len(e):])
		z, err := pr.Round4(e, ew)
		if err != nil {
			return false, "Round4:" + err.Error(), msgs
		}
		if z, st = step(4, z, ed, screen, msgs); st != "" {
			return false, st, msgs
		}
		if err := ve.Verify(z); err != nil {
			return false, "Verify:" + err.Error(), msgs
		}
		return true, "accept", msgs
	}
	registerIA(ia)
	return ia
}

func stageKey(s string) string {
	for i := range s {
		if s[i] == ':' {
			return s[:i]
		}
	}
	return s
}

// nilClass names the kind of the first nil component that the edited value has and the original lacks.
func nilClass(base, edited []string) string {
	have := map[string]bool{}
	for _, p := range base {
		have[p] = true
	}
	for _, p := range edited {
		if !have[p] {
			if strings.HasSuffix(p, "]") {
				return "nil-slice-element"
			}
			return "nil-struct-field"
		}
	}
	return "nil-component-removed"
}

// the interactive runs of the Paillier-sized protocols use the leaf-level bit alphabet and the index alphabet
func zkMode(heavy bool) bitMode {
	if heavy {
		return bitsLSB
	}
	return bitsAll
}

func zkIdx(heavy bool) idxAlphabet {
	if heavy {
		return idx2
	}
	return idxAll
}
