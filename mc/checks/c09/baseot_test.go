package c09

import (
	"fmt"

	"github.com/bronlabs/bron-crypto/pkg/base/algebra"
	"github.com/bronlabs/bron-crypto/pkg/base/curves"
	"github.com/bronlabs/bron-crypto/pkg/ot/base/ecbbot"
	"github.com/bronlabs/bron-crypto/pkg/ot/base/vsot"

	"verifmc/det"
	"verifmc/engine"
	"verifmc/ref/cbor"
)

// ---------------------------------------------------------------------------------------------------------------
// Base OT drivers. Both protocols take the receiver's choice bits as an INPUT of the receiver's first round
// (ecbbot Receiver.Round2(r1, choices), vsot Receiver.Round2(r1, choices)), so the choice vector is fixed by the
// harness directly; the deterministic streams only feed the protocols' own randomness.
// Every message crosses the library's CBOR codec (wire), optionally through a tamper function on the CBOR tree.

type tamper func(msg string, root *cbor.Node) // may mutate the tree of message `msg` in place

// send encodes msg, lets the adversary alter the tree, and decodes what the recipient gets.
func send[T any](name string, msg T, tp tamper) (T, *stepErr) {
	var z T
	if tp == nil {
		out, _, err := wire(msg)
		if err != nil {
			return z, &stepErr{err, false, "codec " + name}
		}
		return out, nil
	}
	return sendTampered(name, msg, tp)
}

type ecbbotRun[S algebra.PrimeFieldElement[S]] struct {
	send *ecbbot.SenderOutput[S]
	recv *ecbbot.ReceiverOutput[S]
}

func runECBBOT[P curves.Point[P, B, S], B algebra.FieldElement[B], S algebra.PrimeFieldElement[S]](c cv[P, B, S], xi, l int, choices []byte, seed int64, label string, tp tamper) (*ecbbotRun[S], *stepErr) {
	suite, err := ecbbot.NewSuite(xi, l, c.curve)
	if err != nil {
		return nil, &stepErr{err, false, "ecbbot.NewSuite"}
	}
	ctxS, ctxR := contexts(seed, label)
	snd, err := ecbbot.NewSender(ctxS, suite, det.New(seed, label+"/sender"))
	if err != nil {
		return nil, &stepErr{err, false, "ecbbot.NewSender"}
	}
	rcv, err := ecbbot.NewReceiver(ctxR, suite, det.New(seed, label+"/receiver"))
	if err != nil {
		return nil, &stepErr{err, false, "ecbbot.NewReceiver"}
	}
	out := &ecbbotRun[S]{}
	var r1 *ecbbot.Round1P2P[P, S]
	var r2 *ecbbot.Round2P2P[P, S]
	if se := guard("sender.Round1", func() (e error) { r1, e = snd.Round1(); return }); se != nil {
		return nil, se
	}
	r1, se := send("ecbbot.r1", r1, tp)
	if se != nil {
		return nil, se
	}
	if se := guard("receiver.Round2", func() (e error) {
		r2, out.recv, e = rcv.Round2(r1, append([]byte{}, choices...))
		return
	}); se != nil {
		return nil, se
	}
	r2, se = send("ecbbot.r2", r2, tp)
	if se != nil {
		return nil, se
	}
	if se := guard("sender.Round3", func() (e error) { out.send, e = snd.Round3(r2); return }); se != nil {
		return nil, se
	}
	return out, nil
}

type vsotRun struct {
	send *vsot.SenderOutput
	recv *vsot.ReceiverOutput
}

func runVSOT[P curves.Point[P, B, S], B algebra.FieldElement[B], S algebra.PrimeFieldElement[S]](c cv[P, B, S], xi, l int, choices []byte, seed int64, label string, tp tamper) (*vsotRun, *stepErr) {
	suite, err := vsot.NewSuite(xi, l, c.curve, hashFunc)
	if err != nil {
		return nil, &stepErr{err, false, "vsot.NewSuite"}
	}
	ctxS, ctxR := contexts(seed, label)
	snd, err := vsot.NewSender(ctxS, suite, det.New(seed, label+"/sender"))
	if err != nil {
		return nil, &stepErr{err, false, "vsot.NewSender"}
	}
	rcv, err := vsot.NewReceiver(ctxR, suite, det.New(seed, label+"/receiver"))
	if err != nil {
		return nil, &stepErr{err, false, "vsot.NewReceiver"}
	}
	out := &vsotRun{}
	var (
		r1 *vsot.Round1P2P[P, B, S]
		r2 *vsot.Round2P2P[P, B, S]
		r3 *vsot.Round3P2P[P, B, S]
		r4 *vsot.Round4P2P[P, B, S]
		r5 *vsot.Round5P2P[P, B, S]
		se *stepErr
	)
	if se = guard("sender.Round1", func() (e error) { r1, e = snd.Round1(); return }); se != nil {
		return nil, se
	}
	if r1, se = send("vsot.r1", r1, tp); se != nil {
		return nil, se
	}
	if se = guard("receiver.Round2", func() (e error) {
		r2, out.recv, e = rcv.Round2(r1, append([]byte{}, choices...))
		return
	}); se != nil {
		return nil, se
	}
	if r2, se = send("vsot.r2", r2, tp); se != nil {
		return nil, se
	}
	if se = guard("sender.Round3", func() (e error) { r3, out.send, e = snd.Round3(r2); return }); se != nil {
		return nil, se
	}
	if r3, se = send("vsot.r3", r3, tp); se != nil {
		return nil, se
	}
	if se = guard("receiver.Round4", func() (e error) { r4, e = rcv.Round4(r3); return }); se != nil {
		return nil, se
	}
	if r4, se = send("vsot.r4", r4, tp); se != nil {
		return nil, se
	}
	if se = guard("sender.Round5", func() (e error) { r5, e = snd.Round5(r4); return }); se != nil {
		return nil, se
	}
	if r5, se = send("vsot.r5", r5, tp); se != nil {
		return nil, se
	}
	if se = guard("receiver.Round6", func() error { return rcv.Round6(r5) }); se != nil {
		return nil, se
	}
	return out, nil
}

// ---------------------------------------------------------------------------------------------------------------
// Section bodies.

type baseCfg struct {
	xi, l   int
	seeds   int // how many of seedList()
	choices [][]byte
	names   []string
}

// baseBody: one execution = (protocol, curve, xi, L, seed, choice-vector block); inner loop over the vectors of the block.
func baseBody(cfgs []baseCfg, block int) func(*engine.X) {
	return func(x *engine.X) {
		proto := x.Choose("proto", 2) // 0 ecbbot, 1 vsot
		curve := x.Choose("curve", 2) // 0 k256, 1 p256
		cfg := cfgs[x.Choose("shape", len(cfgs))]
		seed := engine.Pick(x, "seed", seedList()[:cfg.seeds])
		nb := (len(cfg.choices) + block - 1) / block
		blk := x.Choose("block", nb)
		stats := map[string]int{}
		for vi := blk * block; vi < len(cfg.choices) && vi < (blk+1)*block; vi++ {
			ch := cfg.choices[vi]
			var o *otOut
			var se *stepErr
			pn := [...]string{"ecbbot", "vsot"}[proto]
			cn := [...]string{"k256", "p256"}[curve]
			what := fmt.Sprintf("%s/%s xi=%d L=%d seed=%d choices=%x(%s)", pn, cn, cfg.xi, cfg.l, seed, ch, cfg.names[vi])
			label := fmt.Sprintf("%s/%s/%d/%d", pn, cn, cfg.xi, cfg.l) // the same protocol randomness for every choice vector of a shape
			x.Case(what)
			switch {
			case proto == 0 && curve == 0:
				o, se = ecbbotOut(runECBBOT(cvK256, cfg.xi, cfg.l, ch, seed, label, nil))
			case proto == 0 && curve == 1:
				o, se = ecbbotOut(runECBBOT(cvP256, cfg.xi, cfg.l, ch, seed, label, nil))
			case proto == 1 && curve == 0:
				o, se = vsotOut(runVSOT(cvK256, cfg.xi, cfg.l, ch, seed, label, nil))
			default:
				o, se = vsotOut(runVSOT(cvP256, cfg.xi, cfg.l, ch, seed, label, nil))
			}
			if se != nil {
				k := "honest-abort"
				if se.panicked {
					k = "panic"
				}
				x.Failf(pn+"/"+k, "%s: honest run did not complete: %s", what, first(se))
				continue
			}
			if checkOT(x, pn, what, cfg.xi, cfg.l, ch, o) && (o.bits == nil || checkOT(x, pn+"/bits", what+" after ToBitsOutput", cfg.xi, cfg.l, ch, o.bits)) {
				stats["ok"]++
			}
			// fold the selected pads into the outcome so that distinct choice vectors give visibly distinct outcomes
			x.Observe(cfg.names[vi], fmt.Sprintf("%x", o.recv[0][0][:4]))
		}
		x.Observe(stats)
	}
}

// bitsKey is the (public) key of the scalar-to-bytes conversion used before the extension.
var bitsKey = []byte("verif-c09 ToBitsOutput key 32 by")

func ecbbotOut[S algebra.PrimeFieldElement[S]](r *ecbbotRun[S], se *stepErr) (*otOut, *stepErr) {
	if se != nil {
		return nil, se
	}
	o := &otOut{choices: r.recv.Choices, recv: sBytes(r.recv.Messages), send: sBytes2(r.send.Messages)}
	// the documented conversion to byte-string pads (what the extension consumes) must preserve the correlation
	sb, err := r.send.ToBitsOutput(32, bitsKey)
	if err != nil {
		return nil, &stepErr{err, false, "SenderOutput.ToBitsOutput"}
	}
	rb, err := r.recv.ToBitsOutput(32, bitsKey)
	if err != nil {
		return nil, &stepErr{err, false, "ReceiverOutput.ToBitsOutput"}
	}
	o.bits = &otOut{choices: rb.Choices, recv: rb.Messages, send: sb.Messages}
	return o, nil
}

func vsotOut(r *vsotRun, se *stepErr) (*otOut, *stepErr) {
	if se != nil {
		return nil, se
	}
	return &otOut{choices: r.recv.Choices, recv: r.recv.Messages, send: r.send.Messages}, nil
}

// allBytes: every choice byte (xi = 8).
func allBytes() (vs [][]byte, names []string) {
	for b := 0; b < 256; b++ {
		vs = append(vs, []byte{byte(b)})
		names = append(names, fmt.Sprintf("%08b", b))
	}
	return
}

// baseRefusalBody: the documented refusals of the base OTs: batch sizes that are not a positive multiple of 8, a
// non-positive block count, and a choice vector whose length is not xi/8 (error, no panic, no output).
func baseRefusalBody(x *engine.X) {
	proto := x.Choose("proto", 2)
	xi := engine.Pick(x, "xi", []int{-8, 0, 1, 7, 8, 9, 12, 16, 20, 24})
	l := engine.Pick(x, "L", []int{-1, 0, 1, 2})
	want := xi > 0 && xi%8 == 0 && l > 0
	var err error
	se := guard("NewSuite", func() error {
		if proto == 0 {
			_, err = ecbbot.NewSuite(xi, l, cvK256.curve)
		} else {
			_, err = vsot.NewSuite(xi, l, cvK256.curve, hashFunc)
		}
		return nil
	})
	pn := [...]string{"ecbbot", "vsot"}[proto]
	x.Case(fmt.Sprintf("%s/%d/%d", pn, xi, l))
	if se != nil {
		x.Failf(pn+"/panic", "%s.NewSuite(xi=%d, L=%d): %s", pn, xi, l, first(se))
		return
	}
	if (err == nil) != want {
		x.Failf(pn+"/suite-admissibility", "%s.NewSuite(xi=%d, L=%d): err=%v, documented rule (xi a positive multiple of 8, L positive) says admissible=%v", pn, xi, l, err, want)
		return
	}
	refusedLens := 0
	if want {
		for _, wl := range []int{0, xi/8 - 1, xi/8 + 1} {
			if wl < 0 {
				continue
			}
			x.Case(fmt.Sprintf("%s/%d/%d/len%d", pn, xi, l, wl))
			var fe *stepErr
			if proto == 0 {
				_, fe = runECBBOT(cvK256, xi, l, make([]byte, wl), engine.Seed(), "refusal", nil)
			} else {
				_, fe = runVSOT(cvK256, xi, l, make([]byte, wl), engine.Seed(), "refusal", nil)
			}
			if fe == nil || fe.panicked || fe.where != "receiver.Round2" {
				x.Failf(pn+"/choices-length", "%s xi=%d L=%d: a %d-byte choice vector was not refused by Receiver.Round2 (%s)", pn, xi, l, wl, first(fe))
			} else {
				refusedLens++
			}
		}
	}
	x.Observe(pn, xi, l, err == nil, refusedLens)
}
