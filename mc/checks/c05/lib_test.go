package c05

import (
	"math/big"
	"slices"

	"github.com/bronlabs/bron-crypto/pkg/base/algebra"
	"github.com/bronlabs/bron-crypto/pkg/base/mat"
	pedcom "github.com/bronlabs/bron-crypto/pkg/commitments/pedersencom"
	"github.com/bronlabs/bron-crypto/pkg/mpc/sharing"
	"github.com/bronlabs/bron-crypto/pkg/mpc/sharing/scheme/kw/msp"
	"github.com/bronlabs/bron-crypto/pkg/mpc/sharing/vss/feldman"

	"verifmc/engine"
	"verifmc/ref/conv"
	"verifmc/ref/linalg"
)

// gctx is one prime-order group with its scalar field, the order typed in from the standard, and a Pedersen key
// whose trapdoor h = log_G(H) is known to the harness (so that the Pedersen oracle is exact in math/big).
type gctx[E algebra.PrimeGroupElement[E, S], S algebra.PrimeFieldElement[S]] struct {
	name  string
	group algebra.PrimeGroup[E, S]
	field algebra.PrimeField[S]
	q     *big.Int
	h     *big.Int
	key   *pedcom.CommitmentKey[E, S]
}

func newGctx[E algebra.PrimeGroupElement[E, S], S algebra.PrimeFieldElement[S]](name string, group algebra.PrimeGroup[E, S], field algebra.PrimeField[S], q *big.Int) gctx[E, S] {
	g := gctx[E, S]{name: name, group: group, field: field, q: q}
	bad := func(msg string) { panic(engine.HarnessError{Msg: "calibration of " + name + ": " + msg}) }
	// the conversion helpers must agree with the library's arithmetic, otherwise every oracle below is void
	probe := big.NewInt(0x010203)
	if conv.ToBig(g.el(probe)).Cmp(probe) != 0 {
		bad("scalar byte order")
	}
	G := group.Generator()
	if !G.ScalarOp(g.el(big.NewInt(2))).Equal(G.Op(G)) || !G.ScalarOp(g.el(q)).IsOpIdentity() || G.IsOpIdentity() {
		bad("[2]G != G+G or [q]G != O")
	}
	if !G.ScalarOp(g.el(new(big.Int).Sub(q, big.NewInt(1)))).Equal(G.OpInv()) {
		bad("[q-1]G != -G")
	}
	g.h = seeded(q, "trapdoor/"+name)
	tk, err := pedcom.NewTrapdoorKey(G, g.el(g.h))
	if err != nil {
		bad("trapdoor key: " + err.Error())
	}
	g.key = tk.Export()
	if !g.key.H().Equal(G.ScalarOp(g.el(g.h))) || !g.key.G().Equal(G) {
		bad("H != [h]G")
	}
	return g
}

func (g gctx[E, S]) el(v *big.Int) S { return conv.FromBig(g.field, g.q, v) }

func (g gctx[E, S]) els(vs []*big.Int) []S {
	out := make([]S, len(vs))
	for i, v := range vs {
		out[i] = g.el(v)
	}
	return out
}

func bigs[S interface{ Bytes() []byte }](vs []S) []*big.Int {
	out := make([]*big.Int, len(vs))
	for i, v := range vs {
		out[i] = conv.ToBig(v)
	}
	return out
}

func eqBigs(a, b []*big.Int) bool {
	return slices.EqualFunc(a, b, func(x, y *big.Int) bool { return x.Cmp(y) == 0 })
}

// column reads a library column vector into math/big.
func column[S algebra.PrimeFieldElement[S]](m *mat.Matrix[S]) []*big.Int {
	r, c := m.Dimensions()
	if c != 1 {
		panic(engine.HarnessError{Msg: "dealer column is not a column"})
	}
	out := make([]*big.Int, r)
	for i := range out {
		e, err := m.Get(i, 0)
		if err != nil {
			panic(engine.HarnessError{Msg: err.Error()})
		}
		out[i] = conv.ToBig(e)
	}
	return out
}

// libColumn builds a library column vector from residues.
func (g gctx[E, S]) libColumn(vs []*big.Int) *mat.Matrix[S] {
	mod, err := mat.NewColumnVectorModule(uint(len(vs)), g.field)
	if err != nil {
		panic(engine.HarnessError{Msg: err.Error()})
	}
	c, err := mod.NewRowMajor(g.els(vs)...)
	if err != nil {
		panic(engine.HarnessError{Msg: err.Error()})
	}
	return c
}

// readModel reads the span programme (matrix and row labelling) out of the library.
func readModel[S algebra.PrimeFieldElement[S]](q, h *big.Int, mp *msp.MSP[S], ids []sharing.ID) *model {
	R, D := mp.Matrix().Dimensions()
	M := linalg.New(q, R, D)
	for i := 0; i < R; i++ {
		for j := 0; j < D; j++ {
			e, err := mp.Matrix().Get(i, j)
			if err != nil {
				panic(engine.HarnessError{Msg: err.Error()})
			}
			M.A[i][j] = conv.ToBig(e)
		}
	}
	m := &model{q: q, h: h, M: M, ids: ids, rows: make([][]int, len(ids))}
	seen := 0
	for i, id := range ids {
		rs, ok := mp.HoldersToRows().Get(id)
		if !ok {
			// a party that belongs to every maximal unqualified set (it never helps any set to qualify) gets no row
			// and no share; every vector presented under its identity must be rejected
			continue
		}
		m.rows[i] = rs.List()
		slices.Sort(m.rows[i])
		seen += len(m.rows[i])
	}
	if seen != R {
		panic(engine.HarnessError{Msg: "span programme has rows labelled with identifiers outside the configuration"})
	}
	return m
}

// vvElems reads the entries of a verification vector.
func vvElems[E algebra.PrimeGroupElement[E, S], S algebra.PrimeFieldElement[S]](vv *feldman.VerificationVector[E, S]) []E {
	r, _ := vv.Value().Dimensions()
	out := make([]E, r)
	for i := range out {
		e, err := vv.Value().Get(i, 0)
		if err != nil {
			panic(engine.HarnessError{Msg: err.Error()})
		}
		out[i] = e
	}
	return out
}

// mkValue builds a module-valued column from group elements.
func (g gctx[E, S]) mkValue(elems []E) (*mat.ModuleValuedMatrix[E, S], error) {
	module := algebra.StructureMustBeAs[algebra.FiniteModule[E, S]](g.group.Generator().Structure())
	mod, err := mat.NewModuleValuedColumnVectorModule(uint(len(elems)), module)
	if err != nil {
		return nil, err
	}
	return mod.NewRowMajor(elems...)
}

// applyLib mirrors model.applyExp on group elements.
func (g gctx[E, S]) applyLib(elems []E, ed vvEdit) []E {
	out := slices.Clone(elems)
	G := g.group.Generator()
	switch ed.kind {
	case "plusG":
		out[ed.j] = out[ed.j].Op(G)
	case "minusG":
		out[ed.j] = out[ed.j].Op(G.OpInv())
	case "plusH":
		out[ed.j] = out[ed.j].Op(g.key.H())
	case "identity":
		out[ed.j] = g.group.OpIdentity()
	case "swap":
		out[ed.j], out[ed.k] = out[ed.k], out[ed.j]
	case "dropLast":
		out = out[:len(out)-1]
	case "dropFirst":
		out = out[1:]
	case "appendIdentity":
		out = append(out, g.group.OpIdentity())
	case "appendG":
		out = append(out, G)
	default:
		panic(engine.HarnessError{Msg: "unknown edit " + ed.kind})
	}
	return out
}

// commits reports whether elems[j] = [e_j]G for all j (library scalar multiplication of the generator).
func (g gctx[E, S]) commits(elems []E, e []*big.Int) bool {
	if len(elems) != len(e) {
		return false
	}
	G := g.group.Generator()
	for j := range e {
		if !elems[j].Equal(G.ScalarOp(g.el(e[j]))) {
			return false
		}
	}
	return true
}
