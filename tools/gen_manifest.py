#!/usr/bin/env python3
"""Regenerates /verif/MANIFEST.json from the table below (keeps it valid at all times)."""
import json, os, sys
V = os.path.dirname(os.path.dirname(os.path.abspath(__file__)))
BASELINE = "cd /repo && go test -json -vet=off -count=1 -timeout 25m ./..."

# id -> (engine, category, technique, level text, level note, design ref)
CHECKS = {
 "C20": ("CT", "exploration",
   "exhaustive enumeration of all matrices/right-hand sides/node sets over a boundary alphabet (choice-tree DFS), math/big reference",
   "Every matrix over {0,1,2,q-1} up to 3x3 (and non-square shapes over {0,1,q-1}) x every right-hand side, every node subset (size<=4) x coefficient vector x evaluation point, every Birkhoff (x,j) pattern n<=4, on k256 and BLS12-381 scalars, is compared with math/big Gaussian elimination / polynomial evaluation; complete inside the alphabet, nothing sampled.",
   "Trusts math/big, /verif/mc/ref/linalg, Go toolchain; purego build; operands outside the alphabets are not covered.", "DESIGN §5 C20"),
 "C11": ("SCHED", "model_checking",
   "stateless model checking of the real router under a cooperative scheduler: all thread interleavings up to a preemption bound x all arrival orders/fault placements, judged against a reference delivery log",
   "pkg/network is compiled from an automatically instrumented copy in which every mutex/channel/select/go/context operation is a scheduling point; closed scenarios (demux, namespaces, duplicates, cancellation+retry, foreign traffic, close/transport failure, lowered buffer bound) are explored for every schedule with <=2 (quick) / <=3 (thorough) preemptions and every arrival order; each ReceiveFrom outcome is judged linearizability-style against the adversarial network's own delivery log; no-enabled-thread = deadlock.",
   "Trusts the scheduler model (sync.Mutex, buffered channels, close, select, go, context.WithCancel; sequentially consistent memory), the source rewriter (rejects every construct it does not model), Go toolchain. Weak-memory effects and unsynchronised accesses are left to the free-running -race pass.", "DESIGN §3.2, §5 C11"),
}
NOT_YET = {}
for i in range(1, 21):
    pid = "C%02d" % i
    if pid not in CHECKS:
        NOT_YET[pid] = "check not built yet in this session (design in DESIGN.md §5 %s); will be claimed once its check exists and passes on the unchanged tree" % pid

m = {
 "version": 1,
 "setup_cmd": "./check --build-all",
 "hooks": {
   "guard": "verif",
   "enable": "go test -tags purego,verif [-overlay <generated from the current /repo tree>] (no hook is committed to /repo: instrumentation is generated into a build overlay at check time, see DESIGN §2.2)",
   "baseline_off_cmd": BASELINE,
   "source_commits": [],
   "add_only": True,
 },
 "engines": [
   {"name": "CT", "path": "mc/engine/ct.go", "serves_properties": sorted(k for k, v in CHECKS.items() if "CT" in v[0]), "kind_free_text": "stateless exhaustive DFS over Choose points of a check body that calls the real library; deviation bounded; parallel over subtrees"},
   {"name": "SCHED", "path": "mc/mcrt/mcrt.go + mc/instrument/main.go", "serves_properties": sorted(k for k, v in CHECKS.items() if "SCHED" in v[0]), "kind_free_text": "cooperative scheduler runtime + go/ast source rewriter that routes every synchronisation operation of pkg/network through it (mounted by build overlay); explored by CT with iterative preemption bounding, sharded over worker processes"},
   {"name": "BFS", "path": "mc/engine/bfs.go", "serves_properties": sorted(k for k, v in CHECKS.items() if "BFS" in v[0]), "kind_free_text": "explicit-state breadth-first search; successor = replay history on fresh real objects + one operation"},
 ],
 "checks": [],
 "not_applicable": [{"property_id": k, "reason": v} for k, v in sorted(NOT_YET.items())],
 "notes": "All checks are `./check <ID> <tier>`; they rebuild from /repo's working tree with -tags purego,verif. known_findings.json lists recorded defects; replays/ holds violation replay files (./check <ID> --replay <file>).",
}
for pid, (eng, cat, tech, text, note, ref) in sorted(CHECKS.items()):
    m["checks"].append({
      "property_id": pid,
      "quick_cmd": "./check %s quick" % pid,
      "thorough_cmd": "./check %s thorough" % pid,
      "evidence_file": "/verif/evidence/%s.json" % pid,
      "replay_cmd_template": "./check %s --replay {path}" % pid,
      "engine": eng,
      "level_claimed": {"category": cat, "text": text, "design_ref": ref},
      "level_note": note,
      "technique": tech,
    })
json.dump(m, open(os.path.join(V, "MANIFEST.json"), "w"), indent=1)
print("MANIFEST.json written:", len(m["checks"]), "checks,", len(m["not_applicable"]), "not_applicable")
