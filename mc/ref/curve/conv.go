package curve

import (
	"errors"
	"fmt"
	"math/big"
)

// Converters between library points and reference points. They use only the library's *public affine accessors*
// (IsZero, AffineX, AffineY, field element Bytes / FromBytes, Curve.FromAffine) through structural interfaces, so this
// package does not import bron-crypto; ready-made adapters for each library curve are in the sub-package libcurve.
//
// Conventions of the library relied upon (and nothing else): field element Bytes() is the canonical big-endian
// encoding (for F_p^2: c0 || c1), Field.FromBytes accepts that encoding, AffineX/AffineY fail for the identity of a
// Weierstrass curve.

// Byteser is a library field element.
type Byteser interface{ Bytes() []byte }

// LibAffine is the read side of a library point with coordinate type F.
type LibAffine[F Byteser] interface {
	IsZero() bool
	AffineX() (F, error)
	AffineY() (F, error)
}

// LibField is the write side of a library field.
type LibField[F any] interface {
	FromBytes([]byte) (F, error)
}

// LibCurve is the write side of a library curve.
type LibCurve[P any, F any] interface {
	FromAffine(x, y F) (P, error)
	OpIdentity() P
}

var errNotOnCurve = errors.New("ref/curve: library point is not on the reference curve")

func affineXY[F Byteser](p LibAffine[F]) (x, y []byte, err error) {
	fx, err := p.AffineX()
	if err != nil {
		return nil, nil, fmt.Errorf("AffineX: %w", err)
	}
	fy, err := p.AffineY()
	if err != nil {
		return nil, nil, fmt.Errorf("AffineY: %w", err)
	}
	return fx.Bytes(), fy.Bytes(), nil
}

// FpPointFromLib reads a library point of a prime-field Weierstrass curve. The result is checked to be on c.
func FpPointFromLib[F Byteser](c *FpCurve, p LibAffine[F]) (FpPoint, error) {
	if p.IsZero() {
		return c.Identity(), nil
	}
	xb, yb, err := affineXY(p)
	if err != nil {
		return c.Identity(), err
	}
	q := FpPoint{X: new(big.Int).SetBytes(xb), Y: new(big.Int).SetBytes(yb)}
	if !c.OnCurve(q) {
		return q, fmt.Errorf("%w: %s", errNotOnCurve, c.Key(q))
	}
	return q, nil
}

func splitFp2(f *QuadField, b []byte) (Fp2, error) {
	n := f.ByteLen()
	if len(b) != 2*n {
		return f.Zero(), fmt.Errorf("ref/curve: Fp2 encoding has %d bytes, want %d", len(b), 2*n)
	}
	return Fp2{new(big.Int).SetBytes(b[:n]), new(big.Int).SetBytes(b[n:])}, nil
}

// Fp2PointFromLib reads a library point of a Weierstrass curve over F_p^2 (coordinate bytes c0 || c1).
func Fp2PointFromLib[F Byteser](c *Fp2Curve, p LibAffine[F]) (Fp2Point, error) {
	if p.IsZero() {
		return c.Identity(), nil
	}
	xb, yb, err := affineXY(p)
	if err != nil {
		return c.Identity(), err
	}
	f := c.F.(*QuadField)
	x, err := splitFp2(f, xb)
	if err != nil {
		return c.Identity(), err
	}
	y, err := splitFp2(f, yb)
	if err != nil {
		return c.Identity(), err
	}
	q := Fp2Point{X: x, Y: y}
	if !c.OnCurve(q) {
		return q, fmt.Errorf("%w: %s", errNotOnCurve, c.Key(q))
	}
	return q, nil
}

// EPointFromLib reads a library twisted-Edwards point. The library's accessors refuse the identity, which is mapped to
// (0,1) via IsZero.
func EPointFromLib[F Byteser](c *TECurve, p LibAffine[F]) (EPoint, error) {
	if p.IsZero() {
		return c.Identity(), nil
	}
	xb, yb, err := affineXY(p)
	if err != nil {
		return c.Identity(), err
	}
	q := EPoint{X: new(big.Int).SetBytes(xb), Y: new(big.Int).SetBytes(yb)}
	if !c.OnCurve(q) {
		return q, fmt.Errorf("%w: %s", errNotOnCurve, c.Key(q))
	}
	return q, nil
}

// MPointFromLib reads a library Montgomery (u,v) point through AffineX/AffineY. Two points have no such accessors in
// the library's representation: the identity (IsZero) and the 2-torsion point (0,0), whose AffineY is refused; the
// latter is recognised by u == 0.
func MPointFromLib[F Byteser](c *MCurve, p LibAffine[F]) (MPoint, error) {
	if p.IsZero() {
		return c.Identity(), nil
	}
	fx, err := p.AffineX()
	if err != nil {
		return c.Identity(), fmt.Errorf("AffineX: %w", err)
	}
	u := new(big.Int).SetBytes(fx.Bytes())
	if u.Sign() == 0 {
		return MPoint{U: new(big.Int), V: new(big.Int)}, nil
	}
	fy, err := p.AffineY()
	if err != nil {
		return c.Identity(), fmt.Errorf("AffineY: %w", err)
	}
	q := MPoint{U: u, V: new(big.Int).SetBytes(fy.Bytes())}
	if !c.OnCurve(q) {
		return q, fmt.Errorf("%w: %s", errNotOnCurve, c.Key(q))
	}
	return q, nil
}

// FpPointToLib builds the library point with the given affine coordinates through Curve.FromAffine.
func FpPointToLib[P any, F any](cv LibCurve[P, F], fld LibField[F], c *FpCurve, p FpPoint) (P, error) {
	if p.Inf {
		return cv.OpIdentity(), nil
	}
	var zero P
	x, err := fld.FromBytes(c.F.Bytes(p.X))
	if err != nil {
		return zero, err
	}
	y, err := fld.FromBytes(c.F.Bytes(p.Y))
	if err != nil {
		return zero, err
	}
	return cv.FromAffine(x, y)
}

// Fp2PointToLib is FpPointToLib over F_p^2 (coordinate bytes c0 || c1).
func Fp2PointToLib[P any, F any](cv LibCurve[P, F], fld LibField[F], c *Fp2Curve, p Fp2Point) (P, error) {
	if p.Inf {
		return cv.OpIdentity(), nil
	}
	var zero P
	x, err := fld.FromBytes(c.F.Bytes(p.X))
	if err != nil {
		return zero, err
	}
	y, err := fld.FromBytes(c.F.Bytes(p.Y))
	if err != nil {
		return zero, err
	}
	return cv.FromAffine(x, y)
}

// EPointToLib builds a library Edwards point (the identity (0,1) goes through FromAffine like any other point).
func EPointToLib[P any, F any](cv LibCurve[P, F], fld LibField[F], c *TECurve, p EPoint) (P, error) {
	var zero P
	x, err := fld.FromBytes(c.F.Bytes(p.X))
	if err != nil {
		return zero, err
	}
	y, err := fld.FromBytes(c.F.Bytes(p.Y))
	if err != nil {
		return zero, err
	}
	return cv.FromAffine(x, y)
}
