package c17

import (
	"fmt"
	"math/big"

	"github.com/bronlabs/bron-crypto/pkg/base/nt/cardinal"
	"github.com/bronlabs/bron-crypto/pkg/base/nt/num"

	"verifmc/engine"
)

// numBody: the value-semantics wrappers num.Nat, num.NatPlus, num.Int over V (V± for Int): every pair for the binary
// operations, every value for the unary ones and the conversions.
func numBody() func(*engine.X) {
	VN := natV()
	VZ := intV()
	return func(x *engine.X) {
		typ := x.Choose("type", 3)
		switch typ {
		case 0:
			a := VN[x.Choose("a", len(VN))]
			numNatUnary(x, a)
			for _, b := range VN {
				numNatPair(x, a, b)
			}
			x.Observe("N", a.BitLen())
		case 1:
			a := VN[1+x.Choose("a", len(VN)-1)] // positive
			numNatPlusUnary(x, a)
			for _, b := range VN[1:] {
				numNatPlusPair(x, a, b)
			}
			x.Observe("N+", a.BitLen())
		case 2:
			a := VZ[x.Choose("a", len(VZ))]
			numIntUnary(x, a)
			for _, b := range VZ {
				numIntPair(x, a, b)
			}
			x.Observe("Z", a.BitLen(), a.Sign())
		}
	}
}

type valuer interface{ Big() *big.Int }

func eqBig(x *engine.X, key string, desc func() string, got valuer, want *big.Int) {
	x.Case("")
	if g := got.Big(); g.Cmp(want) != 0 {
		failf(x, key, "%s = %s, want %s", desc(), show(g), show(want))
	}
}

func eqBool(x *engine.X, key string, desc func() string, got, want bool) {
	x.Case("")
	if got != want {
		failf(x, key, "%s = %v, want %v", desc(), got, want)
	}
}

func mustN(v *big.Int) *num.Nat {
	n, err := num.N().FromBig(v)
	if err != nil {
		panic(engine.HarnessError{Msg: "N.FromBig: " + err.Error()})
	}
	return n
}

func mustNP(v *big.Int) *num.NatPlus {
	n, err := num.NPlus().FromBig(v)
	if err != nil {
		panic(engine.HarnessError{Msg: "NPlus.FromBig: " + err.Error()})
	}
	return n
}

func mustZ(v *big.Int) *num.Int {
	n, err := num.Z().FromBig(v)
	if err != nil {
		panic(engine.HarnessError{Msg: "Z.FromBig: " + err.Error()})
	}
	return n
}

func sgn(c int) int {
	switch {
	case c < 0:
		return -1
	case c > 0:
		return 1
	}
	return 0
}

func numNatPair(x *engine.X, av, bv *big.Int) {
	d := func(op string) func() string {
		return func() string { return fmt.Sprintf("num.Nat(%s).%s(%s)", show(av), op, show(bv)) }
	}
	g := func(op string, f func(a, b *num.Nat)) {
		guard(x, "num/n/"+op, d(op), func() { f(mustN(av), mustN(bv)) })
	}
	g("Add", func(a, b *num.Nat) { eqBig(x, "num/n/Add", d("Add"), a.Add(b), new(big.Int).Add(av, bv)) })
	g("Mul", func(a, b *num.Nat) { eqBig(x, "num/n/Mul", d("Mul"), a.Mul(b), new(big.Int).Mul(av, bv)) })
	g("TrySub", func(a, b *num.Nat) {
		r, err := a.TrySub(b)
		eqBool(x, "num/n/TrySub/defined", d("TrySub ok"), err == nil, av.Cmp(bv) >= 0)
		if err == nil {
			eqBig(x, "num/n/TrySub", d("TrySub"), r, new(big.Int).Sub(av, bv))
		}
	})
	for _, vt := range []bool{false, true} {
		name := "TryDiv"
		if vt {
			name = "TryDivVarTime"
		}
		g(name, func(a, b *num.Nat) {
			var r *num.Nat
			var err error
			if vt {
				r, err = a.TryDivVarTime(b)
			} else {
				r, err = a.TryDiv(b)
			}
			exact := bv.Sign() != 0 && new(big.Int).Mod(av, bv).Sign() == 0
			eqBool(x, "num/n/"+name+"/defined", d(name+" ok"), err == nil, exact)
			if err == nil && exact {
				eqBig(x, "num/n/"+name, d(name), r, new(big.Int).Div(av, bv))
			}
		})
		name2 := "DivRound"
		if vt {
			name2 = "DivRoundVarTime"
		}
		g(name2, func(a, b *num.Nat) {
			var r *num.Nat
			var err error
			if vt {
				r, err = a.DivRoundVarTime(b)
			} else {
				r, err = a.DivRound(b)
			}
			eqBool(x, "num/n/"+name2+"/defined", d(name2+" ok"), err == nil, bv.Sign() != 0)
			if err == nil && bv.Sign() != 0 {
				eqBig(x, "num/n/"+name2, d(name2), r, new(big.Int).Div(av, bv))
			}
		})
		name3 := "EuclideanDiv"
		if vt {
			name3 = "EuclideanDivVarTime"
		}
		key := "num/n/" + name3
		a0, b0 := mustN(av), mustN(bv)
		if vt && a0.AnnouncedLen()+2 < b0.TrueLen() {
			key = "numct/divvartime/short-numerator"
		}
		guardKey(x, key, d(name3), func() {
			a, b := mustN(av), mustN(bv)
			var q, r *num.Nat
			var err error
			if vt {
				q, r, err = a.EuclideanDivVarTime(b)
			} else {
				q, r, err = a.EuclideanDiv(b)
			}
			eqBool(x, key, d(name3+" ok"), err == nil, bv.Sign() != 0)
			if err == nil && bv.Sign() != 0 {
				wq, wr := new(big.Int).DivMod(av, bv, new(big.Int))
				eqBig(x, key, d(name3+" quotient"), q, wq)
				eqBig(x, key, d(name3+" remainder"), r, wr)
			}
		})
	}
	g("GCD", func(a, b *num.Nat) { eqBig(x, "num/n/GCD", d("GCD"), a.GCD(b), new(big.Int).GCD(nil, nil, av, bv)) })
	g("Coprime", func(a, b *num.Nat) {
		eqBool(x, "num/n/Coprime", d("Coprime"), a.Coprime(b), new(big.Int).GCD(nil, nil, av, bv).Cmp(bi(1)) == 0)
	})
	g("Compare", func(a, b *num.Nat) {
		c := av.Cmp(bv)
		x.Case("")
		if int(a.Compare(b)) != sgn(c) {
			failf(x, "num/n/Compare", "%s = %d, want %d", d("Compare")(), a.Compare(b), c)
		}
		eqBool(x, "num/n/IsLessThanOrEqual", d("IsLessThanOrEqual"), a.IsLessThanOrEqual(b), c <= 0)
		eqBool(x, "num/n/Equal", d("Equal"), a.Equal(b), c == 0)
	})
	if bv.Sign() > 0 {
		g("Mod", func(a, b *num.Nat) {
			m := mustNP(bv)
			eqBig(x, "num/n/Mod", d("Mod"), a.Mod(m), new(big.Int).Mod(av, bv))
			eqBool(x, "num/n/IsUnit", d("IsUnit"), a.IsUnit(m), new(big.Int).GCD(nil, nil, av, bv).Cmp(bi(1)) == 0)
		})
	}
}

func numNatUnary(x *engine.X, v *big.Int) {
	d := func(op string) func() string {
		return func() string { return fmt.Sprintf("num.Nat(%s).%s", show(v), op) }
	}
	guard(x, "num/n/unary", d("unary"), func() {
		a := mustN(v)
		eqBig(x, "num/n/FromBig", d("Big"), a, v)
		eqBig(x, "num/n/Clone", d("Clone"), a.Clone(), v)
		eqBig(x, "num/n/Double", d("Double"), a.Double(), new(big.Int).Lsh(v, 1))
		eqBig(x, "num/n/Square", d("Square"), a.Square(), new(big.Int).Mul(v, v))
		eqBig(x, "num/n/Increment", d("Increment"), a.Increment(), new(big.Int).Add(v, bi(1)))
		dec, err := a.Decrement()
		eqBool(x, "num/n/Decrement/defined", d("Decrement ok"), err == nil, v.Sign() > 0)
		if err == nil {
			eqBig(x, "num/n/Decrement", d("Decrement"), dec, new(big.Int).Sub(v, bi(1)))
		}
		eqBig(x, "num/n/Lift", d("Lift"), a.Lift(), v)
		eqBool(x, "num/n/IsZero", d("IsZero"), a.IsZero(), v.Sign() == 0)
		eqBool(x, "num/n/IsOne", d("IsOne"), a.IsOne(), v.Cmp(bi(1)) == 0)
		eqBool(x, "num/n/IsPositive", d("IsPositive"), a.IsPositive(), v.Sign() > 0)
		eqBool(x, "num/n/IsEven", d("IsEven"), a.IsEven(), v.Bit(0) == 0)
		eqBool(x, "num/n/IsOdd", d("IsOdd"), a.IsOdd(), v.Bit(0) == 1)
		eqBool(x, "num/n/IsProbablyPrime", d("IsProbablyPrime"), a.IsProbablyPrime(), isPrime(v))
		x.Case("")
		if a.TrueLen() != v.BitLen() {
			failf(x, "num/n/TrueLen", "%s = %d", d("TrueLen")(), a.TrueLen())
		}
		inv, err := a.TryInv()
		eqBool(x, "num/n/TryInv/defined", d("TryInv ok"), err == nil, v.Cmp(bi(1)) == 0)
		if err == nil {
			eqBig(x, "num/n/TryInv", d("TryInv"), inv, v)
		}
		if _, err := a.TryNeg(); err == nil {
			failf(x, "num/n/TryNeg", "%s succeeded on a natural number", d("TryNeg")())
		}
		// square root: defined exactly for perfect squares
		for _, w := range []*big.Int{v, new(big.Int).Mul(v, v), new(big.Int).Add(new(big.Int).Mul(v, v), bi(1))} {
			r, err := mustN(w).Sqrt()
			rt := new(big.Int).Sqrt(w)
			perfect := new(big.Int).Mul(rt, rt).Cmp(w) == 0
			dd := func() string { return fmt.Sprintf("num.Nat(%s).Sqrt", show(w)) }
			eqBool(x, "num/n/Sqrt/defined", dd, err == nil, perfect)
			if err == nil && perfect {
				eqBig(x, "num/n/Sqrt", dd, r, rt)
			}
		}
		for _, sh := range []uint{0, 1, 8, 63, 64, 65, uint(v.BitLen()), uint(v.BitLen() + 70)} {
			eqBig(x, "num/n/Lsh", func() string { return fmt.Sprintf("num.Nat(%s).Lsh(%d)", show(v), sh) }, a.Lsh(sh), new(big.Int).Lsh(v, sh))
			eqBig(x, "num/n/Rsh", func() string { return fmt.Sprintf("num.Nat(%s).Rsh(%d)", show(v), sh) }, a.Rsh(sh), new(big.Int).Rsh(v, sh))
		}
		// conversions
		bs := a.Bytes()
		back, err := num.N().FromBytes(bs)
		if err != nil {
			failf(x, "num/n/FromBytes", "N.FromBytes(Bytes(%s)): %v", show(v), err)
		} else {
			eqBig(x, "num/n/FromBytes", d("FromBytes(Bytes)"), back, v)
		}
		if v.BitLen() <= 64 {
			eqBig(x, "num/n/FromUint64", d("FromUint64"), num.N().FromUint64(v.Uint64()), v)
			x.Case("")
			if a.Uint64() != v.Uint64() {
				failf(x, "num/n/Uint64", "%s = %d", d("Uint64")(), a.Uint64())
			}
		}
		c := a.Cardinal()
		fc, err := num.N().FromCardinal(c)
		if err != nil {
			failf(x, "num/n/FromCardinal", "N.FromCardinal(Cardinal(%s)): %v", show(v), err)
		} else {
			eqBig(x, "num/n/FromCardinal", d("FromCardinal(Cardinal)"), fc, v)
		}
		eqBig(x, "cardinal/Big", d("Cardinal.Big"), c, v)
		eqBig(x, "cardinal/NewFromBig", d("cardinal.NewFromBig"), cardinal.NewFromBig(v), v)
		if _, err := num.N().FromBig(new(big.Int).Sub(new(big.Int).Neg(v), bi(1))); err == nil {
			failf(x, "num/n/FromBig/negative", "N.FromBig accepted a negative value")
		}
		fi, err := num.N().FromInt(mustZ(v))
		if err != nil {
			failf(x, "num/n/FromInt", "N.FromInt(%s): %v", show(v), err)
		} else {
			eqBig(x, "num/n/FromInt", d("FromInt"), fi, v)
		}
		if v.Sign() > 0 {
			if _, err := num.N().FromInt(mustZ(new(big.Int).Neg(v))); err == nil {
				failf(x, "num/n/FromInt/negative", "N.FromInt accepted %s", show(new(big.Int).Neg(v)))
			}
		}
		for _, i := range []uint{0, 1, 7, 8, 63, 64, uint(maxInt(v.BitLen()-1, 0)), uint(v.BitLen())} {
			x.Case("")
			if uint(a.Bit(i)) != v.Bit(int(i)) {
				failf(x, "num/n/Bit", "num.Nat(%s).Bit(%d) = %d", show(v), i, a.Bit(i))
			}
		}
	})
	// 0 * Neg: the additive inverse of zero is zero and is not negative
	_ = cardinal.Zero
}

func numNatPlusPair(x *engine.X, av, bv *big.Int) {
	d := func(op string) func() string {
		return func() string { return fmt.Sprintf("num.NatPlus(%s).%s(%s)", show(av), op, show(bv)) }
	}
	guard(x, "num/nplus/pair", d("pair"), func() {
		a, b := mustNP(av), mustNP(bv)
		eqBig(x, "num/nplus/Add", d("Add"), a.Add(b), new(big.Int).Add(av, bv))
		eqBig(x, "num/nplus/Mul", d("Mul"), a.Mul(b), new(big.Int).Mul(av, bv))
		r, err := a.TrySub(b)
		eqBool(x, "num/nplus/TrySub/defined", d("TrySub ok"), err == nil, av.Cmp(bv) > 0)
		if err == nil {
			eqBig(x, "num/nplus/TrySub", d("TrySub"), r, new(big.Int).Sub(av, bv))
		}
		q, err := a.TryDiv(b)
		exact := new(big.Int).Mod(av, bv).Sign() == 0
		eqBool(x, "num/nplus/TryDiv/defined", d("TryDiv ok"), err == nil, exact)
		if err == nil && exact {
			eqBig(x, "num/nplus/TryDiv", d("TryDiv"), q, new(big.Int).Div(av, bv))
		}
		c := av.Cmp(bv)
		x.Case("")
		if int(a.Compare(b)) != sgn(c) {
			failf(x, "num/nplus/Compare", "%s = %d, want %d", d("Compare")(), a.Compare(b), c)
		}
		eqBool(x, "num/nplus/IsLessThanOrEqual", d("IsLessThanOrEqual"), a.IsLessThanOrEqual(b), c <= 0)
		eqBool(x, "num/nplus/Equal", d("Equal"), a.Equal(b), c == 0)
		eqBig(x, "num/nplus/Mod", d("Mod"), a.Mod(b), new(big.Int).Mod(av, bv))
		eqBool(x, "num/nplus/IsUnit", d("IsUnit"), a.IsUnit(b), new(big.Int).GCD(nil, nil, av, bv).Cmp(bi(1)) == 0)
	})
}

func numNatPlusUnary(x *engine.X, v *big.Int) {
	d := func(op string) func() string {
		return func() string { return fmt.Sprintf("num.NatPlus(%s).%s", show(v), op) }
	}
	guard(x, "num/nplus/unary", d("unary"), func() {
		a := mustNP(v)
		eqBig(x, "num/nplus/FromBig", d("Big"), a, v)
		eqBig(x, "num/nplus/Double", d("Double"), a.Double(), new(big.Int).Lsh(v, 1))
		eqBig(x, "num/nplus/Square", d("Square"), a.Square(), new(big.Int).Mul(v, v))
		eqBig(x, "num/nplus/Increment", d("Increment"), a.Increment(), new(big.Int).Add(v, bi(1)))
		dec, err := a.Decrement()
		eqBool(x, "num/nplus/Decrement/defined", d("Decrement ok"), err == nil, v.Cmp(bi(1)) > 0)
		if err == nil {
			eqBig(x, "num/nplus/Decrement", d("Decrement"), dec, new(big.Int).Sub(v, bi(1)))
		}
		eqBig(x, "num/nplus/Nat", d("Nat"), a.Nat(), v)
		eqBig(x, "num/nplus/Lift", d("Lift"), a.Lift(), v)
		eqBig(x, "num/nplus/ModulusCT", d("ModulusCT"), a.ModulusCT(), v)
		eqBool(x, "num/nplus/IsOne", d("IsOne"), a.IsOne(), v.Cmp(bi(1)) == 0)
		eqBool(x, "num/nplus/IsEven", d("IsEven"), a.IsEven(), v.Bit(0) == 0)
		eqBool(x, "num/nplus/IsProbablyPrime", d("IsProbablyPrime"), a.IsProbablyPrime(), isPrime(v))
		for _, sh := range []uint{0, 1, 8, 63, 64, 65, uint(v.BitLen() - 1), uint(v.BitLen()), uint(v.BitLen() + 70)} {
			eqBig(x, "num/nplus/Lsh", func() string { return fmt.Sprintf("num.NatPlus(%s).Lsh(%d)", show(v), sh) }, a.Lsh(sh), new(big.Int).Lsh(v, sh))
			r, err := a.TryRsh(sh)
			w := new(big.Int).Rsh(v, sh)
			eqBool(x, "num/nplus/TryRsh/defined", func() string { return fmt.Sprintf("num.NatPlus(%s).TryRsh(%d) ok", show(v), sh) }, err == nil, w.Sign() > 0)
			if err == nil && w.Sign() > 0 {
				eqBig(x, "num/nplus/TryRsh", func() string { return fmt.Sprintf("num.NatPlus(%s).TryRsh(%d)", show(v), sh) }, r, w)
			}
		}
		back, err := num.NPlus().FromBytes(a.Bytes())
		if err != nil {
			failf(x, "num/nplus/FromBytes", "NPlus.FromBytes(Bytes(%s)): %v", show(v), err)
		} else {
			eqBig(x, "num/nplus/FromBytes", d("FromBytes(Bytes)"), back, v)
		}
		fc, err := num.NPlus().FromCardinal(a.Cardinal())
		if err != nil {
			failf(x, "num/nplus/FromCardinal", "NPlus.FromCardinal(%s): %v", show(v), err)
		} else {
			eqBig(x, "num/nplus/FromCardinal", d("FromCardinal"), fc, v)
		}
		if _, err := num.NPlus().FromBig(bi(0)); err == nil {
			failf(x, "num/nplus/zero", "NPlus.FromBig(0) accepted")
		}
		if _, err := num.NPlus().FromBytes(make([]byte, 3)); err == nil {
			failf(x, "num/nplus/zero", "NPlus.FromBytes(000000) accepted")
		}
		if _, err := num.NPlus().FromInt(mustZ(new(big.Int).Neg(v))); err == nil {
			failf(x, "num/nplus/negative", "NPlus.FromInt(%s) accepted", show(new(big.Int).Neg(v)))
		}
	})
}

func numIntPair(x *engine.X, av, bv *big.Int) {
	d := func(op string) func() string {
		return func() string { return fmt.Sprintf("num.Int(%s).%s(%s)", show(av), op, show(bv)) }
	}
	babs := new(big.Int).Abs(bv)
	guard(x, "num/z/pair", d("pair"), func() {
		a, b := mustZ(av), mustZ(bv)
		eqInt(x, "num/z/Add", d("Add"), a.Add(b), new(big.Int).Add(av, bv))
		eqInt(x, "num/z/Sub", d("Sub"), a.Sub(b), new(big.Int).Sub(av, bv))
		eqInt(x, "num/z/Mul", d("Mul"), a.Mul(b), new(big.Int).Mul(av, bv))
		c := av.Cmp(bv)
		x.Case("")
		if int(a.Compare(b)) != sgn(c) {
			failf(x, "num/z/Compare", "%s = %d, want %d", d("Compare")(), a.Compare(b), c)
		}
		eqBool(x, "num/z/IsLessThanOrEqual", d("IsLessThanOrEqual"), a.IsLessThanOrEqual(b), c <= 0)
		eqBool(x, "num/z/Equal", d("Equal"), a.Equal(b), c == 0)
		eqBool(x, "num/z/Coprime", d("Coprime"), a.Coprime(b), new(big.Int).GCD(nil, nil, new(big.Int).Abs(av), babs).Cmp(bi(1)) == 0)
		if bv.Sign() > 0 {
			m := mustNP(bv)
			eqBig(x, "num/z/Mod", d("Mod"), a.Mod(m), new(big.Int).Mod(av, bv))
			eqBool(x, "num/z/IsInRange", d("IsInRange"), a.IsInRange(m), av.Sign() >= 0 && av.Cmp(bv) < 0)
			two := new(big.Int).Lsh(av, 1)
			eqBool(x, "num/z/IsInRangeSymmetric", d("IsInRangeSymmetric"), a.IsInRangeSymmetric(m), two.Cmp(new(big.Int).Neg(bv)) >= 0 && two.Cmp(bv) < 0)
			eqBool(x, "num/z/IsUnit", d("IsUnit"), a.IsUnit(m), new(big.Int).GCD(nil, nil, new(big.Int).Mod(av, bv), bv).Cmp(bi(1)) == 0)
		}
	})
	for _, vt := range []bool{false, true} {
		sfx := ""
		if vt {
			sfx = "VarTime"
		}
		a0, b0 := mustZ(av), mustZ(bv)
		short := vt && a0.AnnouncedLen()+2 <= b0.TrueLen()
		k := func(s string) string {
			if short {
				return "numct/divvartime/short-numerator"
			}
			return s
		}
		guardKey(x, k("num/z/TryDiv"+sfx+"/panic"), d("TryDiv"+sfx), func() {
			a, b := mustZ(av), mustZ(bv)
			var r *num.Int
			var err error
			if vt {
				r, err = a.TryDivVarTime(b)
			} else {
				r, err = a.TryDiv(b)
			}
			exact := bv.Sign() != 0 && new(big.Int).Rem(av, bv).Sign() == 0
			eqBool(x, k("num/z/TryDiv"+sfx+"/defined"), d("TryDiv"+sfx+" ok"), err == nil, exact)
			if err == nil && exact {
				eqInt(x, k("num/z/TryDiv"+sfx), d("TryDiv"+sfx), r, new(big.Int).Quo(av, bv))
			}
		})
		guardKey(x, k("num/z/DivRound"+sfx+"/panic"), d("DivRound"+sfx), func() {
			a, b := mustZ(av), mustZ(bv)
			var r *num.Int
			var err error
			if vt {
				r, err = a.DivRoundVarTime(b)
			} else {
				r, err = a.DivRound(b)
			}
			eqBool(x, k("num/z/DivRound"+sfx+"/defined"), d("DivRound"+sfx+" ok"), err == nil, bv.Sign() != 0)
			if err == nil && bv.Sign() != 0 {
				eqInt(x, k("num/z/DivRound"+sfx), d("DivRound"+sfx), r, new(big.Int).Quo(av, bv)) // documented: rounded towards zero
			}
		})
		guardKey(x, k("num/z/EuclideanDiv"+sfx+"/panic"), d("EuclideanDiv"+sfx), func() {
			a, b := mustZ(av), mustZ(bv)
			var q, r *num.Int
			var err error
			if vt {
				q, r, err = a.EuclideanDivVarTime(b)
			} else {
				q, r, err = a.EuclideanDiv(b)
			}
			eqBool(x, k("num/z/EuclideanDiv"+sfx+"/defined"), d("EuclideanDiv"+sfx+" ok"), err == nil, bv.Sign() != 0)
			if err == nil && bv.Sign() != 0 {
				wq, wr := new(big.Int).DivMod(av, bv, new(big.Int))
				eqInt(x, k("num/z/EuclideanDiv"+sfx), d("EuclideanDiv"+sfx+" quotient"), q, wq)
				eqInt(x, k("num/z/EuclideanDiv"+sfx), d("EuclideanDiv"+sfx+" remainder"), r, wr)
			}
		})
	}
}

// eqInt: value and sign predicates of a num.Int result
func eqInt(x *engine.X, key string, desc func() string, got *num.Int, want *big.Int) {
	x.Case("")
	if g := got.Big(); g.Cmp(want) != 0 {
		failf(x, key, "%s = %s, want %s", desc(), show(g), show(want))
		return
	}
	if got.IsNegative() != (want.Sign() < 0) || got.IsZero() != (want.Sign() == 0) || got.IsPositive() != (want.Sign() > 0) {
		k := key + "/sign"
		if want.Sign() == 0 {
			k = "int/negative-zero"
		}
		if key == "numct/divvartime/short-numerator" {
			k = key
		}
		failf(x, k, "%s: value %s but IsNegative=%v IsZero=%v IsPositive=%v", desc(), show(want), got.IsNegative(), got.IsZero(), got.IsPositive())
	}
}

func numIntUnary(x *engine.X, v *big.Int) {
	d := func(op string) func() string {
		return func() string { return fmt.Sprintf("num.Int(%s).%s", show(v), op) }
	}
	abs := new(big.Int).Abs(v)
	guard(x, "num/z/unary", d("unary"), func() {
		a := mustZ(v)
		eqInt(x, "num/z/FromBig", d("Big"), a, v)
		eqInt(x, "num/z/Clone", d("Clone"), a.Clone(), v)
		eqInt(x, "num/z/Neg", d("Neg"), a.Neg(), new(big.Int).Neg(v))
		eqInt(x, "num/z/Neg", d("Neg.Neg"), a.Neg().Neg(), v)
		eqBig(x, "num/z/Abs", d("Abs"), a.Abs(), abs)
		eqInt(x, "num/z/Double", d("Double"), a.Double(), new(big.Int).Lsh(v, 1))
		eqInt(x, "num/z/Square", d("Square"), a.Square(), new(big.Int).Mul(v, v))
		eqInt(x, "num/z/Increment", d("Increment"), a.Increment(), new(big.Int).Add(v, bi(1)))
		eqInt(x, "num/z/Decrement", d("Decrement"), a.Decrement(), new(big.Int).Sub(v, bi(1)))
		eqBool(x, "num/z/IsEven", d("IsEven"), a.IsEven(), v.Bit(0) == 0)
		eqBool(x, "num/z/IsOne", d("IsOne"), a.IsOne(), v.Cmp(bi(1)) == 0)
		eqBool(x, "num/z/IsProbablyPrime", d("IsProbablyPrime"), a.IsProbablyPrime(), v.Sign() > 0 && isPrime(v))
		inv, err := a.TryInv()
		eqBool(x, "num/z/TryInv/defined", d("TryInv ok"), err == nil, abs.Cmp(bi(1)) == 0)
		if err == nil {
			eqInt(x, "num/z/TryInv", d("TryInv"), inv, v)
		}
		// comparisons against the negation (|v| vs -|v|) and against zero built by subtraction
		eqInt(x, "num/z/Sub", d("Sub(self)"), a.Sub(a), bi(0))
		eqBool(x, "num/z/Equal", d("Sub(self).Equal(Zero)"), a.Sub(a).Equal(num.Z().Zero()), true)
		x.Case("")
		if c := a.Sub(a).Compare(num.Z().Zero()); int(c) != 0 {
			failf(x, "int/negative-zero", "%s: (v - v).Compare(0) = %d", d("Sub(self)")(), c)
		}
		x.Case("")
		if c := a.Mul(num.Z().Zero()).Compare(num.Z().Zero()); int(c) != 0 {
			failf(x, "int/negative-zero", "%s: (v * 0).Compare(0) = %d, want 0 (equal)", d("Mul(0)")(), c)
		}
		for _, sh := range []uint{0, 1, 8, 63, 64, 65, uint(abs.BitLen()), uint(abs.BitLen() + 70)} {
			eqInt(x, "num/z/Lsh", func() string { return fmt.Sprintf("num.Int(%s).Lsh(%d)", show(v), sh) }, a.Lsh(sh), new(big.Int).Lsh(v, sh))
			w := new(big.Int).Rsh(abs, sh) // magnitude shift, sign kept (quotient by 2^sh rounded towards zero)
			if v.Sign() < 0 {
				w.Neg(w)
			}
			eqInt(x, "num/z/Rsh", func() string { return fmt.Sprintf("num.Int(%s).Rsh(%d)", show(v), sh) }, a.Rsh(sh), w)
		}
		back, err := num.Z().FromBytes(a.Bytes())
		if err != nil {
			failf(x, "num/z/FromBytes", "Z.FromBytes(Bytes(%s)): %v", show(v), err)
		} else {
			eqInt(x, "num/z/FromBytes", d("FromBytes(Bytes)"), back, v)
		}
		tc, err := num.Z().FromTwosComplementBytesBE(a.TwosComplementBytesBE())
		if err != nil {
			failf(x, "num/z/twos", "Z.FromTwosComplementBytesBE(%s): %v", show(v), err)
		} else {
			eqInt(x, "num/z/twos", d("FromTwosComplementBytesBE(TwosComplementBytesBE)"), tc, v)
		}
		eqBig(x, "num/z/AbsBytesBE", d("AbsBytesBE"), bigFromBytes(a.AbsBytesBE()), abs)
		if abs.BitLen() <= 63 {
			eqInt(x, "num/z/FromInt64", d("FromInt64"), num.Z().FromInt64(v.Int64()), v)
		}
		rt := a.Rat()
		eqBool(x, "num/q/Rat.IsInt", d("Rat.IsInt"), rt.IsInt(), true)
	})
	guard(x, "num/z/int64", d("FromInt64 boundary"), func() {
		for _, w := range []int64{-1 << 63, (1 << 63) - 1, -1, 0, 1} {
			eqInt(x, "num/z/FromInt64", func() string { return fmt.Sprintf("Z.FromInt64(%d)", w) }, num.Z().FromInt64(w), bi(w))
		}
	})
}

type bytesBig []byte

func (b bytesBig) Big() *big.Int { return new(big.Int).SetBytes(b) }

func bigFromBytes(b []byte) valuer { return bytesBig(b) }
