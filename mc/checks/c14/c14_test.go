// C14 — curve, field and pairing arithmetic equal the mathematical operations.
//
// Space (per curve type): all ordered pairs and triples of a point alphabet (identity in two representations, ±G, small
// multiples in affine and projective form, (q-1)G, ((q+1)/2)G, a hash point H, ±H, G+H, low-order / x=0 points where the
// curve has them) for Add/Sub/Equal/associativity and Double/Neg/IsIdentity; ScalarMul over a boundary scalar alphabet,
// the full 4-bit window/digit sweep d*16^w and all scalars 0..4095; MultiScalarMul for every length 0..4 over reduced
// alphabets plus structured inputs at the lengths where the implementation switches strategy; all pairs of a boundary
// alphabet of every base and scalar field (Add/Sub/Mul/Div, Inv/Sqrt/Square/Neg, wide reductions); BLS12-381 pairing
// bilinearity, non-degeneracy and MultiPair laws.
// Oracle: the math/big reference model verifmc/ref/curve, compared through affine coordinates; pairing by its laws.
package c14

import (
	"fmt"
	"math/big"
	"os"
	"strings"
	"testing"
	"time"

	"github.com/bronlabs/bron-crypto/pkg/base/curves/curve25519"
	"github.com/bronlabs/bron-crypto/pkg/base/curves/edwards25519"
	"github.com/bronlabs/bron-crypto/pkg/base/curves/k256"
	"github.com/bronlabs/bron-crypto/pkg/base/curves/p256"
	"github.com/bronlabs/bron-crypto/pkg/base/curves/pairable/bls12381"
	"github.com/bronlabs/bron-crypto/pkg/base/curves/pasta"

	"verifmc/engine"
	"verifmc/ref/curve"
	"verifmc/ref/curve/libcurve"
)

func TestMain(m *testing.M) { engine.Main(m, "C14", "exploration") }

// ---------------------------------------------------------------------------------------------------------------
// bindings library group <-> reference model

func k256Group() *group[*k256.Point, *k256.Scalar, curve.FpPoint] {
	a, c := libcurve.K256(), k256.NewCurve()
	return &group[*k256.Point, *k256.Scalar, curve.FpPoint]{
		name: "k256", ref: a.Ref, q: a.Ref.Q, refG: a.Ref.G, hasRefG: true, toRef: a.TryToRef, toLib: a.TryToLib,
		identity: c.OpIdentity, gen: c.Generator, hash: c.Hash, sfield: k256.NewScalarField(),
		baseMul: c.ScalarBaseMul, baseOp: c.ScalarBaseOp, msm: c.MultiScalarMul, msmOp: c.MultiScalarOp,
	}
}

func p256Group() *group[*p256.Point, *p256.Scalar, curve.FpPoint] {
	a, c := libcurve.P256(), p256.NewCurve()
	return &group[*p256.Point, *p256.Scalar, curve.FpPoint]{
		name: "p256", ref: a.Ref, q: a.Ref.Q, refG: a.Ref.G, hasRefG: true, toRef: a.TryToRef, toLib: a.TryToLib,
		identity: c.OpIdentity, gen: c.Generator, hash: c.Hash, sfield: p256.NewScalarField(),
		baseMul: c.ScalarBaseMul, baseOp: c.ScalarBaseOp, msm: c.MultiScalarMul, msmOp: c.MultiScalarOp,
		extra: func() ([]string, []curve.FpPoint) {
			pts := a.Ref.PointsWithX0() // P-256 has the two points (0, ±sqrt b)
			names := make([]string, len(pts))
			for i := range pts {
				names[i] = fmt.Sprintf("X0_%d", i)
			}
			return names, pts
		},
	}
}

func pallasGroup() *group[*pasta.PallasPoint, *pasta.PallasScalar, curve.FpPoint] {
	a, c := libcurve.Pallas(), pasta.NewPallasCurve()
	return &group[*pasta.PallasPoint, *pasta.PallasScalar, curve.FpPoint]{
		name: "pallas", ref: a.Ref, q: a.Ref.Q, refG: a.Ref.G, hasRefG: true, toRef: a.TryToRef, toLib: a.TryToLib,
		identity: c.OpIdentity, gen: c.Generator, hash: c.Hash, sfield: pasta.NewPallasScalarField(),
		baseMul: c.ScalarBaseMul, baseOp: c.ScalarBaseOp, msm: c.MultiScalarMul, msmOp: c.MultiScalarOp,
	}
}

func vestaGroup() *group[*pasta.VestaPoint, *pasta.VestaScalar, curve.FpPoint] {
	a, c := libcurve.Vesta(), pasta.NewVestaCurve()
	return &group[*pasta.VestaPoint, *pasta.VestaScalar, curve.FpPoint]{
		name: "vesta", ref: a.Ref, q: a.Ref.Q, refG: a.Ref.G, hasRefG: true, toRef: a.TryToRef, toLib: a.TryToLib,
		identity: c.OpIdentity, gen: c.Generator, hash: c.Hash, sfield: pasta.NewVestaScalarField(),
		baseMul: c.ScalarBaseMul, baseOp: c.ScalarBaseOp, msm: c.MultiScalarMul, msmOp: c.MultiScalarOp,
	}
}

func g1Group() *group[*bls12381.PointG1, *bls12381.Scalar, curve.FpPoint] {
	a, c := libcurve.BLS12381G1(), bls12381.NewG1()
	return &group[*bls12381.PointG1, *bls12381.Scalar, curve.FpPoint]{
		name: "bls12381g1", ref: a.Ref, q: a.Ref.Q, refG: a.Ref.G, hasRefG: true, toRef: a.TryToRef, toLib: a.TryToLib,
		identity: c.OpIdentity, gen: c.Generator, hash: c.Hash, sfield: bls12381.NewScalarField(),
		baseMul: c.ScalarBaseMul, baseOp: c.ScalarBaseOp, msm: c.MultiScalarMul, msmOp: c.MultiScalarOp,
	}
}

func g2Group() *group[*bls12381.PointG2, *bls12381.Scalar, curve.Fp2Point] {
	a, c := libcurve.BLS12381G2(), bls12381.NewG2()
	return &group[*bls12381.PointG2, *bls12381.Scalar, curve.Fp2Point]{
		name: "bls12381g2", ref: a.Ref, q: a.Ref.Q, refG: a.Ref.G, hasRefG: true, toRef: a.TryToRef, toLib: a.TryToLib,
		identity: c.OpIdentity, gen: c.Generator, hash: c.Hash, sfield: bls12381.NewScalarField(),
		baseMul: c.ScalarBaseMul, baseOp: c.ScalarBaseOp, msm: c.MultiScalarMul, msmOp: c.MultiScalarOp,
	}
}

// edwards25519 full curve (cofactor 8): the alphabet includes all 8 small-order points and mixed-order points.
func ed25519Group() *group[*edwards25519.Point, *edwards25519.Scalar, curve.EPoint] {
	a, c := libcurve.Edwards25519(), edwards25519.NewCurve()
	return &group[*edwards25519.Point, *edwards25519.Scalar, curve.EPoint]{
		name: "edwards25519", ref: a.Ref, q: a.Ref.Q, refG: a.Ref.G, hasRefG: true, toRef: a.TryToRef, toLib: a.TryToLib,
		identity: c.OpIdentity, gen: c.PrimeSubGroupGenerator, hash: c.Hash, sfield: edwards25519.NewScalarField(),
		msm: c.MultiScalarMul, msmOp: c.MultiScalarOp,
		extra: func() ([]string, []curve.EPoint) {
			tor := a.Ref.SmallOrderPoints()
			var names []string
			var pts []curve.EPoint
			for i := 1; i < len(tor); i++ {
				names = append(names, fmt.Sprintf("T%d(order %v)", i, a.Ref.Order(tor[i])))
				pts = append(pts, tor[i])
			}
			names = append(names, "G+T1", "G+T4", "2G+T2")
			pts = append(pts, a.Ref.Add(a.Ref.G, tor[1]), a.Ref.Add(a.Ref.G, tor[4]), a.Ref.Add(a.Ref.Double(a.Ref.G), tor[2]))
			return names, pts
		},
	}
}

func ed25519PrimeGroup() *group[*edwards25519.PrimeSubGroupPoint, *edwards25519.Scalar, curve.EPoint] {
	a, c := libcurve.Edwards25519Prime(), edwards25519.NewPrimeSubGroup()
	return &group[*edwards25519.PrimeSubGroupPoint, *edwards25519.Scalar, curve.EPoint]{
		name: "edwards25519prime", ref: a.Ref, q: a.Ref.Q, refG: a.Ref.G, hasRefG: true, toRef: a.TryToRef, toLib: a.TryToLib,
		identity: c.OpIdentity, gen: c.Generator, hash: c.Hash, sfield: edwards25519.NewScalarField(),
		baseMul: c.ScalarBaseMul, baseOp: c.ScalarBaseOp, msm: c.MultiScalarMul, msmOp: c.MultiScalarOp,
	}
}

// curve25519 full Montgomery curve: (u,v) through AffineX/AffineY; alphabet includes the images of the 8 small-order
// points (among them (0,0), for which the library has no AffineY).
func x25519Group() *group[*curve25519.Point, *curve25519.Scalar, curve.MPoint] {
	a, c := libcurve.Curve25519(), curve25519.NewCurve()
	return &group[*curve25519.Point, *curve25519.Scalar, curve.MPoint]{
		name: "curve25519", ref: a.Ref, q: a.Ref.Q, toRef: a.TryToRef, toLib: a.TryToLib,
		identity: c.OpIdentity, gen: c.PrimeSubGroupGenerator, hash: c.Hash, sfield: curve25519.NewScalarField(),
		extra: func() ([]string, []curve.MPoint) {
			E := curve.Edwards25519()
			tor := E.SmallOrderPoints()
			var names []string
			var pts []curve.MPoint
			for i := 1; i < len(tor); i++ {
				names = append(names, fmt.Sprintf("T%d(order %v)", i, E.Order(tor[i])))
				pts = append(pts, curve.EdwardsToMontgomery(tor[i]))
			}
			g := a.Ref.G
			names = append(names, "G+T1", "G+T4")
			pts = append(pts, a.Ref.Add(g, curve.EdwardsToMontgomery(tor[1])), a.Ref.Add(g, curve.EdwardsToMontgomery(tor[4])))
			return names, pts
		},
	}
}

func x25519PrimeGroup() *group[*curve25519.PrimeSubGroupPoint, *curve25519.Scalar, curve.MPoint] {
	a, c := libcurve.Curve25519(), curve25519.NewPrimeSubGroup()
	return &group[*curve25519.PrimeSubGroupPoint, *curve25519.Scalar, curve.MPoint]{
		name: "curve25519prime", ref: a.Ref, q: a.Ref.Q,
		toRef: func(p *curve25519.PrimeSubGroupPoint) (curve.MPoint, error) { return a.TryToRef(p.AsPoint()) },
		toLib: func(r curve.MPoint) (*curve25519.PrimeSubGroupPoint, error) {
			p, err := a.TryToLib(r)
			if err != nil {
				return nil, err
			}
			return p.AsPrimeSubGroupPoint()
		},
		identity: c.OpIdentity, gen: c.Generator, hash: c.Hash, sfield: curve25519.NewScalarField(),
		baseMul: c.ScalarBaseMul, baseOp: c.ScalarBaseOp,
	}
}

// ---------------------------------------------------------------------------------------------------------------

// explore is engine.Explore restricted, for development and for the mutant demonstrations, to the sections whose name
// contains one of the comma-separated substrings in VERIF_C14_SECTIONS (unset = all sections; the registered commands
// never set it).
func explore(body func(*engine.X), o engine.Opts) {
	if f := os.Getenv("VERIF_C14_SECTIONS"); f != "" {
		hit := false
		for _, s := range strings.Split(f, ",") {
			if s != "" && strings.Contains(o.Name, s) {
				hit = true
			}
		}
		if !hit {
			return
		}
	}
	engine.Explore(body, o)
}

func budget(q, t int) time.Duration {
	return engine.Budget(time.Duration(q)*time.Second, time.Duration(t)*time.Second)
}

// runGroup registers the sections of one group. tier knobs:
//
//	sweep   point names on which the 64x16 window sweep runs (nil = every alphabet point)
//	dense   all scalars 0..4095 on G and H
//	msmFull maximal length of the exhaustive small-MSM enumeration over the full reduced alphabets (20 pairs)
//	msmRed  maximal length over the smaller alphabets (9 pairs)
func runGroup[P libPoint[P, S], S curve.Byteser, R any](g *group[P, S, R], sweep map[string]bool, dense bool, msmFull, msmRed int, long []int) {
	explore(lawsBody(g), engine.Opts{Name: "laws/" + g.name, Budget: budget(120, 900)})
	explore(scalarBody(g, sweep, dense), engine.Opts{Name: "scalarmul/" + g.name, Budget: budget(120, 1200)})
	if g.msm != nil {
		explore(msmSmallBody(g, msmFull, msmRed), engine.Opts{Name: "msm/" + g.name, Budget: budget(120, 1500)})
		explore(msmLongBody(g, long), engine.Opts{Name: "msmlong/" + g.name, Budget: budget(120, 900)})
	}
}

func TestCheck(t *testing.T) {
	engine.Rule("per curve type: every ordered pair (Choose) and triple (inner loop) of the point alphabet for Add/Op/Sub/TrySub/Equal and both bracketings of P+Q+R, unary Double/Neg/OpInv/Clone/IsZero/IsTorsionFree on every element; every (point, scalar) for the scalar alphabet, the 64x16 window-digit sweep d*16^w and the dense range 0..4095; every MultiScalarMul tuple of each length 0..L over S'={0,1,2,q-1,2^128+1} x P'={O,G,-G,H} and 9 structured patterns at each strategy-boundary length; every ordered pair of the field boundary alphabet for Add/Sub/Mul/TryDiv/Equal with unary Neg/Square/Double/TryInv/Sqrt, wide and BE-reduce inputs; pairing laws over P x Q x {0,1,2,q-1}^2 and every MultiPair tuple of length 0..3; the exported low-level engine (bls12381/impl.Engine) over every tuple of 1..3 pairs from {O,G,H} x {O,G,H} (identity operands included), first pair through each of AddPair / AddPairInvG1 / AddPairInvG2: Result == product of the pairings of the non-identity pairs, Check consistent. A case is distinct by its (curve, operand indices[, scalar]) key; non-trivial = the library operation was executed and its affine result compared with the math/big model.")
	engine.Assume(
		"math/big and the reference models in /verif/mc/ref/curve (constants typed in from SEC 2, FIPS 186-4, RFC 7748/8032, pasta and BLS12-381 specs; validated by go test ./ref/curve/) are correct",
		"library results are read through the public affine accessors (AffineX/AffineY/IsZero, field element Bytes); inputs are built through Field.FromBytes and Curve.FromAffine or by library arithmetic and verified against the intended value before use",
		"no reference pairing: the BLS12-381 pairing is checked by bilinearity, non-degeneracy, order and MultiPair product laws only",
		"operands outside the stated alphabets and constant-time behaviour are not explored",
		"purego build of the library",
	)
	thorough := engine.Thorough()
	quickSweep := map[string]bool{"G": true, "H": true}
	var sweep map[string]bool // nil = all points
	if !thorough {
		sweep = quickSweep
	}
	longQuick := []int{7, 8, 16, 33, 65}
	longAll := []int{5, 6, 7, 8, 9, 15, 16, 17, 31, 32, 33, 63, 64, 65, 127, 128, 129}
	long, longG2 := longQuick, []int{7, 8, 33}
	if thorough {
		long, longG2 = longAll, []int{7, 8, 9, 16, 33, 65}
	}
	// exhaustive small MSM: (max length over 20 pairs, max length over 9 pairs)
	pick := func(q1, q2, t1, t2 int) (int, int) {
		if thorough {
			return t1, t2
		}
		return q1, q2
	}
	f, r := pick(3, 4, 4, 4)
	runGroup(k256Group(), sweep, true, f, r, long)
	f, r = pick(3, 3, 4, 4)
	runGroup(p256Group(), sweep, thorough, f, r, long)
	f, r = pick(2, 3, 3, 4)
	runGroup(pallasGroup(), sweep, thorough, f, r, long)
	f, r = pick(2, 2, 3, 4)
	runGroup(vestaGroup(), sweep, thorough, f, r, long)
	f, r = pick(3, 3, 4, 4)
	runGroup(ed25519Group(), sweep, thorough, f, r, long)
	f, r = pick(2, 2, 3, 4)
	runGroup(ed25519PrimeGroup(), sweep, thorough, f, r, long)
	runGroup(x25519Group(), sweep, thorough, 0, 0, nil)
	runGroup(x25519PrimeGroup(), sweep, false, 0, 0, nil)
	f, r = pick(2, 3, 3, 4)
	runGroup(g1Group(), sweep, thorough, f, r, long)
	f, r = pick(2, 2, 2, 3)
	runGroup(g2Group(), sweep, false, f, r, longG2)

	explore(genericBody(), engine.Opts{Name: "algebrautils/k256", Budget: budget(60, 600)})
	runElliptic()
	runFields()
	runPairing()
}

func bi(v int64) *big.Int { return big.NewInt(v) }
