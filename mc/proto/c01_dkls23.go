package proto

import (
	"context"
	"fmt"

	"github.com/bronlabs/bron-crypto/pkg/base/algebra"
	"github.com/bronlabs/bron-crypto/pkg/base/curves"
	ds "github.com/bronlabs/bron-crypto/pkg/base/datastructures"
	"github.com/bronlabs/bron-crypto/pkg/mcrt"
	"github.com/bronlabs/bron-crypto/pkg/mpc"
	"github.com/bronlabs/bron-crypto/pkg/mpc/signatures/ecdsa/dkls23"
	dkeygen "github.com/bronlabs/bron-crypto/pkg/mpc/signatures/ecdsa/dkls23/keygen"
	"github.com/bronlabs/bron-crypto/pkg/mpc/signatures/ecdsa/dkls23/signing_bbot"
	"github.com/bronlabs/bron-crypto/pkg/mpc/signatures/ecdsa/dkls23/signing_softspoken"
	"github.com/bronlabs/bron-crypto/pkg/network"
	"github.com/bronlabs/bron-crypto/pkg/signatures/ecdsa"

	"verifmc/det"
	"verifmc/schednet"
)

// C01DKLs23Shards converts base shards into DKLs23 shards.
func C01DKLs23Shards[P curves.Point[P, B, S], B algebra.PrimeFieldElement[B], S algebra.PrimeFieldElement[S]](base map[ID]*mpc.BaseShard[P, S]) (map[ID]*dkls23.Shard[P, B, S], error) {
	out := map[ID]*dkls23.Shard[P, B, S]{}
	for id, b := range base {
		sh, err := dkeygen.NewShard[P, B, S](b)
		if err != nil {
			return nil, fmt.Errorf("dkls23 keygen.NewShard(%d): %w", id, err)
		}
		out[id] = sh
	}
	return out, nil
}

// C01DKLs23New only constructs the cosigners (multiplier "bbot" or "softspoken") of a party set.
func C01DKLs23New[P curves.Point[P, B, S], B algebra.PrimeFieldElement[B], S algebra.PrimeFieldElement[S]](mult string, suite *ecdsa.Suite[P, B, S], shards map[ID]*dkls23.Shard[P, B, S], quorum []ID, seed int64, label string) map[ID]error {
	ctxs := Contexts(quorum, KeySeed(seed), "c01/dkls23/"+label)
	out := map[ID]error{}
	for _, id := range quorum {
		prng := det.New(seed, fmt.Sprintf("c01/dkls23/%s/%d", label, id))
		var err error
		if mult == "bbot" {
			_, err = signing_bbot.NewCosigner(ctxs[id], suite, shards[id], prng)
		} else {
			_, err = signing_softspoken.NewCosigner(ctxs[id], suite, shards[id], prng)
		}
		out[id] = err
	}
	return out
}

// c01DKLsAggregate: the public aggregation function is run once per holder of the partial signatures: an outside
// aggregator (CBOR-decoded partial signatures) and every party (its own object plus the others' decoded ones).
func c01DKLsAggregate[P curves.Point[P, B, S], B algebra.PrimeFieldElement[B], S algebra.PrimeFieldElement[S]](out *C01Out[*ecdsa.Signature[S]], suite *ecdsa.Suite[P, B, S], pk *ecdsa.PublicKey[P, B, S], quorum []ID, message []byte, ps map[ID]*dkls23.PartialSignature[P, B, S], perParty bool) {
	agg := func(who string, own ID) {
		var list []*dkls23.PartialSignature[P, B, S]
		for _, id := range quorum {
			if id == own {
				list = append(list, ps[id])
			} else {
				list = append(list, c01Wire(ps[id]))
			}
		}
		sig, err := dkls23.Aggregate(suite, pk, message, list...)
		if err != nil {
			out.Errs[who] = err
			return
		}
		out.Sigs[who] = sig
	}
	agg(c01AggOutside, 0)
	if perParty {
		for _, id := range quorum {
			agg(c01AggParty(id), id)
		}
	}
}

// C01DKLs23BBOTRounds: DKLs23 with the BBOT multiplier through the round-by-round API.
func C01DKLs23BBOTRounds[P curves.Point[P, B, S], B algebra.PrimeFieldElement[B], S algebra.PrimeFieldElement[S]](suite *ecdsa.Suite[P, B, S], shards map[ID]*dkls23.Shard[P, B, S], quorum []ID, message []byte, seed int64, label string) *C01Out[*ecdsa.Signature[S]] {
	out := c01NewOut[*ecdsa.Signature[S]]()
	quorum = Sorted(quorum)
	out.Want = append(out.Want, c01AggOutside)
	for _, id := range quorum {
		out.Want = append(out.Want, c01AggParty(id))
	}
	ctxs := Contexts(quorum, KeySeed(seed), "c01/dkls23/"+label)
	cs := map[ID]*signing_bbot.Cosigner[P, B, S]{}
	for _, id := range quorum {
		c, err := signing_bbot.NewCosigner(ctxs[id], suite, shards[id], det.New(seed, fmt.Sprintf("c01/dkls23/%s/%d", label, id)))
		if err != nil {
			out.Errs[c01Party(id)+"/new"] = err
			if out.Refused == nil {
				out.Refused = err
			}
			continue
		}
		cs[id] = c
	}
	if out.Refused != nil {
		return out
	}
	r1b := map[ID]*signing_bbot.Round1Broadcast[P, B, S]{}
	r1u := map[ID]ds.Map[ID, *signing_bbot.Round1P2P[P, B, S]]{}
	for _, id := range quorum {
		b, u, err := cs[id].Round1()
		if err != nil {
			out.Errs[c01Party(id)+"/round1"] = err
			return out
		}
		r1b[id], r1u[id] = b, u
	}
	in1b, in1u := c01B(quorum, r1b), c01U(quorum, r1u)
	r2b := map[ID]*signing_bbot.Round2Broadcast[P, B, S]{}
	r2u := map[ID]ds.Map[ID, *signing_bbot.Round2P2P[P, B, S]]{}
	for _, id := range quorum {
		b, u, err := cs[id].Round2(in1b[id], in1u[id])
		if err != nil {
			out.Errs[c01Party(id)+"/round2"] = err
			return out
		}
		r2b[id], r2u[id] = b, u
	}
	in2b, in2u := c01B(quorum, r2b), c01U(quorum, r2u)
	r3b := map[ID]*signing_bbot.Round3Broadcast[P, B, S]{}
	r3u := map[ID]ds.Map[ID, *signing_bbot.Round3P2P[P, B, S]]{}
	for _, id := range quorum {
		b, u, err := cs[id].Round3(in2b[id], in2u[id])
		if err != nil {
			out.Errs[c01Party(id)+"/round3"] = err
			return out
		}
		r3b[id], r3u[id] = b, u
	}
	in3b, in3u := c01B(quorum, r3b), c01U(quorum, r3u)
	ps := map[ID]*dkls23.PartialSignature[P, B, S]{}
	for _, id := range quorum {
		p, err := cs[id].Round4(in3b[id], in3u[id], message)
		if err != nil {
			out.Errs[c01Party(id)+"/round4"] = err
			return out
		}
		ps[id] = p
	}
	c01DKLsAggregate(out, suite, shards[quorum[0]].PublicKey(), quorum, message, ps, true)
	return out
}

// C01DKLs23SoftspokenRounds: DKLs23 with the SoftSpoken multiplier through the round-by-round API.
func C01DKLs23SoftspokenRounds[P curves.Point[P, B, S], B algebra.PrimeFieldElement[B], S algebra.PrimeFieldElement[S]](suite *ecdsa.Suite[P, B, S], shards map[ID]*dkls23.Shard[P, B, S], quorum []ID, message []byte, seed int64, label string) *C01Out[*ecdsa.Signature[S]] {
	out := c01NewOut[*ecdsa.Signature[S]]()
	quorum = Sorted(quorum)
	out.Want = append(out.Want, c01AggOutside)
	for _, id := range quorum {
		out.Want = append(out.Want, c01AggParty(id))
	}
	ctxs := Contexts(quorum, KeySeed(seed), "c01/dkls23/"+label)
	cs := map[ID]*signing_softspoken.Cosigner[P, B, S]{}
	for _, id := range quorum {
		c, err := signing_softspoken.NewCosigner(ctxs[id], suite, shards[id], det.New(seed, fmt.Sprintf("c01/dkls23/%s/%d", label, id)))
		if err != nil {
			out.Errs[c01Party(id)+"/new"] = err
			if out.Refused == nil {
				out.Refused = err
			}
			continue
		}
		cs[id] = c
	}
	if out.Refused != nil {
		return out
	}
	r1u := map[ID]ds.Map[ID, *signing_softspoken.Round1P2P[P, B, S]]{}
	for _, id := range quorum {
		u, err := cs[id].Round1()
		if err != nil {
			out.Errs[c01Party(id)+"/round1"] = err
			return out
		}
		r1u[id] = u
	}
	in1u := c01U(quorum, r1u)
	r2u := map[ID]ds.Map[ID, *signing_softspoken.Round2P2P[P, B, S]]{}
	for _, id := range quorum {
		u, err := cs[id].Round2(in1u[id])
		if err != nil {
			out.Errs[c01Party(id)+"/round2"] = err
			return out
		}
		r2u[id] = u
	}
	in2u := c01U(quorum, r2u)
	r3b := map[ID]*signing_softspoken.Round3Broadcast[P, B, S]{}
	r3u := map[ID]ds.Map[ID, *signing_softspoken.Round3P2P[P, B, S]]{}
	for _, id := range quorum {
		b, u, err := cs[id].Round3(in2u[id])
		if err != nil {
			out.Errs[c01Party(id)+"/round3"] = err
			return out
		}
		r3b[id], r3u[id] = b, u
	}
	in3b, in3u := c01B(quorum, r3b), c01U(quorum, r3u)
	r4b := map[ID]*signing_softspoken.Round4Broadcast[P, B, S]{}
	r4u := map[ID]ds.Map[ID, *signing_softspoken.Round4P2P[P, B, S]]{}
	for _, id := range quorum {
		b, u, err := cs[id].Round4(in3b[id], in3u[id])
		if err != nil {
			out.Errs[c01Party(id)+"/round4"] = err
			return out
		}
		r4b[id], r4u[id] = b, u
	}
	in4b, in4u := c01B(quorum, r4b), c01U(quorum, r4u)
	ps := map[ID]*dkls23.PartialSignature[P, B, S]{}
	for _, id := range quorum {
		p, err := cs[id].Round5(in4b[id], in4u[id], message)
		if err != nil {
			out.Errs[c01Party(id)+"/round5"] = err
			return out
		}
		ps[id] = p
	}
	c01DKLsAggregate(out, suite, shards[quorum[0]].PublicKey(), quorum, message, ps, true)
	return out
}

// C01DKLs23Run: either multiplier through every party's network.Runner over routers on net; aggregation outside.
func C01DKLs23Run[P curves.Point[P, B, S], B algebra.PrimeFieldElement[B], S algebra.PrimeFieldElement[S]](x mcrt.Chooser, net *schednet.Net, mult string, suite *ecdsa.Suite[P, B, S], shards map[ID]*dkls23.Shard[P, B, S], quorum []ID, message []byte, seed int64, label string) *C01Out[*ecdsa.Signature[S]] {
	out := c01NewOut[*ecdsa.Signature[S]]()
	quorum = Sorted(quorum)
	out.Want = []string{c01AggOutside}
	ctxs := Contexts(quorum, KeySeed(seed), "c01/dkls23/"+label)
	res, info := schednet.RunAll(x, net, quorum, func(ctx context.Context, id ID, rt *network.Router) (*dkls23.PartialSignature[P, B, S], error) {
		prng := det.New(seed, fmt.Sprintf("c01/dkls23/%s/%d", label, id))
		var r network.Runner[*dkls23.PartialSignature[P, B, S]]
		var err error
		if mult == "bbot" {
			r, err = signing_bbot.NewRunner(ctxs[id], suite, shards[id], message, prng)
		} else {
			r, err = signing_softspoken.NewRunner(ctxs[id], suite, shards[id], message, prng)
		}
		if err != nil {
			return nil, err
		}
		return r.Run(ctx, rt, nil)
	})
	ok := c01Collect(out, quorum, res, info)
	if len(ok) != len(quorum) {
		return out
	}
	for id, p := range ok {
		if p == nil {
			out.Errs[c01Party(id)+"/run"] = fmt.Errorf("nil partial signature returned without error")
			return out
		}
	}
	c01DKLsAggregate(out, suite, shards[quorum[0]].PublicKey(), quorum, message, ok, false)
	return out
}

// C01DKLs23Partials runs the signing runners honestly (default schedule) and returns every cosigner's partial signature.
func C01DKLs23Partials[P curves.Point[P, B, S], B algebra.PrimeFieldElement[B], S algebra.PrimeFieldElement[S]](mult string, suite *ecdsa.Suite[P, B, S], shards map[ID]*dkls23.Shard[P, B, S], quorum []ID, message []byte, seed int64, label string) (map[ID]*dkls23.PartialSignature[P, B, S], error) {
	quorum = Sorted(quorum)
	ctxs := Contexts(quorum, KeySeed(seed), "c01/dkls23/"+label)
	res, info := schednet.RunAll(zeroChooserC01{}, schednet.New(quorum...), quorum, func(ctx context.Context, id ID, rt *network.Router) (*dkls23.PartialSignature[P, B, S], error) {
		prng := det.New(seed, fmt.Sprintf("c01/dkls23/%s/%d", label, id))
		var r network.Runner[*dkls23.PartialSignature[P, B, S]]
		var err error
		if mult == "bbot" {
			r, err = signing_bbot.NewRunner(ctxs[id], suite, shards[id], message, prng)
		} else {
			r, err = signing_softspoken.NewRunner(ctxs[id], suite, shards[id], message, prng)
		}
		if err != nil {
			return nil, err
		}
		return r.Run(ctx, rt, nil)
	})
	out := c01NewOut[*ecdsa.Signature[S]]()
	ok := c01Collect(out, quorum, res, info)
	if len(ok) != len(quorum) {
		return nil, fmt.Errorf("honest DKLs23 run failed: %v", out.Errs)
	}
	return ok, nil
}

type zeroChooserC01 struct{}

func (zeroChooserC01) Choose(string, int) int    { return 0 }
func (zeroChooserC01) ChooseDev(string, int) int { return 0 }
