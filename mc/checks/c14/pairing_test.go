package c14

import (
	"bytes"
	"fmt"
	"math/big"
	"sync"

	"github.com/bronlabs/bron-crypto/pkg/base/curves/k256"
	"github.com/bronlabs/bron-crypto/pkg/base/curves/pairable/bls12381"
	"github.com/bronlabs/bron-crypto/pkg/base/nt/num"
	"github.com/bronlabs/bron-crypto/pkg/base/utils/algebrautils"

	"verifmc/engine"
	"verifmc/ref/curve"
	"verifmc/ref/curve/libcurve"
)

// ---------------------------------------------------------------------------------------------------------------
// generic fixed-window ScalarMul / bucket MultiScalarMul of pkg/base/utils/algebrautils, on k256 points

type beNum []byte // an UnsignedNumeric given by raw big-endian bytes (leading zeros and the empty string allowed)

func (b beNum) BytesBE() []byte { return []byte(b) }

func genericBody() func(*engine.X) {
	g := k256Group()
	cache := &refCache[curve.FpPoint]{m: map[string]curve.FpPoint{}}
	lengths := []int{1, 2, 7, 8, 9, 16, 33}
	return func(x *engine.X) {
		al, err := g.alphabet()
		if err != nil {
			x.Failf("k256/alphabet", "cannot build the point alphabet: %v", err)
			return
		}
		sa := scalarAlphabet(g.q, 64)
		switch x.Choose("kind", 2) {
		case 0: // ScalarMul(base, exponent) for every alphabet point and scalar, exponent as num.Nat and as raw bytes with padding
			pe := al[x.Choose("P", len(al))]
			for _, s := range sa {
				x.Case("generic/mul/" + pe.name + "/" + s.name)
				want := g.refMulCached(cache, s.v, pe.ref) // s.v is NOT reduced here: the generic routine works on integers
				if !g.ref.InSubgroup(pe.ref) {
					want = g.ref.ScalarMul(s.v, pe.ref)
				}
				n, err := num.N().FromBig(s.v)
				if err != nil {
					x.Failf("generic/nat", "num.N().FromBig(%v): %v", s.v, err)
					continue
				}
				tag := fmt.Sprintf("algebrautils.ScalarMul(%s, %s)", pe.name, s.name)
				g.same(x, "generic/scalarmul", tag, algebrautils.ScalarMul(pe.lib, n), want)
				g.same(x, "generic/scalarmul", tag+" [zero-padded bytes]", algebrautils.ScalarMul(pe.lib, beNum(append(make([]byte, 3), s.v.Bytes()...))), want)
				g.same(x, "generic/scalarmul", tag+" [minimal bytes]", algebrautils.ScalarMul(pe.lib, beNum(s.v.Bytes())), want)
			}
			x.Observe(pe.name)
		case 1: // MultiScalarMul at lengths on both sides of the naive/bucket switch
			n := lengths[x.Choose("len", len(lengths))]
			pat := x.Choose("pattern", 4)
			ks := make([]*big.Int, n)
			ps := make([]*k256.Point, n)
			ss := make([]beNum, n)
			want := g.ref.Identity()
			for i := 0; i < n; i++ {
				var pe entry[*k256.Point, curve.FpPoint]
				switch pat {
				case 0:
					ks[i], pe = sa[(3*i+1)%len(sa)].v, al[(5*i+2)%len(al)]
				case 1:
					ks[i], pe = new(big.Int).Sub(g.q, bi(1)), al[2] // all (q-1)*G
				case 2:
					ks[i], pe = bi(int64(i%2)), al[2+i%2] // 0/1 scalars on G, -G
				default:
					ks[i], pe = new(big.Int).Lsh(bi(int64(i+1)), uint(17*i)), al[len(al)-1-i%len(al)]
				}
				ps[i] = pe.lib
				ss[i] = beNum(ks[i].Bytes())
				if i%3 == 1 {
					ss[i] = beNum(ks[i].FillBytes(make([]byte, 40))) // mixed byte lengths inside one call
				}
				want = g.ref.Add(want, g.refMulCached(cache, ks[i], pe.ref))
			}
			x.Case(fmt.Sprintf("generic/msm/%d/%d", n, pat))
			g.same(x, "generic/msm", fmt.Sprintf("algebrautils.MultiScalarMul length %d pattern %d", n, pat), algebrautils.MultiScalarMul(ss, ps), want)
			x.Observe(n, pat)
		}
	}
}

// ---------------------------------------------------------------------------------------------------------------
// BLS12-381 pairing laws

type pairingCtx struct {
	once sync.Once
	err  error
	p1   []entry[*bls12381.PointG1, curve.FpPoint]
	p2   []entry[*bls12381.PointG2, curve.Fp2Point]
	q    *big.Int
}

var pctx pairingCtx

func (c *pairingCtx) init() error {
	c.once.Do(func() {
		g1, g2 := g1Group(), g2Group()
		a1, err := g1.alphabet()
		if err != nil {
			c.err = err
			return
		}
		a2, err := g2.alphabet()
		if err != nil {
			c.err = err
			return
		}
		pick1 := map[string]bool{"G": true, "-G": true, "2G'=G.Double()": true, "H": true, "G+H": true}
		for _, e := range a1 {
			if pick1[e.name] {
				c.p1 = append(c.p1, e)
			}
		}
		for _, e := range a2 {
			if pick1[e.name] {
				c.p2 = append(c.p2, e)
			}
		}
		c.q = curve.BLS12381G1().Q
	})
	return c.err
}

func gtEq(a, b *bls12381.GtElement) bool { return bytes.Equal(a.Bytes(), b.Bytes()) }

// gtPow is square-and-multiply written here (library Mul/Square only).
func gtPow(a *bls12381.GtElement, e *big.Int) *bls12381.GtElement {
	r := bls12381.NewGt().One()
	for i := e.BitLen() - 1; i >= 0; i-- {
		r = r.Square()
		if e.Bit(i) == 1 {
			r = r.Mul(a)
		}
	}
	return r
}

// smallPow computes a^k for k in {-2,-1,0,1,2,4} with Mul/Inv only.
func smallPow(a *bls12381.GtElement, k int) *bls12381.GtElement {
	switch k {
	case 0:
		return bls12381.NewGt().One()
	case 1:
		return a
	case 2:
		return a.Mul(a)
	case 4:
		b := a.Mul(a)
		return b.Mul(b)
	case -1:
		return a.Inv()
	case -2:
		return a.Mul(a).Inv()
	}
	panic("smallPow")
}

func pairingBody() func(*engine.X) {
	a1, a2 := libcurve.BLS12381G1(), libcurve.BLS12381G2()
	sf := bls12381.NewScalarField()
	mk := func(v *big.Int) *bls12381.Scalar {
		return libcurve.ScalarFromBig[*bls12381.Scalar](sf, sf.ElementSize(), curve.BLS12381G1().Q, v)
	}
	return func(x *engine.X) {
		c := &pctx
		if err := c.init(); err != nil {
			x.Failf("pairing/alphabet", "cannot build pairing alphabets: %v", err)
			return
		}
		one := bls12381.NewGt().One()
		gtCheck := func(what string, got, want *bls12381.GtElement) {
			if !gtEq(got, want) {
				x.Failf("pairing/bilinear", "%s: values differ", what)
			}
			if got.Equal(want) != gtEq(got, want) {
				x.Failf("pairing/gt-equal", "%s: GtElement.Equal disagrees with byte equality", what)
			}
		}
		switch x.Choose("law", 4) {
		case 0: // e(aP, bQ) == e(P,Q)^(ab), a,b in {0,1,2,q-1}; identity operands are refused by contract
			P := c.p1[x.Choose("P", len(c.p1))]
			Q := c.p2[x.Choose("Q", len(c.p2))]
			base, err := P.lib.Pair(Q.lib)
			if err != nil {
				x.Failf("pairing/err", "Pair(%s,%s) failed: %v", P.name, Q.name, err)
				return
			}
			if base.IsOne() || gtEq(base, one) {
				x.Failf("pairing/degenerate", "e(%s,%s) == 1 for non-identity subgroup points", P.name, Q.name)
			}
			// symmetric entry point on G2
			if rev, err := Q.lib.Pair(P.lib); err != nil {
				x.Failf("pairing/err", "PointG2.Pair failed: %v", err)
			} else {
				gtCheck(fmt.Sprintf("PointG2.Pair vs PointG1.Pair (%s,%s)", P.name, Q.name), rev, base)
			}
			if !gtEq(gtPow(base, c.q), one) {
				x.Failf("pairing/order", "e(%s,%s)^q != 1", P.name, Q.name)
			}
			exps := []struct {
				name string
				v    *big.Int
				k    int // v mod q as a small signed integer
			}{{"0", bi(0), 0}, {"1", bi(1), 1}, {"2", bi(2), 2}, {"q-1", new(big.Int).Sub(c.q, bi(1)), -1}}
			for _, a := range exps {
				for _, b := range exps {
					x.Case(fmt.Sprintf("pairing/bilinear/%s/%s/%s/%s", P.name, Q.name, a.name, b.name))
					aP := P.lib.ScalarMul(mk(a.v))
					bQ := Q.lib.ScalarMul(mk(b.v))
					// operands verified against the reference so that a wrong ScalarMul cannot mask a pairing defect
					if !a1.Ref.Equal(a1.ToRef(aP), a1.Ref.ScalarMul(a.v, P.ref)) || !a2.Ref.Equal(a2.ToRef(bQ), a2.Ref.ScalarMul(b.v, Q.ref)) {
						x.Failf("pairing/operands", "scalar multiples used as pairing operands are wrong")
						continue
					}
					got, err := aP.Pair(bQ)
					if a.k == 0 || b.k == 0 {
						// documented: identity operands are refused ("g1 or g2 cannot be nil/identity"); e(O,.) = 1 is also acceptable
						if err == nil && !got.IsOne() {
							x.Failf("pairing/identity", "e([%s]%s,[%s]%s) with an identity operand is neither refused nor 1", a.name, P.name, b.name, Q.name)
						}
						continue
					}
					if err != nil {
						x.Failf("pairing/err", "Pair([%s]%s,[%s]%s) failed: %v", a.name, P.name, b.name, Q.name, err)
						continue
					}
					gtCheck(fmt.Sprintf("e([%s]%s,[%s]%s) vs e(P,Q)^(%d)", a.name, P.name, b.name, Q.name, a.k*b.k), got, smallPow(base, a.k*b.k))
				}
			}
			x.Observe(P.name, Q.name, fmt.Sprintf("%x", base.Bytes()[:8]))
		case 1: // additivity in both arguments
			i, j := x.Choose("P1", len(c.p1)), x.Choose("P2", len(c.p1))
			P1, P2 := c.p1[i], c.p1[j]
			for k, Q := range c.p2 {
				Q2 := c.p2[(k+1)%len(c.p2)]
				x.Case(fmt.Sprintf("pairing/additive/%d/%d/%d", i, j, k))
				sumRef := a1.Ref.Add(P1.ref, P2.ref)
				if !sumRef.Inf {
					l, err1 := P1.lib.Add(P2.lib).Pair(Q.lib)
					e1, err2 := P1.lib.Pair(Q.lib)
					e2, err3 := P2.lib.Pair(Q.lib)
					if err1 != nil || err2 != nil || err3 != nil {
						x.Failf("pairing/err", "Pair failed: %v %v %v", err1, err2, err3)
					} else {
						gtCheck(fmt.Sprintf("e(%s+%s,%s) vs product", P1.name, P2.name, Q.name), l, e1.Mul(e2))
					}
				}
				if !a2.Ref.Add(Q.ref, Q2.ref).Inf {
					l, err1 := P1.lib.Pair(Q.lib.Add(Q2.lib))
					e1, err2 := P1.lib.Pair(Q.lib)
					e2, err3 := P1.lib.Pair(Q2.lib)
					if err1 != nil || err2 != nil || err3 != nil {
						x.Failf("pairing/err", "Pair failed: %v %v %v", err1, err2, err3)
					} else {
						gtCheck(fmt.Sprintf("e(%s,%s+%s) vs product", P1.name, Q.name, Q2.name), l, e1.Mul(e2))
					}
				}
			}
			x.Observe(i, j)
		case 2: // MultiPair == product of Pairs, every tuple of length 0..3 over reduced alphabets (first pair is a Choose point)
			P := c.p1[:3]
			Q := c.p2[:3]
			base := len(P) * len(Q)
			n := x.Choose("len", 4)
			g1, g2 := bls12381.NewG1(), bls12381.NewG2()
			if n == 0 {
				x.Case("pairing/multipair/0")
				r, err := g1.MultiPair(nil, nil)
				if err != nil || !r.IsOne() {
					x.Failf("pairing/multipair/empty", "G1.MultiPair of no pairs: err=%v, result is one: %v", err, err == nil && r.IsOne())
				}
				r, err = g2.MultiPair(nil, nil)
				if err != nil || !r.IsOne() {
					x.Failf("pairing/multipair/empty", "G2.MultiPair of no pairs: err=%v", err)
				}
				if _, err := g1.MultiPair([]*bls12381.PointG1{P[0].lib}, nil); err == nil {
					x.Failf("pairing/multipair/mismatch", "G1.MultiPair accepted 1 and 0 points")
				}
				return
			}
			first := x.Choose("first", base)
			rest := 1
			for i := 1; i < n; i++ {
				rest *= base
			}
			for idx := 0; idx < rest; idx++ {
				ps := make([]*bls12381.PointG1, n)
				qs := make([]*bls12381.PointG2, n)
				want, wantInv := one, one
				t := idx
				ok := true
				for i := 0; i < n; i++ {
					cc := first
					if i > 0 {
						cc = t % base
						t /= base
					}
					ps[i], qs[i] = P[cc%len(P)].lib, Q[cc/len(P)].lib
					e, err := ps[i].Pair(qs[i])
					if err != nil {
						x.Failf("pairing/err", "Pair failed: %v", err)
						ok = false
						break
					}
					want = want.Mul(e)
					wantInv = wantInv.Mul(e.Inv())
				}
				if !ok {
					continue
				}
				x.Case(fmt.Sprintf("pairing/multipair/%d/%d/%d", n, first, idx))
				tag := fmt.Sprintf("MultiPair length %d tuple %d/%d", n, first, idx)
				if got, err := g1.MultiPair(ps, qs); err != nil {
					x.Failf("pairing/err", "%s: %v", tag, err)
				} else {
					gtCheck("G1."+tag, got, want)
				}
				if got, err := g2.MultiPair(qs, ps); err != nil {
					x.Failf("pairing/err", "%s: %v", tag, err)
				} else {
					gtCheck("G2."+tag, got, want)
				}
				if got, err := g1.MultiPairAndInvertDuals(ps, qs); err != nil {
					x.Failf("pairing/err", "%s: %v", tag, err)
				} else {
					gtCheck("G1.MultiPairAndInvertDuals "+tag, got, wantInv)
				}
				// the engine API directly: Add / AddAndInvG1 / Check / Reset
				ppe := bls12381.NewOptimalAtePPE()
				for i := range ps {
					_ = ppe.Add(ps[i], qs[i])
				}
				gtCheck("PPE.Result "+tag, ppe.Result(), want)
				for i := range ps {
					_ = ppe.AddAndInvG1(ps[i], qs[i])
				}
				if !ppe.Check() {
					x.Failf("pairing/ppe-check", "%s: product of e(P,Q) e(-P,Q) is not one according to PPE.Check", tag)
				}
				if ppe.Reset(); !ppe.Result().IsOne() {
					x.Failf("pairing/ppe-reset", "PPE.Result after Reset is not one")
				}
			}
			x.Observe(n, first)
		case 3: // point-level MultiPair helpers: e(P,Q1)...e(P,Qk)
			P := c.p1[x.Choose("P", len(c.p1))]
			for k := 1; k <= 3; k++ {
				qs := make([]*bls12381.PointG2, k)
				want := one
				for i := range qs {
					qs[i] = c.p2[(i*2+k)%len(c.p2)].lib
					e, _ := P.lib.Pair(qs[i])
					want = want.Mul(e)
				}
				x.Case(fmt.Sprintf("pairing/pointmultipair/%s/%d", P.name, k))
				if got, err := P.lib.MultiPair(qs...); err != nil {
					x.Failf("pairing/err", "PointG1.MultiPair: %v", err)
				} else {
					gtCheck(fmt.Sprintf("PointG1(%s).MultiPair of %d", P.name, k), got, want)
				}
				if got, err := P.lib.MultiPairAndInvertDuals(qs...); err != nil {
					x.Failf("pairing/err", "PointG1.MultiPairAndInvertDuals: %v", err)
				} else {
					gtCheck(fmt.Sprintf("PointG1(%s).MultiPairAndInvertDuals of %d", P.name, k), got, want.Inv())
				}
			}
			x.Observe(P.name)
		}
	}
}

func runPairing() {
	engine.Explore(pairingBody(), engine.Opts{Name: "pairing/bls12381", Budget: budget(120, 900)})
}
