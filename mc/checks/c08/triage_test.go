package c08

import (
	"fmt"
	"os"
	"runtime/debug"
	"testing"

	"github.com/bronlabs/bron-crypto/pkg/base/curves/k256"
	"github.com/bronlabs/bron-crypto/pkg/proofs/sigma/compiler/fiatshamir"

	"verifmc/ref/cbor"
)

// TestTriage reproduces the findings of the unchanged tree with direct library calls only (VERIF_C08_TRIAGE=1).
func TestTriage(t *testing.T) {
	if os.Getenv("VERIF_C08_TRIAGE") == "" {
		t.Skip()
	}
	k := newEC("k256", k256.NewCurve())
	n := andCase(schnorrCase(k), 2).ni()
	proof, err := n.prove(fiatshamir.Name, proverCtx().build(), 0, "triage")
	if err != nil {
		t.Fatal(err)
	}
	root, _ := cbor.Parse(proof)
	fmt.Println("honest proof:", root)
	// append a CBOR null to the commitment array "A" of the AND(2) proof
	a := cbor.Find(root, "$>A").Node
	a.Items = append(a.Items, &cbor.Node{Kind: cbor.Simple, Info: 22, Arg: 22})
	edited := cbor.Encode(root)
	fmt.Println("edited proof:", root)
	func() {
		defer func() {
			if r := recover(); r != nil {
				fmt.Printf("Verify PANICKED: %v\n%s\n", r, debug.Stack())
			}
		}()
		err := n.verify(fiatshamir.Name, verifierCtx().build(), stmtSel{}, edited)
		fmt.Println("Verify returned:", err)
	}()
}

func TestTriageNils(t *testing.T) {
	if os.Getenv("VERIF_C08_TRIAGE") == "" {
		t.Skip()
	}
	k := newEC("k256", k256.NewCurve())
	n := batchSchnorrCase(k, 2).ni()
	proof, err := n.prove(fiatshamir.Name, proverCtx().build(), 0, "triage")
	if err != nil {
		t.Fatal(err)
	}
	root, _ := cbor.Parse(proof)
	fmt.Println("honest proof:", root)
	base, err := n.nils(fiatshamir.Name, proof)
	fmt.Println("base nils:", base, err)
	a := cbor.Find(root, "$>A").Node
	a.Items = nil
	edited := cbor.Encode(root)
	fmt.Println("edited proof:", root)
	np, err := n.nils(fiatshamir.Name, edited)
	fmt.Println("edited nils:", np, err)
}
