// C15 — single-party signatures verify exactly for the signed message and key.
//
// Space: scheme in {ECDSA (k256, p256 x SHA-256/SHA-512/BLAKE2b-256 x randomised/deterministic), BIP-340, configurable
// Schnorr (k256, p256, edwards25519, pallas x hash x endianness x response sign x nonce-parity rule), Mina (both
// networks), BLS12-381 (both key groups x basic / message augmentation / proof of possession)} x 3 keys (sk = 1,
// sk = q-1, a derived one) x the message alphabet {"", "a", 32x00, 32xff, 1 KiB pattern} x every single-component
// alteration of (message, signature, key): each bit of r and s / of the R||s encoding, message byte flips / append /
// truncate, key -> -pk, 2pk, another key, identity, recovery id flipped / omitted / out of range, s -> n-s (with and
// without the recovery bit flipped). BLS aggregation: signer sets of size 1..4, same / distinct messages, each
// rogue-key prevention mode, each contributor fault. Published vectors (BIP-340 table, the eth2 BLS vectors of the
// repository) are replayed through the public API from /verif/kat.
//
// Oracle: the library's accept/reject verdict must equal the verdict of an independent verifier (crypto/ecdsa for
// P-256, verifmc/ref/sig over the math/big curve model otherwise; BLS by definition sigma == sum [sk_i]H(m_i)).
package c15

import (
	"fmt"
	"math/big"
	"os"
	"sort"
	"strings"
	"sync"
	"testing"
	"time"

	"verifmc/det"
	"verifmc/engine"
)

func TestMain(m *testing.M) { engine.Main(m, "C15", "fault_enumeration") }

// ---------------------------------------------------------------------------------------------------------------
// alphabets

var msgNames = []string{"empty", "a", "zero32", "ff32", "kib"}

func message(i int) []byte {
	switch i {
	case 0:
		return []byte{}
	case 1:
		return []byte("a")
	case 2:
		return make([]byte, 32)
	case 3:
		b := make([]byte, 32)
		for i := range b {
			b[i] = 0xff
		}
		return b
	default:
		b := make([]byte, 1024)
		for i := range b {
			b[i] = byte(i*7 + 3)
		}
		return b
	}
}

// secret key alphabet: 0 -> 1, 1 -> q-1, 2 -> derived (fixed per seed), 3 -> another derived one ("foreign" key).
var keyNames = []string{"sk=1", "sk=q-1", "sk=derived", "sk=foreign"}

func secretKey(q *big.Int, i int) *big.Int {
	switch i {
	case 0:
		return big.NewInt(1)
	case 1:
		return new(big.Int).Sub(q, big.NewInt(1))
	default:
		var b [48]byte
		_, _ = det.New(engine.Seed(), fmt.Sprintf("c15-key-%d", i)).Read(b[:])
		v := new(big.Int).SetBytes(b[:])
		v.Mod(v, new(big.Int).Sub(q, big.NewInt(3)))
		return v.Add(v, big.NewInt(2)) // in [2, q-2]
	}
}

// msgAlt is one alteration of a message.
type msgAlt struct {
	label string
	msg   []byte
}

// messageAlterations: single-bit flips of selected bytes (sparse: bits 0 and 7 of byte 0, one bit of the middle byte, bits
// 0 and 7 of the last byte; dense: every bit of byte 0 and one bit of every other byte), append one byte, drop the last
// byte. appendByte is 0x00 except for Mina (see the mina section). Quick is sparse; thorough is dense on the
// configurations each section names.
func messageAlterations(m []byte, appendByte byte, dense bool) []msgAlt {
	var out []msgAlt
	flip := func(pos int, bit uint) {
		c := append([]byte{}, m...)
		c[pos] ^= 1 << bit
		out = append(out, msgAlt{fmt.Sprintf("msg/flip[%d].%d", pos, bit), c})
	}
	if len(m) > 0 {
		for b := uint(0); b < 8; b++ {
			if dense || b == 0 || b == 7 {
				flip(0, b)
			}
		}
		if len(m) > 2 {
			flip(len(m)/2, 3)
		}
		if len(m) > 1 {
			flip(len(m)-1, 7)
			flip(len(m)-1, 0)
		}
		if dense {
			for i := 1; i < len(m)-1; i++ {
				if i != len(m)/2 {
					flip(i, uint(i%8))
				}
			}
		}
		out = append(out, msgAlt{"msg/truncate", append([]byte{}, m[:len(m)-1]...)})
	}
	out = append(out, msgAlt{fmt.Sprintf("msg/append%02x", appendByte), append(append([]byte{}, m...), appendByte)})
	return out
}

// bitSet returns the bit positions to flip in an n-bit string: all of them when full, a boundary subset otherwise.
func bitSet(n int, full bool) []int {
	if full {
		out := make([]int, n)
		for i := range out {
			out[i] = i
		}
		return out
	}
	cand := []int{0, 1, 7, 8, n/2 - 1, n / 2, n - 9, n - 8, n - 2, n - 1}
	seen := map[int]bool{}
	var out []int
	for _, c := range cand {
		if c >= 0 && c < n && !seen[c] {
			seen[c] = true
			out = append(out, c)
		}
	}
	sort.Ints(out)
	return out
}

func flipBitBE(b []byte, i int) []byte { // bit 0 = least significant bit of the last byte
	c := append([]byte{}, b...)
	c[len(c)-1-i/8] ^= 1 << (uint(i) % 8)
	return c
}

// ---------------------------------------------------------------------------------------------------------------
// verdict tallies (per section and alteration class: accepted / rejected by the library), reported as section notes so
// that "everything was rejected for a trivial reason" is visible.

type tally struct {
	mu sync.Mutex
	m  map[string]*[3]int64 // accept, reject, refused-by-constructor
}

func newTally() *tally { return &tally{m: map[string]*[3]int64{}} }

func (t *tally) add(class string, verdict int) {
	t.mu.Lock()
	e := t.m[class]
	if e == nil {
		e = &[3]int64{}
		t.m[class] = e
	}
	e[verdict]++
	t.mu.Unlock()
}

func (t *tally) note(sec *engine.Section) {
	t.mu.Lock()
	defer t.mu.Unlock()
	keys := make([]string, 0, len(t.m))
	for k := range t.m {
		keys = append(keys, k)
	}
	sort.Strings(keys)
	var sb strings.Builder
	for _, k := range keys {
		e := t.m[k]
		fmt.Fprintf(&sb, "%s=%d/%d/%d ", k, e[0], e[1], e[2])
	}
	sec.Note("library verdicts per alteration class (accepted/rejected/refused-at-construction): %s", sb.String())
}

const (
	vAccept = 0
	vReject = 1
	vRefuse = 2
)

func verdictOf(err error) int {
	if err == nil {
		return vAccept
	}
	return vReject
}

// class strips the variable part of an alteration label ("r/bit17" -> "r/bit").
func class(label string) string {
	if i := strings.IndexAny(label, "[0123456789"); i > 0 {
		return strings.TrimRight(label[:i], "/")
	}
	return label
}

func errStr(err error) string {
	if err == nil {
		return "<nil>"
	}
	s := err.Error()
	if i := strings.IndexByte(s, '\n'); i >= 0 {
		s = s[:i]
	}
	return s
}

// ---------------------------------------------------------------------------------------------------------------

func TestCheck(t *testing.T) {
	engine.Rule("scheme configuration x key index {sk=1, sk=q-1, derived} x message {\"\", \"a\", 32x00, 32xff, 1KiB} x alteration. Alterations per base signature: every bit (quick: all bits on the configurations listed per section, the boundary bits {0,1,7,8,n/2-1,n/2,n-9,n-8,n-2,n-1} elsewhere; thorough: all bits everywhere) of r and of s (ECDSA, value bits) / of the serialised R||s (BIP-340, Mina, configurable Schnorr, BLS compressed signature, through the library's decoders); message: each bit of byte 0, one bit of the middle and last byte (thorough: one bit of every byte), append a byte, drop the last byte; key: -pk, 2pk, a foreign key, identity (through the constructor and, where fields are exported, through a struct literal); ECDSA: v flipped, v^2, v^3, v omitted, v out of range, s->n-s with v flipped / kept / omitted, r<->s; Schnorr: R->-R, 2R, identity, s->-s, s+1, s=0; BLS: sigma->-sigma, 2sigma, foreign signature, identity, proof of possession missing / foreign / wrong domain. Aggregation: key group x rogue-key mode x n in 1..4 x same/distinct messages x fault {none, missing signature, missing key, foreign key, identity key, identity signature, key outside the subgroup, duplicate signature, altered message, rogue key, (PoP) missing / foreign / swapped proof} x position. A case is distinct by (section, configuration, key, message, alteration label); non-trivial = the library verifier (or the constructor that refuses the altered component) was called and its verdict compared with the independent verdict.")
	engine.Assume(
		"Go toolchain, math/big, crypto/ecdsa (oracle for P-256), crypto/sha256, crypto/sha512, x/crypto/blake2b and the reference models verifmc/ref/curve + verifmc/ref/sig are correct (ref/sig is self-tested against the BIP-340 table, crypto/ecdsa and crypto/ed25519)",
		"hash-to-curve (BLS H(m)) and Poseidon (Mina challenge) are taken from the library: the BLS oracle is the definition sigma == sum [sk_i]*H(m_i) evaluated in the math/big curve model, the Mina oracle recomputes the group equation with the library's challenge; there is no reference pairing (the pairing is checked algebraically in C14)",
		"randomised ECDSA: Go 1.26 crypto/ecdsa ignores the supplied io.Reader (GODEBUG cryptocustomrand unset), so the nonce of a randomised ECDSA base signature differs between processes; each base signature is produced once per process and reused, and every oracle is independent of the nonce",
		"purego build of the library; bit flips address the canonical encodings produced by the library's own serialisers",
	)
	for _, g := range []struct {
		name string
		run  func()
	}{{"ecdsa", runECDSA}, {"bip340", runBIP340}, {"schnorr", runSchnorr}, {"mina", runMina}, {"bls", runBLS}, {"bls-aggregate", runBLSAggregate}, {"kat", runKAT}} {
		if only := os.Getenv("C15_ONLY"); only != "" && !strings.Contains(","+only+",", ","+g.name+",") {
			continue // development aid (mutant demonstrations): C15_ONLY=ecdsa,bls restricts the groups of sections that run
		}
		g.run()
	}
}

func budget(q, t int) time.Duration {
	return engine.Budget(time.Duration(q)*time.Minute, time.Duration(t)*time.Minute)
}
