package c13

import (
	"bytes"
	enchex "encoding/hex"
	"fmt"
	"math/big"
	"testing"

	"github.com/bronlabs/bron-crypto/pkg/base/curves/curve25519"
	"github.com/bronlabs/bron-crypto/pkg/base/curves/p256"
	"github.com/bronlabs/bron-crypto/pkg/base/curves/pairable/bls12381"
)

// TestTriage reproduces every finding of the check with plain library calls (no harness, no reference model beyond
// integer literals). Run: go test -tags purego,verif -run TestTriage -v ./checks/c13/   (not part of ./check C13).
func TestTriage(t *testing.T) {
	t.Run("p256/compressed/x=0", func(t *testing.T) {
		cv, fld := p256.NewCurve(), p256.NewBaseField()
		zero := fld.Zero()
		p, err := cv.FromAffineX(zero, false) // (0, sqrt(b)) with even y
		if err != nil {
			t.Fatal(err)
		}
		enc := p.ToCompressed()
		q, err := cv.FromCompressed(enc)
		fmt.Printf("P-256 (0,y): IsZero=%v ToCompressed=%x -> FromCompressed: err=%v IsZero=%v Equal=%v; identity.ToCompressed=%x\n",
			p.IsZero(), enc, err, q.IsZero(), q.Equal(p), cv.OpIdentity().ToCompressed())
	})
	t.Run("curve25519/compressed", func(t *testing.T) {
		cv := curve25519.NewCurve()
		g := cv.PrimeSubGroupGenerator()
		ng := g.Neg()
		fmt.Printf("curve25519 G.Equal(-G)=%v  Bytes(G)=%x Bytes(-G)=%x\n", g.Equal(ng), g.Bytes(), ng.Bytes())
		d, _ := cv.FromCompressed(ng.ToCompressed())
		fmt.Printf("  FromCompressed(ToCompressed(-G)).Equal(-G)=%v .Equal(G)=%v\n", d.Equal(ng), d.Equal(g))
		// the point (0,0) of order two: u = p decodes to it (0 is reserved for the identity)
		pBytes, _ := enchex.DecodeString("edffffffffffffffffffffffffffffffffffffffffffffffffffffffffffff7f")
		t2, err := cv.FromCompressed(pBytes)
		fmt.Printf("  FromCompressed(p): err=%v IsZero=%v double.IsZero=%v ToCompressed=%x (identity: %x)\n", err, t2.IsZero(), t2.Add(t2).IsZero(), t2.ToCompressed(), cv.OpIdentity().ToCompressed())
		_, erry := t2.AffineY()
		fmt.Printf("  AffineY of (0,0): err=%v\n", erry)
		func() {
			defer func() { fmt.Printf("  ToUncompressed of (0,0): panic=%v\n", recover()) }()
			_ = t2.ToUncompressed()
		}()
		func() {
			defer func() { fmt.Printf("  MarshalCBOR of (0,0): panic=%v\n", recover()) }()
			_, _ = t2.MarshalCBOR()
		}()
	})
	t.Run("bls12381/uncompressed/flags", func(t *testing.T) {
		g1 := bls12381.NewG1()
		enc := g1.Generator().ToUncompressed()
		for _, fl := range []byte{0x80, 0x20, 0xa0} {
			b := append([]byte{}, enc...)
			b[0] |= fl
			p, err := g1.FromUncompressed(b)
			fmt.Printf("G1.FromUncompressed(flags %08b | G): err=%v equalG=%v\n", fl, err, err == nil && p.Equal(g1.Generator()))
		}
		b := append([]byte{}, enc...)
		b[0] |= 0x40
		p, err := g1.FromUncompressed(b)
		fmt.Printf("G1.FromUncompressed(infinity flag | body of G): err=%v IsZero=%v\n", err, err == nil && p.IsZero())
		g2 := bls12381.NewG2()
		enc2 := g2.Generator().ToUncompressed()
		b2 := append([]byte{}, enc2...)
		b2[0] |= 0xc0
		p2, err := g2.FromUncompressed(b2)
		fmt.Printf("G2.FromUncompressed(C=1,I=1 | body of G): err=%v IsZero=%v\n", err, err == nil && p2.IsZero())
	})
	t.Run("bls12381g1/affine-x", func(t *testing.T) {
		g1 := bls12381.NewG1()
		zero := bls12381.NewG1BaseField().Zero()
		p, err := g1.FromAffineX(zero, false)
		if err != nil {
			t.Fatal(err)
		}
		y, _ := p.AffineY()
		three := p.Add(p).Add(p)
		_, errA := g1.FromAffine(zero, y)
		_, errC := g1.FromCompressed(p.ToCompressed())
		fmt.Printf("G1.FromAffineX(0): y=%v IsTorsionFree=%v 3P.IsZero=%v; FromAffine(0,y) err=%v; FromCompressed(ToCompressed) err=%v\n",
			new(big.Int).SetBytes(y.Bytes()), p.IsTorsionFree(), three.IsZero(), errA, errC)
	})
	t.Run("bls12381gt/frombytes", func(t *testing.T) {
		gt := bls12381.NewGt()
		z, err := gt.FromBytes(make([]byte, 576))
		fmt.Printf("Gt.FromBytes(0^576): err=%v IsOne=%v\n", err, err == nil && z.IsOne())
		func() {
			defer func() { fmt.Printf("  Inv of it: panic=%v\n", recover()) }()
			_ = z.Inv()
		}()
		two := make([]byte, 576)
		two[47] = 2
		e, err := gt.FromBytes(two)
		// e^r by square and multiply with the library
		r, _ := new(big.Int).SetString("73eda753299d7d483339d80809a1d80553bda402fffe5bfeffffffff00000001", 16)
		acc := gt.One()
		for i := r.BitLen() - 1; i >= 0; i-- {
			acc = acc.Mul(acc)
			if r.Bit(i) == 1 {
				acc = acc.Mul(e)
			}
		}
		fmt.Printf("Gt.FromBytes(2): err=%v  2^r==1: %v (Order() claims r)\n", err, acc.IsOne())
		_ = bytes.Equal
	})
}
