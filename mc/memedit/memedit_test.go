package memedit

import "testing"

type inner struct {
	rho  []byte
	w    [4]byte
	m    map[uint64][4]byte
	next *inner
	any  interface{}
	s    string
}

type outer struct {
	state *inner
	list  []*inner
}

func TestReplace(t *testing.T) {
	pat := []byte{1, 2, 3, 4}
	nw := []byte{9, 9, 9, 9}
	in := &inner{rho: []byte{1, 2, 3, 4}, w: [4]byte{1, 2, 3, 4}, m: map[uint64][4]byte{7: {1, 2, 3, 4}, 8: {0, 0, 0, 0}}, s: "\x01\x02\x03\x04"}
	in.next = &inner{rho: []byte{1, 2, 3, 5}, any: &inner{rho: []byte{1, 2, 3, 4}}}
	in.next.next = in // cycle
	o := &outer{state: in, list: []*inner{{w: [4]byte{1, 2, 3, 4}}}}
	r := Replace([]any{o}, pat, nw)
	if r.Replaced != 5 || r.Unpatchable != 1 {
		t.Fatalf("replaced=%d unpatchable=%d", r.Replaced, r.Unpatchable)
	}
	if in.rho[0] != 9 || in.w[0] != 9 || in.m[7][0] != 9 || in.m[8][0] != 0 || in.next.rho[0] != 1 || in.next.any.(*inner).rho[0] != 9 || o.list[0].w[0] != 9 {
		t.Fatalf("not patched: %+v", in)
	}
}
