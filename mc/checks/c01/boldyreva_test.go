package c01

import (
	"bytes"
	"fmt"
	"math/big"
	"os"
	"slices"
	"strings"

	"github.com/bronlabs/bron-crypto/pkg/base/algebra"
	"github.com/bronlabs/bron-crypto/pkg/base/curves"
	"github.com/bronlabs/bron-crypto/pkg/base/curves/pairable/bls12381"
	"github.com/bronlabs/bron-crypto/pkg/mpc"
	"github.com/bronlabs/bron-crypto/pkg/mpc/sharing"
	"github.com/bronlabs/bron-crypto/pkg/mpc/signatures/bls/boldyreva02"
	"github.com/bronlabs/bron-crypto/pkg/signatures/bls"

	"verifmc/catalog"
	"verifmc/engine"
	"verifmc/proto"
	"verifmc/ref/conv"
	"verifmc/ref/curve"
	"verifmc/ref/curve/libcurve"
	"verifmc/ref/sig"
)

// Domain separation tags typed in from draft-irtf-cfrg-bls-signature (section 4.2): [signature group][mode].
var blsDST = map[string]map[bls.RogueKeyPreventionAlgorithm]string{
	"G2": {
		bls.Basic:               "BLS_SIG_BLS12381G2_XMD:SHA-256_SSWU_RO_NUL_",
		bls.MessageAugmentation: "BLS_SIG_BLS12381G2_XMD:SHA-256_SSWU_RO_AUG_",
		bls.POP:                 "BLS_SIG_BLS12381G2_XMD:SHA-256_SSWU_RO_POP_",
	},
	"G1": {
		bls.Basic:               "BLS_SIG_BLS12381G1_XMD:SHA-256_SSWU_RO_NUL_",
		bls.MessageAugmentation: "BLS_SIG_BLS12381G1_XMD:SHA-256_SSWU_RO_AUG_",
		bls.POP:                 "BLS_SIG_BLS12381G1_XMD:SHA-256_SSWU_RO_POP_",
	},
}
var blsPopDST = map[string]string{
	"G2": "BLS_POP_BLS12381G2_XMD:SHA-256_SSWU_RO_POP_",
	"G1": "BLS_POP_BLS12381G1_XMD:SHA-256_SSWU_RO_POP_",
}

type blsMode struct {
	name string
	alg  bls.RogueKeyPreventionAlgorithm
}

var blsModes = []blsMode{{"basic", bls.Basic}, {"aug", bls.MessageAugmentation}, {"pop", bls.POP}}

// blsFlavour hides the type parameters of one key-group variant.
type blsFlavour struct {
	name string
	leaf func(x *engine.X, s *structure, a catalog.IDAssignment, kg proto.C01Keygen, mode blsMode, msgs []int)
}

func mkBLS[
	PK curves.PairingFriendlyPoint[PK, PKFE, SG, SGFE, E, S], PKFE algebra.FieldElement[PKFE],
	SG curves.PairingFriendlyPoint[SG, SGFE, PK, PKFE, E, S], SGFE algebra.FieldElement[SGFE],
	E algebra.MultiplicativeGroupElement[E], S algebra.PrimeFieldElement[S],
	KE, SE any,
](
	v proto.C01BLS[PK, PKFE, SG, SGFE, E, S],
	keyGroup curves.PairingFriendlyCurve[PK, PKFE, SG, SGFE, E, S],
	sigGroup curves.PairingFriendlyCurve[SG, SGFE, PK, PKFE, E, S],
	sigGroupName string,
	refK *curve.WCurve[KE], refS *curve.WCurve[SE],
	keyToRef func(PK) (curve.WPoint[KE], error), sigToRef func(SG) (curve.WPoint[SE], error),
	mkScheme func(alg bls.RogueKeyPreventionAlgorithm) (*bls.Scheme[PK, PKFE, SG, SGFE, E, S], error),
) blsFlavour {
	type sigT = *bls.Signature[SG, SGFE, PK, PKFE, E, S]
	type keyMat struct {
		shards map[sharing.ID]*boldyreva02.Shard[PK, PKFE, SG, SGFE, E, S] // as decoded from their CBOR encoding
		pm     *boldyreva02.PublicMaterial[PK, PKFE, SG, SGFE, E, S]       // public material as an outside aggregator receives it (decoded)
		sk     *big.Int                                                    // reconstructed by ref/linalg from ALL dealt shares
	}
	q := conv.BLS12381R
	getKeys := func(s *structure, a catalog.IDAssignment, kg proto.C01Keygen) (*keyMat, error) {
		return cached(fmt.Sprintf("bls|%s|%s|%s|%s", v.Name, s.e.Name, a.Name, kg), func() (*keyMat, error) {
			base, err := baseShards[PK, S]("bls12381-"+v.Name, keyGroup, s, a, kg)
			if err != nil {
				return nil, err
			}
			sk, err := refSecret(q, base)
			if err != nil {
				return nil, fmt.Errorf("reference reconstruction: %w", err)
			}
			sh, err := proto.C01BoldyrevaShards(v, base)
			if err != nil {
				return nil, err
			}
			// what the parties and an outside aggregator work with went through the wire format once
			var pm *boldyreva02.PublicMaterial[PK, PKFE, SG, SGFE, E, S]
			for _, id := range a.IDs {
				if sh[id] == nil {
					return nil, fmt.Errorf("no shard for party %d", id)
				}
				sh[id] = proto.C01Wire(sh[id])
				if pm == nil {
					pm = proto.C01Wire(sh[id].PublicKeyMaterial())
				}
			}
			return &keyMat{sh, pm, sk}, nil
		})
	}
	// the reference point [sk]*H_dst(msg); H from the library, checked to lie in the r-torsion subgroup
	want := func(sk *big.Int, dst string, msg []byte) (curve.WPoint[SE], error) {
		hm, err := sigGroup.HashWithDst(dst, msg)
		if err != nil {
			return curve.WPoint[SE]{}, err
		}
		h, err := sigToRef(hm)
		if err != nil {
			return curve.WPoint[SE]{}, err
		}
		if h.Inf || !refS.InSubgroup(h) {
			return curve.WPoint[SE]{}, fmt.Errorf("the library's hash-to-curve output is the identity or outside the r-torsion subgroup")
		}
		return sig.BLSSign(refS, sk, h), nil
	}
	// keyOK: the group public key is [sk]*G for the secret reconstructed from the dealt shares (once per key)
	keyOK := func(km *keyMat, pk PK) (bool, string) {
		P, err := keyToRef(pk)
		if err != nil {
			return false, fmt.Sprintf("public key is not a point of the reference group: %v", err)
		}
		if P.Inf || !refK.Equal(P, sig.BLSPublicKey(refK, km.sk)) {
			return false, "group public key != [sk]*G for the secret reconstructed from the dealt shares"
		}
		return true, ""
	}
	// refVerify: the independent verdict on (message, signature) for the mode, under the key checked by keyOK.
	// sigma == [sk]*H(m) != O with H(m) in the subgroup also settles subgroup membership of sigma. wantMemo caches
	// the expected points of one execution (BLS signatures are deterministic: every quorum must produce the same).
	refVerify := func(memo map[string]curve.WPoint[SE], km *keyMat, pk PK, mode blsMode, raw []byte, sg sigT) (bool, string) {
		expect := func(dst string, msg []byte) (curve.WPoint[SE], error) {
			k := dst + "|" + string(msg)
			if w, ok := memo[k]; ok {
				return w, nil
			}
			w, err := want(km.sk, dst, msg)
			if err == nil {
				memo[k] = w
			}
			return w, err
		}
		internal := raw
		if mode.alg == bls.MessageAugmentation {
			internal = slices.Concat(pk.Bytes(), raw)
		}
		w, err := expect(blsDST[sigGroupName][mode.alg], internal)
		if err != nil {
			return false, fmt.Sprintf("hash to curve: %v", err)
		}
		sv, err := sigToRef(sg.Value())
		if err != nil {
			return false, fmt.Sprintf("signature is not a point of the reference group: %v", err)
		}
		if sv.Inf || !refS.Equal(sv, w) {
			return false, "sigma != [sk]*H(m)"
		}
		if mode.alg == bls.POP {
			pop := sg.Pop()
			if pop == nil {
				return false, "proof-of-possession mode but the signature carries no proof"
			}
			wp, err := expect(blsPopDST[sigGroupName], pk.Bytes())
			if err != nil {
				return false, fmt.Sprintf("hash to curve (pop): %v", err)
			}
			pv, err := sigToRef(pop.Value())
			if err != nil || pv.Inf || !refS.Equal(pv, wp) {
				return false, fmt.Sprintf("proof of possession != [sk]*H_pop(pk) (err=%v)", err)
			}
		}
		return true, ""
	}
	leaf := func(x0 *engine.X, s *structure, a catalog.IDAssignment, kg proto.C01Keygen, mode blsMode, msgs []int) {
		x := newOnce(x0)
		defer x.flush()
		fk := fmt.Sprintf("boldyreva/%s/%s", v.Name, mode.name)
		where := fmt.Sprintf("%s %s ids=%s(%s) keygen=%s", fk, s.e.Name, a.Name, idsString(a.IDs), kg)
		km, err := getKeys(s, a, kg)
		if err != nil {
			if !outside(x0, err, where) {
				x.Failf("boldyreva/keygen/"+kg.String(), "%s: key generation failed\n    error: %s", where, errStr(err))
			}
			return
		}
		for _, id := range a.IDs {
			if km.shards[id] == nil {
				x.Failf("boldyreva/keygen/"+kg.String(), "%s: no shard for party %d", where, id)
				return
			}
		}
		scheme, err := mkScheme(mode.alg)
		if err != nil {
			panic(engine.HarnessError{Msg: err.Error()})
		}
		if dst, err := scheme.CipherSuite().GetDst(mode.alg, scheme.Variant()); err != nil || dst != blsDST[sigGroupName][mode.alg] || scheme.CipherSuite().GetPopDst(scheme.Variant()) != blsPopDST[sigGroupName] {
			x.Failf(fk+"/dst", "%s: the cipher suite's domain separation tag is %q (err=%v), the draft's is %q", where, dst, err, blsDST[sigGroupName][mode.alg])
		}
		seed := engine.Seed()
		pkObj := km.shards[a.IDs[0]].PublicKey()
		pk := pkObj.Value()
		if ok, why := keyOK(km, pk); !ok {
			x.Failf(fk+"/public-key", "%s: %s", where, why)
		}
		memo := map[string]curve.WPoint[SE]{}
		// verdicts per (message, signature bytes): every quorum must produce the same bytes, so each verifier runs once
		type verdict struct {
			ok  bool
			why string
		}
		refSeen, libSeen := map[string]verdict{}, map[string]error{}
		refV := func(mi int, b []byte, sg sigT) (bool, string) {
			k := fmt.Sprintf("%d|%x", mi, b)
			if v, ok := refSeen[k]; ok {
				return v.ok, v.why
			}
			ok, why := refVerify(memo, km, pk, mode, message(mi), sg)
			refSeen[k] = verdict{ok, why}
			return ok, why
		}
		nAcc, nRef, nEmpty := 0, 0, 0
		for _, qm := range s.qualified {
			quorum := catalog.Subset(a.IDs, qm)
			kind := "non-minimal"
			if s.minimal[qm] {
				kind = "minimal"
			}
			var subs [][]sharing.ID
			for _, sm := range subsetsOf(qm) {
				if !s.e.P.Qualified(sm) {
					subs = append(subs, catalog.Subset(a.IDs, sm))
				}
			}
			for _, mi := range msgs {
				raw := message(mi)
				label := fmt.Sprintf("%s|%s|%s|%s|%s|q%b|m%d", v.Name, mode.name, s.e.Name, a.Name, kg, qm, mi)
				cw := fmt.Sprintf("%s quorum=%s (%s) msg=%s", where, idsString(quorum), kind, msgNames[mi])
				x.Case(label)
				out, subErr := proto.C01BoldyrevaSign(v, km.shards, quorum, raw, mode.alg, seed, label, subs, km.pm, engine.Thorough() || mode.alg == bls.Basic && a.Name == "ord")
				if out.Refused != nil {
					x.Failf(fk+"/refused-qualified", "%s: a cosigner constructor refused a QUALIFIED quorum\n    errors: %s", cw, errsString(out.Errs))
					continue
				}
				if len(raw) == 0 {
					// documented refusal: ProducePartialSignature / Aggregate / Verify do not take an empty message
					if len(out.Sigs) != 0 {
						x.Failf(fk+"/empty-message-signed", "%s: the empty message was signed although ProducePartialSignature documents its refusal", cw)
					}
					nEmpty++
					continue
				}
				missing := false
				for _, w := range out.Want {
					if _, ok := out.Sigs[w]; !ok {
						missing = true
						x.Failf(fk+"/no-output/"+holderClass(w), "%s: %s obtained no signature\n    errors: %s", cw, w, errsString(out.Errs))
					}
				}
				if len(out.Sigs) == 0 {
					continue
				}
				// (2) byte-equal signatures (and proofs of possession)
				var first []byte
				var firstSig sigT
				equal := true
				for _, w := range sortedKeys(out.Sigs) {
					b := slices.Clone(out.Sigs[w].Bytes())
					if p := out.Sigs[w].Pop(); p != nil {
						b = append(b, p.Bytes()...)
					}
					if first == nil {
						first, firstSig = b, out.Sigs[w]
					} else if !bytes.Equal(first, b) {
						equal = false
						x.Failf(fk+"/different-signatures", "%s: %s obtained %x, another aggregator obtained %x", cw, w, b, first)
					}
				}
				// (3) independent verdict
				if ok, why := refV(mi, first, firstSig); !ok {
					x.Failf(fk+"/independent-verifier-rejects", "%s: the independent verifier rejects the signature %x: %s", cw, first, why)
				}
				// (4) the library's single-party verifier
				vf, err := scheme.Verifier()
				if err != nil {
					panic(engine.HarnessError{Msg: err.Error()})
				}
				libV := func(mi int) error {
					k := fmt.Sprintf("%d|%x", mi, first)
					if e, ok := libSeen[k]; ok {
						return e
					}
					e := vf.Verify(firstSig, pkObj, message(mi))
					libSeen[k] = e
					return e
				}
				if err := libV(mi); err != nil {
					x.Failf(fk+"/library-verifier-rejects", "%s: the library verifier rejects the signature %x\n    error: %v", cw, first, err)
				}
				// (5) the next message of the alphabet is rejected by both
				ni := nextMsg(mi)
				if ok, _ := refV(ni, first, firstSig); ok {
					x.Failf(fk+"/independent-verifier-accepts-other-message", "%s: the independent verifier accepts the signature for message %s", cw, msgNames[ni])
				}
				if err := libV(ni); err == nil {
					x.Failf(fk+"/library-verifier-accepts-other-message", "%s: the library verifier accepts the signature for message %s", cw, msgNames[ni])
				}
				// (6b) unqualified sub-collections are refused by the aggregator
				for i, e := range subErr {
					if e == nil {
						x.Failf(fk+"/aggregator-accepts-unqualified", "%s: the aggregator produced a signature from the partial signatures of the UNQUALIFIED subset %s", cw, idsString(subs[i]))
					} else {
						nRef++
					}
				}
				if !missing && equal {
					nAcc++
				}
			}
		}
		// (6a) unqualified party sets are refused at cosigner construction
		for _, u := range s.unqualified {
			set := catalog.Subset(a.IDs, u)
			label := fmt.Sprintf("%s|%s|%s|%s|%s|u%b", v.Name, mode.name, s.e.Name, a.Name, kg, u)
			x.Case(label)
			res := proto.C01BoldyrevaNew(v, km.shards, set, mode.alg, seed, label)
			accepted := 0
			for _, id := range set {
				if res[id] == nil {
					accepted++
				}
			}
			if accepted == len(set) {
				// no constructor refused: then the aggregator must
				out, _ := proto.C01BoldyrevaSign(v, km.shards, set, message(1), mode.alg, seed, label, nil, km.pm, false)
				if len(out.Sigs) > 0 {
					x.Failf(fk+"/unqualified-quorum-signs", "%s: the UNQUALIFIED party set %s obtained a signature", where, idsString(set))
				} else {
					x.Failf(fk+"/unqualified-quorum-not-refused-at-construction", "%s: every cosigner constructor accepted the UNQUALIFIED party set %s \n    (aggregation then failed: %s)", where, idsString(set), errsString(out.Errs))
				}
			} else {
				nRef++
			}
		}
		x.Observe(v.Name, mode.name, s.e.Name, a.Name, kg, "signed", nAcc, "refusals", nRef, "empty-refused", nEmpty)
	}
	return blsFlavour{name: v.Name, leaf: leaf}
}

func blsFlavours() []blsFlavour {
	fam := proto.C01BLSFamily()
	a1, a2 := libcurve.BLS12381G1(), libcurve.BLS12381G2()
	type (
		g1 = *bls12381.PointG1
		f1 = *bls12381.BaseFieldElementG1
		g2 = *bls12381.PointG2
		f2 = *bls12381.BaseFieldElementG2
		gt = *bls12381.GtElement
		sc = *bls12381.Scalar
	)
	short := mkBLS[g1, f1, g2, f2, gt, sc, *big.Int, curve.Fp2](proto.C01BoldyrevaShort(), fam.SourceSubGroup(), fam.TwistedSubGroup(), "G2", a1.Ref, a2.Ref, a1.TryToRef, a2.TryToRef,
		func(alg bls.RogueKeyPreventionAlgorithm) (*bls.Scheme[g1, f1, g2, f2, gt, sc], error) {
			return bls.NewShortKeyScheme(fam, alg)
		})
	long := mkBLS[g2, f2, g1, f1, gt, sc, curve.Fp2, *big.Int](proto.C01BoldyrevaLong(), fam.TwistedSubGroup(), fam.SourceSubGroup(), "G1", a2.Ref, a1.Ref, a2.TryToRef, a1.TryToRef,
		func(alg bls.RogueKeyPreventionAlgorithm) (*bls.Scheme[g2, f2, g1, f1, gt, sc], error) {
			return bls.NewLongKeyScheme(fam, alg)
		})
	return []blsFlavour{short, long}
}

type blsLeaf struct {
	f    blsFlavour
	s    *structure
	a    catalog.IDAssignment
	kg   proto.C01Keygen
	mode blsMode
	msgs []int
}

func blsLeaves(structs []*structure, plan func(f string, mode string, s *structure, a catalog.IDAssignment, kg proto.C01Keygen) []int) []blsLeaf {
	var out []blsLeaf
	for _, f := range blsFlavours() {
		if o := os.Getenv("C01_FLAVOUR"); o != "" && !strings.Contains(f.name, o) {
			continue
		}
		for _, mode := range blsModes {
			for _, s := range structs {
				for _, a := range catalog.AssignmentsFor(s.e) {
					for _, kg := range []proto.C01Keygen{proto.C01Dealer, proto.C01Gennaro, proto.C01Canetti} {
						if msgs := plan(f.name, mode.name, s, a, kg); len(msgs) > 0 {
							out = append(out, blsLeaf{f, s, a, kg, mode, msgs})
						}
					}
				}
			}
		}
	}
	return out
}

func blsBody(leaves []blsLeaf) func(*engine.X) {
	leaves = capLeaves(leaves)
	return func(x *engine.X) {
		l := leaves[x.Choose("leaf", len(leaves))]
		l.f.leaf(x, l.s, l.a, l.kg, l.mode, l.msgs)
	}
}

var _ = mpc.NewBaseShard[*bls12381.PointG1, *bls12381.Scalar]
