#!/usr/bin/env python3
"""Regenerates /verif/MANIFEST.json from the table below (keeps it valid at all times)."""
import json, os, sys
V = os.path.dirname(os.path.dirname(os.path.abspath(__file__)))
BASELINE = "cd /repo && go test -json -vet=off -count=1 -timeout 25m ./..."

# id -> (engine, category, technique, level text, level note, design ref)
CHECKS = {
 "C20": ("CT", "exploration",
   "exhaustive enumeration of all matrices/right-hand sides/node sets over a boundary alphabet (choice-tree DFS), math/big reference",
   "Every matrix over {0,1,2,q-1} up to 3x3 (and non-square shapes over {0,1,q-1}) x every right-hand side, every node subset (size<=4) x coefficient vector x evaluation point, every Birkhoff (x,j) pattern n<=4, on k256 and BLS12-381 scalars, is compared with math/big Gaussian elimination / polynomial evaluation; complete inside the alphabet, nothing sampled.",
   "Trusts math/big, /verif/mc/ref/linalg, Go toolchain; purego build; operands outside the alphabets are not covered.", "DESIGN §5 C20"),
 "C11": ("SCHED", "model_checking",
   "stateless model checking of the real router under a cooperative scheduler: all thread interleavings up to a preemption bound x all arrival orders/fault placements, judged against a reference delivery log",
   "pkg/network is compiled from an automatically instrumented copy in which every mutex/channel/select/go/context operation is a scheduling point; closed scenarios (demux, namespaces, duplicates, cancellation+retry, foreign traffic, close/transport failure, lowered buffer bound) are explored for every schedule with <=2 (quick) / <=3 (thorough) preemptions and every arrival order; each ReceiveFrom outcome is judged linearizability-style against the adversarial network's own delivery log; no-enabled-thread = deadlock.",
   "Trusts the scheduler model (sync.Mutex, buffered channels, close, select, go, context.WithCancel; sequentially consistent memory), the source rewriter (rejects every construct it does not model), Go toolchain. Weak-memory effects and unsynchronised accesses are left to the free-running -race pass.", "DESIGN §3.2, §5 C11"),
 "C10": ("CT", "fault_enumeration",
   "exhaustive enumeration of quorum sizes x ID assignments x sub-quorums x zero-share groups (honest) and of every message leaf x operator x deviator (single faults) on the real round-by-round session protocol",
   "All parties of n in {2,3,4}(5) with three ID assignments run session setup twice; agreement of SessionID/transcript, symmetry and global distinctness of pairwise seeds, SubContext agreement/separation for every sub-quorum and zero-sum of PRZS shares on three groups are checked exhaustively; every CBOR leaf of every setup message is altered by every operator for every deviator: an opening that does not match its commitment must be rejected and exactly the deviator blamed, completing parties must still agree.",
   "Single altered leaf per execution; fixed deterministic random streams; leaf classification (fresh vs opening) is a reviewed table in the check; purego build.", "DESIGN §5 C10"),
 "C14": ("CT", "exploration",
   "exhaustive enumeration of all pairs/triples of a point alphabet, scalar alphabets incl. window-digit sweep, MSM tuples and field boundary alphabets against a math/big curve model",
   "For k256, p256, pallas, vesta, edwards25519 (+prime subgroup), curve25519 (+prime subgroup), BLS12-381 G1/G2: every ordered pair and triple of the exceptional-point alphabet for Add/Sub/Equal/Double/Neg, ScalarMul over boundary scalars + every 4-bit window digit, MultiScalarMul for every tuple of lengths 0..3(4) and bucket-boundary lengths, all pairs of boundary field elements for the 10 prime fields and Fp2, pairing bilinearity/non-degeneracy/MultiPair laws; oracle is the affine math/big model /verif/mc/ref/curve (constants typed in from the standards).",
   "Trusts math/big and ref/curve (self-tested against published multiples); pairing checked by its laws only (no reference pairing); operands outside the alphabets not covered; purego build.", "DESIGN §5 C14"),
 "C16": ("BFS", "model_checking",
   "explicit-state breadth-first search over all homomorphic operation sequences to depth d on the real Paillier/ElGamal objects, reference state = (plaintext, composed nonce) in math/big predicting the exact ciphertext",
   "From every initial ciphertext Enc(m;r) of the alphabet, every sequence of {Op with every fresh encryption, Op(c,c), OpInv, ScalarOp(k), Shift(m'), ReRandomise(r')} to depth 3 (4 thorough) is applied through the public-key AND the secret-key (CRT) path; in every state the ciphertext must equal (1+N)^m r^N mod N^2 byte for byte on both paths, Decrypt/Open/re-encrypt must agree with the model; keys: general/Blum/safe-prime at 256/512 (1024/2048) bits; refusals of out-of-range plaintexts, non-unit nonces, non-member and foreign ciphertexts; ElGamal same shape over k256, ed25519 subgroup, BLS G1 with exponent model checked via ref/curve.",
   "Trusts math/big and ref/paillier; fixed prime table; alphabets as stated; purego back end only.", "DESIGN §5 C16"),
 "C19": ("BFS", "model_checking",
   "complete enumeration of all transcript operation histories to depth 3 (4) over a byte-splitting alphabet with one global injectivity comparison (#outputs == #abstract histories), plus exhaustive (msg,DST) grids for hash-to-curve/field against math/big and RFC 9380 vectors",
   "Every history over {domain separators, Append with label/message splits that concatenate to the same bytes, Extract with several lengths, Clone (continue on clone / origin), constructor name} is executed on the real transcript: equal histories give equal bytes at every step, the map history -> probe output is injective over the whole explored set (decides all pairs at once), clones evolve independently, and every step equals a byte-level framing model; hash-to-curve/field: determinism, on-curve and in-subgroup by math/big, DST separation, pairwise distinctness over the grid, RFC 9380 Appendix J/K vectors through the public API.",
   "Trusts math/big reference curve/field arithmetic and the framing model (pins the wire format); histories beyond depth 3/4 and strings outside the alphabet not covered.", "DESIGN §5 C19"),
 "C04": ("SCHED+CT", "fault_enumeration",
   "exhaustive single-fault enumeration: every message slot x every CBOR node x every mutation operator x every permitted deviator, each a complete execution of the real runners over real routers on an adversarial network under the cooperative scheduler",
   "For session setup, agree-on-random, Gennaro DKG, Canetti DKG, redistribution (refresh, with and without trusted anchor) and Lindell22 signing (+ outside aggregator) at n=3 (n=2 signing quorum): the honest run is harvested once and every single deviation (bit flips, zeroing, donor values from another sender or a parallel session with the same session id, int edits, array drop/dup/swap, missing field, whole-message drop / replay / swap between recipients; broadcasts altered uniformly, unicasts per recipient) is executed; oracles: no honest party panics or hangs (worker-process death is caught too), every returned shard/signature is good, every blamed party is the deviator, and the deviation is rejected by an honest party / the addressed recipient / the aggregator unless the leaf is on the reviewed allow-list of unbound contributions (free_leaves.json).",
   "Single fault per execution; default schedule + FIFO arrival (schedules are C11); errgroup fork-joins run sequentially (one legal schedule) for reproducibility; expensive protocols (DKLs23, Lindell17, CGGMP21) not yet included; adversarially recomputed forgeries are out of reach of enumeration.", "DESIGN §3.4, §5 C04"),
 "C17": ("CT", "exploration",
   "exhaustive enumeration of all operand tuples over a boundary alphabet x announced capacities x aliasing patterns for every arithmetic operation, math/big oracle",
   "Every exported arithmetic operation of numct Nat/Int/Modulus, num N/NPlus/Z/Q/Zn, modular, crt, znstar, nt.Jacobi and cardinal is evaluated on ALL tuples of the boundary alphabet (0,1,2,3, 2^k-1/2^k/2^k+1, primes, Carmichael, prime squares/products, 2048-bit odd, negatives) x capacity shapes (exact,+1,+64,truncating) x alias patterns (out=lhs, out=rhs, lhs=rhs, all equal, reused output) and compared with math/big; modular sqrt over every residue of every prime <200 and listed composites (returned root squares back; complete for primes); Jacobi for all |a|<=60, odd n<60; prime generation postconditions for 8 bit lengths x 7 shapes x 2 seeds.",
   "Trusts math/big; operands outside the alphabet not covered; purego back end only; prime generation is checked on what it returns for 2 fixed seeds.", "DESIGN §5 C17"),
 "C18": ("CT+BFS", "fault_enumeration",
   "exhaustive enumeration of every single-bit / single-component alteration of (message, witness, key, commitment) per scheme, plus explicit-state search over homomorphic operation sequences, against from-scratch recomputation in math/big",
   "hashcom: every bit of message (up to 1 KiB, 32 KiB thorough), witness, key and commitment and every length change; Pedersen (k256, BLS G1), integer commitments, Paillier- and ElGamal-based commitments: every enumerated algebraic/bit change of each component; Open must accept exactly the untouched tuple (re-encodings of the same value are the same value; degenerate m=0/r=0 key changes are counted, not demanded); trapdoor equivocation for every message pair opens under the exported key; BFS over {Op, OpInv, ScalarOp, ReRandomise, Shift} to depth 3 (5) with model (m,w): combined commitment equals the one recomputed from scratch; transcript-extracted keys equal iff histories equal (all pairs of 20 histories).",
   "Trusts math/big reference curve/integer arithmetic and x/crypto BLAKE2b; keys for intcom/Paillier are built from harness primes (the library's samplers share a reader across goroutines); computational binding is not enumerable.", "DESIGN §5 C18"),
 "C13": ("CT", "exploration",
   "exhaustive enumeration of element alphabets x formats (round trip, injectivity) and of decoder inputs (every tag/flag combination x coordinate alphabet, byte sweeps, every length) judged by format-definition parsers over the math/big curve model",
   "For k256, p256, edwards25519 (+prime subgroup), curve25519 (+prime subgroup), pallas, vesta, BLS12-381 G1/G2/GT and all 10 prime fields + Fp2: every alphabet element (identity in two forms, generator multiples, points with x=0, small-order and out-of-subgroup points) round-trips through every format (compressed, uncompressed, Bytes, MarshalBinary, CBOR, affine, affine-x) and encoders are injective; every decoder input over {tag byte or all 8 BLS flag combinations} x coordinate alphabet (0,1,2,p-1,p,p+1,2^k-1, coordinates without partner, x=0/small-order/out-of-subgroup coordinates, unreduced aliases), first/last-byte sweeps and every length 0..2*size+1: an ACCEPTED input must denote a point on the reference curve (in the prime subgroup where the type promises it) / the field element = bytes mod q; wrong lengths, wrong flags, off-curve coordinates must be rejected; no panic.",
   "Trusts math/big, ref/curve and the format parsers written from the standards (SEC1, RFC 8032/7748, zcash pasta and BLS12-381 serialisation) and a math/big Fp12 tower for GT; uniqueness of accepted encodings is not demanded (the library reduces unreduced coordinates by design).", "DESIGN §5 C13"),
 "C02": ("CT", "exploration",
   "exhaustive enumeration of every policy of every family up to n<=5 (6) x every subset x every scheme x secret/randomness alphabet; truth table from the definition, exact rank over the real field, constructive privacy witness",
   "For every catalogue policy (all threshold (t,n), unanimity, every antichain CNF, every hierarchical layout, every gate tree with repeated leaves) x ID assignment x every subset: IsQualified == definition-level truth table; MSP acceptance == (e0 in the row span) computed by math/big Gaussian elimination on the matrix read out of the library; qualified sets reconstruct the dealt secret (both share orders, reconstruction vector re-multiplied, additive conversion sums to the secret); for unqualified sets the reference SOLVES for a dealer state with every other secret that leaves the set's shares unchanged and pushes it through the library's own dealer (the set's view is consistent with every secret); linearity under Add/ScalarMul; documented refusals are refused. Schemes: KW/MSP, Shamir, additive, ISN, Tassa, Feldman, Pedersen on k256/ed25519/BLS scalars.",
   "Trusts math/big, ref/linalg, ref/policy (self-tested against the Dedekind numbers); n > 6 and the sampling clause of the quantifier are not covered; randomness injected through a reader calibrated to field.Random's byte layout.", "DESIGN §5 C02"),
 "C03": ("CT+SCHED", "exploration",
   "exhaustive enumeration of key-generation configurations (generator x structure x group x compiler x ID assignment x API) with, inside each, every subset of shareholders judged by reference reconstruction",
   "Gennaro (3 NIZK compilers), Canetti, trusted dealer, Lindell17 dealer (+DKG thorough) over every catalogue structure n<=3 (4) on k256, 7 groups x compilers on T(2,3), all documented ID assignments, both the round-by-round API and the real runners over routers: all parties agree on pk/MSP/verification vector; share*G == published public share (ref/curve); for EVERY subset: qualified => library and math/big reconstruction give x with [x]G == pk, unqualified => refusal and e0 not in the span; ReconstructInTheExponent == pk; different seeds give different keys; CBOR store/reload gives an Equal shard that signs (Lindell22 BIP-340, verified by a reference verifier) like the original; runner and round-by-round pk byte-identical.",
   "Honest parties, default schedule, FIFO (C04/C11 own the rest); 2 seeds; Lindell17 Paillier keys are not a function of the seed so only pk and base shards are compared.", "DESIGN §5 C03"),
 "C09": ("CT", "fault_enumeration",
   "exhaustive enumeration of choice vectors (all 256 at xi=8), shapes, multiplier inputs, and of every single-field alteration of the consistency-check messages, on the real round-by-round OT / SoftSpoken / rVOLE code",
   "ecbbot and vsot with xi=8: ALL 256 choice bytes x L in {1,2,3} x {k256,p256} x 2 seeds; structured vectors at xi 16/128; SoftSpoken over both base OTs at every admissible small shape incl. (8,16) with all 256 choice bytes; rVOLE (bbot, softspoken) over all inputs {0,1,q-1,mid}^L: receiver message == sender message[choice], the two sender messages differ, outputs sum to the product (math/big); every leaf of the extension's challenge response and of the multiplier's check values (mu, eta, aTilde ...) x mutations (bit flips, zero, neighbouring / other-instance value): the other side must abort at the consistency check; constructors refuse inadmissible shapes.",
   "Single altered leaf; index alphabets for long vectors in quick (all indices in thorough); structured choice vectors above xi=8; Bob's scalar is controlled through his stream.", "DESIGN §5 C09"),
 "C07": ("SCHED+CT", "exploration",
   "exhaustive differential enumeration: protocol x party position x run kind (base streams / only party i's stream replaced / all streams identical / all replaced / failing, all-zero, short-read source) x two consecutive sessions, with counting readers on every party's caller-supplied random stream",
   "For session setup, agree-on-random, Gennaro, Canetti, HJKY, redistribution, Lindell22 (thorough: DKLs23-bbot, Lindell17, base OTs, SoftSpoken, rVOLE) every party i: replacing only i's stream changes i's first randomised message and every joint random value (signature R/s, DKG public key and shares, session id, zero shares) and leaves every other party's first message byte-identical; with identical streams every CBOR leaf of every message and every output is identical (a differing leaf = entropy the caller did not supply); every sampling party's stream is read before its first message leaves; nonce commitments / R / public keys / session ids are pairwise distinct across all runs whose streams differ and across consecutive sessions; a source that fails once at read j makes the party fail (no silent success), an all-zero source gives a refusal or a reproducible degenerate run, short reads change nothing.",
   "Default schedule/FIFO; sequential errgroup shim (so identical streams give identical messages); statistical quality of randomness is not examined; a reviewed allow-list names message leaves that are deterministic by construction.", "DESIGN §5 C07"),
 "C05": ("CT", "fault_enumeration",
   "exhaustive enumeration of VSS x structure x group x dealing kind, and inside each of every share alteration x claimed identity and every verification-vector edit x holder, verdicts predicted by a math/big model M*r",
   "Feldman and Pedersen VSS over the catalogue (n<=4, incl. non-ideal structures where a holder owns several MSP rows) on k256, BLS12-381 G1, edwards25519 subgroup, for 1..3 combined dealings and special dealer columns: the honest share of every holder under every identity, every coordinate altered (+1, -1, :=0, := every other coordinate of every holder, drop/append), and every verification-vector edit (entry +-G/+H, :=identity, swap, drop/append identity or G) x every holder; the reference reads M and r out of the library, predicts each verdict from lambda' = M*r' (a holder fails exactly when its rows have a non-zero entry in the edited column), and Verify / NewBaseShard must agree; V1*V2(*V3) verifies exactly share1+share2(+share3); ReconstructInTheExponent over every qualified subset == V[0].",
   "Trusts math/big and the Pedersen trapdoor key the harness knows; n > 4 and cancelling share+vector forgeries (need a discrete log) are outside.", "DESIGN §5 C05"),
 "C15": ("CT", "fault_enumeration",
   "exhaustive enumeration of scheme x variant x key x message x every single-component alteration of (message, signature, key), accept/reject compared with independent verifiers (crypto/ecdsa, math/big ECDSA/BIP-340/Schnorr, BLS by definition)",
   "ECDSA (k256, p256; 6 suites), BIP-340 (+batch), configurable Schnorr on 4 curves x hashes x encodings, Mina, BLS (both key groups x basic / message augmentation / proof of possession) x 3 keys (incl. sk=1, q-1) x 5 messages x every bit of r, s / of the encoded signature, s -> n-s with v flipped/kept/omitted, v alterations, key -> -pk, 2pk, foreign, identity, out-of-subgroup, message flips/append/truncate, PoP alterations: the default and strict verdicts must equal the independent verifier's (incl. the documented equivalent ECDSA form), RecoverPublicKey returns the signing key, Normalise preserves validity; BLS aggregation over signer sets 1..4 x 16 contributor faults (missing, foreign, identity, out-of-subgroup, duplicate, rogue key, PoP missing/foreign/swapped ...) judged by sigma == sum [sk_i] H(m_i); published BIP-340 and BLS vectors replayed through the public API.",
   "Trusts crypto/ecdsa, math/big, ref/curve, ref/sig; H(m) for BLS and Mina's Poseidon challenge come from the library (C19/C14); no alteration combines two components beyond the documented forms.", "DESIGN §5 C15"),
}
NOT_YET = {}
for i in range(1, 21):
    pid = "C%02d" % i
    if pid not in CHECKS:
        NOT_YET[pid] = "check not built yet in this session (design in DESIGN.md §5 %s); will be claimed once its check exists and passes on the unchanged tree" % pid

m = {
 "version": 1,
 "setup_cmd": "./check --build-all",
 "hooks": {
   "guard": "verif",
   "enable": "go test -tags purego,verif [-overlay <generated from the current /repo tree>] (no hook is committed to /repo: instrumentation is generated into a build overlay at check time, see DESIGN §2.2)",
   "baseline_off_cmd": BASELINE,
   "source_commits": [],
   "add_only": True,
 },
 "engines": [
   {"name": "CT", "path": "mc/engine/ct.go", "serves_properties": sorted(k for k, v in CHECKS.items() if "CT" in v[0]), "kind_free_text": "stateless exhaustive DFS over Choose points of a check body that calls the real library; deviation bounded; parallel over subtrees"},
   {"name": "SCHED", "path": "mc/mcrt/mcrt.go + mc/instrument/main.go", "serves_properties": sorted(k for k, v in CHECKS.items() if "SCHED" in v[0]), "kind_free_text": "cooperative scheduler runtime + go/ast source rewriter that routes every synchronisation operation of pkg/network through it (mounted by build overlay); explored by CT with iterative preemption bounding, sharded over worker processes"},
   {"name": "BFS", "path": "mc/engine/bfs.go", "serves_properties": sorted(k for k, v in CHECKS.items() if "BFS" in v[0]), "kind_free_text": "explicit-state breadth-first search; successor = replay history on fresh real objects + one operation"},
 ],
 "checks": [],
 "not_applicable": [{"property_id": k, "reason": v} for k, v in sorted(NOT_YET.items())],
 "notes": "All checks are `./check <ID> <tier>`; they rebuild from /repo's working tree with -tags purego,verif. known_findings.json lists recorded defects; replays/ holds violation replay files (./check <ID> --replay <file>).",
}
for pid, (eng, cat, tech, text, note, ref) in sorted(CHECKS.items()):
    m["checks"].append({
      "property_id": pid,
      "quick_cmd": "./check %s quick" % pid,
      "thorough_cmd": "./check %s thorough" % pid,
      "evidence_file": "/verif/evidence/%s.json" % pid,
      "replay_cmd_template": "./check %s --replay {path}" % pid,
      "engine": eng,
      "level_claimed": {"category": cat, "text": text, "design_ref": ref},
      "level_note": note,
      "technique": tech,
    })
json.dump(m, open(os.path.join(V, "MANIFEST.json"), "w"), indent=1)
print("MANIFEST.json written:", len(m["checks"]), "checks,", len(m["not_applicable"]), "not_applicable")
