package c19

// expand_message (RFC 9380 §5.3) through the public constructors of pkg/base/curves/impl/rfc9380:
// XMD with SHA-256 / SHA-512 / BLAKE2b-512 and XOF with SHAKE128 / SHAKE256.
//
// Space: expander x message grid (the h2c message set) x DST in {"a", 255 bytes, 256 bytes (oversize),
// "QUUX-V01-CS02-with-expander"} x len_in_bytes in {1, 32, 48, 96, 128, 256}.
// Oracle: equal to the re-implementation from the RFC text (ref_test.go), deterministic, and for outputs of >= 32
// bytes pairwise distinct over (message, DST, length) per expander; RFC 9380 Appendix K vectors.

import (
	"bytes"
	"crypto/sha256"
	"crypto/sha3"
	"crypto/sha512"
	"encoding/hex"
	"encoding/json"
	"fmt"
	"os"
	"path/filepath"
	"sort"
	"strings"
	"sync"
	"time"

	h2c "github.com/bronlabs/bron-crypto/pkg/base/curves/impl/rfc9380"

	"verifmc/engine"
)

// refExpandXOF: RFC 9380 §5.3.2 (and §5.3.3 for an oversize DST).
func refExpandXOF(newX func() *sha3.SHAKE, k int, msg, dst []byte, n int) []byte {
	if len(dst) > 255 {
		h := newX()
		_, _ = h.Write([]byte("H2C-OVERSIZE-DST-"))
		_, _ = h.Write(dst)
		dst = make([]byte, (2*k+7)/8)
		_, _ = h.Read(dst)
	}
	if n > 65535 {
		panic("reference xof: length out of range")
	}
	h := newX()
	_, _ = h.Write(msg)
	_, _ = h.Write([]byte{byte(n >> 8), byte(n)})
	_, _ = h.Write(dst)
	_, _ = h.Write([]byte{byte(len(dst))})
	out := make([]byte, n)
	_, _ = h.Read(out)
	return out
}

type expander struct {
	name string
	// a fresh library expander per call: the XOF expander keeps one shared hash state and is not safe for concurrent use
	lib func() h2c.MessageExpander
	ref func(msg, dst []byte, n int) []byte
}

var expanders = []*expander{
	{"xmd/sha256", func() h2c.MessageExpander { return h2c.NewXMDMessageExpander(sha256.New) }, func(m, d []byte, n int) []byte { return refExpandXMD(sha256.New, m, d, n) }},
	{"xmd/sha512", func() h2c.MessageExpander { return h2c.NewXMDMessageExpander(sha512.New) }, func(m, d []byte, n int) []byte { return refExpandXMD(sha512.New, m, d, n) }},
	{"xmd/blake2b", func() h2c.MessageExpander { return h2c.NewXMDMessageExpander(newBlake2b) }, func(m, d []byte, n int) []byte { return refExpandXMD(newBlake2b, m, d, n) }},
	{"xof/shake128", func() h2c.MessageExpander { return h2c.NewXOFMessageExpander(sha3.NewSHAKE128(), 128) }, func(m, d []byte, n int) []byte { return refExpandXOF(sha3.NewSHAKE128, 128, m, d, n) }},
	{"xof/shake256", func() h2c.MessageExpander { return h2c.NewXOFMessageExpander(sha3.NewSHAKE256(), 256) }, func(m, d []byte, n int) []byte { return refExpandXOF(sha3.NewSHAKE256, 256, m, d, n) }},
}

var (
	expDsts = []string{"a", strings.Repeat("d", 255), strings.Repeat("d", 256), "QUUX-V01-CS02-with-expander"}
	expLens = []int{1, 32, 48, 96, 128, 256}
	expSets = func() []*gridSet {
		s := make([]*gridSet, len(expanders))
		for i := range s {
			s[i] = &gridSet{m: map[string]string{}}
		}
		return s
	}()
)

func expanderEval(x *engine.X, ei, mi int) {
	e := expanders[ei]
	msg := gridMsgs()[mi]
	for di, dst := range expDsts {
		for _, n := range expLens {
			who := fmt.Sprintf("%s msg(%s) dst#%d(len %d) len_in_bytes=%d", e.name, msgName(msg), di, len(dst), n)
			x.Case(fmt.Sprintf("%s/%d/%d/%d", e.name, mi, di, n))
			got := e.lib().ExpandMessage([]byte(dst), msg, uint(n))
			again := e.lib().ExpandMessage([]byte(dst), msg, uint(n))
			if !bytes.Equal(got, again) {
				x.Failf("expander/"+e.name+"/determinism", "%s: two calls give %x and %x", who, got, again)
			}
			if want := e.ref(msg, []byte(dst), n); !bytes.Equal(got, want) {
				x.Failf("expander/"+e.name+"/value", "%s: ExpandMessage = %x, RFC 9380 expand_message = %x", who, got, want)
			}
			if n >= 32 && len(got) >= 32 {
				expSets[ei].put(string(got[:32]), who)
			}
		}
	}
	x.Observe(fmt.Sprintf("%s msg#%d", e.name, mi))
}

func expanderBody(x *engine.X) {
	ei := x.Choose("expander", len(expanders))
	mi := x.Choose("msg", len(gridMsgs()))
	expanderEval(x, ei, mi)
}

func expanderDistinctBody(x *engine.X) {
	ei := x.Choose("expander", len(expanders))
	e, g := expanders[ei], expSets[ei]
	g.once.Do(func() {
		if g.done {
			return
		}
		sx := &engine.X{}
		for mi := range gridMsgs() {
			expanderEval(sx, ei, mi)
		}
	})
	g.mu.Lock()
	defer g.mu.Unlock()
	x.Case(e.name)
	sort.Strings(g.dups)
	for _, d := range g.dups {
		x.Failf("expander/"+e.name+"/distinct", "two different (message, DST, length) inputs expand to the same first 32 bytes: %s", d)
	}
	x.Observe(fmt.Sprintf("%s: %d distinct outputs from %d inputs", e.name, len(g.m), g.n))
}

// ---- RFC 9380 Appendix K vectors -------------------------------------------------------------------------

type expKatFile struct {
	Dst   string `json:"dst"`
	K     uint   `json:"k"`
	Cases []struct {
		Msg          string `json:"msg"`
		LenInBytes   uint   `json:"len_in_bytes"`
		UniformBytes string `json:"uniform_bytes"`
	} `json:"cases"`
	file string
	lib  func() h2c.MessageExpander
}

var (
	expKatOnce  sync.Once
	expKatFiles []*expKatFile
	expKatErr   error
)

func loadExpKats() ([]*expKatFile, error) {
	expKatOnce.Do(func() {
		names, err := filepath.Glob(filepath.Join(katDir(), "expander", "*.json"))
		if err != nil || len(names) == 0 {
			expKatErr = fmt.Errorf("no expander vector files in %s (%v)", filepath.Join(katDir(), "expander"), err)
			return
		}
		sort.Strings(names)
		for _, n := range names {
			b, err := os.ReadFile(n)
			if err != nil {
				expKatErr = err
				return
			}
			kf := &expKatFile{file: filepath.Base(n)}
			if err := json.Unmarshal(b, kf); err != nil {
				expKatErr = fmt.Errorf("%s: %w", n, err)
				return
			}
			k := kf.K
			switch {
			case strings.HasPrefix(kf.file, "xmd_sha256"):
				kf.lib = func() h2c.MessageExpander { return h2c.NewXMDMessageExpander(sha256.New) }
			case strings.HasPrefix(kf.file, "xmd_sha512"):
				kf.lib = func() h2c.MessageExpander { return h2c.NewXMDMessageExpander(sha512.New) }
			case strings.HasPrefix(kf.file, "xof_shake128"):
				kf.lib = func() h2c.MessageExpander { return h2c.NewXOFMessageExpander(sha3.NewSHAKE128(), k) }
			case strings.HasPrefix(kf.file, "xof_shake256"):
				kf.lib = func() h2c.MessageExpander { return h2c.NewXOFMessageExpander(sha3.NewSHAKE256(), k) }
			default:
				expKatErr = fmt.Errorf("%s: unknown expander", n)
				return
			}
			expKatFiles = append(expKatFiles, kf)
		}
	})
	return expKatFiles, expKatErr
}

func expanderKatBody(x *engine.X) {
	ks, err := loadExpKats()
	if err != nil {
		engine.HarnessFail("expander vectors: %v", err)
		return
	}
	k := ks[x.Choose("file", len(ks))]
	c := k.Cases[x.Choose("case", len(k.Cases))]
	want, err := hex.DecodeString(c.UniformBytes)
	if err != nil {
		engine.HarnessFail("%s: %v", k.file, err)
		return
	}
	x.Case(fmt.Sprintf("%s/%s/%d", k.file, c.Msg, c.LenInBytes))
	got := k.lib().ExpandMessage([]byte(k.Dst), []byte(c.Msg), c.LenInBytes)
	if !bytes.Equal(got, want) {
		x.Failf("expander/kat/"+strings.TrimSuffix(k.file, ".json"), "%s: ExpandMessage(dst(len %d), msg(%s), %d) = %x, published %x", k.file, len(k.Dst), msgName([]byte(c.Msg)), c.LenInBytes, got, want)
	}
	x.Observe(fmt.Sprintf("%s msg(%s) %d -> %.8x", k.file, msgName([]byte(c.Msg)), c.LenInBytes, got))
}

func expanderSections() {
	if sec := engine.Explore(expanderBody, engine.Opts{Name: "expander/grid", Budget: engine.Budget(2*time.Minute, 10*time.Minute)}); !sec.Skipped {
		for _, g := range expSets {
			g.done = true
		}
	}
	engine.Explore(expanderDistinctBody, engine.Opts{Name: "expander/distinct"})
	engine.Explore(expanderKatBody, engine.Opts{Name: "expander/kat"})
}

