package c15

import (
	"crypto"
	stdecdsa "crypto/ecdsa"
	"crypto/elliptic"
	"crypto/sha256"
	"crypto/sha512"
	"fmt"
	"hash"
	"math/big"
	"strings"
	"sync"

	"golang.org/x/crypto/blake2b"

	"github.com/bronlabs/bron-crypto/pkg/base/algebra"
	"github.com/bronlabs/bron-crypto/pkg/base/curves"
	"github.com/bronlabs/bron-crypto/pkg/base/curves/k256"
	"github.com/bronlabs/bron-crypto/pkg/base/curves/p256"
	"github.com/bronlabs/bron-crypto/pkg/signatures/ecdsa"

	"verifmc/det"
	"verifmc/engine"
	"verifmc/ref/conv"
	"verifmc/ref/curve"
	"verifmc/ref/curve/libcurve"
	"verifmc/ref/sig"
)

func newBlake2b256() hash.Hash {
	h, err := blake2b.New256(nil)
	if err != nil {
		panic(err)
	}
	return h
}

type ecSuite struct {
	name    string
	hashNew func() hash.Hash
	id      crypto.Hash
	det     bool
}

var ecSuites = []ecSuite{
	{"rand/sha256", sha256.New, crypto.SHA256, false},
	{"rand/sha512", sha512.New, crypto.SHA512, false},
	{"rand/blake2b256", newBlake2b256, crypto.BLAKE2b_256, false},
	{"det/sha256", sha256.New, crypto.SHA256, true},
	{"det/sha512", sha512.New, crypto.SHA512, true},
	{"det/blake2b256", newBlake2b256, crypto.BLAKE2b_256, true},
}

type ecCtx[P curves.Point[P, B, S], B algebra.PrimeFieldElement[B], S algebra.PrimeFieldElement[S]] struct {
	name  string
	curve ecdsa.Curve[P, B, S]
	sf    algebra.PrimeField[S]
	ref   *curve.FpCurve
	toRef func(P) (curve.FpPoint, error)
	toLib func(curve.FpPoint) (P, error)
	std   elliptic.Curve // non-nil: crypto/ecdsa is the (r,s) oracle
	tal   *tally
	cache sync.Map // base signatures: produced once per process (randomised ECDSA is not reproducible across calls)
}

type ecBase struct {
	once    sync.Once
	signErr error
	d       *big.Int
	r, s    *big.Int
	v       int
	hasV    bool
}

func (c *ecCtx[P, B, S]) suite(su ecSuite) *ecdsa.Suite[P, B, S] {
	var s *ecdsa.Suite[P, B, S]
	var err error
	if su.det {
		s, err = ecdsa.NewDeterministicSuite(c.curve, su.id)
	} else {
		s, err = ecdsa.NewSuite(c.curve, su.hashNew)
	}
	if err != nil {
		panic(engine.HarnessError{Msg: "ecdsa suite: " + err.Error()})
	}
	return s
}

func (c *ecCtx[P, B, S]) keyPair(d *big.Int) (*ecdsa.PrivateKey[P, B, S], *ecdsa.PublicKey[P, B, S]) {
	skv := conv.FromBig(c.sf, c.ref.Q, d)
	pk, err := ecdsa.NewPublicKey(c.curve.ScalarBaseMul(skv))
	if err != nil {
		panic(engine.HarnessError{Msg: "ecdsa public key: " + err.Error()})
	}
	sk, err := ecdsa.NewPrivateKey(skv, pk)
	if err != nil {
		panic(engine.HarnessError{Msg: "ecdsa private key: " + err.Error()})
	}
	return sk, pk
}

func (c *ecCtx[P, B, S]) base(su ecSuite, ki, mi int) *ecBase {
	key := fmt.Sprintf("%s/%d/%d", su.name, ki, mi)
	e, _ := c.cache.LoadOrStore(key, &ecBase{})
	b := e.(*ecBase)
	b.once.Do(func() {
		b.d = secretKey(c.ref.Q, ki)
		sk, _ := c.keyPair(b.d)
		var prng *det.Stream
		suite := c.suite(su)
		var signer *ecdsa.Signer[P, B, S]
		var err error
		if su.det {
			signer, err = ecdsa.NewSigner(suite, sk, nil)
		} else {
			prng = det.New(engine.Seed(), "c15-ecdsa-"+c.name+"-"+key)
			signer, err = ecdsa.NewSigner(suite, sk, prng)
		}
		if err != nil {
			b.signErr = err
			return
		}
		sg, err := signer.Sign(message(mi))
		if err != nil {
			b.signErr = err
			return
		}
		b.r, b.s = conv.ToBig(sg.R()), conv.ToBig(sg.S())
		if sg.V() != nil {
			b.v, b.hasV = *sg.V(), true
		}
	})
	return b
}

type ecAlt struct {
	label string
	r, s  *big.Int
	v     *int
	pk    int // 0 same, 1 -pk, 2 2pk, 3 foreign, 4 identity
	msg   []byte
}

func ip(v int) *int { return &v }

func (c *ecCtx[P, B, S]) alterations(b *ecBase, msg []byte, fullBits bool) []ecAlt {
	n := c.ref.Q
	v := ip(b.v)
	var out []ecAlt
	add := func(label string, r, s *big.Int, v *int, pk int, m []byte) {
		out = append(out, ecAlt{label, r, s, v, pk, m})
	}
	add("none", b.r, b.s, v, 0, msg)
	for _, i := range bitSet(256, fullBits) {
		bit := new(big.Int).Lsh(big.NewInt(1), uint(i))
		r2 := new(big.Int).Xor(b.r, bit)
		add(fmt.Sprintf("r/bit%d", i), r2.Mod(r2, n), b.s, v, 0, msg)
		s2 := new(big.Int).Xor(b.s, bit)
		add(fmt.Sprintf("s/bit%d", i), b.r, s2.Mod(s2, n), v, 0, msg)
	}
	ns := sig.NegS(c.ref, b.s)
	add("neg-s/v-flipped", b.r, ns, ip(b.v^1), 0, msg) // the documented equivalent form
	add("neg-s/v-kept", b.r, ns, v, 0, msg)
	add("neg-s/v-omitted", b.r, ns, nil, 0, msg) // documented: accepted by the default verifier
	add("v/omitted", b.r, b.s, nil, 0, msg)      // documented: accepted by the default verifier
	add("v/flipped", b.r, b.s, ip(b.v^1), 0, msg)
	add("v/xor2", b.r, b.s, ip(b.v^2), 0, msg)
	add("v/xor3", b.r, b.s, ip(b.v^3), 0, msg)
	add("v/range4", b.r, b.s, ip(4), 0, msg)
	add("v/negative", b.r, b.s, ip(-1), 0, msg)
	add("rs/swapped", b.s, b.r, v, 0, msg)
	add("rs/swapped-v-omitted", b.s, b.r, nil, 0, msg)
	add("r/zero", big.NewInt(0), b.s, v, 0, msg)
	add("s/zero", b.r, big.NewInt(0), v, 0, msg)
	add("key/neg", b.r, b.s, v, 1, msg)
	add("key/neg-v-omitted", b.r, b.s, nil, 1, msg)
	add("key/double", b.r, b.s, v, 2, msg)
	add("key/foreign", b.r, b.s, v, 3, msg)
	add("key/foreign-v-omitted", b.r, b.s, nil, 3, msg)
	add("key/identity", b.r, b.s, v, 4, msg)
	for _, ma := range messageAlterations(msg, 0, engine.Thorough()) {
		add(ma.label, b.r, b.s, v, 0, ma.msg)
		if engine.Thorough() || ma.label == "msg/truncate" || ma.label == "msg/flip[0].0" || strings.HasPrefix(ma.label, "msg/append") {
			add(ma.label+"+v-omitted", b.r, b.s, nil, 0, ma.msg)
		}
	}
	return out
}

// refPk returns the altered public key in the reference model.
func (c *ecCtx[P, B, S]) refPk(d *big.Int, kind int) curve.FpPoint {
	pk := c.ref.ScalarBaseMul(d)
	switch kind {
	case 1:
		return c.ref.Neg(pk)
	case 2:
		return c.ref.Double(pk)
	case 3:
		return c.ref.ScalarBaseMul(secretKey(c.ref.Q, 3))
	case 4:
		return c.ref.Identity()
	}
	return pk
}

// oracle is the independent verdict (default verifier, strict verifier).
func (c *ecCtx[P, B, S]) oracle(su ecSuite, pk curve.FpPoint, a ecAlt, cross bool) (def, strict bool) {
	h := su.hashNew()
	h.Write(a.msg)
	digest := h.Sum(nil)
	n := c.ref.Q
	inRange := a.r.Sign() > 0 && a.r.Cmp(n) < 0 && a.s.Sign() > 0 && a.s.Cmp(n) < 0
	ok := false
	if !pk.Inf && inRange {
		if c.std != nil {
			ok = stdecdsa.Verify(&stdecdsa.PublicKey{Curve: c.std, X: pk.X, Y: pk.Y}, digest, a.r, a.s)
			if cross {
				if r2 := sig.ECDSAVerify(c.ref, pk, digest, a.r, a.s); r2 != ok {
					engine.HarnessFail("oracles disagree on %s %s: crypto/ecdsa=%v ref/sig=%v (r=%x s=%x)", c.name, a.label, ok, r2, a.r, a.s)
				}
			}
		} else {
			ok = sig.ECDSAVerify(c.ref, pk, digest, a.r, a.s)
		}
	}
	if ok && a.v != nil {
		Q, rok := sig.ECDSARecover(c.ref, digest, a.r, a.s, *a.v)
		ok = rok && c.ref.Equal(Q, pk)
	}
	return ok, ok && sig.IsLowS(c.ref, a.s)
}

func (c *ecCtx[P, B, S]) body(suites []ecSuite, fullFor func(su ecSuite, mi int) bool) func(*engine.X) {
	return func(x *engine.X) {
		su := engine.Pick(x, "suite", suites)
		ki := x.Choose("key", 3)
		mi := x.Choose("msg", len(msgNames))
		full := engine.Thorough() || fullFor(su, mi)
		nChunks := 2
		if full {
			nChunks = 8
		}
		chunk := x.Choose("chunk", nChunks)
		b := c.base(su, ki, mi)
		id := fmt.Sprintf("%s/%s/%s/%s", c.name, su.name, keyNames[ki], msgNames[mi])
		if b.signErr != nil {
			// RFC 6979 signing is delegated to crypto/ecdsa, which supports the NIST curves only: a deterministic suite over
			// secp256k1 constructs but its signer refuses every message ("where supported" in the property). Nothing to verify.
			x.Trivial()
			x.Observe("sign-refused", errStr(b.signErr))
			c.tal.add("sign-refused:"+su.name, vRefuse)
			if !(su.det && c.std == nil) {
				x.Failf("ecdsa/"+c.name+"/sign-refused", "%s: Sign failed: %v", id, b.signErr)
			}
			return
		}
		if !b.hasV {
			x.Failf("ecdsa/"+c.name+"/no-recovery-id", "%s: Sign returned a signature without recovery id", id)
			return
		}
		msg := message(mi)
		suite := c.suite(su)
		_, pk := c.keyPair(b.d)
		vDef, err := ecdsa.NewVerifier(suite)
		if err != nil {
			panic(engine.HarnessError{Msg: err.Error()})
		}
		sch, err := ecdsa.NewScheme(suite, det.New(engine.Seed(), "unused"))
		if err != nil {
			panic(engine.HarnessError{Msg: err.Error()})
		}
		vStrict, err := sch.Verifier(ecdsa.VerifyNonMalleably[P, B, S])
		if err != nil {
			panic(engine.HarnessError{Msg: err.Error()})
		}
		highS := !sig.IsLowS(c.ref, b.s)

		if chunk == 0 {
			c.positive(x, id, su, suite, b, pk, msg, vDef, vStrict)
		}

		var nAcc, nRej, nStrictAcc int
		for idx, a := range c.alterations(b, msg, full) {
			if idx%nChunks != chunk {
				continue
			}
			x.Case(id + "/" + a.label)
			refPk := c.refPk(b.d, a.pk)
			// build the library objects for the altered triple
			var libPk *ecdsa.PublicKey[P, B, S]
			refused := ""
			if a.pk == 0 {
				libPk = pk
			} else {
				p, err := c.toLib(refPk)
				if err != nil {
					panic(engine.HarnessError{Msg: "toLib: " + err.Error()})
				}
				libPk, err = ecdsa.NewPublicKey(p)
				if err != nil {
					refused = "NewPublicKey: " + errStr(err)
				}
			}
			var libSig *ecdsa.Signature[S]
			if refused == "" {
				var err error
				libSig, err = ecdsa.NewSignature(conv.FromBig(c.sf, c.ref.Q, a.r), conv.FromBig(c.sf, c.ref.Q, a.s), a.v)
				if err != nil {
					refused = "NewSignature: " + errStr(err)
				}
			}
			libDef, libStrict := false, false
			var e1, e2 error
			if refused == "" {
				e1 = vDef.Verify(libSig, libPk, a.msg)
				e2 = vStrict.Verify(libSig, libPk, a.msg)
				libDef, libStrict = e1 == nil, e2 == nil
				c.tal.add(class(a.label)+"/default", verdictOf(e1))
				c.tal.add(class(a.label)+"/strict", verdictOf(e2))
			} else {
				c.tal.add(class(a.label), vRefuse)
			}
			cross := class(a.label) != "r/bit" && class(a.label) != "s/bit"
			wantDef, wantStrict := c.oracle(su, refPk, a, cross)
			if libDef != wantDef {
				x.Failf("ecdsa/"+c.name+"/default/"+class(a.label), "%s alteration %s: default verifier accept=%v (err=%s %s) but independent verdict accept=%v; r=%x s=%x v=%v highS=%v msg=%x", id, a.label, libDef, errStr(e1), refused, wantDef, a.r, a.s, vstr(a.v), highS, trunc(a.msg))
			}
			if libStrict != wantStrict {
				x.Failf("ecdsa/"+c.name+"/strict/"+class(a.label), "%s alteration %s: strict verifier accept=%v (err=%s %s) but independent verdict accept=%v (s low=%v); r=%x s=%x v=%v msg=%x", id, a.label, libStrict, errStr(e2), refused, wantStrict, sig.IsLowS(c.ref, a.s), a.r, a.s, vstr(a.v), trunc(a.msg))
			}
			if libDef {
				nAcc++
			} else {
				nRej++
			}
			if libStrict {
				nStrictAcc++
			}
		}
		x.Observe(c.name, su.name, ki, mi, chunk, "highS", highS, "acc", nAcc, "rej", nRej, "strictAcc", nStrictAcc)
	}
}

func vstr(v *int) string {
	if v == nil {
		return "nil"
	}
	return fmt.Sprint(*v)
}

func trunc(b []byte) []byte {
	if len(b) > 40 {
		return b[:40]
	}
	return b
}

// positive: the unaltered signature, public-key recovery and normalisation.
func (c *ecCtx[P, B, S]) positive(x *engine.X, id string, su ecSuite, suite *ecdsa.Suite[P, B, S], b *ecBase, pk *ecdsa.PublicKey[P, B, S], msg []byte,
	vDef, vStrict *ecdsa.Verifier[P, B, S]) {
	q := c.ref.Q
	pkRef := c.ref.ScalarBaseMul(b.d)
	mk := func(r, s *big.Int, v *int) *ecdsa.Signature[S] {
		sg, err := ecdsa.NewSignature(conv.FromBig(c.sf, q, r), conv.FromBig(c.sf, q, s), v)
		if err != nil {
			panic(engine.HarnessError{Msg: "NewSignature on signer output: " + err.Error()})
		}
		return sg
	}
	h := su.hashNew()
	h.Write(msg)
	digest := h.Sum(nil)

	// RecoverPublicKey returns the signing key, for the signature as produced and for its equivalent form
	for _, f := range []struct {
		label string
		s     *big.Int
		v     int
	}{{"as-signed", b.s, b.v}, {"neg-s/v-flipped", sig.NegS(c.ref, b.s), b.v ^ 1}} {
		x.Case(id + "/recover/" + f.label)
		rec, err := ecdsa.RecoverPublicKey(suite, mk(b.r, f.s, ip(f.v)), msg)
		if err != nil {
			x.Failf("ecdsa/"+c.name+"/recover/error", "%s: RecoverPublicKey(%s) failed: %v (r=%x s=%x v=%d)", id, f.label, err, b.r, f.s, f.v)
			continue
		}
		got, err := c.toRef(rec.Value())
		if err != nil || !c.ref.Equal(got, pkRef) || !rec.Equal(pk) {
			x.Failf("ecdsa/"+c.name+"/recover/wrong-key", "%s: RecoverPublicKey(%s) returned %s, signing key is %s", id, f.label, c.ref.Key(got), c.ref.Key(pkRef))
		}
		want, ok := sig.ECDSARecover(c.ref, digest, b.r, f.s, f.v)
		if !ok || !c.ref.Equal(want, pkRef) {
			x.Failf("ecdsa/"+c.name+"/recover/id", "%s: the reference recovery with the library's recovery id %d (%s) does not return the signing key", id, f.v, f.label)
		}
	}
	// without a recovery id the function documents an error
	x.Case(id + "/recover/no-v")
	if _, err := ecdsa.RecoverPublicKey(suite, mk(b.r, b.s, nil), msg); err == nil {
		x.Failf("ecdsa/"+c.name+"/recover/no-v", "%s: RecoverPublicKey succeeded without a recovery id", id)
	}
	// Normalise: low-S afterwards, still valid for both verifiers, and equal to the equivalent form
	for _, f := range []struct {
		label string
		s     *big.Int
		v     *int
	}{{"as-signed", b.s, ip(b.v)}, {"neg-s", sig.NegS(c.ref, b.s), ip(b.v ^ 1)}, {"as-signed/no-v", b.s, nil}} {
		x.Case(id + "/normalise/" + f.label)
		sg := mk(b.r, f.s, f.v)
		// a second signature object assembled from the first one's accessor outputs, and a clone: what is done to them
		// must not reach the object they came from
		orig := mk(b.r, f.s, f.v)
		twin, terr := ecdsa.NewSignature(orig.R(), orig.S(), orig.V())
		if terr != nil {
			panic(engine.HarnessError{Msg: "NewSignature(sig.R(), sig.S(), sig.V()): " + terr.Error()})
		}
		twin.Normalise()
		orig.Clone().Normalise()
		if conv.ToBig(orig.S()).Cmp(f.s) != 0 || conv.ToBig(orig.R()).Cmp(b.r) != 0 || (orig.V() == nil) != (f.v == nil) || (f.v != nil && *orig.V() != *f.v) {
			x.Failf("ecdsa/"+c.name+"/normalise/aliases", "%s: normalising a signature built from sig.R(), sig.S(), sig.V() (or a clone) changed the original (%s): s=%x v=%s, was s=%x v=%s", id, f.label, conv.ToBig(orig.S()), vstr(orig.V()), f.s, vstr(f.v))
		} else if f.v != nil {
			if e := vDef.Verify(orig, pk, msg); e != nil {
				x.Failf("ecdsa/"+c.name+"/normalise/aliases", "%s: after normalising a copy, the untouched original (%s) is rejected: %v", id, f.label, e)
			}
		}
		wasLow := sig.IsLowS(c.ref, f.s)
		if sg.IsNormalized() != wasLow {
			x.Failf("ecdsa/"+c.name+"/normalise/predicate", "%s: IsNormalized=%v but s<=n/2 is %v (s=%x)", id, sg.IsNormalized(), wasLow, f.s)
		}
		sg.Normalise()
		ns := conv.ToBig(sg.S())
		wantS := f.s
		if !wasLow {
			wantS = sig.NegS(c.ref, f.s)
		}
		if ns.Cmp(wantS) != 0 || conv.ToBig(sg.R()).Cmp(b.r) != 0 || !sg.IsNormalized() {
			x.Failf("ecdsa/"+c.name+"/normalise/value", "%s: Normalise(%s) gave s=%x, want %x", id, f.label, ns, wantS)
			continue
		}
		if (sg.V() == nil) != (f.v == nil) {
			x.Failf("ecdsa/"+c.name+"/normalise/v", "%s: Normalise(%s) changed the presence of v", id, f.label)
			continue
		}
		if e := vDef.Verify(sg, pk, msg); e != nil {
			x.Failf("ecdsa/"+c.name+"/normalise/default-rejects", "%s: normalised signature (%s) rejected by the default verifier: %v", id, f.label, e)
		}
		if e := vStrict.Verify(sg, pk, msg); e != nil {
			x.Failf("ecdsa/"+c.name+"/normalise/strict-rejects", "%s: normalised signature (%s) rejected by the strict verifier: %v", id, f.label, e)
		}
		if !sig.ECDSAVerifyStrict(c.ref, pkRef, digest, conv.ToBig(sg.R()), ns, sg.V()) {
			x.Failf("ecdsa/"+c.name+"/normalise/invalid", "%s: normalised signature (%s) is not valid for the reference strict verifier (v=%s)", id, f.label, vstr(sg.V()))
		}
	}
}

func runECDSA() {
	fullFor := func(su ecSuite, mi int) bool { return su.name == "rand/sha256" && mi == 1 }
	ak := libcurve.K256()
	kc := &ecCtx[*k256.Point, *k256.BaseFieldElement, *k256.Scalar]{
		name: "k256", curve: k256.NewCurve(), sf: k256.NewScalarField(), ref: ak.Ref, toRef: ak.TryToRef, toLib: ak.TryToLib, tal: newTally(),
	}
	ap := libcurve.P256()
	pc := &ecCtx[*p256.Point, *p256.BaseFieldElement, *p256.Scalar]{
		name: "p256", curve: p256.NewCurve(), sf: p256.NewScalarField(), ref: ap.Ref, toRef: ap.TryToRef, toLib: ap.TryToLib, std: elliptic.P256(), tal: newTally(),
	}
	s1 := engine.Explore(kc.body(ecSuites, fullFor), engine.Opts{Name: "ecdsa/k256", Budget: budget(4, 30)})
	kc.tal.note(s1)
	s2 := engine.Explore(pc.body(ecSuites, fullFor), engine.Opts{Name: "ecdsa/p256", Budget: budget(3, 20)})
	pc.tal.note(s2)
}
