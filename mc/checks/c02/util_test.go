package c02

import (
	"crypto/sha256"
	"encoding/binary"
	"fmt"
	"io"
	"math/big"
	"slices"
	"sort"
	"strings"

	"github.com/bronlabs/bron-crypto/pkg/base/algebra"
	"github.com/bronlabs/bron-crypto/pkg/base/mat"
	"github.com/bronlabs/bron-crypto/pkg/mpc/sharing"
	"github.com/bronlabs/bron-crypto/pkg/mpc/sharing/scheme/kw/msp"

	"verifmc/catalog"
	"verifmc/engine"
	"verifmc/ref/conv"
	"verifmc/ref/linalg"
	"verifmc/ref/policy"
)

// fctx is one scalar field: the library structure, the order typed in from the standard, and the calibrated
// shape of field.Random (how many bytes one sample reads, and their endianness) which lets the harness hand the
// library's samplers chosen "random" elements.
type fctx[F algebra.PrimeFieldElement[F]] struct {
	name  string
	field algebra.PrimeField[F]
	q     *big.Int
	wide  int
	le    bool
}

type countReader struct{ n int }

func (c *countReader) Read(p []byte) (int, error) {
	for i := range p {
		p[i] = 0
	}
	c.n += len(p)
	return len(p), nil
}

func newFctx[F algebra.PrimeFieldElement[F]](name string, field algebra.PrimeField[F], q *big.Int) fctx[F] {
	c := fctx[F]{name: name, field: field, q: q}
	cr := &countReader{}
	if _, err := field.Random(cr); err != nil {
		panic(engine.HarnessError{Msg: "field.Random failed during calibration: " + err.Error()})
	}
	c.wide = cr.n
	probe := big.NewInt(0x010203)
	for _, le := range []bool{true, false} {
		c.le = le
		e, err := field.Random(&stream{pre: c.enc(probe)})
		if err == nil && conv.ToBig(e).Cmp(probe) == 0 {
			return c
		}
	}
	panic(engine.HarnessError{Msg: "cannot calibrate the byte layout of " + name + ".Random"})
}

func (c fctx[F]) el(v *big.Int) F { return conv.FromBig(c.field, c.q, v) }

func (c fctx[F]) els(vs []*big.Int) []F {
	out := make([]F, len(vs))
	for i, v := range vs {
		out[i] = c.el(v)
	}
	return out
}

// enc is the byte string that makes one field.Random call return v (v < q, so the wide reduction is the identity).
func (c fctx[F]) enc(v *big.Int) []byte {
	b := make([]byte, c.wide)
	new(big.Int).Mod(v, c.q).FillBytes(b)
	if c.le {
		slices.Reverse(b)
	}
	return b
}

// stream is the deterministic io.Reader handed to the library: first the prepared bytes (chosen field elements),
// then a SHA-256 counter stream.
type stream struct {
	pre  []byte
	seed [32]byte
	ctr  uint64
	buf  []byte
}

func (s *stream) Read(p []byte) (int, error) {
	n := 0
	for n < len(p) {
		if len(s.pre) > 0 {
			k := copy(p[n:], s.pre)
			s.pre = s.pre[k:]
			n += k
			continue
		}
		if len(s.buf) == 0 {
			var b [40]byte
			copy(b[:], s.seed[:])
			binary.BigEndian.PutUint64(b[32:], s.ctr)
			s.ctr++
			h := sha256.Sum256(b[:])
			s.buf = h[:]
		}
		k := copy(p[n:], s.buf)
		s.buf = s.buf[k:]
		n += k
	}
	return n, nil
}

// reader returns a stream that makes the next len(vals) field samples equal vals, then continues pseudo-randomly.
func (c fctx[F]) reader(label string, vals ...*big.Int) io.Reader {
	s := &stream{seed: sha256.Sum256([]byte(fmt.Sprintf("C02/%d/%s/%s", engine.Seed(), c.name, label)))}
	for _, v := range vals {
		s.pre = append(s.pre, c.enc(v)...)
	}
	return s
}

// seeded derives the i-th pseudo-random residue for a label.
func (c fctx[F]) seeded(label string, i int) *big.Int {
	h1 := sha256.Sum256([]byte(fmt.Sprintf("C02/val/%d/%s/%s/%d/a", engine.Seed(), c.name, label, i)))
	h2 := sha256.Sum256([]byte(fmt.Sprintf("C02/val/%d/%s/%s/%d/b", engine.Seed(), c.name, label, i)))
	v := new(big.Int).SetBytes(append(h1[:], h2[:]...))
	return v.Mod(v, c.q)
}

// secrets is the secret alphabet {0, 1, q-1, mid}.
func (c fctx[F]) secrets() []*big.Int {
	return []*big.Int{big.NewInt(0), big.NewInt(1), new(big.Int).Sub(c.q, big.NewInt(1)), c.seeded("mid-secret", 0)}
}

const (
	randZero = iota
	randOne
	randSeeded
	numRand
)

var randNames = [...]string{"zero", "one", "seeded"}

// randomness returns k free dealer values of the given kind. nonzeroLast: the scheme's sampler rejects a zero
// last value (leading polynomial coefficient), so the "zero" kind becomes 0,…,0,1.
func (c fctx[F]) randomness(kind, k int, label string, nonzeroLast bool) []*big.Int {
	out := make([]*big.Int, k)
	for i := range out {
		switch kind {
		case randZero:
			out[i] = big.NewInt(0)
		case randOne:
			out[i] = big.NewInt(1)
		default:
			out[i] = c.seeded(label, i)
		}
	}
	if nonzeroLast && k > 0 && out[k-1].Sign() == 0 {
		out[k-1] = big.NewInt(1)
	}
	return out
}

func (c fctx[F]) add(a, b *big.Int) *big.Int { r := new(big.Int).Add(a, b); return r.Mod(r, c.q) }
func (c fctx[F]) sub(a, b *big.Int) *big.Int { r := new(big.Int).Sub(a, b); return r.Mod(r, c.q) }
func (c fctx[F]) mul(a, b *big.Int) *big.Int { r := new(big.Int).Mul(a, b); return r.Mod(r, c.q) }

func bigs[T interface{ Bytes() []byte }](es []T) []*big.Int {
	out := make([]*big.Int, len(es))
	for i, e := range es {
		out[i] = conv.ToBig(e)
	}
	return out
}

func flatBigs(vs []*big.Int) string {
	parts := make([]string, len(vs))
	for i, v := range vs {
		parts[i] = v.Text(16)
	}
	return strings.Join(parts, ",")
}

func eqBigs(a, b []*big.Int) bool {
	if len(a) != len(b) {
		return false
	}
	for i := range a {
		if a[i].Cmp(b[i]) != 0 {
			return false
		}
	}
	return true
}

// libColumn builds a D x 1 library matrix.
func libColumn[F algebra.PrimeFieldElement[F]](c fctx[F], vals []*big.Int) *mat.Matrix[F] {
	mod, err := mat.NewMatrixModule(uint(len(vals)), 1, c.field)
	if err != nil {
		panic(engine.HarnessError{Msg: "NewMatrixModule: " + err.Error()})
	}
	m, err := mod.NewRowMajor(c.els(vals)...)
	if err != nil {
		panic(engine.HarnessError{Msg: "NewRowMajor: " + err.Error()})
	}
	return m
}

func refMat[F algebra.PrimeFieldElement[F]](q *big.Int, m *mat.Matrix[F]) *linalg.Mat {
	r, cc := m.Dimensions()
	out := linalg.New(q, r, cc)
	for i := 0; i < r; i++ {
		for j := 0; j < cc; j++ {
			e, err := m.Get(i, j)
			if err != nil {
				panic(engine.HarnessError{Msg: "matrix readout: " + err.Error()})
			}
			out.A[i][j] = conv.ToBig(e)
		}
	}
	return out
}

// mspView is the span programme read out of the library: the matrix as residues and, per row, the party index.
type mspView struct {
	M      *linalg.Mat
	rho    []int   // row -> party index (-1: an identifier that is not a shareholder)
	rowsOf [][]int // party -> ascending rows
}

func readMSP[F algebra.PrimeFieldElement[F]](q *big.Int, m *msp.MSP[F], ids []sharing.ID) *mspView {
	v := &mspView{M: refMat(q, m.Matrix()), rowsOf: make([][]int, len(ids))}
	v.rho = make([]int, v.M.R)
	for i := 0; i < v.M.R; i++ {
		id, ok := m.RowsToHolders().Get(i)
		v.rho[i] = -1
		if ok {
			v.rho[i] = slices.Index(ids, id)
		}
		if v.rho[i] >= 0 {
			v.rowsOf[v.rho[i]] = append(v.rowsOf[v.rho[i]], i)
		}
	}
	return v
}

func (v *mspView) rowsFor(mask uint64) []int {
	var rows []int
	for _, p := range policy.Members(mask) {
		rows = append(rows, v.rowsOf[p]...)
	}
	sort.Ints(rows)
	return rows
}

// solveWitness finds d with d_0 = delta and rows·d = 0 (rows given as a matrix with C columns); ok=false iff the
// unit vector e0 lies in the row span (then no such d exists).
func solveWitness(q *big.Int, rows *linalg.Mat, cols int, delta *big.Int) ([]*big.Int, bool) {
	sys := linalg.New(q, rows.R+1, cols)
	sys.A[0][0] = big.NewInt(1)
	for i := 0; i < rows.R; i++ {
		for j := 0; j < cols; j++ {
			sys.A[i+1][j].Set(rows.A[i][j])
		}
	}
	b := make([]*big.Int, rows.R+1)
	b[0] = new(big.Int).Mod(delta, q)
	for i := 1; i < len(b); i++ {
		b[i] = new(big.Int)
	}
	return sys.SolveRight(b)
}

// idNode is the residue of an identifier.
func idNode(q *big.Int, id sharing.ID) *big.Int {
	return new(big.Int).Mod(new(big.Int).SetUint64(uint64(id)), q)
}

// derivRow is the row (d^j/dx^j of 1, x, …, x^(k-1)) at x: the Birkhoff–Vandermonde row of a party of rank j
// (j = 0: the plain Vandermonde row), computed from the definition.
func derivRow(q *big.Int, x *big.Int, j, k int) []*big.Int {
	row := make([]*big.Int, k)
	unit := make([]*big.Int, k)
	for c := 0; c < k; c++ {
		for u := range unit {
			unit[u] = big.NewInt(0)
		}
		unit[c] = big.NewInt(1)
		row[c] = linalg.EvalPolyDeriv(q, unit, j, x)
	}
	return row
}

// pcase is one (policy, identifier assignment) pair.
type pcase struct {
	e catalog.Entry
	a catalog.IDAssignment
}

func (p pcase) key() string { return p.e.Name + "/" + p.a.Name }

// hierExpect: what the documented admission rule says about a hierarchical policy with these identifiers over
// the field q. mustRefuse: identifiers do not increase from level to level, or the field condition fails for the
// real (N, k). mustAccept: the condition holds even for (N+1, k+1), the safety margin the library applies.
func hierExpect(p *policy.Policy, ids []sharing.ID, q *big.Int) (mustAccept, mustRefuse bool) {
	u := catalog.U64(ids)
	if !p.HierarchicalIDsIncrease(u) {
		return false, true
	}
	var maxID uint64
	for _, x := range u {
		maxID = max(maxID, x)
	}
	N := new(big.Int).SetUint64(maxID)
	k := p.MaxThreshold()
	if !policy.TassaFieldCondition(q, N, k) {
		return false, true
	}
	N1 := new(big.Int).Add(N, big.NewInt(1))
	if k+1 <= 20 && policy.TassaFieldCondition(q, N1, k+1) {
		return true, false
	}
	return false, false
}

func popcount(a uint64) int { return len(policy.Members(a)) }

// errLine renders a library error on a separate line so that the first line of a failure message stays stable.
func errLine(err error) string {
	if err == nil {
		return "\n(lib: no error)"
	}
	s := err.Error()
	if i := strings.IndexByte(s, '\n'); i >= 0 {
		s = s[:i]
	}
	return "\n(lib: " + s + ")"
}

// fieldSizeKey: finding key for "the field-size condition was not enforced". The identifier 2^64-1 gets its own key:
// the library computes the bound with uint64(maxID)+1, which wraps to 0 for that identifier.
func fieldSizeKey(ids []sharing.ID) string {
	if slices.Max(ids) == ^sharing.ID(0) {
		return "refusal/hierarchical-field-size/id=2^64-1"
	}
	return "refusal/hierarchical-field-size"
}
