package curve

import (
	"bytes"
	"crypto/elliptic"
	"crypto/sha512"
	"encoding/hex"
	"math/big"
	"testing"
)

func mustHex(t *testing.T, s string) []byte {
	t.Helper()
	b, err := hex.DecodeString(s)
	if err != nil {
		t.Fatal(err)
	}
	return b
}

func TestPrimesAndGenerators(t *testing.T) {
	for _, c := range FpCurves() {
		if !c.F.Char().ProbablyPrime(32) {
			t.Errorf("%s: p not prime", c.Name)
		}
		if !c.Q.ProbablyPrime(32) {
			t.Errorf("%s: q not prime", c.Name)
		}
		if !c.OnCurve(c.G) || c.G.Inf {
			t.Errorf("%s: G not on curve", c.Name)
		}
		if !c.ScalarMul(c.Q, c.G).Inf {
			t.Errorf("%s: q*G != O", c.Name)
		}
		if c.ScalarMul(new(big.Int).Sub(c.Q, big.NewInt(1)), c.G).Inf {
			t.Errorf("%s: (q-1)*G == O", c.Name)
		}
		// Hasse: |h*q - (p+1)| <= 2 sqrt(p)
		n := new(big.Int).Mul(c.H, c.Q)
		d := new(big.Int).Sub(n, new(big.Int).Add(c.F.Char(), big.NewInt(1)))
		d.Mul(d, d)
		if d.Cmp(new(big.Int).Lsh(c.F.Char(), 2)) > 0 {
			t.Errorf("%s: h*q violates the Hasse bound", c.Name)
		}
		// h*q kills arbitrary curve points (not only subgroup points)
		for x := int64(1); x < 40; x++ {
			p, _, ok := c.LiftX(big.NewInt(x))
			if !ok {
				continue
			}
			if !c.OnCurve(p) {
				t.Errorf("%s: lifted point off curve", c.Name)
			}
			if !c.ScalarMul(n, p).Inf {
				t.Errorf("%s: (h*q)*P != O for x=%d", c.Name, x)
			}
			if !c.InSubgroup(c.ClearCofactor(p)) {
				t.Errorf("%s: h*P not in the subgroup", c.Name)
			}
		}
	}
}

func TestGroupLawSanity(t *testing.T) {
	for _, c := range FpCurves() {
		G := c.G
		G2, G3 := c.Double(G), c.Add(c.Double(G), G)
		if !c.Equal(c.Add(G, G), G2) || !c.Equal(c.ScalarMul(big.NewInt(3), G), G3) {
			t.Errorf("%s: small multiples inconsistent", c.Name)
		}
		if !c.Add(G, c.Neg(G)).Inf || !c.Equal(c.Add(G, c.Identity()), G) || !c.Equal(c.Add(c.Identity(), G), G) {
			t.Errorf("%s: exceptional cases wrong", c.Name)
		}
		if !c.Equal(c.Add(c.Add(G, G2), G3), c.Add(G, c.Add(G2, G3))) {
			t.Errorf("%s: not associative", c.Name)
		}
		if !c.Equal(c.ScalarMul(big.NewInt(-5), G), c.Neg(c.ScalarMul(big.NewInt(5), G))) {
			t.Errorf("%s: negative scalar", c.Name)
		}
		a, b := big.NewInt(123456789), new(big.Int).Sub(c.Q, big.NewInt(987654321))
		lhs := c.Add(c.ScalarMul(a, G), c.ScalarMul(b, G))
		rhs := c.ScalarMul(new(big.Int).Mod(new(big.Int).Add(a, b), c.Q), G)
		if !c.Equal(lhs, rhs) {
			t.Errorf("%s: aG + bG != (a+b)G", c.Name)
		}
		if !c.Equal(c.MultiScalarMul([]*big.Int{a, b}, []FpPoint{G, G2}), c.ScalarMul(new(big.Int).Add(a, new(big.Int).Lsh(b, 1)), G)) {
			t.Errorf("%s: MSM", c.Name)
		}
		if !c.MultiScalarMul(nil, nil).Inf {
			t.Errorf("%s: empty MSM", c.Name)
		}
	}
}

func TestPublishedMultiples(t *testing.T) {
	// secp256k1 2G (widely published, e.g. in the SEC 2 derived test vectors)
	k := K256()
	g2 := k.Double(k.G)
	if g2.X.Cmp(hexInt("c6047f9441ed7d6d3045406e95c07cd85c778e4b8cef3ca7abac09b95c709ee5")) != 0 ||
		g2.Y.Cmp(hexInt("1ae168fea63dc339a3c58419466ceaeef7f632653266d0e1236431a950cfe52a")) != 0 {
		t.Errorf("secp256k1 2G wrong: %s", k.Key(g2))
	}
	g3 := k.Add(g2, k.G)
	if g3.X.Cmp(hexInt("f9308a019258c31049344f85f89d5229b531c845836f99b08601f113bce036f9")) != 0 ||
		g3.Y.Cmp(hexInt("388f7b0f632de8140fe337e62a37f3566500a99934c2231b6cb9fd7584b8e672")) != 0 {
		t.Errorf("secp256k1 3G wrong: %s", k.Key(g3))
	}
	// P-256 2G (NIST point multiplication vectors)
	p := P256()
	h2 := p.Double(p.G)
	if h2.X.Cmp(hexInt("7cf27b188d034f7e8a52380304b51ac3c08969e277f21b35a60b48fc47669978")) != 0 ||
		h2.Y.Cmp(hexInt("07775510db8ed040293d9ac69f7430dbba7dade63ce982299e04b79d227873d1")) != 0 {
		t.Errorf("P-256 2G wrong: %s", p.Key(h2))
	}
}

func TestP256AgainstStdlib(t *testing.T) {
	p := P256()
	std := elliptic.P256().Params()
	if std.P.Cmp(p.F.Char()) != 0 || std.N.Cmp(p.Q) != 0 || std.B.Cmp(p.B) != 0 || std.Gx.Cmp(p.G.X) != 0 || std.Gy.Cmp(p.G.Y) != 0 {
		t.Fatal("P-256 constants differ from crypto/elliptic")
	}
	for _, ks := range []string{"1", "2", "3", "ffffffff", "123456789abcdef0123456789abcdef0123456789abcdef", "ffffffff00000000ffffffffffffffffbce6faada7179e84f3b9cac2fc632550"} {
		kk := hexInt(ks)
		x, y := elliptic.P256().ScalarBaseMult(kk.Bytes()) //nolint:staticcheck // deliberate use of the generic API as a second opinion
		r := p.ScalarBaseMul(kk)
		if r.X.Cmp(x) != 0 || r.Y.Cmp(y) != 0 {
			t.Errorf("P-256 %s*G differs from crypto/elliptic", ks)
		}
	}
	// P-256 has points with x = 0
	if len(p.PointsWithX0()) != 2 || len(K256().PointsWithX0()) != 0 || len(Pallas().PointsWithX0()) != 0 || len(Vesta().PointsWithX0()) != 0 {
		t.Errorf("unexpected x=0 point census")
	}
}

func TestPastaGenerators(t *testing.T) {
	for _, c := range []*FpCurve{Pallas(), Vesta()} {
		z := PastaZcashGenerator(c)
		if !c.OnCurve(z) || !c.InSubgroup(z) || z.Inf {
			t.Errorf("%s: zcash generator (-1,2) not on the curve", c.Name)
		}
		if c.G.X.Cmp(big.NewInt(1)) != 0 || c.F.Sqr(c.G.Y).Cmp(big.NewInt(6)) != 0 {
			t.Errorf("%s: Mina generator is not (1, sqrt 6)", c.Name)
		}
	}
	// the cycle: #Pallas(F_p) = q = |F_q| and #Vesta(F_q) = p
	if Pallas().Q.Cmp(Vesta().F.Char()) != 0 || Vesta().Q.Cmp(Pallas().F.Char()) != 0 {
		t.Error("pasta curves do not form a cycle")
	}
}

func TestLiftXOdd(t *testing.T) {
	for _, c := range FpCurves() {
		for _, odd := range []bool{false, true} {
			p, ok := LiftXOdd(c, c.G.X, odd)
			if !ok || !c.OnCurve(p) || (p.Y.Bit(0) == 1) != odd {
				t.Errorf("%s: LiftXOdd", c.Name)
			}
			if !c.Equal(p, c.G) && !c.Equal(p, c.Neg(c.G)) {
				t.Errorf("%s: LiftXOdd gives another point", c.Name)
			}
		}
	}
}

func TestFp2AndG2(t *testing.T) {
	F := BLS12381Fp2()
	a := Fp2{big.NewInt(3), big.NewInt(5)}
	b := Fp2{hexInt("1234567890abcdef"), hexInt("fedcba0987654321")}
	if !F.Equal(F.Mul(a, b), F.Mul(b, a)) {
		t.Error("Fp2 mul not commutative")
	}
	ai, ok := F.Inv(a)
	if !ok || !F.Equal(F.Mul(a, ai), F.One()) {
		t.Error("Fp2 inverse")
	}
	if !F.Equal(F.Sqr(Fp2{big.NewInt(0), big.NewInt(1)}), F.FromInt64(-1)) {
		t.Error("u^2 != -1")
	}
	for _, v := range []Fp2{a, b, F.FromInt64(4), F.FromInt64(-1), F.FromInt64(2), F.El(0, 7), F.Zero()} {
		sq := F.Sqr(v)
		r, ok := F.Sqrt(sq)
		if !ok || !F.Equal(F.Sqr(r), sq) {
			t.Errorf("Fp2 sqrt of a square failed for %s", F.String(v))
		}
	}
	// exactly half of the non-zero elements are squares: find one non-square and check Sqrt refuses it
	ns := 0
	for i := int64(1); i < 20; i++ {
		v := F.El(i, 1)
		_, ok := F.Sqrt(v)
		if ok != F.IsSquare(v) {
			t.Errorf("Fp2 Sqrt/IsSquare disagree")
		}
		if !ok {
			ns++
		}
	}
	if ns == 0 {
		t.Error("no non-square found among 19 elements")
	}
	c := BLS12381G2()
	if !c.OnCurve(c.G) || !c.ScalarMul(c.Q, c.G).Inf || c.ScalarMul(new(big.Int).Sub(c.Q, big.NewInt(1)), c.G).Inf {
		t.Error("G2 generator wrong")
	}
	n := new(big.Int).Mul(c.H, c.Q)
	for i := int64(1); i < 12; i++ {
		p, _, ok := c.LiftX(F.El(i, 1))
		if !ok {
			continue
		}
		if !c.OnCurve(p) || !c.ScalarMul(n, p).Inf || !c.InSubgroup(c.ClearCofactor(p)) {
			t.Errorf("G2: h*q does not kill a curve point (x=%d+u)", i)
		}
	}
	if !c.Equal(c.Add(c.Add(c.G, c.Double(c.G)), c.G), c.ScalarMul(big.NewInt(4), c.G)) {
		t.Error("G2 group law")
	}
	// G1 x G2 orders agree with the pairing-friendly-curves draft: #E(Fp) = h1*r, and r | p^12 - 1 but r ∤ p^k - 1, k<12 (embedding degree 12)
	p := c.F.Char()
	for k := 1; k <= 12; k++ {
		pk := new(big.Int).Exp(p, big.NewInt(int64(k)), c.Q)
		isOne := pk.Cmp(big.NewInt(1)) == 0
		if isOne != (k == 12) {
			t.Errorf("embedding degree check failed at k=%d", k)
		}
	}
}

func TestEdwards25519(t *testing.T) {
	e := Edwards25519()
	if !e.F.Char().ProbablyPrime(32) || !e.Q.ProbablyPrime(32) {
		t.Fatal("25519 primes")
	}
	if e.F.Legendre(e.D) != -1 || e.F.Legendre(e.A) != 1 {
		t.Fatal("edwards25519 is not complete: need a square, d non-square")
	}
	if e.D.Cmp(decInt("37095705934669439343138083508754565189542113879843219016388785533085940283555")) != 0 {
		t.Error("d differs from RFC 8032")
	}
	if !e.OnCurve(e.G) || !e.IsIdentity(e.ScalarMul(e.Q, e.G)) || e.IsIdentity(e.ScalarMul(big.NewInt(8), e.G)) {
		t.Error("edwards25519 generator")
	}
	// Gy = 4/5 and Gx is the even root
	gy, _ := e.F.Div(big.NewInt(4), big.NewInt(5))
	ev, _, ok := e.LiftY(gy)
	if !ok || !e.Equal(ev, e.G) {
		t.Error("G != lift(4/5) with even x")
	}
	// RFC 8032 section 7.1 TEST 1: public key of the secret 9d61..7f60
	sk := mustHex(t, "9d61b19deffd5a60ba844af492ec2cc44449c5697b326919703bac031cae7f60")
	h := sha512.Sum512(sk)
	s := ClampX25519(h[:32])
	pub := e.Compress(e.ScalarBaseMul(s))
	if !bytes.Equal(pub, mustHex(t, "d75a980182b10ab7d54bfed3c964073a0ee172f3daa62325af021a68f707511a")) {
		t.Errorf("RFC 8032 test 1 public key: got %x", pub)
	}
	q, ok := e.Decompress(pub)
	if !ok || !e.Equal(q, e.ScalarBaseMul(s)) {
		t.Error("decompress(compress(P)) != P")
	}
	// torsion
	tor := e.SmallOrderPoints()
	if len(tor) != 8 {
		t.Fatalf("want 8 small-order points, got %d", len(tor))
	}
	orders := map[int64]int{}
	for _, p := range tor {
		if !e.OnCurve(p) || !e.IsIdentity(e.ScalarMul(big.NewInt(8), p)) {
			t.Error("bad torsion point")
		}
		orders[e.Order(p).Int64()]++
	}
	if orders[1] != 1 || orders[2] != 1 || orders[4] != 2 || orders[8] != 4 {
		t.Errorf("torsion census %v", orders)
	}
	if !e.InSubgroup(e.G) || e.InSubgroup(e.Add(e.G, tor[1])) {
		t.Error("InSubgroup")
	}
	if e.Order(e.Add(e.G, tor[1])).Cmp(new(big.Int).Mul(e.Q, big.NewInt(8))) != 0 {
		t.Error("Order of G+T8")
	}
	if !e.Equal(e.Add(e.Add(e.G, tor[1]), tor[3]), e.Add(e.G, e.Add(tor[1], tor[3]))) {
		t.Error("associativity with torsion")
	}
}

func TestCurve25519(t *testing.T) {
	m, e := Curve25519(), Edwards25519()
	if !m.OnCurve(m.G) || !m.ScalarMul(m.Q, m.G).Inf || m.ScalarMul(big.NewInt(8), m.G).Inf {
		t.Error("curve25519 generator")
	}
	if new(big.Int).Add(new(big.Int).Lsh(m.A24, 2), big.NewInt(2)).Cmp(m.A) != 0 {
		t.Error("a24")
	}
	// birational map is a group isomorphism on a few points, including the exceptional ones
	if !m.Equal(EdwardsToMontgomery(e.G), m.G) || !e.Equal(MontgomeryToEdwards(m.G), e.G) {
		t.Error("base points not related by the RFC 7748 map")
	}
	pts := append([]EPoint{e.G, e.Double(e.G), e.ScalarMul(big.NewInt(77), e.G)}, e.SmallOrderPoints()...)
	for _, p := range pts {
		for _, q := range pts {
			l := EdwardsToMontgomery(e.Add(p, q))
			r := m.Add(EdwardsToMontgomery(p), EdwardsToMontgomery(q))
			if !m.Equal(l, r) || !m.OnCurve(l) {
				t.Errorf("map is not a homomorphism at %s + %s", e.Key(p), e.Key(q))
			}
		}
		if !e.Equal(MontgomeryToEdwards(EdwardsToMontgomery(p)), p) {
			t.Errorf("map round trip at %s", e.Key(p))
		}
	}
	// RFC 7748 section 5.2 first vector
	out := m.X25519(mustHex(t, "a546e36bf0527c9d3b16154b82465edd62144c0ac1fc5a18506a2244ba449ac4"),
		mustHex(t, "e6db6867583030db3594c1a424b15f7c726624ec26b3353b10a903a6d0ab1c4c"))
	if !bytes.Equal(out, mustHex(t, "c3da55379de9c6908e94ea4df28d084f32eccf03491c71f754b4075577a28552")) {
		t.Errorf("X25519 vector 1: %x", out)
	}
	// RFC 7748 section 6.1 Alice's public key
	nine := make([]byte, 32)
	nine[0] = 9
	out = m.X25519(mustHex(t, "77076d0a7318a57d3c16c17251b26645df4c2f87ebc0992ab177fba51db92c2a"), nine)
	if !bytes.Equal(out, mustHex(t, "8520f0098930a754748b7ddcb43ef75a0dbf3a0d26381af4eba4a98eaa9b4e6a")) {
		t.Errorf("X25519 Alice public: %x", out)
	}
	// ladder agrees with the affine law
	for _, k := range []int64{1, 2, 3, 8, 1000003} {
		kk := big.NewInt(k)
		if m.XMul(kk, m.G.U).Cmp(m.ScalarMul(kk, m.G).U) != 0 {
			t.Errorf("XMul(%d) != affine", k)
		}
	}
	if m.XMul(m.Q, m.G.U).Sign() != 0 {
		t.Error("XMul(q, 9) != 0")
	}
}

func TestPrimeFieldSqrt(t *testing.T) {
	for _, c := range FpCurves() {
		F := c.F.(*PrimeField)
		sq, nsq := 0, 0
		for i := int64(0); i < 60; i++ {
			v := big.NewInt(i)
			r, ok := F.Sqrt(v)
			if ok != F.IsSquare(v) {
				t.Errorf("%s: Sqrt/IsSquare disagree at %d", c.Name, i)
			}
			if ok {
				sq++
				if F.Sqr(r).Cmp(v) != 0 {
					t.Errorf("%s: sqrt(%d) wrong", c.Name, i)
				}
			} else {
				nsq++
			}
		}
		if sq < 10 || nsq < 10 {
			t.Errorf("%s: implausible residue census %d/%d", c.Name, sq, nsq)
		}
	}
}
