package c04

// Lindell22: the last hop of the protocol — every cosigner's PartialSignature handed to the (non-cosigning) aggregator —
// is not a router message, so the fault list of the network cases never reaches it. This section alters the deviator's
// partial signature itself: every node of its CBOR tree x every operator, plus whole-message replacements.

import (
	"context"
	"fmt"
	"strings"
	"sync"
	"time"

	"github.com/bronlabs/bron-crypto/pkg/base"
	"github.com/bronlabs/bron-crypto/pkg/base/curves/k256"
	"github.com/bronlabs/bron-crypto/pkg/base/datastructures/hashmap"
	"github.com/bronlabs/bron-crypto/pkg/base/serde"
	"github.com/bronlabs/bron-crypto/pkg/mpc/signatures/schnorr/lindell22"
	"github.com/bronlabs/bron-crypto/pkg/mpc/signatures/schnorr/lindell22/keygen"
	"github.com/bronlabs/bron-crypto/pkg/mpc/signatures/schnorr/lindell22/signing"
	"github.com/bronlabs/bron-crypto/pkg/network"
	"github.com/bronlabs/bron-crypto/pkg/proofs/sigma/compiler/fiatshamir"
	"github.com/bronlabs/bron-crypto/pkg/signatures/schnorrlike/bip340"

	"verifmc/det"
	"verifmc/engine"
	"verifmc/proto"
	"verifmc/ref/cbor"
	"verifmc/schednet"
)

type l22psig = *lindell22.PartialSignature[*k256.Point, *k256.Scalar]

type l22Honest struct {
	enc    map[proto.ID][]byte // CBOR of every cosigner's partial signature
	other  map[proto.ID][]byte // the same cosigners' partial signatures over another message (another session)
	shards map[proto.ID]*lindell22.Shard[*k256.Point, *k256.Scalar]
	scheme *bip340.Scheme
	sig    string
}

var (
	l22Mu    sync.Mutex
	l22Cache = map[string]*l22Honest{}
)

func l22Run(quorum []proto.ID, message []byte, seed int64, label string) (map[proto.ID]l22psig, map[proto.ID]*lindell22.Shard[*k256.Point, *k256.Scalar], *bip340.Scheme) {
	ids := []proto.ID{1, 2, 3}
	basesh := proto.DealK256(proto.Threshold(2, ids...), proto.KeySeed(seed), "c04/l22psig")
	shards := map[proto.ID]*lindell22.Shard[*k256.Point, *k256.Scalar]{}
	for id, b := range basesh {
		sh, err := keygen.NewShard(b)
		if err != nil {
			panic(engine.HarnessError{Msg: "lindell22 keygen.NewShard: " + err.Error()})
		}
		shards[id] = sh
	}
	scheme, err := bip340.NewScheme(det.New(proto.KeySeed(seed), "c04/l22psig/scheme"))
	if err != nil {
		panic(engine.HarnessError{Msg: "bip340.NewScheme: " + err.Error()})
	}
	ctxs := proto.Contexts(quorum, proto.KeySeed(seed), "c04/l22psig/"+label)
	res, info := schednet.RunAll(zeroChooser{}, schednet.New(quorum...), quorum, func(ctx context.Context, id proto.ID, rt *network.Router) (l22psig, error) {
		r, err := signing.NewRunner(ctxs[id], shards[id], fiatshamir.Name, scheme.Variant(), message, det.New(seed, fmt.Sprintf("c04/l22psig/%s/%d", label, id)))
		if err != nil {
			return nil, err
		}
		return r.Run(ctx, rt, nil)
	})
	if info.HarnessErr != "" {
		panic(engine.HarnessError{Msg: info.HarnessErr})
	}
	out := map[proto.ID]l22psig{}
	for _, id := range quorum {
		r := res[id]
		if r == nil || !r.Done || r.Err != nil || r.Panic != "" || r.Out == nil {
			panic(engine.HarnessError{Msg: fmt.Sprintf("lindell22 honest run (%s) failed at party %d", label, id)})
		}
		out[id] = r.Out
	}
	return out, shards, scheme
}

func l22Harvest(quorum []proto.ID, seed int64) *l22Honest {
	key := fmt.Sprint(quorum, seed)
	l22Mu.Lock()
	defer l22Mu.Unlock()
	if h, ok := l22Cache[key]; ok {
		return h
	}
	h := &l22Honest{enc: map[proto.ID][]byte{}, other: map[proto.ID][]byte{}}
	ps, shards, scheme := l22Run(quorum, []byte("m"), seed, "main")
	h.shards, h.scheme = shards, scheme
	for id, p := range ps {
		b, err := serde.MarshalCBOR(p)
		if err != nil {
			panic(engine.HarnessError{Msg: "cannot encode an honest partial signature: " + err.Error()})
		}
		h.enc[id] = b
	}
	po, _, _ := l22Run(quorum, []byte("other"), seed, "other")
	for id, p := range po {
		b, _ := serde.MarshalCBOR(p)
		h.other[id] = b
	}
	sig, err, pan := l22Aggregate(h, quorum, h.enc)
	if err != nil || pan != "" {
		panic(engine.HarnessError{Msg: fmt.Sprintf("lindell22 honest aggregation failed: %v %s", err, pan)})
	}
	h.sig = sig
	l22Cache[key] = h
	return h
}

// l22Aggregate decodes the given encodings and aggregates them with a fresh non-cosigning aggregator. A returned
// signature has passed the scheme's public verifier (an invalid one is reported through err "BAD-SIGNATURE").
func l22Aggregate(h *l22Honest, quorum []proto.ID, enc map[proto.ID][]byte) (sig string, err error, pan string) {
	ps := map[proto.ID]l22psig{}
	for _, id := range quorum {
		var p l22psig
		var derr error
		if pan = bolCatch(func() { p, derr = serde.UnmarshalCBOR[l22psig](enc[id]) }); pan != "" {
			return "", nil, "decoder: " + pan
		}
		if derr != nil {
			return "", fmt.Errorf("DECODE: %w", derr), ""
		}
		ps[id] = p
	}
	agg, aerr := signing.NewAggregator(h.shards[quorum[0]].PublicKeyMaterial(), h.scheme)
	if aerr != nil {
		panic(engine.HarnessError{Msg: "lindell22 NewAggregator: " + aerr.Error()})
	}
	pan = bolCatch(func() {
		s, e := agg.Aggregate(hashmap.NewComparableFromNativeLike(ps).Freeze(), []byte("m"))
		if e != nil {
			err = e
			return
		}
		vf, e := h.scheme.Verifier()
		if e != nil {
			panic(engine.HarnessError{Msg: e.Error()})
		}
		if e := vf.Verify(s, h.shards[quorum[0]].PublicKey(), []byte("m")); e != nil {
			err = fmt.Errorf("BAD-SIGNATURE: %w", e)
			return
		}
		sig = fmt.Sprintf("R=%x s=%x", s.R.ToCompressed(), s.S.Bytes())
	})
	return sig, err, pan
}

func psigBody(name string, quorum []proto.ID, harvest func() *psigHonest) func(*engine.X) {
	return func(x *engine.X) {
		h := harvest()
		dev := quorum[x.Choose("deviator", len(quorum))]
		otherID := quorum[0]
		if otherID == dev {
			otherID = quorum[1]
		}
		tr, err := cbor.Parse(h.enc[dev])
		if err != nil || string(cbor.Encode(tr)) != string(h.enc[dev]) {
			panic(engine.HarnessError{Msg: "honest partial signature does not parse / re-encode"})
		}
		var faults []fault
		for _, r := range cbor.Walk(tr) {
			for _, op := range opsFor(r, true) {
				if op != "believe" {
					faults = append(faults, fault{From: dev, Path: r.Path, Op: op})
				}
			}
			if r.Parent != nil && r.Parent.Kind == cbor.Map {
				faults = append(faults, fault{From: dev, Path: r.Path, Op: "drop-field"})
			}
		}
		faults = append(faults, fault{From: dev, Op: "replace-by-other-cosigner"}, fault{From: dev, Op: "replace-by-own-other-message"})
		f := faults[x.Choose("fault", len(faults))]
		which := 0
		if len(h.aggregators) > 1 {
			which = x.Choose("aggregator", len(h.aggregators))
		}
		name := name + "/" + h.aggregators[which]
		keyFor := func(kind string) string {
			if h.keyOf != nil {
				if k := h.keyOf(kind, which, normPath(f.Path), f.Op); k != "" {
					return k
				}
			}
			return fmt.Sprintf("%s/%s-psig|%s|%s", kind, name, normPath(f.Path), f.Op)
		}
		x.Case(fmt.Sprintf("%s-psig/q%v/dev%d/%s/%s", name, quorum, dev, f.Path, f.Op))
		var out []byte
		switch f.Op {
		case "replace-by-other-cosigner":
			out = h.enc[otherID]
		case "replace-by-own-other-message":
			out = h.other[dev]
		default:
			var ok bool
			var why string
			out, ok, why = applyOp(f, h.enc[dev], h.enc[otherID], h.other[dev])
			if !ok {
				x.Trivial()
				x.Observe("inapplicable:", why)
				return
			}
		}
		if string(out) == string(h.enc[dev]) {
			x.Trivial()
			return
		}
		enc := map[proto.ID][]byte{}
		for id, b := range h.enc {
			enc[id] = b
		}
		enc[dev] = out
		sig, aerr, pan := h.aggregate(enc, which, dev)
		what := fmt.Sprintf("%s T(2,3) quorum %v, cosigner %d hands the aggregator its partial signature with [%s %s]", name, quorum, dev, f.Path, f.Op)
		switch {
		case pan != "":
			x.Failf(keyFor("panic"), "%s: the aggregator side panicked: %s", what, pan)
		case aerr != nil && strings.HasPrefix(aerr.Error(), "BAD-SIGNATURE"):
			x.Failf(keyFor("bad-signature"), "%s: the aggregator returned a signature that fails public verification: %v", what, aerr)
		case aerr != nil:
			for _, b := range base.GetMaliciousIdentities[proto.ID](aerr) {
				if b != dev {
					x.Failf(keyFor("wrong-blame"), "%s: the aggregator blames %d (err: %s)", what, b, firstLine(aerr))
				}
			}
			x.Observe("rejected", strings.HasPrefix(aerr.Error(), "DECODE"))
		default:
			// accepted: only the same values in another encoding are not a deviation
			same := false
			if re, rerr := h.recode(out); rerr == nil && string(re) == string(h.enc[dev]) {
				same = true
			}
			if same {
				x.Observe("accepted: re-encodes to the original values")
				return
			}
			x.Failf(keyFor("undetected"), "%s: the aggregator accepted it and returned the signature %s (honest run: %s)", what, sig, h.sig)
		}
	}
}

// psigHonest: the honest partial signatures of one configuration and the aggregator side as a function of encodings.
type psigHonest struct {
	enc, other map[proto.ID][]byte
	sig        string
	// aggregators: the kinds of aggregator of this protocol ("outside" = holds only public material; "cosigner" = the
	// stateful aggregator of the first honest cosigner); aggregate runs kind `which` with dev as the deviating cosigner
	aggregators []string
	aggregate   func(enc map[proto.ID][]byte, which int, dev proto.ID) (sig string, err error, pan string)
	// keyOf, if set, names the failure class of this (kind, aggregator, path, op) instead of the default key
	keyOf func(kind string, which int, path, op string) string
	recode     func(b []byte) ([]byte, error) // Marshal(Unmarshal(b)) with the partial signature type
}

func recodeAs[T any](b []byte) ([]byte, error) {
	p, err := serde.UnmarshalCBOR[T](b)
	if err != nil {
		return nil, err
	}
	return serde.MarshalCBOR(p)
}

func l22Generic(quorum []proto.ID) func() *psigHonest {
	return func() *psigHonest {
		h := l22Harvest(quorum, engine.Seed())
		return &psigHonest{enc: h.enc, other: h.other, sig: h.sig, recode: recodeAs[l22psig], aggregators: []string{"outside"},
			aggregate: func(enc map[proto.ID][]byte, _ int, _ proto.ID) (string, error, string) { return l22Aggregate(h, quorum, enc) }}
	}
}

const psigSpace = "T(2,3), quorum %v x deviating cosigner x (every node of its CBOR-encoded partial signature x every applicable operator of the network cases [donor-other-sender = the same leaf of another cosigner's partial signature, donor-other-session = the same leaf of its own partial signature over another message] + drop-field + replacement by another cosigner's / by its own other-message partial signature); the aggregator does not cosign. Accepting is a failure unless the altered bytes re-encode to the original values; a returned signature must pass independent public verification; blame must name the deviator; no panic."

func l22PsigSections() {
	qname := func(q []proto.ID) string { return strings.Trim(strings.ReplaceAll(fmt.Sprint(q), " ", ""), "[]") }
	for _, q := range [][]proto.ID{{1, 2}, {1, 2, 3}, {2, 3}} {
		sec := engine.Explore(psigBody("lindell22", q, l22Generic(q)), engine.Opts{Name: "lindell22/partial-signature-faults/q" + qname(q), MaxFails: 100000, Budget: engine.Budget(2*time.Minute, 10*time.Minute)})
		sec.Note("space: BIP-340 on k256, "+psigSpace, q)
	}
	for _, mult := range []string{"softspoken", "bbot"} {
		for _, q := range [][]proto.ID{{1, 2}, {1, 2, 3}} {
			if mult == "bbot" && len(q) == 3 && !engine.Thorough() {
				continue
			}
			sec := engine.Explore(psigBody("dkls23-"+mult, q, dklsGeneric(mult, q)), engine.Opts{Name: "dkls23-" + mult + "/partial-signature-faults/q" + qname(q), MaxFails: 100000, Budget: engine.Budget(2*time.Minute, 10*time.Minute)})
			sec.Note("space: ECDSA on k256 / SHA-256, "+psigSpace, q)
		}
	}
	for _, q := range [][]proto.ID{{1, 2}, {1, 2, 3}} {
		if len(q) == 3 && !engine.Thorough() {
			continue
		}
		sec := engine.Explore(psigBody("cggmp21", q, cggmpGeneric(q)), engine.Opts{Name: "cggmp21/partial-signature-faults/q" + qname(q), MaxFails: 100000, Budget: engine.Budget(3*time.Minute, 10*time.Minute)})
		sec.Note("space: ECDSA on k256 / SHA-256, 2048-bit test Paillier keys, "+psigSpace, q)
	}
}
