package c09

import (
	"bytes"
	"crypto/sha256"
	"fmt"
	"io"
	"math/big"
	"slices"

	"github.com/bronlabs/bron-crypto/pkg/base/algebra"
	"github.com/bronlabs/bron-crypto/pkg/base/curves"
	"github.com/bronlabs/bron-crypto/pkg/base/curves/k256"
	"github.com/bronlabs/bron-crypto/pkg/base/curves/p256"
	"github.com/bronlabs/bron-crypto/pkg/base/datastructures/hashset"
	"github.com/bronlabs/bron-crypto/pkg/base/serde"
	"github.com/bronlabs/bron-crypto/pkg/mpc/session"
	"github.com/bronlabs/bron-crypto/pkg/mpc/sharing"

	"verifmc/det"
	"verifmc/engine"
	"verifmc/ref/conv"
)

// ---------------------------------------------------------------------------------------------------------------
// Curves. Every driver is generic over the curve; cv bundles what a body needs.

type cv[P curves.Point[P, B, S], B algebra.FieldElement[B], S algebra.PrimeFieldElement[S]] struct {
	name  string
	curve curves.Curve[P, B, S]
	field algebra.PrimeField[S]
	q     *big.Int // scalar field order, typed in from the standard (ref/conv), not read from the library
}

func (c cv[P, B, S]) el(v *big.Int) S { return conv.FromBig(c.field, c.q, v) }

var (
	cvK256 = cv[*k256.Point, *k256.BaseFieldElement, *k256.Scalar]{"k256", k256.NewCurve(), k256.NewScalarField(), conv.K256N}
	cvP256 = cv[*p256.Point, *p256.BaseFieldElement, *p256.Scalar]{"p256", p256.NewCurve(), p256.NewScalarField(), conv.P256N}
)

var hashFunc = sha256.New

// ---------------------------------------------------------------------------------------------------------------
// Session contexts for the two parties, built directly with the documented constructor from deterministic bytes
// (what session setup would output; the same 20 lines as proto.Contexts, which needs the scheduler overlay).

const (
	idA sharing.ID = 1 // base-OT sender / extension receiver in the chained set-ups / rVOLE Alice
	idB sharing.ID = 2
)

func contexts(seed int64, label string) (a, b *session.Context) {
	r := det.New(seed, "ctx/"+label)
	common := make([]byte, 64)
	pair := make([]byte, 64)
	_, _ = io.ReadFull(r, common)
	_, _ = io.ReadFull(r, pair)
	q := hashset.NewComparable(idA, idB).Freeze()
	a, err := session.NewContext(idA, q, common, map[sharing.ID][]byte{idB: pair})
	if err != nil {
		panic(engine.HarnessError{Msg: "session.NewContext: " + err.Error()})
	}
	b, err = session.NewContext(idB, q, common, map[sharing.ID][]byte{idA: pair})
	if err != nil {
		panic(engine.HarnessError{Msg: "session.NewContext: " + err.Error()})
	}
	return a, b
}

// seeds: VERIF_SEED selects which fixed streams feed the library; every case is run under both.
func seedList() []int64 { return []int64{engine.Seed(), engine.Seed() + 1000} }

// ---------------------------------------------------------------------------------------------------------------
// Choice vectors (little-endian packed bits, bit i = byte i/8, position i%8 — the library's documented packing).

func bit(v []byte, i int) int { return int(v[i/8]>>(i%8)) & 1 }

// structured returns all-zero, all-one and the single-bit vectors at the given positions (nil = every position).
func structured(xi int, positions []int) (vs [][]byte, names []string) {
	n := xi / 8
	vs = append(vs, make([]byte, n), bytes.Repeat([]byte{0xff}, n))
	names = append(names, "zeros", "ones")
	if positions == nil {
		for i := 0; i < xi; i++ {
			positions = append(positions, i)
		}
	}
	for _, p := range positions {
		v := make([]byte, n)
		v[p/8] |= 1 << (p % 8)
		vs = append(vs, v)
		names = append(names, fmt.Sprintf("bit%d", p))
	}
	return vs, names
}

// edgePositions: first, second, byte boundary, word boundary and last positions of a xi-bit vector.
func edgePositions(xi int) []int {
	cand := []int{0, 1, 7, 8, 63, 64, xi/2 - 1, xi / 2, xi - 2, xi - 1}
	var out []int
	for _, p := range cand {
		if p >= 0 && p < xi && !slices.Contains(out, p) {
			out = append(out, p)
		}
	}
	slices.Sort(out)
	return out
}

// ---------------------------------------------------------------------------------------------------------------
// Oracle for one completed OT, on plain byte strings (scalars are compared through their canonical encodings).
// Definition-level: for every instance i and block l: recv[i][l] == send[i][c_i][l]; send[i][0][l] != send[i][1][l].

type otOut struct {
	choices []byte
	recv    [][][]byte    // [xi][L]
	send    [][2][][]byte // [xi][2][L]
	bits    *otOut        // ecbbot only: the same outputs after ToBitsOutput
}

func checkOT(x *engine.X, key, what string, xi, l int, want []byte, o *otOut) bool {
	ok := true
	fail := func(k, f string, a ...any) {
		ok = false
		x.Failf(key+"/"+k, what+": "+f, a...)
	}
	if !bytes.Equal(o.choices, want) {
		fail("choices", "receiver output carries choices %x, input was %x", o.choices, want)
		return false
	}
	if len(o.recv) != xi || len(o.send) != xi {
		fail("shape", "output batch sizes recv=%d send=%d, want xi=%d", len(o.recv), len(o.send), xi)
		return false
	}
	for i := 0; i < xi; i++ {
		if len(o.recv[i]) != l || len(o.send[i][0]) != l || len(o.send[i][1]) != l {
			fail("shape", "instance %d block counts recv=%d send=%d/%d, want L=%d", i, len(o.recv[i]), len(o.send[i][0]), len(o.send[i][1]), l)
			return false
		}
		c := bit(want, i)
		for b := 0; b < l; b++ {
			if len(o.recv[i][b]) == 0 {
				fail("empty", "instance %d block %d: empty receiver message", i, b)
				continue
			}
			if !bytes.Equal(o.recv[i][b], o.send[i][c][b]) {
				fail("correlation", "instance %d block %d choice %d: receiver message %x != sender message[%d] %x (message[%d] = %x)", i, b, c, o.recv[i][b], c, o.send[i][c][b], 1-c, o.send[i][1-c][b])
			}
			if bytes.Equal(o.send[i][0][b], o.send[i][1][b]) {
				fail("equal-pair", "instance %d block %d: the two sender messages are equal (%x)", i, b, o.send[i][0][b])
			}
		}
	}
	return ok
}

// scalars -> canonical bytes
func sBytes[S algebra.PrimeFieldElement[S]](m [][]S) [][][]byte {
	out := make([][][]byte, len(m))
	for i := range m {
		out[i] = make([][]byte, len(m[i]))
		for j := range m[i] {
			out[i][j] = m[i][j].Bytes()
		}
	}
	return out
}

func sBytes2[S algebra.PrimeFieldElement[S]](m [][2][]S) [][2][][]byte {
	out := make([][2][][]byte, len(m))
	for i := range m {
		for c := 0; c < 2; c++ {
			out[i][c] = make([][]byte, len(m[i][c]))
			for j := range m[i][c] {
				out[i][c][j] = m[i][c][j].Bytes()
			}
		}
	}
	return out
}

// ---------------------------------------------------------------------------------------------------------------
// Guarded steps: a round that panics is an oracle violation of its own ("never panics"), distinguished from an error.

type stepErr struct {
	err      error
	panicked bool
	where    string
}

func (e *stepErr) Error() string {
	if e.panicked {
		return e.where + " PANICKED: " + e.err.Error()
	}
	return e.where + ": " + e.err.Error()
}

func guard(where string, fn func() error) (se *stepErr) {
	defer func() {
		if r := recover(); r != nil {
			if he, ok := r.(engine.HarnessError); ok {
				panic(he)
			}
			se = &stepErr{fmt.Errorf("%v", r), true, where}
		}
	}()
	if err := fn(); err != nil {
		return &stepErr{err, false, where}
	}
	return nil
}

// wire passes a message through the library's CBOR codec (what a transport does) and returns the decoded copy.
func wire[T any](msg T) (T, []byte, error) {
	b, err := serde.MarshalCBOR(msg)
	if err != nil {
		var z T
		return z, nil, fmt.Errorf("MarshalCBOR: %w", err)
	}
	out, err := serde.UnmarshalCBOR[T](b)
	return out, b, err
}

func first(err *stepErr) string {
	if err == nil {
		return "ok"
	}
	s := err.Error()
	if len(s) > 160 {
		s = s[:160]
	}
	return s
}
