package c07

// Thorough-tier cases: the expensive signing protocols and the two-party building blocks (base OT, OT extension,
// rVOLE), all on k256. DKLs23 runs through its network runner; the others through their round functions.

import (
	"context"
	"crypto/sha256"
	"fmt"
	"io"
	"math/big"
	"sync"

	"github.com/bronlabs/bron-crypto/pkg/base/curves/k256"
	"github.com/bronlabs/bron-crypto/pkg/base/serde"
	"github.com/bronlabs/bron-crypto/pkg/mcrt"
	rvole_bbot "github.com/bronlabs/bron-crypto/pkg/mpc/rvole/bbot"
	rvole_softspoken "github.com/bronlabs/bron-crypto/pkg/mpc/rvole/softspoken"
	"github.com/bronlabs/bron-crypto/pkg/mpc/sharing/accessstructures"
	"github.com/bronlabs/bron-crypto/pkg/mpc/signatures/ecdsa/dkls23"
	"github.com/bronlabs/bron-crypto/pkg/mpc/signatures/ecdsa/dkls23/signing_bbot"
	"github.com/bronlabs/bron-crypto/pkg/mpc/signatures/ecdsa/dkls23/signing_softspoken"
	"github.com/bronlabs/bron-crypto/pkg/mpc/signatures/ecdsa/lindell17"
	l17signing "github.com/bronlabs/bron-crypto/pkg/mpc/signatures/ecdsa/lindell17/signing"
	"github.com/bronlabs/bron-crypto/pkg/network"
	"github.com/bronlabs/bron-crypto/pkg/ot/base/ecbbot"
	"github.com/bronlabs/bron-crypto/pkg/ot/base/vsot"
	"github.com/bronlabs/bron-crypto/pkg/ot/extension/softspoken"
	"github.com/bronlabs/bron-crypto/pkg/proofs/sigma/compiler"
	"github.com/bronlabs/bron-crypto/pkg/signatures/ecdsa"

	"verifmc/det"
	"verifmc/proto"
	"verifmc/ref/conv"
)

var hashFunc = sha256.New

// through hands a message over the way a network would: as a fresh object decoded from the sender's encoding.
func through[M any](m M) M {
	b, err := serde.MarshalCBOR(m)
	if err != nil {
		panic(fmt.Sprintf("c07: honest message %T does not encode: %v", m, err))
	}
	out, err := serde.UnmarshalCBOR[M](b)
	if err != nil {
		panic(fmt.Sprintf("c07: honest message %T does not decode from its own encoding: %v", m, err))
	}
	return out
}

func k256Suite() *ecdsa.Suite[*k256.Point, *k256.BaseFieldElement, *k256.Scalar] {
	s, err := ecdsa.NewSuite(k256.NewCurve(), hashFunc)
	if err != nil {
		panic(err)
	}
	return s
}

// dkls23Case: DKLs23 (base-OT multiplier) threshold ECDSA signing by quorum on dealt shards, through the runner.
func dkls23Case(cfg string, ac accessstructures.Monotone, quorum []ID, message []byte) *kase {
	return dkls23MultCase("bbot", cfg, ac, quorum, message)
}

// dkls23MultCase: DKLs23 signing over its runners with the base-OT ("bbot") or the OT-extension ("softspoken") multiplier.
func dkls23MultCase(mult, cfg string, ac accessstructures.Monotone, quorum []ID, message []byte) *kase {
	name := "dkls23" + mult + "/" + cfg
	return &kase{name: name, ids: quorum, sched: true, heavy: true, run: func(x mcrt.Chooser, ks int64, sess int, taps map[ID]*tap) *outcome {
		base := proto.DealK256(ac, ks, "c07/"+name)
		shards := map[ID]*dkls23.Shard[*k256.Point, *k256.BaseFieldElement, *k256.Scalar]{}
		for id, b := range base {
			sh, err := dkls23.NewShard[*k256.Point, *k256.BaseFieldElement, *k256.Scalar](b)
			if err != nil {
				panic(err)
			}
			shards[id] = sh
		}
		suite := k256Suite()
		ctxs := proto.Contexts(quorum, ks, ctxLabel(name, sess))
		type psig = *dkls23.PartialSignature[*k256.Point, *k256.BaseFieldElement, *k256.Scalar]
		res, o := runNet(x, quorum, taps, func(ctx context.Context, id ID, rt *network.Router) (psig, error) {
			var r network.Runner[psig]
			var err error
			if mult == "bbot" {
				r, err = signing_bbot.NewRunner(ctxs[id], suite, shards[id], message, rd(taps, id))
			} else {
				r, err = signing_softspoken.NewRunner(ctxs[id], suite, shards[id], message, rd(taps, id))
			}
			if err != nil {
				return nil, err
			}
			return r.Run(ctx, rt, nil)
		})
		if !o.allOK() {
			return o
		}
		var ps []psig
		for _, id := range quorum {
			ps = append(ps, res[id].Out)
		}
		sig, err := dkls23.Aggregate(suite, shards[quorum[0]].PublicKey(), message, ps...)
		if err != nil {
			o.parties[quorum[0]].ok = false
			o.parties[quorum[0]].err = fmt.Errorf("aggregation of honest partial signatures failed: %w", err)
			return o
		}
		o.joint["r"] = hx(sig.R().Bytes())
		o.joint["s"] = hx(sig.S().Bytes())
		return o
	}}
}

// ---- Lindell17: two-party ECDSA. Key material (Paillier keys) is dealt once per process: the dealer's prime search
// is not a deterministic function of its reader, the signing protocol is what is under test.

const l17KeyLen = 1024

type l17Shards = map[ID]*lindell17.Shard[*k256.Point, *k256.BaseFieldElement, *k256.Scalar]

var (
	l17Mu    sync.Mutex
	l17Cache = map[string]*struct {
		once sync.Once
		v    l17Shards
	}{}
)

func l17Deal(cfg string, ac accessstructures.Monotone, ks int64) l17Shards {
	l17Mu.Lock()
	e, ok := l17Cache[cfg]
	if !ok {
		e = &struct {
			once sync.Once
			v    l17Shards
		}{}
		l17Cache[cfg] = e
	}
	l17Mu.Unlock()
	e.once.Do(func() {
		sh, _, err := proto.Lindell17Deal(k256.NewCurve(), ac, l17KeyLen, ks)
		if err != nil {
			panic(fmt.Sprintf("c07: Lindell17 dealing failed: %v", err))
		}
		e.v = sh
	})
	if e.v == nil {
		panic("c07: Lindell17 dealing failed earlier")
	}
	return e.v
}

// Lindell17 signing refuses (documented) any compiler that is not straight-line extractable: Fischlin or randomised Fischlin.
func lindell17Case(cfg string, ac accessstructures.Monotone, primary, secondary ID, nic compiler.Name, message []byte) *kase {
	name := "lindell17/" + cfg + "-" + string(nic)
	ids := []ID{primary, secondary}
	return &kase{name: name, ids: ids, heavy: true, reactive: map[ID]bool{secondary: true}, run: func(_ mcrt.Chooser, ks int64, sess int, taps map[ID]*tap) *outcome {
		shards := l17Deal(cfg, ac, ks)
		suite := k256Suite()
		d := newDrv(ids, taps)
		ctxs := proto.Contexts(ids, ks, ctxLabel(name, sess))
		var pc *l17signing.PrimaryCosigner[*k256.Point, *k256.BaseFieldElement, *k256.Scalar]
		var sc *l17signing.SecondaryCosigner[*k256.Point, *k256.BaseFieldElement, *k256.Scalar]
		d.step(primary, "NewPrimaryCosigner", func() (err error) {
			pc, err = l17signing.NewPrimaryCosigner(ctxs[primary], suite, secondary, shards[primary], nic, rd(taps, primary))
			return err
		})
		d.step(secondary, "NewSecondaryCosigner", func() (err error) {
			sc, err = l17signing.NewSecondaryCosigner(ctxs[secondary], suite, primary, shards[secondary], nic, rd(taps, secondary))
			return err
		})
		var (
			r1 *l17signing.Round1OutputP2P[*k256.Point, *k256.BaseFieldElement, *k256.Scalar]
			r2 *l17signing.Round2OutputP2P[*k256.Point, *k256.BaseFieldElement, *k256.Scalar]
			r3 *l17signing.Round3OutputP2P[*k256.Point, *k256.BaseFieldElement, *k256.Scalar]
			r4 *l17signing.Round4OutputP2P[*k256.Point, *k256.BaseFieldElement, *k256.Scalar]
		)
		d.step(primary, "Round1", func() (err error) {
			if r1, err = pc.Round1(); err == nil {
				d.sent("Lindell17Round1", primary, secondary, r1)
				r1 = through(r1)
			}
			return err
		})
		d.step(secondary, "Round2", func() (err error) {
			if r2, err = sc.Round2(r1); err == nil {
				d.sent("Lindell17Round2", secondary, primary, r2)
				r2 = through(r2)
			}
			return err
		})
		d.step(primary, "Round3", func() (err error) {
			if r3, err = pc.Round3(r2); err == nil {
				d.sent("Lindell17Round3", primary, secondary, r3)
				r3 = through(r3)
			}
			return err
		})
		d.step(secondary, "Round4", func() (err error) {
			if r4, err = sc.Round4(r3, message); err == nil {
				d.sent("Lindell17Round4", secondary, primary, r4)
				r4 = through(r4)
			}
			return err
		})
		d.step(primary, "Round5", func() error {
			sig, err := pc.Round5(r4, message)
			if err != nil {
				return err
			}
			d.o.joint["r"] = hx(sig.R().Bytes())
			d.o.joint["s"] = hx(sig.S().Bytes())
			return nil
		})
		return d.finish()
	}}
}

// ---- base OT. The receiver's choice bits are an INPUT (fixed pattern); the pads depend on both parties' streams.

const (
	otSender   ID = 1
	otReceiver ID = 2
)

var otIDs = []ID{otSender, otReceiver}

func choicePattern(xi int) []byte {
	c := make([]byte, xi/8)
	for i := range c {
		c[i] = byte(0xA5 ^ (i * 29))
	}
	return c
}

func ecbbotCase(xi, l int) *kase {
	name := fmt.Sprintf("ecbbot/xi%d-l%d", xi, l)
	return &kase{name: name, ids: otIDs, reactive: map[ID]bool{otReceiver: true}, run: func(_ mcrt.Chooser, ks int64, sess int, taps map[ID]*tap) *outcome {
		d := newDrv(otIDs, taps)
		suite, err := ecbbot.NewSuite(xi, l, k256.NewCurve())
		if err != nil {
			panic(err)
		}
		ctxs := proto.Contexts(otIDs, ks, ctxLabel(name, sess))
		var snd *ecbbot.Sender[*k256.Point, *k256.Scalar]
		var rcv *ecbbot.Receiver[*k256.Point, *k256.Scalar]
		d.step(otSender, "NewSender", func() (err error) {
			snd, err = ecbbot.NewSender(ctxs[otSender], suite, rd(taps, otSender))
			return err
		})
		d.step(otReceiver, "NewReceiver", func() (err error) {
			rcv, err = ecbbot.NewReceiver(ctxs[otReceiver], suite, rd(taps, otReceiver))
			return err
		})
		var r1 *ecbbot.Round1P2P[*k256.Point, *k256.Scalar]
		var r2 *ecbbot.Round2P2P[*k256.Point, *k256.Scalar]
		d.step(otSender, "Round1", func() (err error) {
			if r1, err = snd.Round1(); err == nil {
				d.sent("ECBBOTRound1", otSender, otReceiver, r1)
				r1 = through(r1)
			}
			return err
		})
		d.step(otReceiver, "Round2", func() error {
			m, out, err := rcv.Round2(r1, choicePattern(xi))
			if err != nil {
				return err
			}
			d.sent("ECBBOTRound2", otReceiver, otSender, m)
			r2 = through(m)
			for i := range out.Messages {
				for k, v := range out.Messages[i] {
					d.o.joint[fmt.Sprintf("pad/r/%d/%d", i, k)] = hx(v.Bytes())
				}
			}
			return nil
		})
		d.step(otSender, "Round3", func() error {
			out, err := snd.Round3(r2)
			if err != nil {
				return err
			}
			for i := range out.Messages {
				for b := 0; b < 2; b++ {
					for k, v := range out.Messages[i][b] {
						d.o.joint[fmt.Sprintf("pad/s/%d/%d/%d", i, b, k)] = hx(v.Bytes())
					}
				}
			}
			return nil
		})
		return d.finish()
	}}
}

type vsotOut struct {
	snd *vsot.SenderOutput
	rcv *vsot.ReceiverOutput
}

// vsotRun drives VSOT between the two readers; record (optional) sees every message.
func vsotRun(d *drv, label string, xi, l int, choices []byte, ks int64, rs, rr io.Reader) *vsotOut {
	suite, err := vsot.NewSuite(xi, l, k256.NewCurve(), hashFunc)
	if err != nil {
		panic(err)
	}
	ctxs := proto.Contexts(otIDs, ks, label)
	var snd *vsot.Sender[*k256.Point, *k256.BaseFieldElement, *k256.Scalar]
	var rcv *vsot.Receiver[*k256.Point, *k256.BaseFieldElement, *k256.Scalar]
	d.step(otSender, "NewSender", func() (err error) { snd, err = vsot.NewSender(ctxs[otSender], suite, rs); return err })
	d.step(otReceiver, "NewReceiver", func() (err error) { rcv, err = vsot.NewReceiver(ctxs[otReceiver], suite, rr); return err })
	out := &vsotOut{}
	var (
		r1 *vsot.Round1P2P[*k256.Point, *k256.BaseFieldElement, *k256.Scalar]
		r2 *vsot.Round2P2P[*k256.Point, *k256.BaseFieldElement, *k256.Scalar]
		r3 *vsot.Round3P2P[*k256.Point, *k256.BaseFieldElement, *k256.Scalar]
		r4 *vsot.Round4P2P[*k256.Point, *k256.BaseFieldElement, *k256.Scalar]
		r5 *vsot.Round5P2P[*k256.Point, *k256.BaseFieldElement, *k256.Scalar]
	)
	d.step(otSender, "Round1", func() (err error) {
		if r1, err = snd.Round1(); err == nil {
			d.sent("VSOTRound1", otSender, otReceiver, r1)
			r1 = through(r1)
		}
		return err
	})
	d.step(otReceiver, "Round2", func() (err error) {
		if r2, out.rcv, err = rcv.Round2(r1, append([]byte{}, choices...)); err == nil {
			d.sent("VSOTRound2", otReceiver, otSender, r2)
			r2 = through(r2)
		}
		return err
	})
	d.step(otSender, "Round3", func() (err error) {
		if r3, out.snd, err = snd.Round3(r2); err == nil {
			d.sent("VSOTRound3", otSender, otReceiver, r3)
			r3 = through(r3)
		}
		return err
	})
	d.step(otReceiver, "Round4", func() (err error) {
		if r4, err = rcv.Round4(r3); err == nil {
			d.sent("VSOTRound4", otReceiver, otSender, r4)
			r4 = through(r4)
		}
		return err
	})
	d.step(otSender, "Round5", func() (err error) {
		if r5, err = snd.Round5(r4); err == nil {
			d.sent("VSOTRound5", otSender, otReceiver, r5)
			r5 = through(r5)
		}
		return err
	})
	d.step(otReceiver, "Round6", func() error { return rcv.Round6(r5) })
	return out
}

func vsotCase(xi, l int) *kase {
	name := fmt.Sprintf("vsot/xi%d-l%d", xi, l)
	return &kase{name: name, ids: otIDs, reactive: map[ID]bool{otReceiver: true}, run: func(_ mcrt.Chooser, ks int64, sess int, taps map[ID]*tap) *outcome {
		d := newDrv(otIDs, taps)
		out := vsotRun(d, ctxLabel(name, sess), xi, l, choicePattern(xi), ks, rd(taps, otSender), rd(taps, otReceiver))
		if !d.failed {
			for i := range out.snd.Messages {
				for b := 0; b < 2; b++ {
					for k, v := range out.snd.Messages[i][b] {
						d.o.joint[fmt.Sprintf("pad/s/%d/%d/%d", i, b, k)] = hx(v)
					}
				}
			}
		}
		return d.finish()
	}}
}

// ---- OT extension and rVOLE over it need base-OT seeds: fixed key material, produced once per process by an honest
// VSOT run on dedicated streams (VSOT itself is deterministic given its streams; that is checked by vsotCase).

var (
	seedsOnce sync.Once
	seedsOut  *vsotOut
)

func baseSeeds(ks int64) *vsotOut {
	seedsOnce.Do(func() {
		delta := make([]byte, softspoken.Kappa/8)
		_, _ = io.ReadFull(det.New(ks, "c07/softspoken/delta"), delta)
		d := newDrv(otIDs, nil)
		out := vsotRun(d, "c07/softspoken/base-seeds", softspoken.Kappa, 1, delta, ks, det.New(ks, "c07/softspoken/base/sender"), det.New(ks, "c07/softspoken/base/receiver"))
		if d.failed {
			panic(fmt.Sprintf("c07: base-seed VSOT failed: %s", describe(d.finish(), otIDs)))
		}
		seedsOut = out
	})
	if seedsOut == nil {
		panic("c07: base-seed VSOT failed earlier")
	}
	return seedsOut
}

// softspokenCase: the extension RECEIVER (party 1, holds the base sender's seeds) samples its padding bits; the
// extension SENDER (party 2) samples nothing by construction: every one of its values derives from the base seeds.
func softspokenCase(xi, l int) *kase {
	name := fmt.Sprintf("softspoken/xi%d-l%d", xi, l)
	const extReceiver, extSender ID = 1, 2
	return &kase{name: name, ids: otIDs, passive: map[ID]bool{extSender: true}, run: func(_ mcrt.Chooser, ks int64, sess int, taps map[ID]*tap) *outcome {
		bs := baseSeeds(ks)
		d := newDrv(otIDs, taps)
		suite, err := softspoken.NewSuite(xi, l, hashFunc)
		if err != nil {
			panic(err)
		}
		ctxs := proto.Contexts(otIDs, ks, ctxLabel(name, sess))
		var rcv *softspoken.Receiver
		var snd *softspoken.Sender
		d.step(extReceiver, "NewReceiver", func() (err error) {
			rcv, err = softspoken.NewReceiver(ctxs[extReceiver], bs.snd, suite, rd(taps, extReceiver))
			return err
		})
		d.step(extSender, "NewSender", func() (err error) {
			snd, err = softspoken.NewSender(ctxs[extSender], bs.rcv, suite, rd(taps, extSender))
			return err
		})
		var r1 *softspoken.Round1P2P
		d.step(extReceiver, "Round1", func() (err error) {
			if r1, _, err = rcv.Round1(choicePattern(xi)); err == nil {
				d.sent("SoftspokenRound1", extReceiver, extSender, r1)
				r1 = through(r1)
			}
			return err
		})
		d.step(extSender, "Round2", func() error { _, err := snd.Round2(r1); return err })
		return d.finish()
	}}
}

func k256Scalars(vs ...int64) []*k256.Scalar {
	out := make([]*k256.Scalar, len(vs))
	for i, v := range vs {
		out[i] = conv.FromBig(k256.NewScalarField(), conv.K256N, big.NewInt(v))
	}
	return out
}

const (
	alice ID = 1
	bob   ID = 2
)

// rvoleBBOTCase: random vector OLE over base OT. Alice's input a is fixed; c (Alice) and d (Bob) are the output
// shares of a*b, they depend on both streams; b is Bob's own random value.
func rvoleBBOTCase(l int) *kase {
	name := fmt.Sprintf("rvolebbot/l%d", l)
	return &kase{name: name, ids: otIDs, reactive: map[ID]bool{bob: true}, run: func(_ mcrt.Chooser, ks int64, sess int, taps map[ID]*tap) *outcome {
		d := newDrv(otIDs, taps)
		suite, err := rvole_bbot.NewSuite(l, k256.NewCurve())
		if err != nil {
			panic(err)
		}
		ctxs := proto.Contexts(otIDs, ks, ctxLabel(name, sess))
		var al *rvole_bbot.Alice[*k256.Point, *k256.Scalar]
		var bo *rvole_bbot.Bob[*k256.Point, *k256.Scalar]
		d.step(alice, "NewAlice", func() (err error) { al, err = rvole_bbot.NewAlice(ctxs[alice], suite, rd(taps, alice)); return err })
		d.step(bob, "NewBob", func() (err error) { bo, err = rvole_bbot.NewBob(ctxs[bob], suite, rd(taps, bob)); return err })
		a := k256Scalars(3, 5, 7, 11)[:l]
		var (
			r1 *rvole_bbot.Round1P2P[*k256.Point, *k256.Scalar]
			r2 *rvole_bbot.Round2P2P[*k256.Point, *k256.Scalar]
			r3 *rvole_bbot.Round3P2P[*k256.Point, *k256.Scalar]
		)
		d.step(alice, "Round1", func() (err error) {
			if r1, err = al.Round1(); err == nil {
				d.sent("RVOLEBBOTRound1", alice, bob, r1)
				r1 = through(r1)
			}
			return err
		})
		d.step(bob, "Round2", func() (err error) {
			if r2, _, err = bo.Round2(r1); err == nil {
				d.sent("RVOLEBBOTRound2", bob, alice, r2)
				r2 = through(r2)
			}
			return err
		})
		d.step(alice, "Round3", func() error {
			m, c, err := al.Round3(r2, a)
			if err != nil {
				return err
			}
			d.sent("RVOLEBBOTRound3", alice, bob, m)
			r3 = through(m)
			for k, v := range c {
				d.o.joint[fmt.Sprintf("c/%d", k)] = hx(v.Bytes())
			}
			return nil
		})
		d.step(bob, "Round4", func() error {
			dd, err := bo.Round4(r3)
			if err != nil {
				return err
			}
			for k, v := range dd {
				d.o.joint[fmt.Sprintf("d/%d", k)] = hx(v.Bytes())
			}
			return nil
		})
		return d.finish()
	}}
}

// rvoleSoftspokenCase: random vector OLE over the OT extension (Bob speaks first).
func rvoleSoftspokenCase(l int) *kase {
	name := fmt.Sprintf("rvolesoftspoken/l%d", l)
	return &kase{name: name, ids: otIDs, reactive: map[ID]bool{alice: true}, jointBy: map[ID]bool{bob: true}, run: func(_ mcrt.Chooser, ks int64, sess int, taps map[ID]*tap) *outcome {
		bs := baseSeeds(ks)
		d := newDrv(otIDs, taps)
		suite, err := rvole_softspoken.NewSuite(l, k256.NewCurve(), hashFunc)
		if err != nil {
			panic(err)
		}
		ctxs := proto.Contexts(otIDs, ks, ctxLabel(name, sess))
		var al *rvole_softspoken.Alice[*k256.Point, *k256.BaseFieldElement, *k256.Scalar]
		var bo *rvole_softspoken.Bob[*k256.Point, *k256.BaseFieldElement, *k256.Scalar]
		d.step(alice, "NewAlice", func() (err error) {
			al, err = rvole_softspoken.NewAlice(ctxs[alice], suite, bs.rcv, rd(taps, alice))
			return err
		})
		d.step(bob, "NewBob", func() (err error) {
			bo, err = rvole_softspoken.NewBob(ctxs[bob], suite, bs.snd, rd(taps, bob))
			return err
		})
		a := k256Scalars(3, 5, 7, 11)[:l]
		var (
			r1 *rvole_softspoken.Round1P2P[*k256.Point, *k256.BaseFieldElement, *k256.Scalar]
			r2 *rvole_softspoken.Round2P2P[*k256.Point, *k256.BaseFieldElement, *k256.Scalar]
		)
		d.step(bob, "Round1", func() (err error) {
			if r1, _, err = bo.Round1(); err == nil {
				d.sent("RVOLESoftspokenRound1", bob, alice, r1)
				r1 = through(r1)
			}
			return err
		})
		d.step(alice, "Round2", func() error {
			m, c, err := al.Round2(r1, a)
			if err != nil {
				return err
			}
			d.sent("RVOLESoftspokenRound2", alice, bob, m)
			r2 = through(m)
			for k, v := range c {
				d.o.joint[fmt.Sprintf("c/%d", k)] = hx(v.Bytes())
			}
			return nil
		})
		d.step(bob, "Round3", func() error {
			dd, err := bo.Round3(r2)
			if err != nil {
				return err
			}
			for k, v := range dd {
				d.o.joint[fmt.Sprintf("d/%d", k)] = hx(v.Bytes())
			}
			return nil
		})
		return d.finish()
	}}
}
