package c19

// Boring math/big reference models used as independent oracles by the hash-to-curve sections:
//
//   - F_p and F_p[i]/(i²+1) arithmetic (one implementation: an F_p element is an F_p² element with zero
//     imaginary part, the formulas are closed on those),
//   - affine group law on y² = x³ + a2·x² + a4·x + a6 (short Weierstrass when a2 = 0, Montgomery curve25519 when
//     a2 = 486662, a4 = 1, a6 = 0) with explicit case analysis, and on the twisted Edwards curve
//     -x² + y² = 1 + d·x²·y²,
//   - expand_message_xmd and hash_to_field written from RFC 9380 §5.2/§5.3.1.
//
// All constants are typed in from the standards (SEC 2, FIPS 186-4, RFC 7748/8032, the pasta and BLS12-381
// specifications), not read from the library. (/verif/mc/ref/curve did not exist when this check was written.)

import (
	"hash"
	"math/big"
)

func hexInt(s string) *big.Int {
	v, ok := new(big.Int).SetString(s, 16)
	if !ok {
		panic("bad hex constant " + s)
	}
	return v
}

// el is a + b·i.
type el struct{ a, b *big.Int }

type fieldRef struct{ p *big.Int }

// zeroInt is the shared imaginary part of prime-field elements; it is never written to.
var zeroInt = new(big.Int)

func (f fieldRef) red(a *big.Int) *big.Int { return a.Mod(a, f.p) } // a is a temporary owned by the caller

// mk copies and reduces (for constants); own reduces temporaries in place.
func (f fieldRef) mk(a, b *big.Int) el {
	return el{new(big.Int).Mod(a, f.p), new(big.Int).Mod(b, f.p)}
}
func (f fieldRef) own(a, b *big.Int) el { return el{f.red(a), f.red(b)} }
func (f fieldRef) fromInt(v int64) el   { return f.mk(big.NewInt(v), zeroInt) }
func (f fieldRef) add(x, y el) el {
	if x.b.Sign() == 0 && y.b.Sign() == 0 {
		return el{f.red(new(big.Int).Add(x.a, y.a)), zeroInt}
	}
	return f.own(new(big.Int).Add(x.a, y.a), new(big.Int).Add(x.b, y.b))
}
func (f fieldRef) sub(x, y el) el {
	if x.b.Sign() == 0 && y.b.Sign() == 0 {
		return el{f.red(new(big.Int).Sub(x.a, y.a)), zeroInt}
	}
	return f.own(new(big.Int).Sub(x.a, y.a), new(big.Int).Sub(x.b, y.b))
}
func (f fieldRef) neg(x el) el { return f.sub(f.fromInt(0), x) }
func (f fieldRef) mul(x, y el) el {
	if x.b.Sign() == 0 && y.b.Sign() == 0 { // both in the prime field
		return el{f.red(new(big.Int).Mul(x.a, y.a)), zeroInt}
	}
	ac := new(big.Int).Mul(x.a, y.a)
	bd := new(big.Int).Mul(x.b, y.b)
	ad := new(big.Int).Mul(x.a, y.b)
	bc := new(big.Int).Mul(x.b, y.a)
	return f.own(ac.Sub(ac, bd), ad.Add(ad, bc))
}
func (f fieldRef) sqr(x el) el       { return f.mul(x, x) }
func (f fieldRef) isZero(x el) bool  { return x.a.Sign() == 0 && x.b.Sign() == 0 }
func (f fieldRef) eq(x, y el) bool   { return x.a.Cmp(y.a) == 0 && x.b.Cmp(y.b) == 0 }
func (f fieldRef) inRange(x el) bool { return x.a.Sign() >= 0 && x.a.Cmp(f.p) < 0 && x.b.Sign() >= 0 && x.b.Cmp(f.p) < 0 }

// inv: 1/(a+bi) = (a-bi)/(a²+b²); panics on zero (callers exclude it).
func (f fieldRef) inv(x el) el {
	if x.b.Sign() == 0 { // prime field
		ai := new(big.Int).ModInverse(x.a, f.p)
		if ai == nil {
			panic("reference field: inverse of zero")
		}
		return el{ai, zeroInt}
	}
	n := new(big.Int).Mul(x.a, x.a)
	n.Add(n, new(big.Int).Mul(x.b, x.b))
	n.Mod(n, f.p)
	ni := new(big.Int).ModInverse(n, f.p)
	if ni == nil {
		panic("reference field: inverse of zero")
	}
	return f.own(new(big.Int).Mul(x.a, ni), new(big.Int).Mul(new(big.Int).Neg(x.b), ni))
}

// pt is an affine point or the neutral element.
type pt struct {
	x, y el
	inf  bool
}

// groupRef is a reference group: membership in the curve, neutral element, addition.
type groupRef interface {
	onCurve(p pt) bool
	add(p, q pt) pt
	neutral() pt
	isNeutral(p pt) bool
}

// wCurve: y² = x³ + a2·x² + a4·x + a6 over f; the neutral element is the point at infinity.
type wCurve struct {
	f          fieldRef
	a2, a4, a6 el
}

func (c wCurve) neutral() pt         { return pt{inf: true} }
func (c wCurve) isNeutral(p pt) bool { return p.inf }
func (c wCurve) onCurve(p pt) bool {
	if p.inf {
		return true
	}
	f := c.f
	if !f.inRange(p.x) || !f.inRange(p.y) {
		return false
	}
	x2 := f.sqr(p.x)
	rhs := f.add(f.add(f.mul(x2, p.x), f.mul(c.a2, x2)), f.add(f.mul(c.a4, p.x), c.a6))
	return f.eq(f.sqr(p.y), rhs)
}
func (c wCurve) add(p, q pt) pt {
	f := c.f
	switch {
	case p.inf:
		return q
	case q.inf:
		return p
	}
	var lam el
	if f.eq(p.x, q.x) {
		if f.isZero(f.add(p.y, q.y)) {
			return pt{inf: true} // opposite points (includes doubling a point of order 2)
		}
		// doubling: (3x² + 2·a2·x + a4) / 2y
		num := f.add(f.add(f.mul(f.fromInt(3), f.sqr(p.x)), f.mul(f.mul(f.fromInt(2), c.a2), p.x)), c.a4)
		lam = f.mul(num, f.inv(f.mul(f.fromInt(2), p.y)))
	} else {
		lam = f.mul(f.sub(q.y, p.y), f.inv(f.sub(q.x, p.x)))
	}
	x3 := f.sub(f.sub(f.sub(f.sqr(lam), c.a2), p.x), q.x)
	y3 := f.sub(f.mul(lam, f.sub(p.x, x3)), p.y)
	return pt{x: x3, y: y3}
}

// eCurve: a·x² + y² = 1 + d·x²·y² (a = -1, d non-square: the affine law below is complete); neutral (0,1).
type eCurve struct {
	f    fieldRef
	a, d el
}

func (c eCurve) neutral() pt { return pt{x: c.f.fromInt(0), y: c.f.fromInt(1)} }
func (c eCurve) isNeutral(p pt) bool {
	return !p.inf && c.f.isZero(p.x) && c.f.eq(p.y, c.f.fromInt(1))
}
func (c eCurve) onCurve(p pt) bool {
	f := c.f
	if p.inf || !f.inRange(p.x) || !f.inRange(p.y) {
		return false
	}
	x2, y2 := f.sqr(p.x), f.sqr(p.y)
	return f.eq(f.add(f.mul(c.a, x2), y2), f.add(f.fromInt(1), f.mul(c.d, f.mul(x2, y2))))
}
func (c eCurve) add(p, q pt) pt {
	f := c.f
	t := f.mul(c.d, f.mul(f.mul(p.x, q.x), f.mul(p.y, q.y)))
	x3 := f.mul(f.add(f.mul(p.x, q.y), f.mul(p.y, q.x)), f.inv(f.add(f.fromInt(1), t)))
	y3 := f.mul(f.sub(f.mul(p.y, q.y), f.mul(c.a, f.mul(p.x, q.x))), f.inv(f.sub(f.fromInt(1), t)))
	return pt{x: x3, y: y3}
}

// scalarMul: left-to-right double-and-add with the reference addition only.
func scalarMul(g groupRef, k *big.Int, p pt) pt {
	acc := g.neutral()
	for i := k.BitLen() - 1; i >= 0; i-- {
		acc = g.add(acc, acc)
		if k.Bit(i) == 1 {
			acc = g.add(acc, p)
		}
	}
	return acc
}

// inPrimeSubgroup: on the curve and annihilated by the prime group order r.
func inPrimeSubgroup(g groupRef, r *big.Int, p pt) bool {
	return g.onCurve(p) && g.isNeutral(scalarMul(g, r, p))
}

// ---- constants --------------------------------------------------------------------------------------------

var (
	pK256   = hexInt("fffffffffffffffffffffffffffffffffffffffffffffffffffffffefffffc2f")
	nK256   = hexInt("fffffffffffffffffffffffffffffffebaaedce6af48a03bbfd25e8cd0364141")
	pP256   = hexInt("ffffffff00000001000000000000000000000000ffffffffffffffffffffffff")
	nP256   = hexInt("ffffffff00000000ffffffffffffffffbce6faada7179e84f3b9cac2fc632551")
	bP256   = hexInt("5ac635d8aa3a93e7b3ebbd55769886bc651d06b0cc53b0f63bce3c3e27d2604b")
	pPallas = hexInt("40000000000000000000000000000000224698fc094cf91b992d30ed00000001") // Pallas base field = Vesta scalar field
	qPallas = hexInt("40000000000000000000000000000000224698fc0994a8dd8c46eb2100000001") // Pallas scalar field = Vesta base field
	pBLS    = hexInt("1a0111ea397fe69a4b1ba7b6434bacd764774b84f38512bf6730d2a0f6b0f6241eabfffeb153ffffb9feffffffffaaab")
	rBLS    = hexInt("73eda753299d7d483339d80809a1d80553bda402fffe5bfeffffffff00000001")
	p25519  = new(big.Int).Sub(new(big.Int).Lsh(big.NewInt(1), 255), big.NewInt(19))
	l25519  = hexInt("1000000000000000000000000000000014def9dea2f79cd65812631a5cf5d3ed")
)

func shortW(p *big.Int, a, b int64) wCurve {
	f := fieldRef{p}
	return wCurve{f: f, a2: f.fromInt(0), a4: f.fromInt(a), a6: f.fromInt(b)}
}

func refK256() wCurve   { return shortW(pK256, 0, 7) }
func refPallas() wCurve { return shortW(pPallas, 0, 5) }
func refVesta() wCurve  { return shortW(qPallas, 0, 5) }
func refG1() wCurve     { return shortW(pBLS, 0, 4) }
func refP256() wCurve {
	c := shortW(pP256, -3, 0)
	c.a6 = c.f.mk(bP256, big.NewInt(0))
	return c
}

// refG2: y² = x³ + 4(1+i) over F_p[i]/(i²+1).
func refG2() wCurve {
	f := fieldRef{pBLS}
	return wCurve{f: f, a2: f.fromInt(0), a4: f.fromInt(0), a6: f.mk(big.NewInt(4), big.NewInt(4))}
}

// refCurve25519: v² = u³ + 486662·u² + u (RFC 7748).
func refCurve25519() wCurve {
	f := fieldRef{p25519}
	return wCurve{f: f, a2: f.fromInt(486662), a4: f.fromInt(1), a6: f.fromInt(0)}
}

// refEd25519: -x² + y² = 1 + d·x²·y², d = -121665/121666 (RFC 8032).
func refEd25519() eCurve {
	f := fieldRef{p25519}
	d := f.mul(f.neg(f.fromInt(121665)), f.inv(f.fromInt(121666)))
	return eCurve{f: f, a: f.neg(f.fromInt(1)), d: d}
}

// ---- RFC 9380 §5.3.1 expand_message_xmd and §5.2 hash_to_field ------------------------------------------------

func refExpandXMD(newH func() hash.Hash, msg, dst []byte, n int) []byte {
	h := newH()
	bLen, sLen := h.Size(), h.BlockSize()
	if len(dst) > 255 {
		h.Write([]byte("H2C-OVERSIZE-DST-"))
		h.Write(dst)
		dst = h.Sum(nil)
		h.Reset()
	}
	ell := (n + bLen - 1) / bLen
	if ell > 255 || n > 65535 {
		panic("reference xmd: length out of range")
	}
	dstPrime := append(append([]byte{}, dst...), byte(len(dst)))
	h.Write(make([]byte, sLen))
	h.Write(msg)
	h.Write([]byte{byte(n >> 8), byte(n)})
	h.Write([]byte{0})
	h.Write(dstPrime)
	b0 := h.Sum(nil)
	h.Reset()
	h.Write(b0)
	h.Write([]byte{1})
	h.Write(dstPrime)
	bi := h.Sum(nil)
	out := append([]byte{}, bi...)
	for i := 2; i <= ell; i++ {
		x := make([]byte, bLen)
		for j := range x {
			x[j] = b0[j] ^ bi[j]
		}
		h.Reset()
		h.Write(x)
		h.Write([]byte{byte(i)})
		h.Write(dstPrime)
		bi = h.Sum(nil)
		out = append(out, bi...)
	}
	return out[:n]
}

// refHashToField returns count elements of F_{p^m} (m = 1 or 2) as [count][m]*big.Int.
func refHashToField(newH func() hash.Hash, msg, dst []byte, p *big.Int, m, l, count int) [][]*big.Int {
	u := refExpandXMD(newH, msg, dst, count*m*l)
	out := make([][]*big.Int, count)
	for i := 0; i < count; i++ {
		out[i] = make([]*big.Int, m)
		for j := 0; j < m; j++ {
			off := l * (j + i*m)
			out[i][j] = new(big.Int).Mod(new(big.Int).SetBytes(u[off:off+l]), p)
		}
	}
	return out
}
