package proto

// C01 drivers of the two Paillier-based ECDSA protocols: Lindell17 (two parties: primary / secondary) and CGGMP21.

import (
	"context"
	"fmt"

	"github.com/bronlabs/bron-crypto/pkg/base/algebra"
	"github.com/bronlabs/bron-crypto/pkg/base/curves"
	ds "github.com/bronlabs/bron-crypto/pkg/base/datastructures"
	"github.com/bronlabs/bron-crypto/pkg/mcrt"
	"github.com/bronlabs/bron-crypto/pkg/mpc"
	"github.com/bronlabs/bron-crypto/pkg/mpc/sharing/accessstructures"
	"github.com/bronlabs/bron-crypto/pkg/mpc/signatures/ecdsa/cggmp21"
	cgdkg "github.com/bronlabs/bron-crypto/pkg/mpc/signatures/ecdsa/cggmp21/keygen/dkg"
	cgdealer "github.com/bronlabs/bron-crypto/pkg/mpc/signatures/ecdsa/cggmp21/keygen/trusteddealer"
	cgsigning "github.com/bronlabs/bron-crypto/pkg/mpc/signatures/ecdsa/cggmp21/signing"
	"github.com/bronlabs/bron-crypto/pkg/mpc/signatures/ecdsa/lindell17"
	l17dkg "github.com/bronlabs/bron-crypto/pkg/mpc/signatures/ecdsa/lindell17/keygen/dkg"
	l17dealer "github.com/bronlabs/bron-crypto/pkg/mpc/signatures/ecdsa/lindell17/keygen/trusted_dealer"
	l17signing "github.com/bronlabs/bron-crypto/pkg/mpc/signatures/ecdsa/lindell17/signing"
	"github.com/bronlabs/bron-crypto/pkg/network"
	"github.com/bronlabs/bron-crypto/pkg/proofs/sigma/compiler"
	"github.com/bronlabs/bron-crypto/pkg/proofs/sigma/compiler/fiatshamir"
	"github.com/bronlabs/bron-crypto/pkg/signatures/ecdsa"

	"verifmc/det"
	"verifmc/schednet"
)

// ---------------------------------------------------------------------------------------------------------------
// Lindell17

// C01Lindell17Deal: the protocol's own trusted dealer (base shards + Paillier keys + encrypted shares).
func C01Lindell17Deal[P curves.Point[P, B, S], B algebra.PrimeFieldElement[B], S algebra.PrimeFieldElement[S]](curve ecdsa.Curve[P, B, S], ac accessstructures.Monotone, keyLen uint, seed int64, label string) (map[ID]*lindell17.Shard[P, B, S], error) {
	m, _, err := l17dealer.DealRandom(curve, ac, keyLen, det.New(seed, "c01/l17/deal/"+label))
	if err != nil {
		return nil, err
	}
	out := map[ID]*lindell17.Shard[P, B, S]{}
	for id, sh := range m.Iter() {
		out[id] = sh
	}
	return out, nil
}

// C01Lindell17DKG: the protocol's auxiliary-information DKG (8 rounds, round-by-round API) over given base shards.
func C01Lindell17DKG[P curves.Point[P, B, S], B algebra.PrimeFieldElement[B], S algebra.PrimeFieldElement[S]](curve ecdsa.Curve[P, B, S], base map[ID]*mpc.BaseShard[P, S], keyLen int, seed int64, label string) (map[ID]*lindell17.Shard[P, B, S], error) {
	var ids []ID
	for id := range base {
		ids = append(ids, id)
	}
	ids = Sorted(ids)
	ctxs := Contexts(ids, seed, "c01/l17/dkg/"+label)
	ps := map[ID]*l17dkg.Participant[P, B, S]{}
	for _, id := range ids {
		p, err := l17dkg.NewParticipant(ctxs[id], base[id], keyLen, curve, det.New(seed, fmt.Sprintf("c01/l17/dkg/%s/%d", label, id)), fiatshamir.Name)
		if err != nil {
			return nil, fmt.Errorf("lindell17 dkg.NewParticipant(%d): %w", id, err)
		}
		ps[id] = p
	}
	fail := func(id ID, r int, err error) error {
		return fmt.Errorf("lindell17 dkg party %d Round%d: %w", id, r, err)
	}
	r1 := map[ID]*l17dkg.Round1Broadcast[P, B, S]{}
	for _, id := range ids {
		m, err := ps[id].Round1()
		if err != nil {
			return nil, fail(id, 1, err)
		}
		r1[id] = m
	}
	in1 := c01B(ids, r1)
	r2 := map[ID]*l17dkg.Round2Broadcast[P, B, S]{}
	for _, id := range ids {
		m, err := ps[id].Round2(in1[id])
		if err != nil {
			return nil, fail(id, 2, err)
		}
		r2[id] = m
	}
	in2 := c01B(ids, r2)
	r3 := map[ID]*l17dkg.Round3Broadcast[P, B, S]{}
	for _, id := range ids {
		m, err := ps[id].Round3(in2[id])
		if err != nil {
			return nil, fail(id, 3, err)
		}
		r3[id] = m
	}
	in3 := c01B(ids, r3)
	r4 := map[ID]ds.Map[ID, *l17dkg.Round4P2P[P, B, S]]{}
	for _, id := range ids {
		m, err := ps[id].Round4(in3[id])
		if err != nil {
			return nil, fail(id, 4, err)
		}
		r4[id] = m
	}
	in4 := c01U(ids, r4)
	r5 := map[ID]ds.Map[ID, *l17dkg.Round5P2P[P, B, S]]{}
	for _, id := range ids {
		m, err := ps[id].Round5(in4[id])
		if err != nil {
			return nil, fail(id, 5, err)
		}
		r5[id] = m
	}
	in5 := c01U(ids, r5)
	r6 := map[ID]ds.Map[ID, *l17dkg.Round6P2P[P, B, S]]{}
	for _, id := range ids {
		m, err := ps[id].Round6(in5[id])
		if err != nil {
			return nil, fail(id, 6, err)
		}
		r6[id] = m
	}
	in6 := c01U(ids, r6)
	r7 := map[ID]ds.Map[ID, *l17dkg.Round7P2P[P, B, S]]{}
	for _, id := range ids {
		m, err := ps[id].Round7(in6[id])
		if err != nil {
			return nil, fail(id, 7, err)
		}
		r7[id] = m
	}
	in7 := c01U(ids, r7)
	out := map[ID]*lindell17.Shard[P, B, S]{}
	for _, id := range ids {
		sh, err := ps[id].Round8(in7[id])
		if err != nil {
			return nil, fail(id, 8, err)
		}
		out[id] = sh
	}
	return out, nil
}

// C01Lindell17New only constructs the two cosigners.
func C01Lindell17New[P curves.Point[P, B, S], B algebra.PrimeFieldElement[B], S algebra.PrimeFieldElement[S]](suite *ecdsa.Suite[P, B, S], shards map[ID]*lindell17.Shard[P, B, S], primary, secondary ID, nic compiler.Name, seed int64, label string) (errPrimary, errSecondary error) {
	ctxs := Contexts([]ID{primary, secondary}, KeySeed(seed), "c01/l17/"+label)
	_, errPrimary = l17signing.NewPrimaryCosigner(ctxs[primary], suite, secondary, shards[primary], nic, det.New(seed, fmt.Sprintf("c01/l17/%s/%d", label, primary)))
	_, errSecondary = l17signing.NewSecondaryCosigner(ctxs[secondary], suite, primary, shards[secondary], nic, det.New(seed, fmt.Sprintf("c01/l17/%s/%d", label, secondary)))
	return errPrimary, errSecondary
}

// C01Lindell17Rounds: primary and secondary sign through the round-by-round API. Only the primary ends with the
// signature.
func C01Lindell17Rounds[P curves.Point[P, B, S], B algebra.PrimeFieldElement[B], S algebra.PrimeFieldElement[S]](suite *ecdsa.Suite[P, B, S], shards map[ID]*lindell17.Shard[P, B, S], primary, secondary ID, nic compiler.Name, message []byte, seed int64, label string) *C01Out[*ecdsa.Signature[S]] {
	out := c01NewOut[*ecdsa.Signature[S]]()
	out.Want = []string{c01Party(primary)}
	ctxs := Contexts([]ID{primary, secondary}, KeySeed(seed), "c01/l17/"+label)
	pc, err := l17signing.NewPrimaryCosigner(ctxs[primary], suite, secondary, c01Wire(shards[primary]), nic, det.New(seed, fmt.Sprintf("c01/l17/%s/%d", label, primary)))
	if err != nil {
		out.Errs[c01Party(primary)+"/new"] = err
		out.Refused = err
	}
	sc, err := l17signing.NewSecondaryCosigner(ctxs[secondary], suite, primary, c01Wire(shards[secondary]), nic, det.New(seed, fmt.Sprintf("c01/l17/%s/%d", label, secondary)))
	if err != nil {
		out.Errs[c01Party(secondary)+"/new"] = err
		out.Refused = err
	}
	if out.Refused != nil {
		return out
	}
	r1, err := pc.Round1()
	if err != nil {
		out.Errs[c01Party(primary)+"/round1"] = err
		return out
	}
	r2, err := sc.Round2(c01Wire(r1))
	if err != nil {
		out.Errs[c01Party(secondary)+"/round2"] = err
		return out
	}
	r3, err := pc.Round3(c01Wire(r2))
	if err != nil {
		out.Errs[c01Party(primary)+"/round3"] = err
		return out
	}
	r4, err := sc.Round4(c01Wire(r3), message)
	if err != nil {
		out.Errs[c01Party(secondary)+"/round4"] = err
		return out
	}
	sig, err := pc.Round5(c01Wire(r4), message)
	if err != nil {
		out.Errs[c01Party(primary)+"/round5"] = err
		return out
	}
	if sig == nil {
		out.Errs[c01Party(primary)+"/round5"] = fmt.Errorf("nil signature returned without error")
		return out
	}
	out.Sigs[c01Party(primary)] = sig
	return out
}

// C01Lindell17Run: the same through the two runners over routers.
func C01Lindell17Run[P curves.Point[P, B, S], B algebra.PrimeFieldElement[B], S algebra.PrimeFieldElement[S]](x mcrt.Chooser, net *schednet.Net, suite *ecdsa.Suite[P, B, S], shards map[ID]*lindell17.Shard[P, B, S], primary, secondary ID, nic compiler.Name, message []byte, seed int64, label string) *C01Out[*ecdsa.Signature[S]] {
	out := c01NewOut[*ecdsa.Signature[S]]()
	out.Want = []string{c01Party(primary)}
	ids := Sorted([]ID{primary, secondary})
	ctxs := Contexts(ids, KeySeed(seed), "c01/l17/"+label)
	res, info := schednet.RunAll(x, net, ids, func(ctx context.Context, id ID, rt *network.Router) (*ecdsa.Signature[S], error) {
		prng := det.New(seed, fmt.Sprintf("c01/l17/%s/%d", label, id))
		var r network.Runner[*ecdsa.Signature[S]]
		var err error
		if id == primary {
			r, err = l17signing.NewPrimaryRunner(ctxs[id], suite, secondary, shards[id], nic, prng, message)
		} else {
			r, err = l17signing.NewSecondaryRunner(ctxs[id], suite, primary, shards[id], nic, prng, message)
		}
		if err != nil {
			return nil, err
		}
		return r.Run(ctx, rt, nil)
	})
	ok := c01Collect(out, ids, res, info)
	if sig, fine := ok[primary]; fine {
		if sig == nil {
			out.Errs[c01Party(primary)+"/run"] = fmt.Errorf("nil signature returned without error")
		} else {
			out.Sigs[c01Party(primary)] = sig
		}
	}
	if sig, fine := ok[secondary]; fine && sig != nil {
		out.Sigs[c01Party(secondary)] = sig // not expected by the protocol, but if it is there it must be the same one
	}
	return out
}

// ---------------------------------------------------------------------------------------------------------------
// CGGMP21

// C01CGGMP21Deal: the protocol's trusted dealer (base shards + Paillier + ring-Pedersen keys).
func C01CGGMP21Deal[P curves.Point[P, B, S], B algebra.PrimeFieldElement[B], S algebra.PrimeFieldElement[S]](curve ecdsa.Curve[P, B, S], ac accessstructures.Monotone, keyLen int, seed int64, label string) (map[ID]*cggmp21.Shard[P, B, S], error) {
	return cgdealer.Deal(curve, ac, keyLen, det.New(seed, "c01/cggmp21/deal/"+label))
}

// C01CGGMP21AuxDKG: the auxiliary-information DKG (round-by-round) over given base shards.
func C01CGGMP21AuxDKG[P curves.Point[P, B, S], B algebra.PrimeFieldElement[B], S algebra.PrimeFieldElement[S]](base map[ID]*mpc.BaseShard[P, S], seed int64, label string) (map[ID]*cggmp21.Shard[P, B, S], error) {
	var ids []ID
	for id := range base {
		ids = append(ids, id)
	}
	ids = Sorted(ids)
	ctxs := Contexts(ids, seed, "c01/cggmp21/dkg/"+label)
	ps := map[ID]*cgdkg.Participant[P, B, S]{}
	for _, id := range ids {
		p, err := cgdkg.NewParticipant[P, B, S](ctxs[id], base[id], det.New(seed, fmt.Sprintf("c01/cggmp21/dkg/%s/%d", label, id)))
		if err != nil {
			return nil, fmt.Errorf("cggmp21 dkg.NewParticipant(%d): %w", id, err)
		}
		ps[id] = p
	}
	return c01CGGMP21AuxRounds(ids, ps)
}

// C01CGGMP21New only constructs the cosigners of a party set.
func C01CGGMP21New[P curves.Point[P, B, S], B algebra.PrimeFieldElement[B], S algebra.PrimeFieldElement[S]](suite *ecdsa.Suite[P, B, S], shards map[ID]*cggmp21.Shard[P, B, S], quorum []ID, seed int64, label string) map[ID]error {
	ctxs := Contexts(quorum, KeySeed(seed), "c01/cggmp21/"+label)
	out := map[ID]error{}
	for _, id := range quorum {
		_, err := cgsigning.NewCosigner(ctxs[id], suite, shards[id], det.New(seed, fmt.Sprintf("c01/cggmp21/%s/%d", label, id)))
		out[id] = err
	}
	return out
}

// C01CGGMP21Rounds: online signing through the round-by-round API; aggregation by the stateless (non-cosigning)
// aggregator, the only one this API exposes.
func C01CGGMP21Rounds[P curves.Point[P, B, S], B algebra.PrimeFieldElement[B], S algebra.PrimeFieldElement[S]](suite *ecdsa.Suite[P, B, S], shards map[ID]*cggmp21.Shard[P, B, S], quorum []ID, message []byte, seed int64, label string) *C01Out[*ecdsa.Signature[S]] {
	out := c01NewOut[*ecdsa.Signature[S]]()
	quorum = Sorted(quorum)
	out.Want = []string{c01AggOutside}
	ctxs := Contexts(quorum, KeySeed(seed), "c01/cggmp21/"+label)
	cs := map[ID]*cgsigning.Cosigner[P, B, S]{}
	for _, id := range quorum {
		c, err := cgsigning.NewCosigner(ctxs[id], suite, shards[id], det.New(seed, fmt.Sprintf("c01/cggmp21/%s/%d", label, id)))
		if err != nil {
			out.Errs[c01Party(id)+"/new"] = err
			if out.Refused == nil {
				out.Refused = err
			}
			continue
		}
		cs[id] = c
	}
	if out.Refused != nil {
		return out
	}
	r1b := map[ID]*cgsigning.Round1Broadcast[P, B, S]{}
	r1u := map[ID]ds.Map[ID, *cgsigning.Round1P2P[P, B, S]]{}
	for _, id := range quorum {
		b, u, err := cs[id].Round1()
		if err != nil {
			out.Errs[c01Party(id)+"/round1"] = err
			return out
		}
		r1b[id], r1u[id] = b, u
	}
	in1b, in1u := c01B(quorum, r1b), c01U(quorum, r1u)
	r2b := map[ID]*cgsigning.Round2Broadcast[P, B, S]{}
	r2u := map[ID]ds.Map[ID, *cgsigning.Round2P2P[P, B, S]]{}
	for _, id := range quorum {
		b, u, err := cs[id].Round2(in1b[id], in1u[id])
		if err != nil {
			out.Errs[c01Party(id)+"/round2"] = err
			return out
		}
		r2b[id], r2u[id] = b, u
	}
	in2b, in2u := c01B(quorum, r2b), c01U(quorum, r2u)
	r3b := map[ID]*cgsigning.Round3Broadcast[P, B, S]{}
	for _, id := range quorum {
		b, err := cs[id].Round3(in2b[id], in2u[id])
		if err != nil {
			out.Errs[c01Party(id)+"/round3"] = err
			return out
		}
		r3b[id] = b
	}
	in3b := c01B(quorum, r3b)
	ps := map[ID]*cggmp21.PartialSignature[P, B, S]{}
	for _, id := range quorum {
		p, red, err := cs[id].Round4(in3b[id], message)
		if err != nil {
			out.Errs[c01Party(id)+"/round4"] = err
			return out
		}
		if red != nil {
			out.Errs[c01Party(id)+"/round4"] = fmt.Errorf("honest run entered the red-alert (culprit identification) path")
			return out
		}
		if p == nil {
			out.Errs[c01Party(id)+"/round4"] = fmt.Errorf("nil partial signature returned without error")
			return out
		}
		ps[id] = c01Wire(p)
	}
	agg, err := cgsigning.NewNonCosigningAggregator(suite.Curve())
	if err != nil {
		out.Errs[c01AggOutside] = err
		return out
	}
	sig, err := agg.Aggregate(ps)
	if err != nil {
		out.Errs[c01AggOutside] = err
		return out
	}
	out.Sigs[c01AggOutside] = sig
	return out
}

// C01CGGMP21Run: online signing through the runners; every party aggregates with its cosigning aggregator, an
// outside party with the stateless one.
func C01CGGMP21Run[P curves.Point[P, B, S], B algebra.PrimeFieldElement[B], S algebra.PrimeFieldElement[S]](x mcrt.Chooser, net *schednet.Net, suite *ecdsa.Suite[P, B, S], shards map[ID]*cggmp21.Shard[P, B, S], quorum []ID, message []byte, seed int64, label string) *C01Out[*ecdsa.Signature[S]] {
	out := c01NewOut[*ecdsa.Signature[S]]()
	quorum = Sorted(quorum)
	out.Want = append(out.Want, c01AggOutside)
	for _, id := range quorum {
		out.Want = append(out.Want, c01AggParty(id))
	}
	ctxs := Contexts(quorum, KeySeed(seed), "c01/cggmp21/"+label)
	res, info := schednet.RunAll(x, net, quorum, func(ctx context.Context, id ID, rt *network.Router) (*cgsigning.SignResult[P, B, S], error) {
		r, err := cgsigning.NewRunner(ctxs[id], suite, shards[id], message, det.New(seed, fmt.Sprintf("c01/cggmp21/%s/%d", label, id)))
		if err != nil {
			return nil, err
		}
		return r.Run(ctx, rt, nil)
	})
	ok := c01Collect(out, quorum, res, info)
	if len(ok) != len(quorum) {
		return out
	}
	ps := map[ID]*cggmp21.PartialSignature[P, B, S]{}
	for id, r := range ok {
		if r == nil || r.PartialSignature() == nil || r.PartialSignatureCosigningAggregator() == nil {
			out.Errs[c01Party(id)+"/run"] = fmt.Errorf("incomplete sign result returned without error")
			return out
		}
		ps[id] = c01Wire(r.PartialSignature())
	}
	for _, id := range quorum {
		sig, err := ok[id].PartialSignatureCosigningAggregator().Aggregate(ps)
		if err != nil {
			out.Errs[c01AggParty(id)] = err
			continue
		}
		out.Sigs[c01AggParty(id)] = sig
	}
	agg, err := cgsigning.NewNonCosigningAggregator(suite.Curve())
	if err != nil {
		out.Errs[c01AggOutside] = err
		return out
	}
	sig, err := agg.Aggregate(ps)
	if err != nil {
		out.Errs[c01AggOutside] = err
		return out
	}
	out.Sigs[c01AggOutside] = sig
	return out
}

func c01CGGMP21AuxRounds[P curves.Point[P, B, S], B algebra.PrimeFieldElement[B], S algebra.PrimeFieldElement[S]](ids []ID, ps map[ID]*cgdkg.Participant[P, B, S]) (map[ID]*cggmp21.Shard[P, B, S], error) {
	fail := func(id ID, r int, err error) error { return fmt.Errorf("cggmp21 dkg party %d Round%d: %w", id, r, err) }
	r1 := map[ID]*cgdkg.Round1Broadcast[P, B, S]{}
	for _, id := range ids {
		m, err := ps[id].Round1()
		if err != nil {
			return nil, fail(id, 1, err)
		}
		r1[id] = m
	}
	in1 := c01B(ids, r1)
	r2 := map[ID]*cgdkg.Round2Broadcast[P, B, S]{}
	for _, id := range ids {
		m, err := ps[id].Round2(in1[id])
		if err != nil {
			return nil, fail(id, 2, err)
		}
		r2[id] = m
	}
	in2 := c01B(ids, r2)
	r3 := map[ID]ds.Map[ID, *cgdkg.Round3P2P[P, B, S]]{}
	for _, id := range ids {
		m, err := ps[id].Round3(in2[id])
		if err != nil {
			return nil, fail(id, 3, err)
		}
		r3[id] = m
	}
	in3 := c01U(ids, r3)
	out := map[ID]*cggmp21.Shard[P, B, S]{}
	for _, id := range ids {
		sh, err := ps[id].Round4(in3[id])
		if err != nil {
			return nil, fail(id, 4, err)
		}
		out[id] = sh
	}
	return out, nil
}

// C01CGGMP21Partials runs the signing runners honestly (default schedule) and returns every cosigner's partial signature.
func C01CGGMP21Partials[P curves.Point[P, B, S], B algebra.PrimeFieldElement[B], S algebra.PrimeFieldElement[S]](suite *ecdsa.Suite[P, B, S], shards map[ID]*cggmp21.Shard[P, B, S], quorum []ID, message []byte, seed int64, label string) (map[ID]*cggmp21.PartialSignature[P, B, S], map[ID]cgsigning.PartialSignatureAggregator[P, B, S], error) {
	quorum = Sorted(quorum)
	ctxs := Contexts(quorum, KeySeed(seed), "c01/cggmp21/"+label)
	res, info := schednet.RunAll(zeroChooserC01{}, schednet.New(quorum...), quorum, func(ctx context.Context, id ID, rt *network.Router) (*cgsigning.SignResult[P, B, S], error) {
		r, err := cgsigning.NewRunner(ctxs[id], suite, shards[id], message, det.New(seed, fmt.Sprintf("c01/cggmp21/%s/%d", label, id)))
		if err != nil {
			return nil, err
		}
		return r.Run(ctx, rt, nil)
	})
	out := c01NewOut[*ecdsa.Signature[S]]()
	ok := c01Collect(out, quorum, res, info)
	if len(ok) != len(quorum) {
		return nil, nil, fmt.Errorf("honest CGGMP21 run failed: %v", out.Errs)
	}
	ps := map[ID]*cggmp21.PartialSignature[P, B, S]{}
	aggs := map[ID]cgsigning.PartialSignatureAggregator[P, B, S]{}
	for id, r := range ok {
		if r == nil || r.PartialSignature() == nil || r.PartialSignatureCosigningAggregator() == nil {
			return nil, nil, fmt.Errorf("party %d returned an incomplete sign result", id)
		}
		ps[id] = r.PartialSignature()
		aggs[id] = r.PartialSignatureCosigningAggregator()
	}
	return ps, aggs, nil
}
