package c10

import (
	"bytes"
	"fmt"
	"io"
	"sort"

	"github.com/bronlabs/bron-crypto/pkg/base"
	"github.com/bronlabs/bron-crypto/pkg/base/datastructures/hashmap"
	"github.com/bronlabs/bron-crypto/pkg/base/datastructures/hashset"
	"github.com/bronlabs/bron-crypto/pkg/base/serde"
	"github.com/bronlabs/bron-crypto/pkg/mpc/session"
	"github.com/bronlabs/bron-crypto/pkg/mpc/sharing"
	"github.com/bronlabs/bron-crypto/pkg/network"

	"verifmc/det"
	"verifmc/engine"
	"verifmc/ref/cbor"
)

// ---------------------------------------------------------------------------------------------------------------
// The four messages of the setup protocol.

type msgKind int

const (
	kR1B msgKind = iota // Round1Broadcast  (output of Round1, input of Round2)
	kR2B                // Round2Broadcast  (output of Round2, input of Round3)
	kR2U                // Round2P2P        (output of Round2, input of Round3)
	kR3U                // Round3P2P        (output of Round3, input of Round4)
	numKinds
)

var kindName = [...]string{"Round1Broadcast", "Round2Broadcast", "Round2P2P", "Round3P2P"}

func (k msgKind) unicast() bool { return k == kR2U || k == kR3U }

// fault alters ONE message of ONE sender: for a broadcast the same alteration is delivered to every recipient (that
// is what echo broadcast enforces, C11), for a unicast only the copy addressed to `to` is altered.
type fault struct {
	kind  msgKind
	from  sharing.ID
	to    sharing.ID // unicast only
	apply func(root *cbor.Node)
}

func (f *fault) hits(k msgKind, from, to sharing.ID) bool {
	if f == nil || f.kind != k || f.from != from {
		return false
	}
	return !k.unicast() || f.to == to
}

// party is one participant of one session run together with how it ended.
type party struct {
	id       sharing.ID
	p        *session.Participant
	ctx      *session.Context // non-nil: completed
	err      error            // the error returned by round errRound
	errRound int
	starved  int    // round the party could not enter because an input was never produced (0 = not starved)
	panicMsg string // a round panicked
}

func (pt *party) alive() bool { return pt.err == nil && pt.starved == 0 && pt.panicMsg == "" }

func (pt *party) step(round int, fn func() error) {
	defer func() {
		if r := recover(); r != nil {
			if he, ok := r.(engine.HarnessError); ok {
				panic(he)
			}
			pt.panicMsg = fmt.Sprintf("Round%d panicked: %v", round, r)
		}
	}()
	if err := fn(); err != nil {
		pt.err, pt.errRound = err, round
	}
}

// blame is the set of identities the party's error names as malicious, sorted.
func (pt *party) blame() []sharing.ID {
	if pt.err == nil {
		return nil
	}
	set := map[sharing.ID]bool{}
	for _, id := range base.GetMaliciousIdentities[sharing.ID](pt.err) {
		set[id] = true
	}
	out := make([]sharing.ID, 0, len(set))
	for id := range set {
		out = append(out, id)
	}
	sort.Slice(out, func(i, j int) bool { return out[i] < out[j] })
	return out
}

func (pt *party) outcome() string {
	switch {
	case pt.panicMsg != "":
		return "panic"
	case pt.ctx != nil:
		return "completed"
	case pt.err != nil:
		return fmt.Sprintf("rejected@Round%d blame=%v", pt.errRound, pt.blame())
	case pt.starved != 0:
		return fmt.Sprintf("starved@Round%d", pt.starved)
	}
	return "?"
}

// sessionRun is one execution of the setup protocol by all parties of `ids`.
type sessionRun struct {
	ids     []sharing.ID
	parties map[sharing.ID]*party
	wire    map[string][]byte // the bytes of every message as produced by its (honest) sender, before any alteration
	altered int               // number of deliveries that carried altered bytes
	noop    bool              // the alteration did not change the bytes
}

func wkey(k msgKind, from, to sharing.ID) string {
	if !k.unicast() {
		to = 0
	}
	return fmt.Sprintf("%d/%d/%d", k, from, to)
}

// deliver carries one message from `from` to `to`. With useWire it goes through the library's real wire encoding
// (serde.MarshalCBOR / UnmarshalCBOR); the alteration, if any, is applied to one leaf of the lossless CBOR tree.
func deliver[M any](sr *sessionRun, k msgKind, from, to sharing.ID, m M, useWire bool, f *fault) M {
	if !useWire {
		if f != nil {
			panic(engine.HarnessError{Msg: "fault injection requires the wire path"})
		}
		return m
	}
	b, err := serde.MarshalCBOR(m)
	if err != nil {
		panic(engine.HarnessError{Msg: fmt.Sprintf("cannot marshal %s: %v", kindName[k], err)})
	}
	sr.wire[wkey(k, from, to)] = b
	if f.hits(k, from, to) {
		tree, err := cbor.Parse(b)
		if err != nil || !bytes.Equal(cbor.Encode(tree), b) {
			panic(engine.HarnessError{Msg: fmt.Sprintf("CBOR walker is not lossless on %s: %v", kindName[k], err)})
		}
		f.apply(tree)
		nb := cbor.Encode(tree)
		if bytes.Equal(nb, b) {
			sr.noop = true
		}
		b = nb
		sr.altered++
	}
	out, err := serde.UnmarshalCBOR[M](b)
	if err != nil {
		// the operators used here keep type and length of the leaf, so the decoder has no reason to refuse
		panic(engine.HarnessError{Msg: fmt.Sprintf("altered %s no longer decodes: %v", kindName[k], err)})
	}
	return out
}

// runSession drives Round1..Round4 of every party. A party that returned an error or panicked stops; a party whose
// input for the next round was never produced (because its sender stopped) is recorded as starved and stops too.
func runSession(ids []sharing.ID, stream func(sharing.ID) io.Reader, useWire bool, f *fault) *sessionRun {
	quorum := hashset.NewComparable(ids...).Freeze()
	sr := &sessionRun{ids: ids, parties: map[sharing.ID]*party{}, wire: map[string][]byte{}}
	for _, id := range ids {
		pt := &party{id: id}
		sr.parties[id] = pt
		pt.step(0, func() error {
			p, err := session.NewParticipant(id, quorum, stream(id))
			pt.p = p
			return err
		})
	}

	// Round 1
	r1 := map[sharing.ID]*session.Round1Broadcast{}
	for _, id := range ids {
		pt := sr.parties[id]
		if !pt.alive() {
			continue
		}
		pt.step(1, func() error {
			m, err := pt.p.Round1()
			if err == nil {
				r1[id] = m
			}
			return err
		})
	}

	// Round 2
	r2b := map[sharing.ID]*session.Round2Broadcast{}
	r2u := map[sharing.ID]network.OutgoingUnicasts[*session.Round2P2P, *session.Participant]{}
	for _, id := range ids {
		pt := sr.parties[id]
		if !pt.alive() {
			continue
		}
		in := map[sharing.ID]*session.Round1Broadcast{}
		for _, o := range ids {
			if o == id {
				continue
			}
			m, ok := r1[o]
			if !ok {
				pt.starved = 2
				break
			}
			in[o] = deliver(sr, kR1B, o, id, m, useWire, f)
		}
		if !pt.alive() {
			continue
		}
		pt.step(2, func() error {
			b, u, err := pt.p.Round2(hashmap.NewImmutableComparableFromNativeLike(in))
			if err == nil {
				r2b[id], r2u[id] = b, u
			}
			return err
		})
	}

	// Round 3
	r3u := map[sharing.ID]network.OutgoingUnicasts[*session.Round3P2P, *session.Participant]{}
	for _, id := range ids {
		pt := sr.parties[id]
		if !pt.alive() {
			continue
		}
		inB := map[sharing.ID]*session.Round2Broadcast{}
		inU := map[sharing.ID]*session.Round2P2P{}
		for _, o := range ids {
			if o == id {
				continue
			}
			b, okB := r2b[o]
			if !okB {
				pt.starved = 3
				break
			}
			u, okU := r2u[o].Get(id)
			if !okU {
				panic(engine.HarnessError{Msg: fmt.Sprintf("Round2 of %d produced no unicast for %d", o, id)})
			}
			inB[o] = deliver(sr, kR2B, o, id, b, useWire, f)
			inU[o] = deliver(sr, kR2U, o, id, u, useWire, f)
		}
		if !pt.alive() {
			continue
		}
		pt.step(3, func() error {
			u, err := pt.p.Round3(hashmap.NewImmutableComparableFromNativeLike(inB), hashmap.NewImmutableComparableFromNativeLike(inU))
			if err == nil {
				r3u[id] = u
			}
			return err
		})
	}

	// Round 4
	for _, id := range ids {
		pt := sr.parties[id]
		if !pt.alive() {
			continue
		}
		inU := map[sharing.ID]*session.Round3P2P{}
		for _, o := range ids {
			if o == id {
				continue
			}
			out, ok := r3u[o]
			if !ok {
				pt.starved = 4
				break
			}
			u, okU := out.Get(id)
			if !okU {
				panic(engine.HarnessError{Msg: fmt.Sprintf("Round3 of %d produced no unicast for %d", o, id)})
			}
			inU[o] = deliver(sr, kR3U, o, id, u, useWire, f)
		}
		if !pt.alive() {
			continue
		}
		pt.step(4, func() error {
			c, err := pt.p.Round4(hashmap.NewImmutableComparableFromNativeLike(inU))
			if err == nil {
				if c == nil {
					return fmt.Errorf("Round4 returned neither a context nor an error")
				}
				pt.ctx = c
			}
			return err
		})
	}
	return sr
}

// ---------------------------------------------------------------------------------------------------------------
// Randomness: one deterministic stream per (session, party).

// sessionStreams returns the streams of the session called `tag`. With only != 0 every party except `only` draws the
// same bytes as in the session `baseTag` (a second session that differs from the first in ONE party's randomness).
func sessionStreams(seed int64, tag, baseTag string, only sharing.ID) func(sharing.ID) io.Reader {
	return func(id sharing.ID) io.Reader {
		t := tag
		if only != 0 && id != only {
			t = baseTag
		}
		return det.New(seed, fmt.Sprintf("c10/%s/party-%d", t, id))
	}
}

// ---------------------------------------------------------------------------------------------------------------
// Observation helpers (never disturb the observed context).

const probeLabel = "VERIF_C10_TRANSCRIPT_PROBE"

// probe extracts 32 bytes on a CLONE of the context's transcript.
func probe(ctx *session.Context) []byte {
	b, err := ctx.Transcript().Clone().ExtractBytes(probeLabel, 32)
	if err != nil {
		panic(fmt.Sprintf("Transcript().Clone().ExtractBytes failed: %v", err))
	}
	return b
}

// seed64 returns the first 64 bytes of the holder's seed stream for `peer` (Seeds() hands out copies), or nil if the
// context has no seed for that peer.
func seed64(ctx *session.Context, peer sharing.ID) []byte {
	r, ok := ctx.Seeds()[peer]
	if !ok || r == nil {
		return nil
	}
	b := make([]byte, 64)
	if _, err := io.ReadFull(r, b); err != nil {
		return nil
	}
	return b
}
