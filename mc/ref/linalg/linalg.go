// Package linalg is the boring reference: Gaussian elimination over F_q with math/big.
package linalg

import "math/big"

// Mat is a dense row-major matrix of residues in [0,q).
type Mat struct {
	R, C int
	A    [][]*big.Int
	Q    *big.Int
}

func New(q *big.Int, r, c int) *Mat {
	m := &Mat{R: r, C: c, Q: q, A: make([][]*big.Int, r)}
	for i := range m.A {
		m.A[i] = make([]*big.Int, c)
		for j := range m.A[i] {
			m.A[i][j] = new(big.Int)
		}
	}
	return m
}

func FromRows(q *big.Int, rows [][]*big.Int) *Mat {
	c := 0
	if len(rows) > 0 {
		c = len(rows[0])
	}
	m := New(q, len(rows), c)
	for i := range rows {
		for j := range rows[i] {
			m.A[i][j] = new(big.Int).Mod(rows[i][j], q)
		}
	}
	return m
}

func (m *Mat) Clone() *Mat {
	n := New(m.Q, m.R, m.C)
	for i := range m.A {
		for j := range m.A[i] {
			n.A[i][j].Set(m.A[i][j])
		}
	}
	return n
}

func (m *Mat) Mul(o *Mat) *Mat {
	out := New(m.Q, m.R, o.C)
	t := new(big.Int)
	for i := 0; i < m.R; i++ {
		for j := 0; j < o.C; j++ {
			for k := 0; k < m.C; k++ {
				t.Mul(m.A[i][k], o.A[k][j])
				out.A[i][j].Add(out.A[i][j], t)
			}
			out.A[i][j].Mod(out.A[i][j], m.Q)
		}
	}
	return out
}

func (m *Mat) Transpose() *Mat {
	out := New(m.Q, m.C, m.R)
	for i := range m.A {
		for j := range m.A[i] {
			out.A[j][i].Set(m.A[i][j])
		}
	}
	return out
}

func (m *Mat) Equal(o *Mat) bool {
	if m.R != o.R || m.C != o.C {
		return false
	}
	for i := range m.A {
		for j := range m.A[i] {
			if m.A[i][j].Cmp(o.A[i][j]) != 0 {
				return false
			}
		}
	}
	return true
}

// rref reduces m in place and returns the pivot columns and the determinant sign/scale product
// (det is meaningful for square matrices only: product of pivots with swap signs, 0 if rank < n).
func (m *Mat) rref(limitCols int) (pivots []int, det *big.Int) {
	det = big.NewInt(1)
	row := 0
	t := new(big.Int)
	for col := 0; col < limitCols && row < m.R; col++ {
		p := -1
		for r := row; r < m.R; r++ {
			if m.A[r][col].Sign() != 0 {
				p = r
				break
			}
		}
		if p < 0 {
			continue
		}
		if p != row {
			m.A[p], m.A[row] = m.A[row], m.A[p]
			det.Neg(det)
		}
		det.Mul(det, m.A[row][col]).Mod(det, m.Q)
		inv := new(big.Int).ModInverse(m.A[row][col], m.Q)
		for j := 0; j < m.C; j++ {
			m.A[row][j].Mul(m.A[row][j], inv).Mod(m.A[row][j], m.Q)
		}
		for r := 0; r < m.R; r++ {
			if r == row || m.A[r][col].Sign() == 0 {
				continue
			}
			f := new(big.Int).Set(m.A[r][col])
			for j := 0; j < m.C; j++ {
				t.Mul(f, m.A[row][j])
				m.A[r][j].Sub(m.A[r][j], t).Mod(m.A[r][j], m.Q)
			}
		}
		pivots = append(pivots, col)
		row++
	}
	return pivots, det
}

// Rank over F_q.
func (m *Mat) Rank() int {
	c := m.Clone()
	p, _ := c.rref(c.C)
	return len(p)
}

// Det of a square matrix.
func (m *Mat) Det() *big.Int {
	c := m.Clone()
	p, det := c.rref(c.C)
	if len(p) < m.R {
		return new(big.Int)
	}
	return det.Mod(det, m.Q)
}

// SolveRight finds some x with m·x = b (b has len R); ok=false iff inconsistent.
func (m *Mat) SolveRight(b []*big.Int) (x []*big.Int, ok bool) {
	aug := New(m.Q, m.R, m.C+1)
	for i := 0; i < m.R; i++ {
		for j := 0; j < m.C; j++ {
			aug.A[i][j].Set(m.A[i][j])
		}
		aug.A[i][m.C].Mod(b[i], m.Q)
	}
	piv, _ := aug.rref(m.C)
	for r := len(piv); r < m.R; r++ {
		if aug.A[r][m.C].Sign() != 0 {
			return nil, false
		}
	}
	x = make([]*big.Int, m.C)
	for j := range x {
		x[j] = new(big.Int)
	}
	for r, pc := range piv {
		x[pc].Set(aug.A[r][m.C])
	}
	return x, true
}

// Consistent reports whether m·x = b has a solution.
func (m *Mat) Consistent(b []*big.Int) bool { _, ok := m.SolveRight(b); return ok }

// Apply returns m·x.
func (m *Mat) Apply(x []*big.Int) []*big.Int {
	out := make([]*big.Int, m.R)
	t := new(big.Int)
	for i := 0; i < m.R; i++ {
		out[i] = new(big.Int)
		for j := 0; j < m.C; j++ {
			t.Mul(m.A[i][j], x[j])
			out[i].Add(out[i], t)
		}
		out[i].Mod(out[i], m.Q)
	}
	return out
}

// SubRows returns the matrix made of the given rows.
func (m *Mat) SubRows(idx []int) *Mat {
	out := New(m.Q, len(idx), m.C)
	for i, r := range idx {
		for j := 0; j < m.C; j++ {
			out.A[i][j].Set(m.A[r][j])
		}
	}
	return out
}

// SpansE0 reports whether the unit row vector e0 = (1,0,…,0) lies in the row span of m.
func (m *Mat) SpansE0() bool {
	t := m.Transpose()
	b := make([]*big.Int, m.C)
	for i := range b {
		b[i] = new(big.Int)
	}
	if m.C > 0 {
		b[0] = big.NewInt(1)
	}
	return t.Consistent(b)
}

// EvalPoly evaluates Σ c_i x^i mod q.
func EvalPoly(q *big.Int, coeffs []*big.Int, x *big.Int) *big.Int {
	acc := new(big.Int)
	for i := len(coeffs) - 1; i >= 0; i-- {
		acc.Mul(acc, x).Add(acc, coeffs[i]).Mod(acc, q)
	}
	return acc
}

// EvalPolyDeriv evaluates the k-th derivative of Σ c_i x^i at x mod q.
func EvalPolyDeriv(q *big.Int, coeffs []*big.Int, k int, x *big.Int) *big.Int {
	d := make([]*big.Int, 0, len(coeffs))
	for i := k; i < len(coeffs); i++ {
		f := big.NewInt(1)
		for j := 0; j < k; j++ {
			f.Mul(f, big.NewInt(int64(i-j)))
		}
		d = append(d, f.Mul(f, coeffs[i]).Mod(f, q))
	}
	return EvalPoly(q, d, x)
}
