// C11 — message routing is exact under every delivery order; broadcast is consistent.
//
// Engine: SCHED. The real pkg/network (router, exchange, echo) is compiled from an automatically instrumented copy
// (see /verif/mc/instrument) in which every mutex/channel/select/go/context operation is a scheduling point of the
// cooperative scheduler mcrt. Each scenario below is a closed harness; the explorer enumerates ALL schedules within
// the preemption bound and ALL arrival orders / fault placements, and judges every execution against the reference
// log kept by the adversarial network (model_test.go). A state in which no thread is enabled while one is unfinished
// is a deadlock.
package c11

import (
	"context"
	"fmt"
	"os"
	"os/exec"
	"strings"
	"testing"
	"time"

	"github.com/bronlabs/bron-crypto/pkg/mcrt"
	"github.com/bronlabs/bron-crypto/pkg/mpc/sharing"
	"github.com/bronlabs/bron-crypto/pkg/network"

	"verifmc/engine"
	"verifmc/proto"
)

func TestMain(m *testing.M) { engine.Main(m, "C11", "model_checking") }

type scenario func(w *world)

// run executes one scenario under the scheduler and applies the generic oracles.
func run(x *engine.X, me sharing.ID, parties []sharing.ID, sc scenario) {
	s := mcrt.New(x)
	var w *world
	s.Run(func() {
		w = newWorld(x, s, me, parties...)
		sc(w)
	})
	if s.HarnessErr != "" {
		panic(engine.HarnessError{Msg: s.HarnessErr})
	}
	if s.Deadlock != "" {
		x.Failf("router/deadlock", "DEADLOCK: no enabled thread; blocked:%s; log=%s", s.Deadlock, w.fmtLog())
		return
	}
	for _, p := range s.Panics {
		x.Failf("router/panic", "panic escaped a thread: %s", p)
	}
	w.judge()
	x.Observe(len(w.log), s.Switches)
	for _, c := range w.calls {
		x.Observe(c.name, c.err == nil, fmtMap(c.got))
	}
}

// join waits until *done reaches n.
func join(done *int, n int) { mcrt.Yield("join", func() bool { return *done >= n }) }

var bg = context.Background()

// R1 demultiplexing: two receives on colliding correlation ids in one router, 4 messages, all arrival orders.
func r1(w *world) {
	for _, m := range []struct {
		from sharing.ID
		cid  string
	}{{2, "a"}, {3, "a"}, {2, "b"}, {3, "b"}} {
		w.net.Inject(m.from, w.me, wire(m.cid, []byte(fmt.Sprintf("%d%s", m.from, m.cid))))
	}
	done := 0
	for _, cid := range []string{"a", "b"} {
		mcrt.GoNamed("recv-"+cid, func() {
			c := w.recv("recv-"+cid, w.rt, bg, "", cid, nil, 2, 3)
			if c.err != nil {
				w.x.Failf("router/r1-error", "R1: receive for %q failed although all its messages were deliverable: %v", cid, c.err)
			}
			done++
		})
	}
	join(&done, 2)
	w.close()
}

// R2 namespaces: the same correlation id under the root, "x/" and "x/y/" views of one router.
func r2(w *world) {
	views := []struct {
		prefix string
		rt     *network.Router
	}{{"", w.rt}, {"x/", w.rt.Namespaced("x")}, {"x/y/", w.rt.Namespaced("x").Namespaced("y")}}
	for _, v := range views {
		w.net.Inject(2, w.me, wire(v.prefix+"c", []byte("2:"+v.prefix)))
	}
	done := 0
	for _, v := range views {
		mcrt.GoNamed("recv-"+v.prefix, func() {
			c := w.recv("recv["+v.prefix+"]", v.rt, bg, v.prefix, "c", nil, 2)
			if c.err != nil {
				w.x.Failf("router/r2-error", "R2: receive under namespace %q failed: %v", v.prefix, c.err)
			}
			done++
		})
	}
	join(&done, len(views))
	w.close()
}

// R3 duplicates: an identical and/or a conflicting retransmission from sender 2 for id "a", any arrival order,
// relative to a receive for {2,3}; variant picks what is retransmitted.
func r3(variant int) scenario {
	return func(w *world) {
		first := [][]byte{[]byte("2a"), {}, nil}[mcrt.Choose("first-payload", 3)]
		w.net.Inject(2, w.me, wire("a", first))
		w.net.Inject(3, w.me, wire("a", []byte("3a")))
		switch variant {
		case 0: // identical retransmission
			w.net.Inject(2, w.me, wire("a", first))
		case 1: // conflicting retransmission
			w.net.Inject(2, w.me, wire("a", []byte("2A")))
		case 2: // conflicting retransmission from a sender the receive does not wait for (same id)
			w.net.Inject(4, w.me, wire("a", []byte("4a")))
			w.net.Inject(4, w.me, wire("a", []byte("4A")))
		}
		done := 0
		mcrt.GoNamed("recv-a", func() {
			c := w.recv("recv-a", w.rt, bg, "", "a", nil, 2, 3)
			if variant == 0 && c.err != nil {
				w.x.Failf("router/dup-not-absorbed", "R3: an identical retransmission made the receive fail: %v", c.err)
			}
			done++
		})
		join(&done, 1)
		// drain: let the reader take everything that is still in flight, then a second receive must see the conflict
		mcrt.Yield("drain", func() bool { return len(w.net.pending(w.me)) == 0 })
		w.close()
	}
}

// R3c a conflicting retransmission while the OTHER requested sender stays silent for ever: the conflict itself must end
// the receive (duplicate-message error blaming the retransmitting sender); nothing else will ever wake it up.
func r3c(w *world) {
	first := [][]byte{[]byte("2a"), {}, nil}[mcrt.Choose("first-payload", 3)]
	w.net.Inject(2, w.me, wire("a", first))
	w.net.Inject(2, w.me, wire("a", []byte("2A")))
	done := 0
	mcrt.GoNamed("recv-a", func() {
		c := w.recv("recv-a", w.rt, bg, "", "a", nil, 2, 3)
		if c.err == nil {
			w.x.Failf("router/phantom", "R3c: a receive waiting for a sender that never sent returned success %s", fmtMap(c.got))
		}
		done++
	})
	join(&done, 1) // a receive that is never woken up leaves no enabled thread: reported as a deadlock
	mcrt.Yield("drain", func() bool { return len(w.net.pending(w.me)) == 0 })
	w.close()
}

// R3b duplicates deposited BEFORE the receive parks: a warm-up receive starts the reader, the harness waits until the
// reader has taken everything, then the receive for "a" is issued: conflicting => must fail blaming the sender,
// identical => must succeed.
func r3b(conflicting bool) scenario {
	return func(w *world) {
		// payload alphabet of the FIRST message: ordinary, empty, nil (CBOR null) — boundary values of the payload
		first := [][]byte{[]byte("2a"), {}, nil}[mcrt.Choose("first-payload", 3)]
		w.net.Inject(2, w.me, wire("warm", []byte("w")))
		w.net.Inject(2, w.me, wire("a", first))
		w.net.Inject(3, w.me, wire("a", []byte("3a")))
		if conflicting {
			w.net.Inject(2, w.me, wire("a", []byte("2A")))
		} else {
			w.net.Inject(2, w.me, wire("a", first))
		}
		done := 0
		mcrt.GoNamed("warm", func() { w.recv("recv-warm", w.rt, bg, "", "warm", nil, 2); done++ })
		join(&done, 1)
		mcrt.Yield("drain", func() bool {
			if len(w.net.pending(w.me)) != 0 {
				return false
			}
			for _, d := range w.log {
				if d.rho == never {
					return false
				}
			}
			return true
		})
		c := w.recv("recv-a", w.rt, bg, "", "a", nil, 2, 3)
		if conflicting && c.err == nil {
			w.x.Failf("router/conflict-missed", "R3b: conflicting retransmission deposited before the receive, yet it returned success %s", fmtMap(c.got))
		}
		if !conflicting && c.err != nil {
			w.x.Failf("router/dup-not-absorbed", "R3b: identical retransmission deposited before the receive made it fail: %v", c.err)
		}
		w.close()
	}
}

// R4 cancellation: a third thread cancels the receive's context at any point; the receive is retried with a fresh
// context and must return the full set; nothing may be lost.
func r4(w *world) {
	w.net.Inject(2, w.me, wire("a", []byte("2a")))
	w.net.Inject(3, w.me, wire("a", []byte("3a")))
	ctx, cancel := mcrt.WithCancel(bg)
	cancelAt := never
	done := 0
	mcrt.GoNamed("canceller", func() {
		cancel()
		cancelAt = now()
		done++
	})
	mcrt.GoNamed("recv-a", func() {
		c := w.recv("recv-a#1", w.rt, ctx, "", "a", &cancelAt, 2, 3)
		if c.err != nil {
			c2 := w.recv("recv-a#2(retry)", w.rt, bg, "", "a", nil, 2, 3)
			if c2.err != nil {
				w.x.Failf("router/cancel-lost", "R4: retry after a cancelled receive failed: %v", c2.err)
			}
		}
		done++
	})
	join(&done, 2)
	w.close()
}

// R5 foreign traffic: a non-member (9) and a foreign correlation id interleaved; must never surface.
func r5(w *world) {
	// what the non-member sends first: a well-formed message, or a frame that does not decode (empty, truncated, junk) —
	// traffic from outside the quorum is dropped whatever it contains and cannot fail anybody's receive
	w.net.Inject(9, w.me, [][]byte{wire("a", []byte("EVIL9")), {}, {0xa2}, {0xff, 0x00, 0x13}}[mcrt.Choose("foreign-frame", 4)])
	w.net.Inject(9, w.me, wire("a", []byte("EVIL8"))) // a non-member cannot poison the mailbox either
	w.net.Inject(2, w.me, wire("zz", []byte("FOREIGN")))
	w.net.Inject(2, w.me, wire("a", []byte("2a")))
	w.net.Inject(3, w.me, wire("a", []byte("3a")))
	done := 0
	mcrt.GoNamed("recv-a", func() {
		c := w.recv("recv-a", w.rt, bg, "", "a", nil, 2, 3)
		if c.err != nil {
			w.x.Failf("router/r5-error", "R5: receive failed: %v", c.err)
		}
		done++
	})
	join(&done, 1)
	w.close()
}

// R6 close / transport failure at any point relative to arrivals and to a pending receive; a later receive fails.
func r6(variant int) scenario {
	return func(w *world) {
		w.net.Inject(2, w.me, wire("a", []byte("2a")))
		w.net.Inject(3, w.me, wire("a", []byte("3a")))
		if variant == 1 {
			w.net.failRecv[w.me] = 1 + mcrt.Choose("fail-after", 2) // transport error after 1 or 2 deliveries
		}
		done := 0
		if variant == 0 {
			mcrt.GoNamed("closer", func() { w.close(); done++ })
		} else {
			done++
		}
		mcrt.GoNamed("recv-a", func() {
			w.recv("recv-a", w.rt, bg, "", "a", nil, 2, 3)
			done++
		})
		join(&done, 2)
		w.close()
		c := w.recv("recv-late", w.rt, bg, "", "late", nil, 2)
		if c.err == nil {
			w.x.Failf("router/recv-after-close", "R6: a receive issued after the router was closed returned success")
		}
	}
}

// R7 buffer bound lowered to 3 by the overlay: overflow is reported exactly when 3 messages are buffered and a 4th arrives.
func r7(w *world) {
	old := network.VerifSetMaxBuffer(3)
	defer network.VerifSetMaxBuffer(old)
	w.maxBuf = 3
	for i, cid := range []string{"u1", "u2", "u3"} {
		_ = i
		w.net.Inject(2, w.me, wire(cid, []byte(cid)))
	}
	w.net.Inject(2, w.me, wire("a", []byte("2a")))
	done := 0
	mcrt.GoNamed("recv-a", func() {
		c := w.recv("recv-a", w.rt, bg, "", "a", nil, 2)
		if c.err == nil {
			// consumed: accounting must have gone down; receive the parked ones too
			for _, cid := range []string{"u1", "u2"} {
				w.recv("recv-"+cid, w.rt, bg, "", cid, nil, 2)
			}
		}
		done++
	})
	join(&done, 1)
	w.close()
}

func sched(name string, me sharing.ID, parties []sharing.ID, sc scenario, bound int, budget time.Duration) {
	engine.Explore(func(x *engine.X) { run(x, me, parties, sc) }, engine.Opts{Name: name, DevBound: bound, Serial: true, Budget: budget, Procs: 16, Engine: "SCHED"})
}

// racePass runs the free-running -race binary (uninstrumented library, real goroutines) and reports a data race or a
// functional failure there as a violation. It is a detector beside the deciding exploration, reported separately.
func racePass(x *engine.X) {
	bin := os.Getenv("VERIF_RACE_BIN")
	if bin == "" {
		x.Trivial()
		x.Observe("race binary not built")
		return
	}
	cmd := exec.Command(bin, "-test.count=1", "-test.timeout=20m")
	cmd.Env = append(os.Environ(), "VERIF_CHILD=", "GORACE=halt_on_error=0")
	out, err := cmd.CombinedOutput()
	txt := string(out)
	if strings.Contains(txt, "DATA RACE") {
		i := strings.Index(txt, "DATA RACE")
		end := i + 1500
		if end > len(txt) {
			end = len(txt)
		}
		x.Failf("race/data-race", "the race detector reported a data race in the free-running pass:\n%s", txt[i:end])
	} else if err != nil {
		tail := txt
		if len(tail) > 1500 {
			tail = tail[len(tail)-1500:]
		}
		x.Failf("race/functional", "the free-running pass failed: %v\n%s", err, tail)
	}
	x.Observe("race pass ok")
}

func TestCheck(t *testing.T) {
	engine.Rule("each section is one closed scenario on the instrumented real router; the explorer enumerates every schedule with at most `deviation_bound` preemptions x every arrival order / fault placement (structural choices); an execution is one complete run; distinct_nontrivial counts distinct executions (choice sequences)")
	engine.Assume("scheduler models sync.Mutex, buffered channels, close, select, go, context.WithCancel with sequentially consistent memory; other accesses are left to the free-running -race pass", "instrumented build differs from the real one only at the rewritten synchronisation operations", "Delivery contract: Receive is called only from the reader goroutine")
	p3 := []sharing.ID{1, 2, 3}
	b := 2
	if engine.Thorough() {
		b = 3
	}
	q, th := 40*time.Second, 3*time.Minute
	sched("R1-demux", 1, p3, r1, b, engine.Budget(q, th))
	sched("R2-namespaces", 1, p3, r2, b, engine.Budget(q, th))
	sched("R3-dup-identical", 1, p3, r3(0), b, engine.Budget(q, th))
	sched("R3-dup-conflicting", 1, p3, r3(1), b, engine.Budget(q, th))
	sched("R3-dup-conflict-other-sender", 1, []sharing.ID{1, 2, 3, 4}, r3(2), b, engine.Budget(q, th))
	sched("R3c-dup-conflicting-other-sender-silent", 1, p3, r3c, b, engine.Budget(q, th))
	sched("R3b-dup-conflicting-before-recv", 1, p3, r3b(true), b, engine.Budget(q, th))
	sched("R3b-dup-identical-before-recv", 1, p3, r3b(false), b, engine.Budget(q, th))
	sched("R4-cancel-retry", 1, p3, r4, b, engine.Budget(q, th))
	sched("R5-foreign", 1, p3, r5, b, engine.Budget(q, th))
	sched("R6-close", 1, p3, r6(0), b, engine.Budget(q, th))
	sched("R6-transport-failure", 1, p3, r6(1), b, engine.Budget(q, th))
	sched("R7-buffer-bound", 1, p3, r7, b, engine.Budget(q, th))
	// echo broadcast with one Byzantine sender: FIFO arrival by default, other orders and preemptions cost deviations
	eb := 1
	if engine.Thorough() {
		eb = 2
	}
	engine.Explore(func(x *engine.X) { e1(x, 3) }, engine.Opts{Name: "E1-echo-n3", DevBound: eb, Serial: true, Procs: 16, Engine: "SCHED", Budget: engine.Budget(100*time.Second, 8*time.Minute)})
	engine.Explore(func(x *engine.X) { p1Session(x, []sharing.ID{1, 2}) }, engine.Opts{Name: "P1-session-n2", DevBound: 2 + eb, Serial: true, Procs: 16, Engine: "SCHED", Budget: engine.Budget(40*time.Second, 5*time.Minute)})
	engine.Explore(func(x *engine.X) { p1Session(x, []sharing.ID{7, 3, 64}) }, engine.Opts{Name: "P1-session-n3", DevBound: 1 + eb, Serial: true, Procs: 16, Engine: "SCHED", Budget: engine.Budget(60*time.Second, 8*time.Minute)})
	{
		ids := []proto.ID{1, 2, 3}
		ac := proto.Threshold(2, ids...)
		cases := []*proto.Case{
			proto.AorCase([]proto.ID{7, 3, 64}),
			proto.GennaroCase("T23", ac, ids),
			proto.CanettiCase("T23", ac, ids),
			proto.RedistributeCase("refresh-T23", ac, ids, ac, 0),
			proto.Lindell22Case("T23-q12", ac, []proto.ID{1, 2}, []byte("m")),
			proto.Lindell22Case("T23-q123", ac, ids, []byte("m")),
		}
		for i, c := range cases {
			if !engine.Thorough() && (i == 2 || i == 3 || i == 5) {
				continue // quick: aor, Gennaro, Lindell22 (2-party quorum); thorough adds Canetti, redistribution, 3-party signing
			}
			engine.Explore(p1Case(c), engine.Opts{Name: "P1-" + c.Name, DevBound: 1, Serial: true, Procs: 16, CrashTrace: true, Engine: "SCHED", Budget: engine.Budget(60*time.Second, 6*time.Minute)})
		}
	}
	engine.Explore(p1Lindell17, engine.Opts{Name: "P1-lindell17/T23-q12", DevBound: 1, Serial: true, Procs: 16, CrashTrace: true, Engine: "SCHED", Budget: engine.Budget(90*time.Second, 6*time.Minute)})
	for _, mult := range []string{"softspoken", "bbot"} {
		if !engine.Thorough() {
			break // one execution is a complete three-party DKLs23 signing run (seconds): thorough tier only
		}
		engine.Explore(p1DKLs23(mult), engine.Opts{Name: "P1-dkls23-" + mult + "/T23-q123", DevBound: 1, Serial: true, Procs: 16, CrashTrace: true, Engine: "SCHED", Budget: 12 * time.Minute})
	}
	engine.Explore(racePass, engine.Opts{Name: "free-running-race-pass", Serial: true})
	if engine.Thorough() {
		engine.Explore(func(x *engine.X) { e1(x, 4) }, engine.Opts{Name: "E1-echo-n4", DevBound: 1, Serial: true, Procs: 16, Engine: "SCHED", Budget: 6 * time.Minute})
	}
}
