package proto

import (
	"fmt"

	"github.com/bronlabs/bron-crypto/pkg/base/algebra"
	"github.com/bronlabs/bron-crypto/pkg/base/curves"
	"github.com/bronlabs/bron-crypto/pkg/base/curves/pairable/bls12381"
	"github.com/bronlabs/bron-crypto/pkg/base/datastructures/hashmap"
	"github.com/bronlabs/bron-crypto/pkg/mpc"
	"github.com/bronlabs/bron-crypto/pkg/mpc/session"
	"github.com/bronlabs/bron-crypto/pkg/mpc/signatures/bls/boldyreva02"
	bkeygen "github.com/bronlabs/bron-crypto/pkg/mpc/signatures/bls/boldyreva02/keygen"
	bsigning "github.com/bronlabs/bron-crypto/pkg/mpc/signatures/bls/boldyreva02/signing"
	"github.com/bronlabs/bron-crypto/pkg/signatures/bls"
)

// C01BLS binds the Boldyreva constructors of one key-group variant (short keys: public keys in G1, signatures in G2;
// long keys: the other way round).
type C01BLS[
	PK curves.PairingFriendlyPoint[PK, PKFE, SG, SGFE, E, S], PKFE algebra.FieldElement[PKFE],
	SG curves.PairingFriendlyPoint[SG, SGFE, PK, PKFE, E, S], SGFE algebra.FieldElement[SGFE],
	E algebra.MultiplicativeGroupElement[E], S algebra.PrimeFieldElement[S],
] struct {
	Name          string
	NewShard      func(*mpc.BaseShard[PK, S]) (*boldyreva02.Shard[PK, PKFE, SG, SGFE, E, S], error)
	NewCosigner   func(*session.Context, *boldyreva02.Shard[PK, PKFE, SG, SGFE, E, S], bls.RogueKeyPreventionAlgorithm) (*bsigning.Cosigner[PK, PKFE, SG, SGFE, E, S], error)
	NewAggregator func(*boldyreva02.PublicMaterial[PK, PKFE, SG, SGFE, E, S], bls.RogueKeyPreventionAlgorithm) (*bsigning.Aggregator[PK, PKFE, SG, SGFE, E, S], error)
}

type (
	c01G1  = *bls12381.PointG1
	c01F1  = *bls12381.BaseFieldElementG1
	c01G2  = *bls12381.PointG2
	c01F2  = *bls12381.BaseFieldElementG2
	c01Gt  = *bls12381.GtElement
	c01Sc  = *bls12381.Scalar
	C01Fam = curves.PairingFriendlyFamily[c01G1, c01F1, c01G2, c01F2, c01Gt, c01Sc]
)

// C01BLSFamily is the BLS12-381 family object.
func C01BLSFamily() C01Fam { return &bls12381.FamilyTrait{} }

// C01BoldyrevaShort: public keys in G1, signatures in G2.
func C01BoldyrevaShort() C01BLS[c01G1, c01F1, c01G2, c01F2, c01Gt, c01Sc] {
	fam := C01BLSFamily()
	return C01BLS[c01G1, c01F1, c01G2, c01F2, c01Gt, c01Sc]{
		Name: "g1-keys",
		NewShard: func(b *mpc.BaseShard[c01G1, c01Sc]) (*boldyreva02.Shard[c01G1, c01F1, c01G2, c01F2, c01Gt, c01Sc], error) {
			return bkeygen.NewShortKeyShard[c01G1, c01F1, c01G2, c01F2, c01Gt, c01Sc](b)
		},
		NewCosigner: func(ctx *session.Context, sh *boldyreva02.Shard[c01G1, c01F1, c01G2, c01F2, c01Gt, c01Sc], alg bls.RogueKeyPreventionAlgorithm) (*bsigning.Cosigner[c01G1, c01F1, c01G2, c01F2, c01Gt, c01Sc], error) {
			return bsigning.NewShortKeyCosigner(ctx, fam, sh, alg)
		},
		NewAggregator: func(pm *boldyreva02.PublicMaterial[c01G1, c01F1, c01G2, c01F2, c01Gt, c01Sc], alg bls.RogueKeyPreventionAlgorithm) (*bsigning.Aggregator[c01G1, c01F1, c01G2, c01F2, c01Gt, c01Sc], error) {
			return bsigning.NewShortKeyAggregator(fam, pm, alg)
		},
	}
}

// C01BoldyrevaLong: public keys in G2, signatures in G1.
func C01BoldyrevaLong() C01BLS[c01G2, c01F2, c01G1, c01F1, c01Gt, c01Sc] {
	fam := C01BLSFamily()
	return C01BLS[c01G2, c01F2, c01G1, c01F1, c01Gt, c01Sc]{
		Name: "g2-keys",
		NewShard: func(b *mpc.BaseShard[c01G2, c01Sc]) (*boldyreva02.Shard[c01G2, c01F2, c01G1, c01F1, c01Gt, c01Sc], error) {
			return bkeygen.NewLongKeyShard[c01G2, c01F2, c01G1, c01F1, c01Gt, c01Sc](b)
		},
		NewCosigner: func(ctx *session.Context, sh *boldyreva02.Shard[c01G2, c01F2, c01G1, c01F1, c01Gt, c01Sc], alg bls.RogueKeyPreventionAlgorithm) (*bsigning.Cosigner[c01G2, c01F2, c01G1, c01F1, c01Gt, c01Sc], error) {
			return bsigning.NewLongKeyCosigner(ctx, fam, sh, alg)
		},
		NewAggregator: func(pm *boldyreva02.PublicMaterial[c01G2, c01F2, c01G1, c01F1, c01Gt, c01Sc], alg bls.RogueKeyPreventionAlgorithm) (*bsigning.Aggregator[c01G2, c01F2, c01G1, c01F1, c01Gt, c01Sc], error) {
			return bsigning.NewLongKeyAggregator(fam, pm, alg)
		},
	}
}

// C01BoldyrevaShards converts base shards.
func C01BoldyrevaShards[
	PK curves.PairingFriendlyPoint[PK, PKFE, SG, SGFE, E, S], PKFE algebra.FieldElement[PKFE],
	SG curves.PairingFriendlyPoint[SG, SGFE, PK, PKFE, E, S], SGFE algebra.FieldElement[SGFE],
	E algebra.MultiplicativeGroupElement[E], S algebra.PrimeFieldElement[S],
](v C01BLS[PK, PKFE, SG, SGFE, E, S], base map[ID]*mpc.BaseShard[PK, S]) (map[ID]*boldyreva02.Shard[PK, PKFE, SG, SGFE, E, S], error) {
	out := map[ID]*boldyreva02.Shard[PK, PKFE, SG, SGFE, E, S]{}
	for id, b := range base {
		sh, err := v.NewShard(b)
		if err != nil {
			return nil, fmt.Errorf("boldyreva keygen shard(%d): %w", id, err)
		}
		out[id] = sh
	}
	return out, nil
}

// C01BoldyrevaNew only constructs the cosigners of a (possibly unqualified) party set.
func C01BoldyrevaNew[
	PK curves.PairingFriendlyPoint[PK, PKFE, SG, SGFE, E, S], PKFE algebra.FieldElement[PKFE],
	SG curves.PairingFriendlyPoint[SG, SGFE, PK, PKFE, E, S], SGFE algebra.FieldElement[SGFE],
	E algebra.MultiplicativeGroupElement[E], S algebra.PrimeFieldElement[S],
](v C01BLS[PK, PKFE, SG, SGFE, E, S], shards map[ID]*boldyreva02.Shard[PK, PKFE, SG, SGFE, E, S], quorum []ID, alg bls.RogueKeyPreventionAlgorithm, seed int64, label string) map[ID]error {
	ctxs := Contexts(quorum, KeySeed(seed), "c01/boldyreva/"+label)
	out := map[ID]error{}
	for _, id := range quorum {
		_, err := v.NewCosigner(ctxs[id], shards[id], alg)
		out[id] = err
	}
	return out
}

// C01BoldyrevaSign: (shards are expected to be CBOR-decoded copies, outsidePM a CBOR-decoded public material; nil =
// decode one here.) Every member of quorum produces its partial signature (the protocol is non-interactive: this is
// its only API), then an outside aggregator built from CBOR-decoded public material combines them and, with
// twoAggregators, so does the first quorum member with its own public material. For every listed subset the outside aggregator is additionally offered the partial
// signatures of that subset only.
func C01BoldyrevaSign[
	PK curves.PairingFriendlyPoint[PK, PKFE, SG, SGFE, E, S], PKFE algebra.FieldElement[PKFE],
	SG curves.PairingFriendlyPoint[SG, SGFE, PK, PKFE, E, S], SGFE algebra.FieldElement[SGFE],
	E algebra.MultiplicativeGroupElement[E], S algebra.PrimeFieldElement[S],
](v C01BLS[PK, PKFE, SG, SGFE, E, S], shards map[ID]*boldyreva02.Shard[PK, PKFE, SG, SGFE, E, S], quorum []ID, message []byte, alg bls.RogueKeyPreventionAlgorithm, seed int64, label string, subsets [][]ID, outsidePM *boldyreva02.PublicMaterial[PK, PKFE, SG, SGFE, E, S], twoAggregators bool) (*C01Out[*bls.Signature[SG, SGFE, PK, PKFE, E, S]], []error) {
	type psig = *boldyreva02.PartialSignature[SG, SGFE, PK, PKFE, E, S]
	out := c01NewOut[*bls.Signature[SG, SGFE, PK, PKFE, E, S]]()
	quorum = Sorted(quorum)
	out.Want = []string{c01AggOutside}
	if twoAggregators {
		out.Want = append(out.Want, c01AggParty(quorum[0]))
	}
	ctxs := Contexts(quorum, KeySeed(seed), "c01/boldyreva/"+label)
	cs := map[ID]*bsigning.Cosigner[PK, PKFE, SG, SGFE, E, S]{}
	for _, id := range quorum {
		c, err := v.NewCosigner(ctxs[id], shards[id], alg)
		if err != nil {
			out.Errs[c01Party(id)+"/new"] = err
			if out.Refused == nil {
				out.Refused = err
			}
			continue
		}
		cs[id] = c
	}
	if out.Refused != nil {
		return out, nil
	}
	ps := map[ID]psig{}
	for _, id := range quorum {
		p, err := cs[id].ProducePartialSignature(message)
		if err != nil {
			out.Errs[c01Party(id)+"/sign"] = err
			return out, nil
		}
		if p == nil {
			out.Errs[c01Party(id)+"/sign"] = fmt.Errorf("nil partial signature returned without error")
			return out, nil
		}
		ps[id] = p
	}
	// every partial signature goes over the wire once; all aggregators work on the decoded copies
	wired := map[ID]psig{}
	for _, id := range quorum {
		wired[id] = c01Wire(ps[id])
	}
	collect := func(ids []ID) map[ID]psig {
		m := map[ID]psig{}
		for _, id := range ids {
			m[id] = wired[id]
		}
		return m
	}
	if outsidePM == nil {
		outsidePM = c01Wire(shards[quorum[len(quorum)-1]].PublicKeyMaterial())
	}
	run := func(who string, pm *boldyreva02.PublicMaterial[PK, PKFE, SG, SGFE, E, S]) {
		agg, err := v.NewAggregator(pm, alg)
		if err != nil {
			out.Errs[who] = err
			return
		}
		sig, err := agg.Aggregate(hashmap.NewComparableFromNativeLike(collect(quorum)).Freeze(), message)
		if err != nil {
			out.Errs[who] = err
			return
		}
		out.Sigs[who] = sig
	}
	run(c01AggOutside, outsidePM)
	if twoAggregators {
		run(c01AggParty(quorum[0]), shards[quorum[0]].PublicKeyMaterial())
	}
	var subErr []error
	for _, sub := range subsets {
		agg, err := v.NewAggregator(shards[quorum[0]].PublicKeyMaterial(), alg)
		if err != nil {
			subErr = append(subErr, err)
			continue
		}
		_, err = agg.Aggregate(hashmap.NewComparableFromNativeLike(collect(sub)).Freeze(), message)
		subErr = append(subErr, err)
	}
	return out, subErr
}
