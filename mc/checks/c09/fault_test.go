package c09

import (
	"bytes"
	"fmt"
	"slices"
	"strings"
	"sync"

	"github.com/bronlabs/bron-crypto/pkg/base"
	"github.com/bronlabs/bron-crypto/pkg/base/serde"

	"verifmc/engine"
	"verifmc/ref/cbor"
)

// sendTampered: marshal with the library codec, parse into the lossless CBOR tree, let the adversary alter it,
// re-encode, and decode with the library codec. A decode refusal is a rejection by the recipient.
func sendTampered[T any](name string, msg T, tp tamper) (T, *stepErr) {
	var z T
	b, err := serde.MarshalCBOR(msg)
	if err != nil {
		return z, &stepErr{err, false, "codec " + name}
	}
	tree, err := cbor.Parse(b)
	if err != nil {
		panic(engine.HarnessError{Msg: "cbor.Parse of a library-encoded " + name + ": " + err.Error()})
	}
	if !bytes.Equal(cbor.Encode(tree), b) {
		panic(engine.HarnessError{Msg: "CBOR tree is not lossless for " + name})
	}
	deEmbed(tree)
	tp(name, tree)
	nb := cbor.Encode(tree)
	var out T
	if se := guard("decode "+name, func() (e error) { out, e = serde.UnmarshalCBOR[T](nb); return }); se != nil {
		return z, se
	}
	return out, nil
}

// tree returns the CBOR tree of a message (for harvesting leaves and replacement values).
func treeOf[T any](msg T) *cbor.Node {
	b, err := serde.MarshalCBOR(msg)
	if err != nil {
		panic(engine.HarnessError{Msg: "MarshalCBOR: " + err.Error()})
	}
	t, err := cbor.Parse(b)
	if err != nil {
		panic(engine.HarnessError{Msg: "cbor.Parse: " + err.Error()})
	}
	deEmbed(t)
	return t
}

// deEmbed turns every byte string back into a plain leaf. ref/cbor descends into any byte string whose content
// happens to be one well-formed CBOR array/map/tag; the messages in scope here carry uniformly random 16/32-byte
// strings (field elements, digests, GF(2^128) elements), a few of which parse as CBOR by accident (e.g. 0x81 0x4e +
// 14 bytes). Their unit of alteration is the whole byte string, so the accidental structure is dropped. (Node.Data
// still holds the original content, so nothing is lost.)
func deEmbed(n *cbor.Node) {
	if n.Kind == cbor.Bytes && n.Embedded {
		n.Embedded = false
		n.Items = nil
		return
	}
	for _, it := range n.Items {
		deEmbed(it)
	}
}

// leaf is one addressable byte-string leaf of a message.
type leaf struct {
	path string
	data []byte
}

// leavesOf lists the byte-string leaves of a (de-embedded) tree in document order; any other leaf kind is a
// harness error (a new wire field must be classified by a person).
func leavesOf(t *cbor.Node) []leaf {
	var out []leaf
	for _, r := range cbor.Leaves(t) {
		if r.Node.Kind != cbor.Bytes {
			panic(engine.HarnessError{Msg: fmt.Sprintf("leaf %s has kind %s: unclassified wire field", r.Path, r.KindID)})
		}
		out = append(out, leaf{r.Path, r.Node.Data})
	}
	return out
}

// neighbours: the values of the previous and next leaf of the same byte length in the same message ("replace by
// another value of the same kind").
func neighbours(ls []leaf, i int) (vals [][]byte, names []string) {
	n := len(ls)
	for _, dir := range []int{1, n - 1} {
		for k := 1; k < n; k++ {
			j := (i + dir*k) % n
			if len(ls[j].data) == len(ls[i].data) {
				vals = append(vals, ls[j].data)
				names = append(names, ls[j].path)
				break
			}
		}
	}
	return
}

func dataAt(t *cbor.Node, path string) []byte {
	r := cbor.Find(t, path)
	if r == nil || r.Node.Kind != cbor.Bytes {
		return nil
	}
	return r.Node.Data
}

// ---------------------------------------------------------------------------------------------------------------
// Mutation operators on one byte-string leaf (every leaf of the messages in scope is a byte string; anything else
// is a harness error so that a new wire field cannot escape classification).

type mutation struct {
	name  string
	group string
	value []byte
}

func flipBit(d []byte, i int) []byte { // bit i counted from the most significant bit of byte 0
	out := append([]byte{}, d...)
	out[i/8] ^= 0x80 >> (i % 8)
	return out
}

// mutations of a leaf. others: same-kind values of other positions in the same message ("the other value"),
// foreign: the value at the same path in a parallel instance run under a different seed.
// A mutation that leaves the bytes unchanged is dropped (it is not an alteration).
// everyBit (thorough tier, check values proper): all 8n single-bit flips instead of {msb, middle, lsb}.
func mutations(data []byte, others [][]byte, otherNames []string, foreign []byte, everyBit bool) []mutation {
	n := len(data)
	var ms []mutation
	add := func(name, group string, v []byte) {
		if v == nil || len(v) != n || bytes.Equal(v, data) {
			return
		}
		for _, m := range ms {
			if bytes.Equal(m.value, v) {
				return
			}
		}
		ms = append(ms, mutation{name, group, v})
	}
	if n > 0 {
		if everyBit && engine.Thorough() {
			for i := 0; i < 8*n; i++ {
				add(fmt.Sprintf("flip-bit-%d", i), "bitflip", flipBit(data, i))
			}
		} else {
			add("flip-msb", "bitflip", flipBit(data, 0))
			add("flip-mid", "bitflip", flipBit(data, 8*(n/2)+4))
			add("flip-lsb", "bitflip", flipBit(data, 8*n-1))
		}
	}
	add("zero", "zero", make([]byte, n))
	for i, o := range others {
		add("replace-by-"+otherNames[i], "replace-other", o)
	}
	add("replace-by-other-instance", "replace-instance", foreign)
	return ms
}

// leafData returns the byte-string leaf at path or panics with a harness error.
func leafData(t *cbor.Node, path string) *cbor.Node {
	r := cbor.Find(t, path)
	if r == nil {
		panic(engine.HarnessError{Msg: "no CBOR node at " + path})
	}
	if r.Node.Kind != cbor.Bytes || r.Node.Embedded {
		panic(engine.HarnessError{Msg: fmt.Sprintf("leaf %s is not a byte string (kind %d): unclassified wire field", path, r.Node.Kind)})
	}
	return r.Node
}

// oneLeaf builds the tamper function "set leaf `path` of message `msg` to v".
func oneLeaf(msg, path string, v []byte) tamper {
	return func(name string, root *cbor.Node) {
		if name != msg {
			return
		}
		leafData(root, path).Data = append([]byte{}, v...)
	}
}

// pickIdx: the index alphabet for long homogeneous arrays: all indices when n <= limit, else {0,1,mid,n-2,n-1}.
func pickIdx(n, limit int) []int {
	if n <= limit {
		out := make([]int, n)
		for i := range out {
			out[i] = i
		}
		return out
	}
	out := []int{0, 1, n / 2, n - 2, n - 1}
	return out
}

// ---------------------------------------------------------------------------------------------------------------
// Judging one faulted run.

// global tallies for the vacuity statement at the end of the check (how the rejections came about)
var (
	tallyMu sync.Mutex
	tally   = map[string]int{}
)

func count(section, class string) {
	tallyMu.Lock()
	tally[section+": "+class]++
	tallyMu.Unlock()
}

// rejectionClass names how a recipient refused: by the codec, by an ABORT (consistency check), or by validation.
func rejectionClass(se *stepErr) string {
	switch {
	case strings.HasPrefix(se.where, "decode "):
		return "refused by codec"
	case base.ShouldAbort(se.err):
		return "ABORT at " + se.where
	default:
		return "refused at " + se.where
	}
}

// mustReject: the fault hit a consistency-check input, so the run must end with an error (never a panic) raised by
// the recipient of the altered message at one of the steps in `at` (its codec or the round that consumes it).
func mustReject(x *engine.X, section, key, what string, se *stepErr, at ...string) {
	switch {
	case se == nil:
		x.Failf(key+"/fault-accepted", "%s: both sides completed although a consistency-check input was altered", what)
	case se.panicked:
		x.Failf(key+"/panic", "%s: %s", what, first(se))
	case !slices.Contains(at, se.where):
		x.Failf(key+"/wrong-step", "%s: run stopped at %q, expected the recipient to refuse at one of %v: %s", what, se.where, at, first(se))
	default:
		count(section, rejectionClass(se))
	}
}
