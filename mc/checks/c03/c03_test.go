// C03 — key generation ends with one consistent, reconstructible key.
//
// Space (factorised as in DESIGN §5 C03): kg ∈ {Gennaro, Canetti, trusted dealer, Lindell17 dealer, Lindell17 DKG
// (thorough)} x access structure (shared catalogue) x group (7) x NIZK compiler (3, Gennaro) x identifier
// assignment x API ∈ {round by round, runner over routers} x two seeds, one execution per configuration, EVERY
// non-empty subset of shareholders as inner cases.
//
//	structures/k256/{dkg,dealer}   every threshold, unanimity, labelled CNF, hierarchical (<=3 levels) and boolexpr
//	                               (<=3 leaves) structure with 2<=n<=3 on k256/Fiat–Shamir x {Gennaro, Canetti | dealer};
//	                               thorough: n<=4, boolexpr <=4 leaves (dealer <=5), labelled CNFs of n=4, T(4,7)
//	groups-x-compilers/T(2,3)      7 groups x {Gennaro x {Fiat–Shamir, Fischlin, randomised Fischlin}, Canetti, dealer}
//	id-assignments/k256            {T(2,3), cnf3{0|12}} (thorough: all of catalog.Small()) x every identifier
//	                               assignment of the family's documented domain x {Gennaro, Canetti, dealer}
//	runner-vs-rounds (SCHED)       the two slices above through the real runners over routers on schednet, same
//	                               seeds as the round-by-round run (quick: Fischlin compilers on k256 only)
//	lindell17-dealer/{k256,p256}   catalog.Small() n<=3 (thorough: all, + identifier assignments)
//	lindell17-dkg/k256 (thorough)  T(2,2), T(2,3), cnf3{0|12}: rounds and runners over dealt base shards
//
// Oracle: checkShards (oracle_test.go) — agreement on pk / MSP / verification vector / public shares; share·G ==
// public share == (MSP row)·V in ref/curve; every subset reconstructs dlog(pk) (library, two scheme constructions,
// and ref/linalg over the MSP rows) iff the reference truth table says qualified, else refusal + rank test;
// reconstruction in the exponent; different seeds ⇒ different keys; CBOR store/reload ⇒ Equal shard that signs
// (Lindell22 BIP-340, reference verifier in bip340_test.go) exactly as the original; runner pk == round-by-round pk.
package c03

import (
	"github.com/bronlabs/bron-crypto/pkg/base/curves/k256"
	"bytes"
	"fmt"
	"os"
	"strings"
	"sync"
	"testing"
	"time"

	"github.com/bronlabs/bron-crypto/pkg/mpc"
	"github.com/bronlabs/bron-crypto/pkg/mpc/sharing"
	"github.com/bronlabs/bron-crypto/pkg/mpc/sharing/accessstructures"
	"github.com/bronlabs/bron-crypto/pkg/mpc/sharing/vss/feldman"
	"github.com/bronlabs/bron-crypto/pkg/proofs/sigma/compiler"
	"github.com/bronlabs/bron-crypto/pkg/proofs/sigma/compiler/fiatshamir"
	"github.com/bronlabs/bron-crypto/pkg/proofs/sigma/compiler/fischlin"
	"github.com/bronlabs/bron-crypto/pkg/proofs/sigma/compiler/randfischlin"

	"verifmc/catalog"
	"verifmc/engine"
	"verifmc/proto"
	"verifmc/ref/policy"
	"verifmc/schednet"
)

func TestMain(m *testing.M) { engine.Main(m, "C03", "exploration") }

// cfg is one key-generation configuration (the group is the receiver of exec).
type cfg struct {
	kg     string        // gennaro | canetti | dealer
	nic    compiler.Name // gennaro only
	e      catalog.Entry
	ids    catalog.IDAssignment
	mayRefuse bool // the identifier assignment may lie outside the family's documented domain: a constructor refusal is a correct outcome
	perParty bool // every party builds its own access-structure object from its own listing (catalog.BuildVariant)
	runner bool // additionally run the networked runners with the same seeds and compare
	sign   int  // k256 only: the reloaded shards of a qualified quorum sign (Lindell22 BIP-340). 0: no; 1: the first
	// qualified quorum with >= 2 members, first seed only; 2: first quorum (quick) / every such quorum (thorough), both seeds
}

func (c cfg) tag() string {
	t := c.kg
	if c.kg == "gennaro" {
		t = "gennaro-" + string(c.nic)
	}
	if c.perParty {
		t += "/own-listing"
	}
	return t
}

func seeds() []int64 { return []int64{engine.Seed(), engine.Seed() + 1} }

// signingQuorum: the first (ascending mask) qualified subset with at least two members (Lindell22 needs >= 2).
func signingQuorums(p *policy.Policy, all bool) []uint64 {
	var out []uint64
	for _, m := range catalog.Qualified(p) {
		if len(policy.Members(m)) >= 2 {
			out = append(out, m)
			if !all {
				break
			}
		}
	}
	return out
}

func (g grp[E, S]) rounds(c cfg, ids []sharing.ID, ac accessstructures.Monotone, seed int64) (shardMap[E, S], error) {
	switch c.kg {
	case "gennaro":
		return proto.GennaroRounds(ids, ac, g.group, c.nic, seed)
	case "canetti":
		return proto.CanettiRounds(ids, ac, g.group, seed)
	case "dealer":
		return proto.Deal(g.group, ac, seed, "c03")
	}
	panic("unknown kg " + c.kg)
}

func (g grp[E, S]) overRunners(x *engine.X, c cfg, ids []sharing.ID, ac accessstructures.Monotone, seed int64) (map[sharing.ID]*schednet.Result[*mpc.BaseShard[E, S]], *schednet.Info) {
	net := schednet.New(ids...)
	switch c.kg {
	case "gennaro":
		return proto.GennaroRun(x, net, ids, ac, g.group, c.nic, seed)
	case "canetti":
		return proto.CanettiRun(x, net, ids, ac, g.group, seed)
	}
	panic("no runner for kg " + c.kg)
}

// exec runs one configuration with both seeds and applies the whole oracle.
func (g grp[E, S]) exec(x *engine.X, c cfg) {
	ids := c.ids.IDs[:c.e.P.N]
	ac, err := catalog.Build(c.e.P, ids)
	if err == nil && c.mayRefuse {
		// the precondition on identifiers is checked where the sharing scheme is built
		_, err = feldman.NewScheme(g.group, ac)
	}
	if err != nil && c.mayRefuse {
		x.Case(fmt.Sprintf("%s/%s/%s/ids=%s/refused", c.tag(), g.name, c.e.Name, c.ids.Name))
		x.Trivial()
		return
	}
	if err != nil {
		panic(engine.HarnessError{Msg: fmt.Sprintf("catalogue policy %s with ids %v refused by the constructor: %v", c.e.Name, ids, err)})
	}
	if c.perParty {
		// party i lists the agreed structure its own way; the dealer (and the embedded default) use listing 0, the
		// oracle's library calls use the LAST party's object
		pp := &proto.PerPartyAC{Monotone: ac, By: map[sharing.ID]accessstructures.Monotone{}}
		for i, id := range ids {
			v, err := catalog.BuildVariant(c.e.P, ids, i+1)
			if err != nil {
				panic(engine.HarnessError{Msg: fmt.Sprintf("catalogue policy %s listing %d refused by the constructor: %v", c.e.Name, i+1, err)})
			}
			pp.By[id] = v
		}
		ac = pp
	}
	tag := c.tag()
	var pks [][]byte
	raised := new(bool)
	for si, seed := range seeds() {
		st := newSite(tag, fmt.Sprintf("%s/%s/%s/ids=%s/seed=%d", tag, g.name, c.e.Name, c.ids.Name, seed), c.e.P, raised)
		x.Case(st.where)
		shards, err := g.rounds(c, ids, ac, seed)
		if err != nil {
			st.failf(x, "run/failed", "honest key generation (round by round) failed: %v", err)
			continue
		}
		pk := checkShards(x, g, st, c.e.P, ids, proto.ACFor(ac, ids[len(ids)-1]), shards)
		pks = append(pks, pk)
		rl := reload(x, st, ids, shards)
		if rl != nil && (c.sign == 2 || c.sign == 1 && si == 0) {
			if orig, ok := any(shards).(map[sharing.ID]*proto.K256Shard); ok {
				rel := any(rl).(map[sharing.ID]*proto.K256Shard)
				for _, qm := range signingQuorums(c.e.P, c.sign == 2 && engine.Thorough()) {
					q := catalog.Subset(ids, qm)
					msg := []byte("C03 store/reload " + c.e.Name)
					s1 := signAndVerify(x, st, "original", orig, q, msg, seed)
					s2 := signAndVerify(x, st, "reloaded", rel, q, msg, seed)
					if s1 != nil && s2 != nil && !s1.Equal(s2) {
						st.failf(x, "sign/reloaded-differs", "quorum %v: with identical randomness the reloaded shards sign %s, the originals %s", q, sigString(s2), sigString(s1))
					}
				}
			}
		}
		if c.runner {
			res, info := g.overRunners(x, c, ids, ac, seed)
			if info.HarnessErr != "" {
				panic(engine.HarnessError{Msg: info.HarnessErr})
			}
			if info.Deadlock != "" {
				st.failf(x, "runner/deadlock", "honest runners deadlocked: %s", info.Deadlock)
				continue
			}
			out := shardMap[E, S]{}
			bad := false
			for _, id := range ids {
				r := res[id]
				if r == nil || !r.Done || r.Err != nil || r.Panic != "" || r.Starved || r.Out == nil {
					bad = true
					st.failf(x, "runner/failed", "party %d did not finish the honest run over routers: done=%v starved=%v err=%v panic=%s (stuck: %s)", id, r != nil && r.Done, r != nil && r.Starved, errOf(r), panicOf(r), info.Stuck)
					continue
				}
				out[id] = r.Out
			}
			if bad {
				continue
			}
			rpk := checkShards(x, g, st.sub("/runner"), c.e.P, ids, proto.ACFor(ac, ids[len(ids)-1]), out)
			if !bytes.Equal(rpk, pk) {
				st.failf(x, "api/pk-differs", "with the same seeds the runner API gives pk=%x, the round-by-round API pk=%x", rpk, pk)
			}
		}
	}
	if len(pks) == 2 && pks[0] != nil && bytes.Equal(pks[0], pks[1]) {
		newSite(tag, fmt.Sprintf("%s/%s/%s/ids=%s", tag, g.name, c.e.Name, c.ids.Name), c.e.P, raised).failf(x, "seeds/same-pk", "two runs with different seeds produced the same public key %x", pks[0])
	}
}

func errOf[O any](r *schednet.Result[O]) error {
	if r == nil {
		return nil
	}
	return r.Err
}

func panicOf[O any](r *schednet.Result[O]) string {
	if r == nil {
		return ""
	}
	return r.Panic
}

// ---------------------------------------------------------------------------------------------------------------
// catalogue slices

var (
	catOnce                 sync.Once
	dkgStructs, dealStructs []catalog.Entry
	t23, cnf3, t47          catalog.Entry
)

func ordOf(n int) catalog.IDAssignment {
	if n <= 6 {
		return catalog.IDAssignments(n)[0]
	}
	ids := make([]sharing.ID, n)
	for i := range ids {
		ids[i] = sharing.ID(i + 1)
	}
	return catalog.IDAssignment{Name: "ord", IDs: ids, Max64: true, Ordered: true}
}

func buildCatalogue() {
	catOnce.Do(func() {
		maxN := 3
		if engine.Thorough() {
			maxN = 4
		}
		inRange := func(e catalog.Entry) bool { return e.P.N >= 2 && e.P.N <= maxN }
		// DKGs: threshold, unanimity, CNF (labelled for n=3; thorough: labelled for n=4 too), hierarchical, boolexpr
		// with <= 3 leaves (quick) / <= 4 leaves (thorough)
		leaves := 3
		if engine.Thorough() {
			leaves = 4
		}
		var base []catalog.Entry
		base = append(base, catalog.Thresholds(2, maxN)...)
		base = append(base, catalog.Unanimities(2, maxN)...)
		base = append(base, catalog.CNFs(2, maxN, maxN)...)
		base = append(base, catalog.Hierarchicals(2, maxN, 3)...)
		for _, e := range catalog.Accepted(append(append([]catalog.Entry{}, base...), catalog.BoolExprs(leaves, 4)...)) {
			if inRange(e) {
				dkgStructs = append(dkgStructs, e)
			}
		}
		// dealer: quick the same list; thorough boolexpr with one more leaf (5)
		dl := leaves
		if engine.Thorough() {
			dl = leaves + 1
		}
		for _, e := range catalog.Accepted(append(append([]catalog.Entry{}, base...), catalog.BoolExprs(dl, 4)...)) {
			if inRange(e) {
				dealStructs = append(dealStructs, e)
			}
		}
		for _, e := range catalog.Small() {
			switch e.Name {
			case "thr(2,3)":
				t23 = e
			case "cnf3{0|12}":
				cnf3 = e
			}
		}
		if t23.P == nil || cnf3.P == nil {
			panic(engine.HarnessError{Msg: "catalogue no longer contains thr(2,3) / cnf3{0|12}"})
		}
		p := &policy.Policy{Kind: policy.Threshold, N: 7, T: 4}
		t47 = catalog.Entry{Name: p.String(), P: p}
		if engine.Thorough() {
			dkgStructs = append(dkgStructs, t47)
			dealStructs = append(dealStructs, t47)
		}
		if f := os.Getenv("C03_STRUCT"); f != "" { // triage aid: restrict section (1) to the structures whose name contains f
			keep := func(l []catalog.Entry) (o []catalog.Entry) {
				for _, e := range l {
					if strings.Contains(e.Name, f) {
						o = append(o, e)
					}
				}
				return o
			}
			dkgStructs, dealStructs = keep(dkgStructs), keep(dealStructs)
		}
	})
}

// assignments: the identifier assignments inside the documented domain of e's family (catalog.AssignmentsFor);
// for hierarchical policies additionally only identifiers <= 64, because the Birkhoff field-size condition may
// refuse the large ones by design (that refusal is C02's subject, not a key-generation outcome).
func assignments(e catalog.Entry) []catalog.IDAssignment {
	var out []catalog.IDAssignment
	for _, a := range catalog.AssignmentsFor(e) {
		if e.P.Kind == policy.Hierarchical && !a.Max64 {
			continue
		}
		out = append(out, a)
	}
	return out
}

// perms calls f with every permutation of ids (lexicographic by position).
func perms(ids []sharing.ID, f func([]sharing.ID)) {
	var rec func(k int, cur []sharing.ID, used uint)
	rec = func(k int, cur []sharing.ID, used uint) {
		if k == len(ids) {
			f(cur)
			return
		}
		for i := range ids {
			if used&(1<<uint(i)) == 0 {
				rec(k+1, append(cur, ids[i]), used|1<<uint(i))
			}
		}
	}
	rec(0, nil, 0)
}

type gc struct {
	g anyGroup
	c cfg
}

func onlyMatch(name string) bool {
	o := os.Getenv("C03_ONLY")
	return o == "" || strings.Contains(name, o)
}

func explore(name string, list []gc, o engine.Opts) {
	if !onlyMatch(name) {
		return
	}
	o.Name = name
	engine.Explore(func(x *engine.X) {
		i := chooseConfig(x, len(list), o.Procs)
		if i < 0 {
			return
		}
		it := list[i]
		t0 := time.Now()
		it.g.exec(x, it.c)
		if os.Getenv("C03_TIMING") != "" {
			fmt.Printf("timing %-8.2fs %s/%s/%s/ids=%s\n", time.Since(t0).Seconds(), it.c.tag(), it.g.Name(), it.c.e.Name, it.c.ids.Name)
		}
	}, o)
}

// chooseConfig picks the configuration index of this execution. In-process sections: a plain Choose. Sections
// sharded over worker processes (SCHED: one execution at a time per process): the engine hands a subtree to a worker
// only once the frontier of the choice tree is at least 16*procs wide and every worker executes everything above
// that frontier itself, so a list shorter than that would be run completely by every worker. The choice point is
// therefore padded with empty slots (slot 0 and the slots past the list), which are trivial executions that do
// nothing; the real configurations are then dealt round-robin to the workers. Returns -1 for an empty slot.
func chooseConfig(x *engine.X, n, procs int) int {
	if procs <= 1 {
		return x.Choose("configuration", n)
	}
	slots := max(n+1, 16*procs+1)
	s := x.Choose(fmt.Sprintf("configuration slot (1..%d real, the rest empty padding for process sharding)", n), slots)
	if s == 0 || s > n {
		x.Trivial()
		return -1
	}
	return s - 1
}

func TestCheck(t *testing.T) {
	engine.Rule("one execution = one (key generation, group, compiler, access structure, identifier assignment[, API]) configuration run with two seeds; the sections take the slices of DESIGN §5 C03 completely: (1) every catalogue structure (threshold, unanimity, labelled CNF, hierarchical <=3 levels, boolexpr) with n<=3 (thorough n<=4 and T(4,7)) on k256/Fiat–Shamir x {Gennaro, Canetti, dealer}; (2) all 7 groups x {Gennaro x 3 compilers, Canetti, dealer} on T(2,3); (3) every identifier assignment in the documented domain x {T(2,3), cnf3{0|12}} (thorough: + hierarchical, non-ideal boolexpr) x 3 kg; (4) the same slices (2),(3) through the networked runners under the scheduler, compared with the round-by-round run of the same seeds; (5) Lindell17 dealer / DKG; (6) every catalogue CNF (>= 2 clauses), hierarchical, threshold and unanimity structure where party i builds its OWN access-structure object from its own listing (clause list rotated by i and reversed for odd i, set members listed in reverse) x {Gennaro, Canetti, dealer}; (7) every hierarchical structure under every permutation of three identifier pools ({1,2,3,4}, {2,4,6,9}, {3,7,64,10}) on the parties x {Gennaro, dealer}: either the scheme constructor refuses the placement or the whole oracle applies; (8) sessions whose quorum differs from the shareholder set (subset, superset, other member) x {Gennaro, Canetti}: the run must be refused. Inside an execution EVERY non-empty subset of shareholders is an inner case. A configuration is non-trivial when keys were produced and every subset was evaluated.")
	engine.Assume("all parties honest, default schedule and FIFO delivery for the runner sections (C11/C04 own the rest)", "reference models verifmc/ref/curve, ref/linalg, ref/policy and math/big are correct", "two seeds per configuration (engine seed, +1); 'independent keys' is checked as 'different public keys'", "Paillier decryption of the Lindell17 auxiliary ciphertexts uses the library (C16 owns Paillier)", "purego build; SCHED overlay for the runner sections")
	buildCatalogue()
	fs := fiatshamir.Name
	ord := ordOf

	// (1) all structures on k256 + Fiat–Shamir
	{
		var dkg, deal []gc
		for _, e := range dkgStructs {
			dkg = append(dkg, gc{gK256, cfg{kg: "gennaro", nic: fs, e: e, ids: ord(e.P.N), sign: 1}})
			dkg = append(dkg, gc{gK256, cfg{kg: "canetti", e: e, ids: ord(e.P.N), sign: 1}})
		}
		inDKG := map[string]bool{}
		for _, e := range dkgStructs {
			inDKG[e.Name] = true
		}
		for _, e := range dealStructs {
			sg := 1
			if !inDKG[e.Name] {
				sg = 0 // thorough: the extra 5-leaf boolean expressions are dealt and checked, not signed with
			}
			deal = append(deal, gc{gK256, cfg{kg: "dealer", e: e, ids: ord(e.P.N), sign: sg}})
		}
		// MaxFails: the dummy-party CNFs (keyCNFDummy) each fail once; they must not stop the section
		explore("structures/k256/dkg", dkg, engine.Opts{MaxFails: 100000, Budget: engine.Budget(5*time.Minute, 15*time.Minute)})
		explore("structures/k256/dealer", deal, engine.Opts{MaxFails: 100000, Budget: engine.Budget(5*time.Minute, 15*time.Minute)})
	}

	// (2) groups x compilers on T(2,3)
	kgcs := []cfg{{kg: "gennaro", nic: fs}, {kg: "gennaro", nic: fischlin.Name}, {kg: "gennaro", nic: randfischlin.Name}, {kg: "canetti"}, {kg: "dealer"}}
	{
		var l []gc
		for _, g := range allGroups {
			for _, k := range kgcs {
				k.e, k.ids, k.sign = t23, ord(3), 2
				l = append(l, gc{g, k})
			}
		}
		explore("groups-x-compilers/T(2,3)", l, engine.Opts{Budget: engine.Budget(5*time.Minute, 15*time.Minute)})
	}

	// (3) identifier assignments
	idStructs := []catalog.Entry{t23, cnf3}
	if engine.Thorough() {
		for _, e := range catalog.Small() {
			if e.Name != t23.Name && e.Name != cnf3.Name {
				idStructs = append(idStructs, e)
			}
		}
	}
	{
		var l []gc
		for _, e := range idStructs {
			for _, a := range assignments(e) {
				for _, k := range []cfg{{kg: "gennaro", nic: fs}, {kg: "canetti"}, {kg: "dealer"}} {
					k.e, k.ids, k.sign = e, a, 2
					l = append(l, gc{gK256, k})
				}
			}
		}
		explore("id-assignments/k256", l, engine.Opts{Budget: engine.Budget(4*time.Minute, 10*time.Minute)})
	}

	// (4) the networked runners on the slices (2) and (3), compared with the round-by-round run
	{
		var l []gc
		for _, g := range allGroups {
			for _, k := range kgcs {
				if k.kg == "dealer" {
					continue
				}
				if k.kg == "gennaro" && k.nic != fs && g.Name() != "k256" && !engine.Thorough() {
					continue // quick: the two Fischlin compilers go over the runners on k256 only (they cost ~10x); thorough: all 7 groups
				}
				k.e, k.ids, k.runner = t23, ord(3), true
				l = append(l, gc{g, k})
			}
		}
		for _, e := range idStructs {
			for _, a := range assignments(e) {
				if e.Name == t23.Name && a.Name == "ord" {
					continue // already in the group slice
				}
				for _, k := range []cfg{{kg: "gennaro", nic: fs}, {kg: "canetti"}} {
					k.e, k.ids, k.runner = e, a, true
					l = append(l, gc{gK256, k})
				}
			}
		}
		explore("runner-vs-rounds", l, engine.Opts{Serial: true, Procs: 16, CrashTrace: true, Engine: "SCHED", Budget: engine.Budget(5*time.Minute, 15*time.Minute)})
	}

	// (5) Lindell17
	lindell17Sections()

	// (7) hierarchical structures under EVERY placement of three identifier pools on the parties (inside and outside the
	// documented ordering precondition): the constructor either refuses the placement, or key generation must satisfy
	// the whole oracle (in particular: every qualified set reconstructs)
	{
		pools := [][]sharing.ID{{1, 2, 3, 4}, {2, 4, 6, 9}, {3, 7, 64, 10}}
		var l []gc
		for _, e := range dkgStructs {
			if e.P.Kind != policy.Hierarchical || e.P.N > 4 {
				continue
			}
			for pi, pool := range pools {
				perms(pool[:e.P.N], func(ids []sharing.ID) {
					a := catalog.IDAssignment{Name: fmt.Sprintf("pool%d%v", pi, ids), IDs: append([]sharing.ID{}, ids...), Max64: true}
					for _, k := range []cfg{{kg: "gennaro", nic: fs}, {kg: "dealer"}} {
						k.e, k.ids, k.mayRefuse = e, a, true
						l = append(l, gc{gK256, k})
					}
				})
			}
		}
		explore("hierarchical-any-placement/k256", l, engine.Opts{Budget: engine.Budget(4*time.Minute, 10*time.Minute)})
	}

	// (8) the session's quorum and the structure's shareholders differ (a shareholder has no seat in the session, or a
	// session member is no shareholder): the participant constructors must refuse — a key generation that completes
	// without a shareholder leaves that shareholder without a share, so the qualified sets containing it cannot
	// reconstruct
	if onlyMatch("session-structure-mismatch/k256") {
		engine.Explore(func(x *engine.X) {
			type mm struct {
				name      string
				session   []sharing.ID
				threshold uint
				holders   []sharing.ID
			}
			cases := []mm{
				{"session{1,2,3}-structure-T(2,4){1,2,3,4}", []sharing.ID{1, 2, 3}, 2, []sharing.ID{1, 2, 3, 4}},
				{"session{1,2,3,4}-structure-T(2,3){1,2,3}", []sharing.ID{1, 2, 3, 4}, 2, []sharing.ID{1, 2, 3}},
				{"session{1,2,4}-structure-T(2,3){1,2,3}", []sharing.ID{1, 2, 4}, 2, []sharing.ID{1, 2, 3}},
				{"session{2,3}-structure-T(2,3){1,2,3}", []sharing.ID{2, 3}, 2, []sharing.ID{1, 2, 3}},
			}
			c := cases[x.Choose("mismatch", len(cases))]
			kg := []string{"gennaro", "canetti"}[x.Choose("kg", 2)]
			ac := proto.Threshold(c.threshold, c.holders...)
			x.Case(kg + "/" + c.name)
			var err error
			var shards shardMap[*k256.Point, *k256.Scalar]
			if kg == "gennaro" {
				shards, err = proto.GennaroRounds(c.session, ac, k256.NewCurve(), fs, engine.Seed())
			} else {
				shards, err = proto.CanettiRounds(c.session, ac, k256.NewCurve(), engine.Seed())
			}
			x.Observe(kg, c.name, err == nil)
			if err == nil {
				x.Failf("mismatch-accepted/"+kg, "%s: key generation over a session whose quorum %v is not the shareholder set %v of the structure completed without error (%d shards): the shareholders outside the session hold nothing", kg, c.session, c.holders, len(shards))
			}
		}, engine.Opts{Name: "session-structure-mismatch/k256", Budget: engine.Budget(2*time.Minute, 4*time.Minute)})
	}

	// (6) every party builds its own access-structure object from its own listing of the agreed structure (clause
	// order, order inside sets): the families that promise a canonical span programme must still agree
	{
		var l []gc
		for _, e := range dkgStructs {
			if e.P.Kind == policy.BoolExpr || (e.P.Kind == policy.CNF && len(e.P.MUS) < 2) {
				continue // a tree IS its listing; a one-clause CNF has one listing
			}
			for _, k := range []cfg{{kg: "gennaro", nic: fs}, {kg: "canetti"}, {kg: "dealer"}} {
				k.e, k.ids, k.perParty = e, ord(e.P.N), true
				l = append(l, gc{gK256, k})
			}
		}
		explore("own-listings/k256", l, engine.Opts{Budget: engine.Budget(4*time.Minute, 10*time.Minute)})
	}
}
