package c09

import (
	"fmt"
	"math/big"
	"slices"
	"strings"

	"github.com/bronlabs/bron-crypto/pkg/base/algebra"
	"github.com/bronlabs/bron-crypto/pkg/base/curves"
	rvole_bbot "github.com/bronlabs/bron-crypto/pkg/mpc/rvole/bbot"
	rvole_softspoken "github.com/bronlabs/bron-crypto/pkg/mpc/rvole/softspoken"

	"verifmc/det"
	"verifmc/engine"
	"verifmc/ref/cbor"
	"verifmc/ref/conv"
)

// ---------------------------------------------------------------------------------------------------------------
// rVOLE drivers. Alice's vector a is an INPUT (Round3 / Round2 argument). Bob's scalar b is an OUTPUT of his first
// round: his OT choice bits beta are sampled from his prng inside the library (Bob.Round2 / Bob.Round1 read xi/8
// bytes), so they are controlled through Bob's deterministic stream and b is read back from the round's output;
// the enumeration is over Alice's vectors x seeds.

type rvoleRun struct {
	a, c, d []*big.Int
	b       *big.Int
}

// checkProduct: c_i + d_i == a_i * b (mod q) for every component, recomputed in math/big.
func checkProduct(x *engine.X, key, what string, q *big.Int, r *rvoleRun) bool {
	ok := true
	if len(r.c) != len(r.a) || len(r.d) != len(r.a) {
		x.Failf(key+"/shape", "%s: output lengths c=%d d=%d, want L=%d", what, len(r.c), len(r.d), len(r.a))
		return false
	}
	for i := range r.a {
		sum := new(big.Int).Add(r.c[i], r.d[i])
		sum.Mod(sum, q)
		prod := new(big.Int).Mul(r.a[i], r.b)
		prod.Mod(prod, q)
		if sum.Cmp(prod) != 0 {
			ok = false
			x.Failf(key+"/product", "%s: component %d: c+d = %x but a*b = %x (a=%x b=%x c=%x d=%x)", what, i, sum, prod, r.a[i], r.b, r.c[i], r.d[i])
		}
	}
	return ok
}

func bigs[S algebra.PrimeFieldElement[S]](v []S) []*big.Int {
	out := make([]*big.Int, len(v))
	for i := range v {
		out[i] = conv.ToBig(v[i])
	}
	return out
}

// inputAlphabet: {0, 1, q-1, mid}.
func inputAlphabet(q *big.Int) []*big.Int {
	return []*big.Int{big.NewInt(0), big.NewInt(1), new(big.Int).Sub(q, big.NewInt(1)), new(big.Int).Rsh(q, 1)}
}

var inputNames = []string{"0", "1", "q-1", "mid"}

func nthInput(q *big.Int, l, idx int) ([]*big.Int, string) {
	al := inputAlphabet(q)
	out := make([]*big.Int, l)
	name := ""
	for i := range out {
		out[i] = al[idx%4]
		name += inputNames[idx%4] + ","
		idx /= 4
	}
	return out, "(" + name[:len(name)-1] + ")"
}

// bobAfterRound is what a fault loop needs to re-run Bob's last round from the state he had before it.
type replayBob func(tp tamper) (d []*big.Int, se *stepErr)

// runRvoleBBOT runs the ecbbot-based multiplier. If loop != nil it is called after the honest run with a function
// that re-executes Bob.Round4 on a (tampered) copy of Alice's round-3 message from Bob's pre-Round4 state.
//
// State restore: Bob.Round4 mutates only Bob's round counter and his session transcript. The harness owns the
// *session.Context it passed to NewBob; it keeps ctx.Clone() taken before Round4 and, before each re-execution,
// assigns a fresh clone back through its own pointer (plain Go struct assignment) and uses a value copy of the Bob
// struct taken at the same moment. That the restore is faithful is asserted on every use: the untampered message
// must give exactly the honest d again.
func runRvoleBBOT[P curves.Point[P, B, S], B algebra.FieldElement[B], S algebra.PrimeFieldElement[S]](cc cv[P, B, S], a []*big.Int, seed int64, label string, tp tamper, loop func(honest *rvoleRun, r3 *cbor.Node, again replayBob)) (*rvoleRun, *stepErr) {
	l := len(a)
	suite, err := rvole_bbot.NewSuite(l, cc.curve)
	if err != nil {
		return nil, &stepErr{err, false, "rvole_bbot.NewSuite"}
	}
	ctxA, ctxB := contexts(seed, label)
	alice, err := rvole_bbot.NewAlice(ctxA, suite, det.New(seed, label+"/alice"))
	if err != nil {
		return nil, &stepErr{err, false, "rvole_bbot.NewAlice"}
	}
	bob, err := rvole_bbot.NewBob(ctxB, suite, det.New(seed, label+"/bob"))
	if err != nil {
		return nil, &stepErr{err, false, "rvole_bbot.NewBob"}
	}
	av := make([]S, l)
	for i := range a {
		av[i] = cc.el(a[i])
	}
	var (
		r1 *rvole_bbot.Round1P2P[P, S]
		r2 *rvole_bbot.Round2P2P[P, S]
		r3 *rvole_bbot.Round3P2P[P, S]
		b  S
		c  []S
		d  []S
		se *stepErr
	)
	if se = guard("alice.Round1", func() (e error) { r1, e = alice.Round1(); return }); se != nil {
		return nil, se
	}
	if r1, se = send("rvole.r1", r1, tp); se != nil {
		return nil, se
	}
	if se = guard("bob.Round2", func() (e error) { r2, b, e = bob.Round2(r1); return }); se != nil {
		return nil, se
	}
	if r2, se = send("rvole.r2", r2, tp); se != nil {
		return nil, se
	}
	if se = guard("alice.Round3", func() (e error) { r3, c, e = alice.Round3(r2, av); return }); se != nil {
		return nil, se
	}
	snap := ctxB.Clone()
	saved := *bob
	r3in, se := send("rvole.r3", r3, tp)
	if se != nil {
		return nil, se
	}
	if se = guard("bob.Round4", func() (e error) { d, e = bob.Round4(r3in); return }); se != nil {
		return nil, se
	}
	run := &rvoleRun{a: a, b: conv.ToBig(b), c: bigs(c), d: bigs(d)}
	if loop != nil {
		again := func(tp2 tamper) ([]*big.Int, *stepErr) {
			*ctxB = *snap.Clone()
			nb := saved
			m, se := send("rvole.r3", r3, tp2)
			if se != nil {
				return nil, se
			}
			var d2 []S
			if se := guard("bob.Round4", func() (e error) { d2, e = nb.Round4(m); return }); se != nil {
				return nil, se
			}
			return bigs(d2), nil
		}
		loop(run, treeOf(r3), again)
	}
	return run, nil
}

// runRvoleSoftspoken runs the SoftSpoken-based multiplier over cached base-OT seeds (Alice = OT sender holds the base
// receiver's output, Bob = OT receiver holds the base sender's output). It is cheap enough to be re-run from scratch
// for every fault. msgs (optional) receives the honest messages as sent.
func runRvoleSoftspoken[P curves.Point[P, B, S], B algebra.FieldElement[B], S algebra.PrimeFieldElement[S]](cc cv[P, B, S], bs *baseSeeds, a []*big.Int, seed int64, label string, tp tamper, msgs *[2]any, loop func(honest *rvoleRun, r2 *cbor.Node, again replayBob)) (*rvoleRun, *stepErr) {
	l := len(a)
	suite, err := rvole_softspoken.NewSuite(l, cc.curve, hashFunc)
	if err != nil {
		return nil, &stepErr{err, false, "rvole_softspoken.NewSuite"}
	}
	ctxA, ctxB := contexts(seed, label)
	alice, err := rvole_softspoken.NewAlice(ctxA, suite, bs.rcv, det.New(seed, label+"/alice"))
	if err != nil {
		return nil, &stepErr{err, false, "rvole_softspoken.NewAlice"}
	}
	bob, err := rvole_softspoken.NewBob(ctxB, suite, bs.snd, det.New(seed, label+"/bob"))
	if err != nil {
		return nil, &stepErr{err, false, "rvole_softspoken.NewBob"}
	}
	av := make([]S, l)
	for i := range a {
		av[i] = cc.el(a[i])
	}
	var (
		r1 *rvole_softspoken.Round1P2P[P, B, S]
		r2 *rvole_softspoken.Round2P2P[P, B, S]
		b  S
		c  []S
		d  []S
		se *stepErr
	)
	if se = guard("bob.Round1", func() (e error) { r1, b, e = bob.Round1(); return }); se != nil {
		return nil, se
	}
	if msgs != nil {
		msgs[0] = r1
	}
	if r1, se = send("rvole.r1", r1, tp); se != nil {
		return nil, se
	}
	if se = guard("alice.Round2", func() (e error) { r2, c, e = alice.Round2(r1, av); return }); se != nil {
		return nil, se
	}
	if msgs != nil {
		msgs[1] = r2
	}
	snap := ctxB.Clone() // Bob.Round3 mutates only his round counter and transcript: same restore as in runRvoleBBOT
	saved := *bob
	r2in, se := send("rvole.r2", r2, tp)
	if se != nil {
		return nil, se
	}
	if se = guard("bob.Round3", func() (e error) { d, e = bob.Round3(r2in); return }); se != nil {
		return nil, se
	}
	run := &rvoleRun{a: a, b: conv.ToBig(b), c: bigs(c), d: bigs(d)}
	if loop != nil {
		again := func(tp2 tamper) ([]*big.Int, *stepErr) {
			*ctxB = *snap.Clone()
			nb := saved
			m, se := send("rvole.r2", r2, tp2)
			if se != nil {
				return nil, se
			}
			var d2 []S
			if se := guard("bob.Round3", func() (e error) { d2, e = nb.Round3(m); return }); se != nil {
				return nil, se
			}
			return bigs(d2), nil
		}
		loop(run, treeOf(r2), again)
	}
	return run, nil
}

func sameBigs(a, b []*big.Int) bool {
	if len(a) != len(b) {
		return false
	}
	for i := range a {
		if a[i].Cmp(b[i]) != 0 {
			return false
		}
	}
	return true
}

// ---------------------------------------------------------------------------------------------------------------
// Classification of the multiplier's messages (pkg/mpc/rvole/{bbot,softspoken}/rounds.go).
//
// Alice -> Bob, last message (bbot Round3P2P {aTilde, eta, mu}; softspoken Round2P2P {ATilde, Eta, Mu}):
//   mu / Mu            CHECK VALUE: Bob recomputes mu' through the random oracle and compares all 32 bytes.
//   eta[k] / Eta[k]    CHECK VALUE: enters mu'_{j,k} for every j with beta_j = 1 (beta: xi random bits).
//   aTilde[j][i]       CHECK INPUT: every entry is appended to the transcript from which theta AND mu' are
//                      extracted (roTheta), and for beta_j = 1 it also enters dDot/dHat. -> any alteration changes mu'.
//   -> every leaf of this message: Bob's last round must refuse; he must never output d.
//
// Bob -> Alice in the softspoken flavour (Round1P2P{OtR1}): the extension message, classified in ext_test.go: every
//   leaf (u, x, t) is a check input of the extension -> Alice.Round2 must refuse.
//
// OT transport messages of the bbot flavour (Round1P2P{OtR1.ms}, Round2P2P{OtR2.phi}): NOT check values (ecbbot has
//   no consistency check of its own). Required: no panic, and if both sides complete the product relation still
//   holds. (What actually happens: the two OT views diverge, Bob's mu' differs and Bob aborts.) Thorough tier only,
//   each such fault costs a complete protocol run.

// rvoleBBOTBody: (curve, L, input vector) -> two instances (both seeds): product oracle on each; fault loop on the
// first instance's last message, with the second instance supplying the "other instance" values.
func rvoleBBOTBody(curves int, ls []int) func(*engine.X) {
	return func(x *engine.X) {
		curve := x.Choose("curve", curves)
		l := engine.Pick(x, "L", ls)
		ipow := 1
		for i := 0; i < l; i++ {
			ipow *= 4
		}
		idx := x.Choose("input", ipow)
		if curve == 0 {
			rvoleBBOTCase(x, cvK256, l, idx)
		} else {
			rvoleBBOTCase(x, cvP256, l, idx)
		}
	}
}

func rvoleBBOTCase[P curves.Point[P, B, S], B algebra.FieldElement[B], S algebra.PrimeFieldElement[S]](x *engine.X, cc cv[P, B, S], l, idx int) {
	a, aname := nthInput(cc.q, l, idx)
	seeds := seedList()
	label := fmt.Sprintf("rvole-bbot/%d", l)
	// second instance first: it only has to be honest-correct and to supply foreign values
	var ftree *cbor.Node
	rec := func(name string, root *cbor.Node) {
		if name == "rvole.r3" {
			ftree = root.Clone()
		}
	}
	what2 := fmt.Sprintf("rvole/bbot %s L=%d a=%s seed=%d", cc.name, l, aname, seeds[1])
	x.Case(what2)
	r2, se := runRvoleBBOT(cc, a, seeds[1], label, rec, nil)
	if se != nil {
		x.Failf(honestKey("rvole-bbot", se), "%s: honest run did not complete: %s", what2, first(se))
		return
	}
	checkProduct(x, "rvole-bbot", what2, cc.q, r2)

	what := fmt.Sprintf("rvole/bbot %s L=%d a=%s seed=%d", cc.name, l, aname, seeds[0])
	x.Case(what)
	nf := 0
	r1, se := runRvoleBBOT(cc, a, seeds[0], label, nil, func(h *rvoleRun, tree *cbor.Node, again replayBob) {
		// the restore must be faithful: the unaltered message gives the honest d again (twice)
		for k := 0; k < 2; k++ {
			d, se := again(func(string, *cbor.Node) {})
			if se != nil || !sameBigs(d, h.d) {
				panic(engine.HarnessError{Msg: "Bob state restore is not faithful: " + first(se)})
			}
		}
		all := leavesOf(tree)
		sel := selectRvoleLeaves(all, "$>aTilde[")
		for _, li := range sel {
			lf := all[li]
			others, onames := neighbours(all, li)
			for _, m := range mutations(lf.data, others, onames, dataAt(ftree, lf.path), !strings.HasPrefix(lf.path, "$>aTilde[")) {
				w := fmt.Sprintf("%s: %s %s", what, lf.path, m.name)
				x.Case(w)
				_, fe := again(oneLeaf("rvole.r3", lf.path, m.value))
				mustReject(x, "rvole-bbot/faults", "rvole-bbot", w, fe, "decode rvole.r3", "bob.Round4")
				nf++
			}
		}
	})
	if se != nil {
		x.Failf(honestKey("rvole-bbot", se), "%s: honest run did not complete: %s", what, first(se))
		return
	}
	checkProduct(x, "rvole-bbot", what, cc.q, r1)
	x.Observe(aname, r1.b.Sign() != 0, r1.b.Cmp(r2.b) != 0, fmt.Sprintf("%x", r1.c[0].Bytes()[:2]), nf)
}

func honestKey(p string, se *stepErr) string {
	if se.panicked {
		return p + "/panic"
	}
	return p + "/honest-abort"
}

// selectRvoleLeaves: mu, every eta, and the aTilde rows of the index alphabet {0,1,mid,last-1,last} (all rows in
// thorough), every column.
func selectRvoleLeaves(all []leaf, aPrefix string) []int {
	rows := 0
	for _, lf := range all {
		if strings.HasPrefix(lf.path, aPrefix) {
			var j int
			fmt.Sscanf(lf.path[len(aPrefix):], "%d]", &j)
			rows = max(rows, j+1)
		}
	}
	limit := 0
	if engine.Thorough() {
		limit = 1 << 30
	}
	idx := pickIdx(rows, limit)
	var sel []int
	for i, lf := range all {
		if strings.HasPrefix(lf.path, aPrefix) {
			var j int
			fmt.Sscanf(lf.path[len(aPrefix):], "%d]", &j)
			if !slices.Contains(idx, j) {
				continue
			}
		}
		sel = append(sel, i)
	}
	return sel
}

// rvoleBBOTTransportBody (thorough): faults on the OT transport messages of the bbot flavour; see classification.
func rvoleBBOTTransportBody(x *engine.X) {
	cc := cvK256
	a, aname := nthInput(cc.q, 1, 3)
	seed := engine.Seed()
	label := "rvole-bbot/transport"
	var trees = map[string]*cbor.Node{}
	rec := func(name string, root *cbor.Node) { trees[name] = root.Clone() }
	if _, se := runRvoleBBOT(cc, a, seed, label, rec, nil); se != nil {
		x.Failf(honestKey("rvole-bbot", se), "rvole/bbot a=%s: honest run did not complete: %s", aname, first(se))
		return
	}
	type tgt struct{ msg, path string }
	var tgts []tgt
	tgts = append(tgts, tgt{"rvole.r1", "$>OtR1>ms>compressedBytes"})
	for _, j := range []int{0, 415} {
		for _, c := range []int{0, 1} {
			for _, b := range []int{0, 2} {
				tgts = append(tgts, tgt{"rvole.r2", fmt.Sprintf("$>OtR2>phi[%d][%d][%d]>compressedBytes", j, c, b)})
			}
		}
	}
	tg := engine.Pick(x, "leaf", tgts)
	data := dataAt(trees[tg.msg], tg.path)
	if data == nil {
		panic(engine.HarnessError{Msg: "no leaf " + tg.path})
	}
	all := leavesOf(trees[tg.msg])
	li := slices.IndexFunc(all, func(l leaf) bool { return l.path == tg.path })
	others, onames := neighbours(all, li)
	ms := mutations(data, others, onames, nil, false)
	m := ms[x.Choose("mutation", len(ms))]
	what := fmt.Sprintf("rvole/bbot k256 L=1 a=%s: %s %s %s", aname, tg.msg, tg.path, m.name)
	x.Case(what)
	r, se := runRvoleBBOT(cc, a, seed, label, oneLeaf(tg.msg, tg.path, m.value), nil)
	switch {
	case se == nil:
		checkProduct(x, "rvole-bbot/transport", what, cc.q, r)
		count("rvole-bbot/transport", "completed with a correct product")
	case se.panicked:
		x.Failf("rvole-bbot/panic", "%s: %s", what, first(se))
	default:
		count("rvole-bbot/transport", rejectionClass(se))
	}
	x.Observe(tg.path, m.name, first(se))
}

// rvoleSoftBody: (base kind, curve, L, input, seed) -> honest run, product oracle.
func rvoleSoftBody(x *engine.X) {
	kind := x.Choose("base", 2)
	curve := x.Choose("curve", 2)
	l := 1 + x.Choose("L", 2)
	ipow := 4
	if l == 2 {
		ipow = 16
	}
	idx := x.Choose("input", ipow)
	seed := engine.Pick(x, "seed", seedList())
	bs := getSeeds(kind, curve, seed)
	if bs.err != nil {
		x.Failf("ext/base-ot", "base OT %s did not complete: %s", bs.name, first(bs.err))
		return
	}
	var r *rvoleRun
	var se *stepErr
	var q *big.Int
	var aname string
	label := fmt.Sprintf("rvole-soft/%d", l)
	if curve == 0 {
		var a []*big.Int
		a, aname = nthInput(cvK256.q, l, idx)
		q = cvK256.q
		r, se = runRvoleSoftspoken(cvK256, bs, a, seed, label, nil, nil, nil)
	} else {
		var a []*big.Int
		a, aname = nthInput(cvP256.q, l, idx)
		q = cvP256.q
		r, se = runRvoleSoftspoken(cvP256, bs, a, seed, label, nil, nil, nil)
	}
	what := fmt.Sprintf("rvole/softspoken over %s L=%d a=%s seed=%d", bs.name, l, aname, seed)
	x.Case(what)
	if se != nil {
		x.Failf(honestKey("rvole-soft", se), "%s: honest run did not complete: %s", what, first(se))
		return
	}
	checkProduct(x, "rvole-soft", what, q, r)
	x.Observe(aname, r.b.Sign() != 0, fmt.Sprintf("%x", r.c[0].Bytes()[:2]))
}

// rvoleSoftFaultBody: (base kind, L, input, part). Part 0..chunks-1: the leaves of Alice's last message (mu, every
// eta, aTilde rows of the alphabet / all rows in thorough), split into chunks, each leaf x every mutation re-executing
// Bob.Round3 from his restored pre-round state. Remaining parts: one leaf of Bob's extension message each (x, t and u
// over the index alphabet; all in thorough) x every mutation, each a complete re-run from scratch (Alice's state
// cannot be restored from outside).
const softChunks = 8

func rvoleSoftFaultBody(ls []int, inputs map[int][]int) func(*engine.X) {
	return func(x *engine.X) {
		cc := cvK256
		kind := x.Choose("base", 2)
		l := engine.Pick(x, "L", ls)
		idx := engine.Pick(x, "input", inputs[l])
		seed := engine.Seed()
		bs, bs2 := getSeeds(kind, 0, seed), getSeeds(kind, 0, seed+1000)
		if bs.err != nil || bs2.err != nil {
			x.Failf("ext/base-ot", "base OT %s did not complete", bs.name)
			return
		}
		a, aname := nthInput(cc.q, l, idx)
		label := fmt.Sprintf("rvole-softf/%d", l)
		limit := 0
		if engine.Thorough() {
			limit = 1 << 30
		}
		kIdx := pickIdx(128, limit)
		r1sel := func(all []leaf) []int {
			var sel []int
			for i, lf := range all {
				var k int
				if n, _ := fmt.Sscanf(lf.path, "$>OtR1>u[%d]", &k); n == 1 && !slices.Contains(kIdx, k) {
					continue
				}
				if n, _ := fmt.Sscanf(lf.path, "$>OtR1>challengeResponse>t[%d]", &k); n == 1 && !slices.Contains(kIdx, k) {
					continue
				}
				sel = append(sel, i)
			}
			return sel
		}
		nR1 := len(kIdx)*2 + 1
		part := x.Choose("part", softChunks+nR1)
		what0 := fmt.Sprintf("rvole/softspoken over %s L=%d a=%s seed=%d", bs.name, l, aname, seed)
		var fm [2]any
		if _, se := runRvoleSoftspoken(cc, bs2, a, seed+1000, label, nil, &fm, nil); se != nil {
			x.Failf(honestKey("rvole-soft", se), "%s: honest run (second instance) did not complete: %s", what0, first(se))
			return
		}
		nm := 0
		if part < softChunks {
			ftree := treeOf(fm[1])
			_, se := runRvoleSoftspoken(cc, bs, a, seed, label, nil, nil, func(h *rvoleRun, tree *cbor.Node, again replayBob) {
				for k := 0; k < 2; k++ {
					d, se := again(func(string, *cbor.Node) {})
					if se != nil || !sameBigs(d, h.d) {
						panic(engine.HarnessError{Msg: "Bob state restore is not faithful: " + first(se)})
					}
				}
				all := leavesOf(tree)
				sel := selectRvoleLeaves(all, "$>ATilde[")
				for n, li := range sel {
					if n%softChunks != part {
						continue
					}
					lf := all[li]
					others, onames := neighbours(all, li)
					for _, m := range mutations(lf.data, others, onames, dataAt(ftree, lf.path), !strings.HasPrefix(lf.path, "$>ATilde[")) {
						w := fmt.Sprintf("%s: rvole.r2 %s %s", what0, lf.path, m.name)
						x.Case(w)
						_, fe := again(oneLeaf("rvole.r2", lf.path, m.value))
						mustReject(x, "rvole-soft/faults", "rvole-soft", w, fe, "decode rvole.r2", "bob.Round3")
						nm++
					}
				}
			})
			if se != nil {
				x.Failf(honestKey("rvole-soft", se), "%s: honest run did not complete: %s", what0, first(se))
				return
			}
			x.Observe(bs.name, l, aname, "r2-chunk", part, nm)
			return
		}
		var hm [2]any
		if _, se := runRvoleSoftspoken(cc, bs, a, seed, label, nil, &hm, nil); se != nil {
			x.Failf(honestKey("rvole-soft", se), "%s: honest run did not complete: %s", what0, first(se))
			return
		}
		all := leavesOf(treeOf(hm[0]))
		sel := r1sel(all)
		if len(sel) != nR1 {
			panic(engine.HarnessError{Msg: fmt.Sprintf("extension message has %d selected leaves, expected %d", len(sel), nR1)})
		}
		li := sel[part-softChunks]
		lf := all[li]
		others, onames := neighbours(all, li)
		for _, m := range mutations(lf.data, others, onames, dataAt(treeOf(fm[0]), lf.path), false) {
			w := fmt.Sprintf("%s: rvole.r1 %s %s", what0, lf.path, m.name)
			x.Case(w)
			_, fe := runRvoleSoftspoken(cc, bs, a, seed, label, oneLeaf("rvole.r1", lf.path, m.value), nil, nil)
			mustReject(x, "rvole-soft/faults", "rvole-soft", w, fe, "decode rvole.r1", "alice.Round2")
			nm++
		}
		x.Observe(bs.name, l, aname, "r1", lf.path, nm)
	}
}
