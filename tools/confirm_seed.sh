#!/bin/bash
# usage: tools/confirm_seed.sh <seed-dir>   (seed-dir holds patch.diff, demo_test.go, meta.json)
# Confirms, in a scratch worktree of /repo (never /repo itself): the patch applies and the library builds, the pinned
# regression suite gives the same set of passing packages as the unchanged tree, the demonstration FAILS with the
# patch and PASSES without it. Writes <seed-dir>/confirm.json. The worktree is removed afterwards.
set -u
d=$(readlink -f "$1")
wt=/tmp/confirm-$(basename "$(dirname "$d")")-$(basename "$d")
git -C /repo worktree remove --force "$wt" >/dev/null 2>&1
git -C /repo worktree add --detach "$wt" HEAD >/dev/null 2>&1 || { echo "cannot create worktree"; exit 2; }
cd "$wt"
# where does the demo go? first line comment names the directory
demodir=$(head -5 "$d/demo_test.go" | grep -oE 'pkg/[A-Za-z0-9_/.-]+' | head -1)
demodir=${demodir%/}
case "$demodir" in *.go) demodir=$(dirname "$demodir");; esac
[ -d "$wt/$demodir" ] || { echo "demo dir '$demodir' not found"; demodir=""; }
# the pinned suite = the 30 packages of tools/pinned_pkgs.txt (everything else does not build without the purego tag, on
# the unchanged tree too); only those that depend on a package the patch touches can change their verdict
touched=$(grep -E '^\+\+\+ b/' "$d/patch.diff" | sed 's#^+++ b/##' | xargs -n1 dirname | sort -u | sed 's#^#github.com/bronlabs/bron-crypto/#')
affected=""
for p in $(cat /verif/tools/pinned_pkgs.txt); do
  deps=$(go list -deps "$p" 2>/dev/null)
  for t in $touched; do
    if echo "$deps" | grep -qx "$t"; then affected="$affected $p"; break; fi
  done
done
pinned() { [ -z "$affected" ] && return; go test -vet=off -count=1 -timeout 25m $affected 2>&1 | grep "^ok" | awk '{print $2}' | sort; }
rundemo() { ( cd "$wt/$demodir" && cp "$d/demo_test.go" ./zz_seed_demo_test.go && timeout 1200 go test -tags purego -count=1 -run 'Seed|Demo|seed|demo' . 2>&1 | tail -5; rm -f ./zz_seed_demo_test.go ); }
base_ok=/tmp/pinned_base_$$.txt
pinned > $base_ok
demo_without=$(rundemo)
git apply "$d/patch.diff" || { echo '{"applies": false}' > "$d/confirm.json"; git -C /repo worktree remove --force "$wt"; exit 1; }
build=$(go build -tags purego ./pkg/... 2>&1 | tail -3)
pinned > /tmp/pinned_with_$$.txt
same=$(diff -q $base_ok /tmp/pinned_with_$$.txt >/dev/null && echo true || echo false)
demo_with=$(rundemo)
python3 - "$d" "$same" "$build" "$demo_without" "$demo_with" "$affected" <<'PY'
import json,sys
d,same,build,wo,wi=sys.argv[1:6]
json.dump({"applies":True,"builds":build.strip()=="" ,"build_output":build,"pinned_suite_same_passing_packages":same=="true","pinned_packages_affected":sys.argv[6].split(),
 "demo_passes_without_patch": ("ok" in wo and "FAIL" not in wo),"demo_fails_with_patch":("FAIL" in wi),
 "demo_output_without":wo[-600:],"demo_output_with":wi[-600:]},open(d+"/confirm.json","w"),indent=1)
PY
rm -f /tmp/pinned_with_$$.txt $base_ok
cd /; git -C /repo worktree remove --force "$wt" >/dev/null 2>&1
cat "$d/confirm.json" | head -8
