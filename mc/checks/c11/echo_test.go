package c11

import (
	"crypto/sha3"
	"fmt"

	"github.com/bronlabs/bron-crypto/pkg/base/datastructures/hashset"
	"github.com/bronlabs/bron-crypto/pkg/base/serde"
	"github.com/bronlabs/bron-crypto/pkg/mcrt"
	"github.com/bronlabs/bron-crypto/pkg/mpc/sharing"
	"github.com/bronlabs/bron-crypto/pkg/network"
	"github.com/bronlabs/bron-crypto/pkg/network/echo"
	"github.com/bronlabs/bron-crypto/pkg/network/exchange"

	"verifmc/engine"
)

type bparty struct{}

type bmsg struct {
	V string `cbor:"v"`
}

func (m *bmsg) Validate(*bparty, sharing.ID) error { return nil }

func enc(v any) []byte {
	b, err := serde.MarshalCBOR(v)
	if err != nil {
		panic(err)
	}
	return b
}

// e1 — echo broadcast among n parties with ONE Byzantine sender (the highest id) played by the network: it sends
// payload A or B to each honest recipient and echoes, to each honest recipient, either the true digest or garbage
// for every other honest sender. Honest parties run the real exchange.BroadcastExchange over real routers.
func e1(x *engine.X, n int) {
	s := mcrt.New(x)
	ids := make([]sharing.ID, n)
	for i := range ids {
		ids[i] = sharing.ID(i + 1)
	}
	byz := ids[n-1]
	honest := ids[:n-1]
	type result struct {
		out map[sharing.ID]string
		err error
	}
	res := map[sharing.ID]*result{}
	var sentByz map[sharing.ID]string
	var honestEcho bool
	s.Run(func() {
		net := NewNet(ids...)
		net.fifo = true
		quorum := hashset.NewComparable(ids...).Freeze()
		const cid = "bc"
		wcid := cid + "BROADCAST:"
		// Byzantine behaviour: all structural choices
		sentByz = map[sharing.ID]string{}
		honestEcho = true
		myMsg := map[sharing.ID]*bmsg{}
		for _, h := range honest {
			myMsg[h] = &bmsg{V: fmt.Sprintf("m%d", h)}
		}
		for _, h := range honest {
			v := []string{"A", "B"}[mcrt.Choose("byz-payload", 2)]
			sentByz[h] = v
			r1 := &echo.Round1P2P[*bmsg, *bparty]{Payload: enc(&bmsg{V: v})}
			net.Inject(byz, h, wire(wcid+":EchoRound1P2P", enc(r1)))
			hashes := map[sharing.ID][32]byte{}
			for _, o := range honest {
				if o == h {
					continue
				}
				if mcrt.Choose("byz-echo", 2) == 0 {
					hashes[o] = sha3.Sum256(enc(myMsg[o]))
				} else {
					hashes[o] = sha3.Sum256([]byte("garbage"))
					honestEcho = false
				}
			}
			hashes[byz] = sha3.Sum256(enc(&bmsg{V: v}))
			r2 := &echo.Round2P2P[*bmsg, *bparty]{EchoHashes: hashes}
			net.Inject(byz, h, wire(wcid+":EchoRound2P2P", enc(r2)))
		}
		done := 0
		var routers []*network.Router
		for _, h := range honest {
			rt := network.NewRouter(net.Endpoint(h))
			routers = append(routers, rt)
			mcrt.GoNamed(fmt.Sprintf("honest-%d", h), func() {
				out, err := exchange.BroadcastExchange[*bmsg, *bparty](bg, rt, cid, quorum, myMsg[h])
				r := &result{err: err, out: map[sharing.ID]string{}}
				if err == nil {
					for id, m := range out.Iter() {
						r.out[id] = m.V
					}
				}
				res[h] = r
				done++
			})
		}
		join(&done, len(honest))
		for _, rt := range routers {
			rt.Close()
		}
	})
	if s.HarnessErr != "" {
		panic(engine.HarnessError{Msg: s.HarnessErr})
	}
	if s.Deadlock != "" {
		x.Failf("echo/deadlock", "DEADLOCK in echo broadcast although every message was deliverable; blocked:%s", s.Deadlock)
		return
	}
	for _, p := range s.Panics {
		x.Failf("echo/panic", "panic: %s", p)
	}
	// agreement: no two honest parties accept different payloads from the same sender
	for _, a := range honest {
		for _, b := range honest {
			if a >= b || res[a].err != nil || res[b].err != nil {
				continue
			}
			if res[a].out[byz] != res[b].out[byz] {
				x.Failf("echo/equivocation-accepted", "honest %d accepted %q and honest %d accepted %q from the same (Byzantine) sender %d", a, res[a].out[byz], b, res[b].out[byz], byz)
			}
		}
	}
	// integrity among honest parties: what a accepted from honest b is what b sent
	for _, a := range honest {
		if res[a].err != nil {
			continue
		}
		for _, b := range honest {
			if a != b && res[a].out[b] != fmt.Sprintf("m%d", b) {
				x.Failf("echo/wrong-payload", "honest %d accepted %q from honest %d who sent %q", a, res[a].out[b], b, fmt.Sprintf("m%d", b))
			}
		}
		if res[a].out[byz] != sentByz[a] {
			x.Failf("echo/wrong-payload", "honest %d accepted %q from %d who sent it %q", a, res[a].out[byz], byz, sentByz[a])
		}
	}
	// liveness when the Byzantine party behaves honestly
	consistent := honestEcho
	for _, h := range honest {
		if sentByz[h] != sentByz[honest[0]] {
			consistent = false
		}
	}
	if consistent {
		for _, h := range honest {
			if res[h].err != nil {
				x.Failf("echo/honest-run-failed", "all parties behaved consistently, yet honest %d failed: %v", h, res[h].err)
			}
		}
	}
	for _, h := range honest {
		x.Observe(h, res[h].err == nil, res[h].out[byz])
	}
}
