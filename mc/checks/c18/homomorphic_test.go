package c18

import (
	"fmt"
	"math/big"
	"sync"
	"time"

	"github.com/bronlabs/bron-crypto/pkg/base/algebra"
	"github.com/bronlabs/bron-crypto/pkg/base/curves/k256"
	"github.com/bronlabs/bron-crypto/pkg/base/nt/num"
	"github.com/bronlabs/bron-crypto/pkg/commitments"
	"github.com/bronlabs/bron-crypto/pkg/commitments/intcom"
	"github.com/bronlabs/bron-crypto/pkg/commitments/pedersencom"

	"verifmc/engine"
)

// homKey is what the search needs from a homomorphic commitment key (public, trapdoor or decryption-key flavour).
type homKey[M, W any, C commitments.Commitment[C], S any] interface {
	commitments.Homomorphic[M, W, C, S]
	CommitWithWitness(M, W) (C, error)
	Open(C, M, W) error
}

// val is a model value (math/big integer or reference point); the scheme supplies its arithmetic.
type val any

// homScheme binds a library key to its math/big model.
type homScheme[M, W any, C commitments.Commitment[C], S any] struct {
	name string
	key  homKey[M, W, C, S]

	mkM func(val) M // build fresh library objects from model values
	mkW func(val) W
	rdM func(M) string // canonical reading of library objects (no library arithmetic)
	rdW func(W) string
	rdC func(C) string
	mStr, wStr func(val) string

	mOp, wOp     func(a, b val) val
	mInv, wInv   func(a val) val
	mScal, wScal func(a val, k *big.Int) val
	ref          func(m, w val) string // the commitment recomputed from scratch by the reference

	scalars    []S // library scalars, aligned with scalarVals
	scalarVals []*big.Int

	init, a, b [2]val // (message, witness) of the start state and of the two fixed operands
	tally      *tally
	refMemo    map[string]string
	freshMemo  map[string]*homState[M, W, C]
}

type homState[M, W any, C any] struct {
	M      M
	W      W
	C      C
	mv, wv val
	panicked string // a library panic while replaying the history (reported by the invariant)
}

const (
	opOpA = iota
	opOpSelf
	opOp3
	opInv
	opScalar0 // .. opScalar0+3
	opReRandA = opScalar0 + 4
	opReRandB = opReRandA + 1
	opShiftA  = opReRandB + 1
	opShiftB  = opShiftA + 1
	homNumOps = opShiftB + 1
)

func (h *homScheme[M, W, C, S]) opName(op int) string {
	switch {
	case op == opOpA:
		return "Op(A)"
	case op == opOpSelf:
		return "Op(self)"
	case op == opOp3:
		return "Op(A,B)"
	case op == opInv:
		return "OpInv"
	case op >= opScalar0 && op < opReRandA:
		return "ScalarOp(" + short(h.scalarVals[op-opScalar0]) + ")"
	case op == opReRandA:
		return "ReRandomise(wA)"
	case op == opReRandB:
		return "ReRandomise(wB)"
	case op == opShiftA:
		return "Shift(mA)"
	default:
		return "Shift(mB)"
	}
}

// fresh commits to a model pair with the library. The three fixed pairs (start, A, B) are committed once per search:
// library values are immutable (every operation returns a new object), which the replays themselves confirm — a
// mutated cached operand would make later states disagree with the model.
func (h *homScheme[M, W, C, S]) fresh(p [2]val) (*homState[M, W, C], error) {
	key := h.mStr(p[0]) + "|" + h.wStr(p[1])
	if st, ok := h.freshMemo[key]; ok {
		cp := *st
		return &cp, nil
	}
	M0, W0 := h.mkM(p[0]), h.mkW(p[1])
	C0, err := h.key.CommitWithWitness(M0, W0)
	if err != nil {
		return nil, err
	}
	st := &homState[M, W, C]{M: M0, W: W0, C: C0, mv: p[0], wv: p[1]}
	h.freshMemo[key] = st
	cp := *st
	return &cp, nil
}

// apply performs one operation on the library objects (commitment, message, witness separately, exactly as a caller
// would) and on the model. An error from the library means the operation is refused in this state.
func (h *homScheme[M, W, C, S]) apply(s *homState[M, W, C], op int) error {
	k := h.key
	var err error
	fail := func(e error) error { return fmt.Errorf("%s: %w", h.opName(op), e) }
	switch {
	case op == opOpA || op == opOpSelf:
		o := s
		if op == opOpA {
			if o, err = h.fresh(h.a); err != nil {
				return fail(err)
			}
		}
		c, e1 := k.CommitmentOp(s.C, o.C)
		m, e2 := k.MessageOp(s.M, o.M)
		w, e3 := k.WitnessOp(s.W, o.W)
		if e1 != nil || e2 != nil || e3 != nil {
			return fail(fmt.Errorf("%v/%v/%v", e1, e2, e3))
		}
		s.mv, s.wv = h.mOp(s.mv, o.mv), h.wOp(s.wv, o.wv)
		s.C, s.M, s.W = c, m, w
	case op == opOp3:
		a, e1 := h.fresh(h.a)
		b, e2 := h.fresh(h.b)
		if e1 != nil || e2 != nil {
			return fail(fmt.Errorf("%v/%v", e1, e2))
		}
		c, e1 := k.CommitmentOp(s.C, a.C, b.C)
		m, e2 := k.MessageOp(s.M, a.M, b.M)
		w, e3 := k.WitnessOp(s.W, a.W, b.W)
		if e1 != nil || e2 != nil || e3 != nil {
			return fail(fmt.Errorf("%v/%v/%v", e1, e2, e3))
		}
		s.mv, s.wv = h.mOp(h.mOp(s.mv, a.mv), b.mv), h.wOp(h.wOp(s.wv, a.wv), b.wv)
		s.C, s.M, s.W = c, m, w
	case op == opInv:
		c, e1 := k.CommitmentOpInv(s.C)
		m, e2 := k.MessageOpInv(s.M)
		w, e3 := k.WitnessOpInv(s.W)
		if e1 != nil || e2 != nil || e3 != nil {
			return fail(fmt.Errorf("%v/%v/%v", e1, e2, e3))
		}
		s.mv, s.wv = h.mInv(s.mv), h.wInv(s.wv)
		s.C, s.M, s.W = c, m, w
	case op >= opScalar0 && op < opReRandA:
		i := op - opScalar0
		c, e1 := k.CommitmentScalarOp(s.C, h.scalars[i])
		m, e2 := k.MessageScalarOp(s.M, h.scalars[i])
		w, e3 := k.WitnessScalarOp(s.W, h.scalars[i])
		if e1 != nil || e2 != nil || e3 != nil {
			return fail(fmt.Errorf("%v/%v/%v", e1, e2, e3))
		}
		s.mv, s.wv = h.mScal(s.mv, h.scalarVals[i]), h.wScal(s.wv, h.scalarVals[i])
		s.C, s.M, s.W = c, m, w
	case op == opReRandA || op == opReRandB:
		sh := h.a[1]
		if op == opReRandB {
			sh = h.b[1]
		}
		ws := h.mkW(sh)
		c, e1 := k.ReRandomise(s.C, ws)
		w, e2 := k.WitnessOp(s.W, ws)
		if e1 != nil || e2 != nil {
			return fail(fmt.Errorf("%v/%v", e1, e2))
		}
		s.wv = h.wOp(s.wv, sh)
		s.C, s.W = c, w
	default:
		sh := h.a[0]
		if op == opShiftB {
			sh = h.b[0]
		}
		ms := h.mkM(sh)
		c, e1 := k.Shift(s.C, ms)
		m, e2 := k.MessageOp(s.M, ms)
		if e1 != nil || e2 != nil {
			return fail(fmt.Errorf("%v/%v", e1, e2))
		}
		s.mv = h.mOp(s.mv, sh)
		s.C, s.M = c, m
	}
	return nil
}

func (h *homScheme[M, W, C, S]) build(hist []int) (st *homState[M, W, C], ok bool) {
	defer func() {
		if r := recover(); r != nil {
			if he, isH := r.(engine.HarnessError); isH {
				panic(he)
			}
			st, ok = &homState[M, W, C]{panicked: fmt.Sprint(r)}, true
		}
	}()
	s, err := h.fresh(h.init)
	if err != nil {
		panic(engine.HarnessError{Msg: h.name + ": cannot build the start state: " + err.Error()})
	}
	for _, op := range hist {
		if err := h.apply(s, op); err != nil {
			h.tally.add("refused:"+h.opName(op), 1)
			return nil, false
		}
	}
	return s, true
}

func (h *homScheme[M, W, C, S]) canon(s *homState[M, W, C], hist []int) string {
	if s.panicked != "" {
		return fmt.Sprint("panicked:", hist)
	}
	return h.mStr(s.mv) + "|" + h.wStr(s.wv)
}

// invariant: the library's combined message and witness equal the model's; the combined commitment equals the
// commitment recomputed from scratch (by the reference and by the library); it opens to the combined (m, w), both
// with the library-combined objects (Open) and with objects rebuilt from the model (CommitWithWitness from scratch).
func (h *homScheme[M, W, C, S]) invariant(x *engine.X, s *homState[M, W, C], hist []int) {
	at := fmt.Sprintf("%s after %d ops", h.name, len(hist))
	x.Case("")
	if s.panicked != "" {
		x.Failf("homomorphic/"+h.name+"/panic", "%s: library panicked while applying the operations: %s", at, s.panicked)
		return
	}
	if got, want := h.rdM(s.M), h.mStr(s.mv); got != want {
		x.Failf("homomorphic/"+h.name+"/message", "%s: combined message %s ≠ model %s", at, got, want)
	}
	if got, want := h.rdW(s.W), h.wStr(s.wv); got != want {
		x.Failf("homomorphic/"+h.name+"/witness", "%s: combined witness %s ≠ model %s", at, got, want)
	}
	key := h.canon(s, nil)
	want, ok := h.refMemo[key]
	if !ok {
		want = h.ref(s.mv, s.wv)
		h.refMemo[key] = want
	}
	if got := h.rdC(s.C); got != want {
		x.Failf("homomorphic/"+h.name+"/commitment", "%s: combined commitment %s ≠ commitment recomputed from the combined (m, w) %s", at, got, want)
	}
	if err := h.key.Open(s.C, s.M, s.W); err != nil {
		x.Failf("homomorphic/"+h.name+"/open", "%s: combined commitment does not open to the combined (m, w): %v", at, err)
	}
	Mf, Wf := h.mkM(s.mv), h.mkW(s.wv)
	if c2, err := h.key.CommitWithWitness(Mf, Wf); err != nil || !c2.Equal(s.C) {
		x.Failf("homomorphic/"+h.name+"/recommit", "%s: CommitWithWitness(combined m, w) ≠ combined commitment (err=%v)", at, err)
	}
}

func (h *homScheme[M, W, C, S]) run(depth int) {
	if !selected("homomorphic/" + h.name) {
		return
	}
	h.refMemo = map[string]string{}
	h.freshMemo = map[string]*homState[M, W, C]{}
	sec := engine.BFS(engine.BFSOpts[*homState[M, W, C]]{
		Name: "homomorphic/" + h.name, Depth: depth, NumOps: homNumOps,
		Build: h.build, Canon: h.canon, Invariant: h.invariant, OpName: h.opName,
		Budget: engine.Budget(4*time.Minute, 30*time.Minute),
	})
	sec.Note("ops: Op(A), Op(self), Op(A,B), OpInv, ScalarOp x%d, ReRandomise x2, Shift x2; refusals: %s", len(h.scalars), h.tally.String())
}

// ---------------------------------------------------------------------------------------------------------
// scheme bindings

func bigStr(v val) string { return v.(*big.Int).String() }

func modRing(q *big.Int) (op func(a, b val) val, inv func(a val) val, scal func(a val, k *big.Int) val) {
	op = func(a, b val) val { return mod(new(big.Int).Add(a.(*big.Int), b.(*big.Int)), q) }
	inv = func(a val) val { return mod(new(big.Int).Neg(a.(*big.Int)), q) }
	scal = func(a val, k *big.Int) val { return mod(new(big.Int).Mul(a.(*big.Int), k), q) }
	return
}

func pedersenHom[E algebra.PrimeGroupElement[E, S], S algebra.PrimeFieldElement[S]](c *curveCtx[E, S], flavour string, key homKey[*pedersencom.Message[S], *pedersencom.Witness[S], *pedersencom.Commitment[E, S], S], pub *pedersencom.CommitmentKey[E, S]) *homScheme[*pedersencom.Message[S], *pedersencom.Witness[S], *pedersencom.Commitment[E, S], S] {
	q := c.q()
	g, hh := c.affine(pub.G()), c.affine(pub.H())
	op, inv, scal := modRing(q)
	st := newStream(c.name + "/hom")
	qm1 := new(big.Int).Sub(q, bi(1))
	h := &homScheme[*pedersencom.Message[S], *pedersencom.Witness[S], *pedersencom.Commitment[E, S], S]{
		name: "pedersen-" + c.name + "-" + flavour, key: key,
		mkM:  func(v val) *pedersencom.Message[S] { return must(pedersencom.NewMessage(c.scalar(v.(*big.Int)))) },
		mkW:  func(v val) *pedersencom.Witness[S] { return must(pedersencom.NewWitness(c.scalar(v.(*big.Int)))) },
		rdM:  func(m *pedersencom.Message[S]) string { return c.scalarBig(m.Value()).String() },
		rdW:  func(w *pedersencom.Witness[S]) string { return c.scalarBig(w.Value()).String() },
		rdC:  func(cm *pedersencom.Commitment[E, S]) string { return c.affine(cm.Value()).key() },
		mStr: bigStr, wStr: bigStr, mOp: op, wOp: op, mInv: inv, wInv: inv, mScal: scal, wScal: scal,
		ref:        func(m, w val) string { return c.refPedersen(g, hh, m.(*big.Int), w.(*big.Int)).key() },
		scalarVals: []*big.Int{bi(0), bi(1), bi(2), qm1},
		init:       [2]val{st.bigBelow(q), st.bigBelow(q)},
		a:          [2]val{qm1, bi(1)},
		b:          [2]val{st.bigBelow(q), st.bigBelow(q)},
		tally:      &tally{},
	}
	for _, k := range h.scalarVals {
		h.scalars = append(h.scalars, c.scalar(k))
	}
	return h
}

func intcomHom(k *intcomKey, flavour string, key homKey[*intcom.Message, *intcom.Witness, *intcom.Commitment, *num.Int]) *homScheme[*intcom.Message, *intcom.Witness, *intcom.Commitment, *num.Int] {
	s, t := k.pub.S().Value().Big(), k.pub.T().Value().Big()
	st := newStream("intcom/hom/" + k.name)
	b256 := new(big.Int).Sub(new(big.Int).Lsh(bi(1), 256), bi(1))
	h := &homScheme[*intcom.Message, *intcom.Witness, *intcom.Commitment, *num.Int]{
		name: "intcom-" + k.name + "-" + flavour, key: key,
		mkM:  func(v val) *intcom.Message { return must(intcom.NewMessage(zInt(v.(*big.Int)))) },
		mkW:  func(v val) *intcom.Witness { return must(intcom.NewWitness(zInt(v.(*big.Int)))) },
		rdM:  func(m *intcom.Message) string { return m.Value().Big().String() },
		rdW:  func(w *intcom.Witness) string { return w.Value().Big().String() },
		rdC:  func(c *intcom.Commitment) string { return c.Value().Value().Big().String() },
		mStr: bigStr, wStr: bigStr,
		mOp:        func(a, b val) val { return new(big.Int).Add(a.(*big.Int), b.(*big.Int)) },
		mInv:       func(a val) val { return new(big.Int).Neg(a.(*big.Int)) },
		mScal:      func(a val, k *big.Int) val { return new(big.Int).Mul(a.(*big.Int), k) },
		ref:        func(m, w val) string { return refIntcom(k.n, s, t, m.(*big.Int), w.(*big.Int)).String() },
		scalarVals: []*big.Int{bi(0), bi(1), bi(2), bi(-1)},
		init:       [2]val{st.bigBelow(new(big.Int).Lsh(bi(1), 64)), must(k.pub.SampleWitness(st)).Value().Big()},
		a:          [2]val{bi(-1), bi(1)},
		b:          [2]val{b256, new(big.Int).Neg(new(big.Int).Lsh(k.n, 80))},
		tally:      &tally{},
	}
	h.wOp, h.wInv, h.wScal = h.mOp, h.mInv, h.mScal
	for _, kv := range h.scalarVals {
		h.scalars = append(h.scalars, zInt(kv))
	}
	return h
}

func paillierHom(k *paillierKey, flavour string, key homKey[*paiMsg, *paiWit, *paiCom, *num.Int]) *homScheme[*paiMsg, *paiWit, *paiCom, *num.Int] {
	n := k.n
	mop, minv, mscal := modRing(n)
	st := newStream("paillier/hom/" + k.name)
	unit := func() *big.Int {
		for {
			if v := st.bigBelow(n); v.Sign() > 0 && new(big.Int).GCD(nil, nil, v, n).Cmp(bi(1)) == 0 {
				return v
			}
		}
	}
	h := &homScheme[*paiMsg, *paiWit, *paiCom, *num.Int]{
		name: k.name + "-" + flavour, key: key,
		mkM:  func(v val) *paiMsg { return must(k.message(v.(*big.Int))) },
		mkW:  func(v val) *paiWit { return must(k.witness(v.(*big.Int))) },
		rdM:  func(m *paiMsg) string { return m.Value().Value().Big().String() },
		rdW:  func(w *paiWit) string { return w.Value().Value().Value().Big().String() },
		rdC:  func(c *paiCom) string { return c.Value().Value().Value().Big().String() },
		mStr: bigStr, wStr: bigStr, mOp: mop, mInv: minv, mScal: mscal,
		wOp:        func(a, b val) val { return mod(new(big.Int).Mul(a.(*big.Int), b.(*big.Int)), n) },
		wInv:       func(a val) val { return new(big.Int).ModInverse(a.(*big.Int), n) },
		wScal:      func(a val, e *big.Int) val { return expSigned(a.(*big.Int), e, n) },
		ref:        func(m, w val) string { return refPaillier(n, m.(*big.Int), w.(*big.Int)).String() },
		scalarVals: []*big.Int{bi(0), bi(1), bi(2), bi(-1)},
		init:       [2]val{st.bigBelow(n), unit()},
		a:          [2]val{new(big.Int).Sub(n, bi(1)), new(big.Int).Sub(n, bi(1))},
		b:          [2]val{st.bigBelow(n), unit()},
		tally:      &tally{},
	}
	for _, kv := range h.scalarVals {
		h.scalars = append(h.scalars, zInt(kv))
	}
	return h
}

func elgamalHom(c *curveCtx[*k256.Point, *k256.Scalar], k *elgamalKey, flavour string, key homKey[*egMsg, *egWit, *egCom, *k256.Scalar]) *homScheme[*egMsg, *egWit, *egCom, *k256.Scalar] {
	q := c.q()
	wop, winv, wscal := modRing(q)
	hh := c.affine(k.pk.Value())
	G := c.ref.gen()
	st := newStream("elgamal/hom/" + k.name)
	curve := k256.NewCurve()
	fromRef := func(p refPoint) *k256.Point {
		if p.inf {
			return curve.OpIdentity()
		}
		enc := make([]byte, 65)
		enc[0] = 4
		p.x.FillBytes(enc[1:33])
		p.y.FillBytes(enc[33:])
		return must(curve.FromUncompressed(enc))
	}
	qm1 := new(big.Int).Sub(q, bi(1))
	h := &homScheme[*egMsg, *egWit, *egCom, *k256.Scalar]{
		name: k.name + "-" + flavour, key: key,
		mkM:  func(v val) *egMsg { return egMessage(fromRef(v.(refPoint))) },
		mkW:  func(v val) *egWit { return egWitness(c.scalar(v.(*big.Int))) },
		rdM:  func(m *egMsg) string { return c.affine(m.Value().Value()).key() },
		rdW:  func(w *egWit) string { return c.scalarBig(w.Value().Value()).String() },
		rdC: func(cm *egCom) string {
			cc := cm.Value().Value().Components()
			return c.affine(cc[0]).key() + c.affine(cc[1]).key()
		},
		mStr:  func(v val) string { return v.(refPoint).key() },
		wStr:  bigStr,
		mOp:   func(a, b val) val { return c.ref.add(a.(refPoint), b.(refPoint)) },
		mInv:  func(a val) val { return c.ref.neg(a.(refPoint)) },
		mScal: func(a val, e *big.Int) val { return c.ref.mul(mod(e, q), a.(refPoint)) },
		wOp:   wop, wInv: winv, wScal: wscal,
		ref: func(m, w val) string {
			r := w.(*big.Int)
			return c.ref.mul(r, G).key() + c.ref.add(m.(refPoint), c.ref.mul(r, hh)).key()
		},
		scalarVals: []*big.Int{bi(0), bi(1), bi(2), qm1},
		init:       [2]val{c.ref.mul(st.bigBelow(q), G), st.bigBelow(q)},
		a:          [2]val{c.ref.neg(G), bi(1)},
		b:          [2]val{c.ref.mul(st.bigBelow(q), G), st.bigBelow(q)},
		tally:      &tally{},
	}
	for _, kv := range h.scalarVals {
		h.scalars = append(h.scalars, c.scalar(kv))
	}
	return h
}

// runHomomorphic runs one BFS per scheme/key flavour. The searches are independent and single-threaded, so they
// run side by side.
func runHomomorphic() {
	depth := 3
	if engine.Thorough() {
		depth = 5
	}
	var jobs []func()
	kc, bc := k256Ctx(), blsG1Ctx()
	kk, bk := pedersenKeys(kc), pedersenKeys(bc)
	jobs = append(jobs,
		func() { pedersenHom(kc, "public", kk.pub[0], kk.pub[0]).run(depth) },
		func() { pedersenHom(kc, "trapdoor", kk.trap[0], kk.trap[0].Export()).run(depth) },
		func() { pedersenHom(bc, "public", bk.pub[1], bk.pub[1]).run(depth) },
		func() { pedersenHom(bc, "trapdoor", bk.trap[1], bk.trap[1].Export()).run(depth) },
	)
	for _, k := range intcomKeys() {
		k := k
		if k.trap != nil {
			jobs = append(jobs, func() { intcomHom(k, "trapdoor", k.trap).run(depth) })
			if k.name != "trapdoor128" && !engine.Thorough() {
				continue
			}
		}
		jobs = append(jobs, func() { intcomHom(k, "public", k.pub).run(depth) })
	}
	for _, k := range paillierKeys() {
		k := k
		jobs = append(jobs, func() { paillierHom(k, "public", k.pub).run(depth) })
		if k.name == "paillier128" || engine.Thorough() {
			jobs = append(jobs, func() { paillierHom(k, "secret", k.sec).run(depth) })
		}
	}
	ek := elgamalKeys()
	jobs = append(jobs,
		func() { elgamalHom(kc, ek[0], "public", ek[0].pub).run(depth) },
		func() { elgamalHom(kc, ek[1], "secret", ek[1].sec).run(depth) },
	)
	var wg sync.WaitGroup
	for _, j := range jobs {
		wg.Add(1)
		go func() { defer wg.Done(); j() }()
	}
	wg.Wait()
}
