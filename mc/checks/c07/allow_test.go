package c07

import (
	"regexp"
	"strings"
	"sync"
)

// detLeaf is one reviewed deterministic leaf: a byte-string leaf (>= 16 bytes) of a party's own protocol message
// that is a function of public / fixed inputs only and therefore legitimately keeps its value when the party's
// random source is replaced. Paths are canonical leaf paths (echo wrapper stripped); "[*]" matches any index, an
// explicit index matches only that index. A path matches as a prefix.
type detLeaf struct {
	fam  string // protocol family, or a case-name prefix ("rvolesoftspoken/l1")
	cid  string // "<round>/B" or "<round>/U"
	path string
	why  string
}

const zeroVV0 = "first entry of a zero-sharing verification vector: the commitment to the shared secret 0, i.e. the identity point, by construction (hjky Round2 rejects anything else)"

var detLeaves = []detLeaf{
	{"canetti", "BRON_CRYPTO_DKG_CANETTI_R2/B", "$>Message>SessionID", "the session identifier (fixed input of the run) echoed inside the opened commitment message"},
	{"hjky", "HJKYRound1/B", "$>verificationVector>verification_vector>data[0]>compressedBytes", zeroVV0},
	{"lindell22", "Lindell22SigningRound1/B", "$>zeroR1>verificationVector>verification_vector>data[0]>compressedBytes", zeroVV0},
	{"redistribute", "RedistributeRound1/B", "$>ZeroR1>verificationVector>verification_vector>data[0]>compressedBytes", zeroVV0},
	{"redistribute", "RedistributeRound2/B", "$>ZeroVerificationVector>verification_vector>data[0]>compressedBytes", "first entry of the AGGREGATED zero-sharing verification vector: identity by construction"},
	{"redistribute", "RedistributeRound2/B", "$>PrevMSP>", "the previous access structure's MSP: public key material, fixed input"},
	{"redistribute", "RedistributeRound2/B", "$>PrevVerificationVector>", "the previous verification vector: public key material, fixed input"},
	// DKLs23 round 3: pk_i = (additive share of the key + pseudo-random zero share derived from the session's pairwise
	// seeds) * G: a function of the dealt key material and the session context only (rounds.go, przs.SampleZeroShare).
	{"dkls23bbot", "DKLS23SignBBOTRound3/B", "$>pk>", "public key of the party's session-rerandomised additive key share: key material and session context, no fresh randomness"},
	{"dkls23softspoken", "DKLS23SignRound4/B", "$>pk>", "the same value in the OT-extension variant (signing_softspoken Round4 broadcasts c.state.pk[self]): key material and session context, no fresh randomness"},
	// Lindell17 round 4: the Paillier ciphertext c3 is encoded together with the modulus it lives in (N, N^2): the PRIMARY's
	// public key, fixed key material. The ciphertext value itself ($>c3>c>tag5017>v>value…) is not listed and must change.
	{"lindell17", "Lindell17Round4/U", "$>c3>c>tag5017>n>", paillierModulus},
	{"lindell17", "Lindell17Round4/U", "$>c3>c>tag5017>v>modulus>", paillierModulus},
	{"lindell17", "Lindell17Round4/U", "$>c3>c>tag5017>arithmetic>", paillierModulus},
	// rVOLE over the OT extension: ATilde[j][i] for i < l is alpha_j0[i] - alpha_j1[i] + a[i], where a is Alice's INPUT and the
	// alphas are hashes of the extension pads, i.e. of the fixed base seeds, arranged by ONE choice bit of Bob. They carry
	// none of Alice's randomness and one bit of Bob's (her own samples are the check values aHat: entries i >= l, Eta, Mu).
	{"rvolesoftspoken/l1", "RVOLESoftspokenRound2/U", "$>ATilde[*][0]>", rvoleInputRow},
	{"rvolesoftspoken/l2", "RVOLESoftspokenRound2/U", "$>ATilde[*][0]>", rvoleInputRow},
	{"rvolesoftspoken/l2", "RVOLESoftspokenRound2/U", "$>ATilde[*][1]>", rvoleInputRow},
}

const paillierModulus = "Paillier modulus (N / N^2) carried inside the ciphertext encoding: public key material, fixed input"

const rvoleInputRow = "input row of ATilde: pad difference (fixed base seeds, one choice bit of the peer) plus Alice's input"

var (
	detOnce sync.Once
	detRes  []*regexp.Regexp
)

// deterministicLeaf returns the reason why the leaf may keep its value ("" = it may not). path keeps its indices.
// fam is the full case name ("lindell22/T23-q12").
func deterministicLeaf(fam, cid, path string) string {
	detOnce.Do(func() {
		for _, d := range detLeaves {
			p := regexp.QuoteMeta(d.path)
			p = strings.ReplaceAll(p, `\[\*\]`, `\[\d+\]`)
			detRes = append(detRes, regexp.MustCompile("^"+p))
		}
	})
	for i, d := range detLeaves {
		if (d.fam == fam || strings.HasPrefix(fam, d.fam+"/")) && d.cid == cid && detRes[i].MatchString(path) {
			return d.why
		}
	}
	return ""
}
