package engine

import (
	"crypto/sha256"
	"encoding/binary"
	"encoding/hex"
	"encoding/json"
	"fmt"
	"os"
	"path/filepath"
	"sort"
	"strconv"
	"strings"
	"sync"
	"testing"
	"time"
)

// Section is the coverage record of one exploration (one Explore or BFS call).
type Section struct {
	Name             string         `json:"name"`
	Engine           string         `json:"engine"`
	Executions       int64          `json:"executions"`
	Trivial          int64          `json:"trivial_executions"`
	Cases            int64          `json:"inner_cases"`
	DistinctCases    int            `json:"distinct_inner_cases"`
	DistinctOutcomes int            `json:"distinct_outcomes"`
	MaxDepth         int            `json:"max_choice_depth"`
	Fanout           map[string]int `json:"fanout_per_label,omitempty"`
	DevBound         int            `json:"deviation_bound"`
	States           int64          `json:"states,omitempty"`
	Transitions      int64          `json:"transitions,omitempty"`
	Depth            int            `json:"depth,omitempty"`
	Exhaustive       bool           `json:"exhaustive"`
	Cap              string         `json:"cap,omitempty"`
	Abandoned        int64          `json:"abandoned_subtrees,omitempty"`
	WallS            float64        `json:"wall_s"`
	Samples          []string       `json:"samples,omitempty"`
	Notes            []string       `json:"notes,omitempty"`
	Skipped          bool           `json:"-"`

	mu       sync.Mutex
	outcomes map[string]struct{}
	caseSet  map[uint64]struct{}
	fails    []Failure
	body     func(*X)
}

func newSection(name string) *Section {
	return &Section{Name: name, Engine: "CT", Fanout: map[string]int{}, outcomes: map[string]struct{}{}, caseSet: map[uint64]struct{}{}}
}

func (s *Section) addCase(key string) {
	h := sha256.Sum256([]byte(key))
	k := binary.LittleEndian.Uint64(h[:8])
	s.mu.Lock()
	s.caseSet[k] = struct{}{}
	s.mu.Unlock()
}

func (s *Section) addAbandoned() { s.mu.Lock(); s.Abandoned++; s.mu.Unlock() }

func (s *Section) failCount() int {
	s.mu.Lock()
	defer s.mu.Unlock()
	n := 0
	for _, f := range s.fails {
		if _, ok := knownKeys[f.Key]; !ok || f.Key == "" {
			n++
		}
	}
	return n
}

// Note attaches a free-text remark to the section's evidence.
func (s *Section) Note(format string, a ...any) {
	s.mu.Lock()
	s.Notes = append(s.Notes, fmt.Sprintf(format, a...))
	s.mu.Unlock()
}

func (s *Section) absorb(x *X) {
	s.mu.Lock()
	defer s.mu.Unlock()
	s.Executions++
	s.Cases += x.cases
	if x.trivial {
		s.Trivial++
	}
	if len(x.Points) > s.MaxDepth {
		s.MaxDepth = len(x.Points)
	}
	for _, p := range x.Points {
		if p.N > s.Fanout[p.Label] {
			s.Fanout[p.Label] = p.N
		}
	}
	if len(s.outcomes) < 1<<20 {
		s.outcomes[x.outcome()] = struct{}{}
	}
	if len(s.Samples) < 3 || (s.Executions%9973 == 0 && len(s.Samples) < 8) {
		lbl := make([]string, len(x.Points))
		for i, p := range x.Points {
			lbl[i] = fmt.Sprintf("%s=%d/%d", p.Label, x.Choices[i], p.N)
		}
		smp := strings.Join(lbl, " ")
		if len(x.obs) > 0 {
			o := strings.Join(x.obs, "; ")
			if len(o) > 300 {
				o = o[:300] + "…"
			}
			smp += " => " + o
		}
		s.Samples = append(s.Samples, smp)
	}
	s.fails = append(s.fails, x.fails...)
}

// ---------------------------------------------------------------------------------------------
// process-wide registry

var (
	regMu         sync.Mutex
	sections      []*Section
	property      string
	level         string
	tier          = "quick"
	seed          int64
	verifDir      = "/verif"
	outDir        = "" // evidence/ and replays/ parent; defaults to verifDir (mutant runs point it elsewhere)
	startTime     time.Time
	assumptions   []string
	rule          string
	replayChoices []int
	harnessErrs   []string
	knownKeys     = map[string]string{}
)

// unknownFailureSoFar: some registered section has a failure whose key is not a known finding.
func unknownFailureSoFar() bool {
	regMu.Lock()
	defer regMu.Unlock()
	for _, s := range sections {
		for _, f := range s.fails {
			if _, ok := knownKeys[f.Key]; !ok || f.Key == "" {
				return true
			}
		}
	}
	return false
}

func register(s *Section) {
	regMu.Lock()
	sections = append(sections, s)
	regMu.Unlock()
	if !s.Skipped {
		fmt.Printf("[%s] section %-28s execs=%d cases=%d outcomes=%d states=%d trans=%d exhaustive=%v fails=%d wall=%.1fs %s\n",
			property, s.Name, s.Executions, s.Cases, len(s.outcomes), s.States, s.Transitions, s.Exhaustive, len(s.fails), s.WallS, s.Cap)
	}
}

// Tier returns "quick" or "thorough".
func Tier() string { return tier }

// Thorough reports whether the thorough tier is running.
func Thorough() bool { return tier == "thorough" }

// Seed returns VERIF_SEED (default 1); it selects fixed PRNG seeds, never which cases are explored.
func Seed() int64 { return seed }

// Assume records an assumption / trusted-base statement for the evidence file.
func Assume(s ...string) { regMu.Lock(); assumptions = append(assumptions, s...); regMu.Unlock() }

// Rule records how cases are enumerated and what counts as non-trivial.
func Rule(s string) { regMu.Lock(); rule = s; regMu.Unlock() }

// HarnessFail records a harness error (exit 2, not a violation).
func HarnessFail(format string, a ...any) {
	regMu.Lock()
	harnessErrs = append(harnessErrs, fmt.Sprintf(format, a...))
	regMu.Unlock()
}

// Budget scales a duration budget by tier: quick q, thorough t.
func Budget(q, t time.Duration) time.Duration {
	d := q
	if Thorough() {
		d = t
	}
	// development aid (smoke-testing a tier's code paths in a fraction of its time): VERIF_BUDGET_SCALE=0.1 shrinks every
	// section budget; never set by a registered command, and a budget that is hit is reported as exhaustive:false
	if v := os.Getenv("VERIF_BUDGET_SCALE"); v != "" {
		if f, err := strconv.ParseFloat(v, 64); err == nil && f > 0 {
			d = time.Duration(float64(d) * f)
		}
	}
	return d
}

// Main is the TestMain of every check binary.
func Main(m *testing.M, prop, lvl string) {
	property, level = prop, lvl
	startTime = time.Now()
	if t := os.Getenv("VERIF_TIER"); t == "thorough" || t == "quick" {
		tier = t
	}
	seed = 1
	if s := os.Getenv("VERIF_SEED"); s != "" {
		if v, err := strconv.ParseInt(s, 10, 64); err == nil {
			seed = v
		}
	}
	if d := os.Getenv("VERIF_DIR"); d != "" {
		verifDir = d
	}
	outDir = verifDir
	if d := os.Getenv("VERIF_OUT_DIR"); d != "" {
		outDir = d
	}
	if rp := os.Getenv("VERIF_REPLAY"); rp != "" {
		var rf replayFile
		b, err := os.ReadFile(rp)
		if err != nil || json.Unmarshal(b, &rf) != nil {
			fmt.Println("cannot read replay file", rp, err)
			os.Exit(2)
		}
		os.Setenv("VERIF_REPLAY_SECTION", rf.Section)
		replayChoices = rf.Choices
		if rf.Tier != "" {
			tier = rf.Tier
		}
		seed = rf.Seed
	}
	if b, err := os.ReadFile(filepath.Join(verifDir, "known_findings.json")); err == nil {
		var kf knownFile
		if err := json.Unmarshal(b, &kf); err != nil {
			harnessErrs = append(harnessErrs, "known_findings.json unreadable: "+err.Error())
		}
		for _, f := range kf.Findings {
			if f.Property == property {
				knownKeys[f.Key] = f.What
			}
		}
	}
	code := m.Run()
	os.Exit(finish(code))
}

type replayFile struct {
	Property    string   `json:"property"`
	Section     string   `json:"section"`
	Tier        string   `json:"tier"`
	Seed        int64    `json:"seed"`
	Choices     []int    `json:"choices"`
	Labels      []string `json:"labels"`
	Key         string   `json:"finding_key"`
	Description string   `json:"description"`
}

type knownFile struct {
	Findings []struct {
		Property string `json:"property"`
		Key      string `json:"key"`
		What     string `json:"what"`
	} `json:"findings"`
	Fixed []json.RawMessage `json:"fixed"`
}

func finish(testCode int) int {
	regMu.Lock()
	defer regMu.Unlock()
	replayMode := os.Getenv("VERIF_REPLAY") != ""
	if c := os.Getenv("VERIF_CHILD"); c != "" {
		fmt.Println("child process: section", c, "was never reached")
		return 3
	}

	known := knownKeys

	violations := 0
	knownSeen := map[string]int{}
	var vioLines []string
	for _, s := range sections {
		sortFailures(s.fails)
		reported := 0
		for _, f := range s.fails {
			if what, ok := known[f.Key]; ok && f.Key != "" {
				knownSeen[f.Key]++
				_ = what
				continue
			}
			if reported >= 10 {
				violations++
				continue
			}
			if !replayMode && s.body != nil && f.Key != "process-crash" {
				// replay rule: the recorded choice sequence must fail again, identically, twice
				ok := true
				for r := 0; r < 2; r++ {
					rx := runBody(nil, s.body, f.Choices, true)
					found := false
					for _, g := range rx.fails {
						if g.Key == f.Key && firstLine(g.Msg) == firstLine(f.Msg) {
							found = true
						}
					}
					ok = ok && found
				}
				if !ok {
					harnessErrs = append(harnessErrs, fmt.Sprintf("failure in section %s did not reproduce on replay (not reported as violation): %s choices=%v", s.Name, firstLine(f.Msg), f.Choices))
					continue
				}
			}
			violations++
			reported++
			path := "(replay)"
			if !replayMode {
				path = writeReplay(s, f)
			}
			vioLines = append(vioLines, fmt.Sprintf("VIOLATION property=%s replay=%s", property, path))
			fmt.Printf("--- violation in section %s: %s\n    choices: %s\n", s.Name, f.Msg, strings.Join(f.Labels, " "))
		}
	}
	keys := make([]string, 0, len(knownSeen))
	for k := range knownSeen {
		keys = append(keys, k)
	}
	sort.Strings(keys)
	for _, k := range keys {
		fmt.Printf("KNOWN-FINDING: property=%s %s [key=%s, %d failing cases]\n", property, known[k], k, knownSeen[k])
	}
	for _, l := range vioLines {
		fmt.Println(l)
	}
	if replayMode {
		if violations > 0 {
			return 1
		}
		fmt.Println("replay: no violation reproduced")
		return 0
	}
	if err := writeEvidence(violations, knownSeen); err != nil {
		harnessErrs = append(harnessErrs, "evidence: "+err.Error())
	}
	for _, e := range harnessErrs {
		fmt.Println("HARNESS-ERROR:", e)
	}
	if violations > 0 {
		return 1
	}
	if len(harnessErrs) > 0 || testCode != 0 {
		fmt.Println("HARNESS-ERROR: check binary failed without an oracle violation (go test exit", testCode, ")")
		return 2
	}
	return 0
}

func firstLine(s string) string {
	if i := strings.IndexByte(s, '\n'); i >= 0 {
		return s[:i]
	}
	return s
}

func writeReplay(s *Section, f Failure) string {
	rf := replayFile{Property: property, Section: s.Name, Tier: tier, Seed: seed, Choices: f.Choices, Labels: f.Labels, Key: f.Key, Description: f.Msg}
	b, _ := json.MarshalIndent(rf, "", " ")
	h := sha256.Sum256(b)
	dir := filepath.Join(outDir, "replays", property)
	_ = os.MkdirAll(dir, 0o755)
	p := filepath.Join(dir, hex.EncodeToString(h[:6])+".json")
	_ = os.WriteFile(p, b, 0o644)
	return p
}

func writeEvidence(violations int, knownSeen map[string]int) error {
	var evals, distinct, states, trans int64
	exhaustive := true
	var samples []any
	var caps []string
	secs := []*Section{}
	for _, s := range sections {
		if s.Skipped {
			continue
		}
		s.DistinctCases = len(s.caseSet)
		s.DistinctOutcomes = len(s.outcomes)
		secs = append(secs, s)
		if s.Engine == "BFS" {
			evals += s.Executions
			distinct += s.States
		} else {
			evals += s.Executions + s.Cases
			if s.DistinctCases > 0 {
				distinct += int64(s.DistinctCases)
			} else {
				distinct += s.Executions - s.Trivial
			}
		}
		states += s.States
		trans += s.Transitions
		if !s.Exhaustive {
			exhaustive = false
			caps = append(caps, s.Name+": "+s.Cap)
		}
		for i, smp := range s.Samples {
			if i < 2 {
				samples = append(samples, s.Name+": "+smp)
			}
		}
	}
	cov := map[string]any{
		"evaluations":         evals,
		"distinct_nontrivial": distinct,
		"rule":                rule,
		"samples":             samples,
		"exhaustive":          exhaustive,
		"sections":            secs,
	}
	if states > 0 {
		cov["states"] = states
		cov["transitions"] = trans
		// every state/transition is produced by executing the real implementation; there is no detached model
		cov["traces_validated_against_impl"] = evals
	}
	if len(caps) > 0 {
		cov["caps_hit"] = caps
	}
	if len(knownSeen) > 0 {
		cov["known_findings_seen"] = knownSeen
	}
	ev := map[string]any{
		"property_id": property,
		"tier":        tier,
		"seed":        seed,
		"level":       level,
		"coverage":    cov,
		"assumptions": assumptions,
		"wall_s":      time.Since(startTime).Seconds(),
		"violations":  violations,
	}
	b, err := json.MarshalIndent(ev, "", " ")
	if err != nil {
		return err
	}
	dir := filepath.Join(outDir, "evidence")
	if err := os.MkdirAll(dir, 0o755); err != nil {
		return err
	}
	return os.WriteFile(filepath.Join(dir, property+".json"), b, 0o644)
}
