package c12

import (
	"bytes"
	"fmt"
	"slices"
	"sort"
	"sync"

	"github.com/bronlabs/bron-crypto/pkg/base/algebra"
	"github.com/bronlabs/bron-crypto/pkg/base/curves/k256"
	"github.com/bronlabs/bron-crypto/pkg/base/curves/p256"
	"github.com/bronlabs/bron-crypto/pkg/base/curves/pairable/bls12381"
	ds "github.com/bronlabs/bron-crypto/pkg/base/datastructures"
	"github.com/bronlabs/bron-crypto/pkg/base/datastructures/bitset"
	"github.com/bronlabs/bron-crypto/pkg/base/mat"
	"github.com/bronlabs/bron-crypto/pkg/base/polynomials"
	"github.com/bronlabs/bron-crypto/pkg/base/serde"
	"github.com/bronlabs/bron-crypto/pkg/commitments/pedersencom"
	"github.com/bronlabs/bron-crypto/pkg/mpc"
	"github.com/bronlabs/bron-crypto/pkg/mpc/dkg/trusteddealer"
	"github.com/bronlabs/bron-crypto/pkg/mpc/sharing"
	"github.com/bronlabs/bron-crypto/pkg/mpc/sharing/accessstructures"
	"github.com/bronlabs/bron-crypto/pkg/mpc/sharing/accessstructures/boolexpr"
	"github.com/bronlabs/bron-crypto/pkg/mpc/sharing/accessstructures/cnf"
	"github.com/bronlabs/bron-crypto/pkg/mpc/sharing/accessstructures/hierarchical"
	"github.com/bronlabs/bron-crypto/pkg/mpc/sharing/accessstructures/threshold"
	"github.com/bronlabs/bron-crypto/pkg/mpc/sharing/accessstructures/unanimity"
	"github.com/bronlabs/bron-crypto/pkg/mpc/sharing/scheme/isn"
	"github.com/bronlabs/bron-crypto/pkg/mpc/sharing/scheme/kw"
	"github.com/bronlabs/bron-crypto/pkg/mpc/sharing/scheme/kw/msp"
	"github.com/bronlabs/bron-crypto/pkg/mpc/sharing/scheme/shamir"
	"github.com/bronlabs/bron-crypto/pkg/mpc/sharing/vss/feldman"
	"github.com/bronlabs/bron-crypto/pkg/mpc/sharing/vss/pedersen"

	rc "verifmc/ref/cbor"

	"verifmc/catalog"
	"verifmc/engine"
	"verifmc/ref/policy"
)

type (
	KP = *k256.Point
	KS = *k256.Scalar
)

// ---------------------------------------------------------------------------------------------
// access structures from the shared catalogue (every family; ord / sparse / large identifier assignments)

type acCase struct {
	name string
	e    catalog.Entry
	ids  []sharing.ID
}

func acCases(kind policy.Kind) []acCase {
	var out []acCase
	for _, e := range catalog.Small() {
		if e.P.Kind != kind {
			continue
		}
		for _, a := range catalog.AssignmentsFor(e) {
			out = append(out, acCase{name: e.Name + "/" + a.Name, e: e, ids: a.IDs})
		}
	}
	return out
}

func setOf(ids ...sharing.ID) ds.Set[sharing.ID] { return catalog.IDSet(ids...) }

func sortedIDs(s ds.Set[sharing.ID]) []sharing.ID {
	l := s.List()
	slices.Sort(l)
	return l
}

func cnfKey(c *cnf.CNF) string {
	var sets []string
	for u := range c.MaximalUnqualifiedSetsIter() {
		sets = append(sets, fmt.Sprint(sortedIDs(u)))
	}
	sort.Strings(sets)
	return fmt.Sprint(sortedIDs(c.Shareholders()), sets)
}

// subItem extracts the encoding of one top-level field of a (possibly tagged) CBOR map.
func subItem(enc []byte, field string) ([]byte, error) {
	root, err := rc.Parse(enc)
	if err != nil {
		return nil, err
	}
	for root.Kind == rc.Tag {
		root = root.Items[0]
	}
	if root.Kind != rc.Map {
		return nil, fmt.Errorf("not a map")
	}
	for i := 0; i+1 < len(root.Items); i += 2 {
		if root.Items[i].Kind == rc.Text && string(root.Items[i].Data) == field {
			return rc.Encode(root.Items[i+1]), nil
		}
	}
	return nil, fmt.Errorf("field %q absent", field)
}

func registerAccessStructures() {
	const as = "pkg/mpc/sharing/accessstructures/"
	add(spec[*threshold.Threshold]{
		name: "threshold.Threshold", covers: as + "threshold.Threshold", group: "accessstructures",
		gen: func() []nv[*threshold.Threshold] {
			var out []nv[*threshold.Threshold]
			for _, c := range acCases(policy.Threshold) {
				out = append(out, nv[*threshold.Threshold]{c.name, must(catalog.BuildThreshold(c.e.P, c.ids))})
			}
			return out
		},
		eq: func(a, b *threshold.Threshold) bool { return a.Equal(b) },
		valid: func(d *threshold.Threshold) (*threshold.Threshold, error) {
			return threshold.NewThresholdAccessStructure(d.Threshold(), d.Shareholders())
		},
	})
	add(spec[*unanimity.Unanimity]{
		name: "unanimity.Unanimity", covers: as + "unanimity.Unanimity", group: "accessstructures",
		gen: func() []nv[*unanimity.Unanimity] {
			var out []nv[*unanimity.Unanimity]
			for _, c := range acCases(policy.Unanimity) {
				out = append(out, nv[*unanimity.Unanimity]{c.name, must(catalog.BuildUnanimity(c.e.P, c.ids))})
			}
			return out
		},
		eq: func(a, b *unanimity.Unanimity) bool { return a.Equal(b) },
		valid: func(d *unanimity.Unanimity) (*unanimity.Unanimity, error) {
			return unanimity.NewUnanimityAccessStructure(d.Shareholders())
		},
	})
	add(spec[*cnf.CNF]{
		name: "cnf.CNF", covers: as + "cnf.CNF", group: "accessstructures",
		gen: func() []nv[*cnf.CNF] {
			var out []nv[*cnf.CNF]
			for _, c := range acCases(policy.CNF) {
				out = append(out, nv[*cnf.CNF]{c.name, must(catalog.BuildCNF(c.e.P, c.ids))})
			}
			return out
		},
		eq: func(a, b *cnf.CNF) bool { return cnfKey(a) == cnfKey(b) },
		valid: func(d *cnf.CNF) (*cnf.CNF, error) {
			return cnf.NewCNFAccessStructure(slices.Collect(d.MaximalUnqualifiedSetsIter())...)
		},
	})
	add(spec[*hierarchical.HierarchicalConjunctiveThreshold]{
		name: "hierarchical.HierarchicalConjunctiveThreshold", covers: as + "hierarchical.HierarchicalConjunctiveThreshold", group: "accessstructures",
		gen: func() []nv[*hierarchical.HierarchicalConjunctiveThreshold] {
			var out []nv[*hierarchical.HierarchicalConjunctiveThreshold]
			for _, c := range acCases(policy.Hierarchical) {
				out = append(out, nv[*hierarchical.HierarchicalConjunctiveThreshold]{c.name, must(catalog.BuildHierarchical(c.e.P, c.ids))})
			}
			return out
		},
		eq: hierEq,
		valid: func(d *hierarchical.HierarchicalConjunctiveThreshold) (*hierarchical.HierarchicalConjunctiveThreshold, error) {
			return hierarchical.NewHierarchicalConjunctiveThresholdAccessStructure(d.Levels()...)
		},
	})
	add(spec[*hierarchical.ThresholdLevel]{
		name: "hierarchical.ThresholdLevel", covers: as + "hierarchical.ThresholdLevel", group: "accessstructures",
		gen: func() []nv[*hierarchical.ThresholdLevel] {
			return []nv[*hierarchical.ThresholdLevel]{
				{"1-of-{1}", hierarchical.WithLevel(1, 1)},
				{"2-of-{7,3,64}", hierarchical.WithLevel(2, 7, 3, 64)},
				{"3-of-large", hierarchical.WithLevel(3, 65535, 1<<32+1, 1<<63+5, 1<<64-1)},
			}
		},
		eq: levelEq,
		// the level's own rules (positive threshold, non-empty parties, no ID 0) are the ones its decoder states
		valid: func(d *hierarchical.ThresholdLevel) (*hierarchical.ThresholdLevel, error) {
			ids := sortedIDs(d.Shareholders())
			if d.Threshold() <= 0 || len(ids) == 0 || ids[0] == 0 {
				return nil, fmt.Errorf("level violates threshold>0 / non-empty / no ID 0: t=%d parties=%v", d.Threshold(), ids)
			}
			return hierarchical.WithLevel(d.Threshold(), ids...), nil
		},
	})
	add(spec[*boolexpr.ThresholdGateAccessStructure]{
		name: "boolexpr.ThresholdGateAccessStructure", covers: as + "boolexpr.ThresholdGateAccessStructure", group: "accessstructures",
		gen: func() []nv[*boolexpr.ThresholdGateAccessStructure] {
			var out []nv[*boolexpr.ThresholdGateAccessStructure]
			for _, c := range acCases(policy.BoolExpr) {
				out = append(out, nv[*boolexpr.ThresholdGateAccessStructure]{c.name, must(catalog.BuildBoolExpr(c.e.P, c.ids, false))})
			}
			return out
		},
		// no Equal method and no accessor for the tree: equality of canonical encodings; the constructor is applied to the
		// tree re-read from the object's own encoding
		valid: func(d *boolexpr.ThresholdGateAccessStructure) (*boolexpr.ThresholdGateAccessStructure, error) {
			enc, err := serde.MarshalCBOR(d)
			if err != nil {
				return nil, err
			}
			rootEnc, err := subItem(enc, "root")
			if err != nil {
				return nil, err
			}
			root, err := serde.UnmarshalCBOR[*boolexpr.Node](rootEnc)
			if err != nil {
				return nil, err
			}
			return boolexpr.NewThresholdGateAccessStructure(root)
		},
	})
	add(spec[*boolexpr.Node]{
		name: "boolexpr.Node", covers: as + "boolexpr.Node", group: "accessstructures",
		gen: func() []nv[*boolexpr.Node] {
			return []nv[*boolexpr.Node]{
				{"leaf(7)", boolexpr.ID(7)},
				{"leaf(2^64-1)", boolexpr.ID(1<<64 - 1)},
				{"2of3", boolexpr.Threshold(2, boolexpr.ID(1), boolexpr.ID(2), boolexpr.ID(3))},
				{"and(1,or(2,3))", boolexpr.And(boolexpr.ID(1), boolexpr.Or(boolexpr.ID(2), boolexpr.ID(3)))},
			}
		},
		// a Node has no validating constructor of its own (ID / Threshold accept anything); tree rules are the access structure's
	})
	// interface-typed values: the registered type tag selects the concrete type
	add(spec[accessstructures.Monotone]{
		name: "accessstructures.Monotone(interface)", group: "accessstructures",
		gen: func() []nv[accessstructures.Monotone] {
			var out []nv[accessstructures.Monotone]
			seen := map[policy.Kind]int{}
			for _, e := range catalog.Small() {
				if seen[e.P.Kind] >= 2 {
					continue
				}
				seen[e.P.Kind]++
				a := catalog.AssignmentsFor(e)[0]
				out = append(out, nv[accessstructures.Monotone]{e.Name + "/" + a.Name, must(catalog.Build(e.P, a.IDs))})
			}
			return out
		},
		valid: func(d accessstructures.Monotone) (accessstructures.Monotone, error) {
			switch v := d.(type) {
			case *threshold.Threshold:
				return threshold.NewThresholdAccessStructure(v.Threshold(), v.Shareholders())
			case *unanimity.Unanimity:
				return unanimity.NewUnanimityAccessStructure(v.Shareholders())
			case *cnf.CNF:
				return cnf.NewCNFAccessStructure(slices.Collect(v.MaximalUnqualifiedSetsIter())...)
			case *hierarchical.HierarchicalConjunctiveThreshold:
				return hierarchical.NewHierarchicalConjunctiveThresholdAccessStructure(v.Levels()...)
			case *boolexpr.ThresholdGateAccessStructure:
				return d, nil
			}
			return nil, fmt.Errorf("decoded an unexpected concrete type %T", d)
		},
		eq: func(a, b accessstructures.Monotone) bool {
			ha, ok1 := a.(*hierarchical.HierarchicalConjunctiveThreshold)
			hb, ok2 := b.(*hierarchical.HierarchicalConjunctiveThreshold)
			if ok1 && ok2 {
				return hierEq(ha, hb)
			}
			ca, ok1 := a.(*cnf.CNF)
			cb, ok2 := b.(*cnf.CNF)
			if ok1 && ok2 {
				return cnfKey(ca) == cnfKey(cb)
			}
			return bytesEq(a, b)
		},
	})
}

func levelEq(a, b *hierarchical.ThresholdLevel) bool {
	if a == nil || b == nil {
		return a == b
	}
	return a.Threshold() == b.Threshold() && a.Shareholders().Equal(b.Shareholders())
}

func hierEq(a, b *hierarchical.HierarchicalConjunctiveThreshold) bool {
	la, lb := a.Levels(), b.Levels()
	if len(la) != len(lb) {
		return false
	}
	for i := range la {
		if !levelEq(la[i], lb[i]) {
			return false
		}
	}
	return true
}

// ---------------------------------------------------------------------------------------------
// MSP, shares, verification vectors, base shards (k256; a second curve for the central types)

type dealt[E algebra.PrimeGroupElement[E, S], S algebra.PrimeFieldElement[S]] struct {
	name   string
	ac     accessstructures.Monotone
	msp    *msp.MSP[S]
	shares []*kw.Share[S]
	vv     *feldman.VerificationVector[E, S]
	shards []*mpc.BaseShard[E, S]
}

// deals runs the Feldman dealer (through the trusted dealer) for one identifier assignment of every Small() policy.
func deals[E algebra.PrimeGroupElement[E, S], S algebra.PrimeFieldElement[S]](label string, group algebra.PrimeGroup[E, S], limit int) []dealt[E, S] {
	var out []dealt[E, S]
	for i, e := range catalog.Small() {
		if i%limit != 0 {
			continue
		}
		as := catalog.AssignmentsFor(e)
		a := as[i%len(as)]
		ac := must(catalog.Build(e.P, a.IDs))
		m := must(trusteddealer.Deal(group, ac, stream(fmt.Sprintf("deal/%s/%s", label, e.Name))))
		d := dealt[E, S]{name: e.Name + "/" + a.Name, ac: ac}
		ids := sortedIDs(ac.Shareholders())
		for _, id := range ids {
			sh, _ := m.Get(id)
			d.shards = append(d.shards, sh)
			d.shares = append(d.shares, sh.Share())
			d.msp, d.vv = sh.MSP(), sh.VerificationVector()
		}
		out = append(out, d)
	}
	return out
}

func collectIter[T any](it func(func(T) bool)) []T {
	var out []T
	it(func(v T) bool { out = append(out, v); return true })
	return out
}

func registerSharingFor[E algebra.PrimeGroupElement[E, S], S algebra.PrimeFieldElement[S]](cn string, group algebra.PrimeGroup[E, S], field algebra.PrimeField[S], primary bool) {
	sfx := "[" + cn + "]"
	cov := func(s string) string {
		if primary {
			return s
		}
		return s // further instantiations of a generic type cover the same method
	}
	// quick: every 3rd Small() policy on the primary curve (7 policies: every family, ideal and non-ideal), the first
	// policy on the others; thorough: every policy on the primary curve, every 6th on the others
	every := 3
	if !primary {
		every = 100
	}
	if engine.Thorough() {
		every = 1
		if !primary {
			every = 6
		}
	}
	var cache []dealt[E, S]
	var cacheOnce sync.Once
	get := func() []dealt[E, S] {
		cacheOnce.Do(func() { cache = deals(cn, group, every) })
		return cache
	}

	add(spec[*msp.MSP[S]]{
		name: "msp.MSP" + sfx, covers: cov("pkg/mpc/sharing/scheme/kw/msp.MSP"), group: "sharing",
		gen: func() []nv[*msp.MSP[S]] {
			var out []nv[*msp.MSP[S]]
			for _, d := range get() {
				out = append(out, nv[*msp.MSP[S]]{d.name, d.msp})
			}
			return out
		},
		eq: func(a, b *msp.MSP[S]) bool { return a.Equal(b) },
		valid: func(d *msp.MSP[S]) (*msp.MSP[S], error) {
			r2h := map[int]sharing.ID{}
			for k, v := range d.RowsToHolders().Iter() {
				r2h[k] = v
			}
			return msp.NewMSP(d.Matrix(), r2h)
		},
	})
	add(spec[*kw.Share[S]]{
		name: "kw.Share" + sfx, covers: cov("pkg/mpc/sharing/scheme/kw.Share"), group: "sharing",
		gen: func() []nv[*kw.Share[S]] {
			var out []nv[*kw.Share[S]]
			for _, d := range get() {
				// first and last shareholder of every policy (non-ideal programmes give vectors longer than 1)
				out = append(out, nv[*kw.Share[S]]{d.name + "/first", d.shares[0]}, nv[*kw.Share[S]]{d.name + "/last", d.shares[len(d.shares)-1]})
			}
			return out
		},
		eq:    func(a, b *kw.Share[S]) bool { return a.Equal(b) },
		valid: func(d *kw.Share[S]) (*kw.Share[S], error) { return kw.NewShare(d.ID(), d.Value()...) },
	})
	add(spec[*feldman.LiftedShare[E, S]]{
		name: "feldman.LiftedShare" + sfx, covers: cov("pkg/mpc/sharing/vss/feldman.LiftedShare"), group: "sharing",
		gen: func() []nv[*feldman.LiftedShare[E, S]] {
			var out []nv[*feldman.LiftedShare[E, S]]
			for _, d := range get() {
				out = append(out, nv[*feldman.LiftedShare[E, S]]{d.name + "/last", must(feldman.LiftShare(d.shares[len(d.shares)-1], group.Generator()))})
			}
			return out
		},
		eq: func(a, b *feldman.LiftedShare[E, S]) bool { return a.Equal(b) },
		valid: func(d *feldman.LiftedShare[E, S]) (*feldman.LiftedShare[E, S], error) {
			return feldman.NewLiftedShare[E, S](d.ID(), d.Value()...)
		},
	})
	add(spec[*feldman.VerificationVector[E, S]]{
		name: "feldman.VerificationVector" + sfx, covers: cov("pkg/mpc/sharing/vss/feldman.VerificationVector"), group: "sharing",
		gen: func() []nv[*feldman.VerificationVector[E, S]] {
			var out []nv[*feldman.VerificationVector[E, S]]
			for _, d := range get() {
				out = append(out, nv[*feldman.VerificationVector[E, S]]{d.name, d.vv})
			}
			return out
		},
		eq: func(a, b *feldman.VerificationVector[E, S]) bool { return a.Equal(b) },
		valid: func(d *feldman.VerificationVector[E, S]) (*feldman.VerificationVector[E, S], error) {
			return feldman.NewVerificationVector(d.Value(), nil)
		},
	})
	add(spec[*mpc.BasePublicMaterial[E, S]]{
		name: "mpc.BasePublicMaterial" + sfx, covers: cov("pkg/mpc.BasePublicMaterial"), group: "sharing",
		gen: func() []nv[*mpc.BasePublicMaterial[E, S]] {
			var out []nv[*mpc.BasePublicMaterial[E, S]]
			for _, d := range get() {
				out = append(out, nv[*mpc.BasePublicMaterial[E, S]]{d.name, must(mpc.NewBasePublicMaterial(d.msp, d.vv))})
			}
			return out
		},
		eq: func(a, b *mpc.BasePublicMaterial[E, S]) bool { return a.Equal(b) },
		valid: func(d *mpc.BasePublicMaterial[E, S]) (*mpc.BasePublicMaterial[E, S], error) {
			return mpc.NewBasePublicMaterial(d.MSP(), d.VerificationVector())
		},
	})
	add(spec[*mpc.BaseShard[E, S]]{
		name: "mpc.BaseShard" + sfx, covers: cov("pkg/mpc.BaseShard"), group: "sharing",
		gen: func() []nv[*mpc.BaseShard[E, S]] {
			var out []nv[*mpc.BaseShard[E, S]]
			for _, d := range get() {
				out = append(out, nv[*mpc.BaseShard[E, S]]{d.name + "/first", d.shards[0]})
				if primary {
					out = append(out, nv[*mpc.BaseShard[E, S]]{d.name + "/last", d.shards[len(d.shards)-1]})
				}
			}
			return out
		},
		eq: func(a, b *mpc.BaseShard[E, S]) bool { return a.Equal(b) },
		valid: func(d *mpc.BaseShard[E, S]) (*mpc.BaseShard[E, S], error) {
			return mpc.NewBaseShard(d.Share(), d.VerificationVector(), d.MSP())
		},
	})
}

func registerSharing() {
	registerAccessStructures()
	registerSharingFor[KP, KS]("k256", k256.NewCurve(), k256.NewScalarField(), true)
	registerSharingFor[*p256.Point, *p256.Scalar]("p256", p256.NewCurve(), p256.NewScalarField(), false)
	registerSharingFor[*bls12381.PointG2, *bls12381.Scalar]("bls12381G2", bls12381.NewG2(), bls12381.NewScalarField(), false)

	fK := k256.NewScalarField()
	// Shamir shares (threshold policies only)
	add(spec[*shamir.Share[KS]]{
		name: "shamir.Share[k256]", covers: "pkg/mpc/sharing/scheme/shamir.Share", group: "sharing",
		gen: func() []nv[*shamir.Share[KS]] {
			var out []nv[*shamir.Share[KS]]
			for _, c := range acCases(policy.Threshold) {
				ac := must(catalog.BuildThreshold(c.e.P, c.ids))
				sc := must(shamir.NewScheme(fK, ac))
				o, _, err := sc.DealRandom(stream("shamir/" + c.name))
				must0(err)
				ids := sortedIDs(ac.Shareholders())
				sh, _ := o.Shares().Get(ids[len(ids)-1])
				out = append(out, nv[*shamir.Share[KS]]{c.name, sh})
			}
			out = append(out, nv[*shamir.Share[KS]]{"value=0", must(shamir.NewShare(3, fK.Zero(), nil))})
			return out
		},
		eq:    func(a, b *shamir.Share[KS]) bool { return a.Equal(b) },
		valid: func(d *shamir.Share[KS]) (*shamir.Share[KS], error) { return shamir.NewShare(d.ID(), d.Value(), nil) },
	})
	// ISN shares over the k256 scalar field's additive group (CNF policies; identifiers <= 64)
	add(spec[*isn.Share[KS]]{
		name: "isn.Share[k256.Scalar]", covers: "pkg/mpc/sharing/scheme/isn.Share", group: "sharing",
		gen: func() []nv[*isn.Share[KS]] {
			var out []nv[*isn.Share[KS]]
			for _, c := range acCases(policy.CNF) {
				ac := must(catalog.BuildCNF(c.e.P, c.ids))
				sc := must(isn.NewFiniteScheme[KS](fK, ac))
				o, _, err := sc.DealRandom(stream("isn/" + c.name))
				must0(err)
				ids := sortedIDs(ac.Shareholders())
				sh, _ := o.Shares().Get(ids[0])
				out = append(out, nv[*isn.Share[KS]]{c.name, sh})
			}
			return out
		},
		eq: func(a, b *isn.Share[KS]) bool { return a.Equal(b) },
		valid: func(d *isn.Share[KS]) (*isn.Share[KS], error) {
			m := map[bitset.ImmutableBitSet[sharing.ID]]KS{}
			for k, v := range d.Value().Iter() {
				m[k] = v
			}
			return isn.NewShare(d.ID(), m)
		},
	})
	// Pedersen VSS shares and their lifts
	pedKey := func() *pedersencom.CommitmentKey[KP, KS] {
		return must(pedersencom.SampleCommitmentKey(k256.NewCurve(), stream("pedersen-key")))
	}
	pedDeal := func(e catalog.Entry) (*pedersen.Share[KS], *pedersen.LiftedShare[KP, KS]) {
		a := catalog.AssignmentsFor(e)[0]
		ac := must(catalog.Build(e.P, a.IDs))
		key := pedKey()
		sc := must(pedersen.NewScheme(key, ac))
		o, _, err := sc.DealRandom(stream("pedersen/" + e.Name))
		must0(err)
		ids := sortedIDs(ac.Shareholders())
		sh, _ := o.Shares().Get(ids[len(ids)-1])
		return sh, must(pedersen.LiftShare(sh, key))
	}
	add(spec[*pedersen.Share[KS]]{
		name: "pedersen.Share[k256]", covers: "pkg/mpc/sharing/vss/pedersen.Share", group: "sharing",
		gen: func() []nv[*pedersen.Share[KS]] {
			var out []nv[*pedersen.Share[KS]]
			for i, e := range catalog.Small() {
				if i%3 == 0 {
					s, _ := pedDeal(e)
					out = append(out, nv[*pedersen.Share[KS]]{e.Name, s})
				}
			}
			return out
		},
		eq: func(a, b *pedersen.Share[KS]) bool { return a.Equal(b) },
		valid: func(d *pedersen.Share[KS]) (*pedersen.Share[KS], error) {
			var sv, bv []KS
			for _, m := range d.Secret() {
				sv = append(sv, m.Value())
			}
			for _, w := range d.Blinding() {
				bv = append(bv, w.Value())
			}
			s, err := kw.NewShare(d.ID(), sv...)
			if err != nil {
				return nil, err
			}
			b, err := kw.NewShare(d.ID(), bv...)
			if err != nil {
				return nil, err
			}
			return pedersen.NewShare(d.ID(), s, b)
		},
	})
	add(spec[*pedersen.LiftedShare[KP, KS]]{
		name: "pedersen.LiftedShare[k256]", covers: "pkg/mpc/sharing/vss/pedersen.LiftedShare", group: "sharing",
		gen: func() []nv[*pedersen.LiftedShare[KP, KS]] {
			var out []nv[*pedersen.LiftedShare[KP, KS]]
			for i, e := range catalog.Small() {
				if i%4 == 0 {
					_, l := pedDeal(e)
					out = append(out, nv[*pedersen.LiftedShare[KP, KS]]{e.Name, l})
				}
			}
			return out
		},
		eq: func(a, b *pedersen.LiftedShare[KP, KS]) bool { return a.Equal(b) },
		valid: func(d *pedersen.LiftedShare[KP, KS]) (*pedersen.LiftedShare[KP, KS], error) {
			return pedersen.NewLiftedShare(d.ID(), d.Value())
		},
	})
}

// matrices over the k256 scalar field and k256 points
func registerMatrices() {
	fK := k256.NewScalarField()
	el := func(i int) KS {
		switch i % 4 {
		case 0:
			return fK.Zero()
		case 1:
			return fK.One()
		case 2:
			return fK.One().Neg()
		}
		return must(fK.Random(stream(fmt.Sprintf("mat/%d", i))))
	}
	shapes := [][2]int{{1, 1}, {1, 3}, {3, 1}, {2, 2}, {3, 2}}
	add(spec[*mat.Matrix[KS]]{
		name: "mat.Matrix[k256.Scalar]", covers: "pkg/base/mat.Matrix", group: "mat",
		gen: func() []nv[*mat.Matrix[KS]] {
			var out []nv[*mat.Matrix[KS]]
			for _, sh := range shapes {
				mod := must(mat.NewMatrixModule(uint(sh[0]), uint(sh[1]), fK))
				var els []KS
				for i := 0; i < sh[0]*sh[1]; i++ {
					els = append(els, el(i+sh[0]))
				}
				out = append(out, nv[*mat.Matrix[KS]]{fmt.Sprintf("%dx%d", sh[0], sh[1]), must(mod.NewRowMajor(els...))})
			}
			return out
		},
		eq: func(a, b *mat.Matrix[KS]) bool { return a.Equal(b) },
		valid: func(d *mat.Matrix[KS]) (*mat.Matrix[KS], error) {
			r, c := d.Dimensions()
			mod, err := mat.NewMatrixModule(uint(r), uint(c), fK)
			if err != nil {
				return nil, err
			}
			return mod.NewRowMajor(collectIter(d.Iter())...)
		},
	})
	add(spec[*mat.SquareMatrix[KS]]{
		name: "mat.SquareMatrix[k256.Scalar]", covers: "pkg/base/mat.SquareMatrix", group: "mat",
		gen: func() []nv[*mat.SquareMatrix[KS]] {
			var out []nv[*mat.SquareMatrix[KS]]
			for n := 1; n <= 3; n++ {
				alg := must(mat.NewMatrixAlgebra(uint(n), fK))
				var els []KS
				for i := 0; i < n*n; i++ {
					els = append(els, el(i+n))
				}
				out = append(out, nv[*mat.SquareMatrix[KS]]{fmt.Sprintf("%dx%d", n, n), must(alg.NewRowMajor(els...))})
			}
			return out
		},
		eq: func(a, b *mat.SquareMatrix[KS]) bool { return a.Equal(b) },
		valid: func(d *mat.SquareMatrix[KS]) (*mat.SquareMatrix[KS], error) {
			alg, err := mat.NewMatrixAlgebra(uint(d.N()), fK)
			if err != nil {
				return nil, err
			}
			return alg.NewRowMajor(collectIter(d.Iter())...)
		},
	})
	add(spec[*mat.ModuleValuedMatrix[KP, KS]]{
		name: "mat.ModuleValuedMatrix[k256]", covers: "pkg/base/mat.ModuleValuedMatrix", group: "mat",
		gen: func() []nv[*mat.ModuleValuedMatrix[KP, KS]] {
			var out []nv[*mat.ModuleValuedMatrix[KP, KS]]
			for _, sh := range shapes {
				mod := must(mat.NewMatrixModule(uint(sh[0]), uint(sh[1]), fK))
				var els []KS
				for i := 0; i < sh[0]*sh[1]; i++ {
					els = append(els, el(i+sh[1]))
				}
				out = append(out, nv[*mat.ModuleValuedMatrix[KP, KS]]{fmt.Sprintf("%dx%d", sh[0], sh[1]), must(mat.Lift(must(mod.NewRowMajor(els...)), k256.NewCurve().Generator()))})
			}
			return out
		},
		eq: func(a, b *mat.ModuleValuedMatrix[KP, KS]) bool { return a.Equal(b) },
		valid: func(d *mat.ModuleValuedMatrix[KP, KS]) (*mat.ModuleValuedMatrix[KP, KS], error) {
			r, c := d.Dimensions()
			mod, err := mat.NewModuleValuedMatrixModule[KP, KS](uint(r), uint(c), k256.NewCurve())
			if err != nil {
				return nil, err
			}
			return mod.NewRowMajor(collectIter(d.Iter())...)
		},
	})
}

// polynomials over the k256 scalar field and over k256 points
func registerPolynomials() {
	fK := k256.NewScalarField()
	g := k256.NewCurve().Generator()
	coeffs := func(n int) []KS {
		out := make([]KS, n)
		for i := range out {
			switch i % 3 {
			case 0:
				out[i] = fK.One().Neg()
			case 1:
				out[i] = fK.Zero()
			default:
				out[i] = must(fK.Random(stream(fmt.Sprintf("poly/%d/%d", n, i))))
			}
		}
		return out
	}
	add(spec[*polynomials.Polynomial[KS]]{
		name: "polynomials.Polynomial[k256.Scalar]", covers: "pkg/base/polynomials.Polynomial", group: "mat",
		gen: func() []nv[*polynomials.Polynomial[KS]] {
			ring := must(polynomials.NewPolynomialRing(fK))
			var out []nv[*polynomials.Polynomial[KS]]
			for _, n := range []int{1, 2, 4} {
				out = append(out, nv[*polynomials.Polynomial[KS]]{fmt.Sprintf("deg%d", n-1), must(ring.New(coeffs(n)...))})
			}
			out = append(out, nv[*polynomials.Polynomial[KS]]{"zero", must(ring.New())})
			return out
		},
		eq: func(a, b *polynomials.Polynomial[KS]) bool { return a.Equal(b) },
		valid: func(d *polynomials.Polynomial[KS]) (*polynomials.Polynomial[KS], error) {
			ring, err := polynomials.NewPolynomialRing(fK)
			if err != nil {
				return nil, err
			}
			return ring.New(d.Coefficients()...)
		},
	})
	add(spec[*polynomials.ModuleValuedPolynomial[KP, KS]]{
		name: "polynomials.ModuleValuedPolynomial[k256]", covers: "pkg/base/polynomials.ModuleValuedPolynomial", group: "mat",
		gen: func() []nv[*polynomials.ModuleValuedPolynomial[KP, KS]] {
			ring := must(polynomials.NewPolynomialRing(fK))
			var out []nv[*polynomials.ModuleValuedPolynomial[KP, KS]]
			for _, n := range []int{1, 3} {
				out = append(out, nv[*polynomials.ModuleValuedPolynomial[KP, KS]]{fmt.Sprintf("deg%d", n-1), must(polynomials.LiftPolynomial[KP, KS](must(ring.New(coeffs(n)...)), g))})
			}
			return out
		},
		eq: func(a, b *polynomials.ModuleValuedPolynomial[KP, KS]) bool { return a.Equal(b) },
		valid: func(d *polynomials.ModuleValuedPolynomial[KP, KS]) (*polynomials.ModuleValuedPolynomial[KP, KS], error) {
			mod, err := polynomials.NewPolynomialModule[KP, KS](k256.NewCurve())
			if err != nil {
				return nil, err
			}
			return mod.New(d.Coefficients()...)
		},
	})
}

var _ = bytes.Equal
