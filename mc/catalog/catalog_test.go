package catalog

import (
	"testing"

	"verifmc/ref/policy"
)

// Every catalogue policy is constructible with every admitted assignment and the library's IsQualified agrees with
// the reference on the full and the empty set (the complete comparison is check C02).
func TestBuildAll(t *testing.T) {
	seen := map[string]bool{}
	count := map[policy.Kind]int{}
	for _, e := range append(Standard("quick"), Small()...) {
		count[e.P.Kind]++
		if e.Refusal == None && !e.P.AnyQualified() {
			t.Fatalf("%s: nothing qualified", e.Name)
		}
		for _, a := range AssignmentsFor(e) {
			ac, err := Build(e.P, a.IDs)
			if err != nil {
				t.Fatalf("%s/%s: %v", e.Name, a.Name, err)
			}
			if ac.IsQualified(a.IDs...) != e.P.Qualified(e.P.Full()) {
				t.Fatalf("%s/%s: full set", e.Name, a.Name)
			}
			if ac.Shareholders().Size() != e.P.N {
				t.Fatalf("%s/%s: shareholders", e.Name, a.Name)
			}
		}
		seen[e.Name] = true
	}
	for _, e := range BoolExprsRefused(3, 4) {
		if _, err := Build(e.P, IDAssignments(e.P.N)[0].IDs); err == nil {
			t.Fatalf("%s: duplicate sibling leaves accepted", e.Name)
		}
	}
	t.Logf("quick catalogue: %v, %d distinct names", count, len(seen))
}
