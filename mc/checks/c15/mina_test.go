package c15

import (
	"fmt"
	"math/big"

	"github.com/bronlabs/bron-crypto/pkg/base/curves/pasta"
	"github.com/bronlabs/bron-crypto/pkg/signatures"
	"github.com/bronlabs/bron-crypto/pkg/signatures/schnorrlike"
	"github.com/bronlabs/bron-crypto/pkg/signatures/schnorrlike/mina"

	"verifmc/det"
	"verifmc/engine"
	"verifmc/ref/conv"
	"verifmc/ref/curve"
	"verifmc/ref/curve/libcurve"
	"verifmc/ref/sig"
)

// Mina: Schnorr over Pallas, challenge = Poseidon(prefix; message fields, pk.x, pk.y, R.x, packed message bits).
// Oracle: the challenge scalar is taken from the library's public Variant.ComputeChallenge (Poseidon is not
// re-implemented); everything else is independent: decoding of the 64-byte little-endian R.x || s form (canonical
// coordinates, the even-y lift), range checks and the group equation s*G == R + e*P in the math/big Pallas model.
//
// Messages are ROInputs built from the byte alphabet with AddString (8 bits per byte). The legacy Mina packing pads the
// bit string with zero bits up to a multiple of 254 and the sponge pads with zero field elements, so two ROInputs that
// differ only in trailing zero bits can be the SAME Mina message by construction of the format; the appended byte used
// for the "append" alteration is therefore 0x01, never 0x00 (stated in the report as outside the bounds).

type minaMode struct {
	name string
	nid  mina.NetworkID
	det  bool
}

var minaModes = []minaMode{{"mainnet/det", mina.MainNet, true}, {"testnet/det", mina.TestNet, true}, {"mainnet/rand", mina.MainNet, false}}

func minaMsg(b []byte) *mina.ROInput {
	m := new(mina.ROInput).Init()
	m.AddString(string(b))
	return m
}

// minaEncodingBody: the documented message encoding ("a string is appended as bits, MSB first per byte") is what makes
// distinct messages distinct inputs of the signature: for every string of a small alphabet that includes multi-byte
// UTF-8 characters whose code points share their low byte, ROInput.Bits() must be exactly the MSB-first bits of the
// string's BYTES, different strings give different bit strings, and a signature on one does not verify for another.
func minaEncodingBody(x *engine.X) {
	msgs := []string{"", "a", "pay 10\u20ac to alice", "pay 10\u00ac to alice", "\u00e9", "e\u0301", "\xff\xfe", "\u0100", "\x01"} // no trailing-zero variants: ROInput pads with zero bits, so strings that differ only in trailing zero bits are the same message by format
	i := x.Choose("msg", len(msgs))
	m := new(mina.ROInput).Init()
	m.AddString(msgs[i])
	got := m.Bits()
	var want []bool
	for _, b := range []byte(msgs[i]) {
		for k := 7; k >= 0; k-- {
			want = append(want, (b>>uint(k))&1 == 1)
		}
	}
	x.Case(fmt.Sprintf("mina/encoding/%q", msgs[i]))
	if len(got) != len(want) {
		x.Failf("mina/roinput/string-bits", "AddString(%q): %d bits, the UTF-8 bytes have %d", msgs[i], len(got), len(want))
		return
	}
	for k := range got {
		if got[k] != want[k] {
			x.Failf("mina/roinput/string-bits", "AddString(%q): bit %d differs from the MSB-first bits of the string's bytes", msgs[i], k)
			return
		}
	}
	// sign msgs[i]; it must not verify for any other string of the alphabet
	sf := pasta.NewPallasScalarField()
	sk, err := mina.NewPrivateKey(conv.FromBig(sf, libcurve.Pallas().Ref.Q, big.NewInt(7)))
	if err != nil {
		panic(engine.HarnessError{Msg: err.Error()})
	}
	scheme, err := mina.NewScheme(minaModes[0].nid, sk)
	if err != nil {
		panic(engine.HarnessError{Msg: err.Error()})
	}
	signer, _ := scheme.Signer(sk)
	verifier, _ := scheme.Verifier()
	sg, err := signer.Sign(m)
	if err != nil {
		x.Failf("mina/sign", "Sign(%q) failed: %v", msgs[i], err)
		return
	}
	for j, o := range msgs {
		mo := new(mina.ROInput).Init()
		mo.AddString(o)
		err := verifier.Verify(sg, sk.PublicKey(), mo)
		if (err == nil) != (i == j) {
			x.Failf("mina/message-confusion", "a signature on %q: Verify for %q returned %v", msgs[i], o, err)
		}
	}
	x.Observe(i, len(got))
}

func minaBody(tal *tally) func(*engine.X) {
	ad := libcurve.Pallas()
	C := ad.Ref
	G := sig.PallasGroup()
	q := C.Q
	sf := pasta.NewPallasScalarField()
	curveL := pasta.NewPallasCurve()
	dec := pastaXOnlyDecode(C)
	return func(x *engine.X) {
		mode := engine.Pick(x, "mode", minaModes)
		ki := x.Choose("key", 3)
		mi := x.Choose("msg", len(msgNames))
		full := engine.Thorough() || (mi == 1 && mode.name == "mainnet/det")
		nChunks := 2
		if full {
			nChunks = 8
		}
		chunk := x.Choose("chunk", nChunks)
		id := fmt.Sprintf("mina/%s/%s/%s", mode.name, keyNames[ki], msgNames[mi])
		d := secretKey(q, ki)
		raw := message(mi)
		msg := minaMsg(raw)
		sk, err := mina.NewPrivateKey(conv.FromBig(sf, q, d))
		if err != nil {
			panic(engine.HarnessError{Msg: err.Error()})
		}
		pk := sk.PublicKey()
		var scheme *mina.Scheme
		if mode.det {
			scheme, err = mina.NewScheme(mode.nid, sk)
		} else {
			scheme, err = mina.NewRandomisedScheme(mode.nid, det.New(engine.Seed(), "c15-"+id))
		}
		if err != nil {
			panic(engine.HarnessError{Msg: err.Error()})
		}
		signer, err := scheme.Signer(sk)
		if err != nil {
			panic(engine.HarnessError{Msg: err.Error()})
		}
		sg, err := signer.Sign(msg)
		if err != nil {
			x.Failf("mina/sign", "%s: Sign failed: %v", id, err)
			return
		}
		ser, err := mina.SerializeSignature(sg)
		if err != nil || len(ser) != 64 {
			x.Failf("mina/serialize", "%s: SerializeSignature: %v", id, err)
			return
		}
		verifier, err := scheme.Verifier()
		if err != nil {
			panic(engine.HarnessError{Msg: err.Error()})
		}
		pkRef := C.ScalarBaseMul(d)

		type alt struct {
			label string
			sig   *mina.Signature
			why   string
			pk    *mina.PublicKey
			refOK bool
			rR    curve.FpPoint
			rS    *big.Int
			rPk   curve.FpPoint
			msg   *mina.ROInput
			raw   []byte
		}
		var alts []alt
		mk := func(R *pasta.PallasPoint, s *pasta.PallasScalar) *mina.Signature {
			return &schnorrlike.Signature[*pasta.PallasPoint, *pasta.PallasScalar]{E: sg.E, R: R, S: s}
		}
		addStruct := func(label string, s *mina.Signature, p *mina.PublicKey, rpk curve.FpPoint, m *mina.ROInput, raw []byte) {
			rr, err := ad.TryToRef(s.R)
			alts = append(alts, alt{label: label, sig: s, pk: p, refOK: err == nil, rR: rr, rS: conv.ToBig(s.S), rPk: rpk, msg: m, raw: raw})
		}
		addStruct("none", sg, pk, pkRef, msg, raw)
		// every bit of the 64-byte serialisation through DeserializeSignature
		for _, i := range bitSet(512, full) {
			e := append([]byte{}, ser...)
			e[i/8] ^= 1 << (uint(i) % 8) // little-endian fields: bit i of the byte string
			part := "rx"
			if i >= 256 {
				part = "s"
			}
			a := alt{label: fmt.Sprintf("enc/%s/bit%d", part, i%256), pk: pk, rPk: pkRef, msg: msg, raw: raw}
			a.rR, a.rS, a.refOK = dec(e, q)
			s2, err := mina.DeserializeSignature(e)
			if err != nil {
				a.why = "DeserializeSignature: " + errStr(err)
			} else {
				a.sig = s2
			}
			alts = append(alts, a)
		}
		for _, l := range []int{0, 63, 65} {
			e := make([]byte, l)
			copy(e, ser)
			a := alt{label: fmt.Sprintf("enc/len%d", l), pk: pk, rPk: pkRef, msg: msg, raw: raw}
			if s2, err := mina.DeserializeSignature(e); err != nil {
				a.why = "DeserializeSignature: " + errStr(err)
			} else {
				a.sig = s2
			}
			alts = append(alts, a)
		}
		addStruct("R/neg", mk(sg.R.Neg(), sg.S), pk, pkRef, msg, raw)
		addStruct("R/double", mk(sg.R.Double(), sg.S), pk, pkRef, msg, raw)
		addStruct("R/identity", mk(curveL.OpIdentity(), sg.S), pk, pkRef, msg, raw)
		addStruct("s/neg", mk(sg.R, sg.S.Neg()), pk, pkRef, msg, raw)
		addStruct("s/plus1", mk(sg.R, sg.S.Add(sf.One())), pk, pkRef, msg, raw)
		addStruct("s/zero", mk(sg.R, sf.Zero()), pk, pkRef, msg, raw)
		mkPk := func(p curve.FpPoint) *mina.PublicKey {
			k, err := mina.NewPublicKey(ad.ToLib(p))
			if err != nil {
				panic(engine.HarnessError{Msg: err.Error()})
			}
			return k
		}
		neg, dbl, fo := C.Neg(pkRef), C.Double(pkRef), C.ScalarBaseMul(secretKey(q, 3))
		addStruct("key/neg", sg, mkPk(neg), neg, msg, raw)
		addStruct("key/double", sg, mkPk(dbl), dbl, msg, raw)
		addStruct("key/foreign", sg, mkPk(fo), fo, msg, raw)
		if _, err := mina.NewPublicKey(curveL.OpIdentity()); err == nil {
			x.Failf("mina/key/identity-constructible", "%s: NewPublicKey accepted the identity", id)
		}
		idPk := &schnorrlike.PublicKey[*pasta.PallasPoint, *pasta.PallasScalar]{PublicKeyTrait: signatures.PublicKeyTrait[*pasta.PallasPoint, *pasta.PallasScalar]{V: curveL.OpIdentity()}}
		addStruct("key/identity(struct)", sg, idPk, C.Identity(), msg, raw)
		for _, ma := range messageAlterations(raw, 0x01, engine.Thorough()) {
			addStruct(ma.label, sg, pk, pkRef, minaMsg(ma.msg), ma.msg)
		}
		// structural message alterations of the ROInput itself
		{
			m2 := minaMsg(raw)
			m2.AddFields(pasta.NewPallasBaseField().One())
			addStruct("msg/extra-field", sg, pk, pkRef, m2, raw)
			m3 := minaMsg(raw)
			m3.AddBits(true)
			addStruct("msg/extra-bit", sg, pk, pkRef, m3, raw)
		}
		// the other network's verifier must reject (domain separation by network id)
		other := mina.TestNet
		if mode.nid == mina.TestNet {
			other = mina.MainNet
		}

		var nAcc, nRej int
		for idx, a := range alts {
			if idx%nChunks != chunk {
				continue
			}
			x.Case(id + "/" + a.label)
			lib := false
			var verr error
			if a.sig != nil {
				verr = verifier.Verify(a.sig, a.pk, a.msg)
				lib = verr == nil
				tal.add(class(a.label), verdictOf(verr))
			} else {
				tal.add(class(a.label), vRefuse)
			}
			want := false
			if a.refOK && !a.rR.Inf && !a.rPk.Inf {
				// challenge from the library's Poseidon over the same public inputs
				e, err := scheme.Variant().ComputeChallenge(ad.ToLib(a.rR), ad.ToLib(a.rPk), a.msg)
				if err != nil {
					panic(engine.HarnessError{Msg: "ComputeChallenge: " + err.Error()})
				}
				want = sig.SchnorrVerifyWithChallenge[curve.FpPoint](G, false, a.rPk, a.rR, a.rS, conv.ToBig(e))
			}
			if lib != want {
				x.Failf("mina/"+class(a.label), "%s alteration %s: library accept=%v (err=%s %s), reference accept=%v; s=%x msg=%x", id, a.label, lib, errStr(verr), a.why, want, a.rS, trunc(a.raw))
			}
			if lib {
				nAcc++
			} else {
				nRej++
			}
		}
		if chunk == 0 {
			x.Case(id + "/network/other")
			sch2, err := mina.NewRandomisedScheme(other, det.New(engine.Seed(), "unused"))
			if err != nil {
				panic(engine.HarnessError{Msg: err.Error()})
			}
			v2, _ := sch2.Verifier()
			e2 := v2.Verify(sg, pk, msg)
			tal.add("network/other", verdictOf(e2))
			// reference: the equation with the other network's challenge
			e, err := sch2.Variant().ComputeChallenge(sg.R, pk.Value(), msg)
			if err != nil {
				panic(engine.HarnessError{Msg: err.Error()})
			}
			want := sig.SchnorrVerifyWithChallenge[curve.FpPoint](G, false, pkRef, ad.ToRef(sg.R), conv.ToBig(sg.S), conv.ToBig(e))
			if (e2 == nil) != want {
				x.Failf("mina/network", "%s: verifier of the other network accept=%v, reference %v", id, e2 == nil, want)
			}
		}
		x.Observe(id, chunk, "acc", nAcc, "rej", nRej)
	}
}

// pastaXOnlyDecode is the independent decoder of Mina's signature form: 32-byte little-endian R.x (canonical, < p, the
// point with even y) || 32-byte little-endian s (canonical, < q).
func pastaXOnlyDecode(C *curve.FpCurve) func(b []byte, q *big.Int) (curve.FpPoint, *big.Int, bool) {
	rev := func(b []byte) []byte {
		o := make([]byte, len(b))
		for i := range b {
			o[len(b)-1-i] = b[i]
		}
		return o
	}
	return func(b []byte, q *big.Int) (curve.FpPoint, *big.Int, bool) {
		if len(b) != 64 {
			return C.Identity(), nil, false
		}
		rx := new(big.Int).SetBytes(rev(b[:32]))
		s := new(big.Int).SetBytes(rev(b[32:]))
		if rx.Cmp(C.F.Char()) >= 0 || s.Cmp(q) >= 0 {
			return C.Identity(), s, false
		}
		R, ok := curve.LiftXOdd(C, rx, false)
		return R, s, ok
	}
}

func runMina() {
	t := newTally()
	t.note(engine.Explore(minaBody(t), engine.Opts{Name: "mina", Budget: budget(3, 25)}))
	engine.Explore(minaEncodingBody, engine.Opts{Name: "mina/message-encoding", Budget: budget(1, 5)})
}
