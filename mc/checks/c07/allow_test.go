package c07

import (
	"regexp"
	"strings"
	"sync"
)

// detLeaf is one reviewed deterministic leaf: a byte-string leaf (>= 16 bytes) of a party's own protocol message
// that is a function of public / fixed inputs only and therefore legitimately keeps its value when the party's
// random source is replaced. Paths are canonical leaf paths (echo wrapper stripped); "[*]" matches any index, an
// explicit index matches only that index. A path matches as a prefix.
type detLeaf struct {
	fam  string // protocol family
	cid  string // "<round>/B" or "<round>/U"
	path string
	why  string
}

const zeroVV0 = "first entry of a zero-sharing verification vector: the commitment to the shared secret 0, i.e. the identity point, by construction (hjky Round2 rejects anything else)"

var detLeaves = []detLeaf{
	{"canetti", "BRON_CRYPTO_DKG_CANETTI_R2/B", "$>Message>SessionID", "the session identifier (fixed input of the run) echoed inside the opened commitment message"},
	{"hjky", "HJKYRound1/B", "$>verificationVector>verification_vector>data[0]>compressedBytes", zeroVV0},
	{"lindell22", "Lindell22SigningRound1/B", "$>zeroR1>verificationVector>verification_vector>data[0]>compressedBytes", zeroVV0},
	{"redistribute", "RedistributeRound1/B", "$>ZeroR1>verificationVector>verification_vector>data[0]>compressedBytes", zeroVV0},
	{"redistribute", "RedistributeRound2/B", "$>ZeroVerificationVector>verification_vector>data[0]>compressedBytes", "first entry of the AGGREGATED zero-sharing verification vector: identity by construction"},
	{"redistribute", "RedistributeRound2/B", "$>PrevMSP>", "the previous access structure's MSP: public key material, fixed input"},
	{"redistribute", "RedistributeRound2/B", "$>PrevVerificationVector>", "the previous verification vector: public key material, fixed input"},
}

var (
	detOnce sync.Once
	detRes  []*regexp.Regexp
)

// deterministicLeaf returns the reason why the leaf may keep its value ("" = it may not). path keeps its indices.
func deterministicLeaf(fam, cid, path string) string {
	detOnce.Do(func() {
		for _, d := range detLeaves {
			p := regexp.QuoteMeta(d.path)
			p = strings.ReplaceAll(p, `\[\*\]`, `\[\d+\]`)
			detRes = append(detRes, regexp.MustCompile("^"+p))
		}
	})
	for i, d := range detLeaves {
		if d.fam == fam && d.cid == cid && detRes[i].MatchString(path) {
			return d.why
		}
	}
	return ""
}
