package c09

import (
	"fmt"
	"strings"

	"verifmc/engine"
	"verifmc/ref/cbor"
)

// ---------------------------------------------------------------------------------------------------------------
// Faults on the base OTs' own messages (beyond the two families the property names; cheap at xi = 8).
//
// VSOT ("verified" simplest OT, pkg/ot/base/vsot/rounds.go) has a consistency check of its own (rounds 3-6):
//   vsot.r4 rhoPrime[idx]      CHECK VALUE (receiver -> sender): Sender.Round5 compares it with H(H(rho0)).
//                              -> Sender.Round5 must refuse.
//   vsot.r5 rho0Digest[idx],   CHECK VALUES (sender -> receiver): Receiver.Round6 compares the chosen one with its
//           rho1Digest[idx]    own H(rho_omega) and H(rho0Digest) xor H(rho1Digest) with the xi it stored.
//                              -> Receiver.Round6 must refuse.
//   vsot.r3 xi[idx]            CHECK INPUT (sender -> receiver): for omega = 1 it unmasks rhoPrime, so the sender's
//                              Round5 refuses the (honest) receiver's answer; for omega = 0 it is only stored and
//                              Receiver.Round6 refuses. -> the run must not complete (refusal at Round4/5/6).
//   vsot.r1 bigB, proof        NOT check values of the OT (the proof of knowledge is C08's subject); vsot.r2 bigA[idx]
//                              is the receiver's key share. Required: no panic; if both sides complete, the outputs
//                              are still correlated (VSOT's verification is what guarantees exactly that).
//
// ecbbot (pkg/ot/base/ecbbot/rounds.go) has NO consistency check: ms and phi are key-agreement transport. An altered
// value that still decodes to a valid point gives both sides a completed run with unrelated pads; that is the
// protocol's specified behaviour (detection is the job of the caller's check: rVOLE's mu, the extension's challenge
// response — covered in their sections), so the only demand is: no panic. The outcome classes are observed.

type baseFaultClass int

const (
	bfMustReject     baseFaultClass = iota // at the listed steps
	bfNoComplete                           // any refusal at the listed steps
	bfWeakCorrelated                       // no panic; completed => correlated
	bfNoPanic                              // no panic
)

func vsotClass(msg, path string) (baseFaultClass, []string) {
	switch {
	case msg == "vsot.r4":
		return bfMustReject, []string{"decode vsot.r4", "sender.Round5"}
	case msg == "vsot.r5":
		return bfMustReject, []string{"decode vsot.r5", "receiver.Round6"}
	case msg == "vsot.r3":
		return bfNoComplete, []string{"decode vsot.r3", "receiver.Round4", "sender.Round5", "receiver.Round6"}
	case msg == "vsot.r1" || msg == "vsot.r2":
		return bfWeakCorrelated, nil
	}
	panic(engine.HarnessError{Msg: "unclassified VSOT message " + msg + " " + path})
}

func baseFaultBody(curves int, ls []int) func(*engine.X) {
	choiceSet := [][]byte{{0x00}, {0xff}, {0xa5}}
	return func(x *engine.X) {
		proto := x.Choose("proto", 2) // 0 vsot, 1 ecbbot
		curve := x.Choose("curve", curves)
		l := engine.Pick(x, "L", ls)
		ch := engine.Pick(x, "choices", choiceSet)
		seed := engine.Seed()
		const xi = 8
		pn := [...]string{"vsot", "ecbbot"}[proto]
		label := fmt.Sprintf("basefault/%s/%d", pn, l)
		run := func(s int64, tp tamper) (*otOut, *stepErr) {
			switch {
			case proto == 0 && curve == 0:
				return vsotOut(runVSOT(cvK256, xi, l, ch, s, label, tp))
			case proto == 0:
				return vsotOut(runVSOT(cvP256, xi, l, ch, s, label, tp))
			case curve == 0:
				return ecbbotOut(runECBBOT(cvK256, xi, l, ch, s, label, tp))
			default:
				return ecbbotOut(runECBBOT(cvP256, xi, l, ch, s, label, tp))
			}
		}
		// honest recordings of this instance and of the other instance
		trees, ftrees := map[string]*cbor.Node{}, map[string]*cbor.Node{}
		var order []string
		_, se := run(seed, func(n string, r *cbor.Node) { trees[n] = r.Clone(); order = append(order, n) })
		_, se2 := run(seed+1000, func(n string, r *cbor.Node) { ftrees[n] = r.Clone() })
		if se != nil || se2 != nil {
			x.Failf(pn+"/honest-abort", "%s %s xi=8 L=%d choices=%x: honest run did not complete: %s %s", pn, curveNames[curve], l, ch, first(se), first(se2))
			return
		}
		type tgt struct {
			msg string
			all []leaf
			li  int
		}
		var tgts []tgt
		for _, n := range order {
			all := leavesOf(trees[n])
			for i := range all {
				tgts = append(tgts, tgt{n, all, i})
			}
		}
		tg := tgts[x.Choose("leaf", len(tgts))]
		lf := tg.all[tg.li]
		others, onames := neighbours(tg.all, tg.li)
		stats := map[string]int{}
		for _, m := range mutations(lf.data, others, onames, dataAt(ftrees[tg.msg], lf.path), false) {
			what := fmt.Sprintf("%s %s xi=8 L=%d choices=%x seed=%d: %s %s %s", pn, curveNames[curve], l, ch, seed, tg.msg, lf.path, m.name)
			x.Case(what)
			o, fe := run(seed, oneLeaf(tg.msg, lf.path, m.value))
			class, steps := bfNoPanic, []string(nil)
			if proto == 0 {
				class, steps = vsotClass(tg.msg, lf.path)
			}
			switch {
			case fe != nil && fe.panicked:
				x.Failf(pn+"/panic", "%s: %s", what, first(fe))
			case class == bfMustReject || class == bfNoComplete:
				mustReject(x, "base/faults "+pn, pn, what, fe, steps...)
				stats["rejected"]++
			case fe != nil:
				count("base/faults "+pn, "transport field: "+rejectionClass(fe))
				stats["rejected"]++
			case class == bfWeakCorrelated:
				if checkOT(x, pn+"/altered-transport", what, xi, l, ch, o) {
					count("base/faults "+pn, "transport field: completed, still correlated")
				}
				stats["completed"]++
			default:
				corr := true
				for i := range o.recv {
					for b := range o.recv[i] {
						if string(o.recv[i][b]) != string(o.send[i][bit(ch, i)][b]) {
							corr = false
						}
					}
				}
				count("base/faults "+pn, fmt.Sprintf("transport field: completed, correlated=%v (no check in this protocol)", corr))
				stats["completed"]++
			}
		}
		x.Observe(pn, curveNames[curve], l, fmt.Sprintf("%x", ch), tg.msg, strings.TrimPrefix(lf.path, "$>"), stats)
	}
}
