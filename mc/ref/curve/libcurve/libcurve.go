// Package libcurve binds each bron-crypto curve to its math/big reference model in verifmc/ref/curve.
//
// An adapter couples a library curve with the reference curve and converts points in both directions through the
// library's public affine accessors only (IsZero / AffineX / AffineY / Bytes one way, Field.FromBytes +
// Curve.FromAffine the other way). No library arithmetic is used by the conversions, with one documented exception:
// curve25519.ToLib builds the point from its Edwards image with the low-level SetAffine because the library's public
// constructors cannot express the 2-torsion point (0,0).
//
// Usage:
//
//	a := libcurve.K256()
//	want := a.Ref.Add(a.ToRef(p), a.ToRef(q))       // reference result
//	if !a.Ref.Equal(a.ToRef(p.Add(q)), want) { ... } // compare through affine coordinates
//	lp := a.ToLib(a.Ref.ScalarBaseMul(k))            // reference point -> library point
//
// ToRef / ToLib panic when the conversion itself fails (a library point that is not on the reference curve, a
// reference point the library refuses); TryToRef / TryToLib return the error instead.
package libcurve

import (
	"math/big"

	"github.com/bronlabs/bron-crypto/pkg/base/curves/curve25519"
	"github.com/bronlabs/bron-crypto/pkg/base/curves/edwards25519"
	"github.com/bronlabs/bron-crypto/pkg/base/curves/k256"
	"github.com/bronlabs/bron-crypto/pkg/base/curves/p256"
	"github.com/bronlabs/bron-crypto/pkg/base/curves/pairable/bls12381"
	"github.com/bronlabs/bron-crypto/pkg/base/curves/pasta"

	"verifmc/ref/curve"
)

// Weierstrass adapts a library short-Weierstrass curve over a prime field.
type Weierstrass[P curve.LibAffine[F], F curve.Byteser] struct {
	Ref   *curve.FpCurve
	Lib   curve.LibCurve[P, F]
	Field curve.LibField[F]
}

func (a Weierstrass[P, F]) TryToRef(p P) (curve.FpPoint, error) {
	return curve.FpPointFromLib[F](a.Ref, p)
}
func (a Weierstrass[P, F]) TryToLib(p curve.FpPoint) (P, error) {
	return curve.FpPointToLib(a.Lib, a.Field, a.Ref, p)
}
func (a Weierstrass[P, F]) ToRef(p P) curve.FpPoint { return must(a.TryToRef(p)) }
func (a Weierstrass[P, F]) ToLib(p curve.FpPoint) P { return must(a.TryToLib(p)) }

// WeierstrassFp2 adapts BLS12-381 G2.
type WeierstrassFp2[P curve.LibAffine[F], F curve.Byteser] struct {
	Ref   *curve.Fp2Curve
	Lib   curve.LibCurve[P, F]
	Field curve.LibField[F]
}

func (a WeierstrassFp2[P, F]) TryToRef(p P) (curve.Fp2Point, error) {
	return curve.Fp2PointFromLib[F](a.Ref, p)
}
func (a WeierstrassFp2[P, F]) TryToLib(p curve.Fp2Point) (P, error) {
	return curve.Fp2PointToLib(a.Lib, a.Field, a.Ref, p)
}
func (a WeierstrassFp2[P, F]) ToRef(p P) curve.Fp2Point { return must(a.TryToRef(p)) }
func (a WeierstrassFp2[P, F]) ToLib(p curve.Fp2Point) P { return must(a.TryToLib(p)) }

// Edwards adapts a library twisted-Edwards curve (full curve or prime subgroup type).
type Edwards[P curve.LibAffine[F], F curve.Byteser] struct {
	Ref   *curve.TECurve
	Lib   curve.LibCurve[P, F]
	Field curve.LibField[F]
}

func (a Edwards[P, F]) TryToRef(p P) (curve.EPoint, error) { return curve.EPointFromLib[F](a.Ref, p) }
func (a Edwards[P, F]) TryToLib(p curve.EPoint) (P, error) {
	return curve.EPointToLib(a.Lib, a.Field, a.Ref, p)
}
func (a Edwards[P, F]) ToRef(p P) curve.EPoint { return must(a.TryToRef(p)) }
func (a Edwards[P, F]) ToLib(p curve.EPoint) P { return must(a.TryToLib(p)) }

// Montgomery adapts the library's curve25519 (full (u,v) Montgomery curve, represented internally by its Edwards image).
type Montgomery struct {
	Ref *curve.MCurve
}

func (a Montgomery) TryToRef(p *curve25519.Point) (curve.MPoint, error) {
	return curve.MPointFromLib[*curve25519.BaseFieldElement](a.Ref, p)
}
func (a Montgomery) ToRef(p *curve25519.Point) curve.MPoint { return must(a.TryToRef(p)) }

// TryToLib builds the library point that reads back (TryToRef) as p. The library stores the Edwards image of a
// Montgomery point; the image is MontgomeryToEdwards(p) up to the sign of sqrt(-486664), which RFC 7748 leaves to the
// base-point convention (the library's generator is (9, p - V(P)), i.e. it uses the other root than ref/curve). The
// adapter therefore tries the image and its negative and keeps the one whose public AffineX/AffineY equal p, so the
// conversion does not depend on that convention.
func (a Montgomery) TryToLib(p curve.MPoint) (*curve25519.Point, error) {
	E := curve.Edwards25519()
	e := curve.MontgomeryToEdwards(p)
	for _, cand := range []curve.EPoint{e, E.Neg(e)} {
		x, err := edwards25519.NewBaseField().FromBytes(E.F.Bytes(cand.X))
		if err != nil {
			return nil, err
		}
		y, err := edwards25519.NewBaseField().FromBytes(E.F.Bytes(cand.Y))
		if err != nil {
			return nil, err
		}
		var out curve25519.Point
		if ok := out.V.SetAffine(&x.V, &y.V); ok != 1 {
			return nil, errNotOnLibCurve
		}
		back, err := a.TryToRef(&out)
		if err != nil {
			return nil, err
		}
		if a.Ref.Equal(back, p) {
			return &out, nil
		}
	}
	return nil, errNotOnLibCurve
}
func (a Montgomery) ToLib(p curve.MPoint) *curve25519.Point { return must(a.TryToLib(p)) }

type convError string

func (e convError) Error() string { return string(e) }

const errNotOnLibCurve = convError("libcurve: the library refuses the coordinates")

func must[T any](v T, err error) T {
	if err != nil {
		panic("libcurve: " + err.Error())
	}
	return v
}

// ---------------------------------------------------------------------------------------------------------------
// adapters

func K256() Weierstrass[*k256.Point, *k256.BaseFieldElement] {
	return Weierstrass[*k256.Point, *k256.BaseFieldElement]{curve.K256(), k256.NewCurve(), k256.NewBaseField()}
}

func P256() Weierstrass[*p256.Point, *p256.BaseFieldElement] {
	return Weierstrass[*p256.Point, *p256.BaseFieldElement]{curve.P256(), p256.NewCurve(), p256.NewBaseField()}
}

func Pallas() Weierstrass[*pasta.PallasPoint, *pasta.PallasBaseFieldElement] {
	return Weierstrass[*pasta.PallasPoint, *pasta.PallasBaseFieldElement]{curve.Pallas(), pasta.NewPallasCurve(), pasta.NewPallasBaseField()}
}

func Vesta() Weierstrass[*pasta.VestaPoint, *pasta.VestaBaseFieldElement] {
	return Weierstrass[*pasta.VestaPoint, *pasta.VestaBaseFieldElement]{curve.Vesta(), pasta.NewVestaCurve(), pasta.NewVestaBaseField()}
}

// BLS12381G1: note that the library's G1.FromAffine refuses points outside the prime-order subgroup.
func BLS12381G1() Weierstrass[*bls12381.PointG1, *bls12381.BaseFieldElementG1] {
	return Weierstrass[*bls12381.PointG1, *bls12381.BaseFieldElementG1]{curve.BLS12381G1(), bls12381.NewG1(), bls12381.NewG1BaseField()}
}

// BLS12381G2: coordinates are c0 || c1 (96 bytes); G2.FromAffine refuses points outside the prime-order subgroup.
func BLS12381G2() WeierstrassFp2[*bls12381.PointG2, *bls12381.BaseFieldElementG2] {
	return WeierstrassFp2[*bls12381.PointG2, *bls12381.BaseFieldElementG2]{curve.BLS12381G2(), bls12381.NewG2(), bls12381.NewG2BaseField()}
}

// Edwards25519 is the full curve (cofactor 8): every curve point converts.
func Edwards25519() Edwards[*edwards25519.Point, *edwards25519.BaseFieldElement] {
	return Edwards[*edwards25519.Point, *edwards25519.BaseFieldElement]{curve.Edwards25519(), edwards25519.NewCurve(), edwards25519.NewBaseField()}
}

// Edwards25519Prime is the prime-order subgroup type: ToLib fails for points with a torsion component.
func Edwards25519Prime() Edwards[*edwards25519.PrimeSubGroupPoint, *edwards25519.BaseFieldElement] {
	return Edwards[*edwards25519.PrimeSubGroupPoint, *edwards25519.BaseFieldElement]{curve.Edwards25519(), edwards25519.NewPrimeSubGroup(), edwards25519.NewBaseField()}
}

// Curve25519 is the full Montgomery curve.
func Curve25519() Montgomery { return Montgomery{curve.Curve25519()} }

// ---------------------------------------------------------------------------------------------------------------
// scalars

// ScalarToBig reads a library scalar / field element (canonical big-endian Bytes()).
func ScalarToBig(s curve.Byteser) *big.Int { return new(big.Int).SetBytes(s.Bytes()) }

// ScalarFromBig builds v mod q as a library field element through FromBytes on size bytes (size = field.ElementSize()).
func ScalarFromBig[F any](field curve.LibField[F], size int, q, v *big.Int) F {
	r := new(big.Int).Mod(v, q)
	return must(field.FromBytes(r.FillBytes(make([]byte, size))))
}
