package c12

// Plain reproducers for the findings of this check: each line calls serde.UnmarshalCBOR on a literal byte string
// with nothing of the harness in between. Run: go test -tags purego,verif -run TestTriage -v ./checks/c12/
// (not part of `check C12`; it only prints).

import (
	"encoding/hex"
	"fmt"
	"testing"

	"github.com/bronlabs/bron-crypto/pkg/base/curves/k256"
	"github.com/bronlabs/bron-crypto/pkg/base/nt/modular"
	"github.com/bronlabs/bron-crypto/pkg/base/nt/num"
	"github.com/bronlabs/bron-crypto/pkg/base/nt/znstar"
	"github.com/bronlabs/bron-crypto/pkg/base/serde"
	"github.com/bronlabs/bron-crypto/pkg/encryption/elgamal"
	"github.com/bronlabs/bron-crypto/pkg/key_agreement"
	"github.com/bronlabs/bron-crypto/pkg/mpc"
	"github.com/bronlabs/bron-crypto/pkg/mpc/sharing/accessstructures/boolexpr"
	"github.com/bronlabs/bron-crypto/pkg/mpc/sharing/accessstructures/hierarchical"
	"github.com/bronlabs/bron-crypto/pkg/signatures/ecdsa"
)

func try[T any](name, in string) {
	b, _ := hex.DecodeString(in)
	defer func() {
		if p := recover(); p != nil {
			fmt.Printf("%-46s %-26s PANIC: %.90v\n", name, in, p)
		}
	}()
	v, err := serde.UnmarshalCBOR[T](b)
	if err != nil {
		fmt.Printf("%-46s %-26s error (fine)\n", name, in)
		return
	}
	fmt.Printf("%-46s %-26s accepted: %v\n", name, in, any(v))
}

func TestTriage(t *testing.T) {
	// A. self-described-CBOR tag (stripped by the decoder) around null reaches UnmarshalCBOR with a nil DTO
	try[*k256.Scalar]("k256.Scalar", "d9d9f7f6")
	try[*k256.Point]("k256.Point (non-pointer DTO)", "d9d9f7f6")
	try[*mpc.BaseShard[*k256.Point, *k256.Scalar]]("mpc.BaseShard", "d9d9f7f6")
	// B. the empty map: absent fields dereferenced
	try[*num.NatPlus]("num.NatPlus", "a0")
	try[*ecdsa.Signature[*k256.Scalar]]("ecdsa.Signature", "a0")
	try[*ecdsa.PublicKey[*k256.Point, *k256.BaseFieldElement, *k256.Scalar]]("ecdsa.PublicKey", "a0")
	try[*key_agreement.PrivateKey[*k256.Scalar]]("key_agreement.PrivateKey", "a0")
	try[*modular.OddPrimeFactors]("modular.OddPrimeFactors", "a0")
	try[*znstar.RSAGroupElementUnknownOrder]("znstar.RSAGroupElementUnknownOrder", "a0")
	try[*znstar.PaillierGroupUnknownOrder]("znstar.PaillierGroupUnknownOrder", "a0")
	try[*elgamal.Ciphertext[*k256.Point, *k256.Scalar]]("elgamal.Ciphertext {v:{}}", "a16176a0")
	// C. accepted although the constructor refuses
	try[*modular.SimpleModulus]("modular.SimpleModulus (NewSimple(nil) is refused)", "a0")
	// boolexpr: gate with a null child
	try[*boolexpr.ThresholdGateAccessStructure]("boolexpr: gate with a null child", "d913baa264726f6f74a3646b696e6401686368696c6472656e82a2646174747201646b696e6402f6697468726573686f6c64016c7368617265686f6c64657273a101f5")
	// D. hierarchical: decode/encode is not byte-stable (party order of a level comes from a hash set)
	h, _ := hierarchical.NewHierarchicalConjunctiveThresholdAccessStructure(hierarchical.WithLevel(1, 1, 2, 3, 4, 5, 6, 7, 8))
	e0, _ := serde.MarshalCBOR(h)
	diff := 0
	for i := 0; i < 32; i++ {
		d, err := serde.UnmarshalCBOR[*hierarchical.HierarchicalConjunctiveThreshold](e0)
		if err != nil {
			t.Fatal(err)
		}
		e1, _ := serde.MarshalCBOR(d)
		if string(e1) != string(e0) {
			diff++
		}
	}
	fmt.Printf("hierarchical: %d of 32 decode/encode repetitions changed the bytes\n", diff)
}
