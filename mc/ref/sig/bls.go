package sig

import (
	"math/big"

	"verifmc/ref/curve"
)

// BLSPublicKey is SkToPk: [sk]*G on the key group (G1 for minimal-pubkey-size, G2 for minimal-signature-size).
func BLSPublicKey[E any](c *curve.WCurve[E], sk *big.Int) curve.WPoint[E] {
	return c.ScalarBaseMul(new(big.Int).Mod(sk, c.Q))
}

// BLSSign is CoreSign by definition: [sk]*hm where hm = hash_to_curve(msg) is supplied by the caller.
func BLSSign[E any](c *curve.WCurve[E], sk *big.Int, hm curve.WPoint[E]) curve.WPoint[E] {
	return c.ScalarMul(new(big.Int).Mod(sk, c.Q), hm)
}

// BLSAggregate is sum_i [sk_i]*hm_i: the unique signature-group element accepted by CoreAggregateVerify for the public
// keys [sk_i]*G and the message points hm_i (by bilinearity and non-degeneracy of the pairing).
func BLSAggregate[E any](c *curve.WCurve[E], sks []*big.Int, hms []curve.WPoint[E]) curve.WPoint[E] {
	if len(sks) != len(hms) {
		panic("ref/sig: BLSAggregate length mismatch")
	}
	acc := c.Identity()
	for i := range sks {
		acc = c.Add(acc, BLSSign(c, sks[i], hms[i]))
	}
	return acc
}

// BLSIsValid is the verdict of CoreVerify (one key) / CoreAggregateVerify (several) when the discrete logarithms of all
// public keys are known: no key is the identity (sk_i != 0 mod r), sigma is a non-identity element of the r-torsion
// subgroup, and sigma == sum_i [sk_i]*hm_i.
func BLSIsValid[E any](c *curve.WCurve[E], sks []*big.Int, hms []curve.WPoint[E], sigma curve.WPoint[E]) bool {
	if len(sks) == 0 || len(sks) != len(hms) {
		return false
	}
	for _, sk := range sks {
		if new(big.Int).Mod(sk, c.Q).Sign() == 0 {
			return false
		}
	}
	if sigma.Inf || !c.InSubgroup(sigma) {
		return false
	}
	for _, h := range hms {
		if !c.InSubgroup(h) {
			return false
		}
	}
	return c.Equal(sigma, BLSAggregate(c, sks, hms))
}

// BLSEquals is the equation part of BLSIsValid only: sigma != O and sigma == sum_i [sk_i]*hm_i. Use it when subgroup
// membership of sigma and of the hm_i is known by construction (sums / multiples of subgroup points).
func BLSEquals[E any](c *curve.WCurve[E], sks []*big.Int, hms []curve.WPoint[E], sigma curve.WPoint[E]) bool {
	if len(sks) == 0 || len(sks) != len(hms) || sigma.Inf {
		return false
	}
	return c.Equal(sigma, BLSAggregate(c, sks, hms))
}
