package sig

import (
	"bytes"
	"crypto/ecdsa"
	"crypto/ed25519"
	"crypto/elliptic"
	"crypto/sha256"
	"crypto/sha512"
	"encoding/csv"
	"encoding/hex"
	"math/big"
	"os"
	"strings"
	"testing"

	"verifmc/ref/curve"
)

// self-test of the reference verifiers against independent material: the BIP-340 vector table, crypto/ecdsa on P-256
// (sign there, verify/recover here and vice versa), crypto/ed25519 (Ed25519 verification is exactly the generic Schnorr
// equation with SHA-512, little-endian challenge, RFC 8032 encoding).

func TestBIP340Vectors(t *testing.T) {
	f, err := os.Open("/verif/kat/bip340/test-vectors.csv")
	if err != nil {
		t.Skip("no KAT file:", err)
	}
	defer f.Close()
	r := csv.NewReader(f)
	r.Comment = '#'
	r.FieldsPerRecord = -1
	rows, err := r.ReadAll()
	if err != nil {
		t.Fatal(err)
	}
	n := 0
	for _, row := range rows[1:] {
		sk, _ := hex.DecodeString(row[1])
		pk, _ := hex.DecodeString(row[2])
		aux, _ := hex.DecodeString(row[3])
		msg, _ := hex.DecodeString(row[4])
		sg, _ := hex.DecodeString(row[5])
		want := row[6] == "TRUE"
		if got := BIP340Verify(pk, msg, sg); got != want {
			t.Errorf("vector %s: verify=%v want %v", row[0], got, want)
		}
		if len(sk) > 0 {
			out, ok := BIP340Sign(sk, msg, aux)
			if !ok || !bytes.Equal(out, sg) {
				t.Errorf("vector %s: sign mismatch", row[0])
			}
			p, ok := BIP340PubKey(sk)
			if !ok || !bytes.Equal(p, pk) {
				t.Errorf("vector %s: pubkey mismatch", row[0])
			}
		}
		n++
	}
	if n != 19 {
		t.Errorf("expected 19 vectors, got %d", n)
	}
}

type ctr struct{ n byte }

func (c *ctr) next() *big.Int {
	c.n++
	h := sha256.Sum256([]byte{c.n})
	return new(big.Int).SetBytes(h[:])
}

func TestECDSAAgainstStdlibP256(t *testing.T) {
	c := curve.P256()
	var g ctr
	for i := 0; i < 12; i++ {
		d := new(big.Int).Mod(g.next(), c.Q)
		k := new(big.Int).Mod(g.next(), c.Q)
		var digest []byte
		switch i % 3 {
		case 0:
			h := sha256.Sum256([]byte{byte(i)})
			digest = h[:]
		case 1:
			h := sha512.Sum512([]byte{byte(i)})
			digest = h[:]
		default:
			digest = []byte{byte(i), 1, 2} // short digest
		}
		r, s, v, ok := ECDSASign(c, d, k, digest)
		if !ok {
			t.Fatal("sign failed")
		}
		Q := c.ScalarBaseMul(d)
		pub := &ecdsa.PublicKey{Curve: elliptic.P256(), X: Q.X, Y: Q.Y}
		if !ecdsa.Verify(pub, digest, r, s) {
			t.Errorf("stdlib rejects reference signature %d", i)
		}
		if !ECDSAVerify(c, Q, digest, r, s) || !ECDSAVerify(c, Q, digest, r, NegS(c, s)) {
			t.Errorf("reference rejects own signature %d", i)
		}
		rec, ok := ECDSARecover(c, digest, r, s, v)
		if !ok || !c.Equal(rec, Q) {
			t.Errorf("recover failed %d", i)
		}
		rec2, ok := ECDSARecover(c, digest, r, NegS(c, s), v^1)
		if !ok || !c.Equal(rec2, Q) {
			t.Errorf("recover of the n-s form failed %d", i)
		}
		if rec3, ok := ECDSARecover(c, digest, r, s, v^1); ok && c.Equal(rec3, Q) {
			t.Errorf("recover with flipped v returned the signing key %d", i)
		}
		// tamper: stdlib and reference must agree on every single-bit flip of r
		for b := 0; b < 256; b += 37 {
			r2 := new(big.Int).Xor(r, new(big.Int).Lsh(big.NewInt(1), uint(b)))
			want := r2.Sign() > 0 && ecdsa.Verify(pub, digest, r2, s)
			if got := ECDSAVerify(c, Q, digest, r2, s); got != want {
				t.Errorf("bit %d: reference %v stdlib %v", b, got, want)
			}
		}
		if IsLowS(c, s) == IsLowS(c, NegS(c, s)) {
			t.Errorf("low-S predicate not exclusive")
		}
	}
}

func TestECDSAK256SelfConsistency(t *testing.T) {
	c := curve.K256()
	var g ctr
	for i := 0; i < 6; i++ {
		d := new(big.Int).Mod(g.next(), c.Q)
		k := new(big.Int).Mod(g.next(), c.Q)
		h := sha256.Sum256([]byte{byte(i)})
		r, s, v, ok := ECDSASign(c, d, k, h[:])
		Q := c.ScalarBaseMul(d)
		if !ok || !ECDSAVerifyV(c, Q, h[:], r, s, &v) || !ECDSAVerifyV(c, Q, h[:], r, s, nil) {
			t.Fatalf("k256 %d", i)
		}
		v1 := v ^ 1
		if ECDSAVerifyV(c, Q, h[:], r, s, &v1) {
			t.Errorf("flipped v accepted")
		}
		if !ECDSAVerifyV(c, Q, h[:], r, NegS(c, s), &v1) {
			t.Errorf("n-s with flipped v rejected")
		}
		if ECDSAVerifyStrict(c, Q, h[:], r, s, &v) == ECDSAVerifyStrict(c, Q, h[:], r, NegS(c, s), &v1) {
			t.Errorf("strict must accept exactly one of the two forms")
		}
		h2 := sha256.Sum256([]byte{byte(i), 1})
		if ECDSAVerify(c, Q, h2[:], r, s) || ECDSAVerify(c, c.Double(Q), h[:], r, s) {
			t.Errorf("wrong digest / key accepted")
		}
	}
}

func TestGenericSchnorrIsEd25519(t *testing.T) {
	g := Ed25519Group()
	cfg := SchnorrConfig{Hash: sha512.New, LittleEndian: true}
	for i := 0; i < 6; i++ {
		seed := sha256.Sum256([]byte{byte(i), 9})
		priv := ed25519.NewKeyFromSeed(seed[:])
		pub := priv.Public().(ed25519.PublicKey)
		msg := []byte(strings.Repeat("m", i*7))
		sg := ed25519.Sign(priv, msg)
		A, ok1 := g.C.Decompress(pub)
		R, ok2 := g.C.Decompress(sg[:32])
		if !ok1 || !ok2 {
			t.Fatal("decompress")
		}
		sLE := append([]byte{}, sg[32:]...)
		for a, b := 0, len(sLE)-1; a < b; a, b = a+1, b-1 {
			sLE[a], sLE[b] = sLE[b], sLE[a]
		}
		s := new(big.Int).SetBytes(sLE)
		if !SchnorrVerify(g, cfg, A, R, s, msg) {
			t.Errorf("Ed25519 signature %d rejected by the generic Schnorr reference", i)
		}
		if SchnorrVerify(g, cfg, A, R, s, append(msg, 0)) || SchnorrVerify(g, cfg, A, R, new(big.Int).Add(s, big.NewInt(1)), msg) {
			t.Errorf("tampered Ed25519 signature %d accepted", i)
		}
	}
}

func TestSchnorrSignVerifyAllGroups(t *testing.T) {
	var gen ctr
	run := func(name string, f func(cfg SchnorrConfig, x, k *big.Int) bool) {
		for _, le := range []bool{false, true} {
			for _, neg := range []bool{false, true} {
				cfg := SchnorrConfig{Hash: sha256.New, LittleEndian: le, NegResponse: neg}
				if !f(cfg, gen.next(), gen.next()) {
					t.Errorf("%s le=%v neg=%v", name, le, neg)
				}
			}
		}
	}
	for _, g := range []WeierstrassGroup{K256Group(), P256Group(), PallasGroup(), VestaGroup()} {
		run(g.Name(), func(cfg SchnorrConfig, x, k *big.Int) bool {
			x.Mod(x, g.Order())
			k.Mod(k, g.Order())
			R, s := SchnorrSign[curve.FpPoint](g, cfg, x, k, []byte("abc"))
			P := g.Mul(x, g.Generator())
			bad := cfg
			bad.NegResponse = !cfg.NegResponse
			return SchnorrVerify[curve.FpPoint](g, cfg, P, R, s, []byte("abc")) &&
				!SchnorrVerify[curve.FpPoint](g, cfg, P, R, s, []byte("abd")) &&
				!SchnorrVerify[curve.FpPoint](g, bad, P, R, s, []byte("abc")) &&
				!SchnorrVerify[curve.FpPoint](g, cfg, g.Neg(P), R, s, []byte("abc"))
		})
	}
	e := Ed25519Group()
	run(e.Name(), func(cfg SchnorrConfig, x, k *big.Int) bool {
		x.Mod(x, e.Order())
		k.Mod(k, e.Order())
		R, s := SchnorrSign[curve.EPoint](e, cfg, x, k, []byte("abc"))
		P := e.Mul(x, e.Generator())
		return SchnorrVerify[curve.EPoint](e, cfg, P, R, s, []byte("abc")) && !SchnorrVerify[curve.EPoint](e, cfg, P, R, s, []byte("abd"))
	})
}

func TestBLSByDefinition(t *testing.T) {
	c1, c2 := curve.BLS12381G1(), curve.BLS12381G2()
	sk1, sk2 := big.NewInt(5), new(big.Int).Sub(c1.Q, big.NewInt(1))
	h1, h2 := c1.ScalarBaseMul(big.NewInt(77)), c1.ScalarBaseMul(big.NewInt(78))
	agg := c1.Add(BLSSign(c1, sk1, h1), BLSSign(c1, sk2, h2))
	if !BLSIsValid(c1, []*big.Int{sk1, sk2}, []curve.FpPoint{h1, h2}, agg) {
		t.Error("honest aggregate rejected")
	}
	if BLSIsValid(c1, []*big.Int{sk1, sk2}, []curve.FpPoint{h2, h1}, agg) || BLSIsValid(c1, []*big.Int{sk1}, []curve.FpPoint{h1}, agg) {
		t.Error("wrong aggregate accepted")
	}
	if BLSIsValid(c1, []*big.Int{big.NewInt(0)}, []curve.FpPoint{h1}, c1.Identity()) {
		t.Error("identity accepted")
	}
	g := c2.ScalarBaseMul(big.NewInt(3))
	if !BLSIsValid(c2, []*big.Int{sk2}, []curve.Fp2Point{g}, c2.Neg(g)) {
		t.Error("G2: [r-1]H != -H")
	}
	if !c2.Equal(BLSPublicKey(c2, big.NewInt(1)), c2.G) {
		t.Error("pk(1) != G")
	}
}
