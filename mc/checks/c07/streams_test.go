package c07

import (
	"errors"
	"fmt"
	"io"

	"verifmc/det"
	"verifmc/proto"
)

// rmode is how a party's supplied random source behaves in one run.
type rmode int

const (
	mNormal rmode = iota // the det stream (seed, label)
	mErrAt               // the det stream, but the Read call with index errAt fails (once; the stream then continues)
	mZero                // all-zero bytes; after zeroBudget bytes every Read fails (rejection samplers must terminate)
	mShort               // the SAME byte sequence as mNormal, handed out at most shortChunk bytes per Read call
)

const (
	zeroBudget = 64 << 10
	shortChunk = 3
)

var errInjected = errors.New("c07: injected failure of the caller-supplied random source")

// spec names one party's source for one run. Two specs with the same sig() produce the same bytes.
type spec struct {
	label string
	mode  rmode
	errAt int64
}

func (s spec) sig() string {
	switch s.mode {
	case mErrAt:
		return fmt.Sprintf("%s!err@%d", s.label, s.errAt)
	case mZero:
		return "zero"
	}
	return s.label // mShort delivers the same bytes as mNormal
}

// tap is the instrumented reader handed to the library: it counts, and it is the ONLY source a party is given.
type tap struct {
	spec  spec
	s     *det.Stream
	Calls int64
	Bytes int64
	// consumption when the party's first message left (set by the network hook); -1 = no message sent
	atFirstSend int64
	// marks: Read-call count at every moment a message of this party left (round boundaries), this session
	marks  []int64
	failed int64 // number of Read calls answered with an error
	session     int   // how many protocol sessions this reader has already served
}

func newTap(seed int64, sp spec) *tap {
	return &tap{spec: sp, s: det.New(seed, sp.label), atFirstSend: -1}
}

func (t *tap) Read(p []byte) (int, error) {
	idx := t.Calls
	t.Calls++
	switch t.spec.mode {
	case mErrAt:
		if idx == t.spec.errAt {
			t.failed++
			return 0, errInjected
		}
	case mZero:
		if t.Bytes+int64(len(p)) > zeroBudget {
			t.failed++
			return 0, errInjected
		}
		for i := range p {
			p[i] = 0
		}
		t.Bytes += int64(len(p))
		return len(p), nil
	case mShort:
		if len(p) > shortChunk {
			p = p[:shortChunk]
		}
	}
	n, err := t.s.Read(p)
	t.Bytes += int64(n)
	return n, err
}

var _ io.Reader = (*tap)(nil)

// ownSig identifies the bytes a party's source will deliver during the NEXT session it serves.
func (t *tap) ownSig() string { return fmt.Sprintf("%s#%d", t.spec.sig(), t.session) }

// taps builds one reader per party. base labels are "<case>/p<id>"; repl overrides single parties.
func mkTaps(seed int64, caseName string, ids []proto.ID, repl map[proto.ID]spec) map[proto.ID]*tap {
	out := map[proto.ID]*tap{}
	for _, id := range ids {
		sp := spec{label: fmt.Sprintf("%s/p%d", caseName, id)}
		if r, ok := repl[id]; ok {
			sp = r
			if sp.label == "" {
				sp.label = fmt.Sprintf("%s/p%d", caseName, id)
			}
		}
		out[id] = newTap(seed, sp)
	}
	return out
}
