package c11

import (
	"bytes"
	"fmt"
	"io"

	"github.com/bronlabs/bron-crypto/pkg/base/datastructures/hashmap"
	"github.com/bronlabs/bron-crypto/pkg/base/datastructures/hashset"
	"github.com/bronlabs/bron-crypto/pkg/mcrt"
	"github.com/bronlabs/bron-crypto/pkg/mpc/session"
	"github.com/bronlabs/bron-crypto/pkg/mpc/sharing"
	"github.com/bronlabs/bron-crypto/pkg/network"

	"verifmc/det"
	"verifmc/engine"
)

// sessionRoundByRound drives the session setup through the round-by-round API with the given seeds (the reference
// for "as consistent and valid as when the same protocols are driven round by round").
func sessionRoundByRound(ids []sharing.ID, seed int64) (map[sharing.ID]*session.Context, error) {
	quorum := hashset.NewComparable(ids...).Freeze()
	ps := map[sharing.ID]*session.Participant{}
	for _, id := range ids {
		p, err := session.NewParticipant(id, quorum, det.New(seed, fmt.Sprintf("session/%d", id)))
		if err != nil {
			return nil, err
		}
		ps[id] = p
	}
	others := func(me sharing.ID) []sharing.ID {
		var o []sharing.ID
		for _, id := range ids {
			if id != me {
				o = append(o, id)
			}
		}
		return o
	}
	r1 := map[sharing.ID]*session.Round1Broadcast{}
	for _, id := range ids {
		m, err := ps[id].Round1()
		if err != nil {
			return nil, err
		}
		r1[id] = m
	}
	r2b := map[sharing.ID]*session.Round2Broadcast{}
	r2u := map[sharing.ID]network.OutgoingUnicasts[*session.Round2P2P, *session.Participant]{}
	for _, id := range ids {
		in := map[sharing.ID]*session.Round1Broadcast{}
		for _, o := range others(id) {
			in[o] = r1[o]
		}
		b, u, err := ps[id].Round2(hashmap.NewImmutableComparableFromNativeLike(in))
		if err != nil {
			return nil, err
		}
		r2b[id], r2u[id] = b, u
	}
	r3u := map[sharing.ID]network.OutgoingUnicasts[*session.Round3P2P, *session.Participant]{}
	for _, id := range ids {
		inB := map[sharing.ID]*session.Round2Broadcast{}
		inU := map[sharing.ID]*session.Round2P2P{}
		for _, o := range others(id) {
			inB[o] = r2b[o]
			m, _ := r2u[o].Get(id)
			inU[o] = m
		}
		u, err := ps[id].Round3(hashmap.NewImmutableComparableFromNativeLike(inB), hashmap.NewImmutableComparableFromNativeLike(inU))
		if err != nil {
			return nil, err
		}
		r3u[id] = u
	}
	out := map[sharing.ID]*session.Context{}
	for _, id := range ids {
		inU := map[sharing.ID]*session.Round3P2P{}
		for _, o := range others(id) {
			m, _ := r3u[o].Get(id)
			inU[o] = m
		}
		c, err := ps[id].Round4(hashmap.NewImmutableComparableFromNativeLike(inU))
		if err != nil {
			return nil, err
		}
		out[id] = c
	}
	return out, nil
}

func seedBytes(r io.Reader) []byte {
	b := make([]byte, 32)
	_, _ = io.ReadFull(r, b)
	return b
}

// p1Session runs the real session-setup runners of all parties over real routers and the adversarial network:
// FIFO arrival by default; every other arrival order, every preemption and one identical retransmission of any
// message each cost one deviation.
func p1Session(x *engine.X, ids []sharing.ID) {
	seed := engine.Seed()
	ref, err := sessionRoundByRound(ids, seed)
	if err != nil {
		panic(engine.HarnessError{Msg: "round-by-round reference failed: " + err.Error()})
	}
	s := mcrt.New(x)
	s.AllDev = true
	out := map[sharing.ID]*session.Context{}
	errsBy := map[sharing.ID]error{}
	s.Run(func() {
		net := NewNet(ids...)
		net.fifo = true
		net.dupDev = true
		quorum := hashset.NewComparable(ids...).Freeze()
		done := 0
		var routers []*network.Router
		for _, id := range ids {
			rt := network.NewRouter(net.Endpoint(id))
			routers = append(routers, rt)
			mcrt.GoNamed(fmt.Sprintf("party-%d", id), func() {
				r, err := session.NewSessionRunner(id, quorum, det.New(seed, fmt.Sprintf("session/%d", id)))
				if err != nil {
					errsBy[id] = err
					done++
					return
				}
				c, err := r.Run(bg, rt, nil)
				out[id], errsBy[id] = c, err
				done++
			})
		}
		join(&done, len(ids))
		for _, rt := range routers {
			rt.Close()
		}
	})
	if s.HarnessErr != "" {
		panic(engine.HarnessError{Msg: s.HarnessErr})
	}
	if s.Deadlock != "" {
		x.Failf("runner/deadlock", "DEADLOCK running session setup over routers although every message was delivered or deliverable; blocked:%s", s.Deadlock)
		return
	}
	for _, p := range s.Panics {
		x.Failf("runner/panic", "panic: %s", p)
	}
	for _, id := range ids {
		if errsBy[id] != nil {
			x.Failf("runner/failed", "party %d failed under a benign delivery order / identical retransmission: %v", id, errsBy[id])
			return
		}
	}
	for _, id := range ids {
		if out[id].SessionID() != ref[id].SessionID() {
			x.Failf("runner/sid-differs", "party %d: session id over the runner differs from the round-by-round run with the same seeds", id)
		}
		if out[id].SessionID() != out[ids[0]].SessionID() {
			x.Failf("runner/sid-disagree", "parties %d and %d hold different session ids", id, ids[0])
		}
		for _, o := range ids {
			if o == id {
				continue
			}
			a, b := seedBytes(out[id].Seeds()[o]), seedBytes(out[o].Seeds()[id])
			if !bytes.Equal(a, b) {
				x.Failf("runner/seed-asymmetric", "pairwise seed of (%d,%d) differs between the two parties", id, o)
			}
			if !bytes.Equal(a, seedBytes(ref[id].Seeds()[o])) {
				x.Failf("runner/seed-differs", "pairwise seed (%d,%d) over the runner differs from the round-by-round run", id, o)
			}
		}
	}
	x.Observe(s.Switches)
}
